#!/bin/bash
# genmod.sh <dir>: write <dir>/go.mod + <dir>/go.sum for the harness module `verif`, bound to $VERIF_REPO.
# The whole body of the repository's go.mod is copied (go/toolchain lines, require blocks, replace block):
# copying less makes -mod=mod prune requirements and later imports die with "module lookup disabled".
set -euo pipefail
. "$(dirname "$0")/env.sh"
out="$1"
mkdir -p "$out"
{
  echo "module verif"
  echo
  grep -v '^module ' "$VERIF_REPO/go.mod"
  echo
  echo "require github.com/metrico/qryn v0.0.0"
  echo "replace github.com/metrico/qryn => $VERIF_REPO"
} > "$out/go.mod.new"
if ! cmp -s "$out/go.mod.new" "$out/go.mod.src" 2>/dev/null; then
  cp "$out/go.mod.new" "$out/go.mod"
  cp "$out/go.mod.new" "$out/go.mod.src"
  cp "$VERIF_REPO/go.sum" "$out/go.sum"
fi
rm -f "$out/go.mod.new"
