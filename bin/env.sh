# sourced by every script in /verif/bin.  Offline Go environment that actually works in this sandbox
# (see DESIGN.md §1): GOSUMDB must stay unset, GOTOOLCHAIN must stay auto (cached go1.24.2 is used).
export GOFLAGS=-mod=mod
export GOPROXY=off
unset GOSUMDB GOTOOLCHAIN GOWORK
export GOWORK=off
export VERIF_ROOT="${VERIF_ROOT:-/verif}"
export VERIF_REPO="${VERIF_REPO:-/repo}"
# all scratch output (generated go.mod, overlays, binaries, worker dirs) goes here; removed by the caller
export VERIF_SCRATCH_BASE="${VERIF_SCRATCH_BASE:-/var/tmp}"
