# sourced by every script in /verif/bin.  Offline Go environment that actually works in this sandbox
# (see DESIGN.md §1): GOSUMDB must stay unset, GOTOOLCHAIN must stay auto (cached go1.24.2 is used).
export GOFLAGS=-mod=mod
export GOPROXY=off
unset GOSUMDB GOTOOLCHAIN GOWORK
export GOWORK=off
# root of the framework = the directory holding this bin/ (so that a snapshot of /verif runs itself, not /verif)
_envsh_dir="$(cd "$(dirname "${BASH_SOURCE[0]}")" && pwd)"
export VERIF_ROOT="${VERIF_ROOT:-$(dirname "$_envsh_dir")}"
export VERIF_REPO="${VERIF_REPO:-/repo}"
# all scratch output (generated go.mod, overlays, binaries, worker dirs) goes here; removed by the caller
export VERIF_SCRATCH_BASE="${VERIF_SCRATCH_BASE:-/var/tmp}"
