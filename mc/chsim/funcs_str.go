package chsim

import (
	"encoding/hex"
	"regexp"
	"strings"
	"sync"
	"unicode/utf8"
)

// LikeToRegexp converts a LIKE pattern into an RE2 expression exactly like ClickHouse's likePatternToRegexp
// (current versions): `%` = any sequence, `_` = any one character, `\%` `\_` `\\` are the literal characters,
// a backslash before any other character is a literal backslash, a trailing backslash is an error.
func LikeToRegexp(pattern string) (string, error) {
	var res strings.Builder
	pos, end := 0, len(pattern)
	if pos < end && pattern[pos] == '%' {
		for pos++; pos < end; pos++ {
			if pattern[pos] != '%' {
				break
			}
		}
	} else {
		res.WriteByte('^')
	}
	for pos < end {
		c := pattern[pos]
		switch c {
		case '^', '$', '.', '[', '|', '(', ')', '?', '*', '+', '{':
			res.WriteByte('\\')
			res.WriteByte(c)
		case '%':
			if pos+1 != end {
				res.WriteString(".*")
			} else {
				return res.String(), nil
			}
		case '_':
			res.WriteByte('.')
		case '\\':
			if pos+1 == end {
				return "", evalErrorf("CANNOT_PARSE_ESCAPE_SEQUENCE", "invalid escape sequence at the end of LIKE pattern %q", pattern)
			}
			switch pattern[pos+1] {
			case '%', '_':
				res.WriteByte(pattern[pos+1])
				pos++
			case '\\':
				res.WriteString(`\\`)
				pos++
			default:
				res.WriteString(`\\`)
			}
		default:
			res.WriteByte(c)
		}
		pos++
	}
	res.WriteByte('$')
	return res.String(), nil
}

var reCache sync.Map // "flags\x00pattern" → *regexp.Regexp | error

// compileRE2 compiles a ClickHouse regular expression: RE2 syntax, `.` matches newlines (ClickHouse sets dot_nl).
func compileRE2(pattern string, caseless bool) (*regexp.Regexp, error) {
	key := "s\x00" + pattern
	if caseless {
		key = "si\x00" + pattern
	}
	if c, ok := reCache.Load(key); ok {
		if re, ok := c.(*regexp.Regexp); ok {
			return re, nil
		}
		return nil, c.(error)
	}
	flags := "(?s)"
	if caseless {
		flags = "(?si)"
	}
	re, err := regexp.Compile(flags + pattern)
	if err != nil {
		e := evalErrorf("CANNOT_COMPILE_REGEXP", "cannot compile re2 %q: %v", pattern, err)
		reCache.Store(key, e)
		return nil, e
	}
	reCache.Store(key, re)
	return re, nil
}

func likeFn(name string, negate, caseless bool) *scalarFn {
	return &scalarFn{name: name, min: 2, max: 2, ret: retConst(tUInt8), eval: func(_ *callCtx, a []Value) (Value, error) {
		s, ok1 := a[0].(string)
		p, ok2 := a[1].(string)
		if !ok1 || !ok2 {
			return nil, evalErrorf("ILLEGAL_TYPE_OF_ARGUMENT", "%s(%s, %s)", name, typeNameOf(a[0]), typeNameOf(a[1]))
		}
		rs, err := LikeToRegexp(p)
		if err != nil {
			return nil, err
		}
		re, err := compileRE2(rs, caseless)
		if err != nil {
			return nil, err
		}
		return boolVal(re.MatchString(s) != negate), nil
	}}
}

func strArg(fn string, v Value) (string, error) {
	s, ok := v.(string)
	if !ok {
		return "", typeErr(fn, v)
	}
	return s, nil
}

func registerStrings() {
	reg(likeFn("like", false, false))
	reg(likeFn("notLike", true, false))
	reg(likeFn("ilike", false, true))
	reg(likeFn("notILike", true, true))
	reg(&scalarFn{name: "match", min: 2, max: 2, ret: retConst(tUInt8), eval: func(_ *callCtx, a []Value) (Value, error) {
		s, ok1 := a[0].(string)
		p, ok2 := a[1].(string)
		if !ok1 || !ok2 {
			return nil, evalErrorf("ILLEGAL_TYPE_OF_ARGUMENT", "match(%s, %s)", typeNameOf(a[0]), typeNameOf(a[1]))
		}
		re, err := compileRE2(p, false)
		if err != nil {
			return nil, err
		}
		return boolVal(re.MatchString(s)), nil
	}})
	reg(&scalarFn{name: "extract", min: 2, max: 2, ret: retConst(tString), eval: func(_ *callCtx, a []Value) (Value, error) {
		s, err := strArg("extract", a[0])
		if err != nil {
			return nil, err
		}
		p, err := strArg("extract", a[1])
		if err != nil {
			return nil, err
		}
		re, err := compileRE2(p, false)
		if err != nil {
			return nil, err
		}
		m := re.FindStringSubmatch(s)
		if m == nil {
			return "", nil
		}
		if len(m) > 1 {
			return m[1], nil
		}
		return m[0], nil
	}})
	groups := func(name string, horizontal bool) {
		reg(&scalarFn{name: name, min: 2, max: 2, ret: retConst(tArray(tArray(tString))), eval: func(_ *callCtx, a []Value) (Value, error) {
			s, err := strArg(name, a[0])
			if err != nil {
				return nil, err
			}
			p, err := strArg(name, a[1])
			if err != nil {
				return nil, err
			}
			re, err := compileRE2(p, false)
			if err != nil {
				return nil, err
			}
			ng := re.NumSubexp()
			if ng == 0 {
				return nil, evalErrorf("BAD_ARGUMENTS", "there are no groups in regexp: %s", p)
			}
			ms := re.FindAllStringSubmatch(s, -1)
			if horizontal {
				out := make(Array, ng)
				for g := 0; g < ng; g++ {
					col := make(Array, len(ms))
					for i, m := range ms {
						col[i] = m[g+1]
					}
					out[g] = col
				}
				return out, nil
			}
			out := make(Array, len(ms))
			for i, m := range ms {
				row := make(Array, ng)
				for g := 0; g < ng; g++ {
					row[g] = m[g+1]
				}
				out[i] = row
			}
			return out, nil
		}})
	}
	groups("extractAllGroupsHorizontal", true)
	groups("extractAllGroupsVertical", false)
	scalarFns["extractAllGroups"] = scalarFns["extractAllGroupsVertical"]

	reg(&scalarFn{name: "length", min: 1, max: 1, ret: retConst(tUInt64), eval: func(_ *callCtx, a []Value) (Value, error) {
		switch x := a[0].(type) {
		case string:
			return uint64(len(x)), nil
		case Array:
			return uint64(len(x)), nil
		case *Map:
			return uint64(len(x.Keys)), nil
		}
		return nil, typeErr("length", a[0])
	}}, "char_length", "character_length", "octet_length")
	reg(&scalarFn{name: "lengthUTF8", min: 1, max: 1, ret: retConst(tUInt64), eval: func(_ *callCtx, a []Value) (Value, error) {
		s, err := strArg("lengthUTF8", a[0])
		if err != nil {
			return nil, err
		}
		return uint64(utf8.RuneCountInString(s)), nil
	}})
	reg(&scalarFn{name: "empty", min: 1, max: 1, ret: retConst(tUInt8), eval: func(_ *callCtx, a []Value) (Value, error) {
		switch x := a[0].(type) {
		case string:
			return boolVal(len(x) == 0), nil
		case Array:
			return boolVal(len(x) == 0), nil
		case *Map:
			return boolVal(len(x.Keys) == 0), nil
		}
		return nil, typeErr("empty", a[0])
	}})
	reg(&scalarFn{name: "notEmpty", min: 1, max: 1, ret: retConst(tUInt8), eval: func(_ *callCtx, a []Value) (Value, error) {
		switch x := a[0].(type) {
		case string:
			return boolVal(len(x) != 0), nil
		case Array:
			return boolVal(len(x) != 0), nil
		case *Map:
			return boolVal(len(x.Keys) != 0), nil
		}
		return nil, typeErr("notEmpty", a[0])
	}})
	asciiCase := func(name string, up bool) {
		reg(&scalarFn{name: name, min: 1, max: 1, ret: retConst(tString), eval: func(_ *callCtx, a []Value) (Value, error) {
			s, err := strArg(name, a[0])
			if err != nil {
				return nil, err
			}
			b := []byte(s)
			for i, c := range b {
				if up && c >= 'a' && c <= 'z' {
					b[i] = c - 32
				} else if !up && c >= 'A' && c <= 'Z' {
					b[i] = c + 32
				}
			}
			return string(b), nil
		}})
	}
	asciiCase("lower", false)
	asciiCase("upper", true)
	scalarFns["lcase"] = scalarFns["lower"]
	scalarFns["ucase"] = scalarFns["upper"]
	reg(&scalarFn{name: "lowerUTF8", min: 1, max: 1, ret: retConst(tString), eval: func(_ *callCtx, a []Value) (Value, error) {
		s, err := strArg("lowerUTF8", a[0])
		if err != nil {
			return nil, err
		}
		return strings.ToLower(s), nil
	}})
	reg(&scalarFn{name: "upperUTF8", min: 1, max: 1, ret: retConst(tString), eval: func(_ *callCtx, a []Value) (Value, error) {
		s, err := strArg("upperUTF8", a[0])
		if err != nil {
			return nil, err
		}
		return strings.ToUpper(s), nil
	}})
	reg(&scalarFn{name: "concat", min: 1, max: -1, ret: retConst(tString), eval: func(_ *callCtx, a []Value) (Value, error) {
		var b strings.Builder
		for _, v := range a {
			switch v.(type) {
			case Array, Tuple, *Map, *AggState:
				return nil, unsupportedf("concat of %s", typeNameOf(v))
			}
			b.WriteString(ToString(v))
		}
		return b.String(), nil
	}})
	reg(&scalarFn{name: "concatWithSeparator", min: 1, max: -1, ret: retConst(tString), eval: func(_ *callCtx, a []Value) (Value, error) {
		sep, err := strArg("concatWithSeparator", a[0])
		if err != nil {
			return nil, err
		}
		parts := make([]string, 0, len(a)-1)
		for _, v := range a[1:] {
			s, err := strArg("concatWithSeparator", v)
			if err != nil {
				return nil, err
			}
			parts = append(parts, s)
		}
		return strings.Join(parts, sep), nil
	}}, "concat_ws")
	reg(&scalarFn{name: "format", min: 1, max: -1, ret: retConst(tString), eval: func(_ *callCtx, a []Value) (Value, error) {
		pat, err := strArg("format", a[0])
		if err != nil {
			return nil, err
		}
		args := make([]string, len(a)-1)
		for i, v := range a[1:] {
			switch v.(type) {
			case Array, Tuple, *Map, *AggState:
				return nil, unsupportedf("format of %s", typeNameOf(v))
			}
			args[i] = ToString(v)
		}
		return chFormat(pat, args)
	}})
	reg(&scalarFn{name: "substring", min: 2, max: 3, ret: retConst(tString), eval: func(_ *callCtx, a []Value) (Value, error) {
		s, err := strArg("substring", a[0])
		if err != nil {
			return nil, err
		}
		if !isNumeric(a[1]) || (len(a) == 3 && !isNumeric(a[2])) {
			return nil, typeErr("substring", a[1])
		}
		off := asInt64(a[1])
		n := int64(len(s))
		var start int64
		switch {
		case off > 0:
			start = off - 1
		case off < 0:
			start = n + off
			if start < 0 {
				start = 0
			}
		default:
			return nil, unsupportedf("substring with offset 0 (version-dependent)")
		}
		if start > n {
			start = n
		}
		end := n
		if len(a) == 3 {
			l := asInt64(a[2])
			if l < 0 {
				end = n + l
			} else {
				end = start + l
			}
			if end > n {
				end = n
			}
			if end < start {
				end = start
			}
		}
		return s[start:end], nil
	}}, "substr", "mid")
	reg(&scalarFn{name: "left", min: 2, max: 2, ret: retConst(tString), eval: func(_ *callCtx, a []Value) (Value, error) {
		s, err := strArg("left", a[0])
		if err != nil {
			return nil, err
		}
		n := asInt64(a[1])
		if n < 0 {
			n = int64(len(s)) + n
		}
		if n < 0 {
			n = 0
		}
		if n > int64(len(s)) {
			n = int64(len(s))
		}
		return s[:n], nil
	}})
	reg(&scalarFn{name: "right", min: 2, max: 2, ret: retConst(tString), eval: func(_ *callCtx, a []Value) (Value, error) {
		s, err := strArg("right", a[0])
		if err != nil {
			return nil, err
		}
		n := asInt64(a[1])
		if n < 0 {
			n = int64(len(s)) + n
		}
		if n < 0 {
			n = 0
		}
		if n > int64(len(s)) {
			n = int64(len(s))
		}
		return s[int64(len(s))-n:], nil
	}})
	reg(&scalarFn{name: "startsWith", min: 2, max: 2, ret: retConst(tUInt8), eval: func(_ *callCtx, a []Value) (Value, error) {
		s, err := strArg("startsWith", a[0])
		if err != nil {
			return nil, err
		}
		p, err := strArg("startsWith", a[1])
		if err != nil {
			return nil, err
		}
		return boolVal(strings.HasPrefix(s, p)), nil
	}})
	reg(&scalarFn{name: "endsWith", min: 2, max: 2, ret: retConst(tUInt8), eval: func(_ *callCtx, a []Value) (Value, error) {
		s, err := strArg("endsWith", a[0])
		if err != nil {
			return nil, err
		}
		p, err := strArg("endsWith", a[1])
		if err != nil {
			return nil, err
		}
		return boolVal(strings.HasSuffix(s, p)), nil
	}})
	reg(&scalarFn{name: "position", min: 2, max: 2, ret: retConst(tUInt64), eval: func(_ *callCtx, a []Value) (Value, error) {
		s, err := strArg("position", a[0])
		if err != nil {
			return nil, err
		}
		p, err := strArg("position", a[1])
		if err != nil {
			return nil, err
		}
		return uint64(strings.Index(s, p) + 1), nil
	}})
	reg(&scalarFn{name: "replaceAll", min: 3, max: 3, ret: retConst(tString), eval: func(_ *callCtx, a []Value) (Value, error) {
		s, e1 := strArg("replaceAll", a[0])
		p, e2 := strArg("replaceAll", a[1])
		r, e3 := strArg("replaceAll", a[2])
		if e1 != nil || e2 != nil || e3 != nil {
			return nil, typeErr("replaceAll", a[0])
		}
		if p == "" {
			return s, nil
		}
		return strings.ReplaceAll(s, p, r), nil
	}}, "replace")
	reg(&scalarFn{name: "replaceOne", min: 3, max: 3, ret: retConst(tString), eval: func(_ *callCtx, a []Value) (Value, error) {
		s, e1 := strArg("replaceOne", a[0])
		p, e2 := strArg("replaceOne", a[1])
		r, e3 := strArg("replaceOne", a[2])
		if e1 != nil || e2 != nil || e3 != nil {
			return nil, typeErr("replaceOne", a[0])
		}
		if p == "" {
			return s, nil
		}
		return strings.Replace(s, p, r, 1), nil
	}})
	reRepl := func(name string, all bool) {
		reg(&scalarFn{name: name, min: 3, max: 3, ret: retConst(tString), eval: func(_ *callCtx, a []Value) (Value, error) {
			s, e1 := strArg(name, a[0])
			p, e2 := strArg(name, a[1])
			r, e3 := strArg(name, a[2])
			if e1 != nil || e2 != nil || e3 != nil {
				return nil, typeErr(name, a[0])
			}
			re, err := compileRE2(p, false)
			if err != nil {
				return nil, err
			}
			// replacement: \0 … \9 are group references, \\ a backslash
			expand := func(m []int) string {
				var b strings.Builder
				for i := 0; i < len(r); i++ {
					if r[i] == '\\' && i+1 < len(r) {
						c := r[i+1]
						if c >= '0' && c <= '9' {
							g := int(c - '0')
							if 2*g+1 < len(m) && m[2*g] >= 0 {
								b.WriteString(s[m[2*g]:m[2*g+1]])
							}
							i++
							continue
						}
						if c == '\\' {
							b.WriteByte('\\')
							i++
							continue
						}
					}
					b.WriteByte(r[i])
				}
				return b.String()
			}
			var out strings.Builder
			last := 0
			n := -1
			if !all {
				n = 1
			}
			for _, m := range re.FindAllStringSubmatchIndex(s, n) {
				out.WriteString(s[last:m[0]])
				out.WriteString(expand(m))
				last = m[1]
			}
			out.WriteString(s[last:])
			return out.String(), nil
		}})
	}
	reRepl("replaceRegexpAll", true)
	reRepl("replaceRegexpOne", false)
	trim := func(name string, l, r bool) {
		reg(&scalarFn{name: name, min: 1, max: 1, ret: retConst(tString), eval: func(_ *callCtx, a []Value) (Value, error) {
			s, err := strArg(name, a[0])
			if err != nil {
				return nil, err
			}
			if l {
				s = strings.TrimLeft(s, " ")
			}
			if r {
				s = strings.TrimRight(s, " ")
			}
			return s, nil
		}})
	}
	trim("trimBoth", true, true)
	trim("trimLeft", true, false)
	trim("trimRight", false, true)
	scalarFns["trim"] = scalarFns["trimBoth"]
	scalarFns["ltrim"] = scalarFns["trimLeft"]
	scalarFns["rtrim"] = scalarFns["trimRight"]
	reg(&scalarFn{name: "reverse", min: 1, max: 1, ret: retArg(0), eval: func(_ *callCtx, a []Value) (Value, error) {
		switch x := a[0].(type) {
		case string:
			b := []byte(x)
			for i, j := 0, len(b)-1; i < j; i, j = i+1, j-1 {
				b[i], b[j] = b[j], b[i]
			}
			return string(b), nil
		case Array:
			out := make(Array, len(x))
			for i := range x {
				out[len(x)-1-i] = x[i]
			}
			return out, nil
		}
		return nil, typeErr("reverse", a[0])
	}})
	reg(&scalarFn{name: "splitByChar", min: 2, max: 3, ret: retConst(tArray(tString)), eval: func(_ *callCtx, a []Value) (Value, error) {
		sep, err := strArg("splitByChar", a[0])
		if err != nil {
			return nil, err
		}
		s, err := strArg("splitByChar", a[1])
		if err != nil {
			return nil, err
		}
		if len(sep) != 1 {
			return nil, evalErrorf("BAD_ARGUMENTS", "splitByChar separator must be exactly one byte")
		}
		if len(a) == 3 {
			return nil, unsupportedf("splitByChar with max_substrings")
		}
		parts := strings.Split(s, sep)
		out := make(Array, len(parts))
		for i, p := range parts {
			out[i] = p
		}
		return out, nil
	}})
	reg(&scalarFn{name: "splitByString", min: 2, max: 2, ret: retConst(tArray(tString)), eval: func(_ *callCtx, a []Value) (Value, error) {
		sep, err := strArg("splitByString", a[0])
		if err != nil {
			return nil, err
		}
		s, err := strArg("splitByString", a[1])
		if err != nil {
			return nil, err
		}
		var parts []string
		if sep == "" {
			for i := 0; i < len(s); i++ {
				parts = append(parts, s[i:i+1])
			}
		} else {
			parts = strings.Split(s, sep)
		}
		out := make(Array, len(parts))
		for i, p := range parts {
			out[i] = p
		}
		return out, nil
	}})
	reg(&scalarFn{name: "arrayStringConcat", min: 1, max: 2, ret: retConst(tString), eval: func(_ *callCtx, a []Value) (Value, error) {
		arr, ok := a[0].(Array)
		if !ok {
			return nil, typeErr("arrayStringConcat", a[0])
		}
		sep := ""
		if len(a) == 2 {
			s, err := strArg("arrayStringConcat", a[1])
			if err != nil {
				return nil, err
			}
			sep = s
		}
		parts := make([]string, 0, len(arr))
		for _, e := range arr {
			if e == nil {
				continue
			}
			s, ok := e.(string)
			if !ok {
				return nil, unsupportedf("arrayStringConcat over %s elements", typeNameOf(e))
			}
			parts = append(parts, s)
		}
		return strings.Join(parts, sep), nil
	}})
	reg(&scalarFn{name: "hex", min: 1, max: 1, ret: retConst(tString), eval: func(_ *callCtx, a []Value) (Value, error) {
		switch x := a[0].(type) {
		case string:
			return strings.ToUpper(hex.EncodeToString([]byte(x))), nil
		case uint64:
			s := strings.ToUpper(strconvFormatUint(x, 16))
			if len(s)%2 == 1 {
				s = "0" + s
			}
			return s, nil
		}
		return nil, unsupportedf("hex of %s", typeNameOf(a[0]))
	}})
	reg(&scalarFn{name: "unhex", min: 1, max: 1, ret: retConst(tString), eval: func(_ *callCtx, a []Value) (Value, error) {
		s, err := strArg("unhex", a[0])
		if err != nil {
			return nil, err
		}
		for i := 0; i < len(s); i++ {
			if !isHex(s[i]) {
				return nil, unsupportedf("unhex of a string with non-hex characters (undefined result in ClickHouse)")
			}
		}
		if len(s)%2 == 1 {
			s = "0" + s
		}
		b, _ := hex.DecodeString(s)
		return string(b), nil
	}})
	reg(&scalarFn{name: "toValidUTF8", min: 1, max: 1, ret: retConst(tString), eval: func(_ *callCtx, a []Value) (Value, error) {
		s, err := strArg("toValidUTF8", a[0])
		if err != nil {
			return nil, err
		}
		return strings.ToValidUTF8(s, "�"), nil
	}})
}

func strconvFormatUint(u uint64, base int) string {
	const digits = "0123456789abcdef"
	if u == 0 {
		return "0"
	}
	var b [64]byte
	i := len(b)
	for u > 0 {
		i--
		b[i] = digits[u%uint64(base)]
		u /= uint64(base)
	}
	return string(b[i:])
}

// chFormat implements format(pattern, args…): `{}` consumes arguments in order, `{N}` is positional (the two
// styles cannot be mixed), `{{` and `}}` are literal braces.
func chFormat(pat string, args []string) (string, error) {
	var b strings.Builder
	next := 0
	mode := 0 // 1 = sequential, 2 = indexed
	for i := 0; i < len(pat); i++ {
		c := pat[i]
		switch c {
		case '{':
			if i+1 < len(pat) && pat[i+1] == '{' {
				b.WriteByte('{')
				i++
				continue
			}
			j := strings.IndexByte(pat[i:], '}')
			if j < 0 {
				return "", evalErrorf("BAD_ARGUMENTS", "format: unbalanced braces in %q", pat)
			}
			inner := pat[i+1 : i+j]
			idx := 0
			if inner == "" {
				if mode == 2 {
					return "", evalErrorf("BAD_ARGUMENTS", "format: cannot mix {} and {N}")
				}
				mode = 1
				idx = next
				next++
			} else {
				if mode == 1 {
					return "", evalErrorf("BAD_ARGUMENTS", "format: cannot mix {} and {N}")
				}
				mode = 2
				for _, d := range inner {
					if d < '0' || d > '9' {
						return "", evalErrorf("BAD_ARGUMENTS", "format: bad placeholder {%s}", inner)
					}
					idx = idx*10 + int(d-'0')
				}
			}
			if idx >= len(args) {
				return "", evalErrorf("BAD_ARGUMENTS", "format: argument %d is out of bounds", idx)
			}
			b.WriteString(args[idx])
			i += j
		case '}':
			if i+1 < len(pat) && pat[i+1] == '}' {
				b.WriteByte('}')
				i++
				continue
			}
			return "", evalErrorf("BAD_ARGUMENTS", "format: unbalanced braces in %q", pat)
		default:
			b.WriteByte(c)
		}
	}
	return b.String(), nil
}
