package chsim

import (
	"fmt"
	"sort"
	"strings"
)

// query is the state of one statement execution.
type query struct {
	db      *DB
	scans   []Scan
	cteMemo map[*Stmt]*relation
	subMemo map[*Subquery]*relation
}

// env is the lexical environment of a (sub)query: CTEs and scalar WITH aliases of enclosing queries.
type env struct {
	parent  *env
	ctes    map[string]*Stmt
	cteEnv  map[string]*env
	scalars map[string]Expr // WITH expr AS name, inherited by subqueries (enable_global_with_statement=1)
}

func (e *env) lookupCTE(name string) (*Stmt, *env) {
	for x := e; x != nil; x = x.parent {
		if st, ok := x.ctes[name]; ok {
			return st, x.cteEnv[name]
		}
	}
	return nil, nil
}

func (e *env) allScalars() map[string]Expr {
	out := map[string]Expr{}
	var chain []*env
	for x := e; x != nil; x = x.parent {
		chain = append(chain, x)
	}
	for i := len(chain) - 1; i >= 0; i-- {
		for k, v := range chain[i].scalars {
			out[k] = v
		}
	}
	return out
}

func (q *query) execStmt(st *Stmt, en *env) (*relation, error) {
	if st.Select != nil {
		return q.execSelect(st.Select, en)
	}
	l, err := q.execStmt(st.Set.Left, en)
	if err != nil {
		return nil, err
	}
	r, err := q.execStmt(st.Set.Right, en)
	if err != nil {
		return nil, err
	}
	l, r = l.stripHidden(), r.stripHidden()
	if len(l.cols) != len(r.cols) {
		return nil, evalErrorf("UNION_ALL_RESULT_STRUCTURES_MISMATCH", "%s of %d and %d columns", st.Set.Op, len(l.cols), len(r.cols))
	}
	out := &relation{cols: append([]relCol(nil), l.cols...)}
	for j := range out.cols {
		if out.cols[j].typ == nil {
			out.cols[j].typ = r.cols[j].typ
		}
	}
	rowKey := func(row []Value) string {
		var b strings.Builder
		for _, v := range row {
			writeKey(&b, v)
		}
		return b.String()
	}
	switch st.Set.Op {
	case "UNION ALL":
		out.rows = append(append([][]Value{}, l.rows...), r.rows...)
	case "UNION DISTINCT":
		seen := map[string]bool{}
		for _, row := range append(append([][]Value{}, l.rows...), r.rows...) {
			k := rowKey(row)
			if !seen[k] {
				seen[k] = true
				out.rows = append(out.rows, row)
			}
		}
	case "INTERSECT", "EXCEPT":
		// ClickHouse's IntersectOrExceptTransform: build a set from the right input, filter the left input
		// (duplicates of the left input are preserved).
		set := map[string]bool{}
		for _, row := range r.rows {
			set[rowKey(row)] = true
		}
		want := st.Set.Op == "INTERSECT"
		for _, row := range l.rows {
			if set[rowKey(row)] == want {
				out.rows = append(out.rows, row)
			}
		}
	default:
		return nil, unsupportedf("set operation %s", st.Set.Op)
	}
	return out, nil
}

// ---------------------------------------------------------------------------------------------------------
// sources

func (q *query) cteRelation(st *Stmt, en *env) (*relation, error) {
	if q.cteMemo == nil {
		q.cteMemo = map[*Stmt]*relation{}
	}
	if r, ok := q.cteMemo[st]; ok {
		return r, nil
	}
	r, err := q.execStmt(st, en)
	if err != nil {
		return nil, err
	}
	r = r.stripHidden()
	q.cteMemo[st] = r
	return r, nil
}

// namedRelation resolves a table name used in FROM / JOIN / IN: CTE first, then base table.
func (q *query) namedRelation(name []string, en *env, alias string, srcOrd int) (*relation, error) {
	var quals []string
	if alias != "" {
		quals = []string{alias}
	}
	if len(name) == 1 {
		if st, cen := en.lookupCTE(name[0]); st != nil {
			r, err := q.cteRelation(st, cen)
			if err != nil {
				return nil, err
			}
			if alias == "" {
				quals = []string{name[0]}
			}
			return requalify(r, quals, srcOrd), nil
		}
	}
	t := q.db.lookupTable(name)
	if t == nil {
		return nil, evalErrorf("UNKNOWN_TABLE", "table %s does not exist", strings.Join(name, "."))
	}
	if alias == "" {
		quals = []string{name[len(name)-1]}
		if len(name) == 2 {
			quals = append(quals, strings.Join(name, "."))
		}
	}
	scanID := len(q.scans)
	q.scans = append(q.scans, Scan{Table: name[len(name)-1], Offered: len(t.Rows)})
	rel := &relation{}
	for _, c := range t.Cols {
		rel.cols = append(rel.cols, relCol{name: c.Name, quals: quals, typ: c.Type, src: srcOrd})
	}
	rel.cols = append(rel.cols, relCol{name: "", hidden: true, scan: scanID, src: srcOrd})
	rel.rows = make([][]Value, len(t.Rows))
	for i, row := range t.Rows {
		nr := make([]Value, len(row)+1)
		copy(nr, row)
		nr[len(row)] = int64(i)
		rel.rows[i] = nr
	}
	return rel, nil
}

func requalify(r *relation, quals []string, srcOrd int) *relation {
	out := &relation{rows: r.rows, cols: make([]relCol, len(r.cols))}
	for i, c := range r.cols {
		c.quals = quals
		c.src = srcOrd
		out.cols[i] = c
	}
	return out
}

func (q *query) tableRefRelation(tr *TableRef, en *env, srcOrd int) (*relation, error) {
	switch {
	case tr.Sub != nil:
		r, err := q.execStmt(tr.Sub, en)
		if err != nil {
			return nil, err
		}
		var quals []string
		if tr.Alias != "" {
			quals = []string{tr.Alias}
		}
		return requalify(r.stripHidden(), quals, srcOrd), nil
	case tr.Func != nil:
		return q.tableFunction(tr, en, srcOrd)
	default:
		return q.namedRelation(tr.Name, en, tr.Alias, srcOrd)
	}
}

func (q *query) tableFunction(tr *TableRef, en *env, srcOrd int) (*relation, error) {
	switch tr.Func.Name {
	case "numbers":
		var vals []uint64
		for _, a := range tr.Func.Args {
			l, ok := a.(*Lit)
			u, ok2 := l.Val.(uint64)
			if !ok || !ok2 {
				return nil, unsupportedf("numbers() with non-literal argument")
			}
			vals = append(vals, u)
		}
		var off, n uint64
		switch len(vals) {
		case 1:
			n = vals[0]
		case 2:
			off, n = vals[0], vals[1]
		default:
			return nil, unsupportedf("numbers() with %d arguments", len(vals))
		}
		if n > 1<<20 {
			return nil, unsupportedf("numbers(%d) is too large for chsim", n)
		}
		quals := []string{"numbers"}
		if tr.Alias != "" {
			quals = []string{tr.Alias}
		}
		rel := &relation{cols: []relCol{{name: "number", quals: quals, typ: tUInt64, src: srcOrd}}}
		for i := uint64(0); i < n; i++ {
			rel.rows = append(rel.rows, []Value{off + i})
		}
		return rel, nil
	}
	return nil, unsupportedf("table function %s", tr.Func.Name)
}

// ---------------------------------------------------------------------------------------------------------
// SELECT

func (q *query) execSelect(sel *Select, outer *env) (*relation, error) {
	en := &env{parent: outer}
	for i := range sel.With {
		w := &sel.With[i]
		if w.Query != nil {
			if en.ctes == nil {
				en.ctes = map[string]*Stmt{}
				en.cteEnv = map[string]*env{}
			}
			if _, dup := en.ctes[w.Name]; dup {
				return nil, evalErrorf("MULTIPLE_EXPRESSIONS_FOR_ALIAS", "WITH defines %s twice", w.Name)
			}
			en.ctes[w.Name] = w.Query
			// a CTE sees the CTEs defined before it (and enclosing ones)
			snap := &env{parent: outer, ctes: map[string]*Stmt{}, cteEnv: map[string]*env{}, scalars: en.scalars}
			for k, v := range en.ctes {
				if k != w.Name {
					snap.ctes[k] = v
					snap.cteEnv[k] = en.cteEnv[k]
				}
			}
			en.cteEnv[w.Name] = snap
		} else {
			if en.scalars == nil {
				en.scalars = map[string]Expr{}
			}
			en.scalars[w.Name] = w.Expr
		}
	}

	// FROM
	var rel *relation
	if sel.From == nil {
		rel = &relation{rows: [][]Value{{}}}
	} else {
		r, err := q.tableRefRelation(sel.From, en, 0)
		if err != nil {
			return nil, err
		}
		rel = r
	}

	sc := &scope{q: q, env: en, sel: sel}
	if err := sc.collectAliases(); err != nil {
		return nil, err
	}

	for i, it := range sel.Items {
		var err error
		if it.Join != nil {
			rel, err = q.execJoin(sc, rel, it.Join, en, i+1)
		} else {
			rel, err = q.execArrayJoin(sc, rel, it.ArrayJoin)
		}
		if err != nil {
			return nil, err
		}
	}
	sc.rel = rel

	// PREWHERE / WHERE
	for _, cond := range []Expr{sel.PreWhere, sel.Where} {
		if cond == nil {
			continue
		}
		n, err := sc.bind(cond)
		if err != nil {
			return nil, err
		}
		if n.hasAgg {
			return nil, evalErrorf("ILLEGAL_AGGREGATION", "aggregate function in WHERE/PREWHERE")
		}
		kept := rel.rows[:0:0]
		ctx := &evalCtx{q: q}
		for _, row := range rel.rows {
			ctx.row = row
			v, err := n.eval(ctx)
			if err != nil {
				return nil, err
			}
			t, _, err := truth(v)
			if err != nil {
				return nil, err
			}
			if t {
				kept = append(kept, row)
			}
		}
		rel = &relation{cols: rel.cols, rows: kept}
		sc.rel = rel
	}

	// scan instrumentation
	for j, c := range rel.cols {
		if !c.hidden {
			continue
		}
		seen := map[int]bool{}
		for _, row := range rel.rows {
			if idx, ok := row[j].(int64); ok && idx >= 0 {
				seen[int(idx)] = true
			}
		}
		rows := make([]int, 0, len(seen))
		for k := range seen {
			rows = append(rows, k)
		}
		sort.Ints(rows)
		q.scans[c.scan].Admitted = len(rows)
		q.scans[c.scan].Rows = rows
	}

	// bind SELECT list (expand stars)
	type outCol struct {
		name string
		node *bnode
	}
	var outs []outCol
	for _, c := range sel.Cols {
		if st, ok := c.(*Star); ok {
			matched := false
			names := map[string]int{}
			for _, rc := range rel.cols {
				if !rc.hidden && !rc.shadow {
					names[rc.name]++
				}
			}
			for j, rc := range rel.cols {
				if rc.hidden || (rc.shadow && len(st.Qualifier) == 0) {
					continue
				}
				if len(st.Qualifier) > 0 && !hasQual(rc.quals, strings.Join(st.Qualifier, ".")) {
					continue
				}
				matched = true
				name := rc.name
				if names[name] > 1 && rc.src > 0 && len(rc.quals) > 0 {
					name = rc.quals[0] + "." + rc.name
				}
				outs = append(outs, outCol{name, &bnode{kind: bCol, idx: j, typ: rc.typ, canon: fmt.Sprintf("c%d", j)}})
			}
			if !matched && len(st.Qualifier) > 0 {
				return nil, evalErrorf("UNKNOWN_IDENTIFIER", "no table %s for %s.*", strings.Join(st.Qualifier, "."), strings.Join(st.Qualifier, "."))
			}
			continue
		}
		name := ""
		e := c
		if a, ok := c.(*Alias); ok {
			name = a.Name
		} else {
			name = defaultColName(e)
		}
		n, err := sc.bind(e)
		if err != nil {
			return nil, err
		}
		if n.kind == bLambda {
			return nil, evalErrorf("BAD_ARGUMENTS", "lambda as a SELECT column")
		}
		outs = append(outs, outCol{name, n})
	}

	var orderNodes []*bnode
	for _, o := range sel.OrderBy {
		e := o.Expr
		if l, ok := e.(*Lit); ok {
			if u, ok := l.Val.(uint64); ok {
				// positional argument
				if u == 0 || int(u) > len(outs) {
					return nil, evalErrorf("BAD_ARGUMENTS", "positional argument %d out of bounds", u)
				}
				orderNodes = append(orderNodes, outs[u-1].node)
				continue
			}
		}
		n, err := sc.bind(e)
		if err != nil {
			return nil, err
		}
		orderNodes = append(orderNodes, n)
	}
	var limitByNodes []*bnode
	if sel.LimitBy != nil {
		for _, e := range sel.LimitBy.By {
			n, err := sc.bind(e)
			if err != nil {
				return nil, err
			}
			limitByNodes = append(limitByNodes, n)
		}
	}
	var havingNode *bnode
	if sel.Having != nil {
		n, err := sc.bind(sel.Having)
		if err != nil {
			return nil, err
		}
		havingNode = n
	}

	grouped := len(sel.GroupBy) > 0 || (havingNode != nil && havingNode.hasAgg)
	for _, o := range outs {
		grouped = grouped || o.node.hasAgg
	}
	for _, n := range orderNodes {
		grouped = grouped || n.hasAgg
	}

	// working rows: output values followed by order-by values and limit-by values
	nOut := len(outs)
	var work [][]Value
	width := nOut + len(orderNodes) + len(limitByNodes)

	if grouped {
		var keyNodes []*bnode
		for _, e := range sel.GroupBy {
			if l, ok := e.(*Lit); ok {
				if u, ok := l.Val.(uint64); ok {
					if u == 0 || int(u) > len(outs) {
						return nil, evalErrorf("BAD_ARGUMENTS", "positional argument %d out of bounds", u)
					}
					keyNodes = append(keyNodes, outs[u-1].node)
					continue
				}
			}
			n, err := sc.bind(e)
			if err != nil {
				return nil, err
			}
			if n.hasAgg {
				return nil, evalErrorf("ILLEGAL_AGGREGATION", "aggregate function in GROUP BY")
			}
			keyNodes = append(keyNodes, n)
		}
		g := &grouper{keys: map[string]int{}}
		for i, k := range keyNodes {
			g.keys[k.canon] = i
		}
		all := make([]*bnode, 0, width+1)
		for _, o := range outs {
			all = append(all, o.node)
		}
		all = append(all, orderNodes...)
		all = append(all, limitByNodes...)
		if havingNode != nil {
			all = append(all, havingNode)
		}
		rew := make([]*bnode, len(all))
		for i, n := range all {
			r, err := g.rewrite(n)
			if err != nil {
				return nil, err
			}
			rew[i] = r
		}
		groups, err := g.run(q, rel.rows, keyNodes, len(sel.GroupBy) == 0)
		if err != nil {
			return nil, err
		}
		ctx := &evalCtx{q: q}
		for _, grp := range groups {
			ctx.keys = grp.keys
			ctx.aggs = grp.results
			ctx.row = nil
			if havingNode != nil {
				v, err := rew[len(rew)-1].eval(ctx)
				if err != nil {
					return nil, err
				}
				t, _, err := truth(v)
				if err != nil {
					return nil, err
				}
				if !t {
					continue
				}
			}
			w := make([]Value, width)
			for i := 0; i < width; i++ {
				v, err := rew[i].eval(ctx)
				if err != nil {
					return nil, err
				}
				w[i] = v
			}
			work = append(work, w)
		}
	} else {
		ctx := &evalCtx{q: q}
		all := make([]*bnode, 0, width)
		for _, o := range outs {
			all = append(all, o.node)
		}
		all = append(all, orderNodes...)
		all = append(all, limitByNodes...)
		work = make([][]Value, 0, len(rel.rows))
		for _, row := range rel.rows {
			ctx.row = row
			if havingNode != nil {
				// HAVING without aggregation filters the rows after the SELECT expressions are known (like WHERE)
				v, err := havingNode.eval(ctx)
				if err != nil {
					return nil, err
				}
				t, _, err := truth(v)
				if err != nil {
					return nil, err
				}
				if !t {
					continue
				}
			}
			w := make([]Value, width)
			for i, n := range all {
				v, err := n.eval(ctx)
				if err != nil {
					return nil, err
				}
				w[i] = v
			}
			work = append(work, w)
		}
	}

	// DISTINCT
	if sel.Distinct {
		seen := map[string]bool{}
		kept := work[:0:0]
		var b strings.Builder
		for _, w := range work {
			b.Reset()
			for i := 0; i < nOut; i++ {
				writeKey(&b, w[i])
			}
			k := b.String()
			if !seen[k] {
				seen[k] = true
				kept = append(kept, w)
			}
		}
		work = kept
	}

	// ORDER BY
	if len(orderNodes) > 0 {
		if q.db.ReverseTies {
			for i, j := 0, len(work)-1; i < j; i, j = i+1, j-1 {
				work[i], work[j] = work[j], work[i]
			}
		}
		var sortErr error
		sort.SliceStable(work, func(a, b int) bool {
			for k, o := range sel.OrderBy {
				va, vb := work[a][nOut+k], work[b][nOut+k]
				c, err := orderCompare(va, vb, o)
				if err != nil {
					sortErr = err
					return false
				}
				if c != 0 {
					return c < 0
				}
			}
			return false
		})
		if sortErr != nil {
			return nil, sortErr
		}
	}

	// LIMIT BY
	if sel.LimitBy != nil {
		n, err := sc.constUint(sel.LimitBy.N, "LIMIT BY")
		if err != nil {
			return nil, err
		}
		off := uint64(0)
		if sel.LimitBy.Offset != nil {
			if off, err = sc.constUint(sel.LimitBy.Offset, "LIMIT BY offset"); err != nil {
				return nil, err
			}
		}
		counts := map[string]uint64{}
		kept := work[:0:0]
		var b strings.Builder
		base := nOut + len(orderNodes)
		for _, w := range work {
			b.Reset()
			for i := range limitByNodes {
				writeKey(&b, w[base+i])
			}
			k := b.String()
			c := counts[k]
			counts[k] = c + 1
			if c >= off && c < off+n {
				kept = append(kept, w)
			}
		}
		work = kept
	}

	// OFFSET / LIMIT
	if sel.Offset != nil {
		off, err := sc.constUint(sel.Offset, "OFFSET")
		if err != nil {
			return nil, err
		}
		if off > uint64(len(work)) {
			off = uint64(len(work))
		}
		work = work[off:]
	}
	if sel.Limit != nil {
		n, err := sc.constUint(sel.Limit, "LIMIT")
		if err != nil {
			return nil, err
		}
		if n < uint64(len(work)) {
			work = work[:n]
		}
	}

	out := &relation{}
	for _, o := range outs {
		out.cols = append(out.cols, relCol{name: o.name, typ: o.node.typ})
	}
	out.rows = make([][]Value, len(work))
	for i, w := range work {
		out.rows[i] = w[:nOut:nOut]
	}
	// refine unknown column types from values
	for j := range out.cols {
		if out.cols[j].typ == nil {
			out.cols[j].typ = out.colType(j)
		}
	}
	return out, nil
}

func hasQual(quals []string, q string) bool {
	for _, x := range quals {
		if x == q {
			return true
		}
	}
	return false
}

// defaultColName is the name ClickHouse gives an un-aliased SELECT expression: the identifier's last component
// for columns, otherwise the expression text in functional form.
func defaultColName(e Expr) string {
	switch x := e.(type) {
	case *Ident:
		return x.Parts[len(x.Parts)-1]
	case *Lit:
		if s, ok := x.Val.(string); ok {
			return QuoteString(s)
		}
	}
	return ExprString(e)
}

func orderCompare(a, b Value, o OrderItem) (int, error) {
	// NULLs (and NaNs) go last by default regardless of direction, first with NULLS FIRST
	an, bn := isNullOrNaN(a), isNullOrNaN(b)
	if an || bn {
		if an && bn {
			// NULL vs NaN: NULL after NaN
			if (a == nil) == (b == nil) {
				return 0, nil
			}
			c := -1
			if a == nil {
				c = 1
			}
			if o.NullsFirst != nil && *o.NullsFirst {
				c = -c
			}
			return c, nil
		}
		c := 1
		if bn {
			c = -1
		}
		if o.NullsFirst != nil && *o.NullsFirst {
			c = -c
		}
		return c, nil
	}
	c, ok := compareValues(a, b)
	if !ok {
		return 0, evalErrorf("ILLEGAL_COLUMN", "ORDER BY cannot compare %s with %s", typeNameOf(a), typeNameOf(b))
	}
	if o.Desc {
		c = -c
	}
	return c, nil
}

func isNullOrNaN(v Value) bool {
	if v == nil {
		return true
	}
	if f, ok := v.(float64); ok && f != f {
		return true
	}
	return false
}

func (sc *scope) constUint(e Expr, what string) (uint64, error) {
	n, err := sc.bind(e)
	if err != nil {
		return 0, err
	}
	if !n.isConst() {
		return 0, evalErrorf("INVALID_LIMIT_EXPRESSION", "%s must be a constant", what)
	}
	v, err := n.eval(&evalCtx{q: sc.q})
	if err != nil {
		return 0, err
	}
	switch x := v.(type) {
	case uint64:
		return x, nil
	case int64:
		if x >= 0 {
			return uint64(x), nil
		}
	}
	return 0, evalErrorf("INVALID_LIMIT_EXPRESSION", "%s must be a non-negative integer, got %s", what, Format(v))
}

// ---------------------------------------------------------------------------------------------------------
// JOIN

func (q *query) execJoin(sc *scope, left *relation, j *Join, en *env, srcOrd int) (*relation, error) {
	right, err := q.tableRefRelation(j.Table, en, srcOrd)
	if err != nil {
		return nil, err
	}
	out := &relation{cols: append(append([]relCol{}, left.cols...), right.cols...)}
	nl, nr := len(left.cols), len(right.cols)
	combine := func(l, r []Value) []Value {
		row := make([]Value, nl+nr)
		copy(row, l)
		copy(row[nl:], r)
		return row
	}
	if j.Kind == "CROSS" {
		if j.Strictness != "" {
			return nil, unsupportedf("%s CROSS JOIN", j.Strictness)
		}
		for _, l := range left.rows {
			for _, r := range right.rows {
				out.rows = append(out.rows, combine(l, r))
			}
		}
		return out, nil
	}

	// key extraction: ON must be a conjunction of equalities between a left-only and a right-only expression
	var lkeys, rkeys []*bnode
	lsc := &scope{q: q, env: en, sel: sc.sel, rel: left, aliases: sc.aliases}
	rsc := &scope{q: q, env: en, sel: sc.sel, rel: right, aliases: map[string]Expr{}}
	if len(j.Using) > 0 {
		for _, name := range j.Using {
			for c := range right.cols {
				if right.cols[c].name == name && !right.cols[c].hidden {
					out.cols[nl+c].shadow = true
				}
			}
			ln, err := lsc.bind(&Ident{Parts: []string{name}})
			if err != nil {
				return nil, err
			}
			rn, err := rsc.bind(&Ident{Parts: []string{name}})
			if err != nil {
				return nil, err
			}
			lkeys, rkeys = append(lkeys, ln), append(rkeys, rn)
		}
	} else {
		var conj []Expr
		var flatten func(e Expr)
		flatten = func(e Expr) {
			if f, ok := e.(*Func); ok && f.Name == "and" {
				for _, a := range f.Args {
					flatten(a)
				}
				return
			}
			conj = append(conj, e)
		}
		flatten(j.On)
		for _, c := range conj {
			f, ok := c.(*Func)
			if !ok || f.Name != "equals" || len(f.Args) != 2 {
				return nil, unsupportedf("JOIN ON condition that is not a conjunction of equalities: %s", ExprString(c))
			}
			a, b := f.Args[0], f.Args[1]
			la, errLA := lsc.bindNoAliasFallback(a)
			rb, errRB := rsc.bindNoAliasFallback(b)
			if errLA == nil && errRB == nil {
				lkeys, rkeys = append(lkeys, la), append(rkeys, rb)
				continue
			}
			lb, errLB := lsc.bindNoAliasFallback(b)
			ra, errRA := rsc.bindNoAliasFallback(a)
			if errLB == nil && errRA == nil {
				lkeys, rkeys = append(lkeys, lb), append(rkeys, ra)
				continue
			}
			for _, e := range []error{errLA, errRB, errLB, errRA} {
				if e != nil && isUnsupported(e) {
					return nil, e
				}
			}
			return nil, evalErrorf("INVALID_JOIN_ON_EXPRESSION", "cannot attribute the sides of %s to the joined tables", ExprString(c))
		}
	}
	keyOfRow := func(ctx *evalCtx, nodes []*bnode, row []Value) (string, bool, error) {
		ctx.row = row
		var b strings.Builder
		for _, n := range nodes {
			v, err := n.eval(ctx)
			if err != nil {
				return "", false, err
			}
			if v == nil {
				return "", false, nil // NULL keys never match
			}
			writeKey(&b, v)
		}
		return b.String(), true, nil
	}
	ctx := &evalCtx{q: q}
	index := map[string][]int{}
	for i, r := range right.rows {
		k, ok, err := keyOfRow(ctx, rkeys, r)
		if err != nil {
			return nil, err
		}
		if ok {
			index[k] = append(index[k], i)
		}
	}
	var defaults []Value
	rightDefaults := func() ([]Value, error) {
		if defaults != nil {
			return defaults, nil
		}
		d := make([]Value, nr)
		for c := range right.cols {
			if right.cols[c].hidden {
				d[c] = int64(-1)
				continue
			}
			v, err := right.colType(c).DefaultValue()
			if err != nil {
				return nil, fmt.Errorf("%w (JOIN fill for column %s)", err, right.cols[c].name)
			}
			d[c] = v
		}
		defaults = d
		return d, nil
	}
	strict := j.Strictness
	if strict == "" {
		strict = "ALL"
	}
	switch j.Kind + " " + strict {
	case "LEFT ALL", "INNER ALL", "LEFT ANY", "LEFT SEMI", "LEFT ANTI", "INNER ANY":
	default:
		return nil, unsupportedf("%s %s JOIN", strict, j.Kind)
	}
	used := map[int]bool{} // ANY INNER: a right row joins at most one left row
	for _, l := range left.rows {
		k, ok, err := keyOfRow(ctx, lkeys, l)
		if err != nil {
			return nil, err
		}
		var matches []int
		if ok {
			matches = index[k]
		}
		switch j.Kind + " " + strict {
		case "LEFT ALL", "INNER ALL":
			for _, ri := range matches {
				out.rows = append(out.rows, combine(l, right.rows[ri]))
			}
			if len(matches) == 0 && j.Kind == "LEFT" {
				d, err := rightDefaults()
				if err != nil {
					return nil, err
				}
				out.rows = append(out.rows, combine(l, d))
			}
		case "LEFT ANY":
			if len(matches) > 0 {
				out.rows = append(out.rows, combine(l, right.rows[matches[0]]))
			} else {
				d, err := rightDefaults()
				if err != nil {
					return nil, err
				}
				out.rows = append(out.rows, combine(l, d))
			}
		case "LEFT SEMI":
			if len(matches) > 0 {
				out.rows = append(out.rows, combine(l, right.rows[matches[0]]))
			}
		case "LEFT ANTI":
			if len(matches) == 0 {
				d, err := rightDefaults()
				if err != nil {
					return nil, err
				}
				out.rows = append(out.rows, combine(l, d))
			}
		case "INNER ANY":
			// any_join_distinct_right_table_keys=0 (default): one row per key from both tables
			if len(matches) > 0 && !used[matches[0]] {
				used[matches[0]] = true
				out.rows = append(out.rows, combine(l, right.rows[matches[0]]))
			}
		}
	}
	return out, nil
}

func isUnsupported(err error) bool {
	return err != nil && strings.Contains(err.Error(), ErrUnsupported.Error())
}

// ---------------------------------------------------------------------------------------------------------
// ARRAY JOIN

func (q *query) execArrayJoin(sc *scope, rel *relation, aj *ArrayJoin) (*relation, error) {
	asc := &scope{q: q, env: sc.env, sel: sc.sel, rel: rel, aliases: sc.aliases}
	type item struct {
		node    *bnode
		replace int // column index replaced in place (un-aliased column), -1 otherwise
		name    string
	}
	var items []item
	for _, e := range aj.Exprs {
		it := item{replace: -1}
		inner := e
		if a, ok := e.(*Alias); ok {
			it.name = a.Name
			inner = a.Expr
		}
		// the alias introduced by ARRAY JOIN names the *element*, so the array expression must be bound without it
		n, err := asc.bindExcluding(inner, it.name)
		if err != nil {
			return nil, err
		}
		if it.name == "" {
			if n.kind != bCol {
				return nil, unsupportedf("ARRAY JOIN of an un-aliased expression")
			}
			it.replace = n.idx
		}
		it.node = n
		items = append(items, it)
	}
	out := &relation{cols: append([]relCol{}, rel.cols...)}
	base := len(rel.cols)
	for _, it := range items {
		var et *Type
		if it.node.typ != nil && it.node.typ.Name == "Array" {
			et = it.node.typ.Args[0]
		}
		if it.replace >= 0 {
			out.cols[it.replace].typ = et
		} else {
			out.cols = append(out.cols, relCol{name: it.name, typ: et, src: -1})
		}
	}
	ctx := &evalCtx{q: q}
	for _, row := range rel.rows {
		ctx.row = row
		arrs := make([]Array, len(items))
		n := -1
		for i, it := range items {
			v, err := it.node.eval(ctx)
			if err != nil {
				return nil, err
			}
			switch a := v.(type) {
			case Array:
				arrs[i] = a
			case *Map:
				return nil, unsupportedf("ARRAY JOIN over a Map")
			default:
				return nil, evalErrorf("TYPE_MISMATCH", "ARRAY JOIN requires an array, got %s", typeNameOf(v))
			}
			if n >= 0 && len(arrs[i]) != n {
				return nil, evalErrorf("SIZES_OF_ARRAYS_DONT_MATCH", "ARRAY JOIN arrays of different sizes")
			}
			n = len(arrs[i])
		}
		if n == 0 && aj.Left {
			nr := make([]Value, len(out.cols))
			copy(nr, row)
			k := base
			for _, it := range items {
				var et *Type
				if it.node.typ != nil && it.node.typ.Name == "Array" {
					et = it.node.typ.Args[0]
				}
				d, err := et.DefaultValue()
				if err != nil {
					return nil, err
				}
				if it.replace >= 0 {
					nr[it.replace] = d
				} else {
					nr[k] = d
					k++
				}
			}
			out.rows = append(out.rows, nr)
			continue
		}
		for e := 0; e < n; e++ {
			nr := make([]Value, len(out.cols))
			copy(nr, row)
			k := base
			for i, it := range items {
				if it.replace >= 0 {
					nr[it.replace] = arrs[i][e]
				} else {
					nr[k] = arrs[i][e]
					k++
				}
			}
			out.rows = append(out.rows, nr)
		}
	}
	return out, nil
}
