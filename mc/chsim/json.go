package chsim

import (
	"math"
	"strconv"
	"strings"
	"unicode/utf16"
	"unicode/utf8"
)

// JSON model used by the JSON* functions: a strict RFC 8259 parser (what simdjson accepts: valid UTF-8, one value,
// no trailing garbage) that keeps member order and duplicate keys.

type jkind uint8

const (
	jNull jkind = iota
	jBool
	jInt64
	jUInt64
	jDouble
	jString
	jArray
	jObject
)

type jelem struct {
	kind jkind
	b    bool
	i    int64
	u    uint64
	f    float64
	s    string
	arr  []*jelem
	keys []string
	vals []*jelem
}

type jparser struct {
	s   string
	pos int
}

// parseJSON returns nil when the document is not valid JSON.  unsupported=true flags constructs whose simdjson
// treatment chsim is not sure about (integers beyond 64 bit).
func parseJSON(s string) (el *jelem, unsupported bool) {
	if !utf8.ValidString(s) {
		return nil, false
	}
	p := &jparser{s: s}
	p.ws()
	e, ok, uns := p.value(0)
	if uns {
		return nil, true
	}
	if !ok {
		return nil, false
	}
	p.ws()
	if p.pos != len(s) {
		return nil, false
	}
	return e, false
}

func (p *jparser) ws() {
	for p.pos < len(p.s) {
		switch p.s[p.pos] {
		case ' ', '\t', '\n', '\r':
			p.pos++
		default:
			return
		}
	}
}

func (p *jparser) value(depth int) (*jelem, bool, bool) {
	if depth > 512 || p.pos >= len(p.s) {
		return nil, false, false
	}
	switch c := p.s[p.pos]; {
	case c == '{':
		p.pos++
		e := &jelem{kind: jObject}
		p.ws()
		if p.pos < len(p.s) && p.s[p.pos] == '}' {
			p.pos++
			return e, true, false
		}
		for {
			p.ws()
			if p.pos >= len(p.s) || p.s[p.pos] != '"' {
				return nil, false, false
			}
			k, ok := p.str()
			if !ok {
				return nil, false, false
			}
			p.ws()
			if p.pos >= len(p.s) || p.s[p.pos] != ':' {
				return nil, false, false
			}
			p.pos++
			p.ws()
			v, ok, uns := p.value(depth + 1)
			if !ok || uns {
				return nil, ok, uns
			}
			e.keys = append(e.keys, k)
			e.vals = append(e.vals, v)
			p.ws()
			if p.pos >= len(p.s) {
				return nil, false, false
			}
			if p.s[p.pos] == ',' {
				p.pos++
				continue
			}
			if p.s[p.pos] == '}' {
				p.pos++
				return e, true, false
			}
			return nil, false, false
		}
	case c == '[':
		p.pos++
		e := &jelem{kind: jArray}
		p.ws()
		if p.pos < len(p.s) && p.s[p.pos] == ']' {
			p.pos++
			return e, true, false
		}
		for {
			p.ws()
			v, ok, uns := p.value(depth + 1)
			if !ok || uns {
				return nil, ok, uns
			}
			e.arr = append(e.arr, v)
			p.ws()
			if p.pos >= len(p.s) {
				return nil, false, false
			}
			if p.s[p.pos] == ',' {
				p.pos++
				continue
			}
			if p.s[p.pos] == ']' {
				p.pos++
				return e, true, false
			}
			return nil, false, false
		}
	case c == '"':
		s, ok := p.str()
		if !ok {
			return nil, false, false
		}
		return &jelem{kind: jString, s: s}, true, false
	case c == 't':
		if strings.HasPrefix(p.s[p.pos:], "true") {
			p.pos += 4
			return &jelem{kind: jBool, b: true}, p.atomEnd(), false
		}
	case c == 'f':
		if strings.HasPrefix(p.s[p.pos:], "false") {
			p.pos += 5
			return &jelem{kind: jBool}, p.atomEnd(), false
		}
	case c == 'n':
		if strings.HasPrefix(p.s[p.pos:], "null") {
			p.pos += 4
			return &jelem{kind: jNull}, p.atomEnd(), false
		}
	case c == '-' || (c >= '0' && c <= '9'):
		return p.number()
	}
	return nil, false, false
}

// atomEnd: a literal must be followed by a structural character or whitespace.
func (p *jparser) atomEnd() bool {
	if p.pos >= len(p.s) {
		return true
	}
	switch p.s[p.pos] {
	case ' ', '\t', '\n', '\r', ',', ']', '}':
		return true
	}
	return false
}

func (p *jparser) number() (*jelem, bool, bool) {
	start := p.pos
	if p.s[p.pos] == '-' {
		p.pos++
	}
	if p.pos >= len(p.s) {
		return nil, false, false
	}
	if p.s[p.pos] == '0' {
		p.pos++
	} else if p.s[p.pos] >= '1' && p.s[p.pos] <= '9' {
		for p.pos < len(p.s) && isDigit(p.s[p.pos]) {
			p.pos++
		}
	} else {
		return nil, false, false
	}
	isFloat := false
	if p.pos < len(p.s) && p.s[p.pos] == '.' {
		isFloat = true
		p.pos++
		if p.pos >= len(p.s) || !isDigit(p.s[p.pos]) {
			return nil, false, false
		}
		for p.pos < len(p.s) && isDigit(p.s[p.pos]) {
			p.pos++
		}
	}
	if p.pos < len(p.s) && (p.s[p.pos] == 'e' || p.s[p.pos] == 'E') {
		isFloat = true
		p.pos++
		if p.pos < len(p.s) && (p.s[p.pos] == '+' || p.s[p.pos] == '-') {
			p.pos++
		}
		if p.pos >= len(p.s) || !isDigit(p.s[p.pos]) {
			return nil, false, false
		}
		for p.pos < len(p.s) && isDigit(p.s[p.pos]) {
			p.pos++
		}
	}
	if !p.atomEnd() {
		return nil, false, false
	}
	txt := p.s[start:p.pos]
	if !isFloat {
		if i, err := strconv.ParseInt(txt, 10, 64); err == nil {
			return &jelem{kind: jInt64, i: i}, true, false
		}
		if u, err := strconv.ParseUint(txt, 10, 64); err == nil {
			return &jelem{kind: jUInt64, u: u}, true, false
		}
		return nil, false, true // beyond 64 bit: simdjson behaviour is version dependent
	}
	f, err := strconv.ParseFloat(txt, 64)
	if err != nil {
		if math.IsInf(f, 0) {
			return nil, false, false // simdjson rejects numbers that overflow double
		}
		return nil, false, false
	}
	return &jelem{kind: jDouble, f: f}, true, false
}

func (p *jparser) str() (string, bool) {
	p.pos++ // opening quote
	var b strings.Builder
	for p.pos < len(p.s) {
		c := p.s[p.pos]
		switch {
		case c == '"':
			p.pos++
			return b.String(), true
		case c < 0x20:
			return "", false
		case c == '\\':
			p.pos++
			if p.pos >= len(p.s) {
				return "", false
			}
			switch e := p.s[p.pos]; e {
			case '"', '\\', '/':
				b.WriteByte(e)
			case 'b':
				b.WriteByte('\b')
			case 'f':
				b.WriteByte('\f')
			case 'n':
				b.WriteByte('\n')
			case 'r':
				b.WriteByte('\r')
			case 't':
				b.WriteByte('\t')
			case 'u':
				r, ok := p.hex4()
				if !ok {
					return "", false
				}
				if utf16.IsSurrogate(r) {
					if r >= 0xDC00 { // lone low surrogate
						return "", false
					}
					if p.pos+2 < len(p.s) && p.s[p.pos+1] == '\\' && p.s[p.pos+2] == 'u' {
						p.pos += 2
						r2, ok := p.hex4()
						if !ok {
							return "", false
						}
						dec := utf16.DecodeRune(r, r2)
						if dec == utf8.RuneError {
							return "", false
						}
						r = dec
					} else {
						return "", false
					}
				}
				b.WriteRune(r)
			default:
				return "", false
			}
			p.pos++
		default:
			b.WriteByte(c)
			p.pos++
		}
	}
	return "", false
}

// hex4 reads the 4 hex digits after \u; on return pos is at the last digit.
func (p *jparser) hex4() (rune, bool) {
	if p.pos+4 >= len(p.s) {
		return 0, false
	}
	var r rune
	for i := 1; i <= 4; i++ {
		c := p.s[p.pos+i]
		if !isHex(c) {
			return 0, false
		}
		r = r<<4 | rune(unhexNibble(c))
	}
	p.pos += 4
	return r, true
}

// navigate follows the path arguments (String = object key, integer = 1-based index, negative from the end).
func (e *jelem) navigate(path []Value) (*jelem, error) {
	cur := e
	for _, p := range path {
		if cur == nil {
			return nil, nil
		}
		switch k := p.(type) {
		case string:
			if cur.kind != jObject {
				return nil, nil
			}
			var next *jelem
			for i, kk := range cur.keys {
				if kk == k {
					next = cur.vals[i]
					break
				}
			}
			cur = next
		case int64, uint64:
			idx := asInt64(k)
			var list []*jelem
			switch cur.kind {
			case jArray:
				list = cur.arr
			case jObject:
				list = cur.vals
			default:
				return nil, nil
			}
			if idx < 0 {
				idx = int64(len(list)) + idx + 1
			}
			if idx < 1 || int(idx) > len(list) {
				return nil, nil
			}
			cur = list[idx-1]
		default:
			return nil, evalErrorf("ILLEGAL_TYPE_OF_ARGUMENT", "JSON path argument must be a string or an integer, got %s", typeNameOf(p))
		}
	}
	return cur, nil
}

func writeJSONString(b *strings.Builder, s string) {
	b.WriteByte('"')
	for i := 0; i < len(s); i++ {
		c := s[i]
		switch c {
		case '\b':
			b.WriteString(`\b`)
		case '\f':
			b.WriteString(`\f`)
		case '\n':
			b.WriteString(`\n`)
		case '\r':
			b.WriteString(`\r`)
		case '\t':
			b.WriteString(`\t`)
		case '\\':
			b.WriteString(`\\`)
		case '"':
			b.WriteString(`\"`)
		default:
			if c < 0x20 {
				b.WriteString(`\u00`)
				b.WriteByte("0123456789ABCDEF"[c>>4])
				b.WriteByte("0123456789ABCDEF"[c&15])
			} else if c == 0xE2 && i+2 < len(s) && s[i+1] == 0x80 && (s[i+2] == 0xA8 || s[i+2] == 0xA9) {
				if s[i+2] == 0xA8 {
					b.WriteString("\\u2028")
				} else {
					b.WriteString("\\u2029")
				}
				i += 2
			} else {
				b.WriteByte(c)
			}
		}
	}
	b.WriteByte('"')
}

// raw re-serialises the element compactly, as JSONExtractRaw does (forward slashes not escaped).
func (e *jelem) raw(b *strings.Builder) {
	switch e.kind {
	case jNull:
		b.WriteString("null")
	case jBool:
		if e.b {
			b.WriteString("true")
		} else {
			b.WriteString("false")
		}
	case jInt64:
		b.WriteString(strconv.FormatInt(e.i, 10))
	case jUInt64:
		b.WriteString(strconv.FormatUint(e.u, 10))
	case jDouble:
		b.WriteString(FormatFloat(e.f))
	case jString:
		writeJSONString(b, e.s)
	case jArray:
		b.WriteByte('[')
		for i, x := range e.arr {
			if i > 0 {
				b.WriteByte(',')
			}
			x.raw(b)
		}
		b.WriteByte(']')
	case jObject:
		b.WriteByte('{')
		for i, x := range e.vals {
			if i > 0 {
				b.WriteByte(',')
			}
			writeJSONString(b, e.keys[i])
			b.WriteByte(':')
			x.raw(b)
		}
		b.WriteByte('}')
	}
}

func (e *jelem) rawString() string {
	var b strings.Builder
	e.raw(&b)
	return b.String()
}

func jsonTypeName(e *jelem) string {
	if e == nil {
		return "Null"
	}
	switch e.kind {
	case jBool:
		return "Bool"
	case jInt64:
		return "Int64"
	case jUInt64:
		return "UInt64"
	case jDouble:
		return "Double"
	case jString:
		return "String"
	case jArray:
		return "Array"
	case jObject:
		return "Object"
	}
	return "Null"
}

// jsonTarget parses the document and navigates; doc==nil && err==nil means "invalid JSON or element not found".
func jsonTarget(fn string, a []Value, trailing int) (*jelem, error) {
	s, ok := a[0].(string)
	if !ok {
		return nil, typeErr(fn, a[0])
	}
	doc, uns := parseJSON(s)
	if uns {
		return nil, unsupportedf("%s on a document with an integer beyond 64 bit", fn)
	}
	if doc == nil {
		return nil, nil
	}
	return doc.navigate(a[1 : len(a)-trailing])
}

func registerJSON() {
	reg(&scalarFn{name: "JSONHas", min: 1, max: -1, ret: retConst(tUInt8), eval: func(_ *callCtx, a []Value) (Value, error) {
		e, err := jsonTarget("JSONHas", a, 0)
		if err != nil {
			return nil, err
		}
		return boolVal(e != nil), nil
	}})
	reg(&scalarFn{name: "isValidJSON", min: 1, max: 1, ret: retConst(tUInt8), eval: func(_ *callCtx, a []Value) (Value, error) {
		e, err := jsonTarget("isValidJSON", a, 0)
		if err != nil {
			return nil, err
		}
		return boolVal(e != nil), nil
	}})
	reg(&scalarFn{name: "JSONType", min: 1, max: -1, ret: retConst(tString), eval: func(_ *callCtx, a []Value) (Value, error) {
		e, err := jsonTarget("JSONType", a, 0)
		if err != nil {
			return nil, err
		}
		return jsonTypeName(e), nil
	}})
	reg(&scalarFn{name: "JSONLength", min: 1, max: -1, ret: retConst(tUInt64), eval: func(_ *callCtx, a []Value) (Value, error) {
		e, err := jsonTarget("JSONLength", a, 0)
		if err != nil {
			return nil, err
		}
		if e == nil {
			return uint64(0), nil
		}
		switch e.kind {
		case jArray:
			return uint64(len(e.arr)), nil
		case jObject:
			return uint64(len(e.vals)), nil
		}
		return uint64(0), nil
	}})
	reg(&scalarFn{name: "JSONExtractString", min: 1, max: -1, ret: retConst(tString), eval: func(_ *callCtx, a []Value) (Value, error) {
		e, err := jsonTarget("JSONExtractString", a, 0)
		if err != nil {
			return nil, err
		}
		if e == nil || e.kind == jNull {
			return "", nil
		}
		if e.kind != jString {
			return nil, unsupportedf("JSONExtractString of a %s element (empty string in old ClickHouse versions, raw JSON text in new ones)", jsonTypeName(e))
		}
		return e.s, nil
	}})
	reg(&scalarFn{name: "JSONExtractRaw", min: 1, max: -1, ret: retConst(tString), eval: func(_ *callCtx, a []Value) (Value, error) {
		e, err := jsonTarget("JSONExtractRaw", a, 0)
		if err != nil {
			return nil, err
		}
		if e == nil {
			return "", nil
		}
		return e.rawString(), nil
	}})
	num := func(name string, kind byte) {
		var rt *Type
		switch kind {
		case 'i':
			rt = tInt64
		case 'u':
			rt = tUInt64
		case 'f':
			rt = tFloat64
		case 'b':
			rt = tUInt8
		}
		reg(&scalarFn{name: name, min: 1, max: -1, ret: retConst(rt), eval: func(_ *callCtx, a []Value) (Value, error) {
			e, err := jsonTarget(name, a, 0)
			if err != nil {
				return nil, err
			}
			zero, _ := rt.DefaultValue()
			if e == nil {
				return zero, nil
			}
			if kind == 'b' {
				if e.kind == jBool {
					return boolVal(e.b), nil
				}
				if e.kind == jNull {
					return zero, nil
				}
				return nil, unsupportedf("%s of a %s element", name, jsonTypeName(e))
			}
			var f float64
			switch e.kind {
			case jInt64:
				if kind == 'i' {
					return e.i, nil
				}
				if kind == 'u' {
					if e.i < 0 {
						return zero, nil
					}
					return uint64(e.i), nil
				}
				f = float64(e.i)
			case jUInt64:
				if kind == 'u' {
					return e.u, nil
				}
				if kind == 'i' {
					return zero, nil // does not fit
				}
				f = float64(e.u)
			case jDouble:
				f = e.f
				if kind != 'f' {
					if f != math.Trunc(f) || math.Abs(f) > 9e18 {
						return zero, nil // inaccurate conversion fails
					}
					if kind == 'i' {
						return int64(f), nil
					}
					if f < 0 {
						return zero, nil
					}
					return uint64(f), nil
				}
			case jNull:
				return zero, nil
			default:
				return nil, unsupportedf("%s of a %s element (version-dependent)", name, jsonTypeName(e))
			}
			return f, nil
		}})
	}
	num("JSONExtractInt", 'i')
	num("JSONExtractUInt", 'u')
	num("JSONExtractFloat", 'f')
	num("JSONExtractBool", 'b')
	reg(&scalarFn{name: "JSONExtractKeys", min: 1, max: -1, ret: retConst(tArray(tString)), eval: func(_ *callCtx, a []Value) (Value, error) {
		e, err := jsonTarget("JSONExtractKeys", a, 0)
		if err != nil {
			return nil, err
		}
		out := Array{}
		if e != nil && e.kind == jObject {
			for _, k := range e.keys {
				out = append(out, k)
			}
		}
		return out, nil
	}})
	reg(&scalarFn{name: "JSONExtractArrayRaw", min: 1, max: -1, ret: retConst(tArray(tString)), eval: func(_ *callCtx, a []Value) (Value, error) {
		e, err := jsonTarget("JSONExtractArrayRaw", a, 0)
		if err != nil {
			return nil, err
		}
		out := Array{}
		if e != nil && e.kind == jArray {
			for _, x := range e.arr {
				out = append(out, x.rawString())
			}
		}
		return out, nil
	}})
	reg(&scalarFn{name: "JSONExtractKeysAndValuesRaw", min: 1, max: -1, ret: retConst(tArray(tTuple(tString, tString))), eval: func(_ *callCtx, a []Value) (Value, error) {
		e, err := jsonTarget("JSONExtractKeysAndValuesRaw", a, 0)
		if err != nil {
			return nil, err
		}
		out := Array{}
		if e != nil && e.kind == jObject {
			for i, k := range e.keys {
				out = append(out, Tuple{k, e.vals[i].rawString()})
			}
		}
		return out, nil
	}})
	// JSONExtractKeysAndValues(json[, path…], 'Type'): only value type String is supported
	reg(&scalarFn{name: "JSONExtractKeysAndValues", min: 2, max: -1, ret: func(_ []*Type, args []*bnode) *Type {
		return tArray(tTuple(tString, tString))
	}, check: func(args []*bnode) error {
		last := args[len(args)-1]
		if last.kind != bConst {
			return evalErrorf("ILLEGAL_COLUMN", "the last argument of JSONExtractKeysAndValues must be a constant type name")
		}
		if s, ok := last.val.(string); !ok || s != "String" {
			return unsupportedf("JSONExtractKeysAndValues with value type %s", Format(last.val))
		}
		return nil
	}, eval: func(_ *callCtx, a []Value) (Value, error) {
		e, err := jsonTarget("JSONExtractKeysAndValues", a, 1)
		if err != nil {
			return nil, err
		}
		out := Array{}
		if e != nil && e.kind == jObject {
			for i, k := range e.keys {
				v := e.vals[i]
				if v.kind != jString {
					return nil, unsupportedf("JSONExtractKeysAndValues(…, 'String') over a %s member (skipped in old ClickHouse versions, raw text in new ones)", jsonTypeName(v))
				}
				out = append(out, Tuple{k, v.s})
			}
		}
		return out, nil
	}})
	reg(&scalarFn{name: "JSONExtract", min: 2, max: -1, eval: func(_ *callCtx, a []Value) (Value, error) {
		return nil, unsupportedf("JSONExtract with a type argument")
	}})
}
