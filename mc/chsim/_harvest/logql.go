package main

import (
	"context"
	"fmt"
	"strings"
	"time"

	"github.com/metrico/qryn/reader/logql/logql_parser"
	"github.com/metrico/qryn/reader/logql/logql_transpiler_v2"
	"github.com/metrico/qryn/reader/logql/logql_transpiler_v2/clickhouse_planner"
	"github.com/metrico/qryn/reader/logql/logql_transpiler_v2/shared"
	"github.com/metrico/qryn/reader/model"
	"github.com/metrico/qryn/reader/service"
	sql "github.com/metrico/qryn/reader/utils/sql_select"
	"github.com/metrico/qryn/reader/utils/tables"
)

// fixed time window => deterministic SQL
var (
	tFrom = time.Date(2024, 3, 1, 10, 0, 0, 0, time.UTC)
	tTo   = time.Date(2024, 3, 1, 11, 0, 0, 0, time.UTC)
)

type qrOpts struct {
	stepMs  int64
	limit   int64
	forward bool
	instant bool
}

func (o qrOpts) String() string {
	dir := "backward"
	if o.forward {
		dir = "forward"
	}
	kind := "query_range"
	if o.instant {
		kind = "query(instant)"
	}
	return fmt.Sprintf("%s step=%dms limit=%d %s", kind, o.stepMs, o.limit, dir)
}

func logqlFamily(query string) string {
	script, err := logql_parser.Parse(query)
	if err != nil || script.StrSelector != nil {
		return "logql_log"
	}
	return "logql_metric"
}

func drainQR(ch chan model.QueryRangeOutput) error {
	var err error
	for o := range ch {
		if o.Err != nil {
			err = o.Err
		}
	}
	return err
}

// runLogQL goes through service.QueryRangeService exactly like the HTTP controllers do.
func runLogQL(c *corpus, query string, o qrOpts) {
	fam := logqlFamily(query)
	c.run(fam, fmt.Sprintf("%s  ## %s", query, o), func(cluster bool, reg *fakeRegistry) error {
		svc := service.NewQueryRangeService(&model.ServiceData{Session: reg})
		var (
			ch  chan model.QueryRangeOutput
			err error
		)
		if o.instant {
			ch, err = svc.QueryInstant(context.Background(), query, tTo.UnixNano(), o.stepMs, o.limit)
		} else {
			ch, err = svc.QueryRange(context.Background(), query, tFrom.UnixNano(), tTo.UnixNano(), o.stepMs,
				o.limit, o.forward)
		}
		if err != nil {
			return err
		}
		return drainQR(ch)
	})
}

func plannerCtx(cluster bool, reg *fakeRegistry, limit int64, forward bool, step time.Duration) *shared.PlannerContext {
	ctx, cancel := context.WithCancel(context.Background())
	return tables.PopulateTableNames(&shared.PlannerContext{
		IsCluster:  cluster,
		From:       tFrom,
		To:         tTo,
		OrderASC:   forward,
		Limit:      limit,
		Ctx:        ctx,
		CancelCtx:  cancel,
		CHDb:       reg.db.Session,
		CHFinalize: true,
		Step:       step,
		CHSqlCtx: &sql.Ctx{
			Params: map[string]sql.SQLObject{},
			Result: map[string]sql.SQLObject{},
		},
		VersionInfo: map[string]int64{},
	}, reg.db)
}

func renderSel(sel sql.ISelect, cluster bool) (string, error) {
	var opts []int
	if cluster {
		opts = append(opts, sql.STRING_OPT_INLINE_WITH)
	}
	return sel.String(&sql.Ctx{Params: map[string]sql.SQLObject{}, Result: map[string]sql.SQLObject{}}, opts...)
}

// runTail reproduces what QueryRangeService.Tail does every second (it cannot be called: infinite ticker).
func runTail(c *corpus, query string) {
	c.run("logql_misc", "tail: "+query, func(cluster bool, reg *fakeRegistry) error {
		chain, err := logql_transpiler_v2.Transpile(query)
		if err != nil {
			return err
		}
		ctx := plannerCtx(cluster, reg, 0, false, 0)
		ctx.From = tTo.Add(-5 * time.Minute)
		out, err := chain[0].Process(ctx, nil)
		if err != nil {
			return err
		}
		for range out {
		}
		return nil
	})
}

// runDirectPlan renders clickhouse_planner.Plan(script, finalize) without the logql_transpiler_v2 splitter:
// reaches planners (line_format in SQL) that Transpile never hands to ClickHouse.
func runDirectPlan(c *corpus, query string, finalize bool, o qrOpts) {
	fam := logqlFamily(query)
	for _, cluster := range []bool{false, true} {
		desc := fmt.Sprintf("direct clickhouse_planner.Plan(script, finalize=%v) (bypasses the SQL/in-process splitter): %s  ## %s",
			finalize, query, o)
		func() {
			defer func() {
				if r := recover(); r != nil {
					c.reject(fam, desc, fmt.Sprintf("panic: %v", r))
					c.panics = append(c.panics, fmt.Sprintf("%s | %s | panic: %v", fam, desc, r))
				}
			}()
			script, err := logql_parser.Parse(query)
			if err != nil {
				c.reject(fam, desc, err.Error())
				return
			}
			plan, err := clickhouse_planner.Plan(script, finalize)
			if err != nil {
				c.reject(fam, desc, err.Error())
				return
			}
			reg := newRegistry(cluster)
			ctx := plannerCtx(cluster, reg, o.limit, o.forward, time.Duration(o.stepMs)*time.Millisecond)
			sel, err := plan.Process(ctx)
			if err != nil {
				c.reject(fam, desc, err.Error())
				return
			}
			str, err := renderSel(sel, cluster)
			c.direct(fam, cluster, desc, str, err)
		}()
	}
}

func runLabelsAPI(c *corpus) {
	startMs, endMs := tFrom.UnixMilli(), tTo.UnixMilli()
	newSvc := func(reg *fakeRegistry) *service.QueryLabelsService {
		return service.NewQueryLabelsService(&model.ServiceData{Session: reg})
	}
	drain := func(ch chan string, err error) error {
		if err != nil {
			return err
		}
		for range ch {
		}
		return nil
	}
	for _, tp := range []uint16{1, 2} {
		tp := tp
		c.run("logql_misc", fmt.Sprintf("labels endpoint: QueryLabelsService.Labels(type=%d)", tp),
			func(cluster bool, reg *fakeRegistry) error {
				return drain(newSvc(reg).Labels(context.Background(), startMs, endMs, tp))
			})
	}
	type valReq struct {
		label string
		match []string
		tp    uint16
		prom  bool
	}
	vals := []valReq{
		{"app", nil, 1, false},
		{"job", nil, 2, false},
		{"it's", nil, 1, false},
		{"app", []string{`{env="prod"}`}, 1, false},
		{"app", []string{`{env="prod", host=~"h.*"}`}, 1, false},
		{"app", []string{`{env!="prod"}`, `{host!~"a|b"}`}, 1, false},
		{"app", []string{`{env="a"}`, `{env="b"}`, `{env=~"c.+"}`}, 1, false},
		{"app", []string{`{env="it's \\ 100%_ \" ( юникод"}`}, 1, false},
		{"app", []string{`{env="prod"} |= "x"`}, 1, false},
		{"app", []string{`rate({env="prod"}[1m])`}, 1, false},
		{"instance", []string{`up`}, 2, true},
		{"instance", []string{`up{job="node"}`}, 2, true},
		{"instance", []string{`up{job!="node",env=~"p.*",dc!~"eu|us"}`, `{__name__=~"http_.+"}`}, 2, true},
		{"instance", []string{`rate(http_requests_total{code="200"}[5m])`}, 2, true},
		{"__name__", nil, 2, true},
		{"", nil, 1, false},
	}
	for _, v := range vals {
		v := v
		kind := "label values endpoint: QueryLabelsService.Values"
		if v.prom {
			kind = "prom label values endpoint: QueryLabelsService.PromValues"
		}
		c.run("logql_misc", fmt.Sprintf("%s(label=%q, match=%v, type=%d)", kind, v.label, v.match, v.tp),
			func(cluster bool, reg *fakeRegistry) error {
				if v.prom {
					return drain(newSvc(reg).PromValues(context.Background(), v.label, v.match, startMs, endMs, v.tp))
				}
				return drain(newSvc(reg).Values(context.Background(), v.label, v.match, startMs, endMs, v.tp))
			})
	}
	type seriesReq struct {
		reqs []string
		tp   uint16
	}
	series := []seriesReq{
		{[]string{`{app="a"}`}, 1},
		{[]string{`{app!="a"}`}, 1},
		{[]string{`{app=~"a.*"}`}, 1},
		{[]string{`{app!~"a.*"}`}, 1},
		{[]string{`{app="a", env="prod"}`}, 1},
		{[]string{`{app="a", env!="prod", host=~"h[0-9]+", dc!~"eu|us"}`}, 1},
		{[]string{`{app="a"}`, `{app="b"}`}, 1},
		{[]string{`{app="a"}`, `{env=~"p.*"}`, `{host!="h1", dc="eu"}`}, 1},
		{[]string{`up`}, 2},
		{[]string{`up{job="node"}`}, 2},
		{[]string{`up{job="node", instance=~"i.*"}`, `http_requests_total`}, 2},
		{[]string{`{__name__="up"}`}, 2},
		{[]string{`{app="it's \\ 100%_ \" ( юникод"}`}, 1},
		{[]string{"{app=`tick\\d+`}"}, 1},
		{[]string{`{app="a"} |= "x"`}, 1},
		{[]string{`rate({app="a"}[1m])`}, 1},
		{[]string{`not a selector`}, 1},
	}
	for _, s := range series {
		s := s
		c.run("logql_misc", fmt.Sprintf("series endpoint: QueryLabelsService.Series(match=%v, type=%d)", s.reqs, s.tp),
			func(cluster bool, reg *fakeRegistry) error {
				return drain(newSvc(reg).Series(context.Background(), s.reqs, startMs, endMs, s.tp))
			})
	}
	// PlanFingerprints alone (the building block of values/series)
	for _, q := range []string{`{app="a"}`, `{app!="a", env=~"p.*", host!~"x|y"}`, `{a="1",b="2",c="3",d="4",e="5"}`} {
		q := q
		for _, cluster := range []bool{false, true} {
			desc := "direct logql_transpiler_v2.PlanFingerprints: " + q
			script, err := logql_parser.Parse(q)
			if err != nil {
				c.reject("logql_misc", desc, err.Error())
				continue
			}
			p, err := logql_transpiler_v2.PlanFingerprints(script)
			if err != nil {
				c.reject("logql_misc", desc, err.Error())
				continue
			}
			reg := newRegistry(cluster)
			sel, err := p.Process(plannerCtx(cluster, reg, 100, false, 0))
			if err != nil {
				c.reject("logql_misc", desc, err.Error())
				continue
			}
			str, err := renderSel(sel, false)
			c.direct("logql_misc", cluster, desc, str, err)
		}
	}
	// estimateKVComplexity request (exported builder, private caller)
	for _, cluster := range []bool{false, true} {
		reg := newRegistry(cluster)
		sel := newSvc(reg).GetEstimateKVComplexityRequest(context.Background(), reg.db)
		str, err := sel.String(&sql.Ctx{Params: map[string]sql.SQLObject{}, Result: map[string]sql.SQLObject{}})
		c.direct("logql_misc", cluster, "QueryLabelsService.GetEstimateKVComplexityRequest (estimateKVComplexity)", str, err)
	}
}

func harvestLogQL(c *corpus) {
	def := qrOpts{stepMs: 1000, limit: 100}

	selectors := []string{
		`{app="a"}`,
		`{app!="a"}`,
		`{app=~"a.*"}`,
		`{app!~"a|b"}`,
		`{app="a", env="prod"}`,
		`{app="a", env!="prod", host=~"h[0-9]+"}`,
		`{app=~".+", env!~"dev|test", host="h1"}`,
		`{app!="", env=~"(?i)PROD"}`,
		`{__name__="up"}`,
		`{app="it's"}`,
		`{app="back\\slash"}`,
		`{app="100%_done"}`,
		`{app="quo\"te"}`,
		`{app="(paren"}`,
		`{app="юникод ✓"}`,
		"{app=`tick\\d+`}",
		`{app=""}`,
	}
	for _, s := range selectors {
		runLogQL(c, s, def)
	}

	lineFilters := []string{
		`|= "err"`,
		`!= "err"`,
		`|~ "err.*or"`,
		`!~ "err.*or"`,
		`|~ "literal"`,
		`!~ "literal"`,
		`|~ "(?i)abc"`,
		`!~ "(?i)abc"`,
		`|~ "(?i)a.c"`,
		`|~ "^GET /api/v[0-9]+"`,
		`|= "100%"`,
		`|= "a_b"`,
		`|= "it's"`,
		`|= "back\\slash"`,
		`|= "quo\"te"`,
		`|= "("`,
		`|= "юни ✓"`,
		`|= ""`,
		"|= `tick \\d`",
		"|~ `\\d{3} \\w+`",
		`|~ "a|b"`,
		`|~ "100%_"`,
		`!~ "it's"`,
		`|= "tab\there"`,
		`|= "new\nline"`,
		`|= "a" != "b" |~ "c.+" !~ "d.+"`,
		`|= "a" |= "b" |= "c"`,
	}
	for _, f := range lineFilters {
		runLogQL(c, `{app="a"} `+f, def)
	}

	labelFilters := []string{
		`| level="error"`,
		`| level!="error"`,
		`| level=~"err.*"`,
		`| level!~"err.*"`,
		`| status>=500`,
		`| status==200`,
		`| status!=200`,
		`| status<400`,
		`| status<=1.5`,
		`| status>0`,
		`| level="error" and status>=500`,
		`| level="error" or status>=500`,
		`| (level="error" or level="warn") and status>=500`,
		`| level="a" and (status>1 or status<0)`,
		`| level="a" and status>1 or host="h"`,
		`| ((level="a"))`,
		`| level="it's \\ 100%_ \" ( юникод"`,
		"| level=~`e\\w+`",
		`| level="error" | status>=500`,
		`|= "x" | level="error"`,
		`| level="error" |= "x"`,
	}
	for _, f := range labelFilters {
		runLogQL(c, `{app="a"} `+f, def)
	}

	parsers := []string{
		`| json a="b.c"`,
		`| json a="b", c="d[0]"`,
		`| json a="[\"x y\"].z"`,
		`| json first="servers[0]", ua="request.headers[\"User-Agent\"]"`,
		`| json a="b" | a="x"`,
		`| json a="b.c" | a!="x"`,
		`| json a="b", c="d[0]" | a=~"x.*" and c!~"y"`,
		`| json a="b" | a>5`,
		`| json a="b" | a>=5 or a<1.5 and a!=3`,
		`| json a="b" | (a=="1" or level="error")`,
		`| json a="b" | a==1 | level="error"`,
		`|= "x" | json a="b" |= "y" | a="z"`,
		`| level="error" | json a="b" | a="z"`,
		`| json a="b" | json c="d"`,
		`| json a="b" | c="z" | json c="d"`,
		`| regexp "(?P<x>[a-z]+)-(?P<y>\\d+)"`,
		`| regexp "(?P<x>[a-z]+)-(?P<y>\\d+)" | x="abc"`,
		`| regexp "(?P<x>[a-z]+)-(?P<y>\\d+)" | y>10`,
		`| regexp "^(?P<ip>\\S+) (\\S+) (?P<user>\\S+)"`,
		"| regexp `(?P<method>\\w+) (?P<path>/\\S*) it's`",
		`| regexp "(?P<outer>a(?P<inner>b+)c)"`,
		`| regexp "no groups"`,
		`| json a="b" | regexp "(?P<x>\\d+)" | x>1 and a="q"`,
		`| drop a`,
		`| drop a, b="x"`,
		`| drop a, b`,
		`| drop a="it's", b="\\"`,
		`| json a="b" | drop a`,
		`| json a="b" | drop level, a="x"`,
		`| level="error" | drop level`,
		`| drop level | level="error"`,
		`| drop`,
		`| unwrap x`,
		`| json x="a" | unwrap x`,
		// split between ClickHouse and the in-process engine
		`| json`,
		`|= "x" | json`,
		`|= "x" | json | level="error"`,
		`| level="error" | json | status>=500`,
		`| logfmt`,
		`|= "x" | logfmt | level="error"`,
		`| json a="b" | logfmt`,
		`| line_format "{{.level}} {{.msg}}"`,
		`|= "x" | line_format "{{.level}}"`,
		`| json a="b" | line_format "{{.a}}!"`,
		`| label_format lvl=level`,
		`| label_format lvl="{{.level}}-x"`,
		`| json a="b" | label_format c=a, d="{{.a}}!"`,
		`| regexp "(?P<x>\\d+)" | json`,
	}
	for _, p := range parsers {
		runLogQL(c, `{app="a"} `+p, def)
	}

	// limits and directions
	for _, q := range []string{
		`{app="a"}`,
		`{app="a"} |= "err"`,
		`{app="a"} | level="error"`,
		`{app="a"} | json a="b" | a="x"`,
		`{app="a"} | json`,
	} {
		for _, o := range []qrOpts{
			{stepMs: 1000, limit: 0, forward: false},
			{stepMs: 1000, limit: 0, forward: true},
			{stepMs: 1000, limit: 1, forward: false},
			{stepMs: 1000, limit: 1, forward: true},
			{stepMs: 1000, limit: 100, forward: true},
			{stepMs: 1000, limit: 5000, forward: false},
			{stepMs: 1000, limit: 100, instant: true},
		} {
			runLogQL(c, q, o)
		}
	}

	// ---- metric queries ----
	inner := []string{
		`{app="a"}`,
		`{app="a", env!="x"} |= "err"`,
		`{app="a"} | level="error"`,
		`{app="a"} | json s="status" | s>=500`,
		`{app="a"} |= ""`,
	}
	lra := []string{"rate", "count_over_time", "bytes_rate", "bytes_over_time", "absent_over_time"}
	ranges := []string{"5s", "1m"}
	for _, fn := range lra {
		for _, r := range ranges {
			for _, in := range inner {
				runLogQL(c, fmt.Sprintf(`%s(%s[%s])`, fn, in, r), def)
			}
		}
	}
	// other range units and the 15s boundary
	for _, r := range []string{"14s", "15s", "500ms", "1h", "15000000us", "15000000000ns"} {
		runLogQL(c, fmt.Sprintf(`rate({app="a"}[%s])`, r), def)
		runLogQL(c, fmt.Sprintf(`count_over_time({app="a"} |= "x"[%s])`, r), def)
	}
	// shortcut planner is also taken for pipelines it ignores
	for _, q := range []string{
		`rate({app="a"} | line_format "{{.x}}" [1m])`,
		`rate({app="a"} | label_format a=b [1m])`,
		`count_over_time({app="a"} | level="error" and status>=500 [1m])`,
		`rate({app="a"} | json [1m])`,
		`rate({app="a"} | json [5s])`,
		`rate({app="a"} | json | level="error" [5s])`,
		`rate({app="a"} | logfmt [1m])`,
		`count_over_time({app="a"} | line_format "{{.x}}" [5s])`,
		`rate({app="a"} | drop level [1m])`,
		`rate({app="a"} | drop level [5s])`,
		`rate({app="a"} | regexp "(?P<x>\\d+)" | x>1 [1m])`,
		`absent_over_time({app="a"} | json [1m])`,
	} {
		runLogQL(c, q, def)
	}

	unwrapFns := []string{"rate", "sum_over_time", "avg_over_time", "max_over_time", "min_over_time",
		"first_over_time", "last_over_time", "stdvar_over_time", "stddev_over_time"}
	unwrapInner := []string{
		`{app="a"} | unwrap x`,
		`{app="a"} | json x="a.b" | unwrap x`,
		`{app="a"} | regexp "(?P<y>\\d+)ms" | unwrap y`,
	}
	for _, fn := range unwrapFns {
		for _, r := range ranges {
			for i, in := range unwrapInner {
				if i == 0 && fn != "rate" && fn != "sum_over_time" {
					continue // unwrap of a stream label without a parser is always rejected ("labels col not inited")
				}
				runLogQL(c, fmt.Sprintf(`%s(%s [%s])`, fn, in, r), def)
			}
		}
	}
	for _, q := range []string{
		`sum_over_time({app="a"} | unwrap _entry [1m])`,
		`sum_over_time({app="a"} | unwrap_value [1m])`,
		`sum_over_time({app="a"} | json x="a" | x>1 | unwrap x [1m])`,
		`sum_over_time({app="a"} |= "q" | json x="a[0]", y="b" | y="z" | unwrap x [5s])`,
		`sum_over_time({app="a"} | json | unwrap x [1m])`,
		`sum_over_time({app="a"} | logfmt | unwrap x [5s])`,
		`sum_over_time({app="a"} | unwrap x [1m]) by (app)`,
		`sum_over_time({app="a"} | json x="a" | unwrap x [1m]) by (app)`,
		`sum_over_time({app="a"} | json x="a" | unwrap x [1m]) without (env)`,
		`avg_over_time by (app) ({app="a"} | json x="a" | unwrap x [5s])`,
		`sum_over_time({app="a"} | json x="a" | unwrap _entry [1m])`,
		`sum_over_time({app="a"} | json x="a" | unwrap_value [1m])`,
		`sum_over_time({app="a"} | regexp "(?P<x>\\d+)" | unwrap x [1m]) by (x)`,
		`avg_over_time without (app, env) ({app="a"} | json x="a" | unwrap x [5s])`,
		`max_over_time({app="a"} | json x="a" | unwrap x [1m]) by (x, app)`,
		`sum_over_time({app="a"} | json x="a" | unwrap x [1m]) > 1`,
		`sum_over_time({app="a"} | json x="a" | unwrap x [1m]) by (app) <= 10.5`,
		`bytes_rate({app="a"} | json x="a" | unwrap x [1m])`,
		`count_over_time({app="a"} | json x="a" | unwrap x [1m])`,
		`absent_over_time({app="a"} | json x="a" | unwrap x [1m])`,
		`sum_over_time({app="a"} | drop b | unwrap x [1m])`,
		`sum_over_time({app="a"} | json x="a" | drop level, x="0" | unwrap x [1m])`,
	} {
		runLogQL(c, q, def)
	}

	for _, q := range []string{
		`quantile_over_time(0.5, {app="a"} | unwrap x [1m])`,
		`quantile_over_time(0.99, {app="a"} | json x="a" | unwrap x [5s])`,
		`quantile_over_time(1, {app="a"} | json x="a" | unwrap x [1m])`,
		`quantile_over_time(0, {app="a"} | json x="a" | unwrap x [1m]) by (app)`,
		`quantile_over_time by (app) (0.9, {app="a"} | json x="a" | unwrap x [1m])`,
		`quantile_over_time without (env) (0.9, {app="a"} | json x="a" | unwrap x [1m])`,
		`quantile_over_time(0.9, {app="a"} | json x="a" | unwrap x [1m]) without (env)`,
		`quantile_over_time(0.5, {app="a"} | json x="a" | unwrap x [1m]) > 1`,
		`quantile_over_time(0.5, {app="a"} | json x="a" | unwrap x [1m]) by (app) == 0`,
		`quantile_over_time(0.5, {app="a"} | drop foo | unwrap x [1m])`,
		`quantile_over_time(0.5, {app="a"} | json | unwrap x [1m])`,
		`quantile_over_time(0.5, {app="a"} | regexp "(?P<x>\\d+)" | unwrap x [5s])`,
		`quantile_over_time(0.5, {app="a"}[1m])`,
	} {
		runLogQL(c, q, def)
	}

	aggs := []string{"sum", "min", "max", "avg", "count", "stddev", "stdvar"}
	aggInner := []string{
		`rate({app="a"}[5s])`,
		`rate({app="a"}[1m])`,
		`count_over_time({app="a"} |= "err"[5s])`,
		`sum_over_time({app="a"} | json x="a" | unwrap x [1m])`,
		`rate({app="a"} | json s="status" | s>=500 [5s])`,
	}
	groupings := []struct{ pre, suf string }{
		{"", ""},
		{" by (app)", ""},
		{"", " by (app)"},
		{" without (env)", ""},
		{"", " without (env, host)"},
		{" by (app, env)", ""},
	}
	for _, a := range aggs {
		for _, in := range aggInner {
			for _, g := range groupings {
				runLogQL(c, fmt.Sprintf(`%s%s (%s)%s`, a, g.pre, in, g.suf), def)
			}
		}
	}
	cmps := []string{"> 1", ">= 1", "< 1", "<= 1.5", "== 0", "!= 0"}
	for _, cmp := range cmps {
		runLogQL(c, `rate({app="a"}[5s]) `+cmp, def)
		runLogQL(c, `rate({app="a"}[1m]) `+cmp, def)
		runLogQL(c, `sum by (app) (rate({app="a"}[5s])) `+cmp, def)
		runLogQL(c, `sum(count_over_time({app="a"}[1m])) by (app) `+cmp, def)
		runLogQL(c, `topk(3, rate({app="a"}[5s])) `+cmp, def)
	}
	for _, q := range []string{
		`sum(rate({app="a"}[5s]) > 1) by (app) > 2`,
		`sum(rate({app="a"}[1m]) > 1) by (app) > 2`,
		`sum by (app) (sum_over_time({app="a"} | json x="a" | unwrap x [1m]) by (app, env))`,
		`sum(sum_over_time({app="a"} | json | unwrap x [10s]) by (app, x)) by (app) > 100`,
		`sum(rate({app="a"} | json [1m])) by (level)`,
		`sum(rate({app="a"} | json | level="error" [5s])) by (level)`,
		`avg(bytes_rate({app="a"} | logfmt [5s]))`,
		`sum(absent_over_time({app="a"}[1m]))`,
		`topk(5, rate({app="a"}[1m]))`,
		`topk(5, rate({app="a"}[5s]))`,
		`bottomk(3, rate({app="a"}[1m]))`,
		`bottomk(3, sum by (app) (rate({app="a"}[5s])))`,
		`topk(3, sum by (app) (rate({app="a"}[1m])))`,
		`topk(10, sum(count_over_time({app="a"}[5s])) by (app)) > 5`,
		`topk(1, sum(rate({app="a"}[1m])))`,
		`topk(2, quantile_over_time(0.5, {app="a"} | json x="a" | unwrap x [1m]))`,
		`bottomk(2, quantile_over_time(0.5, {app="a"} | json x="a" | unwrap x [1m]) by (app))`,
		`topk(2, sum_over_time({app="a"} | json x="a" | unwrap x [1m]))`,
		`topk(2, sum_over_time({app="a"} | unwrap x [1m]))`,
		`topk(2, sum_over_time({app="a"} | json x="y" | unwrap x [5s]) by (app))`,
		`topk(2, rate({app="a"} | json s="status" | s>=500 [5s]))`,
		`topk(2, rate({app="a"} | json [5s]))`,
		`topk(2, sum(rate({app="a"} | json [5s])) by (level))`,
		`topk(0, rate({app="a"}[5s]))`,
		`_my_macro("x", "y")`,
		`vector(1)`,
		`rate({app="a"}[5s]) + rate({app="b"}[5s])`,
		`sum(rate({app="a"}[5s])) / 2`,
		`count_over_time({app="a"}[1d])`,
		`rate({app="a"}[5s] offset 1m)`,
		`{app="a"`,
		`{}`,
		`{app="a"} | foo`,
		`{app="a"} |= err`,
	} {
		runLogQL(c, q, def)
	}

	// step vs range (StepFixPlanner) and instant metric queries
	for _, q := range []string{
		`rate({app="a"}[5s])`,
		`rate({app="a"}[1m])`,
		`sum by (app) (rate({app="a"}[5s]))`,
		`sum_over_time({app="a"} | json x="a" | unwrap x [5s])`,
		`quantile_over_time(0.5, {app="a"} | json x="a" | unwrap x [5s])`,
		`topk(2, rate({app="a"} | json s="status" [5s]))`,
		`rate({app="a"} | json [5s])`,
	} {
		for _, o := range []qrOpts{
			{stepMs: 60000, limit: 100},
			{stepMs: 15000, limit: 2000, forward: true},
			{stepMs: 300000, limit: 0},
			{stepMs: 1000, limit: 100, instant: true},
			{stepMs: 0, limit: 100},
		} {
			runLogQL(c, q, o)
		}
	}

	// tail
	for _, q := range []string{
		`{app="a"}`,
		`{app="a", env=~"p.*"} |= "err" | level="error"`,
		`{app="a"} | json a="b" | a="x"`,
		`{app="a"} | json`,
		`rate({app="a"}[1m])`,
	} {
		runTail(c, q)
	}

	// planners that Transpile() never lets reach ClickHouse, rendered through the exported Plan()
	for _, q := range []string{
		`{app="a"} | line_format "{{.level}} {{.msg}}"`,
		`{app="a"} | line_format "plain text it's 100% {} { }"`,
		`{app="a"} | json a="b" | line_format "{{.a}}: {{.app}} \\ ' \" (юникод)"`,
		`{app="a"} | line_format "{{.a}}" | line_format "{{.b}}{{.c}}"`,
		`{app="a"} | line_format "{{ .a | lower }}"`,
		`{app="a"} | line_format "{{ .a"`,
		`{app="a"} |= "x" | line_format "{{.level}}" |= "y"`,
		`rate({app="a"} | line_format "{{.level}}" |= "err" [5s])`,
		`{app="a"} | label_format lvl=level`,
		`{app="a"} | json a="b" | label_format c=a, d="{{.a}}!"`,
		`{app="a"} | json`,
		`{app="a"} | logfmt`,
		`{app="a"} | json a="b"`,
	} {
		runDirectPlan(c, q, true, def)
	}
	runDirectPlan(c, `{app="a"} |= "x" | json a="b"`, false, def)
	runDirectPlan(c, `{app="a"}`, false, def)
	runDirectPlan(c, `rate({app="a"}[5s])`, false, def)

	runLabelsAPI(c)
	runUnreachable(c)
	_ = strings.TrimSpace
}

// runUnreachable instantiates exported planners that nothing in the repository wires into a plan
// (label_format is silently skipped by planSpl; PlannerDropSimple has no constructor call).
func runUnreachable(c *corpus) {
	for _, cluster := range []bool{false, true} {
		for _, q := range []string{
			`{app="a"} | json a="b" | label_format c=a`,
			`{app="a"} | json a="b" | label_format c=a, d="{{.a}}! it's {{.app}}", e="const"`,
		} {
			desc := "direct clickhouse_planner.LabelFormatPlanner over Plan(prefix, finalize=false) (never instantiated by planSpl: label_format is ignored in SQL): " + q
			func() {
				defer func() {
					if r := recover(); r != nil {
						c.reject("logql_log", desc, fmt.Sprintf("panic: %v", r))
					}
				}()
				script, err := logql_parser.Parse(q)
				if err != nil {
					c.reject("logql_log", desc, err.Error())
					return
				}
				ppl := script.StrSelector.Pipelines
				lf := ppl[len(ppl)-1].LabelFormat
				script.StrSelector.Pipelines = ppl[:len(ppl)-1]
				plan, err := clickhouse_planner.Plan(script, false)
				if err != nil {
					c.reject("logql_log", desc, err.Error())
					return
				}
				reg := newRegistry(cluster)
				ctx := plannerCtx(cluster, reg, 100, false, time.Second)
				ctx.CHFinalize = false
				sel, err := (&clickhouse_planner.LabelFormatPlanner{Main: plan, Expr: lf}).Process(ctx)
				if err != nil {
					c.reject("logql_log", desc, err.Error())
					return
				}
				str, err := renderSel(sel, cluster)
				c.direct("logql_log", cluster, desc, str, err)
			}()
		}
		func() {
			desc := `direct clickhouse_planner.PlannerDropSimple{Labels:[level b] Vals:["" x]} over Plan(rate({app="a"}[5s]), finalize=false) (dead code: no caller)`
			defer func() {
				if r := recover(); r != nil {
					c.reject("logql_metric", desc, fmt.Sprintf("panic: %v", r))
				}
			}()
			script, _ := logql_parser.Parse(`rate({app="a"}[5s])`)
			plan, err := clickhouse_planner.Plan(script, false)
			if err != nil {
				c.reject("logql_metric", desc, err.Error())
				return
			}
			fpScript, _ := logql_parser.Parse(`{app="a"}`)
			fpPlan, _ := logql_transpiler_v2.PlanFingerprints(fpScript)
			reg := newRegistry(cluster)
			ctx := plannerCtx(cluster, reg, 100, false, time.Second)
			ctx.CHFinalize = false
			fpSel, err := fpPlan.Process(ctx)
			if err != nil {
				c.reject("logql_metric", desc, err.Error())
				return
			}
			fpWith := sql.NewWith(fpSel, "fp_sel")
			var labelsCache *sql.With
			sel, err := (&clickhouse_planner.PlannerDropSimple{
				Labels: []string{"level", "b"}, Vals: []string{"", "x"},
				LabelsCache: &labelsCache, FPCache: &fpWith, Main: plan,
			}).Process(ctx)
			if err != nil {
				c.reject("logql_metric", desc, err.Error())
				return
			}
			str, err := renderSel(sel, cluster)
			c.direct("logql_metric", cluster, desc, str, err)
		}()
	}
}
