package main

import (
	"context"
	"database/sql/driver"
	"fmt"
	"strings"
	"time"

	"github.com/metrico/qryn/reader/logql/logql_transpiler_v2/shared"
	"github.com/metrico/qryn/reader/model"
	"github.com/metrico/qryn/reader/promql/transpiler"
	"github.com/metrico/qryn/reader/service"
	"github.com/prometheus/prometheus/model/labels"
	"github.com/prometheus/prometheus/promql"
	"github.com/prometheus/prometheus/storage"
)

// promResponder: the samples statement answers one point so that the follow-up "labels by fingerprint"
// statement (labelsGetter.Fetch) is issued too.
func promResponder(tsMs int64) responder {
	return func(q string) *cannedRows {
		if strings.Contains(q, "JSONExtractKeysAndValues(labels, 'String') as labels") {
			return nil
		}
		return &cannedRows{cols: []string{"fingerprint", "value", "timestamp_ms"},
			rows: [][]driver.Value{{uint64(1234567890123), float64(1), tsMs}}}
	}
}

func newPromEngine() *promql.Engine {
	return promql.NewEngine(promql.EngineOpts{
		MaxSamples: 50000000,
		Timeout:    30 * time.Second,
	})
}

type promRun struct {
	query   string
	start   time.Time
	end     time.Time
	step    time.Duration
	instant bool
}

func (p promRun) String() string {
	if p.instant {
		return fmt.Sprintf("%s  ## prom instant query at %s", p.query, p.end.UTC().Format(time.RFC3339))
	}
	return fmt.Sprintf("%s  ## prom query_range start=%s end=%s step=%v", p.query,
		p.start.UTC().Format("15:04:05.000"), p.end.UTC().Format("15:04:05.000"), p.step)
}

func runProm(c *corpus, p promRun) {
	c.run("promql", p.String(), func(cluster bool, reg *fakeRegistry) error {
		setResponder(promResponder(p.start.UnixMilli()))
		eng := newPromEngine()
		svc := &service.CLokiQueriable{ServiceData: model.ServiceData{Session: reg}}
		ctx := context.Background()
		var (
			q   promql.Query
			err error
		)
		if p.instant {
			q, err = eng.NewInstantQuery(svc.SetOidAndDB(ctx), nil, p.query, p.end)
		} else {
			q, err = eng.NewRangeQuery(svc.SetOidAndDB(ctx), nil, p.query, p.start, p.end, p.step)
		}
		if err != nil {
			return err
		}
		defer q.Close()
		res := q.Exec(ctx)
		return res.Err
	})
}

func runPromSelect(c *corpus, hints storage.SelectHints, ms []*labels.Matcher) {
	var strMs []string
	for _, m := range ms {
		strMs = append(strMs, m.String())
	}
	desc := fmt.Sprintf("direct CLokiQuerier.Select hints{Func:%q Start:%d End:%d Step:%d Range:%d By:%v Grouping:%v} matchers {%s}",
		hints.Func, hints.Start, hints.End, hints.Step, hints.Range, hints.By, hints.Grouping, strings.Join(strMs, ","))
	c.run("promql", desc, func(cluster bool, reg *fakeRegistry) error {
		setResponder(promResponder(hints.Start))
		svc := &service.CLokiQueriable{ServiceData: model.ServiceData{Session: reg}}
		q, err := svc.SetOidAndDB(context.Background()).Querier(context.Background(), hints.Start, hints.End)
		if err != nil {
			return err
		}
		h := hints
		set := q.Select(false, &h, ms...)
		for set.Next() {
		}
		return set.Err()
	})
}

func harvestPromQL(c *corpus) {
	aligned := tFrom // multiple of 15s
	unaligned := tFrom.Add(7 * time.Second)
	sels := []string{
		`up`,
		`up{job="node"}`,
		`up{job!="node"}`,
		`up{job=~"no.*"}`,
		`up{job!~"no.*"}`,
		`up{job="node",instance=~"i[0-9]+",env!="dev",dc!~"eu|us"}`,
		`{__name__="up"}`,
		`{__name__=~"http_.+"}`,
		`{__name__!="up",job="node"}`,
		`{__name__!~"go_.*",job=~".+"}`,
		`{job="it's \\ 100%_ \" ( юникод ✓"}`,
		`up{job=""}`,
	}
	for _, s := range sels {
		runProm(c, promRun{query: s, start: aligned, end: tTo, step: time.Minute})
		runProm(c, promRun{query: s, start: aligned, end: tTo, step: 5 * time.Second})
		runProm(c, promRun{query: s, end: tTo, instant: true})
	}
	exprs := []string{
		`rate(http_requests_total{code="200"}[5m])`,
		`rate(http_requests_total[30s])`,
		`rate(http_requests_total[10s])`,
		`irate(http_requests_total[1m])`,
		`increase(http_requests_total[1m])`,
		`delta(cpu_temp[1m])`,
		`idelta(cpu_temp[1m])`,
		`deriv(cpu_temp[1m])`,
		`resets(http_requests_total[1m])`,
		`changes(cpu_temp[1m])`,
		`avg_over_time(cpu_temp[1m])`,
		`min_over_time(cpu_temp[1m])`,
		`max_over_time(cpu_temp[1m])`,
		`sum_over_time(cpu_temp[1m])`,
		`count_over_time(cpu_temp[1m])`,
		`last_over_time(cpu_temp[1m])`,
		`present_over_time(cpu_temp[1m])`,
		`absent_over_time(cpu_temp[1m])`,
		`stddev_over_time(cpu_temp[1m])`,
		`stdvar_over_time(cpu_temp[1m])`,
		`quantile_over_time(0.9, cpu_temp[1m])`,
		`predict_linear(cpu_temp[1m], 60)`,
		`holt_winters(cpu_temp[1m], 0.5, 0.5)`,
		`avg_over_time(cpu_temp[10s])`,
		`sum_over_time(cpu_temp[2m])`,
		`abs(cpu_temp)`,
		`absent(cpu_temp)`,
		`ceil(cpu_temp)`,
		`floor(cpu_temp)`,
		`exp(cpu_temp)`,
		`ln(cpu_temp)`,
		`log2(cpu_temp)`,
		`log10(cpu_temp)`,
		`round(cpu_temp)`,
		`scalar(cpu_temp)`,
		`sgn(cpu_temp)`,
		`sort(cpu_temp)`,
		`sort_desc(cpu_temp)`,
		`sqrt(cpu_temp)`,
		`timestamp(cpu_temp)`,
		`atan(cpu_temp)`,
		`cos(cpu_temp)`,
		`cosh(cpu_temp)`,
		`sin(cpu_temp)`,
		`sinh(cpu_temp)`,
		`tan(cpu_temp)`,
		`tanh(cpu_temp)`,
		`deg(cpu_temp)`,
		`rad(cpu_temp)`,
		`clamp(cpu_temp, 0, 1)`,
		`histogram_quantile(0.9, rate(http_bucket[1m]))`,
		`label_replace(up, "a", "$1", "b", "(.*)")`,
		`sum(cpu_temp)`,
		`sum by (job) (cpu_temp)`,
		`sum without (instance) (cpu_temp)`,
		`min(cpu_temp)`,
		`max by (job, env) (cpu_temp)`,
		`avg(cpu_temp)`,
		`group(cpu_temp)`,
		`count(cpu_temp)`,
		`stddev(cpu_temp)`,
		`topk(3, cpu_temp)`,
		`quantile(0.5, cpu_temp)`,
		`sum by (job) (rate(http_requests_total{code=~"5.."}[1m]))`,
		`sum(rate(a[1m])) / sum(rate(b{x="y"}[1m]))`,
		`cpu_temp offset 5m`,
		`cpu_temp > 50`,
		`max_over_time(rate(a[1m])[5m:1m])`,
		`vector(1)`,
		`1 + 1`,
		`up{`,
	}
	for _, e := range exprs {
		runProm(c, promRun{query: e, start: aligned, end: tTo, step: time.Minute})
		runProm(c, promRun{query: e, start: aligned, end: tTo, step: 15 * time.Second})
		runProm(c, promRun{query: e, start: aligned, end: tTo, step: 5 * time.Minute})
	}
	for _, e := range []string{
		`rate(http_requests_total{code="200"}[5m])`,
		`avg_over_time(cpu_temp[1m])`,
		`count_over_time(cpu_temp[1m])`,
		`last_over_time(cpu_temp[1m])`,
		`abs(cpu_temp)`,
		`sum by (job) (cpu_temp)`,
		`cpu_temp`,
	} {
		runProm(c, promRun{query: e, start: aligned, end: tTo, step: 5 * time.Second})
		runProm(c, promRun{query: e, start: unaligned, end: tTo, step: time.Minute})
		runProm(c, promRun{query: e, start: aligned, end: tTo, step: 90 * time.Second})
		runProm(c, promRun{query: e, end: tTo, instant: true})
	}

	// synthetic hints straight into Select: every function class x raw/downsample path
	ms := []*labels.Matcher{
		labels.MustNewMatcher(labels.MatchEqual, "__name__", "cpu_temp"),
		labels.MustNewMatcher(labels.MatchRegexp, "job", "no.*"),
	}
	fns := []string{"", "rate", "irate", "increase", "delta", "idelta", "deriv", "resets", "changes",
		"avg_over_time", "min_over_time", "max_over_time", "sum_over_time", "count_over_time", "last_over_time",
		"present_over_time", "absent_over_time", "stddev_over_time", "stdvar_over_time", "quantile_over_time",
		"abs", "timestamp", "sum", "min", "max", "avg", "group", "count", "topk", "unknown_fn"}
	for _, fn := range fns {
		for _, h := range []storage.SelectHints{
			{Step: 60000, Range: 30000},  // step > range (downsample path when supported)
			{Step: 60000, Range: 300000}, // step < range
			{Step: 60000, Range: 0},
			{Step: 5000, Range: 30000},  // raw: step < 15s
			{Step: 60000, Range: 10000}, // raw: range < 15s
			{Step: 0, Range: 0},         // raw: no step
		} {
			h.Func = fn
			h.Start = aligned.UnixMilli()
			h.End = tTo.UnixMilli()
			if fn == "sum" {
				h.By = true
				h.Grouping = []string{"job"}
			}
			runPromSelect(c, h, ms)
		}
	}
	runPromSelect(c, storage.SelectHints{Func: "rate", Start: unaligned.UnixMilli(), End: tTo.UnixMilli(), Step: 60000, Range: 30000}, ms)

	// dead code in this build ("TODO: move to PRO !!!TURNED OFF"): partial-state downsample + UNION ALL finalizer.
	for _, fn := range []string{"count_over_time", "avg_over_time", "last_over_time", "sum_over_time", "min_over_time",
		"max_over_time", "absent_over_time", "present_over_time", "rate"} {
		for _, cluster := range []bool{false, true} {
			hints := &storage.SelectHints{Func: fn, Start: aligned.UnixMilli(), End: tTo.UnixMilli(), Step: 60000, Range: 30000}
			mk := func() shared.SQLRequestPlanner {
				var p shared.SQLRequestPlanner = transpiler.NewInitDownsamplePlanner()
				p = &transpiler.StreamSelectCombiner{Main: p, StreamSelector: &transpiler.StreamSelectPlanner{Matchers: ms}}
				p = &transpiler.DownsampleHintsPlanner{Main: p, Partial: true, Hints: hints}
				return p
			}
			var p shared.SQLRequestPlanner = &transpiler.UnionPlanner{Main1: mk(), Main2: mk(), Hints: hints}
			reg := newRegistry(cluster)
			ctx := plannerCtx(cluster, reg, 0, false, time.Minute)
			ctx.Type = 2
			desc := fmt.Sprintf("direct promql/transpiler UnionPlanner{DownsampleHintsPlanner{Partial:true}} hints.Func=%q (not reachable: turned off in this build)", fn)
			sel, err := p.Process(ctx)
			if err != nil {
				c.reject("promql", desc, err.Error())
				continue
			}
			str, err := renderSel(sel, cluster)
			c.direct("promql", cluster, desc, str, err)
		}
	}
}
