package main

func registerMore(reg func(string, func(*corpus))) {
	reg("traceql", harvestTraceQL)
	reg("tempo", harvestTempo)
	reg("promql", harvestPromQL)
	reg("prof", harvestProf)
	reg("other", harvestOther)
	reg("mv", harvestMV)
}
