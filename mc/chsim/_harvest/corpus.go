package main

import (
	"database/sql/driver"
	"encoding/base64"
	"fmt"
	"os"
	"path/filepath"
	"regexp"
	"sort"
	"strings"
	"sync"
	"time"
)

type entry struct {
	family string
	mode   string
	desc   string
	sql    string
}

type corpus struct {
	mtx      sync.Mutex
	order    []string // family order
	entries  map[string][]entry
	seen     map[string]map[string]bool
	dups     map[string]int
	rejected []string
	rejSeen  map[string]bool
	panics   []string
}

func newCorpus() *corpus {
	return &corpus{
		entries: map[string][]entry{},
		seen:    map[string]map[string]bool{},
		dups:    map[string]int{},
		rejSeen: map[string]bool{},
	}
}

var families = []string{"logql_log", "logql_metric", "logql_misc", "traceql", "tempo", "promql", "prof", "other", "mv"}

func oneLine(s string) string {
	s = strings.ReplaceAll(s, "\r\n", " ")
	s = strings.ReplaceAll(s, "\n", " ")
	s = strings.ReplaceAll(s, "\r", " ")
	return s
}

func (c *corpus) add(family, mode, desc, sqlText string) {
	c.mtx.Lock()
	defer c.mtx.Unlock()
	if c.seen[family] == nil {
		c.seen[family] = map[string]bool{}
	}
	if c.seen[family][sqlText] {
		c.dups[family]++
		return
	}
	c.seen[family][sqlText] = true
	c.entries[family] = append(c.entries[family], entry{family, mode, oneLine(desc), sqlText})
}

func (c *corpus) reject(family, query string, err string) {
	c.mtx.Lock()
	defer c.mtx.Unlock()
	if i := strings.Index(query, "  ## "); i >= 0 {
		query = query[:i]
	}
	line := fmt.Sprintf("%s | %s | %s", family, oneLine(query), oneLine(err))
	if c.rejSeen[line] {
		return
	}
	c.rejSeen[line] = true
	c.rejected = append(c.rejected, line)
}

// ---- string-literal aware helpers ----

// maskLiterals returns a copy of s in which the *contents* of '...' literals, `...` and "..." quoted
// identifiers are replaced by 'S' bytes (quotes stay), plus whether a newline occurred inside a literal.
// '...' literals honour backslash escapes and ” doubling (ClickHouse rules).
func maskLiterals(s string) (string, bool) {
	b := []byte(s)
	out := make([]byte, len(b))
	copy(out, b)
	nlInside := false
	i := 0
	for i < len(b) {
		ch := b[i]
		switch ch {
		case '\'':
			i++
			for i < len(b) {
				if b[i] == '\\' && i+1 < len(b) {
					out[i], out[i+1] = 'S', 'S'
					i += 2
					continue
				}
				if b[i] == '\'' {
					if i+1 < len(b) && b[i+1] == '\'' {
						out[i], out[i+1] = 'S', 'S'
						i += 2
						continue
					}
					break
				}
				if b[i] == '\n' || b[i] == '\r' {
					nlInside = true
				}
				out[i] = 'S'
				i++
			}
			i++
		case '`', '"':
			q := ch
			i++
			for i < len(b) && b[i] != q {
				if b[i] == '\\' && i+1 < len(b) {
					out[i], out[i+1] = 'S', 'S'
					i += 2
					continue
				}
				if b[i] == '\n' || b[i] == '\r' {
					nlInside = true
				}
				out[i] = 'S'
				i++
			}
			i++
		default:
			i++
		}
	}
	return string(out), nlInside
}

// sqlLine renders the second line of an entry.
func sqlLine(s string) string {
	masked, nlInside := maskLiterals(s)
	if nlInside {
		return "base64:" + base64.StdEncoding.EncodeToString([]byte(s))
	}
	// newlines are outside of literals: replace each run of CR/LF by one space
	_ = masked
	b := []byte(s)
	var out []byte
	for i := 0; i < len(b); i++ {
		if b[i] == '\r' || b[i] == '\n' {
			if len(out) == 0 || out[len(out)-1] != ' ' {
				out = append(out, ' ')
			}
			continue
		}
		out = append(out, b[i])
	}
	return string(out)
}

func (c *corpus) write(dir string) error {
	for _, fam := range families {
		var sb strings.Builder
		for _, e := range c.entries[fam] {
			sb.WriteString(fmt.Sprintf("-- #### %s | %s | %s\n", e.family, e.mode, e.desc))
			sb.WriteString(sqlLine(e.sql))
			sb.WriteString("\n\n")
		}
		if err := os.WriteFile(filepath.Join(dir, fam+".sql"), []byte(sb.String()), 0o644); err != nil {
			return err
		}
	}
	rej := strings.Join(c.rejected, "\n")
	if rej != "" {
		rej += "\n"
	}
	if err := os.WriteFile(filepath.Join(dir, "REJECTED.txt"), []byte(rej), 0o644); err != nil {
		return err
	}
	return nil
}

// ---- FUNCTIONS.txt ----

var fnRe = regexp.MustCompile(`([A-Za-z_][A-Za-z0-9_]*)\(`)

func (c *corpus) functions() string {
	counts := map[string]int{}
	for _, fam := range families {
		for _, e := range c.entries[fam] {
			masked, _ := maskLiterals(e.sql)
			for _, m := range fnRe.FindAllStringSubmatchIndex(masked, -1) {
				// skip ".name(" (would be a method-like thing; does not occur) but keep everything else
				counts[masked[m[2]:m[3]]]++
			}
		}
	}
	names := make([]string, 0, len(counts))
	for n := range counts {
		names = append(names, n)
	}
	sort.Strings(names)
	var sb strings.Builder
	for _, n := range names {
		sb.WriteString(fmt.Sprintf("%s %d\n", n, counts[n]))
	}
	return sb.String()
}

// ---- scenario runner ----

type scenarioFn func(cluster bool, reg *fakeRegistry) error

var progress = os.Stderr

// run executes fn for single and cluster mode, recording every statement that reaches the fake driver.
func (c *corpus) run(family, desc string, fn scenarioFn) {
	c.runModes(family, desc, []bool{false, true}, fn)
}

func (c *corpus) runModes(family, desc string, modes []bool, fn scenarioFn) {
	for _, cluster := range modes {
		mode := "single"
		if cluster {
			mode = "cluster"
		}
		var got []struct {
			q    string
			args []driver.NamedValue
		}
		var mtx sync.Mutex
		state.mtx.Lock()
		state.rec = func(q string, args []driver.NamedValue) {
			mtx.Lock()
			defer mtx.Unlock()
			got = append(got, struct {
				q    string
				args []driver.NamedValue
			}{q, args})
		}
		state.mtx.Unlock()
		reg := newRegistry(cluster)
		errCh := make(chan error, 1)
		go func() {
			defer func() {
				if r := recover(); r != nil {
					errCh <- fmt.Errorf("panic: %v", r)
				}
			}()
			errCh <- fn(cluster, reg)
		}()
		var err error
		select {
		case err = <-errCh:
		case <-time.After(20 * time.Second):
			err = fmt.Errorf("timeout: scenario did not finish in 20s")
		}
		state.mtx.Lock()
		state.rec = nil
		state.resp = nil
		state.mtx.Unlock()
		mtx.Lock()
		recorded := got
		mtx.Unlock()
		nMain := 0
		for _, g := range recorded {
			if versionResponder(g.q) == nil {
				nMain++
			}
		}
		k := 0
		for _, g := range recorded {
			if strings.TrimSpace(g.q) == "" {
				// the service ignored a String() error and sent an empty statement
				k++
				c.mtx.Lock()
				c.panics = append(c.panics, fmt.Sprintf("%s | %s | %s | EMPTY statement text was sent to QueryCtx (String() error ignored by the service)", family, mode, oneLine(desc)))
				c.mtx.Unlock()
				c.reject(family, desc, "empty statement text sent to ClickHouse (planner String() error swallowed by the service)")
				continue
			}
			if versionResponder(g.q) != nil {
				c.add("other", mode, "dbVersion.GetVersionInfo (reader/utils/dbVersion/version.go), issued before planning", g.q)
				continue
			}
			k++
			d := desc
			if nMain > 1 {
				d = fmt.Sprintf("%s [statement %d/%d]", desc, k, nMain)
			}
			if len(g.args) > 0 {
				d += fmt.Sprintf(" [args %v]", g.args)
			}
			c.add(family, mode, d, g.q)
		}
		if err != nil {
			if strings.HasPrefix(err.Error(), "panic:") || strings.HasPrefix(err.Error(), "timeout:") {
				c.mtx.Lock()
				c.panics = append(c.panics, fmt.Sprintf("%s | %s | %s | %s (statements recorded before: %d)", family, mode, oneLine(desc), oneLine(err.Error()), nMain))
				c.mtx.Unlock()
			}
			if nMain == 0 {
				c.reject(family, desc, err.Error())
			}
		}
	}
}

// direct adds SQL that was rendered without passing the fake driver.
func (c *corpus) direct(family string, cluster bool, desc string, sqlText string, err error) {
	mode := "single"
	if cluster {
		mode = "cluster"
	}
	if err != nil {
		c.reject(family, desc, err.Error())
		return
	}
	c.add(family, mode, desc, sqlText)
}
