package main

import (
	"context"
	"fmt"

	v1 "github.com/metrico/qryn/reader/prof/types/v1"
	"github.com/metrico/qryn/reader/service"
)

func harvestProf(c *corpus) {
	ctx := context.Background()
	svc := func(reg *fakeRegistry) *service.ProfService { return &service.ProfService{DataSession: reg} }

	c.run("prof", "ProfService.ProfileTypes", func(cluster bool, reg *fakeRegistry) error {
		_, err := svc(reg).ProfileTypes(ctx, tFrom, tTo)
		return err
	})
	c.run("prof", "ProfService.ProfileStats", func(cluster bool, reg *fakeRegistry) error {
		_, err := svc(reg).ProfileStats(ctx)
		return err
	})

	selectors := []string{
		`{}`,
		`{service_name="svc"}`,
		`{service_name!="svc"}`,
		`{service_name=~"svc.*"}`,
		`{service_name!~"svc.*"}`,
		`{region="eu"}`,
		`{region!="eu"}`,
		`{region=~"eu.*"}`,
		`{region!~"eu.*"}`,
		`{service_name="svc", region="eu"}`,
		`{service_name="svc", region=~"eu.*", env!="dev", pod!~"p-[0-9]+"}`,
		`{region="eu", env="prod", pod="p1"}`,
		`{__name__="process_cpu"}`,
		`{__name__=~"process_.*", __period_type__="cpu", __period_unit__!="nanoseconds"}`,
		`{__sample_type__="cpu", __sample_unit__=~"nano.*"}`,
		`{__sample_type__!="cpu", __sample_unit__!~"nano.*"}`,
		`{__profile_type__="process_cpu:cpu:nanoseconds:cpu:nanoseconds"}`,
		`{__profile_type__=~"process_cpu:.*", region="eu"}`,
		`{__profile_type__!="x", __profile_type__!~"y.*"}`,
		"{region=`eu-\\d`}",
		`{region="it's \\ 100%_ \" ( юникод ✓"}`,
		`{service_name="svc",}`,
	}
	// malformed selectors: one probe each is enough for REJECTED.txt
	for _, bad := range []string{`{region}`, `region="eu"`, `{region="eu"`, `{region=eu}`, `{region=="eu"}`, `{"region"="eu"}`} {
		bad := bad
		c.run("prof", fmt.Sprintf("ProfService.AnalyzeQuery(%s)", bad), func(cluster bool, reg *fakeRegistry) error {
			_, err := svc(reg).AnalyzeQuery(ctx, bad, tFrom, tTo)
			return err
		})
	}
	typeIds := []string{
		"process_cpu:cpu:nanoseconds:cpu:nanoseconds",
		"memory:alloc_objects:count:space:bytes",
	}

	// label names / values
	scriptSets := [][]string{
		nil,
		{`{}`},
		{`{service_name="svc"}`},
		{`{region=~"eu.*", env!="dev"}`},
		{`{service_name="svc"}`, `{region="eu"}`},
		{`{service_name="a"}`, `{region!~"b"}`, `{__profile_type__="process_cpu:cpu:nanoseconds:cpu:nanoseconds"}`},
	}
	for _, ss := range scriptSets {
		ss := ss
		c.run("prof", fmt.Sprintf("ProfService.LabelNames(matchers=%q)", ss), func(cluster bool, reg *fakeRegistry) error {
			_, err := svc(reg).LabelNames(ctx, ss, tFrom, tTo)
			return err
		})
		for _, name := range []string{"service_name", "region", "it's"} {
			name := name
			c.run("prof", fmt.Sprintf("ProfService.LabelValues(matchers=%q, name=%q)", ss, name), func(cluster bool, reg *fakeRegistry) error {
				_, err := svc(reg).LabelValues(ctx, ss, name, tFrom, tTo)
				return err
			})
		}
	}

	for _, sel := range selectors {
		sel := sel
		for i, tid := range typeIds {
			tid := tid
			if i > 0 && len(sel) > 24 {
				continue
			}
			c.run("prof", fmt.Sprintf("ProfService.MergeStackTraces(%s, typeId=%s)", sel, tid), func(cluster bool, reg *fakeRegistry) error {
				_, err := svc(reg).MergeStackTraces(ctx, sel, tid, tFrom, tTo)
				return err
			})
			c.run("prof", fmt.Sprintf("ProfService.MergeProfiles(%s, typeId=%s)", sel, tid), func(cluster bool, reg *fakeRegistry) error {
				_, err := svc(reg).MergeProfiles(ctx, sel, tid, tFrom, tTo)
				return err
			})
			type ss struct {
				groupBy []string
				agg     v1.TimeSeriesAggregationType
				step    int64
			}
			for _, s := range []ss{
				{nil, v1.TimeSeriesAggregationType_TIME_SERIES_AGGREGATION_TYPE_SUM, 15},
				{[]string{"service_name"}, v1.TimeSeriesAggregationType_TIME_SERIES_AGGREGATION_TYPE_SUM, 15},
				{[]string{"region", "it's"}, v1.TimeSeriesAggregationType_TIME_SERIES_AGGREGATION_TYPE_AVERAGE, 60},
				{nil, v1.TimeSeriesAggregationType_TIME_SERIES_AGGREGATION_TYPE_AVERAGE, 0},
			} {
				s := s
				c.run("prof", fmt.Sprintf("ProfService.SelectSeries(%s, typeId=%s, groupBy=%q, agg=%v, step=%d)", sel, tid, s.groupBy, s.agg, s.step),
					func(cluster bool, reg *fakeRegistry) error {
						_, err := svc(reg).SelectSeries(ctx, sel, tid, s.groupBy, s.agg, s.step, tFrom, tTo)
						return err
					})
			}
		}
		c.run("prof", fmt.Sprintf("ProfService.AnalyzeQuery(%s)", sel), func(cluster bool, reg *fakeRegistry) error {
			_, err := svc(reg).AnalyzeQuery(ctx, sel, tFrom, tTo)
			return err
		})
	}
	c.run("prof", "ProfService.MergeStackTraces({}, typeId=bad)", func(cluster bool, reg *fakeRegistry) error {
		_, err := svc(reg).MergeStackTraces(ctx, `{}`, "bad", tFrom, tTo)
		return err
	})

	// series
	for _, ss := range scriptSets {
		ss := ss
		for _, lbls := range [][]string{nil, {"service_name"}, {"region", "it's", "__name__"}} {
			lbls := lbls
			c.run("prof", fmt.Sprintf("ProfService.TimeSeries(matchers=%q, labelNames=%q)", ss, lbls), func(cluster bool, reg *fakeRegistry) error {
				_, err := svc(reg).TimeSeries(ctx, ss, lbls, tFrom, tTo)
				return err
			})
		}
	}
	for _, ss := range [][]string{
		{`{}`, `{}`},
		{`{service_name="svc", region=~"eu.*"}`, `{__sample_type__="cpu"}`, `{}`},
	} {
		ss := ss
		c.run("prof", fmt.Sprintf("ProfService.TimeSeries(matchers=%q, labelNames=[])", ss), func(cluster bool, reg *fakeRegistry) error {
			_, err := svc(reg).TimeSeries(ctx, ss, nil, tFrom, tTo)
			return err
		})
	}

	// render-diff
	for _, d := range [][2]string{
		{`process_cpu:cpu:nanoseconds:cpu:nanoseconds{service_name="a"}`, `process_cpu:cpu:nanoseconds:cpu:nanoseconds{service_name="b", region=~"eu.*"}`},
		{`process_cpu:cpu:nanoseconds:cpu:nanoseconds{}`, `process_cpu:cpu:nanoseconds:cpu:nanoseconds{}`},
		{`process_cpu:cpu:nanoseconds:cpu:nanoseconds{}`, `memory:alloc_objects:count:space:bytes{}`},
		{`no braces`, `x{}`},
	} {
		d := d
		c.run("prof", fmt.Sprintf("ProfService.RenderDiff(left=%s, right=%s)", d[0], d[1]), func(cluster bool, reg *fakeRegistry) error {
			_, err := svc(reg).RenderDiff(ctx, d[0], d[1], tFrom, tFrom.Add(30*60e9), tFrom.Add(30*60e9), tTo)
			return err
		})
	}
}
