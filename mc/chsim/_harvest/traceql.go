package main

import (
	"context"
	"database/sql/driver"
	"fmt"
	"strings"
	"time"

	"github.com/metrico/qryn/reader/model"
	"github.com/metrico/qryn/reader/service"
)

// traceqlResponder scripts the two-step TraceQL flow: the complexity probe (… FROM pre_final) answers
// `complexity`; the main statement answers one trace so that the "complex request" loop produces cached ids.
func traceqlResponder(complexity int64, withRow bool) responder {
	return func(q string) *cannedRows {
		if strings.Contains(q, "pre_final") {
			return &cannedRows{cols: []string{"_count"}, rows: [][]driver.Value{{complexity}}}
		}
		if strings.Contains(q, "index_grouped") && withRow {
			return &cannedRows{
				cols: []string{"trace_id", "span_id", "duration", "timestamp_ns", "start_time_unix_nano",
					"duration_ms", "root_service_name", "root_trace_name"},
				rows: [][]driver.Value{{
					"0102030405060708090a0b0c0d0e0f10",
					[]string{"1112131415161718"},
					[]int64{1500000},
					[]int64{tFrom.UnixNano() + 60000000000},
					tFrom.UnixNano() + 60000000000,
					float64(1.5),
					"svc",
					"GET /",
				}},
			}
		}
		return nil
	}
}

func runTraceQL(c *corpus, q string, limit int, complexity int64) {
	desc := fmt.Sprintf("%s  ## SearchTraceQL limit=%d", q, limit)
	if complexity > 0 {
		desc += fmt.Sprintf(" complexity-probe-answer=%d (complex path: hash portions + cached trace ids)", complexity)
	}
	c.run("traceql", desc, func(cluster bool, reg *fakeRegistry) error {
		setResponder(traceqlResponder(complexity, complexity > 0))
		svc := service.NewTempoService(model.ServiceData{Session: reg})
		ch, err := svc.SearchTraceQL(context.Background(), q, limit, tFrom, tTo)
		if err != nil {
			return err
		}
		for range ch {
		}
		return nil
	})
}

func harvestTraceQL(c *corpus) {
	queries := []string{
		`{}`,
		`{.foo="bar"}`,
		`{span.foo!="bar"}`,
		`{resource.service.name=~"front.*"}`,
		`{.foo!~"x|y"}`,
		`{.http.status_code=200}`,
		`{.http.status_code!=200}`,
		`{.http.status_code>200}`,
		`{.http.status_code>=200}`,
		`{.http.status_code<500}`,
		`{.http.status_code<=499.5}`,
		`{.x>-1.5}`,
		`{span.count=0}`,
		`{.foo="200"}`,
		`{.foo>"200"}`,
		`{.foo=~200}`,
		`{name="GET /"}`,
		`{name!="GET /"}`,
		`{name=~"GET.*"}`,
		`{name!~"GET.*"}`,
		`{name>5}`,
		`{duration>1s}`,
		`{duration>=100ms}`,
		`{duration<1m}`,
		`{duration<=1.5s}`,
		`{duration=1h}`,
		`{duration!=2d}`,
		`{duration>500us}`,
		`{duration>5ns}`,
		`{duration>5}`,
		`{duration="1s"}`,
		`{duration=~1s}`,
		`{.a="1" && .b="2"}`,
		`{.a="1" || .b="2"}`,
		`{.a="1" && .b="2" && .c="3"}`,
		`{.a="1" || .b="2" && .c="3"}`,
		`{(.a="1" || .b="2") && .c>3}`,
		`{.a="1" && (.b="2" || duration>1s)}`,
		`{.a="1" && (.a="1" || .b=2)}`,
		`{((.a="1"))}`,
		`{span.a="1" && resource.b!="2" && name=~"n.*" && duration<1s}`,
		`{duration>1s && duration<2s}`,
		`{name="x" || duration>1s}`,
		`{.s="it's \\ 100%_ \" ( юникод ✓"}`,
		"{.s=`tick\\d+ it's`}",
		"{.s=~`^a\\.b$`}",
		`{.a-b.c_d="x"}`,
		`{.foo="bar"} | count() > 1`,
		`{.foo="bar"} | count() >= 1`,
		`{.foo="bar"} | count() < 10`,
		`{.foo="bar"} | count() <= 10`,
		`{.foo="bar"} | count() = 2`,
		`{.foo="bar"} | count() != 2`,
		`{.foo="bar"} | avg(duration) > 1s`,
		`{.foo="bar"} | min(duration) >= 100ms`,
		`{.foo="bar"} | max(duration) < 1m`,
		`{.foo="bar"} | sum(duration) != 1h`,
		`{.foo="bar"} | avg(duration) > 1.5s`,
		`{.foo="bar"} | avg(.latency) > 1.5`,
		`{.foo="bar"} | sum(span.bytes) <= 1000`,
		`{.foo="bar"} | max(resource.cpu) > 0`,
		`{.foo="bar"} | min(.x) > -1`,
		`{.foo="bar"} | avg(duration) > 5`,
		`{.foo="bar"} | avg(.latency) > 1s`,
		`{.foo="bar"} | count(.x) > 1`,
		`{.foo="bar"} | count() > 1s`,
		`{duration>1s} | count() > 1`,
		`{.a="1" && .b>2} | avg(.b) > 3`,
		`{} | count() > 1`,
		`{.a="1"} && {.b="2"}`,
		`{.a="1"} || {.b="2"}`,
		`{.a="1"} && {.b="2"} && {.c="3"}`,
		`{.a="1"} || {.b="2"} || {.c="3"}`,
		`{.a="1"} && {.b="2"} || {.c="3"}`,
		`{.a="1"} || {.b="2"} && {.c="3"}`,
		`{.a="1" && .x>1} | count() > 2 || {.b=~"2.*" && duration<10ms}`,
		`{.a="1"} | count() > 1 && {.b="2"} | avg(duration) > 1s`,
		`{name="x"} && {duration>1s} | max(duration) > 2s`,
		`{.a="1"} || {}`,
		`{} || {.a="1"}`,
		`{} && {}`,
		`{foo="bar"}`,
		`{status=error}`,
		`{.foo="bar"`,
		`{.foo}`,
		`{.foo="bar"} | quantile(duration) > 1`,
		`{.foo="bar"} | count()`,
		`{.foo=true}`,
		`{ .foo = "bar" }`,
		`{.foo="bar"} >> {.a="b"}`,
	}
	for _, q := range queries {
		runTraceQL(c, q, 20, 0)
	}
	for _, q := range []string{`{}`, `{.foo="bar"}`, `{.a="1"} || {.b="2"}`, `{.foo="bar"} | count() > 1`} {
		runTraceQL(c, q, 0, 0)
		runTraceQL(c, q, 1, 0)
		runTraceQL(c, q, 1000, 0)
	}
	// complex path
	for _, q := range []string{
		`{.foo="bar"}`,
		`{span.a="1" && resource.b!="2" && name=~"n.*" && duration<1s}`,
		`{.foo="bar"} | avg(.latency) > 1.5`,
		`{.a="1"} && {.b="2"}`,
		`{.a="1" && .x>1} | count() > 2 || {.b=~"2.*" && duration<10ms}`,
		`{}`,
	} {
		runTraceQL(c, q, 20, 25000000)
	}
	runTraceQL(c, `{.foo="bar"}`, 1, 10000000)
	runTraceQL(c, `{.foo="bar"}`, 20, 9999999)

	// tags / values V2 (TraceQL scoped)
	type tv struct {
		key   string
		q     string
		limit int
	}
	for _, t := range []tv{
		{"", "", 0},
		{"", "", 100},
		{"", `{}`, 0},
		{"", `{.a="1"}`, 0},
		{"", `{.a="1"}`, 100},
		{"", `{.a="1" && .b>2 || name=~"x.*"}`, 10},
		{"", `{duration>1s}`, 10},
		{"", `{.a="1"} | avg(.b) > 1`, 10},
		{"", `{.a="1"} || {.b="2"}`, 10},
		{"", `{foo="1"}`, 10},
		{"", `{.a=`, 10},
	} {
		t := t
		for _, cx := range []int64{0, 25000000} {
			cx := cx
			desc := fmt.Sprintf("TagsV2 q=%q limit=%d", t.q, t.limit)
			if cx > 0 {
				if t.q == "" {
					continue
				}
				desc += fmt.Sprintf(" complexity-probe-answer=%d", cx)
			}
			c.run("traceql", desc, func(cluster bool, reg *fakeRegistry) error {
				setResponder(traceqlResponder(cx, false))
				svc := service.NewTempoService(model.ServiceData{Session: reg})
				ch, err := svc.TagsV2(context.Background(), t.q, tFrom, tTo, t.limit)
				if err != nil {
					return err
				}
				for range ch {
				}
				return nil
			})
		}
	}
	for _, t := range []tv{
		{"service.name", "", 0},
		{"service.name", "", 100},
		{"service.name", `{}`, 0},
		{"it's", `{}`, 10},
		{"service.name", `{.a="1"}`, 0},
		{"service.name", `{.a="1"}`, 100},
		{"http.method", `{.a="1" && .b>2 || name=~"x.*"}`, 10},
		{"http.method", `{duration>1s} | max(duration) > 2s`, 10},
		{"k", `{.a="1"} || {.b="2"}`, 10},
		{"k", `{foo="1"}`, 10},
	} {
		t := t
		for _, cx := range []int64{0, 25000000} {
			cx := cx
			desc := fmt.Sprintf("ValuesV2 key=%q q=%q limit=%d", t.key, t.q, t.limit)
			if cx > 0 {
				if t.q == "" {
					continue
				}
				desc += fmt.Sprintf(" complexity-probe-answer=%d", cx)
			}
			c.run("traceql", desc, func(cluster bool, reg *fakeRegistry) error {
				setResponder(traceqlResponder(cx, false))
				svc := service.NewTempoService(model.ServiceData{Session: reg})
				ch, err := svc.ValuesV2(context.Background(), t.key, t.q, tFrom, tTo, t.limit)
				if err != nil {
					return err
				}
				for range ch {
				}
				return nil
			})
		}
	}
}

func harvestTempo(c *corpus) {
	newSvc := func(reg *fakeRegistry) model.ITempoService {
		return service.NewTempoService(model.ServiceData{Session: reg})
	}
	// trace by id
	type tq struct {
		start, end int64
		id         string
	}
	for _, t := range []tq{
		{0, 0, "0102030405060708090a0b0c0d0e0f10"},
		{tFrom.UnixNano(), tTo.UnixNano(), "0102030405060708090a0b0c0d0e0f10"},
		{tFrom.UnixNano(), 0, "0102030405060708"},
		{0, tTo.UnixNano(), "it's not hex \\"},
	} {
		t := t
		c.run("tempo", fmt.Sprintf("trace by id: TempoService.Query(startNS=%d, endNS=%d, traceId=%q)", t.start, t.end, t.id),
			func(cluster bool, reg *fakeRegistry) error {
				ch, err := newSvc(reg).Query(context.Background(), t.start, t.end, []byte(t.id), false)
				if err != nil {
					return err
				}
				for range ch {
				}
				return nil
			})
	}
	c.run("tempo", "tags: TempoService.Tags()", func(cluster bool, reg *fakeRegistry) error {
		ch, err := newSvc(reg).Tags(context.Background())
		if err != nil {
			return err
		}
		for range ch {
		}
		return nil
	})
	for _, tag := range []string{"service.name", "span.http.method", "resource.k8s.pod", ".foo", "name", "it's \\ 100%"} {
		tag := tag
		c.run("tempo", fmt.Sprintf("tag values: TempoService.Values(%q)", tag), func(cluster bool, reg *fakeRegistry) error {
			ch, err := newSvc(reg).Values(context.Background(), tag)
			if err != nil {
				return err
			}
			for range ch {
			}
			return nil
		})
	}
	type sq struct {
		tags     string
		min, max time.Duration
		limit    int
		from, to int64
	}
	searches := []sq{
		{"", 0, 0, 20, tFrom.UnixNano(), tTo.UnixNano()},
		{"", 0, 0, 0, 0, 0},
		{"", time.Second, 0, 20, tFrom.UnixNano(), tTo.UnixNano()},
		{"", 0, time.Minute, 20, tFrom.UnixNano(), tTo.UnixNano()},
		{"", 100 * time.Millisecond, 5 * time.Second, 100, tFrom.UnixNano(), 0},
		{`service.name=frontend`, 0, 0, 20, tFrom.UnixNano(), tTo.UnixNano()},
		{`service.name!=frontend`, 0, 0, 20, tFrom.UnixNano(), tTo.UnixNano()},
		{`service.name=~front.*`, 0, 0, 20, tFrom.UnixNano(), tTo.UnixNano()},
		{`service.name!~front.*`, 0, 0, 20, tFrom.UnixNano(), tTo.UnixNano()},
		{`service.name=frontend http.status_code=500`, 0, 0, 20, tFrom.UnixNano(), tTo.UnixNano()},
		{`service.name="front end" "http method"!="GET" name=~"a|b" x!~"y.*"`, time.Second, time.Minute, 50, tFrom.UnixNano(), tTo.UnixNano()},
		{`k="it's \\ \"q\" 100%_ ( юникод"`, 0, 0, 20, tFrom.UnixNano(), tTo.UnixNano()},
		{`service.name=frontend`, 0, 0, 0, tFrom.UnixNano(), tTo.UnixNano()},
		{`service.name=frontend`, time.Second, time.Minute, 20, 0, 0},
		{`service.name=frontend`, 0, 0, 20, 0, tTo.UnixNano()},
		{`service.name`, 0, 0, 20, tFrom.UnixNano(), tTo.UnixNano()},
		{`service.name==x`, 0, 0, 20, tFrom.UnixNano(), tTo.UnixNano()},
	}
	for _, ver := range []map[string]string{{}, {"tempo_v2": "1600000000"}} {
		verName := "settings: no tempo_v2 marker"
		if len(ver) > 0 {
			verName = "settings: tempo_v2=1600000000"
		}
		for _, s := range searches {
			s := s
			setVersions(ver)
			c.run("tempo", fmt.Sprintf("search: TempoService.Search(tags=%q, minDuration=%v, maxDuration=%v, limit=%d, fromNS=%d, toNS=%d) (%s)",
				s.tags, s.min, s.max, s.limit, s.from, s.to, verName),
				func(cluster bool, reg *fakeRegistry) error {
					ch, err := newSvc(reg).Search(context.Background(), s.tags, s.min.Nanoseconds(), s.max.Nanoseconds(),
						s.limit, s.from, s.to)
					if err != nil {
						return err
					}
					for range ch {
					}
					return nil
				})
		}
	}
	setVersions(map[string]string{})
}
