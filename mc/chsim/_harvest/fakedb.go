package main

// A recording database/sql driver + model.ISqlxDB / model.IDBRegistry implementations.
// Everything the reader services send to "ClickHouse" lands in recorder.add(); a scriptable responder
// may return canned rows so that multi-step flows (version probe, traceql complexity, prom labels fetch)
// proceed to their follow-up statements.

import (
	"context"
	"database/sql"
	"database/sql/driver"
	"fmt"
	"io"
	"strings"
	"sync"

	clconfig "github.com/metrico/cloki-config/config"
	"github.com/metrico/qryn/reader/model"
)

type cannedRows struct {
	cols []string
	rows [][]driver.Value
}

// responder decides what a statement returns.  nil => empty result set.
type responder func(query string) *cannedRows

type fakeState struct {
	mtx  sync.Mutex
	resp responder
	rec  func(query string, args []driver.NamedValue)
}

var state = &fakeState{}

func (s *fakeState) handle(query string, args []driver.NamedValue) *cannedRows {
	s.mtx.Lock()
	rec, resp := s.rec, s.resp
	s.mtx.Unlock()
	if rec != nil {
		rec(query, args)
	}
	if c := versionResponder(query); c != nil {
		return c
	}
	if resp != nil {
		if c := resp(query); c != nil {
			return c
		}
	}
	return &cannedRows{cols: []string{"c0"}}
}

func setResponder(r responder) {
	state.mtx.Lock()
	state.resp = r
	state.mtx.Unlock()
}

// ---- version probe (reader/utils/dbVersion) ----

// versionRows is what the `settings` table answers; switched by scenarios ("new" deployments carry the
// tempo_v2/v5 upgrade markers, "old" ones do not).
var versionRows [][]driver.Value
var versionMtx sync.Mutex

func setVersions(v map[string]string) {
	versionMtx.Lock()
	defer versionMtx.Unlock()
	versionRows = nil
	for k, val := range v {
		versionRows = append(versionRows, []driver.Value{k, val})
	}
}

func versionResponder(query string) *cannedRows {
	q := strings.TrimSpace(query)
	if strings.HasPrefix(q, "SELECT argMax(name, inserted_at)") {
		versionMtx.Lock()
		defer versionMtx.Unlock()
		return &cannedRows{cols: []string{"_name", "_value"}, rows: versionRows}
	}
	if q == "SHOW TABLES" {
		tbls := []string{"time_series", "samples_v3", "settings", "time_series_gin", "metrics_15s",
			"tempo_traces", "tempo_traces_attrs_gin", "tempo_traces_kv", "profiles", "profiles_series",
			"profiles_series_gin", "profiles_series_keys"}
		res := &cannedRows{cols: []string{"name"}}
		for _, t := range tbls {
			res.rows = append(res.rows, []driver.Value{t})
		}
		return res
	}
	return nil
}

// ---- driver ----

type fakeDriver struct{}

func (fakeDriver) Open(name string) (driver.Conn, error) { return &fakeConn{}, nil }

type fakeConn struct{}

func (c *fakeConn) Prepare(query string) (driver.Stmt, error) {
	return nil, fmt.Errorf("prepare not supported")
}
func (c *fakeConn) Close() error              { return nil }
func (c *fakeConn) Begin() (driver.Tx, error) { return nil, fmt.Errorf("tx not supported") }
func (c *fakeConn) Ping(ctx context.Context) error {
	return nil
}
func (c *fakeConn) QueryContext(ctx context.Context, query string, args []driver.NamedValue) (driver.Rows, error) {
	res := state.handle(query, args)
	return &fakeRows{c: res}, nil
}
func (c *fakeConn) ExecContext(ctx context.Context, query string, args []driver.NamedValue) (driver.Result, error) {
	state.handle(query, args)
	return driver.RowsAffected(0), nil
}
func (c *fakeConn) CheckNamedValue(*driver.NamedValue) error { return nil }

type fakeRows struct {
	c *cannedRows
	i int
}

func (r *fakeRows) Columns() []string { return r.c.cols }
func (r *fakeRows) Close() error      { return nil }
func (r *fakeRows) Next(dest []driver.Value) error {
	if r.i >= len(r.c.rows) {
		return io.EOF
	}
	copy(dest, r.c.rows[r.i])
	r.i++
	return nil
}

func init() {
	sql.Register("harvest", fakeDriver{})
}

// ---- model.ISqlxDB ----

type fakeSession struct {
	name string
	db   *sql.DB
}

func newFakeSession(name string) *fakeSession {
	db, err := sql.Open("harvest", name)
	if err != nil {
		panic(err)
	}
	return &fakeSession{name: name, db: db}
}

func (s *fakeSession) GetName() string { return s.name }
func (s *fakeSession) QueryCtx(ctx context.Context, query string, args ...any) (*sql.Rows, error) {
	if ctx == nil {
		ctx = context.Background()
	}
	return s.db.QueryContext(ctx, query, args...)
}
func (s *fakeSession) ExecCtx(ctx context.Context, query string, args ...any) error {
	if ctx == nil {
		ctx = context.Background()
	}
	_, err := s.db.ExecContext(ctx, query, args...)
	return err
}
func (s *fakeSession) Conn(ctx context.Context) (*sql.Conn, error) { return s.db.Conn(ctx) }
func (s *fakeSession) Begin() (*sql.Tx, error)                     { return s.db.Begin() }
func (s *fakeSession) Close()                                      { s.db.Close() }

var _ model.ISqlxDB = &fakeSession{}

// ---- model.IDBRegistry ----

type fakeRegistry struct {
	db *model.DataDatabasesMap
}

func (r *fakeRegistry) GetDB(ctx context.Context) (*model.DataDatabasesMap, error) { return r.db, nil }
func (r *fakeRegistry) Run()                                                       {}
func (r *fakeRegistry) Stop()                                                      {}
func (r *fakeRegistry) Ping() error                                                { return nil }

var _ model.IDBRegistry = &fakeRegistry{}

const dbName = "qryn"
const clusterName = "qryn_cluster"

var sessionSeq int

// newRegistry builds a one-node registry.  A fresh session name per call defeats the dbVersion cache
// (keyed by session name) so every scenario sees the version rows that are current when it runs.
func newRegistry(cluster bool) *fakeRegistry {
	sessionSeq++
	cfg := &clconfig.ClokiBaseDataBase{Name: dbName, Node: "node1"}
	if cluster {
		cfg.ClusterName = clusterName
	}
	return &fakeRegistry{db: &model.DataDatabasesMap{
		Config:  cfg,
		Session: newFakeSession(fmt.Sprintf("harvest-%d", sessionSeq)),
	}}
}
