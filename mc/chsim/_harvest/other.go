package main

import (
	"bytes"
	"fmt"
	"regexp"
	"strings"
	"text/template"

	ctrlsql "github.com/metrico/qryn/ctrl/qryn/sql"
)

// harvestOther: statements outside the planner families.  The reader-side ones (dbVersion probe) are captured
// automatically by the fake driver whenever a service asks for version info; here we add the hand-written SELECTs
// of ctrl/ and writer/ (copied verbatim, parameters substituted as their callers do) for completeness.
func harvestOther(c *corpus) {
	type st struct {
		desc string
		sql  string
		both bool
	}
	list := []st{
		{"copied (outside /repo/reader): ctrl/qryn/maintenance/update.go updateScripts, verTable=ver, arg $1=k",
			"SELECT max(ver) as ver FROM ver WHERE k = $1 FORMAT JSON", false},
		{"copied (outside /repo/reader): ctrl/qryn/maintenance/update.go updateScripts, verTable=ver_dist, arg $1=k",
			"SELECT max(ver) as ver FROM ver_dist WHERE k = $1 FORMAT JSON", true},
		{"copied (outside /repo/reader): ctrl/qryn/maintenance/update.go tableEmpty(name)",
			"SELECT count(1) FROM samples_v3", false},
		{"copied (outside /repo/reader): ctrl/qryn/maintenance/rotate.go getSetting, arg $1=fingerprint",
			"SELECT argMax(value, inserted_at) as _value FROM settings WHERE fingerprint = $1 \nGROUP BY fingerprint HAVING argMax(name, inserted_at) != ''", false},
		{"copied (outside /repo/reader): ctrl/qryn/maintenance/rotate.go getSetting (dist), arg $1=fingerprint",
			"SELECT argMax(value, inserted_at) as _value FROM settings_dist WHERE fingerprint = $1 \nGROUP BY fingerprint HAVING argMax(name, inserted_at) != ''", true},
		{"copied (outside /repo/reader): writer/setup_check.go + writer/plugin/utils.go, arg $1=clusterName",
			"select count(distinct shard_num) from system.clusters where cluster=$1", true},
		{"copied (outside /repo/reader): writer/plugin/qryn_writer_db.go checkTable(table)",
			"SELECT 1 FROM time_series LIMIT 1", false},
		{"copied (outside /repo/reader): writer/plugin/qryn_writer_db.go checkTable(dist table)",
			"SELECT 1 FROM samples_v3_dist LIMIT 1", true},
		{"copied (outside /repo/reader): writer/ch_wrapper/general_purpose_ch_client.go tableEmpty",
			"SELECT count(1) FROM tempo_traces", false},
	}
	for _, s := range list {
		mode := "single"
		if s.both {
			mode = "cluster"
		}
		c.add("other", mode, s.desc, s.sql)
	}
}

// ---- materialized views (ctrl/qryn/sql/*.sql) ----

// same preprocessing as ctrl/qryn/maintenance/update.go getSQLFile + getDBExec
func expandScript(contents string, env map[string]string) ([]string, error) {
	contents = regexp.MustCompile("(?m)^\\s+$").ReplaceAllString(contents, "")
	contents = regexp.MustCompile("(?m)^##.*$").ReplaceAllString(contents, "")
	var res []string
	for i, req := range strings.Split(contents, ";\n\n") {
		req = strings.Trim(req, "\n ")
		if req == "" {
			continue
		}
		tpl, err := template.New(fmt.Sprintf("tpl_%d", i)).Parse(req)
		if err != nil {
			return nil, err
		}
		buf := bytes.NewBuffer(nil)
		if err = tpl.Execute(buf, env); err != nil {
			return nil, err
		}
		res = append(res, buf.String())
	}
	return res, nil
}

var mvHeadRe = regexp.MustCompile(`(?is)^\s*(CREATE\s+MATERIALIZED\s+VIEW\s.*?)\s+AS\s+(SELECT\s.*)$`)

func harvestMV(c *corpus) {
	files := []struct {
		name    string
		script  string
		cluster bool
	}{
		{"log.sql", ctrlsql.LogScript, false},
		{"log_dist.sql", ctrlsql.LogDistScript, true},
		{"traces.sql", ctrlsql.TracesScript, false},
		{"traces_dist.sql", ctrlsql.TracesDistScript, true},
		{"profiles.sql", ctrlsql.ProfilesScript, false},
		{"profiles_dist.sql", ctrlsql.ProfilesDistScript, true},
	}
	for _, f := range files {
		for _, cluster := range []bool{false, true} {
			if f.cluster && !cluster {
				continue // *_dist.sql scripts only run in distributed mode
			}
			env := map[string]string{
				"DB":                   dbName,
				"CLUSTER":              "",
				"OnCluster":            " ",
				"DefaultTtlDays":       "30",
				"CREATE_SETTINGS":      "",
				"SAMPLES_ORDER_RUL":    "timestamp_ns",
				"DIST_CREATE_SETTINGS": "",
				"ReplacingMergeTree":   "ReplacingMergeTree",
				"MergeTree":            "MergeTree",
				"AggregatingMergeTree": "AggregatingMergeTree",
			}
			mode := "single"
			if cluster {
				mode = "cluster"
				env["CLUSTER"] = clusterName
				env["OnCluster"] = "ON CLUSTER `" + clusterName + "`"
			}
			stmts, err := expandScript(f.script, env)
			if err != nil {
				c.reject("mv", "ctrl/qryn/sql/"+f.name, err.Error())
				continue
			}
			for i, s := range stmts {
				m := mvHeadRe.FindStringSubmatch(s)
				if m == nil {
					continue
				}
				head := strings.Join(strings.Fields(m[1]), " ")
				c.add("mv", mode, fmt.Sprintf("ctrl/qryn/sql/%s statement #%d: %s AS <body>", f.name, i+1, head), m[2])
			}
		}
	}
}
