// Command _harvest renders the SQL text that qryn's real planners / services emit and writes the chsim parser
// corpus under /verif/mc/chsim/testdata/corpus/.  Throw-away tool: no interpreter code here.
//
// Re-run (offline sandbox recipe, see /verif/HARNESS.md; no overlay is needed, only exported API is used):
//
//	. /verif/bin/env.sh
//	/verif/bin/genmod.sh /var/tmp/harv-mod
//	cd /verif && go build -modfile=/var/tmp/harv-mod/go.mod -o /var/tmp/harv-bin ./mc/chsim/_harvest \
//	  && /var/tmp/harv-bin -out /verif/mc/chsim/testdata/corpus ; rm -rf /var/tmp/harv-mod /var/tmp/harv-bin
//
// (`go run -modfile=/var/tmp/harv-mod/go.mod ./mc/chsim/_harvest -out <dir>` works as well; `-only logql,prof`
// restricts the groups.)  /repo is never modified.  Takes about 10 s.
//
// How statements are captured: the reader services (service.QueryRangeService, QueryLabelsService, TempoService,
// ProfService, CLokiQueriable behind the real Prometheus engine) run against a recording database/sql driver
// (fakedb.go), so the corpus holds exactly the text handed to QueryCtx, once with a single-node config and once
// with Config.ClusterName set ("cluster").  Planners that no service path reaches are rendered directly and are
// marked "direct ..." in the description.
package main

import (
	"flag"
	"fmt"
	"io"
	"os"
	"path/filepath"
	"sort"
	"strings"
	"syscall"
	"time"

	"github.com/metrico/qryn/reader/utils/logger"
)

func main() {
	out := flag.String("out", "/verif/mc/chsim/testdata/corpus", "output directory")
	only := flag.String("only", "", "comma separated harvest groups (logql,traceql,tempo,promql,prof,other,mv); empty = all")
	flag.Parse()

	time.Local = time.UTC
	logger.Logger.SetOutput(io.Discard)
	// repository code prints every statement / debug line to stdout (fmt.Println) and stderr (println): silence
	// both at file-descriptor level, keep a private copy of stderr for our own progress lines
	devnull, _ := os.OpenFile(os.DevNull, os.O_WRONLY, 0)
	if saved, err := syscall.Dup(2); err == nil {
		progress = os.NewFile(uintptr(saved), "stderr")
		_ = syscall.Dup2(int(devnull.Fd()), 2)
		_ = syscall.Dup2(int(devnull.Fd()), 1)
	}
	os.Stdout = devnull

	setVersions(map[string]string{})

	groups := map[string]func(*corpus){}
	order := []string{}
	reg := func(name string, fn func(*corpus)) {
		groups[name] = fn
		order = append(order, name)
	}
	reg("logql", harvestLogQL)
	registerMore(reg)

	want := map[string]bool{}
	for _, g := range strings.Split(*only, ",") {
		if g != "" {
			want[g] = true
		}
	}
	c := newCorpus()
	for _, name := range order {
		if len(want) > 0 && !want[name] {
			continue
		}
		t := time.Now()
		groups[name](c)
		fmt.Fprintf(progress, "group %-8s done in %v\n", name, time.Since(t).Round(time.Millisecond))
	}

	if err := os.MkdirAll(*out, 0o755); err != nil {
		panic(err)
	}
	if err := c.write(*out); err != nil {
		panic(err)
	}
	if err := os.WriteFile(filepath.Join(*out, "FUNCTIONS.txt"), []byte(c.functions()), 0o644); err != nil {
		panic(err)
	}
	if err := os.WriteFile(filepath.Join(*out, "KEYWORDS.txt"), []byte(c.keywords()), 0o644); err != nil {
		panic(err)
	}

	total := 0
	for _, fam := range families {
		n := len(c.entries[fam])
		total += n
		modes := map[string]int{}
		for _, e := range c.entries[fam] {
			modes[e.mode]++
		}
		fmt.Fprintf(progress, "%-13s %5d statements (single %d, cluster %d, both %d; %d duplicates dropped)\n",
			fam, n, modes["single"], modes["cluster"], modes["both"], c.dups[fam])
	}
	fmt.Fprintf(progress, "total %d distinct statements, %d rejected queries\n", total, len(c.rejected))
	sort.Strings(c.panics)
	for _, p := range c.panics {
		fmt.Fprintf(progress, "PANIC/TIMEOUT: %s\n", p)
	}
}
