package chsim

import (
	"fmt"
	"math"
	"strconv"
	"strings"
)

// Parse parses one ClickHouse SELECT statement (optionally followed by `;`).  Errors: *SyntaxError when the text
// is not valid ClickHouse syntax as far as chsim knows; an error wrapping ErrUnsupported for syntax that is valid
// ClickHouse but outside the subset.
func Parse(sql string) (*Stmt, error) {
	toks, err := Lex(sql)
	if err != nil {
		return nil, err
	}
	p := &parser{toks: toks, src: sql}
	if t := p.peek(); t.Kind == TIdent && !p.isKw("SELECT") && !p.isKw("WITH") {
		switch strings.ToUpper(t.Text) {
		case "SHOW", "INSERT", "CREATE", "ALTER", "DROP", "RENAME", "DESCRIBE", "DESC", "EXPLAIN", "OPTIMIZE", "TRUNCATE", "SET", "USE", "EXISTS", "SYSTEM", "KILL", "GRANT", "DELETE", "UPDATE", "ATTACH", "DETACH":
			return nil, unsupportedf("%s statement (chsim only executes SELECT)", strings.ToUpper(t.Text))
		}
	}
	st, err := p.parseStmt()
	if err != nil {
		return nil, err
	}
	if p.isOp(";") {
		p.next()
	}
	if p.peek().Kind != TEOF {
		return nil, p.errf("unexpected %q after end of statement", p.peek().Text)
	}
	return st, nil
}

type parser struct {
	toks   []Token
	pos    int
	src    string
	subqID int
}

func (p *parser) peek() Token { return p.toks[p.pos] }
func (p *parser) peekN(n int) Token {
	if p.pos+n < len(p.toks) {
		return p.toks[p.pos+n]
	}
	return p.toks[len(p.toks)-1]
}
func (p *parser) next() Token {
	t := p.toks[p.pos]
	if p.pos < len(p.toks)-1 {
		p.pos++
	}
	return t
}

func (p *parser) errf(format string, a ...any) error {
	return &SyntaxError{Pos: p.peek().Pos, Msg: fmt.Sprintf(format, a...), SQL: p.src}
}

func (p *parser) isOp(s string) bool {
	t := p.peek()
	return t.Kind == TOp && t.Text == s
}
func (p *parser) isOpN(n int, s string) bool {
	t := p.peekN(n)
	return t.Kind == TOp && t.Text == s
}

// isKw: the current token is the bare word kw (case-insensitive).
func (p *parser) isKw(kw string) bool { return p.isKwN(0, kw) }
func (p *parser) isKwN(n int, kw string) bool {
	t := p.peekN(n)
	return t.Kind == TIdent && strings.EqualFold(t.Text, kw)
}
func (p *parser) acceptKw(kws ...string) bool {
	for i, kw := range kws {
		if !p.isKwN(i, kw) {
			return false
		}
	}
	for range kws {
		p.next()
	}
	return true
}
func (p *parser) expectKw(kw string) error {
	if !p.acceptKw(kw) {
		return p.errf("expected %s", kw)
	}
	return nil
}
func (p *parser) acceptOp(s string) bool {
	if p.isOp(s) {
		p.next()
		return true
	}
	return false
}
func (p *parser) expectOp(s string) error {
	if !p.acceptOp(s) {
		return p.errf("expected %q, found %q", s, p.peek().Text)
	}
	return nil
}

// words that cannot be a bare (AS-less) alias and end an expression
var reserved = map[string]bool{}

func init() {
	for _, w := range strings.Fields(`SELECT FROM WHERE PREWHERE GROUP HAVING ORDER LIMIT OFFSET UNION INTERSECT EXCEPT
SETTINGS FORMAT JOIN ON USING ANY ALL LEFT RIGHT INNER FULL CROSS GLOBAL ARRAY AS AND OR NOT IN LIKE ILIKE BETWEEN IS ASC DESC
NULLS WITH BY FINAL SAMPLE SEMI ANTI ASOF OUTER INTO WINDOW QUALIFY THEN ELSE END WHEN DISTINCT DIV MOD REGEXP INTERVAL
COLLATE FETCH PASTE`) {
		reserved[w] = true
	}
}

func isReserved(t Token) bool { return t.Kind == TIdent && reserved[strings.ToUpper(t.Text)] }

// ---------------------------------------------------------------------------------------------------------
// statements

func (p *parser) parseStmt() (*Stmt, error) {
	st, err := p.parseUnion()
	if err != nil {
		return nil, err
	}
	// trailing SETTINGS / FORMAT of the whole statement
	if p.isKw("SETTINGS") {
		if _, err := p.parseSettings(); err != nil {
			return nil, err
		}
	}
	if p.acceptKw("FORMAT") {
		t := p.next()
		if t.Kind != TIdent {
			return nil, p.errf("expected format name")
		}
		st.Format = t.Text
	}
	return st, nil
}

func (p *parser) parseUnion() (*Stmt, error) {
	left, err := p.parseIntersect()
	if err != nil {
		return nil, err
	}
	for {
		op := ""
		switch {
		case p.isKw("UNION"):
			p.next()
			switch {
			case p.acceptKw("ALL"):
				op = "UNION ALL"
			case p.acceptKw("DISTINCT"):
				op = "UNION DISTINCT"
			default:
				return nil, p.errf("UNION without ALL or DISTINCT (union_default_mode is empty by default: ClickHouse throws)")
			}
		case p.isKw("EXCEPT"):
			p.next()
			p.acceptKw("DISTINCT")
			op = "EXCEPT"
		default:
			return left, nil
		}
		right, err := p.parseIntersect()
		if err != nil {
			return nil, err
		}
		left = &Stmt{Set: &SetOp{Op: op, Left: left, Right: right}}
	}
}

func (p *parser) parseIntersect() (*Stmt, error) {
	left, err := p.parseSelectAtom()
	if err != nil {
		return nil, err
	}
	for p.isKw("INTERSECT") {
		p.next()
		p.acceptKw("DISTINCT")
		right, err := p.parseSelectAtom()
		if err != nil {
			return nil, err
		}
		left = &Stmt{Set: &SetOp{Op: "INTERSECT", Left: left, Right: right}}
	}
	return left, nil
}

func (p *parser) parseSelectAtom() (*Stmt, error) {
	if p.isOp("(") {
		p.next()
		st, err := p.parseUnion()
		if err != nil {
			return nil, err
		}
		if err := p.expectOp(")"); err != nil {
			return nil, err
		}
		return st, nil
	}
	sel, err := p.parseSelect()
	if err != nil {
		return nil, err
	}
	return &Stmt{Select: sel}, nil
}

func (p *parser) startsSelect() bool { return p.isKw("SELECT") || p.isKw("WITH") }

func (p *parser) parseSelect() (*Select, error) {
	s := &Select{}
	if p.acceptKw("WITH") {
		for {
			item, err := p.parseWithItem()
			if err != nil {
				return nil, err
			}
			s.With = append(s.With, item)
			if !p.acceptOp(",") {
				break
			}
		}
	}
	if err := p.expectKw("SELECT"); err != nil {
		return nil, err
	}
	if p.acceptKw("DISTINCT") {
		s.Distinct = true
		if p.isKw("ON") {
			return nil, unsupportedf("DISTINCT ON")
		}
	} else {
		p.acceptKw("ALL")
	}
	if p.isKw("TOP") && p.peekN(1).Kind == TNumber {
		return nil, unsupportedf("SELECT TOP n")
	}
	cols, err := p.parseExprList(true)
	if err != nil {
		return nil, err
	}
	if len(cols) == 0 {
		return nil, p.errf("empty SELECT list")
	}
	s.Cols = cols
	if p.acceptKw("FROM") {
		tr, err := p.parseTableRef()
		if err != nil {
			return nil, err
		}
		s.From = tr
		for {
			item, ok, err := p.parseFromItem()
			if err != nil {
				return nil, err
			}
			if !ok {
				break
			}
			s.Items = append(s.Items, item)
		}
	}
	if p.acceptKw("PREWHERE") {
		if s.PreWhere, err = p.parseExpr(); err != nil {
			return nil, err
		}
	}
	if p.acceptKw("WHERE") {
		if s.Where, err = p.parseExpr(); err != nil {
			return nil, err
		}
	}
	if p.acceptKw("GROUP", "BY") {
		if p.isKw("ALL") && !p.isOpN(1, "(") {
			return nil, unsupportedf("GROUP BY ALL")
		}
		if s.GroupBy, err = p.parseExprList(false); err != nil {
			return nil, err
		}
		if len(s.GroupBy) == 0 {
			return nil, p.errf("empty GROUP BY list")
		}
		if p.isKw("WITH") && (p.isKwN(1, "TOTALS") || p.isKwN(1, "ROLLUP") || p.isKwN(1, "CUBE")) {
			return nil, unsupportedf("GROUP BY … WITH %s", strings.ToUpper(p.peekN(1).Text))
		}
	}
	if p.acceptKw("HAVING") {
		if s.Having, err = p.parseExpr(); err != nil {
			return nil, err
		}
	}
	if p.isKw("WINDOW") || p.isKw("QUALIFY") {
		return nil, unsupportedf("%s clause", strings.ToUpper(p.peek().Text))
	}
	if p.acceptKw("ORDER", "BY") {
		for {
			e, err := p.parseExpr()
			if err != nil {
				return nil, err
			}
			it := OrderItem{Expr: e}
			if p.acceptKw("DESC") || p.acceptKw("DESCENDING") {
				it.Desc = true
			} else if p.acceptKw("ASC") || p.acceptKw("ASCENDING") {
			}
			if p.acceptKw("NULLS") {
				switch {
				case p.acceptKw("FIRST"):
					t := true
					it.NullsFirst = &t
				case p.acceptKw("LAST"):
					f := false
					it.NullsFirst = &f
				default:
					return nil, p.errf("expected FIRST or LAST")
				}
			}
			if p.isKw("COLLATE") {
				return nil, unsupportedf("ORDER BY … COLLATE")
			}
			if p.isKw("WITH") && p.isKwN(1, "FILL") {
				return nil, unsupportedf("ORDER BY … WITH FILL")
			}
			s.OrderBy = append(s.OrderBy, it)
			if !p.acceptOp(",") {
				break
			}
		}
	}
	// LIMIT n [OFFSET m] | LIMIT m, n | LIMIT n [OFFSET m] BY exprs (then possibly a second LIMIT)
	for p.isKw("LIMIT") {
		p.next()
		a, err := p.parseExpr()
		if err != nil {
			return nil, err
		}
		var n, off Expr = a, nil
		if p.acceptOp(",") {
			b, err := p.parseExpr()
			if err != nil {
				return nil, err
			}
			n, off = b, a
		} else if p.isKw("OFFSET") && !p.limitOffsetBelongsToSelect() {
			p.next()
			if off, err = p.parseExpr(); err != nil {
				return nil, err
			}
		}
		if p.acceptKw("BY") {
			if s.LimitBy != nil {
				return nil, p.errf("two LIMIT BY clauses")
			}
			by, err := p.parseExprList(false)
			if err != nil {
				return nil, err
			}
			s.LimitBy = &LimitBy{N: n, Offset: off, By: by}
			continue
		}
		if p.isKw("WITH") && p.isKwN(1, "TIES") {
			return nil, unsupportedf("LIMIT … WITH TIES")
		}
		if s.Limit != nil {
			return nil, p.errf("two LIMIT clauses")
		}
		s.Limit, s.Offset = n, off
		break
	}
	if p.acceptKw("OFFSET") {
		if s.Offset != nil {
			return nil, p.errf("two OFFSET clauses")
		}
		if s.Offset, err = p.parseExpr(); err != nil {
			return nil, err
		}
		if p.acceptKw("ROW") || p.acceptKw("ROWS") {
		}
		if p.isKw("FETCH") {
			return nil, unsupportedf("OFFSET … FETCH")
		}
	}
	if p.isKw("SETTINGS") {
		st, err := p.parseSettings()
		if err != nil {
			return nil, err
		}
		s.Settings = st
	}
	return s, nil
}

// limitOffsetBelongsToSelect is always false: `LIMIT n OFFSET m` binds the offset to the limit.
func (p *parser) limitOffsetBelongsToSelect() bool { return false }

func (p *parser) parseSettings() (map[string]string, error) {
	if err := p.expectKw("SETTINGS"); err != nil {
		return nil, err
	}
	out := map[string]string{}
	for {
		name := p.next()
		if name.Kind != TIdent && name.Kind != TQIdent {
			return nil, p.errf("expected setting name")
		}
		if err := p.expectOp("="); err != nil {
			return nil, err
		}
		v := p.next()
		switch v.Kind {
		case TNumber, TString, TIdent:
			out[name.Val] = v.Val
		case TOp:
			if v.Text == "-" && p.peek().Kind == TNumber {
				out[name.Val] = "-" + p.next().Text
			} else {
				return nil, p.errf("expected setting value")
			}
		default:
			return nil, p.errf("expected setting value")
		}
		if !p.acceptOp(",") {
			return out, nil
		}
	}
}

func (p *parser) parseWithItem() (WithItem, error) {
	// name AS (subquery)
	t := p.peek()
	if (t.Kind == TIdent || t.Kind == TQIdent) && p.isKwN(1, "AS") && p.isOpN(2, "(") && (p.isKwN(3, "SELECT") || p.isKwN(3, "WITH") || p.isOpN(3, "(")) {
		// could still be `x AS (1+2)`?  no: `expr AS alias` has the alias on the right; `name AS (` + SELECT is a CTE
		if p.isOpN(3, "(") && !p.parenStartsSelect(2) {
			goto exprForm
		}
		p.next()
		p.next()
		p.next()
		st, err := p.parseUnion()
		if err != nil {
			return WithItem{}, err
		}
		if err := p.expectOp(")"); err != nil {
			return WithItem{}, err
		}
		return WithItem{Name: t.Val, Query: st}, nil
	}
exprForm:
	e, err := p.parseExpr()
	if err != nil {
		return WithItem{}, err
	}
	if err := p.expectKw("AS"); err != nil {
		return WithItem{}, err
	}
	n := p.next()
	if n.Kind != TIdent && n.Kind != TQIdent {
		return WithItem{}, p.errf("expected alias after AS")
	}
	return WithItem{Name: n.Val, Expr: e}, nil
}

// parenStartsSelect: the token at offset n is "(" — does the parenthesis (possibly nested) start a SELECT?
func (p *parser) parenStartsSelect(n int) bool {
	for p.isOpN(n, "(") {
		n++
	}
	return p.isKwN(n, "SELECT") || p.isKwN(n, "WITH")
}

func (p *parser) parseTableRef() (*TableRef, error) {
	tr := &TableRef{}
	switch {
	case p.isOp("("):
		p.next()
		st, err := p.parseUnion()
		if err != nil {
			return nil, err
		}
		if err := p.expectOp(")"); err != nil {
			return nil, err
		}
		tr.Sub = st
	default:
		t := p.peek()
		if (t.Kind != TIdent && t.Kind != TQIdent) || (isReserved(t) && !strings.EqualFold(t.Text, "settings") && !strings.EqualFold(t.Text, "format")) {
			return nil, p.errf("expected table name")
		}
		p.next()
		if p.isOp("(") && t.Kind == TIdent {
			// table function
			p.next()
			args, err := p.parseExprList(false)
			if err != nil {
				return nil, err
			}
			if err := p.expectOp(")"); err != nil {
				return nil, err
			}
			tr.Func = &Func{Name: t.Text, Args: args}
			break
		}
		tr.Name = []string{t.Val}
		for p.isOp(".") {
			p.next()
			t2 := p.next()
			if t2.Kind != TIdent && t2.Kind != TQIdent {
				return nil, p.errf("expected table name after '.'")
			}
			tr.Name = append(tr.Name, t2.Val)
		}
		if len(tr.Name) > 2 {
			return nil, p.errf("too many parts in table name")
		}
	}
	if p.acceptKw("AS") {
		t := p.next()
		if t.Kind != TIdent && t.Kind != TQIdent {
			return nil, p.errf("expected table alias")
		}
		tr.Alias = t.Val
	} else if t := p.peek(); (t.Kind == TIdent && !isReserved(t)) || t.Kind == TQIdent {
		p.next()
		tr.Alias = t.Val
	}
	if p.acceptKw("FINAL") {
		tr.Final = true
	}
	if p.isKw("SAMPLE") {
		return nil, unsupportedf("SAMPLE clause")
	}
	return tr, nil
}

func (p *parser) parseFromItem() (FromItem, bool, error) {
	// ARRAY JOIN / LEFT ARRAY JOIN
	if p.isKw("ARRAY") && p.isKwN(1, "JOIN") || p.isKw("LEFT") && p.isKwN(1, "ARRAY") && p.isKwN(2, "JOIN") {
		aj := &ArrayJoin{}
		if p.acceptKw("LEFT") {
			aj.Left = true
		}
		p.next()
		p.next()
		exprs, err := p.parseExprList(true)
		if err != nil {
			return FromItem{}, false, err
		}
		if len(exprs) == 0 {
			return FromItem{}, false, p.errf("empty ARRAY JOIN list")
		}
		aj.Exprs = exprs
		return FromItem{ArrayJoin: aj}, true, nil
	}
	if p.isOp(",") {
		// comma join = CROSS JOIN
		p.next()
		tr, err := p.parseTableRef()
		if err != nil {
			return FromItem{}, false, err
		}
		return FromItem{Join: &Join{Kind: "CROSS", Table: tr}}, true, nil
	}
	save := p.pos
	j := &Join{}
	seen := false
	for {
		switch {
		case p.isKw("GLOBAL"):
			j.Global = true
		case p.isKw("ANY"), p.isKw("ALL"), p.isKw("ASOF"), p.isKw("SEMI"), p.isKw("ANTI"):
			if j.Strictness != "" {
				return FromItem{}, false, p.errf("two join strictness words")
			}
			j.Strictness = strings.ToUpper(p.peek().Text)
		case p.isKw("INNER"), p.isKw("LEFT"), p.isKw("RIGHT"), p.isKw("FULL"), p.isKw("CROSS"):
			if j.Kind != "" {
				return FromItem{}, false, p.errf("two join kind words")
			}
			j.Kind = strings.ToUpper(p.peek().Text)
		case p.isKw("OUTER"):
		default:
			goto done
		}
		seen = true
		p.next()
	}
done:
	if !p.isKw("JOIN") {
		if seen {
			p.pos = save
		}
		return FromItem{}, false, nil
	}
	p.next()
	if j.Kind == "" {
		j.Kind = "INNER"
	}
	tr, err := p.parseTableRef()
	if err != nil {
		return FromItem{}, false, err
	}
	j.Table = tr
	switch {
	case p.acceptKw("ON"):
		if j.On, err = p.parseExpr(); err != nil {
			return FromItem{}, false, err
		}
	case p.acceptKw("USING"):
		paren := p.acceptOp("(")
		for {
			t := p.next()
			if t.Kind != TIdent && t.Kind != TQIdent {
				return FromItem{}, false, p.errf("expected column name in USING")
			}
			j.Using = append(j.Using, t.Val)
			if !p.acceptOp(",") {
				break
			}
		}
		if paren {
			if err := p.expectOp(")"); err != nil {
				return FromItem{}, false, err
			}
		}
	default:
		if j.Kind != "CROSS" {
			return FromItem{}, false, p.errf("JOIN without ON or USING")
		}
	}
	return FromItem{Join: j}, true, nil
}

// ---------------------------------------------------------------------------------------------------------
// expressions

// parseExprList parses `expr [AS alias], …` (possibly empty).  bareAlias allows `expr alias` without AS (SELECT
// list, ARRAY JOIN).
func (p *parser) parseExprList(bareAlias bool) ([]Expr, error) {
	var out []Expr
	if p.atListEnd() {
		return out, nil
	}
	for {
		e, err := p.parseExprWithAlias(bareAlias)
		if err != nil {
			return nil, err
		}
		out = append(out, e)
		if !p.acceptOp(",") {
			return out, nil
		}
		if p.atListEnd() {
			// trailing comma is tolerated by ClickHouse in SELECT lists only; keep strict
			return nil, p.errf("expression expected after ','")
		}
	}
}

func (p *parser) atListEnd() bool {
	t := p.peek()
	if t.Kind == TEOF {
		return true
	}
	if t.Kind == TOp && (t.Text == ")" || t.Text == "]" || t.Text == ";") {
		return true
	}
	return false
}

func (p *parser) parseExprWithAlias(bareAlias bool) (Expr, error) {
	e, err := p.parseExpr()
	if err != nil {
		return nil, err
	}
	if p.acceptKw("AS") {
		t := p.next()
		if t.Kind != TIdent && t.Kind != TQIdent {
			return nil, p.errf("expected alias after AS")
		}
		return &Alias{Expr: e, Name: t.Val}, nil
	}
	if bareAlias {
		if t := p.peek(); (t.Kind == TIdent && !isReserved(t)) || t.Kind == TQIdent {
			p.next()
			return &Alias{Expr: e, Name: t.Val}, nil
		}
	}
	return e, nil
}

func (p *parser) parseExpr() (Expr, error) {
	// lambda:  x -> …   |  (x, y) -> …
	if params, n, ok := p.lambdaHead(); ok {
		p.pos += n
		body, err := p.parseExpr()
		if err != nil {
			return nil, err
		}
		return &Lambda{Params: params, Body: body}, nil
	}
	cond, err := p.parseOr()
	if err != nil {
		return nil, err
	}
	if p.isOp("?") {
		p.next()
		a, err := p.parseExpr()
		if err != nil {
			return nil, err
		}
		if err := p.expectOp(":"); err != nil {
			return nil, err
		}
		b, err := p.parseExpr()
		if err != nil {
			return nil, err
		}
		return &Func{Name: "if", Args: []Expr{cond, a, b}, Operator: true}, nil
	}
	return cond, nil
}

func (p *parser) lambdaHead() ([]string, int, bool) {
	t := p.peek()
	if (t.Kind == TIdent || t.Kind == TQIdent) && p.isOpN(1, "->") {
		return []string{t.Val}, 2, true
	}
	if p.isOp("(") {
		i := 1
		var params []string
		for {
			t := p.peekN(i)
			if t.Kind != TIdent && t.Kind != TQIdent {
				return nil, 0, false
			}
			params = append(params, t.Val)
			i++
			if p.isOpN(i, ",") {
				i++
				continue
			}
			break
		}
		if p.isOpN(i, ")") && p.isOpN(i+1, "->") {
			return params, i + 2, true
		}
	}
	return nil, 0, false
}

func (p *parser) parseOr() (Expr, error) {
	left, err := p.parseAnd()
	if err != nil {
		return nil, err
	}
	if !p.isKw("OR") {
		return left, nil
	}
	args := []Expr{left}
	for p.acceptKw("OR") {
		r, err := p.parseAnd()
		if err != nil {
			return nil, err
		}
		args = append(args, r)
	}
	return &Func{Name: "or", Args: args, Operator: true}, nil
}

func (p *parser) parseAnd() (Expr, error) {
	left, err := p.parseNot()
	if err != nil {
		return nil, err
	}
	if !p.isKw("AND") {
		return left, nil
	}
	args := []Expr{left}
	for p.acceptKw("AND") {
		r, err := p.parseNot()
		if err != nil {
			return nil, err
		}
		args = append(args, r)
	}
	return &Func{Name: "and", Args: args, Operator: true}, nil
}

func (p *parser) parseNot() (Expr, error) {
	if p.isKw("NOT") && !p.isOpN(1, "(") || p.isKw("NOT") && p.isOpN(1, "(") && !p.notIsFunctionCall() {
		p.next()
		e, err := p.parseNot()
		if err != nil {
			return nil, err
		}
		return &Func{Name: "not", Args: []Expr{e}, Operator: true}, nil
	}
	return p.parseIsNull()
}

// notIsFunctionCall: `not(x)` written as a function call is equivalent to the operator; always treat NOT as the
// prefix operator (the parenthesised operand is parsed as an ordinary expression).
func (p *parser) notIsFunctionCall() bool { return false }

func (p *parser) parseIsNull() (Expr, error) {
	left, err := p.parseBetween()
	if err != nil {
		return nil, err
	}
	for p.isKw("IS") {
		switch {
		case p.isKwN(1, "NULL"):
			p.next()
			p.next()
			left = &Func{Name: "isNull", Args: []Expr{left}, Operator: true}
		case p.isKwN(1, "NOT") && p.isKwN(2, "NULL"):
			p.next()
			p.next()
			p.next()
			left = &Func{Name: "isNotNull", Args: []Expr{left}, Operator: true}
		default:
			return nil, unsupportedf("IS [NOT] DISTINCT FROM")
		}
	}
	return left, nil
}

func (p *parser) parseBetween() (Expr, error) {
	left, err := p.parseCompare()
	if err != nil {
		return nil, err
	}
	for {
		not := false
		if p.isKw("BETWEEN") {
			p.next()
		} else if p.isKw("NOT") && p.isKwN(1, "BETWEEN") {
			p.next()
			p.next()
			not = true
		} else {
			return left, nil
		}
		lo, err := p.parseCompare()
		if err != nil {
			return nil, err
		}
		if err := p.expectKw("AND"); err != nil {
			return nil, err
		}
		hi, err := p.parseCompare()
		if err != nil {
			return nil, err
		}
		if not {
			left = &Func{Name: "or", Operator: true, Args: []Expr{
				&Func{Name: "less", Operator: true, Args: []Expr{left, lo}},
				&Func{Name: "greater", Operator: true, Args: []Expr{left, hi}}}}
		} else {
			left = &Func{Name: "and", Operator: true, Args: []Expr{
				&Func{Name: "greaterOrEquals", Operator: true, Args: []Expr{left, lo}},
				&Func{Name: "lessOrEquals", Operator: true, Args: []Expr{left, hi}}}}
		}
	}
}

var cmpOps = map[string]string{"=": "equals", "==": "equals", "!=": "notEquals", "<>": "notEquals", "<": "less", ">": "greater",
	"<=": "lessOrEquals", ">=": "greaterOrEquals"}

func (p *parser) parseCompare() (Expr, error) {
	left, err := p.parseConcat()
	if err != nil {
		return nil, err
	}
	for {
		t := p.peek()
		if t.Kind == TOp {
			if t.Text == "<=>" {
				return nil, unsupportedf("<=> operator")
			}
			if fn, ok := cmpOps[t.Text]; ok {
				p.next()
				r, err := p.parseConcat()
				if err != nil {
					return nil, err
				}
				left = &Func{Name: fn, Args: []Expr{left, r}, Operator: true}
				continue
			}
			return left, nil
		}
		if t.Kind != TIdent {
			return left, nil
		}
		save := p.pos
		not := false
		global := false
		if p.isKw("GLOBAL") {
			global = true
			p.next()
		}
		if p.isKw("NOT") {
			not = true
			p.next()
		}
		switch {
		case p.isKw("IN"):
			p.next()
			r, err := p.parseInRight()
			if err != nil {
				return nil, err
			}
			left = &In{Left: left, Right: r, Not: not, Global: global}
			continue
		case p.isKw("LIKE") && !global, p.isKw("ILIKE") && !global:
			fn := "like"
			if p.isKw("ILIKE") {
				fn = "ilike"
			}
			if not {
				fn = "not" + strings.ToUpper(fn[:1]) + fn[1:]
			}
			p.next()
			r, err := p.parseConcat()
			if err != nil {
				return nil, err
			}
			left = &Func{Name: fn, Args: []Expr{left, r}, Operator: true}
			continue
		case p.isKw("REGEXP") && !global && !not:
			p.next()
			r, err := p.parseConcat()
			if err != nil {
				return nil, err
			}
			left = &Func{Name: "match", Args: []Expr{left, r}, Operator: true}
			continue
		}
		p.pos = save
		return left, nil
	}
}

func (p *parser) parseInRight() (Expr, error) {
	// the right side of IN is an ordinary operand; `(SELECT …)` becomes a Subquery, `(a, b)` a tuple, `(x)` x.
	return p.parseConcat()
}

func (p *parser) parseConcat() (Expr, error) {
	left, err := p.parseAdditive()
	if err != nil {
		return nil, err
	}
	if !p.isOp("||") {
		return left, nil
	}
	args := []Expr{left}
	for p.acceptOp("||") {
		r, err := p.parseAdditive()
		if err != nil {
			return nil, err
		}
		args = append(args, r)
	}
	return &Func{Name: "concat", Args: args, Operator: true}, nil
}

func (p *parser) parseAdditive() (Expr, error) {
	left, err := p.parseMul()
	if err != nil {
		return nil, err
	}
	for {
		fn := ""
		switch {
		case p.isOp("+"):
			fn = "plus"
		case p.isOp("-"):
			fn = "minus"
		default:
			return left, nil
		}
		p.next()
		r, err := p.parseMul()
		if err != nil {
			return nil, err
		}
		left = &Func{Name: fn, Args: []Expr{left, r}, Operator: true}
	}
}

func (p *parser) parseMul() (Expr, error) {
	left, err := p.parseUnary()
	if err != nil {
		return nil, err
	}
	for {
		fn := ""
		switch {
		case p.isOp("*"):
			fn = "multiply"
		case p.isOp("/"):
			fn = "divide"
		case p.isOp("%"):
			fn = "modulo"
		case p.isKw("DIV"):
			fn = "intDiv"
		case p.isKw("MOD"):
			fn = "modulo"
		default:
			return left, nil
		}
		p.next()
		r, err := p.parseUnary()
		if err != nil {
			return nil, err
		}
		left = &Func{Name: fn, Args: []Expr{left, r}, Operator: true}
	}
}

func (p *parser) parseUnary() (Expr, error) {
	if p.isOp("-") {
		p.next()
		// negative numeric literal
		if p.peek().Kind == TNumber {
			lit, err := p.parseNumber(true)
			if err != nil {
				return nil, err
			}
			return p.parsePostfixOn(lit)
		}
		e, err := p.parseUnary()
		if err != nil {
			return nil, err
		}
		return &Func{Name: "negate", Args: []Expr{e}, Operator: true}, nil
	}
	if p.isOp("+") && p.peekN(1).Kind == TNumber {
		p.next()
	}
	return p.parsePostfix()
}

func (p *parser) parsePostfix() (Expr, error) {
	e, err := p.parsePrimary()
	if err != nil {
		return nil, err
	}
	return p.parsePostfixOn(e)
}

func (p *parser) parsePostfixOn(e Expr) (Expr, error) {
	for {
		switch {
		case p.isOp("["):
			p.next()
			idx, err := p.parseExpr()
			if err != nil {
				return nil, err
			}
			if err := p.expectOp("]"); err != nil {
				return nil, err
			}
			e = &Func{Name: "arrayElement", Args: []Expr{e, idx}, Operator: true}
		case p.isOp(".") && p.peekN(1).Kind == TNumber:
			p.next()
			t := p.next()
			for _, part := range strings.Split(t.Text, ".") {
				n, err := strconv.ParseUint(part, 10, 32)
				if err != nil {
					return nil, p.errf("bad tuple index %q", t.Text)
				}
				e = &Func{Name: "tupleElement", Args: []Expr{e, &Lit{Val: uint64(n)}}, Operator: true}
			}
		case p.isOp(".") && (p.peekN(1).Kind == TIdent || p.peekN(1).Kind == TQIdent):
			// named tuple element / nested column access on a non-identifier expression
			if _, isIdent := e.(*Ident); isIdent {
				return e, nil
			}
			return nil, unsupportedf("named tuple element access")
		case p.isOp("::"):
			p.next()
			t, err := p.parseType()
			if err != nil {
				return nil, err
			}
			e = &Cast{Expr: e, Type: t}
		default:
			return e, nil
		}
	}
}

func (p *parser) parseNumber(neg bool) (Expr, error) {
	t := p.next()
	txt := t.Text
	if strings.HasPrefix(txt, "0x") || strings.HasPrefix(txt, "0X") {
		u, err := strconv.ParseUint(txt[2:], 16, 64)
		if err != nil {
			return nil, p.errf("bad hex literal %q", txt)
		}
		if neg {
			return &Lit{Val: -int64(u)}, nil
		}
		return &Lit{Val: u}, nil
	}
	if strings.HasPrefix(txt, "0b") || strings.HasPrefix(txt, "0B") {
		u, err := strconv.ParseUint(txt[2:], 2, 64)
		if err != nil {
			return nil, p.errf("bad binary literal %q", txt)
		}
		if neg {
			return &Lit{Val: -int64(u)}, nil
		}
		return &Lit{Val: u}, nil
	}
	if !strings.ContainsAny(txt, ".eE") {
		if neg {
			if i, err := strconv.ParseInt("-"+txt, 10, 64); err == nil {
				return &Lit{Val: i}, nil
			}
		} else if u, err := strconv.ParseUint(txt, 10, 64); err == nil {
			return &Lit{Val: u}, nil
		}
	}
	f, err := strconv.ParseFloat(txt, 64)
	if err != nil && !math.IsInf(f, 0) {
		return nil, p.errf("bad numeric literal %q", txt)
	}
	if neg {
		f = -f
	}
	return &Lit{Val: f}, nil
}

func (p *parser) parsePrimary() (Expr, error) {
	t := p.peek()
	switch t.Kind {
	case TNumber:
		return p.parseNumber(false)
	case TString:
		p.next()
		return &Lit{Val: t.Val}, nil
	case TQIdent:
		return p.parseIdentOrCall()
	case TIdent:
		up := strings.ToUpper(t.Text)
		switch up {
		case "NULL":
			p.next()
			return &Lit{Val: nil}, nil
		case "TRUE":
			if !p.isOpN(1, "(") {
				p.next()
				return &Lit{Val: uint64(1)}, nil
			}
		case "FALSE":
			if !p.isOpN(1, "(") {
				p.next()
				return &Lit{Val: uint64(0)}, nil
			}
		case "CASE":
			return p.parseCase()
		case "CAST":
			if p.isOpN(1, "(") {
				return p.parseCastCall()
			}
		case "INTERVAL":
			if p.peekN(1).Kind == TNumber || p.peekN(1).Kind == TString || p.isOpN(1, "(") {
				return p.parseInterval()
			}
		case "EXISTS":
			if p.isOpN(1, "(") && (p.isKwN(2, "SELECT") || p.isKwN(2, "WITH")) {
				return nil, unsupportedf("EXISTS(subquery)")
			}
		case "SELECT", "WITH":
			return nil, p.errf("subquery must be parenthesised")
		case "DATE", "TIMESTAMP":
			if p.peekN(1).Kind == TString {
				p.next()
				s := p.next()
				name := "toDate"
				if up == "TIMESTAMP" {
					name = "toDateTime"
				}
				return &Func{Name: name, Args: []Expr{&Lit{Val: s.Val}}}, nil
			}
		}
		if isReserved(t) && !p.isOpN(1, "(") {
			return nil, p.errf("unexpected keyword %s", t.Text)
		}
		if isReserved(t) && !(up == "LEFT" || up == "RIGHT" || up == "ANY" || up == "ARRAY" || up == "FORMAT" || up == "NOT" || up == "IN" || up == "LIKE" || up == "ILIKE" || up == "AND" || up == "OR") {
			return nil, p.errf("unexpected keyword %s", t.Text)
		}
		return p.parseIdentOrCall()
	case TOp:
		switch t.Text {
		case "(":
			return p.parseParen()
		case "[":
			p.next()
			elems, err := p.parseExprList(false)
			if err != nil {
				return nil, err
			}
			if err := p.expectOp("]"); err != nil {
				return nil, err
			}
			return &Func{Name: "array", Args: elems, Operator: true}, nil
		case "*":
			p.next()
			if p.isKw("EXCEPT") || p.isKw("REPLACE") || p.isKw("APPLY") {
				return nil, unsupportedf("* %s column transformer", strings.ToUpper(p.peek().Text))
			}
			return &Star{}, nil
		case "{":
			return nil, unsupportedf("query parameter / map literal {…}")
		}
	}
	return nil, p.errf("unexpected %q", t.Text)
}

func (p *parser) parseParen() (Expr, error) {
	if err := p.expectOp("("); err != nil {
		return nil, err
	}
	if p.startsSelect() {
		st, err := p.parseUnion()
		if err != nil {
			return nil, err
		}
		if err := p.expectOp(")"); err != nil {
			return nil, err
		}
		p.subqID++
		return &Subquery{Stmt: st, ID: p.subqID}, nil
	}
	if p.isOp("(") && p.parenStartsSelect(0) {
		// either ((SELECT …) UNION ALL (SELECT …)) — a set operation of parenthesised selects — or an expression
		// list whose first element is a subquery, e.g. `x IN ((SELECT …) as alias)`: try the former, fall back.
		save, saveID := p.pos, p.subqID
		if st, err := p.parseUnion(); err == nil && p.isOp(")") && st.Set != nil {
			p.next()
			p.subqID++
			return &Subquery{Stmt: st, ID: p.subqID}, nil
		}
		p.pos, p.subqID = save, saveID
	}
	if p.isOp(")") {
		// `()` is not an expression in ClickHouse (empty tuple literal is a syntax error in the versions qryn targets)
		return nil, p.errf("empty parentheses")
	}
	var elems []Expr
	trailingComma := false
	for {
		e, err := p.parseExprWithAlias(false)
		if err != nil {
			return nil, err
		}
		elems = append(elems, e)
		if !p.acceptOp(",") {
			break
		}
		if p.isOp(")") {
			trailingComma = true
			break
		}
	}
	if err := p.expectOp(")"); err != nil {
		return nil, err
	}
	if len(elems) == 1 && !trailingComma {
		return elems[0], nil
	}
	return &Func{Name: "tuple", Args: elems, Operator: true}, nil
}

func (p *parser) parseIdentOrCall() (Expr, error) {
	t := p.next()
	if t.Kind == TIdent && p.isOp("(") {
		return p.parseCall(t.Text)
	}
	id := &Ident{Parts: []string{t.Val}}
	for p.isOp(".") {
		n := p.peekN(1)
		if n.Kind == TIdent || n.Kind == TQIdent {
			p.next()
			p.next()
			id.Parts = append(id.Parts, n.Val)
			continue
		}
		if n.Kind == TOp && n.Text == "*" {
			p.next()
			p.next()
			return &Star{Qualifier: id.Parts}, nil
		}
		break
	}
	return id, nil
}

func (p *parser) parseCall(name string) (Expr, error) {
	if err := p.expectOp("("); err != nil {
		return nil, err
	}
	f := &Func{Name: name}
	up := strings.ToUpper(name)
	switch up {
	case "EXTRACT":
		if p.peek().Kind == TIdent && p.isKwN(1, "FROM") {
			return nil, unsupportedf("EXTRACT(part FROM …)")
		}
	case "SUBSTRING", "TRIM", "POSITION", "DATEADD", "DATE_ADD", "DATEDIFF", "DATE_DIFF", "DATESUB", "DATE_SUB", "TIMESTAMPADD", "TIMESTAMP_ADD":
		// SQL-standard keyword forms are not supported; the plain function-call form falls through
		for i := 0; i < 4; i++ {
			if p.isKwN(i, "FROM") || p.isKwN(i, "BOTH") || p.isKwN(i, "LEADING") || p.isKwN(i, "TRAILING") {
				return nil, unsupportedf("%s keyword form", up)
			}
		}
	}
	if p.acceptKw("DISTINCT") {
		f.Distinct = true
	}
	args, err := p.parseExprList(false)
	if err != nil {
		return nil, err
	}
	if err := p.expectOp(")"); err != nil {
		return nil, err
	}
	f.Args = args
	if p.isOp("(") {
		// parametric aggregate: name(params)(args)
		p.next()
		f.Params = f.Args
		if f.Params == nil {
			f.Params = []Expr{}
		}
		if p.acceptKw("DISTINCT") {
			f.Distinct = true
		}
		args, err := p.parseExprList(false)
		if err != nil {
			return nil, err
		}
		if err := p.expectOp(")"); err != nil {
			return nil, err
		}
		f.Args = args
	}
	if p.isKw("OVER") {
		return nil, unsupportedf("window function (OVER)")
	}
	if p.isKw("FILTER") && p.isOpN(1, "(") {
		return nil, unsupportedf("aggregate FILTER clause")
	}
	return f, nil
}

func (p *parser) parseCastCall() (Expr, error) {
	p.next() // CAST
	p.next() // (
	e, err := p.parseExpr()
	if err != nil {
		return nil, err
	}
	var t *Type
	switch {
	case p.acceptKw("AS"):
		if t, err = p.parseType(); err != nil {
			return nil, err
		}
	case p.acceptOp(","):
		s := p.next()
		if s.Kind != TString {
			return nil, unsupportedf("CAST with a non-literal type argument")
		}
		if t, err = ParseType(s.Val); err != nil {
			return nil, err
		}
	default:
		return nil, p.errf("expected AS or ',' in CAST")
	}
	if err := p.expectOp(")"); err != nil {
		return nil, err
	}
	return &Cast{Expr: e, Type: t}, nil
}

func (p *parser) parseCase() (Expr, error) {
	p.next() // CASE
	var operand Expr
	var err error
	if !p.isKw("WHEN") {
		if operand, err = p.parseExpr(); err != nil {
			return nil, err
		}
	}
	var args []Expr
	for p.acceptKw("WHEN") {
		c, err := p.parseExpr()
		if err != nil {
			return nil, err
		}
		if err := p.expectKw("THEN"); err != nil {
			return nil, err
		}
		v, err := p.parseExpr()
		if err != nil {
			return nil, err
		}
		if operand != nil {
			c = &Func{Name: "equals", Args: []Expr{operand, c}, Operator: true}
		}
		args = append(args, c, v)
	}
	if len(args) == 0 {
		return nil, p.errf("CASE without WHEN")
	}
	if p.acceptKw("ELSE") {
		v, err := p.parseExpr()
		if err != nil {
			return nil, err
		}
		args = append(args, v)
	} else {
		args = append(args, &Lit{Val: nil})
	}
	if err := p.expectKw("END"); err != nil {
		return nil, err
	}
	return &Func{Name: "multiIf", Args: args, Operator: true}, nil
}

var intervalUnits = map[string]string{"SECOND": "Second", "MINUTE": "Minute", "HOUR": "Hour", "DAY": "Day", "WEEK": "Week",
	"MONTH": "Month", "QUARTER": "Quarter", "YEAR": "Year", "MILLISECOND": "Millisecond", "MICROSECOND": "Microsecond", "NANOSECOND": "Nanosecond"}

func (p *parser) parseInterval() (Expr, error) {
	p.next() // INTERVAL
	var n Expr
	var err error
	if p.peek().Kind == TString {
		// INTERVAL '1 day'
		f := strings.Fields(p.next().Val)
		if len(f) != 2 {
			return nil, unsupportedf("INTERVAL 'string' with other than one 'N unit' pair")
		}
		cnt, err := strconv.ParseInt(f[0], 10, 64)
		unit, ok := intervalUnits[strings.TrimSuffix(strings.ToUpper(f[1]), "S")]
		if err != nil || !ok {
			return nil, p.errf("bad INTERVAL string")
		}
		var lit Expr = &Lit{Val: uint64(cnt)}
		if cnt < 0 {
			lit = &Lit{Val: cnt}
		}
		return &Func{Name: "toInterval" + unit, Args: []Expr{lit}}, nil
	}
	if n, err = p.parseUnary(); err != nil {
		return nil, err
	}
	u := p.next()
	unit, ok := intervalUnits[strings.TrimSuffix(strings.ToUpper(u.Text), "S")]
	if u.Kind != TIdent || !ok {
		return nil, p.errf("expected interval unit")
	}
	return &Func{Name: "toInterval" + unit, Args: []Expr{n}}, nil
}

// ---------------------------------------------------------------------------------------------------------
// types

func (p *parser) parseType() (*Type, error) {
	t := p.next()
	if t.Kind != TIdent {
		return nil, p.errf("expected type name")
	}
	ty := &Type{Name: canonicalTypeName(t.Text), Raw: t.Text}
	if !p.isOp("(") {
		return finishType(ty)
	}
	p.next()
	for !p.isOp(")") {
		a := p.peek()
		switch {
		case a.Kind == TNumber:
			p.next()
			n, err := strconv.Atoi(a.Text)
			if err != nil {
				return nil, p.errf("bad type parameter %q", a.Text)
			}
			if ty.N == 0 {
				ty.N = n
			}
		case a.Kind == TString:
			p.next()
			// Enum8('a' = 1, …) or DateTime64(9, 'UTC')
			if p.acceptOp("=") {
				p.acceptOp("-")
				if p.next().Kind != TNumber {
					return nil, p.errf("expected enum value")
				}
			}
		case a.Kind == TIdent || a.Kind == TQIdent:
			// named tuple element `name Type`, or a nested type, or an aggregate function name
			if n := p.peekN(1); (n.Kind == TIdent) && !(n.Kind == TOp) {
				p.next() // element name
			}
			sub, err := p.parseType()
			if err != nil {
				return nil, err
			}
			ty.Args = append(ty.Args, sub)
		default:
			return nil, p.errf("unexpected %q in type", a.Text)
		}
		if !p.acceptOp(",") {
			break
		}
	}
	if err := p.expectOp(")"); err != nil {
		return nil, err
	}
	return finishType(ty)
}

func canonicalTypeName(s string) string {
	switch strings.ToLower(s) {
	case "int8", "tinyint":
		return "Int8"
	case "int16", "smallint":
		return "Int16"
	case "int32", "int", "integer":
		return "Int32"
	case "int64", "bigint":
		return "Int64"
	case "uint8":
		return "UInt8"
	case "uint16":
		return "UInt16"
	case "uint32":
		return "UInt32"
	case "uint64":
		return "UInt64"
	case "float32", "float":
		return "Float32"
	case "float64", "double":
		return "Float64"
	case "string", "text", "varchar":
		return "String"
	case "fixedstring":
		return "FixedString"
	case "date":
		return "Date"
	case "date32":
		return "Date32"
	case "datetime":
		return "DateTime"
	case "datetime64":
		return "DateTime64"
	case "array":
		return "Array"
	case "tuple":
		return "Tuple"
	case "map":
		return "Map"
	case "nullable":
		return "Nullable"
	case "lowcardinality":
		return "LowCardinality"
	case "bool", "boolean":
		return "Bool"
	case "nothing":
		return "Nothing"
	}
	return s
}

func finishType(t *Type) (*Type, error) {
	switch t.Name {
	case "LowCardinality":
		if len(t.Args) != 1 {
			return nil, unsupportedf("type %s", t.Raw)
		}
		return t.Args[0], nil
	case "Array", "Nullable":
		if len(t.Args) != 1 {
			return nil, unsupportedf("type %s with %d arguments", t.Name, len(t.Args))
		}
	case "Map":
		if len(t.Args) != 2 {
			return nil, unsupportedf("type Map with %d arguments", len(t.Args))
		}
	case "FixedString":
		if t.N <= 0 {
			return nil, unsupportedf("FixedString without length")
		}
	case "Enum8", "Enum16", "Enum":
		// enum values are modelled by their names
		return tString, nil
	case "SimpleAggregateFunction":
		// SimpleAggregateFunction(fn, T) stores plain T values
		if len(t.Args) >= 2 {
			return t.Args[len(t.Args)-1], nil
		}
		return nil, unsupportedf("type %s", t.Raw)
	}
	return t, nil
}
