package chsim

import (
	"encoding/binary"
	"fmt"
	"math"
	"sync"

	"github.com/go-faster/city"
)

func registerDates() {
	reg(&scalarFn{name: "toUnixTimestamp", min: 1, max: 2, ret: retConst(tUInt64), eval: func(_ *callCtx, a []Value) (Value, error) {
		switch x := a[0].(type) {
		case DateTime:
			return uint64(x), nil
		case Date:
			return uint64(x) * 86400, nil
		case DateTime64:
			return uint64(floorDiv(x.T, pow10i(int(x.P)))), nil
		case string:
			d, ok := parseDateTime(x)
			if !ok {
				return nil, evalErrorf("CANNOT_PARSE_DATETIME", "cannot parse %q as DateTime", x)
			}
			return uint64(d), nil
		}
		return nil, typeErr("toUnixTimestamp", a[0])
	}})
	reg(&scalarFn{name: "FROM_UNIXTIME", min: 1, max: 1, ret: retConst(&Type{Name: "DateTime"}), eval: func(_ *callCtx, a []Value) (Value, error) {
		if !isNumeric(a[0]) {
			return nil, typeErr("FROM_UNIXTIME", a[0])
		}
		return DateTime(asInt64(a[0])), nil
	}}, "fromUnixTimestamp")
	reg(&scalarFn{name: "toStartOfDay", min: 1, max: 1, ret: retConst(&Type{Name: "DateTime"}), eval: func(_ *callCtx, a []Value) (Value, error) {
		switch x := a[0].(type) {
		case DateTime:
			return DateTime(floorDiv(int64(x), 86400) * 86400), nil
		case Date:
			return DateTime(int64(x) * 86400), nil
		}
		return nil, typeErr("toStartOfDay", a[0])
	}})
	for _, n := range []string{"now", "today", "yesterday", "now64", "rand", "rand64", "generateUUIDv4", "randConstant"} {
		name := n
		reg(&scalarFn{name: name, min: 0, max: 2, volatile: true, nullAware: true, eval: func(_ *callCtx, a []Value) (Value, error) {
			return nil, unsupportedf("non-deterministic function %s()", name)
		}})
	}
	for _, u := range []string{"Second", "Minute", "Hour", "Day", "Week", "Month", "Quarter", "Year", "Millisecond", "Microsecond", "Nanosecond"} {
		name, unit := "toInterval"+u, u
		reg(&scalarFn{name: name, min: 1, max: 1, eval: func(_ *callCtx, a []Value) (Value, error) {
			if !isNumeric(a[0]) {
				return nil, typeErr(name, a[0])
			}
			return Interval{N: asInt64(a[0]), Unit: unit}, nil
		}})
	}
	reg(&scalarFn{name: "isNaN", min: 1, max: 1, ret: retConst(tUInt8), eval: func(_ *callCtx, a []Value) (Value, error) {
		f, ok := toFloat(a[0])
		if !ok {
			return nil, typeErr("isNaN", a[0])
		}
		return boolVal(f != f), nil
	}})
	reg(&scalarFn{name: "isFinite", min: 1, max: 1, ret: retConst(tUInt8), eval: func(_ *callCtx, a []Value) (Value, error) {
		f, ok := toFloat(a[0])
		if !ok {
			return nil, typeErr("isFinite", a[0])
		}
		return boolVal(!math.IsNaN(f) && !math.IsInf(f, 0)), nil
	}})
	reg(&scalarFn{name: "isInfinite", min: 1, max: 1, ret: retConst(tUInt8), eval: func(_ *callCtx, a []Value) (Value, error) {
		f, ok := toFloat(a[0])
		if !ok {
			return nil, typeErr("isInfinite", a[0])
		}
		return boolVal(math.IsInf(f, 0)), nil
	}})
}

// Interval is the value of INTERVAL n UNIT / toIntervalUnit(n); only usable in date arithmetic.
type Interval struct {
	N    int64
	Unit string
}

// addInterval implements date ± interval for the fixed-length units (calendar units are not modelled).
func addInterval(v Value, iv Interval, sign int64) (Value, error) {
	var secs int64
	switch iv.Unit {
	case "Second":
		secs = 1
	case "Minute":
		secs = 60
	case "Hour":
		secs = 3600
	case "Day":
		secs = 86400
	case "Week":
		secs = 7 * 86400
	default:
		return nil, unsupportedf("INTERVAL arithmetic with unit %s", iv.Unit)
	}
	d := sign * iv.N * secs
	switch x := v.(type) {
	case Date:
		if d%86400 != 0 {
			return nil, unsupportedf("Date ± sub-day interval")
		}
		return Date(int64(x) + d/86400), nil
	case DateTime:
		return DateTime(int64(x) + d), nil
	case DateTime64:
		return DateTime64{T: x.T + d*pow10i(int(x.P)), P: x.P}, nil
	}
	return nil, evalErrorf("ILLEGAL_TYPE_OF_ARGUMENT", "interval arithmetic on %s", typeNameOf(v))
}

// ---------------------------------------------------------------------------------------------------------
// cityHash64

var (
	hashRegistry sync.Map // uint64 → canonical serialisation
)

// cityHash64Of: for a single String argument this is bit-exact ClickHouse cityHash64 (CityHash 1.0.2 64-bit).  For
// every other argument list it is CityHash64 of a canonical, type-tagged serialisation of the values: NOT the
// number ClickHouse would produce, but a deterministic function that is equal for equal argument lists and — checked
// at run time through a process-wide registry — different for different ones (a collision is reported as
// ErrUnsupported instead of silently merging two groups).
func cityHash64Of(args []Value) (Value, error) {
	if len(args) == 1 {
		if s, ok := args[0].(string); ok {
			return city.CH64([]byte(s)), nil
		}
	}
	for _, a := range args {
		if containsNull(a) {
			return nil, unsupportedf("cityHash64 over NULL")
		}
	}
	ser := "chsim-hash:" + keyOf(Tuple(args))
	h := city.CH64([]byte(ser))
	if prev, loaded := hashRegistry.LoadOrStore(h, ser); loaded && prev.(string) != ser {
		return nil, unsupportedf("cityHash64 model collision between %q and %q", prev, ser)
	}
	return h, nil
}

func containsNull(v Value) bool {
	switch x := v.(type) {
	case nil:
		return true
	case Array:
		for _, e := range x {
			if containsNull(e) {
				return true
			}
		}
	case Tuple:
		for _, e := range x {
			if containsNull(e) {
				return true
			}
		}
	case *Map:
		for i := range x.Keys {
			if containsNull(x.Keys[i]) || containsNull(x.Vals[i]) {
				return true
			}
		}
	}
	return false
}

var _ = binary.LittleEndian
var _ = math.Pi
var _ = fmt.Sprint
