package chsim

import (
	"errors"
	"strings"
	"testing"
)

func render(res *Result) string {
	rows := make([]string, len(res.Rows))
	for i, r := range res.Rows {
		cells := make([]string, len(r))
		for j, v := range r {
			cells[j] = Format(v)
		}
		rows[i] = strings.Join(cells, "|")
	}
	return strings.Join(rows, ";")
}

func testDB() *DB {
	db := NewDB()
	db.AddTable("t", []string{"a Int64", "b String", "c Float64"}, [][]Value{
		{1, "x", 1.5}, {2, "y", 2.5}, {3, "x", 3.5}, {4, "z", 0.0},
	})
	db.AddTable("u", []string{"a UInt64", "d String"}, [][]Value{
		{uint64(1), "one"}, {uint64(1), "uno"}, {uint64(3), "three"}, {uint64(5), "five"},
	})
	db.AddTable("n", []string{"k String", "v Nullable(Int64)"}, [][]Value{
		{"a", 1}, {"a", nil}, {"b", nil}, {"b", 5}, {"c", nil},
	})
	db.AddTable("arr", []string{"id UInt64", "xs Array(UInt64)", "tags Array(Tuple(String, String))"}, [][]Value{
		{uint64(1), Array{uint64(1), uint64(2)}, Array{Tuple{"k1", "v1"}, Tuple{"k2", "v2"}}},
		{uint64(2), Array{}, Array{}},
		{uint64(3), Array{uint64(7)}, Array{Tuple{"k1", "w"}}},
	})
	db.AddTable("empty", []string{"a Int64", "s String", "m Map(String, String)"}, nil)
	return db
}

// Expected values follow the ClickHouse documentation / observed server behaviour for each construct.
var microQueries = []struct{ sql, want string }{
	// literals, arithmetic, result kinds
	{`SELECT 1, -1, 1.5, 'a', NULL`, `1|-1|1.5|'a'|NULL`},
	{`SELECT 1 + 2, 2 - 3, 2 * 3, 7 / 2, intDiv(7, 2), 7 % 3, -7 % 3, intDiv(-7, 2)`, `3|-1|6|3.5|3|1|-1|-3`},
	{`SELECT 1 / 0, -1 / 0, isNaN(0 / 0)`, `inf|-inf|1`},
	{`SELECT 0x10, 1e3, .5, 1.`, `16|1000|0.5|1`},
	{`SELECT toString(1e21), toString(1e20), toString(0.000001), toString(0.0000001), toString(-0.0), toString(100000.0)`, `'1e21'|'100000000000000000000'|'0.000001'|'1e-7'|'-0'|'100000'`},
	{`SELECT toFloat64(5) / 5.000000, toFloat64(3) / 60.000000`, `1|0.05`},
	{`SELECT 18446744073709551615, 9223372036854775808 - 1`, `18446744073709551615|9223372036854775807`},
	// string literal decoding (parseComplexEscapeSequence) and '' doubling
	{`SELECT 'it''s', 'it\'s', 'a\\b', 'a\%b', 'a\_b', length('a\nb'), length('\x41\0'), '\N', 'q\"q', 'a\/b', 'a\db'`, `'it\'s'|'it\'s'|'a\\b'|'a\\%b'|'a\\_b'|3|2|''|'q"q'|'a/b'|'a\\db'`},
	// comparison, logic, NULL (three-valued)
	{`SELECT 1 = 1, 1 == 2, 1 != 2, 1 <> 1, 'a' < 'b', 2 >= 3, 1 = 1.0, -1 < 18446744073709551615`, `1|0|1|0|1|0|1|1`},
	{`SELECT NULL = 1, NULL AND 0, NULL AND 1, NULL OR 1, NULL OR 0, NOT NULL, 1 AND 1 AND 0, 0 OR 0 OR 1`, `NULL|0|NULL|1|NULL|NULL|0|1`},
	{`SELECT isNull(NULL), isNotNull(1), NULL IS NULL, 1 IS NOT NULL, ifNull(NULL, 2), coalesce(NULL, NULL, 3), nullIf(1, 1), nullIf(1, 2)`, `1|1|1|1|2|3|NULL|1`},
	{`SELECT if(1, 'a', 'b'), if(0, 'a', 'b'), if(NULL, 'a', 'b'), multiIf(0, 1, 1, 2, 3), 1 ? 2 : 3, if(1, 1, 2.5)`, `'a'|'b'|'b'|2|2|1`},
	{`SELECT CASE WHEN 1 = 2 THEN 'x' WHEN 2 = 2 THEN 'y' ELSE 'z' END, CASE 3 WHEN 1 THEN 'one' ELSE 'other' END`, `'y'|'other'`},
	{`SELECT 2 BETWEEN 1 AND 3, 5 NOT BETWEEN 1 AND 3, 1 + 2 * 3, (1 + 2) * 3, -2 * 3, NOT 1 = 2, 1 = 1 AND 2 = 2 OR 0`, `1|1|7|9|-6|1|1`},
	{`SELECT toFloat64OrNull('1.5'), toFloat64OrNull(''), toFloat64OrNull('x'), toFloat64OrNull(' 1'), toFloat64OrNull('1e2'), toFloat64OrZero('x'), toFloat64OrNull('1.5x'), toFloat64OrNull('-3')`, `1.5|NULL|NULL|NULL|100|0|NULL|-3`},
	{`SELECT toFloat64OrNull('x') IS NOT NULL, (toFloat64OrNull('x') IS NOT NULL) and (toFloat64OrNull('x') > 1), (toFloat64OrNull('2') IS NOT NULL) and (toFloat64OrNull('2') > 1)`, `0|0|1`},
	{`SELECT toUInt64('12'), toInt64('-12'), toUInt8(300), toInt8(200), toUInt64(1.9), toString(12), toString(1.5), toFloat64('2.5'), toFloat64(0)`, `12|-12|44|-56|1|'12'|'1.5'|2.5|0`},
	{`SELECT 1::String, '2'::UInt64, (['a'],['b'])::Map(String, String), CAST(3 AS Float64), CAST('4', 'Int64'), 'ab'::FixedString(3) = 'ab\0'`, `'1'|2|{'a':'b'}|3|4|1`},
	// LIKE (likePatternToRegexp), match (RE2 search, dot matches newline)
	{`SELECT like('abc', 'a%'), like('abc', '%b%'), like('abc', 'a_c'), like('abc', 'abc%'), like('abc', 'b'), like('a%c', 'a\%c'), like('abc', 'a\%c'), like('a_c', 'a\_c'), like('abc', 'a\_c')`, `1|1|1|1|0|1|0|1|0`},
	{`SELECT like('a\\c', 'a\\\\c'), like('a\\c', '%\\\\%'), like('ac', '%\\\\%'), like('a.c', 'a.c'), like('abc', 'a.c'), like('a(c', '%(%'), like('x', ''), like('', ''), like('', '%'), like('a\\bc', '%\\b%')`, `1|1|0|1|0|1|0|1|1|1`},
	{`SELECT 'abc' LIKE 'A%', 'abc' ILIKE 'A%', 'abc' NOT LIKE 'a%', notLike('abc', '%z%'), ilike('ABC', '%b%'), notILike('ABC', '%b%'), like('a\nb', 'a_b'), like('a\nb', 'a%b')`, `0|1|0|1|1|0|1|1`},
	{`SELECT like('it\'s%', '%it\'s\%'), like('xit\'s', '%it\'s\%'), like('100%', '%0\%'), like('100', '%0\%')`, `1|0|1|0`},
	{`SELECT match('abc', 'b'), match('abc', '^b'), match('abc', 'a.c'), match('a\nc', 'a.c'), match('abc', ''), match('ABC', '(?i)b'), match('a.c', 'a\\.c'), match('abc', 'a\\.c'), match('abc', 'x|c$')`, `1|0|1|1|1|1|1|0|1`},
	{`SELECT extractAllGroupsHorizontal('a1-b2', '([a-z])(\\d)'), extractAllGroupsVertical('a1-b2', '([a-z])(\\d)'), extractAllGroupsHorizontal('zzz', '(a)(b)?')`, `[['a','b'],['1','2']]|[['a','1'],['b','2']]|[[],[]]`},
	{`SELECT arrayMap(x -> x[length(x)], extractAllGroupsHorizontal('k=v k=w', '(k)=(\\w)')), arrayMap(x -> x[length(x)], extractAllGroupsHorizontal('none', '(k)=(\\w)'))`, `['k','w']|['','']`},
	// strings
	{`SELECT length('abc'), length(''), lower('AbC'), upper('AbC'), concat('a', 'b', 'c'), 'a' || 'b' || 'c', concat('a', 1), substring('hello', 2, 3), substring('hello', 2), substring('hello', -3, 2)`, `3|0|'abc'|'ABC'|'abc'|'abc'|'a1'|'ell'|'ello'|'ll'`},
	{`SELECT splitByChar(':', 'a:b::c'), splitByChar(':', ''), splitByChar(':', 'abc')[1], splitByChar(':', 'a:b')[3], arrayStringConcat(['a', 'b'], ';'), concatWithSeparator(':', 'a', 'b', 'c')`, `['a','b','','c']|['']|'abc'|''|'a;b'|'a:b:c'`},
	{`SELECT hex('ab'), hex(255), unhex('6162'), lower(hex(unhex('0A0b'))), startsWith('abc', 'ab'), endsWith('abc', 'bc'), position('abc', 'c'), replaceAll('aaa', 'a', 'b'), empty(''), notEmpty('')`, `'6162'|'FF'|'ab'|'0a0b'|1|1|3|'bbb'|1|0`},
	{`SELECT format('{} and {}', 'a', 'b'), format('{1}{0}', 'a', 'b'), format('{{}} {}', 'x'), format('no args', 'x'), format('{}', 1)`, `'a and b'|'ba'|'{} x'|'no args'|'1'`},
	// arrays, tuples, lambdas
	{`SELECT [1, 2, 3], [], ['a'], [1, 2][1], [1, 2][2], [1, 2][-1], (1, 'a'), (1, 'a').1, (1, 'a').2, tuple(1, 2), tupleElement((1, 2), 2)`, `[1,2,3]|[]|['a']|1|2|2|(1,'a')|1|'a'|(1,2)|2`},
	{`SELECT arrayMap(x -> x * 2, [1, 2, 3]), arrayMap((x, y) -> x + y, [1, 2], [10, 20]), arrayFilter(x -> x > 1, [1, 2, 3]), arrayFilter((x, y) -> y != '', ['a', 'b'], ['', 'q']), arrayExists(x -> x = 2, [1, 2]), arrayExists(x -> x = 5, [1, 2]), arrayAll(x -> x > 0, [1, 2])`, `[2,4,6]|[11,22]|[2,3]|['b']|1|0|1`},
	{`SELECT arrayFirst(x -> x > 1, [1, 2, 3]), arrayFirst(x -> x > 5, [1, 2, 3]), arrayFirst(x -> x.1 = 'b', [('a', 1), ('b', 2)]), arrayFirst(x -> x.1 = 'z', [('a', 1), ('b', 2)]), arrayFirstIndex(x -> x > 1, [1, 2, 3]), arrayCount(x -> x > 1, [1, 2, 3])`, `2|0|('b',2)|('',0)|2|2`},
	{`SELECT arraySort([3, 1, 2]), arraySort(x -> -x, [3, 1, 2]), arrayReverseSort([3, 1, 2]), arraySort([('b', 1), ('a', 2)]), arraySort(x -> (-x.1, x.2), [(1, 'b'), (2, 'a'), (2, 'A')]), arraySort(['b', 'a', 'B'])`, `[1,2,3]|[3,2,1]|[3,2,1]|[('a',2),('b',1)]|[(2,'A'),(2,'a'),(1,'b')]|['B','a','b']`},
	{`SELECT arrayZip(['a', 'b'], [1, 2]), arraySlice([1, 2, 3, 4], 2, 2), arraySlice([1, 2, 3, 4], 1, 3), arraySlice([1, 2, 3], 2), arraySlice([1, 2, 3], -2, 1), arraySlice([1, 2], 1, 5), arrayConcat([1], [2, 3]), has([1, 2], 2), indexOf([1, 2], 2), arrayDistinct([1, 1, 2]), arrayReverse([1, 2])`, `[('a',1),('b',2)]|[2,3]|[1,2,3]|[2,3]|[2]|[1,2]|[1,2,3]|1|2|[1,2]|[2,1]`},
	{`SELECT length([1, 2]), empty([]), notEmpty([1]), arrayEnumerate(['a', 'b']), range(3), arraySum([1, 2, 3]), arrayMax([1, 5, 2]), arrayMin([4, 2])`, `2|1|1|[1,2]|[0,1,2]|6|5|2`},
	{`SELECT (1, 2) = (1, 2), (1, 2) != (1, 3), (1, 'a') < (1, 'b'), [1, 2] = [1, 2], [1, 2] < [1, 3], [1] < [1, 0], ('k', 'v') != ('k', 'w')`, `1|1|1|1|1|1|1`},
	// maps
	{`SELECT mapFromArrays(['a', 'b'], ['1', '2']) AS m, m['a'], m['zz'], mapKeys(m), mapValues(m), length(m), mapContains(m, 'b')`, `{'a':'1','b':'2'}|'1'|''|['a','b']|['1','2']|2|1`},
	{`SELECT mapUpdate(mapFromArrays(['a', 'b'], ['1', '2']), mapFromArrays(['b', 'c'], ['9', '3'])), mapUpdate(mapFromArrays(['a'], ['1']), mapFromArrays([]::Array(String), []::Array(String)))`, `{'a':'1','b':'9','c':'3'}|{'a':'1'}`},
	{`SELECT mapFilter((k, v) -> k != 'a', mapFromArrays(['a', 'b'], ['1', '2'])), mapFilter((k, v) -> k IN ('a'), mapFromArrays(['a', 'b'], ['1', '2'])), mapFilter((k, v) -> k != 'a' and (k, v) != ('b', '2'), mapFromArrays(['a', 'b', 'c'], ['1', '2', '3'])), mapFilter((k, v) -> k NOT IN ('a', 'b'), mapFromArrays(['a', 'b', 'c'], ['1', '2', '3']))`, `{'b':'2'}|{'a':'1'}|{'c':'3'}|{'c':'3'}`},
	{`SELECT mapFromArrays(['a', 'a'], ['1', '2'])['a'], cityHash64(mapFromArrays(['a'], ['1'])) = cityHash64(mapFromArrays(['a'], ['1'])), cityHash64(mapFromArrays(['a'], ['1'])) = cityHash64(mapFromArrays(['a'], ['2'])), cityHash64('') , cityHash64('abc')`, `'1'|1|0|11160318154034397263|4220206313085259313`},
	// JSON
	{`SELECT JSONExtractString('{"a":"x","b":{"c":"y"}}', 'a'), JSONExtractString('{"a":"x","b":{"c":"y"}}', 'b', 'c'), JSONExtractString('{"a":"x"}', 'z'), JSONExtractString('not json', 'a'), JSONExtractString('{"a":"q\\"\\u0041\\n"}', 'a')`, `'x'|'y'|''|''|'q"A\n'`},
	{`SELECT JSONType('{"a":"x","b":1,"c":1.5,"d":[1],"e":{},"f":true,"g":null,"h":-1}', 'a') AS ta, JSONType('{"b":1}', 'b'), JSONType('{"c":1.5}', 'c'), JSONType('{"d":[1]}', 'd'), JSONType('{"e":{}}', 'e'), JSONType('{"f":true}', 'f'), JSONType('{"g":null}', 'g'), JSONType('{}', 'zz'), JSONType('{"h":-1}', 'h'), JSONType('{"a":1}'), ta == 'String'`, `'String'|'Int64'|'Double'|'Array'|'Object'|'Bool'|'Null'|'Null'|'Int64'|'Object'|1`},
	{`SELECT JSONExtractRaw('{"a": [1, 2.50, "x"], "b": {"c" : null}}', 'a'), JSONExtractRaw('{"a": [1, 2.50, "x"], "b": {"c" : null}}', 'b'), JSONExtractRaw('{"a":1}', 'z'), JSONExtractRaw('{"a":"s/\\"t"}', 'a'), JSONExtractRaw('{"a":1e3}', 'a'), JSONExtractRaw('{"a":true}', 'a')`, `'[1,2.5,"x"]'|'{"c":null}'|''|'"s/\\"t"'|'1000'|'true'`},
	{`SELECT JSONExtractKeysAndValues('{"b":"2","a":"1"}', 'String'), JSONExtractKeysAndValues('[1]', 'String'), JSONExtractKeysAndValues('broken', 'String'), JSONExtractKeysAndValues('{"a":{"x":"1"}}', 'a', 'String'), JSONHas('{"a":1}', 'a'), JSONHas('{"a":1}', 'b'), JSONLength('{"a":[1,2,3]}', 'a'), JSONExtractString('{"a":["x","y"]}', 'a', 2), JSONExtractString('{"a":["x","y"]}', 'a', -1)`, `[('b','2'),('a','1')]|[]|[]|[('x','1')]|1|0|3|'y'|'y'`},
	{`SELECT JSONExtractInt('{"a":-5}', 'a'), JSONExtractUInt('{"a":5}', 'a'), JSONExtractFloat('{"a":1.5}', 'a'), JSONExtractFloat('{"a":2}', 'a'), JSONExtractBool('{"a":true}', 'a'), JSONExtractInt('{"a":1}', 'b'), JSONExtractKeys('{"x":1,"y":2}')`, `-5|5|1.5|2|1|0|['x','y']`},
	{`SELECT if(JSONType('{"q":{"r":"1"}}', 'q', 'r' as jp_1) == 'String', JSONExtractString('{"q":{"r":"1"}}', jp_1), JSONExtractRaw('{"q":{"r":"1"}}', jp_1)), jp_1`, `''|'r'`},
	// dates
	{`SELECT toDate('2024-03-01') >= '2024-02-29', toDate('2024-03-01') = '2024-03-01', toString(toDate('2024-03-01')), toDate(19783), toDate('2024-03-01') + 1 = toDate('2024-03-02'), toDate(1709287200), toUnixTimestamp(toDateTime('2024-03-01 00:00:00')), toDate('1969-12-31')`, `1|1|'2024-03-01'|'2024-03-01'|1|'2024-03-01'|1709251200|'1970-01-01'`},
	// FROM-less and basic table scans
	{`SELECT a, b FROM t WHERE a > 1 ORDER BY a DESC`, `4|'z';3|'x';2|'y'`},
	{`SELECT a FROM t PREWHERE a >= 2 WHERE a < 4`, `2;3`},
	{`SELECT * FROM t ORDER BY a LIMIT 2`, `1|'x'|1.5;2|'y'|2.5`},
	{`SELECT t.* FROM t LIMIT 1, 2`, `2|'y'|2.5;3|'x'|3.5`},
	{`SELECT a FROM t ORDER BY a LIMIT 2 OFFSET 1`, `2;3`},
	{`SELECT a FROM t ORDER BY b ASC, a DESC`, `3;1;2;4`},
	{`SELECT a FROM t ORDER BY 1 DESC LIMIT 1`, `4`},
	{`SELECT DISTINCT b FROM t ORDER BY b`, `'x';'y';'z'`},
	{`SELECT b, a FROM t ORDER BY a LIMIT 1 BY b`, `'x'|1;'y'|2;'z'|4`},
	{`SELECT count() FROM t`, `4`},
	{`SELECT count(*), COUNT(1), count(b), sum(a), min(a), max(a), avg(a), any(b), sum(c) FROM t`, `4|4|4|10|1|4|2.5|'x'|7.5`},
	{`SELECT count(), sum(a), min(a), max(a), avg(a), any(s), groupArray(a), uniqExact(a), isNaN(avg(a)) FROM empty`, `0|0|0|0|nan|''|[]|0|1`},
	{`SELECT a, count() FROM empty GROUP BY a`, ``},
	// alias scoping
	{`SELECT a + 1 AS a2, a2 * 2 AS a3 FROM t WHERE a3 > 6 ORDER BY a`, `4|8;5|10`},
	{`SELECT intDiv(a, 2) * 2 AS a, count() AS c FROM t GROUP BY a ORDER BY a`, `0|1;2|2;4|1`},
	{`SELECT b AS k, sum(a) AS s FROM t GROUP BY k HAVING s > 2 ORDER BY k`, `'x'|4;'z'|4`},
	{`SELECT b, sum(a) FROM t GROUP BY b HAVING sum(a) = 2`, `'y'|2`},
	{`SELECT t.a AS a, b AS bb FROM t WHERE bb = 'x' AND t.a > 1`, `3|'x'`},
	{`SELECT (a * 10 AS a10) + 1, a10 FROM t WHERE a = 2`, `21|20`},
	{`SELECT sum(a) AS s, s * 2 FROM t`, `10|20`},
	{`SELECT b, groupArray(a), groupArray(1)(a), groupUniqArray(b), max(c), argMax(a, c), argMin(a, c), anyIf(a, a > 1), sumIf(a, b = 'x'), countIf(a > 100) FROM t GROUP BY b ORDER BY b`, `'x'|[1,3]|[1]|['x']|3.5|3|1|3|4|0;'y'|[2]|[2]|['y']|2.5|2|2|2|0|0;'z'|[4]|[4]|['z']|0|4|4|4|0|0`},
	{`SELECT quantile(0.5)(a), quantile(0.99)(a), quantile(a), median(a), stddevPop(a), varPop(a), quantile(0)(a), quantile(1)(a) FROM t`, `2.5|3.9699999999999998|2.5|2.5|1.118033988749895|1.25|1|4`},
	{`SELECT groupBitOr(a), groupBitOr(bitShiftLeft(a = 1, 0) + bitShiftLeft(b = 'y', 1)), bitAnd(6, 3), bitOr(4, 1), bitShiftLeft(1, 3), bitShiftRight(8, 2) FROM t`, `7|3|2|5|8|2`},
	{`SELECT count(DISTINCT b), uniqExact(b), count(distinct t.b) FROM t`, `3|3|3`},
	{`SELECT groupUniqArrayArray(xs), sumArray(xs), groupArrayArray(xs), maxArray(xs) FROM arr`, `[1,2,7]|10|[1,2,7]|7`},
	{`SELECT k, count(), count(v), sum(v), min(v), any(v), groupArray(v), avg(v) FROM n GROUP BY k ORDER BY k`, `'a'|2|1|1|1|1|[1]|1;'b'|2|1|5|5|5|[5]|5;'c'|1|0|NULL|NULL|NULL|[]|NULL`},
	{`SELECT k FROM n WHERE v > 0 ORDER BY k`, `'a';'b'`},
	{`SELECT k, v FROM n ORDER BY v DESC, k`, `'b'|5;'a'|1;'a'|NULL;'b'|NULL;'c'|NULL`},
	{`SELECT k, v FROM n ORDER BY v ASC NULLS FIRST, k LIMIT 4`, `'a'|NULL;'b'|NULL;'c'|NULL;'a'|1`},
	{`SELECT v IN (1, 5), v NOT IN (1), k IN ('a', 'b') FROM n ORDER BY k, v`, `1|0|1;NULL|NULL|1;1|1|1;NULL|NULL|1;NULL|NULL|0`},
	// AggregateFunctionNull: Nullable argument => Nullable result, NULL unless a row was added (count/uniq/groupArray exempt)
	{`SELECT b, anyIf(toFloat64OrNull(b), b = 'x'), sumIf(toFloat64OrNull(b), 1), maxIf(a, b = 'q'), countIf(toFloat64OrNull(b), 1), min(toFloat64OrNull(toString(a))) FROM t GROUP BY b ORDER BY b`, `'x'|NULL|NULL|0|0|1;'y'|NULL|NULL|0|0|2;'z'|NULL|NULL|0|0|4`},
	{`SELECT sumIf(av, isNotNull(av)), avgIf(av, isNotNull(av)), minIf(av, isNotNull(av)), sum(av), avg(av), count(av), groupArray(av) FROM (SELECT b, anyIf(toFloat64OrNull(b), b = 'x') AS av FROM t GROUP BY b)`, `NULL|NULL|NULL|NULL|NULL|0|[]`},
	{`SELECT sum(v), max(v), avg(v), any(v), count(v) FROM (SELECT toFloat64OrNull(b) AS v FROM t)`, `NULL|NULL|NULL|NULL|0`},
	{`SELECT sum(v), avg(v) FROM (SELECT if(a > 2, toFloat64(a), NULL) AS v FROM t)`, `7|3.5`},
	// IN
	{`SELECT a FROM t WHERE a IN (1, 3) ORDER BY a`, `1;3`},
	{`SELECT a FROM t WHERE a IN (SELECT a FROM u) ORDER BY a`, `1;3`},
	{`SELECT a FROM t WHERE a NOT IN (SELECT a FROM u) ORDER BY a`, `2;4`},
	{`WITH s AS (SELECT a FROM u WHERE a > 1) SELECT a FROM t WHERE a IN s ORDER BY a`, `3`},
	{`WITH s AS (SELECT a FROM u WHERE a > 1) SELECT a FROM t WHERE a IN (s) ORDER BY a`, `3`},
	{`SELECT a FROM t WHERE a IN ((SELECT a FROM u WHERE a > 1) as s) ORDER BY a`, `3`},
	{`SELECT a FROM t WHERE (a, b) IN ((1, 'x'), (2, 'zz')) ORDER BY a`, `1`},
	{`SELECT a FROM t WHERE (a, b) IN (SELECT a, 'x' FROM u) ORDER BY a`, `1;3`},
	{`WITH p AS (SELECT a, 'x' AS q FROM u) SELECT a FROM t WHERE (t.a, t.b) IN (p) ORDER BY a`, `1;3`},
	{`SELECT 1 IN (1), 1 IN 1, 'a' IN ('a'), 1 IN [1, 2], 3 IN (1, 2), toDate('2024-03-01') IN ('2024-03-01'), (1, 2) IN (1, 2), (1, 2) IN ((1, 2))`, `1|1|1|1|0|1|1|1`},
	// WITH
	{`WITH 2 AS k SELECT a * k FROM t WHERE a = 3`, `6`},
	{`WITH (SELECT max(a) FROM t) AS m SELECT a FROM t WHERE a = m`, `4`},
	{`WITH x AS (SELECT a FROM t WHERE a > 2), y AS (SELECT a + 10 AS a FROM x) SELECT a FROM y ORDER BY a`, `13;14`},
	{`WITH x AS (SELECT 1 AS v) SELECT v FROM (WITH x AS (SELECT 2 AS v) SELECT v FROM x)`, `2`},
	{`SELECT (SELECT count() FROM t), (SELECT a FROM t WHERE a > 100), (SELECT a, b FROM t WHERE a = 1)`, `4|NULL|(1,'x')`},
	{`SELECT s.a FROM (SELECT a FROM t WHERE a < 3) AS s ORDER BY s.a DESC`, `2;1`},
	// joins
	{`SELECT t.a, u.d FROM t ANY LEFT JOIN u ON t.a = u.a ORDER BY t.a`, `1|'one';2|'';3|'three';4|''`},
	{`SELECT t.a, u.d, u.a FROM t LEFT JOIN u ON t.a = u.a ORDER BY t.a, u.d`, `1|'one'|1;1|'uno'|1;2|''|0;3|'three'|3;4|''|0`},
	{`SELECT t.a, u.d FROM t INNER JOIN u ON (t.a) == (u.a) ORDER BY t.a, u.d`, `1|'one';1|'uno';3|'three'`},
	{`SELECT u.d, t.b FROM u INNER ANY JOIN t ON u.a = t.a ORDER BY u.d`, `'one'|'x';'three'|'x'`},
	{`SELECT t.a, u.d FROM t GLOBAL ANY LEFT  JOIN u ON (t.a) == (u.a) WHERE t.a = 1`, `1|'one'`},
	{`SELECT x.a, y.d FROM (SELECT a FROM t) AS x ANY LEFT JOIN (SELECT a, d FROM u) AS y ON x.a = y.a WHERE y.d != '' ORDER BY x.a`, `1|'one';3|'three'`},
	{`SELECT a, d FROM t JOIN u USING (a) ORDER BY a, d`, `1|'one';1|'uno';3|'three'`},
	{`SELECT count() FROM t, u`, `16`},
	{`SELECT count() FROM t CROSS JOIN u`, `16`},
	{`SELECT t.a FROM t SEMI LEFT JOIN u ON t.a = u.a ORDER BY t.a`, `1;3`},
	{`SELECT t.a FROM t ANTI LEFT JOIN u ON t.a = u.a ORDER BY t.a`, `2;4`},
	{`SELECT m.a, j.m FROM t AS m ANY LEFT JOIN (SELECT a, mapFromArrays(['k'], [d]) AS m FROM u) AS j ON m.a = j.a ORDER BY m.a`, `1|{'k':'one'};2|{};3|{'k':'three'};4|{}`},
	// ARRAY JOIN
	{`SELECT id, x FROM arr ARRAY JOIN xs AS x ORDER BY id, x`, `1|1;1|2;3|7`},
	{`SELECT id, xs FROM arr ARRAY JOIN xs ORDER BY id, xs`, `1|1;1|2;3|7`},
	{`SELECT id, x FROM arr LEFT ARRAY JOIN xs AS x ORDER BY id, x`, `1|1;1|2;2|0;3|7`},
	{`SELECT id, kv.1 AS key, kv.2 AS val FROM arr ARRAY JOIN tags AS kv ORDER BY id, key`, `1|'k1'|'v1';1|'k2'|'v2';3|'k1'|'w'`},
	{`SELECT id, tags.1, tags.2 FROM arr array JOIN tags ORDER BY id, tags.1`, `1|'k1'|'v1';1|'k2'|'v2';3|'k1'|'w'`},
	{`SELECT id, p.1 FROM arr ARRAY JOIN arrayZip(xs, xs) AS p WHERE p.2 > 1 ORDER BY id, p.1`, `1|2;3|7`},
	{`SELECT id, x, length(xs) FROM arr ARRAY JOIN xs AS x HAVING x > 1 ORDER BY id`, `1|2|2;3|7|1`},
	// set operations
	{`SELECT a FROM t WHERE a < 2 UNION ALL SELECT a FROM t WHERE a > 3`, `1;4`},
	{`SELECT a FROM t INTERSECT SELECT a FROM u`, `1;3`},
	{`SELECT a FROM u INTERSECT SELECT a FROM t`, `1;1;3`},
	{`SELECT a FROM t EXCEPT SELECT a FROM u`, `2;4`},
	{`SELECT a FROM (SELECT a FROM t WHERE a = 1 UNION ALL SELECT a FROM t WHERE a = 2) ORDER BY a DESC`, `2;1`},
	{`SELECT count() FROM (SELECT a FROM t UNION ALL SELECT a FROM u)`, `8`},
	{`SELECT a FROM t WHERE a = 1 UNION ALL SELECT a FROM t WHERE a = 2 INTERSECT SELECT a FROM t WHERE a = 2`, `1;2`},
	// aggregate states
	{`SELECT countMerge(cs), argMaxMerge(l), sum(s) FROM (SELECT countState() AS cs, argMaxState(c, a) AS l, sumSimpleState(a) AS s FROM t GROUP BY b) WHERE 1 = 0 OR 1`, `4|0|10`},
	{`SELECT b, countMerge(cs), argMaxMerge(l) FROM (SELECT b, countState() AS cs, argMaxState(c, a) AS l FROM t GROUP BY b, a) GROUP BY b ORDER BY b`, `'x'|2|3.5;'y'|1|2.5;'z'|1|0`},
	// misc syntax
	{`SELECT 1 AS x /* c */ -- tail`, `1`},
	{"SELECT `a`, \"b\" FROM `t` WHERE `t`.`a` = 1", `1|'x'`},
	{`SELECT a FROM db.t WHERE a = 1 FORMAT JSON`, `1`},
	{`SELECT a FROM t WHERE a = 1 SETTINGS max_threads = 1`, `1`},
	{`SELECT number FROM numbers(3)`, `0;1;2`},
	{`select a from t where a=1 or a=2 order by a desc limit 1`, `2`},
	{`SELECT greatest(1, 3, 2), least(2, 1), abs(-3), round(2.5), round(3.5), floor(1.7), ceil(1.2), sqrt(4), pow(2, 3), exp(0), log(1)`, `3|1|3|2|4|1|2|2|8|1|0`},
	// shapes taken from the harvested corpus (metric, TraceQL, PromQL, pyroscope planners)
	{`SELECT b, arraySlice(arraySort(x -> (-x.1, x.2), groupArray((c, a))), 1, 2) AS slice FROM t GROUP BY b ORDER BY b`, `'x'|[(3.5,3),(1.5,1)];'y'|[(2.5,2)];'z'|[(0,4)]`},
	{`WITH par AS (SELECT b, arraySlice(arraySort(x -> (-x.1, x.2), groupArray((c, a))), 1, 1) AS slice FROM t GROUP BY b) SELECT par.b, arr_b.1 AS value, arr_b.2 AS fp FROM par array JOIN par.slice AS arr_b HAVING value > 1 ORDER BY fp`, `'y'|2.5|2;'x'|3.5|3`},
	{`SELECT intDiv(a, 2) * 2 - 1 AS ts, toFloat64(COUNT()) / 2.000000 AS value FROM t GROUP BY ts ORDER BY ts`, `-1|0.5;1|1;3|0.5`},
	{`SELECT b, groupArray(2)(a) AS ids, groupUniqArray(10)(b) FROM t GROUP BY b HAVING (bitAnd(groupBitOr(bitShiftLeft(toUInt64(a > 1), 0) + bitShiftLeft(toUInt64(c > 3), 1)) AS bs, 3)) != (0) ORDER BY max(t.a) DESC`, `'z'|[4]|['z'];'x'|[1,3]|['x'];'y'|[2]|['y']`},
	{`SELECT (arrayFirst(y -> y.1 == 'k2', tags) AS af).2, af.1 FROM arr ORDER BY id`, `'v2'|'k2';''|'';''|''`},
	{`SELECT id, arrayExists(x -> (x.1) == ('k1'), tags) == 1, arrayFilter(x -> x.1 IN ('k2'), tags) FROM arr ORDER BY id`, `1|1|[('k2','v2')];2|0|[];3|1|[]`},
	{`SELECT sum(value.1) / sum(value.2) FROM (SELECT (sum(c), toFloat64(count())) AS value FROM t GROUP BY b)`, `1.875`},
	{`SELECT lower(hex(unhex('0A0B'))) AS h, arrayMap(x -> lower(hex(x)), [unhex('FF')]), toString(toUInt64(1)) || 's'`, `'0a0b'|['ff']|'1s'`},
	{`SELECT a FROM t WHERE (cityHash64(b) % 3) == (cityHash64('x') % 3) AND b = 'x' ORDER BY a`, `1;3`},
	{`SELECT count(distinct a), max(a) FROM t WHERE (a, b) IN (SELECT a, b FROM t WHERE a < 3)`, `2|2`},
	{`SELECT key, val FROM (SELECT 'k' AS key, 'v' AS val UNION ALL SELECT 'k' AS key, 'w' AS val) GROUP BY key, val ORDER BY val`, `'k'|'v';'k'|'w'`},
	{`SELECT DISTINCT key FROM (SELECT 'a' AS key UNION ALL SELECT 'a' AS key UNION ALL SELECT 'b' AS key) ORDER BY key`, `'a';'b'`},
	{`SELECT any(non_empty), (SELECT count() FROM t) AS c FROM (SELECT 1 AS non_empty FROM t LIMIT 1)`, `1|4`},
	{`SELECT min(ts), max(ts), toUnixTimestamp(toDate(intDiv(min(ts), 1000000000))) FROM (SELECT 1709287200000000000 + a AS ts FROM t)`, `1709287200000000001|1709287200000000004|1709251200`},
	{`SELECT a, sum(c) FROM t GROUP BY a, b HAVING a IN (1, 2) ORDER BY a`, `1|1.5;2|2.5`},
	{`SELECT mapFilter((k, v) -> k IN ('a'), mapFromArrays(arrayMap(x -> x.1, JSONExtractKeysAndValues('{"a":"1","b":"2"}', 'String') AS rawlbls), arrayMap(x -> x.2, rawlbls))) AS labels, cityHash64(labels) = cityHash64(mapFromArrays(['a'], ['1']))`, `{'a':'1'}|1`},
	{`SELECT cityHash64(arraySort(arrayZip(mapKeys(m), mapValues(m)))) = cityHash64(arraySort(arrayZip(['b', 'a'], ['2', '1']))) FROM (SELECT mapFromArrays(['a', 'b'], ['1', '2']) AS m)`, `1`},
	{`SELECT toFloat64OrZero('1.5') > -1.500000, toFloat64OrZero('x'), isNotNull(toFloat64OrNull('7')) == 1, toFloat64(1) == 1`, `1|0|1|1`},
	{`SELECT quantile(0.990000)(c), stddevPop(c), varPop(c), stddevSamp(a), varSamp(a) FROM t WHERE a < 3`, `2.49|0.5|0.25|0.7071067811865476|0.5`},
	{`SELECT a FROM t WHERE toDate('2024-03-01') >= toDate('2024-03-01') AND toDate('2024-03-01') <= toDate('2024-03-02') AND a = 1`, `1`},
	{`SELECT argMax(b, a), argMin(b, a), argMax((a, b), c).2, any(b), anyLast(b) FROM t`, `'z'|'x'|'x'|'x'|'z'`},
	{`SELECT a FROM t ORDER BY c DESC, a LIMIT 2`, `3;2`},
	{`SELECT x, count() FROM (SELECT a % 2 AS x FROM t) GROUP BY x ORDER BY x DESC`, `1|2;0|2`},
	{`SELECT sumIf(c, b = 'x'), avgIf(c, b = 'x'), minIf(c, c > 2), maxIf(c, c < 2), countIf(b = 'x'), anyIf(b, a = 2) FROM t`, `5|2.5|2.5|1.5|2|'y'`},
	{`SELECT splitByChar(':', 'cpu:nanoseconds')[1] AS t1, splitByChar(':', 'cpu:nanoseconds')[2], concatWithSeparator(':', 'a', 'b') AS ty, arrayStringConcat(arrayMap(x -> x.1 || ':' || x.2, arraySort([('s', 'c'), ('c', 'n')])), ';')`, `'cpu'|'nanoseconds'|'a:b'|'c:n;s:c'`},
	{`SELECT arrayConcat(tags, [('service_name', 'svc')]) FROM arr WHERE id = 3`, `[('k1','w'),('service_name','svc')]`},
	{`SELECT a, b FROM t WHERE b NOT IN ('x') AND a NOT IN (SELECT a FROM u) ORDER BY a`, `2|'y';4|'z'`},
	{`SELECT k, v IS NULL, ifNull(v, -1), coalesce(v, 0) + 1, assumeNotNull(v) FROM n WHERE k = 'a' ORDER BY v`, `'a'|0|1|2|1;'a'|1|-1|1|0`},
	{`SELECT 1 WHERE NULL`, ``},
	{`SELECT count() FROM t WHERE NOT (a > 2)`, `2`},
	{`SELECT a FROM t WHERE a > 1 AND (b = 'x' OR b = 'z') ORDER BY a`, `3;4`},
	{`SELECT tupleElement(p, 1), p.2 FROM (SELECT (a, b) AS p FROM t WHERE a = 2)`, `2|'y'`},
	{`SELECT arrayMap(x -> (x, arrayMap(y -> y + x, [10, 20])), [1, 2])`, `[(1,[11,21]),(2,[12,22])]`},
	{`SELECT arrayMap(x -> x + a, [1, 2]) FROM t WHERE a = 3`, `[4,5]`},
	{`SELECT length(groupArray(a)), arraySum(groupArray(a)) FROM t`, `4|10`},
	{`SELECT t.a, u.d FROM t ANY LEFT JOIN u ON t.a = u.a WHERE u.d = '' ORDER BY t.a`, `2|'';4|''`},
	{`SELECT s1.a FROM t AS s1 INNER ANY JOIN (SELECT a FROM u) AS s2 ON s1.a = s2.a ORDER BY s1.a`, `1;3`},
	{`SELECT a FROM (SELECT a FROM t ORDER BY a DESC LIMIT 3) ORDER BY a LIMIT 1`, `2`},
	{`SELECT toStartOfDay(toDateTime(1709287200)), toDate(toDateTime(1709287200)), FROM_UNIXTIME(intDiv(1709287200000000000, 1000000000))`, `'2024-03-01 00:00:00'|'2024-03-01'|'2024-03-01 10:00:00'`},
	// extractAllGroups*: groups numbered by opening parenthesis like RE2 (unnamed ones count, non-capturing ones do not);
	// a quantified group reports its last iteration; a group that did not participate is ''
	{`SELECT extractAllGroupsHorizontal('n1:g2aa g3bb', '(n1:(g2[a-z]+)) (g3[a-z]+)'), extractAllGroupsHorizontal('g1aa g2bb', '(?:g1[a-z]+) (g2[a-z]+)'), extractAllGroupsHorizontal('n1:g2a;g2b;', '(n1:(g2[a-z]+;){2})'), extractAllGroupsHorizontal('<g2bb>', '(g1[a-z]+)|(g2[a-z]+)'), extractAllGroupsHorizontal('ab', '(?i)(A)(?:b)')`, `[['n1:g2aa'],['g2aa'],['g3bb']]|[['g2bb']]|[['n1:g2a;g2b;'],['g2b;']]|[[''],['g2bb']]|[['a']]`},
	{`SELECT toDate('2024-03-01') + INTERVAL '1 day', toDate('2024-03-01') - INTERVAL 1 DAY, toDateTime('2024-03-01 00:00:00') + INTERVAL 1 HOUR`, `'2024-03-02'|'2024-02-29'|'2024-03-01 01:00:00'`},
}

func TestMicroQueries(t *testing.T) {
	db := testDB()
	for _, c := range microQueries {
		res, err := db.Query(c.sql)
		if err != nil {
			t.Errorf("%s\n   error: %v", c.sql, err)
			continue
		}
		if got := render(res); got != c.want {
			t.Errorf("%s\n   got:  %s\n   want: %s", c.sql, got, c.want)
		}
	}
	t.Logf("%d micro queries", len(microQueries))
}

var errorQueries = []struct {
	sql  string
	kind string // "syntax", "unsupported", or a ClickHouse error code
}{
	{`SELECT a, count() FROM t`, "NOT_AN_AGGREGATE"},
	{`SELECT b, a FROM t GROUP BY b`, "NOT_AN_AGGREGATE"},
	{`SELECT key FROM (SELECT 'k' AS key, 1 AS trace_id, 2 AS span_id) GROUP BY trace_id, span_id`, "NOT_AN_AGGREGATE"},
	{`SELECT zz FROM t`, "UNKNOWN_IDENTIFIER"},
	{`SELECT a FROM nope`, "UNKNOWN_TABLE"},
	{`SELECT a FROM t WHERE sum(a) > 1`, "ILLEGAL_AGGREGATION"},
	{`SELECT sum(count()) FROM t`, "ILLEGAL_AGGREGATION"},
	{`SELECT intDiv(1, 0)`, "ILLEGAL_DIVISION"},
	{`SELECT match('a', '(')`, "CANNOT_COMPILE_REGEXP"},
	{`SELECT extractAllGroupsHorizontal('a', 'a')`, "BAD_ARGUMENTS"},
	{`SELECT [1, 2][0]`, "ZERO_ARRAY_OR_TUPLE_INDEX"},
	{`SELECT 1 AS x, 2 AS x`, "MULTIPLE_EXPRESSIONS_FOR_ALIAS"},
	{`SELECT a FROM t WHERE b`, "ILLEGAL_TYPE_OF_COLUMN_FOR_FILTER"},
	{`SELECT 'a' = 1`, "NO_COMMON_TYPE"},
	{`SELECT (SELECT a FROM t)`, "INCORRECT_RESULT_OF_SCALAR_SUBQUERY"},
	{`SELECT mapFromArrays(['a'], ['b', 'c'])`, "SIZES_OF_ARRAYS_DONT_MATCH"},
	{`SELECT arrayFirst(x -> x.1 == 'a')`, "NUMBER_OF_ARGUMENTS_DOESNT_MATCH"},
	{`SELECT like('a', 'a\\')`, "CANNOT_PARSE_ESCAPE_SEQUENCE"},
	{`SELECT 1 WHERE (1) and ()`, "syntax"},
	{`SELECT !(1)`, "syntax"},
	{`SELECT 1,`, "syntax"},
	{`SELECT format('x', )`, "syntax"},
	{`SELECT 1 FROM t SETTINGS a=1 b=2`, "syntax"},
	{`SELECT 1 UNION SELECT 2`, "syntax"},
	{`SELECT a FROM t WHERE`, "syntax"},
	{`SELECT 'abc`, "syntax"},
	{`SELECT 1 1`, "syntax"},
	{`SELECT now()`, "unsupported"},
	{`SELECT someFunctionChsimNeverHeardOf(1)`, "unsupported"},
	{`SELECT a, row_number() OVER (ORDER BY a) FROM t`, "unsupported"},
	{`SELECT a FROM t GROUP BY a WITH TOTALS`, "unsupported"},
	{`SELECT JSONExtractString('{"a":1}', 'a')`, "unsupported"},
	{`SHOW TABLES`, "unsupported"},
}

func TestErrorClasses(t *testing.T) {
	db := testDB()
	for _, c := range errorQueries {
		_, err := db.Query(c.sql)
		if err == nil {
			t.Errorf("%s: expected %s error, got none", c.sql, c.kind)
			continue
		}
		var se *SyntaxError
		var ee *EvalError
		switch c.kind {
		case "syntax":
			if !errors.As(err, &se) {
				t.Errorf("%s: want syntax error, got %v", c.sql, err)
			}
		case "unsupported":
			if !errors.Is(err, ErrUnsupported) {
				t.Errorf("%s: want ErrUnsupported, got %v", c.sql, err)
			}
		default:
			if !errors.As(err, &ee) || ee.Code != c.kind {
				t.Errorf("%s: want %s, got %v", c.sql, c.kind, err)
			}
			if !errors.Is(err, ErrClickHouse) {
				t.Errorf("%s: EvalError must wrap ErrClickHouse", c.sql)
			}
		}
	}
}

func TestScans(t *testing.T) {
	db := testDB()
	res, err := db.Query(`WITH s AS (SELECT a FROM u WHERE a > 1) SELECT t.a FROM t ANY LEFT JOIN u ON t.a = u.a WHERE t.a IN (s) AND t.a < 4`)
	if err != nil {
		t.Fatal(err)
	}
	got := ""
	for _, s := range res.Scans {
		got += s.Table + ":" + Format(int64(s.Offered)) + "/" + Format(int64(s.Admitted)) + " "
	}
	// scan order: FROM t, JOIN u, then the CTE's scan of u (evaluated when WHERE is bound)
	if want := "t:4/1 u:4/1 u:4/2 "; got != want {
		t.Errorf("scans: got %q want %q", got, want)
	}
}

func TestReverseTies(t *testing.T) {
	db := testDB()
	r1, _ := db.Query(`SELECT a FROM t ORDER BY b LIMIT 1`)
	db.ReverseTies = true
	r2, _ := db.Query(`SELECT a FROM t ORDER BY b LIMIT 1`)
	if render(r1) != "1" || render(r2) != "3" {
		t.Errorf("tie order: %s / %s", render(r1), render(r2))
	}
}
