package chsim

import (
	"math"
	"strings"
)

// scalarFn describes one ordinary (non-aggregate) function.
type scalarFn struct {
	name      string
	min, max  int  // argument count bounds (max -1 = unbounded)
	nullAware bool // false: any NULL argument yields NULL without calling eval
	higher    bool // accepts lambda arguments
	volatile  bool // not constant-folded
	eval      func(c *callCtx, args []Value) (Value, error)
	lazy      func(ctx *evalCtx, n *bnode) (Value, error) // special forms (if, and, or, multiIf)
	ret       func(ts []*Type, args []*bnode) *Type
	check     func(args []*bnode) error // bind-time validation
}

var scalarFns = map[string]*scalarFn{}
var scalarFnsLower = map[string]*scalarFn{}

// names that ClickHouse resolves case-insensitively
var caseInsensitiveFns = map[string]bool{}

func reg(f *scalarFn, aliases ...string) {
	scalarFns[f.name] = f
	for _, a := range aliases {
		scalarFns[a] = f
	}
}

func regCI(names ...string) {
	for _, n := range names {
		caseInsensitiveFns[strings.ToLower(n)] = true
	}
}

func lookupScalar(name string) *scalarFn {
	if f, ok := scalarFns[name]; ok {
		return f
	}
	l := strings.ToLower(name)
	if caseInsensitiveFns[l] {
		if f, ok := scalarFnsLower[l]; ok {
			return f
		}
	}
	return nil
}

func knownButUnsupported(name string) bool { return false }

func retConst(t *Type) func([]*Type, []*bnode) *Type {
	return func([]*Type, []*bnode) *Type { return t }
}
func retArg(i int) func([]*Type, []*bnode) *Type {
	return func(ts []*Type, _ []*bnode) *Type {
		if i < len(ts) {
			return ts[i]
		}
		return nil
	}
}

func typeErr(fn string, v Value) error {
	return evalErrorf("ILLEGAL_TYPE_OF_ARGUMENT", "illegal type %s of argument of function %s", typeNameOf(v), fn)
}

func init() {
	registerCore()
	registerStrings()
	registerArrays()
	registerJSON()
	registerDates()
	for name, f := range scalarFns {
		scalarFnsLower[strings.ToLower(name)] = f
	}
	regCI("length", "lower", "upper", "concat", "substring", "substr", "coalesce", "ifNull", "nullIf", "floor", "ceil", "ceiling",
		"round", "abs", "now", "today", "if", "least", "greatest", "replace", "trim", "hex", "unhex", "mod", "pow", "power", "sqrt", "exp", "ln",
		"log", "log2", "log10", "position", "lcase", "ucase", "mid", "tuple", "format", "char_length", "character_length",
		"max2", "min2", "isNull", "isNotNull", "sign", "rand", "date", "toDate", "left", "right", "ltrim", "rtrim", "reverse", "locate", "yesterday",
		"FROM_UNIXTIME", "trunc", "truncate")
}

// ---------------------------------------------------------------------------------------------------------
// core: comparison, logic, arithmetic, conditionals, conversion

func cmpFn(name string, pred func(c int) bool) *scalarFn {
	return &scalarFn{name: name, min: 2, max: 2, ret: func(ts []*Type, _ []*bnode) *Type {
		for _, t := range ts {
			if t != nil && t.Name == "Nullable" {
				return tNullable(tUInt8)
			}
		}
		return tUInt8
	}, eval: func(_ *callCtx, a []Value) (Value, error) {
		// tuples with NULL elements: treat as NULL comparison result only at top level (not modelled deeper)
		c, ok := compareValues(a[0], a[1])
		if !ok {
			return nil, evalErrorf("NO_COMMON_TYPE", "cannot compare %s with %s (function %s)", typeNameOf(a[0]), typeNameOf(a[1]), name)
		}
		if c == 2 { // NaN involved
			return boolVal(name == "notEquals"), nil
		}
		return boolVal(pred(c)), nil
	}}
}

func registerCore() {
	reg(cmpFn("equals", func(c int) bool { return c == 0 }))
	reg(cmpFn("notEquals", func(c int) bool { return c != 0 }))
	reg(cmpFn("less", func(c int) bool { return c < 0 }))
	reg(cmpFn("greater", func(c int) bool { return c > 0 }))
	reg(cmpFn("lessOrEquals", func(c int) bool { return c <= 0 }))
	reg(cmpFn("greaterOrEquals", func(c int) bool { return c >= 0 }))

	// three-valued logic, lazily evaluated (short_circuit_function_evaluation=enable)
	reg(&scalarFn{name: "and", min: 1, max: -1, nullAware: true, ret: logicRet, lazy: func(ctx *evalCtx, n *bnode) (Value, error) {
		sawNull := false
		for _, a := range n.args {
			v, err := a.eval(ctx)
			if err != nil {
				return nil, err
			}
			t, null, err := truth(v)
			if err != nil {
				return nil, err
			}
			if null {
				sawNull = true
				continue
			}
			if !t {
				return uint64(0), nil
			}
		}
		if sawNull {
			return nil, nil
		}
		return uint64(1), nil
	}})
	reg(&scalarFn{name: "or", min: 1, max: -1, nullAware: true, ret: logicRet, lazy: func(ctx *evalCtx, n *bnode) (Value, error) {
		sawNull := false
		for _, a := range n.args {
			v, err := a.eval(ctx)
			if err != nil {
				return nil, err
			}
			t, null, err := truth(v)
			if err != nil {
				return nil, err
			}
			if null {
				sawNull = true
				continue
			}
			if t {
				return uint64(1), nil
			}
		}
		if sawNull {
			return nil, nil
		}
		return uint64(0), nil
	}})
	reg(&scalarFn{name: "not", min: 1, max: 1, ret: logicRet, eval: func(_ *callCtx, a []Value) (Value, error) {
		t, _, err := truth(a[0])
		if err != nil {
			return nil, err
		}
		return boolVal(!t), nil
	}})
	reg(&scalarFn{name: "xor", min: 2, max: 2, ret: logicRet, eval: func(_ *callCtx, a []Value) (Value, error) {
		x, _, err := truth(a[0])
		if err != nil {
			return nil, err
		}
		y, _, err := truth(a[1])
		if err != nil {
			return nil, err
		}
		return boolVal(x != y), nil
	}})

	reg(&scalarFn{name: "if", min: 3, max: 3, nullAware: true, ret: func(ts []*Type, _ []*bnode) *Type { return unifyTypes(ts[1], ts[2]) },
		lazy: func(ctx *evalCtx, n *bnode) (Value, error) {
			c, err := n.args[0].eval(ctx)
			if err != nil {
				return nil, err
			}
			t, _, err := truth(c)
			if err != nil {
				return nil, err
			}
			var v Value
			if t {
				v, err = n.args[1].eval(ctx)
			} else {
				v, err = n.args[2].eval(ctx)
			}
			if err != nil {
				return nil, err
			}
			return promoteToCommon(v, n.typ), nil
		}})
	reg(&scalarFn{name: "multiIf", min: 3, max: -1, nullAware: true, ret: func(ts []*Type, _ []*bnode) *Type {
		t := ts[len(ts)-1]
		for i := 1; i < len(ts)-1; i += 2 {
			t = unifyTypes(t, ts[i])
		}
		return t
	}, check: func(args []*bnode) error {
		if len(args)%2 == 0 {
			return evalErrorf("NUMBER_OF_ARGUMENTS_DOESNT_MATCH", "multiIf needs an odd number of arguments")
		}
		return nil
	}, lazy: func(ctx *evalCtx, n *bnode) (Value, error) {
		for i := 0; i+1 < len(n.args); i += 2 {
			c, err := n.args[i].eval(ctx)
			if err != nil {
				return nil, err
			}
			t, _, err := truth(c)
			if err != nil {
				return nil, err
			}
			if t {
				v, err := n.args[i+1].eval(ctx)
				return promoteToCommon(v, n.typ), err
			}
		}
		v, err := n.args[len(n.args)-1].eval(ctx)
		return promoteToCommon(v, n.typ), err
	}})

	reg(&scalarFn{name: "isNull", min: 1, max: 1, nullAware: true, ret: retConst(tUInt8), eval: func(_ *callCtx, a []Value) (Value, error) {
		return boolVal(a[0] == nil), nil
	}})
	reg(&scalarFn{name: "isNotNull", min: 1, max: 1, nullAware: true, ret: retConst(tUInt8), eval: func(_ *callCtx, a []Value) (Value, error) {
		return boolVal(a[0] != nil), nil
	}})
	reg(&scalarFn{name: "ifNull", min: 2, max: 2, nullAware: true, ret: retArg(1), eval: func(_ *callCtx, a []Value) (Value, error) {
		if a[0] == nil {
			return a[1], nil
		}
		return a[0], nil
	}})
	reg(&scalarFn{name: "coalesce", min: 1, max: -1, nullAware: true, eval: func(_ *callCtx, a []Value) (Value, error) {
		for _, v := range a {
			if v != nil {
				return v, nil
			}
		}
		return nil, nil
	}})
	reg(&scalarFn{name: "nullIf", min: 2, max: 2, nullAware: true, eval: func(_ *callCtx, a []Value) (Value, error) {
		if a[0] == nil || a[1] == nil {
			return a[0], nil
		}
		c, ok := compareValues(a[0], a[1])
		if !ok {
			return nil, evalErrorf("NO_COMMON_TYPE", "nullIf of incomparable values")
		}
		if c == 0 {
			return nil, nil
		}
		return a[0], nil
	}})
	reg(&scalarFn{name: "assumeNotNull", min: 1, max: 1, nullAware: true, eval: func(c *callCtx, a []Value) (Value, error) {
		if a[0] == nil {
			t := c.node.args[0].typ
			if t != nil && t.Name == "Nullable" {
				return t.Args[0].DefaultValue()
			}
			return nil, unsupportedf("assumeNotNull(NULL) of unknown type")
		}
		return a[0], nil
	}, ret: func(ts []*Type, _ []*bnode) *Type {
		if ts[0] != nil && ts[0].Name == "Nullable" {
			return ts[0].Args[0]
		}
		return ts[0]
	}})
	reg(&scalarFn{name: "toNullable", min: 1, max: 1, nullAware: true, ret: func(ts []*Type, _ []*bnode) *Type { return tNullable(ts[0]) },
		eval: func(_ *callCtx, a []Value) (Value, error) { return a[0], nil }})

	// arithmetic
	reg(&scalarFn{name: "plus", min: 2, max: 2, ret: arithRet("plus"), eval: func(_ *callCtx, a []Value) (Value, error) { return arith("plus", a[0], a[1]) }})
	reg(&scalarFn{name: "minus", min: 2, max: 2, ret: arithRet("minus"), eval: func(_ *callCtx, a []Value) (Value, error) { return arith("minus", a[0], a[1]) }})
	reg(&scalarFn{name: "multiply", min: 2, max: 2, ret: arithRet("multiply"), eval: func(_ *callCtx, a []Value) (Value, error) { return arith("multiply", a[0], a[1]) }})
	reg(&scalarFn{name: "divide", min: 2, max: 2, ret: retConst(tFloat64), eval: func(_ *callCtx, a []Value) (Value, error) {
		x, ok1 := toFloat(a[0])
		y, ok2 := toFloat(a[1])
		if !ok1 || !ok2 {
			return nil, evalErrorf("ILLEGAL_TYPE_OF_ARGUMENT", "divide(%s, %s)", typeNameOf(a[0]), typeNameOf(a[1]))
		}
		return x / y, nil
	}})
	reg(&scalarFn{name: "intDiv", min: 2, max: 2, ret: arithRet("intDiv"), eval: func(_ *callCtx, a []Value) (Value, error) { return arith("intDiv", a[0], a[1]) }})
	reg(&scalarFn{name: "intDivOrZero", min: 2, max: 2, ret: arithRet("intDiv"), eval: func(_ *callCtx, a []Value) (Value, error) { return arith("intDivOrZero", a[0], a[1]) }})
	reg(&scalarFn{name: "modulo", min: 2, max: 2, ret: arithRet("modulo"), eval: func(_ *callCtx, a []Value) (Value, error) { return arith("modulo", a[0], a[1]) }}, "mod")
	reg(&scalarFn{name: "negate", min: 1, max: 1, eval: func(_ *callCtx, a []Value) (Value, error) {
		switch x := a[0].(type) {
		case int64:
			return -x, nil
		case uint64:
			return -int64(x), nil
		case float64:
			return -x, nil
		}
		return nil, typeErr("negate", a[0])
	}, ret: func(ts []*Type, _ []*bnode) *Type {
		if ts[0].isFloat() {
			return tFloat64
		}
		if ts[0].isInt() || ts[0].isUInt() {
			return tInt64
		}
		return nil
	}})
	reg(&scalarFn{name: "abs", min: 1, max: 1, eval: func(_ *callCtx, a []Value) (Value, error) {
		switch x := a[0].(type) {
		case int64:
			if x < 0 {
				return uint64(-x), nil
			}
			return uint64(x), nil
		case uint64:
			return x, nil
		case float64:
			return math.Abs(x), nil
		}
		return nil, typeErr("abs", a[0])
	}})
	mathFn := func(name string, f func(float64) float64) {
		reg(&scalarFn{name: name, min: 1, max: 1, ret: retConst(tFloat64), eval: func(_ *callCtx, a []Value) (Value, error) {
			x, ok := toFloat(a[0])
			if !ok {
				return nil, typeErr(name, a[0])
			}
			return f(x), nil
		}})
	}
	mathFn("sqrt", math.Sqrt)
	mathFn("exp", math.Exp)
	mathFn("log", math.Log)
	scalarFns["ln"] = scalarFns["log"]
	mathFn("log2", math.Log2)
	mathFn("log10", math.Log10)
	reg(&scalarFn{name: "pow", min: 2, max: 2, ret: retConst(tFloat64), eval: func(_ *callCtx, a []Value) (Value, error) {
		x, ok1 := toFloat(a[0])
		y, ok2 := toFloat(a[1])
		if !ok1 || !ok2 {
			return nil, typeErr("pow", a[0])
		}
		return math.Pow(x, y), nil
	}}, "power")
	roundFn := func(name string, f func(float64) float64) {
		reg(&scalarFn{name: name, min: 1, max: 2, ret: retArg(0), eval: func(_ *callCtx, a []Value) (Value, error) {
			if len(a) == 2 {
				if n, ok := a[1].(uint64); !ok || n != 0 {
					if f0, isF := a[0].(float64); isF {
						nn, ok := toFloat(a[1])
						if !ok {
							return nil, typeErr(name, a[1])
						}
						p := math.Pow(10, nn)
						return f(f0*p) / p, nil
					}
					return nil, unsupportedf("%s with a precision argument on integers", name)
				}
			}
			switch x := a[0].(type) {
			case int64, uint64:
				return x, nil
			case float64:
				return f(x), nil
			}
			return nil, typeErr(name, a[0])
		}})
	}
	roundFn("floor", math.Floor)
	roundFn("ceil", math.Ceil)
	scalarFns["ceiling"] = scalarFns["ceil"]
	roundFn("round", math.RoundToEven) // ClickHouse rounds half to even for Float
	roundFn("trunc", math.Trunc)
	scalarFns["truncate"] = scalarFns["trunc"]

	minmax2 := func(name string, sign int) {
		reg(&scalarFn{name: name, min: 2, max: -1, eval: func(_ *callCtx, a []Value) (Value, error) {
			best := a[0]
			for _, v := range a[1:] {
				c, ok := compareValues(v, best)
				if !ok {
					return nil, evalErrorf("NO_COMMON_TYPE", "%s of incomparable values", name)
				}
				if c != 2 && c*sign > 0 {
					best = v
				}
			}
			return best, nil
		}})
	}
	minmax2("least", -1)
	minmax2("greatest", 1)

	// bit functions
	bit2 := func(name string, f func(a, b uint64) uint64) {
		reg(&scalarFn{name: name, min: 2, max: 2, ret: retArg(0), eval: func(_ *callCtx, a []Value) (Value, error) {
			x, xs, ok1 := intBits(a[0])
			y, _, ok2 := intBits(a[1])
			if !ok1 || !ok2 {
				return nil, evalErrorf("ILLEGAL_TYPE_OF_ARGUMENT", "%s(%s, %s)", name, typeNameOf(a[0]), typeNameOf(a[1]))
			}
			r := f(x, y)
			if xs {
				return int64(r), nil
			}
			return r, nil
		}})
	}
	bit2("bitAnd", func(a, b uint64) uint64 { return a & b })
	bit2("bitOr", func(a, b uint64) uint64 { return a | b })
	bit2("bitXor", func(a, b uint64) uint64 { return a ^ b })
	// NOTE: ClickHouse keeps the width of the first argument (bitShiftLeft(UInt8, 8) = 0); chsim shifts in 64 bit.
	bit2("bitShiftLeft", func(a, b uint64) uint64 {
		if b >= 64 {
			return 0
		}
		return a << b
	})
	bit2("bitShiftRight", func(a, b uint64) uint64 {
		if b >= 64 {
			return 0
		}
		return a >> b
	})
	reg(&scalarFn{name: "bitNot", min: 1, max: 1, eval: func(_ *callCtx, a []Value) (Value, error) {
		return nil, unsupportedf("bitNot (result depends on the integer width, which chsim does not model)")
	}})

	// conversions
	conv := func(name string, t *Type) {
		reg(&scalarFn{name: name, min: 1, max: 2, ret: retConst(t), eval: func(_ *callCtx, a []Value) (Value, error) {
			return castValue(a[0], t)
		}})
		reg(&scalarFn{name: name + "OrNull", min: 1, max: 1, ret: retConst(tNullable(t)), eval: func(_ *callCtx, a []Value) (Value, error) {
			s, ok := a[0].(string)
			if !ok {
				return nil, evalErrorf("ILLEGAL_TYPE_OF_ARGUMENT", "%sOrNull needs a String argument, got %s", name, typeNameOf(a[0]))
			}
			v, err := castValue(s, t)
			if err != nil {
				if isUnsupported(err) {
					return nil, err
				}
				return nil, nil
			}
			return v, nil
		}})
		reg(&scalarFn{name: name + "OrZero", min: 1, max: 1, ret: retConst(t), eval: func(_ *callCtx, a []Value) (Value, error) {
			s, ok := a[0].(string)
			if !ok {
				return nil, evalErrorf("ILLEGAL_TYPE_OF_ARGUMENT", "%sOrZero needs a String argument, got %s", name, typeNameOf(a[0]))
			}
			v, err := castValue(s, t)
			if err != nil {
				if isUnsupported(err) {
					return nil, err
				}
				return t.DefaultValue()
			}
			return v, nil
		}})
		reg(&scalarFn{name: name + "OrDefault", min: 1, max: 2, ret: retConst(t), eval: func(_ *callCtx, a []Value) (Value, error) {
			v, err := castValue(a[0], t)
			if err != nil {
				if isUnsupported(err) {
					return nil, err
				}
				if len(a) == 2 {
					return castValue(a[1], t)
				}
				return t.DefaultValue()
			}
			return v, nil
		}})
	}
	for _, n := range []string{"Int8", "Int16", "Int32", "Int64", "UInt8", "UInt16", "UInt32", "UInt64", "Float32", "Float64"} {
		conv("to"+n, &Type{Name: n})
	}
	conv("toDate", tDate)
	conv("toDateTime", &Type{Name: "DateTime"})
	reg(&scalarFn{name: "toString", min: 1, max: 2, ret: retConst(tString), eval: func(_ *callCtx, a []Value) (Value, error) {
		if _, isState := a[0].(*AggState); isState {
			return nil, unsupportedf("toString of an aggregate state")
		}
		return ToString(a[0]), nil
	}})
	reg(&scalarFn{name: "toFixedString", min: 2, max: 2, eval: func(_ *callCtx, a []Value) (Value, error) {
		n, ok := a[1].(uint64)
		if !ok {
			return nil, typeErr("toFixedString", a[1])
		}
		return castValue(a[0], &Type{Name: "FixedString", N: int(n)})
	}})
	reg(&scalarFn{name: "toTypeName", min: 1, max: 1, nullAware: true, eval: func(c *callCtx, a []Value) (Value, error) {
		return nil, unsupportedf("toTypeName (chsim does not track exact types)")
	}})
	reg(&scalarFn{name: "CAST", min: 2, max: 2, eval: func(_ *callCtx, a []Value) (Value, error) {
		s, ok := a[1].(string)
		if !ok {
			return nil, typeErr("CAST", a[1])
		}
		t, err := ParseType(s)
		if err != nil {
			return nil, err
		}
		return castValue(a[0], t)
	}}, "_CAST", "accurateCast")

	reg(&scalarFn{name: "tuple", min: 1, max: -1, nullAware: true, ret: func(ts []*Type, _ []*bnode) *Type { return tTuple(ts...) },
		eval: func(_ *callCtx, a []Value) (Value, error) { return Tuple(append([]Value{}, a...)), nil }})
	reg(&scalarFn{name: "tupleElement", min: 2, max: 3, nullAware: true, ret: func(ts []*Type, args []*bnode) *Type {
		if ts[0] != nil && ts[0].Name == "Tuple" && args[1].kind == bConst {
			if u, ok := args[1].val.(uint64); ok && u >= 1 && int(u) <= len(ts[0].Args) {
				return ts[0].Args[u-1]
			}
		}
		return nil
	}, eval: func(_ *callCtx, a []Value) (Value, error) {
		if a[0] == nil {
			return nil, nil
		}
		t, ok := a[0].(Tuple)
		if !ok {
			return nil, typeErr("tupleElement", a[0])
		}
		var i int64
		switch x := a[1].(type) {
		case uint64:
			i = int64(x)
		case int64:
			i = x
			if i < 0 {
				i = int64(len(t)) + i + 1
			}
		case string:
			return nil, unsupportedf("tupleElement by name")
		default:
			return nil, typeErr("tupleElement", a[1])
		}
		if i < 1 || int(i) > len(t) {
			if len(a) == 3 {
				return a[2], nil
			}
			return nil, evalErrorf("ARGUMENT_OUT_OF_BOUND", "tuple index %d out of range (size %d)", i, len(t))
		}
		return t[i-1], nil
	}})
	reg(&scalarFn{name: "identity", min: 1, max: 1, nullAware: true, ret: retArg(0), eval: func(_ *callCtx, a []Value) (Value, error) { return a[0], nil }},
		"materialize", "ignoreExceptNull")
	reg(&scalarFn{name: "cityHash64", min: 1, max: -1, nullAware: true, ret: retConst(tUInt64), eval: func(_ *callCtx, a []Value) (Value, error) {
		return cityHash64Of(a)
	}})
}

func logicRet(ts []*Type, _ []*bnode) *Type {
	for _, t := range ts {
		if t == nil || t.Name == "Nullable" {
			return tNullable(tUInt8)
		}
	}
	return tUInt8
}

// promoteToCommon converts a branch value to the common result type of if/multiIf (UInt64 vs Float64 branches
// give Float64; anything vs NULL stays).
func promoteToCommon(v Value, t *Type) Value {
	if v == nil || t == nil {
		return v
	}
	base := t
	if base.Name == "Nullable" {
		base = base.Args[0]
	}
	switch {
	case base.isFloat():
		if f, ok := toFloat(v); ok {
			return f
		}
	case base.isInt():
		if u, ok := v.(uint64); ok {
			return int64(u)
		}
	}
	return v
}

func intBits(v Value) (bits uint64, signed bool, ok bool) {
	switch x := v.(type) {
	case uint64:
		return x, false, true
	case int64:
		return uint64(x), true, true
	}
	return 0, false, false
}

func arithRet(op string) func([]*Type, []*bnode) *Type {
	return func(ts []*Type, _ []*bnode) *Type {
		a, b := ts[0], ts[1]
		if a == nil || b == nil {
			return nil
		}
		if a.Name == "Nullable" || b.Name == "Nullable" {
			return nil
		}
		num := func(t *Type) bool { return t.isInt() || t.isUInt() || t.isFloat() }
		if !num(a) || !num(b) {
			if (a.Name == "Date" || a.Name == "DateTime") && num(b) && (op == "plus" || op == "minus") {
				return a
			}
			return nil
		}
		if op != "intDiv" && op != "modulo" && (a.isFloat() || b.isFloat()) {
			return tFloat64
		}
		if op == "intDiv" || op == "modulo" {
			if a.isFloat() || b.isFloat() {
				if op == "modulo" {
					return tFloat64
				}
				return tInt64
			}
			if op == "intDiv" {
				if a.isInt() || b.isInt() {
					return tInt64
				}
				return tUInt64
			}
			if a.isInt() || b.isInt() {
				return tInt64
			}
			return tUInt64
		}
		if op == "minus" || a.isInt() || b.isInt() {
			return tInt64
		}
		return tUInt64
	}
}

// arith implements plus/minus/multiply/intDiv/modulo with ClickHouse's result signedness (64-bit wrap-around).
func arith(op string, a, b Value) (Value, error) {
	if iv, ok := b.(Interval); ok && (op == "plus" || op == "minus") {
		sign := int64(1)
		if op == "minus" {
			sign = -1
		}
		return addInterval(a, iv, sign)
	}
	if iv, ok := a.(Interval); ok && op == "plus" {
		return addInterval(b, iv, 1)
	}
	// Date/DateTime ± number
	switch x := a.(type) {
	case Date:
		if n, ok := b.(uint64); ok && (op == "plus" || op == "minus") {
			if op == "plus" {
				return Date(int64(x) + int64(n)), nil
			}
			return Date(int64(x) - int64(n)), nil
		}
		if n, ok := b.(int64); ok && (op == "plus" || op == "minus") {
			if op == "plus" {
				return Date(int64(x) + n), nil
			}
			return Date(int64(x) - n), nil
		}
		if y, ok := b.(Date); ok && op == "minus" {
			return int64(x) - int64(y), nil
		}
		return nil, unsupportedf("%s(Date, %s)", op, typeNameOf(b))
	case DateTime:
		if n, ok := b.(uint64); ok && (op == "plus" || op == "minus") {
			if op == "plus" {
				return DateTime(int64(x) + int64(n)), nil
			}
			return DateTime(int64(x) - int64(n)), nil
		}
		if n, ok := b.(int64); ok && (op == "plus" || op == "minus") {
			if op == "plus" {
				return DateTime(int64(x) + n), nil
			}
			return DateTime(int64(x) - n), nil
		}
		if y, ok := b.(DateTime); ok && op == "minus" {
			return int64(x) - int64(y), nil
		}
		return nil, unsupportedf("%s(DateTime, %s)", op, typeNameOf(b))
	}
	if !isNumeric(a) || !isNumeric(b) {
		return nil, evalErrorf("ILLEGAL_TYPE_OF_ARGUMENT", "%s(%s, %s)", op, typeNameOf(a), typeNameOf(b))
	}
	_, af := a.(float64)
	_, bf := b.(float64)
	if af || bf {
		x, _ := toFloat(a)
		y, _ := toFloat(b)
		switch op {
		case "plus":
			return x + y, nil
		case "minus":
			return x - y, nil
		case "multiply":
			return x * y, nil
		case "modulo":
			return math.Mod(x, y), nil
		case "intDiv", "intDivOrZero":
			// intDiv on floats: arguments are converted to integers first
			if y == 0 || math.IsNaN(x) || math.IsNaN(y) || math.IsInf(x, 0) {
				if op == "intDivOrZero" {
					return int64(0), nil
				}
				return nil, evalErrorf("ILLEGAL_DIVISION", "division by zero")
			}
			q := math.Trunc(x / y)
			if math.Abs(q) > 9e18 {
				return nil, unsupportedf("intDiv float overflow")
			}
			return int64(q), nil
		}
	}
	_, as := a.(int64)
	_, bs := b.(int64)
	ua, _, _ := intBits(a)
	ub, _, _ := intBits(b)
	signed := as || bs
	switch op {
	case "plus":
		if signed {
			return int64(ua + ub), nil
		}
		return ua + ub, nil
	case "minus":
		return int64(ua - ub), nil // result of minus is always signed in ClickHouse
	case "multiply":
		if signed {
			return int64(ua * ub), nil
		}
		return ua * ub, nil
	case "intDiv", "intDivOrZero", "modulo":
		if ub == 0 {
			if op == "intDivOrZero" {
				if signed {
					return int64(0), nil
				}
				return uint64(0), nil
			}
			return nil, evalErrorf("ILLEGAL_DIVISION", "division by zero")
		}
		if !signed {
			if op == "modulo" {
				return ua % ub, nil
			}
			return ua / ub, nil
		}
		// mixed / signed: compute exactly when both fit int64
		if (!as && ua > math.MaxInt64) || (!bs && ub > math.MaxInt64) {
			return nil, unsupportedf("%s of a signed value and a UInt64 above 2^63", op)
		}
		x, y := int64(ua), int64(ub)
		if x == math.MinInt64 && y == -1 {
			return nil, evalErrorf("ILLEGAL_DIVISION", "division of minimal signed number by minus one")
		}
		if op == "modulo" {
			return x % y, nil
		}
		q := x / y
		if as && !bs {
			return q, nil
		}
		return q, nil
	}
	return nil, unsupportedf("arithmetic %s", op)
}
