package chsim

import (
	"errors"
	"os"
	"path/filepath"
	"strings"
	"testing"
)

type corpusEntry struct {
	File, Family, Mode, Desc, SQL string
}

func loadCorpus(t testing.TB) []corpusEntry {
	files, err := filepath.Glob("testdata/corpus/*.sql")
	if err != nil || len(files) == 0 {
		t.Fatalf("no corpus files: %v", err)
	}
	var out []corpusEntry
	for _, f := range files {
		b, err := os.ReadFile(f)
		if err != nil {
			t.Fatal(err)
		}
		lines := strings.Split(string(b), "\n")
		for i := 0; i+1 < len(lines); i++ {
			if !strings.HasPrefix(lines[i], "-- #### ") {
				continue
			}
			parts := strings.SplitN(strings.TrimPrefix(lines[i], "-- #### "), " | ", 3)
			if len(parts) != 3 {
				t.Fatalf("%s:%d: bad header", f, i+1)
			}
			out = append(out, corpusEntry{File: filepath.Base(f), Family: parts[0], Mode: parts[1], Desc: parts[2], SQL: lines[i+1]})
			i++
		}
	}
	return out
}

// TestCorpusParses: every statement that qryn's real planners render (harvested by _harvest/main.go) must be
// accepted by the parser, except the shapes that are genuinely invalid ClickHouse syntax, which must be reported
// as *SyntaxError (never as unsupported, never accepted).
func TestCorpusParses(t *testing.T) {
	entries := loadCorpus(t)
	if len(entries) < 2000 {
		t.Fatalf("corpus too small: %d", len(entries))
	}
	bad := 0
	invalid := 0
	for _, e := range entries {
		_, err := Parse(e.SQL)
		// genuinely invalid ClickHouse syntax emitted by the planners:
		//   " and () "  D30: TraceQL duration-only selector renders an empty OR as "()"
		//   "-> ,"      `| drop` without labels renders a lambda without a body
		//   ", )"       line_format/label_format without template arguments renders format('…', )
		wantSyntaxErr := strings.Contains(e.SQL, " and () ") || strings.Contains(e.SQL, "-> ,") || strings.Contains(e.SQL, ", )")
		if e.SQL == "SHOW TABLES" {
			if err == nil || !errors.Is(err, ErrUnsupported) {
				t.Errorf("SHOW TABLES: want ErrUnsupported, got %v", err)
			}
			continue
		}
		if wantSyntaxErr {
			invalid++
			var se *SyntaxError
			if !errors.As(err, &se) {
				t.Errorf("%s [%s]: statement with empty parentheses must be a syntax error, got %v", e.File, e.Desc, err)
			}
			continue
		}
		if err != nil {
			bad++
			if bad <= 25 {
				t.Errorf("%s [%s | %s]: %v", e.File, e.Mode, e.Desc, err)
			}
		}
	}
	if bad > 0 {
		t.Errorf("%d of %d corpus statements failed to parse", bad, len(entries))
	}
	t.Logf("corpus: %d statements, %d expected-invalid", len(entries), invalid)
}

// corpusDB is a small populated qryn database: base rows + every derived table through the transcribed
// materialized views.
func corpusDB(t testing.TB) *DB {
	db := NewDB()
	day := "2024-03-01"
	ts := func(labels map[string]string, fp uint64, typ int) []Value {
		return []Value{day, fp, LabelsJSON(labels), "", typ}
	}
	db.AddQrynTable("time_series", [][]Value{
		ts(map[string]string{"app": "a", "env": "prod", "host": "h1", "level": "error", "status": "500"}, 1, 1),
		ts(map[string]string{"app": "a", "env": "dev", "host": "h2"}, 2, 1),
		ts(map[string]string{"app": "b", "env": "prod", "__name__": "up", "job": "j"}, 3, 2),
		ts(map[string]string{"app": "it's", "env": "prod"}, 4, 0),
	})
	base := int64(1709287200000000000) // 2024-03-01T10:00:00Z
	var samples [][]Value
	lines := []string{`err one`, `{"b":"x","c":{"d":"7"},"n":5,"a":"1"}`, `abc-123 literal ERR`, `level=info msg="it's 100%_done"`, ``}
	for i := 0; i < 40; i++ {
		fp := uint64(1 + i%4)
		typ := []int{1, 1, 2, 0}[i%4]
		samples = append(samples, []Value{fp, base + int64(i)*45*1e9 + int64(i), float64(i%7) + 0.5, lines[i%len(lines)], typ})
	}
	db.AddQrynTable("samples_v3", samples)
	hex16 := func(i int) string { return strings.Repeat("0", 30) + []string{"0a", "0b", "0c"}[i] }
	var spans [][]Value
	for i := 0; i < 9; i++ {
		tr := i / 3
		spans = append(spans, []Value{"0", hex16(tr), "00000000000000" + []string{"01", "02", "03"}[i%3], "", "op" + string(rune('a'+i%2)), base + int64(i)*1e9,
			int64(i+1) * 500000000, "svc" + string(rune('a'+tr%2)), 1, `{"payload":1}`,
			Array{Tuple{"foo", "bar"}, Tuple{"http.status", string(rune('1' + i%3))}, Tuple{"service.name", "svc" + string(rune('a'+tr%2))}, Tuple{"name", "op" + string(rune('a'+i%2))}}})
	}
	db.AddQrynTable("traces_input", spans)
	var profs [][]Value
	for i := 0; i < 4; i++ {
		profs = append(profs, []Value{uint64(base) + uint64(i)*1e9, "process_cpu", "svc" + string(rune('a'+i%2)),
			Array{Tuple{"cpu", "nanoseconds"}, Tuple{"samples", "count"}}, "cpu", "nanoseconds",
			Array{Tuple{"region", "eu"}, Tuple{"pod", "p" + string(rune('0'+i))}}, uint64(1e9), "0", "payload",
			Array{Tuple{"cpu:nanoseconds", int64(100 + i), int32(3)}, Tuple{"samples:count", int64(10), int32(3)}},
			Array{Tuple{uint64(1), uint64(0), uint64(1), Array{Tuple{"cpu:nanoseconds", int64(5), int64(100)}}}},
			Array{Tuple{uint64(1), "main"}}})
	}
	db.AddQrynTable("profiles_input", profs)
	db.AddQrynTable("settings", nil)
	if err := db.MaterializeAll(); err != nil {
		t.Fatal(err)
	}
	for _, n := range []string{"time_series", "time_series_gin", "samples_v3", "metrics_15s", "tempo_traces", "tempo_traces_attrs_gin", "tempo_traces_kv",
		"profiles", "profiles_series", "profiles_series_gin", "profiles_series_keys", "settings"} {
		db.Alias(n, n+"_dist")
	}
	return db
}

// TestCorpusExecutes: every harvested statement must execute on the populated database without ErrUnsupported.
// ClickHouse-class errors are tolerated only for the shapes listed (genuinely broken SQL rendered by qryn).
func TestCorpusExecutes(t *testing.T) {
	db := corpusDB(t)
	entries := loadCorpus(t)
	unsupported, chErrors, ok := 0, map[string]int{}, 0
	for _, e := range entries {
		if e.SQL == "SHOW TABLES" || strings.Contains(e.SQL, "$1") || strings.Contains(e.SQL, "system.clusters") || e.Family == "mv" {
			continue
		}
		_, err := db.Query(e.SQL)
		switch {
		case err == nil:
			ok++
		case errors.Is(err, ErrUnsupported) && strings.Contains(e.Desc, "not hex"):
			// unhex() of a non-hex string: ClickHouse documents the result as implementation-defined
		case errors.Is(err, ErrUnsupported):
			unsupported++
			if unsupported <= 30 {
				t.Errorf("%s [%s | %s]: %v", e.File, e.Mode, e.Desc, err)
			}
		default:
			var se *SyntaxError
			if errors.As(err, &se) {
				chErrors["syntax"]++
				continue
			}
			var ee *EvalError
			if errors.As(err, &ee) {
				chErrors[ee.Code]++
				if chErrors[ee.Code] <= 3 {
					t.Logf("ClickHouse-class error %s: %s [%s | %s]: %v", ee.Code, e.File, e.Mode, e.Desc, err)
				}
				continue
			}
			t.Errorf("%s [%s]: unclassified error %v", e.File, e.Desc, err)
		}
	}
	t.Logf("executed ok=%d unsupported=%d clickhouse-errors=%v", ok, unsupported, chErrors)
	if unsupported > 0 {
		t.Errorf("%d statements hit ErrUnsupported", unsupported)
	}
}

// TestViewsMatchSchemaFiles binds the transcribed materialized views (QrynViews) to the bodies extracted from
// /repo/ctrl/qryn/sql/*.sql (corpus family mv; the latest definition of each view wins).
func TestViewsMatchSchemaFiles(t *testing.T) {
	strip := func(s string) string {
		return strings.Join(strings.Fields(strings.NewReplacer("(", " ( ", ")", " ) ", ",", " , ", "[", " [ ", "]", " ] ").Replace(s)), "")
	}
	latest := map[string]string{}
	for _, e := range loadCorpus(t) {
		if e.Family != "mv" {
			continue
		}
		for _, v := range QrynViews {
			if strings.Contains(e.Desc, "."+v.Name+" ") {
				latest[v.Name] = e.SQL
			}
		}
	}
	for _, v := range QrynViews {
		body, ok := latest[v.Name]
		if !ok {
			t.Errorf("view %s not found in corpus mv.sql", v.Name)
			continue
		}
		if strip(body) != strip(v.Select) {
			t.Errorf("view %s differs from the schema file:\n file: %s\n mine: %s", v.Name, body, v.Select)
		}
	}
}
