package chsim

import (
	"fmt"
	"strings"
)

type bkind uint8

const (
	bConst bkind = iota
	bCol
	bLamParam
	bFunc
	bLambda
	bAggCall // aggregate function call (row context: only legal below a grouping)
	bAggRef  // slot of a computed aggregate (group context)
	bKeyRef  // slot of a GROUP BY key (group context)
	bIn
	bCast
)

// bnode is a bound (name-resolved) expression.
type bnode struct {
	kind    bkind
	val     Value // bConst
	idx     int   // bCol: column index; bLamParam: slot; bAggRef/bKeyRef: slot
	name    string
	fn      *scalarFn
	args    []*bnode
	nparams int // bLambda: number of parameters; idx = first slot
	agg     *aggSpec
	set     *inSet
	not     bool
	ctype   *Type
	typ     *Type
	canon   string
	hasAgg  bool
	hasCol  bool // references a column or lambda parameter somewhere below
	hasLam  bool // references a lambda parameter of an enclosing lambda
	constIx bool // arrayElement/tupleElement with literal index
}

func (n *bnode) isConst() bool { return !n.hasCol && !n.hasAgg && n.kind != bLambda }

type scope struct {
	q         *query
	env       *env
	sel       *Select
	rel       *relation
	aliases   map[string]Expr
	expanding []string
	lamNames  []string
	lamTypes  []*Type
	memo      map[string]*bnode
}

// collectAliases gathers every `expr AS name` of the SELECT (all clauses, not descending into subqueries) plus
// the inherited scalar WITH definitions, like ClickHouse's QueryAliasesVisitor.
func (sc *scope) collectAliases() error {
	sc.aliases = map[string]Expr{}
	for k, v := range sc.env.allScalars() {
		sc.aliases[k] = v
	}
	own := map[string]bool{}
	var err error
	var walk func(e Expr)
	add := func(name string, e Expr) {
		if prev, ok := sc.aliases[name]; ok && own[name] {
			if ExprString(prev) != ExprString(e) {
				err = evalErrorf("MULTIPLE_EXPRESSIONS_FOR_ALIAS", "different expressions with the same alias %s: %s and %s", name, ExprString(prev), ExprString(e))
			}
			return
		}
		own[name] = true
		sc.aliases[name] = e
	}
	walk = func(e Expr) {
		switch x := e.(type) {
		case *Alias:
			add(x.Name, x.Expr)
			walk(x.Expr)
		case *Func:
			for _, a := range x.Args {
				walk(a)
			}
			for _, a := range x.Params {
				walk(a)
			}
		case *Lambda:
			walk(x.Body)
		case *Cast:
			walk(x.Expr)
		case *In:
			walk(x.Left)
			if _, isSub := x.Right.(*Subquery); !isSub {
				if a, ok := x.Right.(*Alias); ok {
					if _, isSub := a.Expr.(*Subquery); isSub {
						return
					}
				}
				walk(x.Right)
			}
		}
	}
	s := sc.sel
	for _, c := range s.Cols {
		walk(c)
	}
	for _, e := range []Expr{s.PreWhere, s.Where, s.Having, s.Limit, s.Offset} {
		if e != nil {
			walk(e)
		}
	}
	for _, e := range s.GroupBy {
		walk(e)
	}
	for _, o := range s.OrderBy {
		walk(o.Expr)
	}
	if s.LimitBy != nil {
		for _, e := range s.LimitBy.By {
			walk(e)
		}
	}
	for _, it := range s.Items {
		if it.Join != nil && it.Join.On != nil {
			walk(it.Join.On)
		}
		if it.ArrayJoin != nil {
			for _, e := range it.ArrayJoin.Exprs {
				// the alias of an ARRAY JOIN item names the unfolded element column, not the array expression
				if a, ok := e.(*Alias); ok {
					walk(a.Expr)
				} else {
					walk(e)
				}
			}
		}
	}
	return err
}

func (sc *scope) bindExcluding(e Expr, _ string) (*bnode, error) { return sc.bind(e) }
func (sc *scope) bindNoAliasFallback(e Expr) (*bnode, error)     { return sc.bind(e) }

func (sc *scope) bind(e Expr) (*bnode, error) {
	switch x := e.(type) {
	case *Lit:
		return constNode(x.Val), nil
	case *Alias:
		// the alias is registered by collectAliases; binding the aliased expression in place must treat the name
		// as "being defined" so that a self reference reads the column
		sc.expanding = append(sc.expanding, x.Name)
		n, err := sc.bind(x.Expr)
		sc.expanding = sc.expanding[:len(sc.expanding)-1]
		return n, err
	case *Ident:
		return sc.bindIdent(x)
	case *Star:
		return nil, unsupportedf("* outside the SELECT list / count(*)")
	case *Cast:
		a, err := sc.bind(x.Expr)
		if err != nil {
			return nil, err
		}
		n := &bnode{kind: bCast, args: []*bnode{a}, ctype: x.Type, typ: x.Type}
		n.finish("CAST:" + x.Type.String())
		return sc.fold(n)
	case *Subquery:
		rel, err := sc.q.subqueryRelation(x, sc.env)
		if err != nil {
			return nil, err
		}
		if len(rel.rows) > 1 {
			return nil, evalErrorf("INCORRECT_RESULT_OF_SCALAR_SUBQUERY", "scalar subquery returned more than one row")
		}
		if len(rel.cols) == 0 {
			return nil, evalErrorf("INCORRECT_RESULT_OF_SCALAR_SUBQUERY", "scalar subquery without columns")
		}
		if len(rel.rows) == 0 {
			return constNode(nil), nil
		}
		if len(rel.cols) == 1 {
			n := constNode(rel.rows[0][0])
			if n.typ == nil {
				n.typ = rel.cols[0].typ
			}
			return n, nil
		}
		return constNode(Tuple(append([]Value{}, rel.rows[0]...))), nil
	case *In:
		return sc.bindIn(x)
	case *Lambda:
		return nil, evalErrorf("BAD_ARGUMENTS", "lambda outside a higher-order function")
	case *Func:
		return sc.bindFunc(x)
	}
	return nil, unsupportedf("expression node %T", e)
}

func constNode(v Value) *bnode {
	n := &bnode{kind: bConst, val: v, typ: typeOfValue(v)}
	if v == nil {
		n.typ = &Type{Name: "Nullable", Args: []*Type{{Name: "Nothing"}}}
	}
	n.canon = "k" + keyOf(v)
	return n
}

// finish computes the derived flags and the canonical string from the children.
func (n *bnode) finish(head string) {
	var b strings.Builder
	b.WriteString(head)
	b.WriteByte('(')
	for i, a := range n.args {
		if i > 0 {
			b.WriteByte(',')
		}
		b.WriteString(a.canon)
		n.hasAgg = n.hasAgg || a.hasAgg
		n.hasCol = n.hasCol || a.hasCol
		n.hasLam = n.hasLam || a.hasLam
	}
	b.WriteByte(')')
	n.canon = b.String()
}

// fold evaluates constant subtrees once (ClickHouse's constant folding); errors during folding are kept for run
// time unless the node is certainly evaluated (we simply do not fold on error).
func (sc *scope) fold(n *bnode) (*bnode, error) {
	if !n.isConst() || n.kind == bConst {
		return n, nil
	}
	if n.kind == bFunc && n.fn != nil && n.fn.volatile {
		return n, nil
	}
	v, err := n.eval(&evalCtx{q: sc.q})
	if err != nil {
		return n, nil
	}
	c := constNode(v)
	if c.typ == nil {
		c.typ = n.typ
	}
	c.canon = n.canon
	return c, nil
}

func (sc *scope) bindIdent(id *Ident) (*bnode, error) {
	rel := sc.rel
	if rel == nil {
		rel = &relation{}
	}
	if len(id.Parts) == 1 {
		name := id.Parts[0]
		for i := len(sc.lamNames) - 1; i >= 0; i-- {
			if sc.lamNames[i] == name {
				return &bnode{kind: bLamParam, idx: i, name: name, typ: sc.lamTypes[i], canon: fmt.Sprintf("l%d", i), hasCol: true, hasLam: true}, nil
			}
		}
		if ae, ok := sc.aliases[name]; ok && !sc.isExpanding(name) {
			if len(sc.lamNames) == 0 {
				if m, ok := sc.memo[name]; ok {
					return m, nil
				}
			}
			if len(sc.expanding) > 64 {
				return nil, evalErrorf("CYCLIC_ALIASES", "cyclic aliases through %s", name)
			}
			sc.expanding = append(sc.expanding, name)
			n, err := sc.bind(ae)
			sc.expanding = sc.expanding[:len(sc.expanding)-1]
			if err != nil {
				return nil, err
			}
			if len(sc.lamNames) == 0 && !n.hasLam {
				if sc.memo == nil {
					sc.memo = map[string]*bnode{}
				}
				sc.memo[name] = n
			}
			return n, nil
		}
		found := -1
		for j, c := range rel.cols {
			if c.hidden || c.shadow || c.name != name {
				continue
			}
			if found >= 0 {
				return nil, unsupportedf("ambiguous unqualified column %s (present in more than one joined source; ClickHouse's choice depends on the analyzer version)", name)
			}
			found = j
		}
		if found >= 0 {
			return &bnode{kind: bCol, idx: found, name: name, typ: rel.cols[found].typ, canon: fmt.Sprintf("c%d", found), hasCol: true}, nil
		}
		if sc.isExpanding(name) && sc.aliases[name] != nil {
			// alias referring to itself without a column of that name
			return nil, evalErrorf("CYCLIC_ALIASES", "cyclic aliases: %s", name)
		}
		return nil, evalErrorf("UNKNOWN_IDENTIFIER", "missing columns: '%s'", name)
	}
	// qualified
	name := id.Parts[len(id.Parts)-1]
	qual := strings.Join(id.Parts[:len(id.Parts)-1], ".")
	found := -1
	for j, c := range rel.cols {
		if c.hidden || c.name != name || !hasQual(c.quals, qual) {
			continue
		}
		if found >= 0 {
			return nil, unsupportedf("ambiguous qualified column %s.%s", qual, name)
		}
		found = j
	}
	if found >= 0 {
		return &bnode{kind: bCol, idx: found, name: name, typ: rel.cols[found].typ, canon: fmt.Sprintf("c%d", found), hasCol: true}, nil
	}
	// a.b where a is a column/alias of Tuple/Nested type
	if len(id.Parts) == 2 {
		if _, err := sc.bindIdent(&Ident{Parts: id.Parts[:1]}); err == nil {
			return nil, unsupportedf("named sub-column access %s", strings.Join(id.Parts, "."))
		}
	}
	return nil, evalErrorf("UNKNOWN_IDENTIFIER", "missing columns: '%s'", strings.Join(id.Parts, "."))
}

func (sc *scope) isExpanding(name string) bool {
	for _, x := range sc.expanding {
		if x == name {
			return true
		}
	}
	return false
}

func (sc *scope) bindFunc(f *Func) (*bnode, error) {
	name := f.Name
	// aggregate?
	if spec, ok, err := parseAggName(name); err != nil {
		return nil, err
	} else if ok {
		return sc.bindAgg(f, spec)
	}
	if f.Params != nil {
		return nil, evalErrorf("UNKNOWN_FUNCTION", "parametric call of non-aggregate function %s", name)
	}
	if f.Distinct {
		return nil, evalErrorf("SYNTAX_ERROR", "DISTINCT in non-aggregate function %s", name)
	}
	fn := lookupScalar(name)
	if fn == nil {
		if knownButUnsupported(name) {
			return nil, unsupportedf("function %s", name)
		}
		return nil, unsupportedf("function %s (unknown to chsim; ClickHouse may or may not know it)", name)
	}
	if len(f.Args) < fn.min || (fn.max >= 0 && len(f.Args) > fn.max) {
		return nil, evalErrorf("NUMBER_OF_ARGUMENTS_DOESNT_MATCH", "function %s called with %d arguments", name, len(f.Args))
	}
	n := &bnode{kind: bFunc, fn: fn, name: fn.name}
	n.args = make([]*bnode, len(f.Args))
	// ordinary arguments first: the parameter types of a lambda argument come from the arrays / map next to it
	var collTypes []*Type
	for i, a := range f.Args {
		if _, ok := a.(*Lambda); ok {
			if !fn.higher {
				return nil, evalErrorf("BAD_ARGUMENTS", "function %s does not take a lambda", name)
			}
			continue
		}
		an, err := sc.bind(a)
		if err != nil {
			return nil, err
		}
		if (fn.name == "arrayElement" || fn.name == "tupleElement") && i == 1 {
			if _, isLit := a.(*Lit); isLit {
				n.constIx = true
			}
		}
		n.args[i] = an
		collTypes = append(collTypes, an.typ)
	}
	for i, a := range f.Args {
		lam, ok := a.(*Lambda)
		if !ok {
			continue
		}
		var ptypes []*Type
		for _, ct := range collTypes {
			switch {
			case ct != nil && ct.Name == "Array":
				ptypes = append(ptypes, ct.Args[0])
			case ct != nil && ct.Name == "Map" && len(lam.Params) == 2:
				ptypes = append(ptypes, ct.Args[0], ct.Args[1])
			default:
				ptypes = append(ptypes, nil)
			}
		}
		ln, err := sc.bindLambda(lam, ptypes)
		if err != nil {
			return nil, err
		}
		n.args[i] = ln
	}
	n.finish(fn.name)
	if n.constIx {
		n.canon += "!"
	}
	if fn.ret != nil {
		ts := make([]*Type, len(n.args))
		for i, a := range n.args {
			ts[i] = a.typ
		}
		n.typ = fn.ret(ts, n.args)
	}
	if fn.check != nil {
		if err := fn.check(n.args); err != nil {
			return nil, err
		}
	}
	return sc.fold(n)
}

func (sc *scope) bindLambda(l *Lambda, ptypes []*Type) (*bnode, error) {
	base := len(sc.lamNames)
	sc.lamNames = append(sc.lamNames, l.Params...)
	for i := range l.Params {
		var t *Type
		if i < len(ptypes) {
			t = ptypes[i]
		}
		sc.lamTypes = append(sc.lamTypes, t)
	}
	body, err := sc.bind(l.Body)
	sc.lamNames = sc.lamNames[:base]
	sc.lamTypes = sc.lamTypes[:base]
	if err != nil {
		return nil, err
	}
	if body.hasAgg {
		return nil, unsupportedf("aggregate function inside a lambda")
	}
	n := &bnode{kind: bLambda, idx: base, nparams: len(l.Params), args: []*bnode{body}}
	n.finish(fmt.Sprintf("λ%d/%d", base, len(l.Params)))
	// a lambda whose body only uses its own parameters is closed
	n.hasLam = false
	n.hasCol = false
	var scan func(b *bnode)
	scan = func(b *bnode) {
		switch b.kind {
		case bLamParam:
			if b.idx < base {
				n.hasLam = true
				n.hasCol = true
			}
		case bCol:
			n.hasCol = true
		}
		for _, a := range b.args {
			scan(a)
		}
		if b.agg != nil {
			for _, a := range b.agg.args {
				scan(a)
			}
		}
	}
	scan(body)
	return n, nil
}

func (sc *scope) bindAgg(f *Func, spec *aggSpec) (*bnode, error) {
	spec.distinct = f.Distinct
	if spec.distinct {
		if spec.base == "count" {
			// count(DISTINCT x) is uniqExact(x) (count_distinct_implementation default)
			spec.base = "uniqExact"
			spec.distinct = false
		}
	}
	for _, pe := range f.Params {
		pn, err := sc.bind(pe)
		if err != nil {
			return nil, err
		}
		if !pn.isConst() {
			return nil, evalErrorf("BAD_ARGUMENTS", "aggregate function parameters must be constants")
		}
		v, err := pn.eval(&evalCtx{q: sc.q})
		if err != nil {
			return nil, err
		}
		spec.params = append(spec.params, v)
	}
	n := &bnode{kind: bAggCall, agg: spec, name: f.Name}
	for _, a := range f.Args {
		if _, isStar := a.(*Star); isStar && spec.base == "count" {
			continue
		}
		an, err := sc.bind(a)
		if err != nil {
			return nil, err
		}
		if an.hasAgg {
			return nil, evalErrorf("ILLEGAL_AGGREGATION", "aggregate function %s inside another aggregate function", f.Name)
		}
		spec.args = append(spec.args, an)
	}
	if err := spec.validate(); err != nil {
		return nil, err
	}
	var b strings.Builder
	fmt.Fprintf(&b, "agg:%s", f.Name)
	if spec.distinct {
		b.WriteString("/D")
	}
	b.WriteByte('(')
	for _, p := range spec.params {
		b.WriteString(keyOf(p))
	}
	b.WriteString(")(")
	for i, a := range spec.args {
		if i > 0 {
			b.WriteByte(',')
		}
		b.WriteString(a.canon)
		n.hasLam = n.hasLam || a.hasLam
	}
	b.WriteByte(')')
	n.canon = b.String()
	n.hasAgg = true
	n.hasCol = true
	n.typ = spec.resultType()
	return n, nil
}

// ---------------------------------------------------------------------------------------------------------
// IN

type inSet struct {
	keys    map[string]bool
	members []Value
	conv    map[string]map[string]bool // per left-kind converted key sets (Date vs String members …)
	arity   int
}

func newInSet(arity int) *inSet { return &inSet{keys: map[string]bool{}, arity: arity} }

func (s *inSet) add(v Value) {
	if v == nil {
		return
	}
	if t, ok := v.(Tuple); ok {
		for _, e := range t {
			if e == nil {
				return
			}
		}
	}
	k := keyOf(v)
	if !s.keys[k] {
		s.keys[k] = true
		s.members = append(s.members, v)
	}
}

func (s *inSet) contains(v Value) (bool, error) {
	switch v.(type) {
	case Date, DateTime, DateTime64:
		kind := typeNameOf(v)
		cs, ok := s.conv[kind]
		if !ok {
			cs = map[string]bool{}
			for _, m := range s.members {
				if str, isStr := m.(string); isStr {
					var cv Value
					var good bool
					switch x := v.(type) {
					case Date:
						cv, good = parseDate(str)
					case DateTime:
						cv, good = parseDateTime(str)
					case DateTime64:
						cv, good = parseDateTime64(str, x.P)
					}
					if !good {
						return false, evalErrorf("CANNOT_PARSE_DATE", "cannot convert %q to %s for IN", str, kind)
					}
					cs[keyOf(cv)] = true
				} else {
					cs[keyOf(m)] = true
				}
			}
			if s.conv == nil {
				s.conv = map[string]map[string]bool{}
			}
			s.conv[kind] = cs
		}
		return cs[keyOf(v)], nil
	}
	return s.keys[keyOf(v)], nil
}

func (q *query) subqueryRelation(sq *Subquery, en *env) (*relation, error) {
	if q.subMemo == nil {
		q.subMemo = map[*Subquery]*relation{}
	}
	if r, ok := q.subMemo[sq]; ok {
		return r, nil
	}
	r, err := q.execStmt(sq.Stmt, en)
	if err != nil {
		return nil, err
	}
	r = r.stripHidden()
	q.subMemo[sq] = r
	return r, nil
}

func (sc *scope) bindIn(x *In) (*bnode, error) {
	left, err := sc.bind(x.Left)
	if err != nil {
		return nil, err
	}
	arity := 1
	if lf, ok := stripAlias(x.Left).(*Func); ok && lf.Name == "tuple" {
		arity = len(lf.Args)
	}
	set := newInSet(arity)
	fromRelation := func(rel *relation) error {
		if len(rel.cols) != arity {
			return evalErrorf("NUMBER_OF_COLUMNS_DOESNT_MATCH", "IN: left side has %d element(s), right side has %d column(s)", arity, len(rel.cols))
		}
		for _, row := range rel.rows {
			if arity == 1 {
				set.add(row[0])
			} else {
				set.add(Tuple(append([]Value{}, row...)))
			}
		}
		return nil
	}
	right := stripAlias(x.Right)
	handled := false
	switch r := right.(type) {
	case *Subquery:
		rel, err := sc.q.subqueryRelation(r, sc.env)
		if err != nil {
			return nil, err
		}
		if err := fromRelation(rel); err != nil {
			return nil, err
		}
		handled = true
	case *Ident:
		// an identifier on the right of IN is a table (or CTE) name
		isTable := false
		if len(r.Parts) == 1 {
			if st, _ := sc.env.lookupCTE(r.Parts[0]); st != nil {
				isTable = true
			}
		}
		if !isTable && sc.q.db.lookupTable(r.Parts) != nil {
			isTable = true
		}
		if isTable {
			rel, err := sc.q.namedRelation(r.Parts, sc.env, "", -1)
			if err != nil {
				return nil, err
			}
			if err := fromRelation(rel.stripHidden()); err != nil {
				return nil, err
			}
			handled = true
		}
	}
	if !handled {
		var members []Expr
		if rf, ok := right.(*Func); ok && (rf.Name == "tuple" || rf.Name == "array") && rf.Operator {
			if rf.Name == "tuple" && arity > 1 {
				// (a,b) IN ((1,2),(3,4))  vs  (a,b) IN (1,2)
				if inner, ok := stripAlias(rf.Args[0]).(*Func); ok && inner.Name == "tuple" {
					members = rf.Args
				} else {
					members = []Expr{rf}
				}
			} else {
				members = rf.Args
			}
		} else {
			members = []Expr{right}
		}
		for _, m := range members {
			mn, err := sc.bind(m)
			if err != nil {
				return nil, err
			}
			if !mn.isConst() {
				return nil, unsupportedf("non-constant expression on the right side of IN: %s", ExprString(m))
			}
			v, err := mn.eval(&evalCtx{q: sc.q})
			if err != nil {
				return nil, err
			}
			// a constant array / tuple produced by an expression (not a literal list) spreads into members
			if len(members) == 1 && right == m {
				switch a := v.(type) {
				case Array:
					for _, e := range a {
						set.add(e)
					}
					continue
				case Tuple:
					if arity == 1 {
						for _, e := range a {
							set.add(e)
						}
						continue
					}
				}
			}
			if arity > 1 {
				t, ok := v.(Tuple)
				if !ok || len(t) != arity {
					return nil, evalErrorf("TYPE_MISMATCH", "IN: tuple of %d elements expected on the right side", arity)
				}
			}
			set.add(v)
		}
	}
	n := &bnode{kind: bIn, args: []*bnode{left}, set: set, not: x.Not, typ: tUInt8}
	head := "in"
	if x.Not {
		head = "notIn"
	}
	var kb strings.Builder
	for _, m := range set.members {
		kb.WriteString(keyOf(m))
	}
	n.finish(head + "{" + kb.String() + "}")
	return sc.fold(n)
}

func stripAlias(e Expr) Expr {
	for {
		a, ok := e.(*Alias)
		if !ok {
			return e
		}
		e = a.Expr
	}
}

// ---------------------------------------------------------------------------------------------------------
// evaluation

type evalCtx struct {
	q    *query
	row  []Value
	lam  []Value
	keys []Value
	aggs []Value
}

// closure is the runtime value of a lambda argument.
type closure struct {
	n   *bnode
	ctx *evalCtx
}

func (c *closure) call(args ...Value) (Value, error) {
	if len(args) != c.n.nparams {
		return nil, evalErrorf("NUMBER_OF_ARGUMENTS_DOESNT_MATCH", "lambda of %d parameters called with %d arrays", c.n.nparams, len(args))
	}
	need := c.n.idx + c.n.nparams
	for len(c.ctx.lam) < need {
		c.ctx.lam = append(c.ctx.lam, nil)
	}
	copy(c.ctx.lam[c.n.idx:], args)
	return c.n.args[0].eval(c.ctx)
}

func (n *bnode) eval(ctx *evalCtx) (Value, error) {
	switch n.kind {
	case bConst:
		return n.val, nil
	case bCol:
		if ctx.row == nil {
			return nil, evalErrorf("NOT_AN_AGGREGATE", "column %s is not under an aggregate function and not in GROUP BY", n.name)
		}
		return ctx.row[n.idx], nil
	case bLamParam:
		if n.idx >= len(ctx.lam) {
			return nil, fmt.Errorf("chsim internal: lambda slot %d unset", n.idx)
		}
		return ctx.lam[n.idx], nil
	case bKeyRef:
		return ctx.keys[n.idx], nil
	case bAggRef:
		return ctx.aggs[n.idx], nil
	case bAggCall:
		return nil, evalErrorf("ILLEGAL_AGGREGATION", "aggregate function %s evaluated outside aggregation", n.name)
	case bLambda:
		return &closure{n: n, ctx: ctx}, nil
	case bCast:
		v, err := n.args[0].eval(ctx)
		if err != nil {
			return nil, err
		}
		return castValue(v, n.ctype)
	case bIn:
		v, err := n.args[0].eval(ctx)
		if err != nil {
			return nil, err
		}
		if v == nil {
			return nil, nil
		}
		if t, ok := v.(Tuple); ok {
			for _, e := range t {
				if e == nil {
					return boolVal(n.not), nil
				}
			}
		}
		in, err := n.set.contains(v)
		if err != nil {
			return nil, err
		}
		return boolVal(in != n.not), nil
	case bFunc:
		if n.fn.lazy != nil {
			return n.fn.lazy(ctx, n)
		}
		var buf [6]Value
		args := buf[:0]
		for _, a := range n.args {
			v, err := a.eval(ctx)
			if err != nil {
				return nil, err
			}
			args = append(args, v)
		}
		if !n.fn.nullAware {
			for _, v := range args {
				if v == nil {
					return nil, nil
				}
			}
		}
		return n.fn.eval(&callCtx{ctx: ctx, node: n}, args)
	}
	return nil, fmt.Errorf("chsim internal: bad node kind %d", n.kind)
}

type callCtx struct {
	ctx  *evalCtx
	node *bnode
}

// ---------------------------------------------------------------------------------------------------------
// grouping

type grouper struct {
	keys  map[string]int // canon → key slot
	aggs  []*bnode       // distinct aggregate calls
	slots map[string]int
}

// rewrite turns a row-context expression into a group-context one: GROUP BY keys become key slots, aggregate
// calls become result slots, and any column left over is ClickHouse's NOT_AN_AGGREGATE error.
func (g *grouper) rewrite(n *bnode) (*bnode, error) {
	if i, ok := g.keys[n.canon]; ok && n.kind != bConst {
		return &bnode{kind: bKeyRef, idx: i, typ: n.typ, canon: n.canon, hasCol: true}, nil
	}
	switch n.kind {
	case bConst, bLamParam:
		return n, nil
	case bCol:
		return nil, evalErrorf("NOT_AN_AGGREGATE", "column %s is not under an aggregate function and not in GROUP BY", n.name)
	case bAggCall:
		if g.slots == nil {
			g.slots = map[string]int{}
		}
		i, ok := g.slots[n.canon]
		if !ok {
			i = len(g.aggs)
			g.slots[n.canon] = i
			g.aggs = append(g.aggs, n)
		}
		return &bnode{kind: bAggRef, idx: i, typ: n.typ, canon: n.canon, hasCol: true}, nil
	}
	if !n.hasCol && !n.hasAgg {
		return n, nil
	}
	c := *n
	c.args = make([]*bnode, len(n.args))
	for i, a := range n.args {
		r, err := g.rewrite(a)
		if err != nil {
			return nil, err
		}
		c.args[i] = r
	}
	return &c, nil
}

type groupResult struct {
	keys    []Value
	results []Value
}

func (g *grouper) run(q *query, rows [][]Value, keyNodes []*bnode, implicitSingle bool) ([]groupResult, error) {
	type grp struct {
		keys  []Value
		accs  []accumulator
		flags []accFlags
	}
	var order []*grp
	index := map[string]*grp{}
	newGroup := func(keys []Value) (*grp, error) {
		gr := &grp{keys: keys, accs: make([]accumulator, len(g.aggs)), flags: make([]accFlags, len(g.aggs))}
		for i, a := range g.aggs {
			acc, err := a.agg.newAcc()
			if err != nil {
				return nil, err
			}
			gr.accs[i] = acc
		}
		return gr, nil
	}
	ctx := &evalCtx{q: q}
	var kb strings.Builder
	for _, row := range rows {
		ctx.row = row
		keys := make([]Value, len(keyNodes))
		kb.Reset()
		for i, k := range keyNodes {
			v, err := k.eval(ctx)
			if err != nil {
				return nil, err
			}
			keys[i] = v
			writeKey(&kb, v)
		}
		ks := kb.String()
		gr, ok := index[ks]
		if !ok {
			var err error
			if gr, err = newGroup(keys); err != nil {
				return nil, err
			}
			index[ks] = gr
			order = append(order, gr)
		}
		for i, a := range g.aggs {
			if err := a.agg.feed(ctx, gr.accs[i], &gr.flags[i]); err != nil {
				return nil, err
			}
		}
	}
	if len(order) == 0 && implicitSingle {
		gr, err := newGroup(nil)
		if err != nil {
			return nil, err
		}
		order = append(order, gr)
	}
	out := make([]groupResult, len(order))
	for i, gr := range order {
		res := make([]Value, len(gr.accs))
		for j, acc := range gr.accs {
			spec := g.aggs[j].agg
			if fl := gr.flags[j]; !fl.added && !spec.nullExempt() && (fl.sawNull || spec.nullableArgs()) {
				// AggregateFunctionNull: no row with all-non-NULL arguments was added
				res[j] = nil
				continue
			}
			v, err := acc.result()
			if err != nil {
				return nil, err
			}
			res[j] = v
		}
		out[i] = groupResult{keys: gr.keys, results: res}
	}
	return out, nil
}
