package chsim

import (
	"fmt"
	"strings"
)

// TokKind is the kind of a lexical token.
type TokKind int

const (
	TEOF    TokKind = iota
	TIdent          // bare word: identifier or keyword (keywords are not distinguished by the lexer)
	TQIdent         // `quoted` or "quoted" identifier (Val = decoded name)
	TString         // 'string literal' (Val = decoded value)
	TNumber         // numeric literal (Text as written)
	TOp             // operator or punctuation (Text)
)

func (k TokKind) String() string {
	switch k {
	case TEOF:
		return "EOF"
	case TIdent:
		return "Ident"
	case TQIdent:
		return "QuotedIdent"
	case TString:
		return "String"
	case TNumber:
		return "Number"
	case TOp:
		return "Op"
	}
	return "?"
}

// Token is one lexical token. Text is the source text; Val is the decoded value of a string literal or quoted
// identifier (for other kinds Val == Text).
type Token struct {
	Kind TokKind
	Text string
	Val  string
	Pos  int // byte offset in the source
}

// SyntaxError is returned when ClickHouse would reject the statement text (as far as this subset knows).
type SyntaxError struct {
	Pos int
	Msg string
	SQL string
}

func (e *SyntaxError) Error() string {
	near := ""
	if e.Pos >= 0 && e.Pos <= len(e.SQL) {
		end := e.Pos + 40
		if end > len(e.SQL) {
			end = len(e.SQL)
		}
		near = fmt.Sprintf(" near %q", e.SQL[e.Pos:end])
	}
	return fmt.Sprintf("chsim: syntax error at %d: %s%s", e.Pos, e.Msg, near)
}

// Lex tokenizes a ClickHouse statement.  Comments (`-- …`, `/* … */`, `# …`, `#!…`) are skipped.  String
// literals are decoded with ClickHouse's rules (see DecodeStringBody).  The final TEOF token is included.
func Lex(src string) ([]Token, error) {
	var toks []Token
	i := 0
	n := len(src)
	serr := func(pos int, f string, a ...any) error {
		return &SyntaxError{Pos: pos, Msg: fmt.Sprintf(f, a...), SQL: src}
	}
	for i < n {
		c := src[i]
		switch {
		case c == ' ' || c == '\t' || c == '\n' || c == '\r' || c == '\f' || c == '\v':
			i++
		case c == '-' && i+1 < n && src[i+1] == '-':
			for i < n && src[i] != '\n' {
				i++
			}
		case c == '#' && i+1 < n && (src[i+1] == ' ' || src[i+1] == '!'):
			for i < n && src[i] != '\n' {
				i++
			}
		case c == '/' && i+1 < n && src[i+1] == '*':
			end := strings.Index(src[i+2:], "*/")
			if end < 0 {
				return nil, serr(i, "unterminated /* comment")
			}
			i += 2 + end + 2
		case c == '\'':
			start := i
			i++
			var body strings.Builder
			closed := false
			for i < n {
				if src[i] == '\\' {
					if i+1 >= n {
						return nil, serr(start, "unterminated string literal")
					}
					body.WriteByte(src[i])
					body.WriteByte(src[i+1])
					i += 2
					continue
				}
				if src[i] == '\'' {
					if i+1 < n && src[i+1] == '\'' {
						body.WriteString("''")
						i += 2
						continue
					}
					closed = true
					i++
					break
				}
				body.WriteByte(src[i])
				i++
			}
			if !closed {
				return nil, serr(start, "unterminated string literal")
			}
			val, err := DecodeStringBody(body.String(), '\'')
			if err != nil {
				return nil, serr(start, "%v", err)
			}
			toks = append(toks, Token{TString, src[start:i], val, start})
		case c == '`' || c == '"':
			start := i
			q := c
			i++
			var body strings.Builder
			closed := false
			for i < n {
				if src[i] == '\\' {
					if i+1 >= n {
						return nil, serr(start, "unterminated quoted identifier")
					}
					body.WriteByte(src[i])
					body.WriteByte(src[i+1])
					i += 2
					continue
				}
				if src[i] == q {
					if i+1 < n && src[i+1] == q {
						body.WriteByte(q)
						body.WriteByte(q)
						i += 2
						continue
					}
					closed = true
					i++
					break
				}
				body.WriteByte(src[i])
				i++
			}
			if !closed {
				return nil, serr(start, "unterminated quoted identifier")
			}
			val, err := DecodeStringBody(body.String(), q)
			if err != nil {
				return nil, serr(start, "%v", err)
			}
			if val == "" {
				return nil, serr(start, "empty quoted identifier")
			}
			toks = append(toks, Token{TQIdent, src[start:i], val, start})
		case isDigit(c) || (c == '.' && i+1 < n && isDigit(src[i+1]) && !prevIsValueEnd(toks)):
			start := i
			i = lexNumber(src, i)
			// 1abc is an error in ClickHouse (number glued to a word)
			if i < n && (isIdentStart(src[i])) {
				return nil, serr(start, "number glued to identifier")
			}
			toks = append(toks, Token{TNumber, src[start:i], src[start:i], start})
		case isIdentStart(c):
			start := i
			for i < n && isIdentPart(src[i]) {
				i++
			}
			toks = append(toks, Token{TIdent, src[start:i], src[start:i], start})
		default:
			start := i
			op := ""
			three := ""
			two := ""
			if i+3 <= n {
				three = src[i : i+3]
			}
			if i+2 <= n {
				two = src[i : i+2]
			}
			switch {
			case three == "<=>":
				op = three
			case two == "->" || two == "::" || two == "==" || two == "!=" || two == "<>" || two == "<=" || two == ">=" || two == "||":
				op = two
			case strings.ContainsRune("()[]{},;.+-*/%<>=?:@^", rune(c)):
				op = string(c)
			default:
				if c == '!' {
					return nil, serr(start, "single exclamation mark is not an operator in ClickHouse")
				}
				if c == '|' {
					return nil, serr(start, "single pipe is not an operator in ClickHouse")
				}
				return nil, serr(start, "unexpected character %q", c)
			}
			i += len(op)
			toks = append(toks, Token{TOp, op, op, start})
		}
	}
	toks = append(toks, Token{TEOF, "", "", n})
	return toks, nil
}

// prevIsValueEnd: a '.' directly after an identifier, ')' , ']' or a number is tuple/qualifier access, not the
// start of a number like ".5".
func prevIsValueEnd(toks []Token) bool {
	if len(toks) == 0 {
		return false
	}
	t := toks[len(toks)-1]
	switch t.Kind {
	case TIdent, TQIdent, TNumber, TString:
		return true
	case TOp:
		return t.Text == ")" || t.Text == "]"
	}
	return false
}

func isDigit(c byte) bool { return c >= '0' && c <= '9' }
func isHex(c byte) bool {
	return isDigit(c) || (c >= 'a' && c <= 'f') || (c >= 'A' && c <= 'F')
}
func isIdentStart(c byte) bool {
	return c == '_' || (c >= 'a' && c <= 'z') || (c >= 'A' && c <= 'Z') || c >= 0x80 || c == '$'
}
func isIdentPart(c byte) bool { return isIdentStart(c) || isDigit(c) }

func lexNumber(s string, i int) int {
	n := len(s)
	if s[i] == '0' && i+1 < n && (s[i+1] == 'x' || s[i+1] == 'X') && i+2 < n && isHex(s[i+2]) {
		i += 2
		for i < n && isHex(s[i]) {
			i++
		}
		return i
	}
	if s[i] == '0' && i+1 < n && (s[i+1] == 'b' || s[i+1] == 'B') && i+2 < n && (s[i+2] == '0' || s[i+2] == '1') {
		i += 2
		for i < n && (s[i] == '0' || s[i] == '1') {
			i++
		}
		return i
	}
	for i < n && isDigit(s[i]) {
		i++
	}
	if i < n && s[i] == '.' {
		// "1." and "1.5" are numbers; but "t.1.2" style tuple access is handled by the parser from "1.2" text
		i++
		for i < n && isDigit(s[i]) {
			i++
		}
	}
	if i < n && (s[i] == 'e' || s[i] == 'E') {
		j := i + 1
		if j < n && (s[j] == '+' || s[j] == '-') {
			j++
		}
		if j < n && isDigit(s[j]) {
			for j < n && isDigit(s[j]) {
				j++
			}
			i = j
		}
	}
	return i
}

// DecodeStringBody decodes the inside of a quoted ClickHouse literal (without the surrounding quotes):
// the doubled quote character stands for itself, and backslash sequences follow ClickHouse's
// parseComplexEscapeSequence: \xHH is a byte, \N is the empty string, \a \b \e \f \n \r \t \v \0 are the control
// characters, a backslash before \ ' " ` / disappears, and any OTHER escaped character keeps its backslash
// (so '\%' is the two characters \ and %, "for convenience using LIKE and regular expressions").
func DecodeStringBody(body string, quote byte) (string, error) {
	var b strings.Builder
	n := len(body)
	for i := 0; i < n; i++ {
		c := body[i]
		if c == quote && i+1 < n && body[i+1] == quote {
			b.WriteByte(quote)
			i++
			continue
		}
		if c != '\\' {
			b.WriteByte(c)
			continue
		}
		if i+1 >= n {
			return "", fmt.Errorf("backslash at end of literal")
		}
		i++
		e := body[i]
		switch e {
		case 'x':
			if i+2 >= n || !isHex(body[i+1]) || !isHex(body[i+2]) {
				return "", fmt.Errorf("bad \\x escape")
			}
			b.WriteByte(unhexNibble(body[i+1])<<4 | unhexNibble(body[i+2]))
			i += 2
		case 'N':
			// \N is parsed as the empty string
		default:
			d := e
			switch e {
			case 'a':
				d = '\a'
			case 'b':
				d = '\b'
			case 'e':
				d = 0x1b
			case 'f':
				d = '\f'
			case 'n':
				d = '\n'
			case 'r':
				d = '\r'
			case 't':
				d = '\t'
			case 'v':
				d = '\v'
			case '0':
				d = 0
			}
			if d != '\\' && d != '\'' && d != '"' && d != '`' && d != '/' && d > 31 {
				b.WriteByte('\\')
			}
			b.WriteByte(d)
		}
	}
	return b.String(), nil
}

func unhexNibble(c byte) byte {
	switch {
	case c >= '0' && c <= '9':
		return c - '0'
	case c >= 'a' && c <= 'f':
		return c - 'a' + 10
	default:
		return c - 'A' + 10
	}
}

// QuoteString renders s as a ClickHouse string literal that decodes back to exactly s.
func QuoteString(s string) string {
	var b strings.Builder
	b.WriteByte('\'')
	for i := 0; i < len(s); i++ {
		c := s[i]
		switch c {
		case '\\':
			b.WriteString(`\\`)
		case '\'':
			b.WriteString(`\'`)
		case 0:
			b.WriteString(`\0`)
		case '\n':
			b.WriteString(`\n`)
		case '\r':
			b.WriteString(`\r`)
		case '\t':
			b.WriteString(`\t`)
		case '\b':
			b.WriteString(`\b`)
		case '\f':
			b.WriteString(`\f`)
		default:
			if c < 32 {
				fmt.Fprintf(&b, `\x%02x`, c)
			} else {
				b.WriteByte(c)
			}
		}
	}
	b.WriteByte('\'')
	return b.String()
}
