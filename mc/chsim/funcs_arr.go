package chsim

import (
	"sort"
)

func arrArg(fn string, v Value) (Array, error) {
	a, ok := v.(Array)
	if !ok {
		return nil, typeErr(fn, v)
	}
	return a, nil
}

func elemType(t *Type) *Type {
	if t != nil && t.Name == "Array" {
		return t.Args[0]
	}
	return nil
}

// lambdaAndArrays splits the arguments of a higher-order function: optional leading lambda + arrays of equal size.
func lambdaAndArrays(fn string, args []Value, lambdaRequired bool) (*closure, []Array, error) {
	var lam *closure
	rest := args
	if len(args) > 0 {
		if c, ok := args[0].(*closure); ok {
			lam = c
			rest = args[1:]
		}
	}
	if lam == nil && lambdaRequired {
		return nil, nil, evalErrorf("ILLEGAL_TYPE_OF_ARGUMENT", "first argument of %s must be a lambda", fn)
	}
	if len(rest) == 0 {
		return nil, nil, evalErrorf("NUMBER_OF_ARGUMENTS_DOESNT_MATCH", "%s needs at least one array", fn)
	}
	arrs := make([]Array, len(rest))
	for i, v := range rest {
		if v == nil {
			return nil, nil, unsupportedf("%s over a NULL array", fn)
		}
		a, ok := v.(Array)
		if !ok {
			return nil, nil, typeErr(fn, v)
		}
		if i > 0 && len(a) != len(arrs[0]) {
			return nil, nil, evalErrorf("SIZES_OF_ARRAYS_DONT_MATCH", "arrays passed to %s have different sizes", fn)
		}
		arrs[i] = a
	}
	if lam != nil && lam.n.nparams != len(arrs) {
		return nil, nil, evalErrorf("NUMBER_OF_ARGUMENTS_DOESNT_MATCH", "lambda of %s takes %d parameters but %d arrays were passed", fn, lam.n.nparams, len(arrs))
	}
	return lam, arrs, nil
}

func callAt(lam *closure, arrs []Array, i int) (Value, error) {
	var buf [4]Value
	args := buf[:0]
	for _, a := range arrs {
		args = append(args, a[i])
	}
	return lam.call(args...)
}

func lambdaBodyType(args []*bnode) *Type {
	if len(args) > 0 && args[0].kind == bLambda {
		return args[0].args[0].typ
	}
	return nil
}

func sortValues(vals []Value, desc bool) error {
	var serr error
	sort.SliceStable(vals, func(i, j int) bool {
		c, ok := compareNullable(vals[i], vals[j])
		if !ok {
			serr = evalErrorf("NO_COMMON_TYPE", "cannot sort values of types %s and %s", typeNameOf(vals[i]), typeNameOf(vals[j]))
			return false
		}
		// NULLs and NaNs stay last in both directions
		in, jn := isNullOrNaN(vals[i]), isNullOrNaN(vals[j])
		if in || jn {
			return !in && jn
		}
		if desc {
			return c > 0
		}
		return c < 0
	})
	return serr
}

func registerArrays() {
	reg(&scalarFn{name: "array", min: 0, max: -1, nullAware: true, ret: func(ts []*Type, _ []*bnode) *Type {
		if len(ts) == 0 {
			return nil
		}
		t := ts[0]
		for _, x := range ts[1:] {
			t = unifyTypes(t, x)
		}
		return tArray(t)
	}, eval: func(c *callCtx, a []Value) (Value, error) {
		out := make(Array, len(a))
		et := elemType(c.node.typ)
		for i, v := range a {
			out[i] = promoteToCommon(v, et)
		}
		return out, nil
	}})
	reg(&scalarFn{name: "arrayElement", min: 2, max: 2, nullAware: true, ret: func(ts []*Type, _ []*bnode) *Type {
		if ts[0] == nil {
			return nil
		}
		switch ts[0].Name {
		case "Array":
			return ts[0].Args[0]
		case "Map":
			return ts[0].Args[1]
		}
		return nil
	}, eval: func(c *callCtx, a []Value) (Value, error) {
		if a[0] == nil || a[1] == nil {
			return nil, nil
		}
		switch x := a[0].(type) {
		case *Map:
			if v, ok := x.Get(a[1]); ok {
				return v, nil
			}
			// missing key: default value of the value type
			t := c.node.typ
			if t == nil {
				for _, v := range x.Vals {
					if t = typeOfValue(v); t != nil {
						break
					}
				}
			}
			if t == nil {
				t = c.node.args[0].typ
				if t != nil && t.Name == "Map" {
					t = t.Args[1]
				} else {
					t = nil
				}
			}
			return t.DefaultValue()
		case Array:
			var i int64
			switch ix := a[1].(type) {
			case uint64:
				i = int64(ix)
			case int64:
				i = ix
			default:
				return nil, typeErr("arrayElement", a[1])
			}
			if i == 0 && c.node.constIx {
				return nil, evalErrorf("ZERO_ARRAY_OR_TUPLE_INDEX", "array indices are 1-based")
			}
			if i < 0 {
				i = int64(len(x)) + i + 1
				if i < 1 {
					i = 0
				}
			}
			if i >= 1 && int(i) <= len(x) {
				return x[i-1], nil
			}
			t := c.node.typ
			if t == nil {
				for _, v := range x {
					if t = typeOfValue(v); t != nil {
						break
					}
				}
			}
			return t.DefaultValue()
		}
		return nil, typeErr("arrayElement", a[0])
	}})
	reg(&scalarFn{name: "arrayMap", min: 2, max: -1, higher: true, nullAware: true, ret: func(_ []*Type, args []*bnode) *Type {
		return tArray(lambdaBodyType(args))
	}, eval: func(_ *callCtx, a []Value) (Value, error) {
		lam, arrs, err := lambdaAndArrays("arrayMap", a, true)
		if err != nil {
			return nil, err
		}
		out := make(Array, len(arrs[0]))
		for i := range out {
			if out[i], err = callAt(lam, arrs, i); err != nil {
				return nil, err
			}
		}
		return out, nil
	}})
	reg(&scalarFn{name: "arrayFilter", min: 2, max: -1, higher: true, nullAware: true, ret: retArg(1), eval: func(_ *callCtx, a []Value) (Value, error) {
		lam, arrs, err := lambdaAndArrays("arrayFilter", a, true)
		if err != nil {
			return nil, err
		}
		out := Array{}
		for i := range arrs[0] {
			v, err := callAt(lam, arrs, i)
			if err != nil {
				return nil, err
			}
			t, _, err := truth(v)
			if err != nil {
				return nil, err
			}
			if t {
				out = append(out, arrs[0][i])
			}
		}
		return out, nil
	}})
	reg(&scalarFn{name: "arrayExists", min: 1, max: -1, higher: true, nullAware: true, ret: retConst(tUInt8), eval: func(_ *callCtx, a []Value) (Value, error) {
		lam, arrs, err := lambdaAndArrays("arrayExists", a, false)
		if err != nil {
			return nil, err
		}
		for i := range arrs[0] {
			v := arrs[0][i]
			if lam != nil {
				if v, err = callAt(lam, arrs, i); err != nil {
					return nil, err
				}
			}
			t, _, err := truth(v)
			if err != nil {
				return nil, err
			}
			if t {
				return uint64(1), nil
			}
		}
		return uint64(0), nil
	}})
	reg(&scalarFn{name: "arrayAll", min: 1, max: -1, higher: true, nullAware: true, ret: retConst(tUInt8), eval: func(_ *callCtx, a []Value) (Value, error) {
		lam, arrs, err := lambdaAndArrays("arrayAll", a, false)
		if err != nil {
			return nil, err
		}
		for i := range arrs[0] {
			v := arrs[0][i]
			if lam != nil {
				if v, err = callAt(lam, arrs, i); err != nil {
					return nil, err
				}
			}
			t, _, err := truth(v)
			if err != nil {
				return nil, err
			}
			if !t {
				return uint64(0), nil
			}
		}
		return uint64(1), nil
	}})
	firstLast := func(name string, last, index bool) {
		reg(&scalarFn{name: name, min: 2, max: -1, higher: true, nullAware: true, ret: func(ts []*Type, _ []*bnode) *Type {
			if index {
				return tUInt64
			}
			if len(ts) > 1 {
				return elemType(ts[1])
			}
			return nil
		}, eval: func(c *callCtx, a []Value) (Value, error) {
			lam, arrs, err := lambdaAndArrays(name, a, true)
			if err != nil {
				return nil, err
			}
			n := len(arrs[0])
			for k := 0; k < n; k++ {
				i := k
				if last {
					i = n - 1 - k
				}
				v, err := callAt(lam, arrs, i)
				if err != nil {
					return nil, err
				}
				t, _, err := truth(v)
				if err != nil {
					return nil, err
				}
				if t {
					if index {
						return uint64(i + 1), nil
					}
					return arrs[0][i], nil
				}
			}
			if index {
				return uint64(0), nil
			}
			t := c.node.typ
			if t == nil {
				for _, v := range arrs[0] {
					if t = typeOfValue(v); t != nil {
						break
					}
				}
			}
			return t.DefaultValue()
		}})
	}
	firstLast("arrayFirst", false, false)
	firstLast("arrayLast", true, false)
	firstLast("arrayFirstIndex", false, true)
	firstLast("arrayLastIndex", true, true)
	reg(&scalarFn{name: "arrayCount", min: 1, max: -1, higher: true, nullAware: true, ret: retConst(tUInt64), eval: func(_ *callCtx, a []Value) (Value, error) {
		lam, arrs, err := lambdaAndArrays("arrayCount", a, false)
		if err != nil {
			return nil, err
		}
		n := uint64(0)
		for i := range arrs[0] {
			v := arrs[0][i]
			if lam != nil {
				if v, err = callAt(lam, arrs, i); err != nil {
					return nil, err
				}
			}
			t, _, err := truth(v)
			if err != nil {
				return nil, err
			}
			if t {
				n++
			}
		}
		return n, nil
	}})
	sorter := func(name string, desc bool) {
		reg(&scalarFn{name: name, min: 1, max: -1, higher: true, nullAware: true, ret: func(ts []*Type, args []*bnode) *Type {
			if len(args) > 0 && args[0].kind == bLambda {
				if len(ts) > 1 {
					return ts[1]
				}
				return nil
			}
			return ts[0]
		}, eval: func(_ *callCtx, a []Value) (Value, error) {
			lam, arrs, err := lambdaAndArrays(name, a, false)
			if err != nil {
				return nil, err
			}
			src := arrs[0]
			if lam == nil {
				if len(arrs) != 1 {
					return nil, evalErrorf("NUMBER_OF_ARGUMENTS_DOESNT_MATCH", "%s without a lambda takes one array", name)
				}
				out := append(Array{}, src...)
				if err := sortValues(out, desc); err != nil {
					return nil, err
				}
				return out, nil
			}
			keys := make([]Value, len(src))
			for i := range src {
				if keys[i], err = callAt(lam, arrs, i); err != nil {
					return nil, err
				}
			}
			idx := make([]int, len(src))
			for i := range idx {
				idx[i] = i
			}
			var serr error
			sort.SliceStable(idx, func(x, y int) bool {
				kx, ky := keys[idx[x]], keys[idx[y]]
				c, ok := compareNullable(kx, ky)
				if !ok {
					serr = evalErrorf("NO_COMMON_TYPE", "%s: incomparable sort keys", name)
					return false
				}
				xn, yn := isNullOrNaN(kx), isNullOrNaN(ky)
				if xn || yn {
					return !xn && yn
				}
				if desc {
					return c > 0
				}
				return c < 0
			})
			if serr != nil {
				return nil, serr
			}
			out := make(Array, len(src))
			for i, j := range idx {
				out[i] = src[j]
			}
			return out, nil
		}})
	}
	sorter("arraySort", false)
	sorter("arrayReverseSort", true)
	reg(&scalarFn{name: "arrayZip", min: 1, max: -1, ret: func(ts []*Type, _ []*bnode) *Type {
		es := make([]*Type, len(ts))
		for i, t := range ts {
			es[i] = elemType(t)
		}
		return tArray(tTuple(es...))
	}, eval: func(_ *callCtx, a []Value) (Value, error) {
		_, arrs, err := lambdaAndArrays("arrayZip", a, false)
		if err != nil {
			return nil, err
		}
		out := make(Array, len(arrs[0]))
		for i := range out {
			t := make(Tuple, len(arrs))
			for j := range arrs {
				t[j] = arrs[j][i]
			}
			out[i] = t
		}
		return out, nil
	}})
	reg(&scalarFn{name: "arraySlice", min: 2, max: 3, nullAware: true, ret: retArg(0), eval: func(_ *callCtx, a []Value) (Value, error) {
		if a[0] == nil {
			return nil, nil
		}
		arr, err := arrArg("arraySlice", a[0])
		if err != nil {
			return nil, err
		}
		if a[1] == nil {
			return nil, unsupportedf("arraySlice with NULL offset")
		}
		if !isNumeric(a[1]) {
			return nil, typeErr("arraySlice", a[1])
		}
		n := int64(len(arr))
		off := asInt64(a[1])
		var start int64
		switch {
		case off > 0:
			start = off - 1
		case off < 0:
			start = n + off
			if start < 0 {
				start = 0 // ClickHouse clamps a too-negative offset to the beginning
			}
		default:
			return Array{}, nil
		}
		if start > n {
			start = n
		}
		end := n
		if len(a) == 3 && a[2] != nil {
			if !isNumeric(a[2]) {
				return nil, typeErr("arraySlice", a[2])
			}
			l := asInt64(a[2])
			if l >= 0 {
				end = start + l
			} else {
				end = n + l
			}
			if end > n {
				end = n
			}
			if end < start {
				end = start
			}
		}
		return append(Array{}, arr[start:end]...), nil
	}})
	reg(&scalarFn{name: "arrayConcat", min: 1, max: -1, ret: func(ts []*Type, _ []*bnode) *Type {
		for _, t := range ts {
			if t != nil {
				return t
			}
		}
		return nil
	}, eval: func(_ *callCtx, a []Value) (Value, error) {
		out := Array{}
		for _, v := range a {
			arr, err := arrArg("arrayConcat", v)
			if err != nil {
				return nil, err
			}
			out = append(out, arr...)
		}
		return out, nil
	}})
	reg(&scalarFn{name: "arrayJoin", min: 1, max: 1, eval: func(_ *callCtx, a []Value) (Value, error) {
		return nil, unsupportedf("arrayJoin() function")
	}})
	reg(&scalarFn{name: "has", min: 2, max: 2, nullAware: true, ret: retConst(tUInt8), eval: func(_ *callCtx, a []Value) (Value, error) {
		if a[0] == nil {
			return nil, nil
		}
		arr, err := arrArg("has", a[0])
		if err != nil {
			return nil, err
		}
		for _, e := range arr {
			if e == nil || a[1] == nil {
				if e == nil && a[1] == nil {
					return uint64(1), nil
				}
				continue
			}
			c, ok := compareValues(e, a[1])
			if !ok {
				return nil, evalErrorf("NO_COMMON_TYPE", "has: incomparable element and value")
			}
			if c == 0 {
				return uint64(1), nil
			}
		}
		return uint64(0), nil
	}})
	reg(&scalarFn{name: "indexOf", min: 2, max: 2, ret: retConst(tUInt64), eval: func(_ *callCtx, a []Value) (Value, error) {
		arr, err := arrArg("indexOf", a[0])
		if err != nil {
			return nil, err
		}
		for i, e := range arr {
			if e == nil {
				continue
			}
			c, ok := compareValues(e, a[1])
			if !ok {
				return nil, evalErrorf("NO_COMMON_TYPE", "indexOf: incomparable element and value")
			}
			if c == 0 {
				return uint64(i + 1), nil
			}
		}
		return uint64(0), nil
	}})
	reg(&scalarFn{name: "arrayDistinct", min: 1, max: 1, ret: retArg(0), eval: func(_ *callCtx, a []Value) (Value, error) {
		arr, err := arrArg("arrayDistinct", a[0])
		if err != nil {
			return nil, err
		}
		seen := map[string]bool{}
		out := Array{}
		for _, e := range arr {
			if e == nil {
				continue
			}
			k := keyOf(e)
			if !seen[k] {
				seen[k] = true
				out = append(out, e)
			}
		}
		return out, nil
	}})
	reg(&scalarFn{name: "arrayReverse", min: 1, max: 1, ret: retArg(0), eval: func(_ *callCtx, a []Value) (Value, error) {
		arr, err := arrArg("arrayReverse", a[0])
		if err != nil {
			return nil, err
		}
		out := make(Array, len(arr))
		for i := range arr {
			out[len(arr)-1-i] = arr[i]
		}
		return out, nil
	}})
	reg(&scalarFn{name: "arrayFlatten", min: 1, max: 1, eval: func(_ *callCtx, a []Value) (Value, error) {
		arr, err := arrArg("arrayFlatten", a[0])
		if err != nil {
			return nil, err
		}
		out := Array{}
		var rec func(x Array)
		rec = func(x Array) {
			for _, e := range x {
				if sub, ok := e.(Array); ok {
					rec(sub)
				} else {
					out = append(out, e)
				}
			}
		}
		rec(arr)
		return out, nil
	}}, "flatten")
	sumLike := func(name string) {
		reg(&scalarFn{name: name, min: 1, max: -1, higher: true, nullAware: true, eval: func(_ *callCtx, a []Value) (Value, error) {
			lam, arrs, err := lambdaAndArrays(name, a, false)
			if err != nil {
				return nil, err
			}
			vals := make([]Value, len(arrs[0]))
			for i := range vals {
				vals[i] = arrs[0][i]
				if lam != nil {
					if vals[i], err = callAt(lam, arrs, i); err != nil {
						return nil, err
					}
				}
			}
			switch name {
			case "arraySum":
				acc := &accSum{}
				anyFloat := false
				for _, v := range vals {
					if v == nil {
						return nil, unsupportedf("arraySum over NULL elements")
					}
					if _, f := v.(float64); f {
						anyFloat = true
					}
					if err := acc.add([]Value{v}); err != nil {
						return nil, err
					}
				}
				if len(vals) == 0 {
					return nil, unsupportedf("arraySum of an empty array (result type unknown to chsim)")
				}
				_ = anyFloat
				return acc.result()
			case "arrayMin", "arrayMax":
				if len(vals) == 0 {
					return nil, unsupportedf("%s of an empty array", name)
				}
				sign := 1
				if name == "arrayMin" {
					sign = -1
				}
				acc := &accMinMax{sign: sign}
				for _, v := range vals {
					if v == nil {
						return nil, unsupportedf("%s over NULL elements", name)
					}
					if err := acc.add([]Value{v}); err != nil {
						return nil, err
					}
				}
				return acc.result()
			}
			return nil, unsupportedf("%s", name)
		}})
	}
	sumLike("arraySum")
	sumLike("arrayMin")
	sumLike("arrayMax")
	reg(&scalarFn{name: "range", min: 1, max: 3, ret: retConst(tArray(tUInt64)), eval: func(_ *callCtx, a []Value) (Value, error) {
		var lo, hi, step int64 = 0, 0, 1
		switch len(a) {
		case 1:
			hi = asInt64(a[0])
		case 2:
			lo, hi = asInt64(a[0]), asInt64(a[1])
		case 3:
			lo, hi, step = asInt64(a[0]), asInt64(a[1]), asInt64(a[2])
		}
		if step <= 0 || (hi-lo)/step > 1<<20 {
			return nil, unsupportedf("range(%d,%d,%d)", lo, hi, step)
		}
		out := Array{}
		for x := lo; x < hi; x += step {
			if _, signed := a[0].(int64); signed {
				out = append(out, x)
			} else {
				out = append(out, uint64(x))
			}
		}
		return out, nil
	}})
	reg(&scalarFn{name: "arrayEnumerate", min: 1, max: 1, ret: retConst(tArray(tUInt64)), eval: func(_ *callCtx, a []Value) (Value, error) {
		arr, err := arrArg("arrayEnumerate", a[0])
		if err != nil {
			return nil, err
		}
		out := make(Array, len(arr))
		for i := range arr {
			out[i] = uint64(i + 1)
		}
		return out, nil
	}})

	// ---- maps
	reg(&scalarFn{name: "mapFromArrays", min: 2, max: 2, ret: func(ts []*Type, _ []*bnode) *Type {
		return tMap(elemType(ts[0]), elemType(ts[1]))
	}, eval: func(_ *callCtx, a []Value) (Value, error) {
		ks, err := arrArg("mapFromArrays", a[0])
		if err != nil {
			return nil, err
		}
		vs, err := arrArg("mapFromArrays", a[1])
		if err != nil {
			return nil, err
		}
		if len(ks) != len(vs) {
			return nil, evalErrorf("SIZES_OF_ARRAYS_DONT_MATCH", "mapFromArrays: keys and values have different sizes (%d, %d)", len(ks), len(vs))
		}
		for _, k := range ks {
			if k == nil {
				return nil, evalErrorf("BAD_ARGUMENTS", "mapFromArrays: NULL key")
			}
		}
		return &Map{Keys: append([]Value{}, ks...), Vals: append([]Value{}, vs...)}, nil
	}})
	reg(&scalarFn{name: "map", min: 0, max: -1, nullAware: true, ret: func(ts []*Type, _ []*bnode) *Type {
		if len(ts) >= 2 {
			return tMap(ts[0], ts[1])
		}
		return nil
	}, eval: func(_ *callCtx, a []Value) (Value, error) {
		if len(a)%2 != 0 {
			return nil, evalErrorf("NUMBER_OF_ARGUMENTS_DOESNT_MATCH", "map() needs an even number of arguments")
		}
		m := &Map{}
		for i := 0; i < len(a); i += 2 {
			m.Keys = append(m.Keys, a[i])
			m.Vals = append(m.Vals, a[i+1])
		}
		return m, nil
	}})
	mapArg := func(fn string, v Value) (*Map, error) {
		m, ok := v.(*Map)
		if !ok {
			return nil, typeErr(fn, v)
		}
		return m, nil
	}
	reg(&scalarFn{name: "mapKeys", min: 1, max: 1, ret: func(ts []*Type, _ []*bnode) *Type {
		if ts[0] != nil && ts[0].Name == "Map" {
			return tArray(ts[0].Args[0])
		}
		return nil
	}, eval: func(_ *callCtx, a []Value) (Value, error) {
		m, err := mapArg("mapKeys", a[0])
		if err != nil {
			return nil, err
		}
		return Array(append([]Value{}, m.Keys...)), nil
	}})
	reg(&scalarFn{name: "mapValues", min: 1, max: 1, ret: func(ts []*Type, _ []*bnode) *Type {
		if ts[0] != nil && ts[0].Name == "Map" {
			return tArray(ts[0].Args[1])
		}
		return nil
	}, eval: func(_ *callCtx, a []Value) (Value, error) {
		m, err := mapArg("mapValues", a[0])
		if err != nil {
			return nil, err
		}
		return Array(append([]Value{}, m.Vals...)), nil
	}})
	reg(&scalarFn{name: "mapContains", min: 2, max: 2, ret: retConst(tUInt8), eval: func(_ *callCtx, a []Value) (Value, error) {
		m, err := mapArg("mapContains", a[0])
		if err != nil {
			return nil, err
		}
		_, ok := m.Get(a[1])
		return boolVal(ok), nil
	}}, "mapContainsKey")
	// mapUpdate(m1, m2), transcribed from ClickHouse's FunctionMapUpdate: the entries of m1 whose key does not occur
	// in m2 (in m1 order), followed by ALL entries of m2 (in m2 order).
	reg(&scalarFn{name: "mapUpdate", min: 2, max: 2, ret: func(ts []*Type, _ []*bnode) *Type {
		if ts[0] != nil {
			return ts[0]
		}
		return ts[1]
	}, eval: func(_ *callCtx, a []Value) (Value, error) {
		m1, err := mapArg("mapUpdate", a[0])
		if err != nil {
			return nil, err
		}
		m2, err := mapArg("mapUpdate", a[1])
		if err != nil {
			return nil, err
		}
		out := &Map{}
		for i, k := range m1.Keys {
			if _, ok := m2.Get(k); !ok {
				out.Keys = append(out.Keys, k)
				out.Vals = append(out.Vals, m1.Vals[i])
			}
		}
		out.Keys = append(out.Keys, m2.Keys...)
		out.Vals = append(out.Vals, m2.Vals...)
		return out, nil
	}})
	reg(&scalarFn{name: "mapFilter", min: 2, max: 2, higher: true, nullAware: true, ret: retArg(1), eval: func(_ *callCtx, a []Value) (Value, error) {
		lam, ok := a[0].(*closure)
		if !ok {
			return nil, evalErrorf("ILLEGAL_TYPE_OF_ARGUMENT", "first argument of mapFilter must be a lambda")
		}
		if a[1] == nil {
			return nil, nil
		}
		m, err := mapArg("mapFilter", a[1])
		if err != nil {
			return nil, err
		}
		if lam.n.nparams != 2 {
			return nil, evalErrorf("NUMBER_OF_ARGUMENTS_DOESNT_MATCH", "mapFilter lambda must take (k, v)")
		}
		out := &Map{}
		for i := range m.Keys {
			v, err := lam.call(m.Keys[i], m.Vals[i])
			if err != nil {
				return nil, err
			}
			t, _, err := truth(v)
			if err != nil {
				return nil, err
			}
			if t {
				out.Keys = append(out.Keys, m.Keys[i])
				out.Vals = append(out.Vals, m.Vals[i])
			}
		}
		return out, nil
	}})
	reg(&scalarFn{name: "mapApply", min: 2, max: 2, higher: true, nullAware: true, eval: func(_ *callCtx, a []Value) (Value, error) {
		lam, ok := a[0].(*closure)
		if !ok {
			return nil, evalErrorf("ILLEGAL_TYPE_OF_ARGUMENT", "first argument of mapApply must be a lambda")
		}
		m, err := mapArg("mapApply", a[1])
		if err != nil {
			return nil, err
		}
		out := &Map{}
		for i := range m.Keys {
			v, err := lam.call(m.Keys[i], m.Vals[i])
			if err != nil {
				return nil, err
			}
			t, ok := v.(Tuple)
			if !ok || len(t) != 2 {
				return nil, evalErrorf("ILLEGAL_TYPE_OF_ARGUMENT", "mapApply lambda must return a (key, value) tuple")
			}
			out.Keys = append(out.Keys, t[0])
			out.Vals = append(out.Vals, t[1])
		}
		return out, nil
	}})
}
