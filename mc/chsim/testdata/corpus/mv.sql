-- #### mv | single | ctrl/qryn/sql/log.sql statement #9: CREATE MATERIALIZED VIEW IF NOT EXISTS qryn.time_series_gin_view TO time_series_gin AS <body>
SELECT     date,     pairs.1 as key,     pairs.2 as val,     fingerprint FROM time_series ARRAY JOIN JSONExtractKeysAndValues(time_series.labels, 'String') as pairs

-- #### mv | single | ctrl/qryn/sql/log.sql statement #12: CREATE MATERIALIZED VIEW IF NOT EXISTS qryn.metrics_15s_mv TO metrics_15s AS <body>
SELECT     fingerprint,     intDiv(samples.timestamp_ns, 15000000000) * 15000000000 as timestamp_ns,     argMaxState(value, samples.timestamp_ns) as last,     maxSimpleState(value) as max,     minSimpleState(value) as min,     countState() as count,     sumSimpleState(value) as sum,     sumSimpleState(length(string)) as bytes FROM qryn.samples_v3 as samples GROUP BY fingerprint, timestamp_ns

-- #### mv | single | ctrl/qryn/sql/log.sql statement #20: CREATE MATERIALIZED VIEW IF NOT EXISTS qryn.time_series_gin_view TO time_series_gin AS <body>
SELECT     date,     pairs.1 as key,     pairs.2 as val,     fingerprint,     type FROM time_series ARRAY JOIN JSONExtractKeysAndValues(time_series.labels, 'String') as pairs

-- #### mv | single | ctrl/qryn/sql/log.sql statement #23: CREATE MATERIALIZED VIEW IF NOT EXISTS qryn.metrics_15s_mv TO metrics_15s AS <body>
SELECT     fingerprint,     intDiv(samples.timestamp_ns, 15000000000) * 15000000000 as timestamp_ns,     argMaxState(value, samples.timestamp_ns) as last,     maxSimpleState(value) as max,     minSimpleState(value) as min,     countState() as count,     sumSimpleState(value) as sum,     sumSimpleState(length(string)) as bytes,     type FROM samples_v3 as samples GROUP BY fingerprint, timestamp_ns, type

-- #### mv | single | ctrl/qryn/sql/traces.sql statement #4: CREATE MATERIALIZED VIEW IF NOT EXISTS qryn.tempo_traces_kv_mv TO tempo_traces_kv AS <body>
SELECT     oid,     date,     key,     cityHash64(val) % 10000 as val_id,     val FROM tempo_traces_attrs_gin

-- #### mv | single | ctrl/qryn/sql/traces.sql statement #6: CREATE MATERIALIZED VIEW IF NOT EXISTS qryn.traces_input_traces_mv TO tempo_traces AS <body>
SELECT  oid,     unhex(trace_id)::FixedString(16) as trace_id,     unhex(span_id)::FixedString(8) as span_id,     unhex(parent_id) as parent_id,     name,     timestamp_ns,     duration_ns,     service_name,     payload_type,     payload FROM traces_input

-- #### mv | single | ctrl/qryn/sql/traces.sql statement #7: CREATE MATERIALIZED VIEW IF NOT EXISTS qryn.traces_input_tags_mv TO tempo_traces_attrs_gin AS <body>
SELECT  oid,     toDate(intDiv(timestamp_ns, 1000000000)) as date,     tags.1 as key,     tags.2 as val,     unhex(trace_id)::FixedString(16) as trace_id,     unhex(span_id)::FixedString(8) as span_id,     timestamp_ns,          duration_ns as duration FROM traces_input ARRAY JOIN tags

-- #### mv | single | ctrl/qryn/sql/profiles.sql statement #3: CREATE MATERIALIZED VIEW IF NOT EXISTS qryn.profiles_mv TO profiles AS <body>
SELECT     timestamp_ns,     cityHash64(arraySort(arrayConcat(     profiles_input.tags, [       ('__type__', concatWithSeparator(':', type, period_type, period_unit) as _type_id),       ('__sample_types_units__', arrayStringConcat(arrayMap(x -> x.1 || ':' || x.2, arraySort(sample_types_units)), ';')),       ('service_name', service_name)     ])) as _tags) as fingerprint,     _type_id as type_id,     sample_types_units,     service_name,     duration_ns,     payload_type,     payload,     values_agg FROM profiles_input

-- #### mv | single | ctrl/qryn/sql/profiles.sql statement #5: CREATE MATERIALIZED VIEW IF NOT EXISTS qryn.profiles_series_mv TO profiles_series AS <body>
SELECT   toDate(intDiv(timestamp_ns, 1000000000)) as date,   concatWithSeparator(':', type, period_type, period_unit) as type_id,   sample_types_units,   service_name,   cityHash64(arraySort(arrayConcat(     profiles_input.tags, [     ('__type__', type_id),     ('__sample_types_units__', arrayStringConcat(arrayMap(x -> x.1 || ':' || x.2, arraySort(sample_types_units)), ';')),     ('service_name', service_name)   ])) as _tags) as fingerprint,   arrayConcat(profiles_input.tags, [('service_name', service_name)]) as tags FROM profiles_input

-- #### mv | single | ctrl/qryn/sql/profiles.sql statement #7: CREATE MATERIALIZED VIEW IF NOT EXISTS qryn.profiles_series_gin_mv TO profiles_series_gin AS <body>
SELECT     date,     kv.1 as key,     kv.2 as val,     type_id,     sample_types_units,     service_name,     fingerprint FROM profiles_series ARRAY JOIN tags as kv

-- #### mv | single | ctrl/qryn/sql/profiles.sql statement #9: CREATE MATERIALIZED VIEW IF NOT EXISTS qryn.profiles_series_keys_mv TO profiles_series_keys AS <body>
SELECT     date,     key,     val,     cityHash64(val) % 50000 as val_id FROM profiles_series_gin

-- #### mv | single | ctrl/qryn/sql/profiles.sql statement #13: CREATE MATERIALIZED VIEW IF NOT EXISTS qryn.profiles_mv TO profiles AS <body>
SELECT     timestamp_ns,     cityHash64(arraySort(arrayConcat(       profiles_input.tags, [         ('__type__', concatWithSeparator(':', type, period_type, period_unit) as _type_id),         ('__sample_types_units__', arrayStringConcat(arrayMap(x -> x.1 || ':' || x.2, arraySort(sample_types_units)), ';')),         ('service_name', service_name)     ])) as _tags) as fingerprint,     _type_id as type_id,     sample_types_units,     service_name,     duration_ns,     payload_type,     payload,     values_agg,     tree,     functions FROM profiles_input

