-- #### other | single | dbVersion.GetVersionInfo (reader/utils/dbVersion/version.go), issued before planning
SELECT argMax(name, inserted_at) as _name , argMax(value, inserted_at) as _value FROM settings WHERE type='update' GROUP BY fingerprint HAVING _name!=''

-- #### other | single | dbVersion.GetVersionInfo (reader/utils/dbVersion/version.go), issued before planning
SHOW TABLES

-- #### other | cluster | dbVersion.GetVersionInfo (reader/utils/dbVersion/version.go), issued before planning
SELECT argMax(name, inserted_at) as _name , argMax(value, inserted_at) as _value FROM settings_dist WHERE type='update' GROUP BY fingerprint HAVING _name!=''

-- #### other | single | copied (outside /repo/reader): ctrl/qryn/maintenance/update.go updateScripts, verTable=ver, arg $1=k
SELECT max(ver) as ver FROM ver WHERE k = $1 FORMAT JSON

-- #### other | cluster | copied (outside /repo/reader): ctrl/qryn/maintenance/update.go updateScripts, verTable=ver_dist, arg $1=k
SELECT max(ver) as ver FROM ver_dist WHERE k = $1 FORMAT JSON

-- #### other | single | copied (outside /repo/reader): ctrl/qryn/maintenance/update.go tableEmpty(name)
SELECT count(1) FROM samples_v3

-- #### other | single | copied (outside /repo/reader): ctrl/qryn/maintenance/rotate.go getSetting, arg $1=fingerprint
SELECT argMax(value, inserted_at) as _value FROM settings WHERE fingerprint = $1 GROUP BY fingerprint HAVING argMax(name, inserted_at) != ''

-- #### other | cluster | copied (outside /repo/reader): ctrl/qryn/maintenance/rotate.go getSetting (dist), arg $1=fingerprint
SELECT argMax(value, inserted_at) as _value FROM settings_dist WHERE fingerprint = $1 GROUP BY fingerprint HAVING argMax(name, inserted_at) != ''

-- #### other | cluster | copied (outside /repo/reader): writer/setup_check.go + writer/plugin/utils.go, arg $1=clusterName
select count(distinct shard_num) from system.clusters where cluster=$1

-- #### other | single | copied (outside /repo/reader): writer/plugin/qryn_writer_db.go checkTable(table)
SELECT 1 FROM time_series LIMIT 1

-- #### other | cluster | copied (outside /repo/reader): writer/plugin/qryn_writer_db.go checkTable(dist table)
SELECT 1 FROM samples_v3_dist LIMIT 1

-- #### other | single | copied (outside /repo/reader): writer/ch_wrapper/general_purpose_ch_client.go tableEmpty
SELECT count(1) FROM tempo_traces

