package chsim

import (
	"strconv"
	"strings"
)

// Expr is an expression node.
type Expr interface{ exprNode() }

// Lit is a literal: number, string, NULL.
type Lit struct{ Val Value }

// Ident is a possibly qualified name: col, tbl.col, db.tbl.col.
type Ident struct{ Parts []string }

// Star is `*` or `tbl.*`.
type Star struct{ Qualifier []string }

// Func is a function call, including operators (parsed to their function names: equals, plus, and, …),
// array/tuple literals (array(...), tuple(...)), arrayElement / tupleElement.  Params is the first parenthesis of
// a parametric aggregate: quantile(0.5)(x) has Params=[0.5], Args=[x].
type Func struct {
	Name     string
	Args     []Expr
	Params   []Expr
	Distinct bool
	// ConstIndex marks arrayElement/tupleElement written with a literal index (affects error behaviour).
	Operator bool // came from operator syntax (only for printing)
}

// Lambda is `x -> body` or `(x, y) -> body`.
type Lambda struct {
	Params []string
	Body   Expr
}

// Alias is `expr AS name` (anywhere ClickHouse allows it).
type Alias struct {
	Expr Expr
	Name string
}

// Cast is `expr::Type`, CAST(expr AS Type) or CAST(expr, 'Type').
type Cast struct {
	Expr Expr
	Type *Type
}

// Subquery is a parenthesised SELECT used as an expression (scalar subquery or right side of IN).
type Subquery struct {
	Stmt *Stmt
	ID   int // position-derived identity inside the statement (set by the parser)
}

// In is `left [NOT] [GLOBAL] IN right`; right is a Subquery, an Ident (table / CTE name), a tuple(...) literal
// Func, or a single expression.
type In struct {
	Left   Expr
	Right  Expr
	Not    bool
	Global bool
}

func (*Lit) exprNode()      {}
func (*Ident) exprNode()    {}
func (*Star) exprNode()     {}
func (*Func) exprNode()     {}
func (*Lambda) exprNode()   {}
func (*Alias) exprNode()    {}
func (*Cast) exprNode()     {}
func (*Subquery) exprNode() {}
func (*In) exprNode()       {}

// Stmt is a full statement: SELECT … [UNION ALL | INTERSECT | EXCEPT SELECT …]…
type Stmt struct {
	// Exactly one of Select / Set is used.
	Select *Select
	Set    *SetOp
	// Format / trailing settings are parsed and ignored.
	Format string
}

// SetOp combines statements: Op is "UNION ALL", "UNION DISTINCT", "INTERSECT", "EXCEPT".
type SetOp struct {
	Op    string
	Left  *Stmt
	Right *Stmt
}

type WithItem struct {
	Name  string
	Query *Stmt // WITH name AS (subquery)
	Expr  Expr  // WITH expr AS name
}

type OrderItem struct {
	Expr       Expr
	Desc       bool
	NullsFirst *bool // nil = default (NULLS LAST)
}

type TableRef struct {
	Name  []string // [db.]table or CTE name
	Sub   *Stmt    // subquery
	Func  *Func    // table function (numbers(...))
	Alias string
	Final bool
}

type Join struct {
	Kind       string // "INNER","LEFT","RIGHT","FULL","CROSS"
	Strictness string // "", "ANY", "ALL", "SEMI", "ANTI", "ASOF"
	Global     bool
	Table      *TableRef
	On         Expr
	Using      []string
}

type ArrayJoin struct {
	Left  bool
	Exprs []Expr // each possibly an *Alias
}

// FromItem is, in order of appearance after the first table, either a Join or an ArrayJoin.
type FromItem struct {
	Join      *Join
	ArrayJoin *ArrayJoin
}

type Select struct {
	With     []WithItem
	Distinct bool
	Cols     []Expr // *Alias for aliased columns
	From     *TableRef
	Items    []FromItem
	PreWhere Expr
	Where    Expr
	GroupBy  []Expr
	Having   Expr
	OrderBy  []OrderItem
	LimitBy  *LimitBy
	Limit    Expr
	Offset   Expr
	Settings map[string]string
}

type LimitBy struct {
	N      Expr
	Offset Expr
	By     []Expr
}

// ---------------------------------------------------------------------------------------------------------
// printing (used for canonical keys, default column names and diagnostics)

// ExprString renders an expression in a canonical functional form.
func ExprString(e Expr) string {
	var b strings.Builder
	writeExpr(&b, e)
	return b.String()
}

func writeExpr(b *strings.Builder, e Expr) {
	switch x := e.(type) {
	case nil:
		b.WriteString("<nil>")
	case *Lit:
		switch v := x.Val.(type) {
		case string:
			b.WriteString(QuoteString(v))
		case nil:
			b.WriteString("NULL")
		default:
			b.WriteString(ToString(v))
		}
	case *Ident:
		b.WriteString(strings.Join(x.Parts, "."))
	case *Star:
		if len(x.Qualifier) > 0 {
			b.WriteString(strings.Join(x.Qualifier, "."))
			b.WriteString(".")
		}
		b.WriteString("*")
	case *Func:
		b.WriteString(x.Name)
		if x.Params != nil {
			b.WriteString("(")
			for i, a := range x.Params {
				if i > 0 {
					b.WriteString(", ")
				}
				writeExpr(b, a)
			}
			b.WriteString(")")
		}
		b.WriteString("(")
		if x.Distinct {
			b.WriteString("DISTINCT ")
		}
		for i, a := range x.Args {
			if i > 0 {
				b.WriteString(", ")
			}
			writeExpr(b, a)
		}
		b.WriteString(")")
	case *Lambda:
		b.WriteString("lambda(tuple(")
		b.WriteString(strings.Join(x.Params, ", "))
		b.WriteString("), ")
		writeExpr(b, x.Body)
		b.WriteString(")")
	case *Alias:
		writeExpr(b, x.Expr)
		b.WriteString(" AS ")
		b.WriteString(x.Name)
	case *Cast:
		b.WriteString("CAST(")
		writeExpr(b, x.Expr)
		b.WriteString(", ")
		b.WriteString(QuoteString(x.Type.String()))
		b.WriteString(")")
	case *Subquery:
		b.WriteString("_subquery@")
		b.WriteString(strconv.Itoa(x.ID))
	case *In:
		name := "in"
		if x.Not {
			name = "notIn"
		}
		if x.Global {
			name = "global" + strings.ToUpper(name[:1]) + name[1:]
		}
		b.WriteString(name)
		b.WriteString("(")
		writeExpr(b, x.Left)
		b.WriteString(", ")
		writeExpr(b, x.Right)
		b.WriteString(")")
	}
}
