package chsim

import (
	"fmt"
	"math"
	"sort"
	"strings"
)

// AggState is the value of an AggregateFunction(...) column (what countState()/argMaxState() produce and
// countMerge()/argMaxMerge() consume).
type AggState struct {
	Fn    string // base function: count, argMax, sum, …
	Count uint64 // count
	Val   Value  // argMax/argMin: value; sum/min/max/any: value
	Key   Value  // argMax/argMin: key
	Has   bool
}

func (s *AggState) debug() string {
	return fmt.Sprintf("%d|%s|%s|%v", s.Count, Format(s.Val), Format(s.Key), s.Has)
}

// CountState builds the state countState() would produce over n rows.
func CountState(n uint64) *AggState { return &AggState{Fn: "count", Count: n, Has: true} }

// ArgMaxState builds the state of argMaxState(val, key) after seeing one (val, key) pair.
func ArgMaxState(val, key Value) *AggState {
	return &AggState{Fn: "argMax", Val: V(val), Key: V(key), Has: true}
}

type aggSpec struct {
	base     string
	combs    []string // applied outermost-last, e.g. sumIf → ["If"], argMaxMerge → ["Merge"]
	params   []Value
	distinct bool
	args     []*bnode
}

type accumulator interface {
	add(args []Value) error
	result() (Value, error)
}

var aggBases = map[string]bool{
	"count": true, "sum": true, "min": true, "max": true, "avg": true, "any": true, "anyLast": true,
	"argMin": true, "argMax": true, "groupArray": true, "groupUniqArray": true, "groupBitOr": true, "groupBitAnd": true,
	"groupBitXor": true, "quantile": true, "quantileExact": true, "median": true, "stddevPop": true, "varPop": true,
	"stddevSamp": true, "varSamp": true, "uniq": true, "uniqExact": true, "groupArraySorted": false,
	"sumMap": false, "topK": false, "anyHeavy": false, "first_value": true, "last_value": true,
}

var aggCaseInsensitive = map[string]string{"count": "count", "sum": "sum", "min": "min", "max": "max", "avg": "avg",
	"any": "any", "stddevpop": "stddevPop", "varpop": "varPop", "stddev_pop": "stddevPop", "var_pop": "varPop",
	"stddevsamp": "stddevSamp", "varsamp": "varSamp", "stddev_samp": "stddevSamp", "var_samp": "varSamp",
	"first_value": "first_value", "last_value": "last_value", "median": "median"}

var aggCombinators = []string{"If", "Array", "Merge", "State", "SimpleState", "Distinct", "OrNull", "OrDefault", "MergeState"}

// parseAggName recognises an aggregate function name with combinators.  ok=false: not an aggregate.
func parseAggName(name string) (*aggSpec, bool, error) {
	base := name
	if c, ok := aggCaseInsensitive[strings.ToLower(name)]; ok {
		base = c
	}
	if sup, ok := aggBases[base]; ok {
		if !sup {
			return nil, false, unsupportedf("aggregate function %s", name)
		}
		return &aggSpec{base: normAggBase(base)}, true, nil
	}
	// peel combinators from the right
	var combs []string
	rest := name
	for {
		peeled := false
		for _, c := range aggCombinators {
			if strings.HasSuffix(rest, c) && len(rest) > len(c) {
				cand := rest[:len(rest)-len(c)]
				// only accept when the remainder is (eventually) an aggregate
				if isAggWithCombs(cand) {
					combs = append([]string{c}, combs...)
					rest = cand
					peeled = true
					break
				}
			}
		}
		if !peeled {
			break
		}
	}
	if len(combs) == 0 {
		return nil, false, nil
	}
	b := rest
	if c, ok := aggCaseInsensitive[strings.ToLower(rest)]; ok {
		b = c
	}
	if sup, ok := aggBases[b]; !ok || !sup {
		return nil, false, unsupportedf("aggregate function %s", name)
	}
	for _, c := range combs {
		switch c {
		case "If", "Array", "Merge", "State", "SimpleState", "Distinct":
		default:
			return nil, false, unsupportedf("aggregate combinator -%s (%s)", c, name)
		}
	}
	return &aggSpec{base: normAggBase(b), combs: combs}, true, nil
}

func normAggBase(b string) string {
	switch b {
	case "first_value":
		return "any"
	case "last_value":
		return "anyLast"
	case "median":
		return "quantile"
	}
	return b
}

func isAggWithCombs(name string) bool {
	if c, ok := aggCaseInsensitive[strings.ToLower(name)]; ok {
		name = c
	}
	if _, ok := aggBases[name]; ok {
		return true
	}
	for _, c := range aggCombinators {
		if strings.HasSuffix(name, c) && len(name) > len(c) && isAggWithCombs(name[:len(name)-len(c)]) {
			return true
		}
	}
	return false
}

func (s *aggSpec) hasComb(c string) bool {
	for _, x := range s.combs {
		if x == c {
			return true
		}
	}
	return false
}

// baseArity is the number of arguments of the base function.
func (s *aggSpec) baseArity() (min, max int) {
	switch s.base {
	case "count":
		return 0, 1
	case "argMin", "argMax":
		return 2, 2
	}
	return 1, 1
}

func (s *aggSpec) validate() error {
	n := len(s.args)
	if s.hasComb("If") {
		n--
	}
	if s.hasComb("Merge") {
		if n != 1 {
			return evalErrorf("NUMBER_OF_ARGUMENTS_DOESNT_MATCH", "-Merge takes one state argument")
		}
		return nil
	}
	lo, hi := s.baseArity()
	if n < lo || n > hi {
		return evalErrorf("NUMBER_OF_ARGUMENTS_DOESNT_MATCH", "aggregate function %s called with %d arguments", s.base, n)
	}
	switch s.base {
	case "quantile", "quantileExact":
		if len(s.params) > 1 {
			return evalErrorf("NUMBER_OF_ARGUMENTS_DOESNT_MATCH", "quantile takes at most one parameter")
		}
	case "groupArray", "groupUniqArray":
		if len(s.params) > 1 {
			return evalErrorf("NUMBER_OF_ARGUMENTS_DOESNT_MATCH", "%s takes at most one parameter", s.base)
		}
	default:
		if len(s.params) > 0 {
			return evalErrorf("AGGREGATE_FUNCTION_DOESNT_ALLOW_PARAMETERS", "aggregate function %s does not take parameters", s.base)
		}
	}
	return nil
}

func (s *aggSpec) argType(i int) *Type {
	if i < len(s.args) {
		t := s.args[i].typ
		if t != nil && s.hasComb("Array") && t.Name == "Array" {
			return t.Args[0]
		}
		if t != nil && t.Name == "Nullable" {
			return t.Args[0]
		}
		return t
	}
	return nil
}

func (s *aggSpec) resultType() *Type {
	t := s.plainResultType()
	if t != nil && s.nullableArgs() && !s.nullExempt() {
		return tNullable(t)
	}
	return t
}

func (s *aggSpec) plainResultType() *Type {
	if s.hasComb("State") {
		return &Type{Name: "AggregateFunction"}
	}
	if s.hasComb("Merge") {
		switch s.base {
		case "count", "uniq", "uniqExact":
			return tUInt64
		}
		return nil
	}
	switch s.base {
	case "count", "uniq", "uniqExact":
		return tUInt64
	case "avg", "quantile", "stddevPop", "varPop", "stddevSamp", "varSamp":
		return tFloat64
	case "sum":
		t := s.argType(0)
		switch {
		case t.isFloat():
			return tFloat64
		case t.isInt():
			return tInt64
		case t.isUInt():
			return tUInt64
		}
		return nil
	case "min", "max", "any", "anyLast", "argMin", "argMax", "quantileExact", "groupBitOr", "groupBitAnd", "groupBitXor":
		return s.argType(0)
	case "groupArray", "groupUniqArray":
		return tArray(s.argType(0))
	}
	return nil
}

// feed evaluates the argument expressions on the current row and adds them to the accumulator, applying the
// combinators (-If condition, -Array unfolding) and the "NULL arguments are skipped" rule.
// nullExempt: aggregate functions whose result is never wrapped in Nullable (returns_default_when_only_null, or
// a result type that cannot be inside Nullable).
func (s *aggSpec) nullExempt() bool {
	switch s.base {
	case "count", "uniq", "uniqExact", "groupArray", "groupUniqArray":
		return true
	}
	return s.hasComb("State") || s.hasComb("SimpleState") || s.hasComb("Merge")
}

// nullableArgs: some (non-condition) argument is statically Nullable, so ClickHouse wraps the function in
// AggregateFunctionNull: the result type is Nullable(T) and the value is NULL unless a row was actually added.
func (s *aggSpec) nullableArgs() bool {
	n := len(s.args)
	if s.hasComb("If") {
		n--
	}
	for i := 0; i < n; i++ {
		t := s.args[i].typ
		if t != nil && s.hasComb("Array") && t.Name == "Array" {
			t = t.Args[0]
		}
		if t != nil && t.Name == "Nullable" {
			return true
		}
	}
	return false
}

// accState tracks, per group and aggregate, whether a row was added and whether a row was skipped for a NULL
// argument (dynamic evidence that the argument is Nullable when its static type is unknown).
type accFlags struct{ added, sawNull bool }

func (s *aggSpec) feed(ctx *evalCtx, acc accumulator, fl *accFlags) error {
	var buf [4]Value
	vals := buf[:0]
	for _, a := range s.args {
		v, err := a.eval(ctx)
		if err != nil {
			return err
		}
		vals = append(vals, v)
	}
	// combinators apply right-to-left on the name: sumArrayIf(arr, cond): If is outermost
	for i := len(s.combs) - 1; i >= 0; i-- {
		switch s.combs[i] {
		case "If":
			cond := vals[len(vals)-1]
			vals = vals[:len(vals)-1]
			t, _, err := truth(cond)
			if err != nil {
				return err
			}
			if !t {
				return nil
			}
		case "Array":
			n := -1
			arrs := make([]Array, len(vals))
			for j, v := range vals {
				a, ok := v.(Array)
				if !ok {
					if v == nil {
						fl.sawNull = true
						return nil
					}
					return evalErrorf("ILLEGAL_TYPE_OF_ARGUMENT", "-Array combinator needs array arguments, got %s", typeNameOf(v))
				}
				if n >= 0 && len(a) != n {
					return evalErrorf("SIZES_OF_ARRAYS_DONT_MATCH", "-Array arguments of different sizes")
				}
				n = len(a)
				arrs[j] = a
			}
			rest := append([]string{}, s.combs[:i]...)
			for e := 0; e < n; e++ {
				elem := make([]Value, len(arrs))
				for j := range arrs {
					elem[j] = arrs[j][e]
				}
				if err := feedBase(acc, elem, fl); err != nil {
					return err
				}
			}
			_ = rest
			return nil
		}
	}
	return feedBase(acc, vals, fl)
}

func feedBase(acc accumulator, vals []Value, fl *accFlags) error {
	for _, v := range vals {
		if v == nil {
			fl.sawNull = true
			return nil
		}
	}
	fl.added = true
	return acc.add(vals)
}

func (s *aggSpec) newAcc() (accumulator, error) {
	var inner accumulator
	merge := s.hasComb("Merge")
	switch s.base {
	case "count":
		inner = &accCount{merge: merge}
	case "sum":
		inner = &accSum{typ: s.argType(0)}
	case "min":
		inner = &accMinMax{sign: -1, typ: s.argType(0)}
	case "max":
		inner = &accMinMax{sign: 1, typ: s.argType(0)}
	case "any":
		inner = &accAny{typ: s.argType(0)}
	case "anyLast":
		inner = &accAny{last: true, typ: s.argType(0)}
	case "avg":
		inner = &accMoments{kind: "avg"}
	case "stddevPop", "varPop", "stddevSamp", "varSamp":
		inner = &accMoments{kind: s.base}
	case "argMin":
		inner = &accArg{sign: -1, typ: s.argType(0), merge: merge}
	case "argMax":
		inner = &accArg{sign: 1, typ: s.argType(0), merge: merge}
	case "groupArray":
		lim := -1
		if len(s.params) == 1 {
			u, ok := s.params[0].(uint64)
			if !ok || u == 0 {
				return nil, evalErrorf("BAD_ARGUMENTS", "groupArray parameter must be a positive integer")
			}
			lim = int(u)
		}
		inner = &accGroupArray{limit: lim}
	case "groupUniqArray":
		lim := -1
		if len(s.params) == 1 {
			u, ok := s.params[0].(uint64)
			if !ok || u == 0 {
				return nil, evalErrorf("BAD_ARGUMENTS", "groupUniqArray parameter must be a positive integer")
			}
			lim = int(u)
		}
		inner = &accGroupArray{limit: lim, uniq: true, seen: map[string]bool{}}
	case "groupBitOr", "groupBitAnd", "groupBitXor":
		inner = &accBit{op: s.base}
	case "quantile", "quantileExact":
		level := 0.5
		if len(s.params) == 1 {
			f, ok := toFloat(s.params[0])
			if !ok || f < 0 || f > 1 {
				return nil, evalErrorf("PARAMETER_OUT_OF_BOUND", "quantile level must be in [0,1]")
			}
			level = f
		}
		inner = &accQuantile{level: level, exact: s.base == "quantileExact"}
	case "uniq", "uniqExact":
		inner = &accUniq{seen: map[string]bool{}}
	default:
		return nil, unsupportedf("aggregate function %s", s.base)
	}
	if merge {
		switch s.base {
		case "count", "argMax", "argMin":
		default:
			return nil, unsupportedf("-Merge of %s states", s.base)
		}
	}
	if s.hasComb("State") || s.hasComb("SimpleState") {
		if s.hasComb("SimpleState") {
			return inner, nil // SimpleState stores the plain value
		}
		switch s.base {
		case "count", "argMax", "argMin":
			return &accState{inner: inner, fn: s.base}, nil
		}
		return nil, unsupportedf("-State of %s", s.base)
	}
	if s.distinct || s.hasComb("Distinct") {
		return &accDistinct{inner: inner, seen: map[string]bool{}}, nil
	}
	return inner, nil
}

// --- accumulators

type accCount struct {
	n     uint64
	merge bool
}

func (a *accCount) add(args []Value) error {
	if a.merge {
		st, ok := args[0].(*AggState)
		if !ok || st.Fn != "count" {
			return evalErrorf("ILLEGAL_TYPE_OF_ARGUMENT", "countMerge needs AggregateFunction(count) states, got %s", typeNameOf(args[0]))
		}
		a.n += st.Count
		return nil
	}
	a.n++
	return nil
}
func (a *accCount) result() (Value, error) { return a.n, nil }

type accSum struct {
	typ *Type
	has bool
	i   int64
	u   uint64
	f   float64
	k   byte // 'i','u','f'
}

func (a *accSum) add(args []Value) error {
	switch x := args[0].(type) {
	case int64:
		if a.k == 0 {
			a.k = 'i'
		}
		if a.k == 'f' {
			a.f += float64(x)
		} else {
			a.i += x
			a.u += uint64(x)
		}
	case uint64:
		if a.k == 0 {
			a.k = 'u'
		}
		if a.k == 'f' {
			a.f += float64(x)
		} else {
			a.i += int64(x)
			a.u += x
		}
	case float64:
		if a.k != 'f' {
			if a.k == 'i' {
				a.f = float64(a.i)
			} else if a.k == 'u' {
				a.f = float64(a.u)
			}
			a.k = 'f'
		}
		a.f += x
	default:
		return evalErrorf("ILLEGAL_TYPE_OF_ARGUMENT", "sum of %s", typeNameOf(args[0]))
	}
	a.has = true
	return nil
}
func (a *accSum) result() (Value, error) {
	switch a.k {
	case 'i':
		return a.i, nil
	case 'u':
		return a.u, nil
	case 'f':
		return a.f, nil
	}
	// empty input: 0 of the argument's type
	switch {
	case a.typ.isFloat():
		return float64(0), nil
	case a.typ.isInt():
		return int64(0), nil
	case a.typ.isUInt():
		return uint64(0), nil
	}
	return nil, unsupportedf("sum over zero rows of an argument whose type chsim could not infer")
}

type accMinMax struct {
	sign int
	typ  *Type
	has  bool
	v    Value
}

func (a *accMinMax) add(args []Value) error {
	if !a.has {
		a.v, a.has = args[0], true
		return nil
	}
	c, ok := compareNullable(args[0], a.v)
	if !ok {
		return evalErrorf("ILLEGAL_TYPE_OF_ARGUMENT", "min/max over incomparable values")
	}
	// NaN: ClickHouse's min/max ignore NaN only by comparison semantics (x < nan false): keep first non-updating
	if f, isF := args[0].(float64); isF && f != f {
		return nil
	}
	if f, isF := a.v.(float64); isF && f != f {
		a.v = args[0]
		return nil
	}
	if c*a.sign > 0 {
		a.v = args[0]
	}
	return nil
}
func (a *accMinMax) result() (Value, error) {
	if a.has {
		return a.v, nil
	}
	return a.typ.DefaultValue()
}

type accAny struct {
	last bool
	typ  *Type
	has  bool
	v    Value
}

func (a *accAny) add(args []Value) error {
	if !a.has || a.last {
		a.v, a.has = args[0], true
	}
	return nil
}
func (a *accAny) result() (Value, error) {
	if a.has {
		return a.v, nil
	}
	return a.typ.DefaultValue()
}

type accMoments struct {
	kind string
	xs   []float64
}

func (a *accMoments) add(args []Value) error {
	f, ok := toFloat(args[0])
	if !ok {
		return evalErrorf("ILLEGAL_TYPE_OF_ARGUMENT", "%s of %s", a.kind, typeNameOf(args[0]))
	}
	a.xs = append(a.xs, f)
	return nil
}
func (a *accMoments) result() (Value, error) {
	n := float64(len(a.xs))
	if a.kind == "avg" {
		// ClickHouse: sum / count with Float64 division; 0/0 = nan
		s := 0.0
		for _, x := range a.xs {
			s += x
		}
		return s / n, nil
	}
	if n == 0 {
		return math.NaN(), nil
	}
	mean := 0.0
	for _, x := range a.xs {
		mean += x
	}
	mean /= n
	m2 := 0.0
	for _, x := range a.xs {
		m2 += (x - mean) * (x - mean)
	}
	var v float64
	switch a.kind {
	case "varPop", "stddevPop":
		v = m2 / n
	default:
		if n < 2 {
			return math.NaN(), nil
		}
		v = m2 / (n - 1)
	}
	if strings.HasPrefix(a.kind, "stddev") {
		v = math.Sqrt(v)
	}
	return v, nil
}

type accArg struct {
	sign   int
	typ    *Type
	has    bool
	v, key Value
	merge  bool
}

func (a *accArg) add(args []Value) error {
	v, k := args[0], Value(nil)
	if a.merge {
		st, ok := args[0].(*AggState)
		if !ok || (st.Fn != "argMax" && st.Fn != "argMin") {
			return evalErrorf("ILLEGAL_TYPE_OF_ARGUMENT", "argMaxMerge needs AggregateFunction(argMax, …) states, got %s", typeNameOf(args[0]))
		}
		if !st.Has {
			return nil
		}
		v, k = st.Val, st.Key
	} else {
		k = args[1]
	}
	if !a.has {
		a.v, a.key, a.has = v, k, true
		return nil
	}
	c, ok := compareNullable(k, a.key)
	if !ok {
		return evalErrorf("ILLEGAL_TYPE_OF_ARGUMENT", "argMin/argMax over incomparable keys")
	}
	if c*a.sign > 0 {
		a.v, a.key = v, k
	}
	return nil
}
func (a *accArg) result() (Value, error) {
	if a.has {
		return a.v, nil
	}
	return a.typ.DefaultValue()
}

type accGroupArray struct {
	limit int
	uniq  bool
	seen  map[string]bool
	out   Array
}

func (a *accGroupArray) add(args []Value) error {
	if a.uniq {
		k := keyOf(args[0])
		if a.seen[k] {
			return nil
		}
		if a.limit >= 0 && len(a.out) >= a.limit {
			return nil
		}
		a.seen[k] = true
	} else if a.limit >= 0 && len(a.out) >= a.limit {
		return nil
	}
	a.out = append(a.out, args[0])
	return nil
}
func (a *accGroupArray) result() (Value, error) {
	if a.out == nil {
		return Array{}, nil
	}
	return a.out, nil
}

type accBit struct {
	op  string
	has bool
	u   uint64
	sig bool
}

func (a *accBit) add(args []Value) error {
	var x uint64
	switch v := args[0].(type) {
	case uint64:
		x = v
	case int64:
		x = uint64(v)
		a.sig = true
	default:
		return evalErrorf("ILLEGAL_TYPE_OF_ARGUMENT", "%s of %s", a.op, typeNameOf(args[0]))
	}
	if !a.has {
		a.has = true
		if a.op == "groupBitAnd" {
			a.u = ^uint64(0)
		}
	}
	switch a.op {
	case "groupBitOr":
		a.u |= x
	case "groupBitAnd":
		a.u &= x
	case "groupBitXor":
		a.u ^= x
	}
	return nil
}
func (a *accBit) result() (Value, error) {
	if a.sig {
		return int64(a.u), nil
	}
	return a.u, nil
}

type accQuantile struct {
	level float64
	exact bool
	xs    []float64
	vals  []Value
}

func (a *accQuantile) add(args []Value) error {
	f, ok := toFloat(args[0])
	if !ok {
		return evalErrorf("ILLEGAL_TYPE_OF_ARGUMENT", "quantile of %s", typeNameOf(args[0]))
	}
	if f != f {
		return nil
	}
	a.xs = append(a.xs, f)
	a.vals = append(a.vals, args[0])
	return nil
}
func (a *accQuantile) result() (Value, error) {
	n := len(a.xs)
	if n == 0 {
		if a.exact {
			return nil, unsupportedf("quantileExact over zero rows")
		}
		return math.NaN(), nil
	}
	if a.exact {
		idx := make([]int, n)
		for i := range idx {
			idx[i] = i
		}
		sort.SliceStable(idx, func(i, j int) bool { return a.xs[idx[i]] < a.xs[idx[j]] })
		k := int(a.level * float64(n))
		if k >= n {
			k = n - 1
		}
		return a.vals[idx[k]], nil
	}
	// quantile() is reservoir sampling with linear interpolation; deterministic below the reservoir size (8192)
	if n > 8192 {
		return nil, unsupportedf("quantile over more than 8192 values (reservoir sampling is random)")
	}
	xs := append([]float64{}, a.xs...)
	sort.Float64s(xs)
	// ReservoirSampler::quantileInterpolated
	index := math.Max(0, math.Min(float64(n)-1, a.level*(float64(n)-1)))
	lo := int(index)
	hi := lo + 1
	if hi == n {
		return xs[lo], nil
	}
	leftCoef := float64(hi) - index
	rightCoef := index - float64(lo)
	return xs[lo]*leftCoef + xs[hi]*rightCoef, nil
}

type accUniq struct{ seen map[string]bool }

func (a *accUniq) add(args []Value) error {
	a.seen[keyOf(Tuple(args))] = true
	return nil
}
func (a *accUniq) result() (Value, error) { return uint64(len(a.seen)), nil }

type accDistinct struct {
	inner accumulator
	seen  map[string]bool
}

func (a *accDistinct) add(args []Value) error {
	k := keyOf(Tuple(args))
	if a.seen[k] {
		return nil
	}
	a.seen[k] = true
	return a.inner.add(append([]Value{}, args...))
}
func (a *accDistinct) result() (Value, error) { return a.inner.result() }

// accState wraps count / argMax accumulators into an AggState value (countState(), argMaxState()).
type accState struct {
	inner accumulator
	fn    string
}

func (a *accState) add(args []Value) error { return a.inner.add(args) }
func (a *accState) result() (Value, error) {
	switch in := a.inner.(type) {
	case *accCount:
		return &AggState{Fn: "count", Count: in.n, Has: true}, nil
	case *accArg:
		return &AggState{Fn: a.fn, Val: in.v, Key: in.key, Has: in.has}, nil
	}
	return nil, unsupportedf("-State of %s", a.fn)
}
