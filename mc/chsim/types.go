package chsim

import (
	"errors"
	"fmt"
	"math"
	"strconv"
	"strings"
)

// ErrUnsupported is wrapped (with detail) by every error that means "outside chsim's subset": chsim does not
// know what ClickHouse would do.  It is never a statement about the SQL being wrong.
var ErrUnsupported = errors.New("chsim: unsupported")

// ErrClickHouse is wrapped by errors that mean "ClickHouse itself rejects this statement at analysis or
// execution time" (unknown identifier, NOT_AN_AGGREGATE, type mismatch, bad regexp …).  Syntax errors are
// reported as *SyntaxError instead.
var ErrClickHouse = errors.New("chsim: ClickHouse exception")

// EvalError is a modelled ClickHouse exception; Code is ClickHouse's symbolic error name.
type EvalError struct {
	Code string
	Msg  string
}

func (e *EvalError) Error() string { return "chsim: ClickHouse exception " + e.Code + ": " + e.Msg }
func (e *EvalError) Unwrap() error { return ErrClickHouse }

func evalErrorf(code, format string, a ...any) error {
	return &EvalError{Code: code, Msg: fmt.Sprintf(format, a...)}
}

func unsupportedf(format string, a ...any) error {
	return fmt.Errorf("%w: %s", ErrUnsupported, fmt.Sprintf(format, a...))
}

// Type is a (parsed) ClickHouse data type.  Only what chsim needs: defaults for JOIN fill, CAST targets,
// FixedString padding, Nullable-ness.
type Type struct {
	Name string  // canonical base name: Int64, UInt8, Float64, String, FixedString, Date, Date32, DateTime, DateTime64, Array, Tuple, Map, Nullable, AggregateFunction, SimpleAggregateFunction, Bool, Enum8 …
	Args []*Type // element types (Array, Nullable, Tuple, Map, LowCardinality stripped)
	N    int     // FixedString(N), DateTime64(N)
	Raw  string  // original text
}

func (t *Type) String() string {
	if t == nil {
		return "?"
	}
	switch t.Name {
	case "FixedString", "DateTime64":
		return fmt.Sprintf("%s(%d)", t.Name, t.N)
	}
	if len(t.Args) == 0 {
		return t.Name
	}
	parts := make([]string, len(t.Args))
	for i, a := range t.Args {
		parts[i] = a.String()
	}
	return t.Name + "(" + strings.Join(parts, ", ") + ")"
}

var (
	tUInt8   = &Type{Name: "UInt8"}
	tUInt64  = &Type{Name: "UInt64"}
	tInt64   = &Type{Name: "Int64"}
	tFloat64 = &Type{Name: "Float64"}
	tString  = &Type{Name: "String"}
	tDate    = &Type{Name: "Date"}
)

func tArray(e *Type) *Type {
	if e == nil {
		return nil
	}
	return &Type{Name: "Array", Args: []*Type{e}}
}
func tNullable(e *Type) *Type {
	if e == nil {
		return nil
	}
	if e.Name == "Nullable" {
		return e
	}
	return &Type{Name: "Nullable", Args: []*Type{e}}
}
func tMap(k, v *Type) *Type {
	if k == nil || v == nil {
		return nil
	}
	return &Type{Name: "Map", Args: []*Type{k, v}}
}
func tTuple(es ...*Type) *Type {
	for _, e := range es {
		if e == nil {
			return nil
		}
	}
	return &Type{Name: "Tuple", Args: es}
}

// ParseType parses a ClickHouse type expression such as `Map(String, Array(Nullable(UInt64)))`.
func ParseType(s string) (*Type, error) {
	toks, err := Lex(s)
	if err != nil {
		return nil, err
	}
	p := &parser{toks: toks, src: s}
	t, err := p.parseType()
	if err != nil {
		return nil, err
	}
	if p.peek().Kind != TEOF {
		return nil, p.errf("trailing input after type")
	}
	return t, nil
}

var intTypes = map[string]bool{"Int8": true, "Int16": true, "Int32": true, "Int64": true, "Int128": true, "Int256": true}
var uintTypes = map[string]bool{"UInt8": true, "UInt16": true, "UInt32": true, "UInt64": true, "UInt128": true, "UInt256": true}

func (t *Type) isInt() bool   { return t != nil && intTypes[t.Name] }
func (t *Type) isUInt() bool  { return t != nil && (uintTypes[t.Name] || t.Name == "Bool") }
func (t *Type) isFloat() bool { return t != nil && (t.Name == "Float32" || t.Name == "Float64") }

// DefaultValue is the value ClickHouse fills in for a missing cell of this type (JOIN without match, map
// lookup of a missing key, array index out of range).
func (t *Type) DefaultValue() (Value, error) {
	if t == nil {
		return nil, unsupportedf("default value of an expression whose type chsim could not infer")
	}
	switch {
	case t.isInt():
		return int64(0), nil
	case t.isUInt():
		return uint64(0), nil
	case t.isFloat():
		return float64(0), nil
	}
	switch t.Name {
	case "String":
		return "", nil
	case "FixedString":
		return strings.Repeat("\x00", t.N), nil
	case "Date", "Date32":
		return Date(0), nil
	case "DateTime":
		return DateTime(0), nil
	case "DateTime64":
		return DateTime64{0, uint8(t.N)}, nil
	case "Array":
		return Array{}, nil
	case "Map":
		return &Map{}, nil
	case "Nullable", "Nothing":
		return nil, nil
	case "Tuple":
		out := make(Tuple, len(t.Args))
		for i, a := range t.Args {
			v, err := a.DefaultValue()
			if err != nil {
				return nil, err
			}
			out[i] = v
		}
		return out, nil
	}
	return nil, unsupportedf("default value of type %s", t)
}

// typeOfValue infers a Type from a runtime value; nil when it cannot (NULL, empty array …).
func typeOfValue(v Value) *Type {
	switch x := v.(type) {
	case int64:
		return tInt64
	case uint64:
		return tUInt64
	case float64:
		return tFloat64
	case string:
		return tString
	case Date:
		return tDate
	case DateTime:
		return &Type{Name: "DateTime"}
	case DateTime64:
		return &Type{Name: "DateTime64", N: int(x.P)}
	case Array:
		for _, e := range x {
			if t := typeOfValue(e); t != nil {
				return tArray(t)
			}
		}
		return nil
	case Tuple:
		ts := make([]*Type, len(x))
		for i, e := range x {
			ts[i] = typeOfValue(e)
			if ts[i] == nil {
				return nil
			}
		}
		return tTuple(ts...)
	case *Map:
		var kt, vt *Type
		for i := range x.Keys {
			if kt == nil {
				kt = typeOfValue(x.Keys[i])
			}
			if vt == nil {
				vt = typeOfValue(x.Vals[i])
			}
		}
		return tMap(kt, vt)
	}
	return nil
}

func typeNameOf(v Value) string {
	switch x := v.(type) {
	case nil:
		return "Nullable(Nothing)"
	case int64:
		return "Int64"
	case uint64:
		return "UInt64"
	case float64:
		return "Float64"
	case string:
		return "String"
	case Date:
		return "Date"
	case DateTime:
		return "DateTime"
	case DateTime64:
		return fmt.Sprintf("DateTime64(%d)", x.P)
	case Array:
		return "Array"
	case Tuple:
		return "Tuple"
	case *Map:
		return "Map"
	case *AggState:
		return "AggregateFunction(" + x.Fn + ")"
	}
	return fmt.Sprintf("%T", v)
}

// unifyTypes: common type for if/array literal purposes at the (coarse) level chsim needs; nil if unknown.
func unifyTypes(a, b *Type) *Type {
	if a == nil || b == nil {
		return nil
	}
	if a.String() == b.String() {
		return a
	}
	if a.Name == "Nullable" || b.Name == "Nullable" {
		x, y := a, b
		if x.Name == "Nullable" {
			x = x.Args[0]
		}
		if y.Name == "Nullable" {
			y = y.Args[0]
		}
		return tNullable(unifyTypes(x, y))
	}
	if a.Name == "Nothing" {
		return b
	}
	if b.Name == "Nothing" {
		return a
	}
	num := func(t *Type) bool { return t.isInt() || t.isUInt() || t.isFloat() }
	if num(a) && num(b) {
		switch {
		case a.isFloat() || b.isFloat():
			return tFloat64
		case a.isInt() || b.isInt():
			return tInt64
		default:
			return tUInt64
		}
	}
	if (a.Name == "String" || a.Name == "FixedString") && (b.Name == "String" || b.Name == "FixedString") {
		return tString
	}
	return nil
}

// ---------------------------------------------------------------------------------------------------------
// CAST

// castValue implements CAST(v AS t) / v::t for the supported targets.
func castValue(v Value, t *Type) (Value, error) {
	if t.Name == "Nullable" {
		if v == nil {
			return nil, nil
		}
		return castValue(v, t.Args[0])
	}
	if v == nil {
		return nil, evalErrorf("CANNOT_INSERT_NULL_IN_ORDINARY_COLUMN", "cannot convert NULL to %s", t)
	}
	switch {
	case t.isInt(), t.isUInt():
		return castToInt(v, t)
	case t.isFloat():
		switch x := v.(type) {
		case int64, uint64, float64:
			f, _ := toFloat(x)
			if t.Name == "Float32" {
				f = float64(float32(f))
			}
			return f, nil
		case string:
			f, ok := parseFloatStrict(x)
			if !ok {
				return nil, evalErrorf("CANNOT_PARSE_TEXT", "cannot parse %q as %s", x, t)
			}
			return f, nil
		case Date:
			return float64(x), nil
		case DateTime:
			return float64(x), nil
		}
	}
	switch t.Name {
	case "String":
		return ToString(v), nil
	case "FixedString":
		s, ok := v.(string)
		if !ok {
			return nil, unsupportedf("CAST of %s to %s", typeNameOf(v), t)
		}
		if len(s) > t.N {
			return nil, evalErrorf("TOO_LARGE_STRING_SIZE", "string of %d bytes does not fit FixedString(%d)", len(s), t.N)
		}
		return s + strings.Repeat("\x00", t.N-len(s)), nil
	case "Date", "Date32":
		switch x := v.(type) {
		case Date:
			return x, nil
		case string:
			d, ok := parseDate(x)
			if !ok {
				return nil, evalErrorf("CANNOT_PARSE_DATE", "cannot parse %q as Date", x)
			}
			return d, nil
		case DateTime:
			return Date(floorDiv(int64(x), 86400)), nil
		case DateTime64:
			return Date(floorDiv(x.T, 86400*pow10i(int(x.P)))), nil
		case int64, uint64:
			n := asInt64(x)
			// toDate(number): ≤ 65535 is a day number, larger values are unix timestamps
			if n > 65535 {
				return Date(n / 86400), nil
			}
			if n < 0 {
				n = 0
			}
			return Date(n), nil
		}
	case "DateTime":
		switch x := v.(type) {
		case DateTime:
			return x, nil
		case Date:
			return DateTime(int64(x) * 86400), nil
		case string:
			d, ok := parseDateTime(x)
			if !ok {
				return nil, evalErrorf("CANNOT_PARSE_DATETIME", "cannot parse %q as DateTime", x)
			}
			return d, nil
		case int64, uint64:
			return DateTime(asInt64(x)), nil
		case float64:
			return DateTime(int64(x)), nil
		case DateTime64:
			return DateTime(floorDiv(x.T, pow10i(int(x.P)))), nil
		}
	case "DateTime64":
		switch x := v.(type) {
		case DateTime64:
			if int(x.P) == t.N {
				return x, nil
			}
			if int(x.P) < t.N {
				return DateTime64{x.T * pow10i(t.N-int(x.P)), uint8(t.N)}, nil
			}
			return DateTime64{floorDiv(x.T, pow10i(int(x.P)-t.N)), uint8(t.N)}, nil
		case DateTime:
			return DateTime64{int64(x) * pow10i(t.N), uint8(t.N)}, nil
		case Date:
			return DateTime64{int64(x) * 86400 * pow10i(t.N), uint8(t.N)}, nil
		case string:
			d, ok := parseDateTime64(x, uint8(t.N))
			if !ok {
				return nil, evalErrorf("CANNOT_PARSE_DATETIME", "cannot parse %q as DateTime64", x)
			}
			return d, nil
		case int64, uint64:
			return DateTime64{asInt64(x) * pow10i(t.N), uint8(t.N)}, nil
		}
	case "Array":
		a, ok := v.(Array)
		if !ok {
			return nil, unsupportedf("CAST of %s to %s", typeNameOf(v), t)
		}
		out := make(Array, len(a))
		for i, e := range a {
			c, err := castNested(e, t.Args[0])
			if err != nil {
				return nil, err
			}
			out[i] = c
		}
		return out, nil
	case "Tuple":
		a, ok := v.(Tuple)
		if !ok || len(a) != len(t.Args) {
			return nil, unsupportedf("CAST of %s to %s", typeNameOf(v), t)
		}
		out := make(Tuple, len(a))
		for i, e := range a {
			c, err := castNested(e, t.Args[i])
			if err != nil {
				return nil, err
			}
			out[i] = c
		}
		return out, nil
	case "Map":
		switch x := v.(type) {
		case *Map:
			out := &Map{}
			for i := range x.Keys {
				k, err := castNested(x.Keys[i], t.Args[0])
				if err != nil {
					return nil, err
				}
				vv, err := castNested(x.Vals[i], t.Args[1])
				if err != nil {
					return nil, err
				}
				out.Keys = append(out.Keys, k)
				out.Vals = append(out.Vals, vv)
			}
			return out, nil
		case Tuple:
			// ([k1,k2],[v1,v2])::Map(K,V)
			if len(x) == 2 {
				ks, ok1 := x[0].(Array)
				vs, ok2 := x[1].(Array)
				if ok1 && ok2 {
					if len(ks) != len(vs) {
						return nil, evalErrorf("TYPE_MISMATCH", "CAST to Map: keys and values arrays differ in length")
					}
					out := &Map{}
					for i := range ks {
						k, err := castNested(ks[i], t.Args[0])
						if err != nil {
							return nil, err
						}
						vv, err := castNested(vs[i], t.Args[1])
						if err != nil {
							return nil, err
						}
						out.Keys = append(out.Keys, k)
						out.Vals = append(out.Vals, vv)
					}
					return out, nil
				}
			}
		case Array:
			// Array(Tuple(K,V)) → Map
			out := &Map{}
			for _, e := range x {
				tp, ok := e.(Tuple)
				if !ok || len(tp) != 2 {
					return nil, unsupportedf("CAST of %s to %s", typeNameOf(v), t)
				}
				k, err := castNested(tp[0], t.Args[0])
				if err != nil {
					return nil, err
				}
				vv, err := castNested(tp[1], t.Args[1])
				if err != nil {
					return nil, err
				}
				out.Keys = append(out.Keys, k)
				out.Vals = append(out.Vals, vv)
			}
			return out, nil
		}
	case "Bool":
		switch x := v.(type) {
		case int64, uint64, float64:
			f, _ := toFloat(x)
			return boolVal(f != 0), nil
		}
	}
	return nil, unsupportedf("CAST of %s to %s", typeNameOf(v), t)
}

func castNested(v Value, t *Type) (Value, error) {
	if v == nil && t.Name != "Nullable" {
		return nil, evalErrorf("CANNOT_INSERT_NULL_IN_ORDINARY_COLUMN", "cannot convert NULL to %s", t)
	}
	return castValue(v, t)
}

func floorDiv(a, b int64) int64 {
	q := a / b
	if (a%b != 0) && ((a < 0) != (b < 0)) {
		q--
	}
	return q
}

func asInt64(v Value) int64 {
	switch x := v.(type) {
	case int64:
		return x
	case uint64:
		return int64(x)
	case float64:
		return int64(x)
	case Date:
		return int64(x)
	case DateTime:
		return int64(x)
	}
	return 0
}

func bitsOf(t *Type) int {
	switch t.Name {
	case "Int8", "UInt8", "Bool":
		return 8
	case "Int16", "UInt16":
		return 16
	case "Int32", "UInt32":
		return 32
	case "Int64", "UInt64":
		return 64
	}
	return 0
}

// castToInt: numeric conversions truncate to the target width like ClickHouse's toIntN/toUIntN (wrap-around);
// strings must be a complete integer literal.
func castToInt(v Value, t *Type) (Value, error) {
	bits := bitsOf(t)
	if bits == 0 {
		return nil, unsupportedf("CAST to %s", t)
	}
	var u uint64
	switch x := v.(type) {
	case int64:
		u = uint64(x)
	case uint64:
		u = x
	case float64:
		if math.IsNaN(x) || math.IsInf(x, 0) || x >= 1.8446744073709552e19 || x <= -9.3e18 {
			return nil, unsupportedf("CAST of out-of-range float %v to %s (implementation-defined in ClickHouse)", x, t)
		}
		if x < 0 {
			u = uint64(int64(x))
		} else {
			u = uint64(x)
		}
	case Date:
		u = uint64(x)
	case DateTime:
		u = uint64(x)
	case string:
		s := x
		if t.isUInt() {
			n, err := strconv.ParseUint(strings.TrimPrefix(s, "+"), 10, bits)
			if err != nil {
				return nil, evalErrorf("CANNOT_PARSE_TEXT", "cannot parse %q as %s", x, t)
			}
			return n, nil
		}
		n, err := strconv.ParseInt(s, 10, bits)
		if err != nil {
			return nil, evalErrorf("CANNOT_PARSE_TEXT", "cannot parse %q as %s", x, t)
		}
		return n, nil
	default:
		return nil, unsupportedf("CAST of %s to %s", typeNameOf(v), t)
	}
	if t.isUInt() {
		if bits < 64 {
			u &= (uint64(1) << bits) - 1
		}
		return u, nil
	}
	switch bits {
	case 8:
		return int64(int8(u)), nil
	case 16:
		return int64(int16(u)), nil
	case 32:
		return int64(int32(u)), nil
	}
	return int64(u), nil
}

// parseFloatStrict parses a complete ClickHouse float text (as toFloat64OrNull accepts it): optional sign,
// digits with optional fraction and exponent, or inf / nan (case-insensitive, optional sign).  No surrounding
// whitespace, no trailing garbage, not empty.
func parseFloatStrict(s string) (float64, bool) {
	if s == "" {
		return 0, false
	}
	body := s
	neg := false
	if body[0] == '-' || body[0] == '+' {
		neg = body[0] == '-'
		body = body[1:]
	}
	switch strings.ToLower(body) {
	case "inf", "infinity":
		if neg {
			return math.Inf(-1), true
		}
		return math.Inf(1), true
	case "nan":
		return math.NaN(), true
	}
	if body == "" {
		return 0, false
	}
	// only [0-9.eE+-] allowed; Go's ParseFloat accepts hex floats / underscores / "infinity" which ClickHouse does not
	digits := 0
	for i := 0; i < len(body); i++ {
		c := body[i]
		switch {
		case isDigit(c):
			digits++
		case c == '.' || c == 'e' || c == 'E' || c == '+' || c == '-':
		default:
			return 0, false
		}
	}
	if digits == 0 {
		return 0, false
	}
	f, err := strconv.ParseFloat(s, 64)
	if err != nil {
		if ne, ok := err.(*strconv.NumError); ok && ne.Err == strconv.ErrRange {
			return f, true
		}
		return 0, false
	}
	return f, true
}
