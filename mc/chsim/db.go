package chsim

import (
	"fmt"
	"strings"
	"sync"
)

// Column describes one column of a base table.  Type may be nil (then defaults for missing cells — JOIN fill —
// are derived from the stored values, and an ErrUnsupported is returned if that is impossible).
type Column struct {
	Name string
	Type *Type
}

// Table is an in-memory base table.
type Table struct {
	Name string
	Cols []Column
	Rows [][]Value
}

// DB is a set of base tables.  A DB is safe for concurrent Query calls as long as no table is added concurrently.
type DB struct {
	tables map[string]*Table

	// ReverseTies: ORDER BY in ClickHouse is not stable; rows that compare equal come out in an unspecified order.
	// chsim keeps input order for ties by default and the reverse input order when ReverseTies is set, so a harness
	// can explore both extremes deterministically.
	ReverseTies bool

	stmtCache sync.Map // sql text → *Stmt | error
}

// NewDB returns an empty database.
func NewDB() *DB { return &DB{tables: map[string]*Table{}} }

// AddTable registers (or replaces) a base table.  Each element of cols is either a bare column name or
// "name Type" with a ClickHouse type (e.g. "labels Map(String, String)").  Row values are normalised with V().
// A table named "x" is also found as "db.x" for any database qualifier, and the `_dist` suffix used by qryn's
// cluster mode is NOT stripped automatically: register the distributed name explicitly (see Alias).
func (db *DB) AddTable(name string, cols []string, rows [][]Value) *Table {
	t := &Table{Name: name}
	for _, c := range cols {
		c = strings.TrimSpace(c)
		cn, ct, has := strings.Cut(c, " ")
		col := Column{Name: cn}
		if has {
			ty, err := ParseType(strings.TrimSpace(ct))
			if err != nil {
				panic(fmt.Sprintf("chsim.AddTable(%s): bad column type %q: %v", name, c, err))
			}
			col.Type = ty
		}
		t.Cols = append(t.Cols, col)
	}
	t.Rows = make([][]Value, len(rows))
	for i, r := range rows {
		if len(r) != len(t.Cols) {
			panic(fmt.Sprintf("chsim.AddTable(%s): row %d has %d values, want %d", name, i, len(r), len(t.Cols)))
		}
		nr := make([]Value, len(r))
		for j, v := range r {
			nr[j] = V(v)
			if fs := t.Cols[j].Type; fs != nil && fs.Name == "FixedString" {
				if s, ok := nr[j].(string); ok && len(s) < fs.N {
					nr[j] = s + strings.Repeat("\x00", fs.N-len(s))
				}
			}
		}
		t.Rows[i] = nr
	}
	db.tables[name] = t
	return t
}

// Alias makes an existing table reachable under another name too (e.g. "samples_v3_dist" for cluster mode).
func (db *DB) Alias(existing, alias string) {
	t, ok := db.tables[existing]
	if !ok {
		panic("chsim.Alias: no table " + existing)
	}
	db.tables[alias] = t
}

// Table returns a registered table.
func (db *DB) Table(name string) *Table { return db.tables[name] }

// TableNames lists the registered names.
func (db *DB) TableNames() []string {
	out := make([]string, 0, len(db.tables))
	for n := range db.tables {
		out = append(out, n)
	}
	sortStrings(out)
	return out
}

func (db *DB) lookupTable(parts []string) *Table {
	if t, ok := db.tables[strings.Join(parts, ".")]; ok {
		return t
	}
	if len(parts) == 2 {
		if t, ok := db.tables[parts[1]]; ok {
			return t
		}
	}
	return nil
}

// Scan is the instrumentation record of one read of a base table by one SELECT.
type Scan struct {
	Table    string // name as written in the statement (last component)
	Offered  int    // rows in the table
	Admitted int    // distinct rows of the table that survived JOIN matching + PREWHERE + WHERE of the reading SELECT
	Rows     []int  // indices (into Table.Rows) of the admitted rows, ascending
}

// Result is the outcome of a query.
type Result struct {
	Cols  []string
	Types []*Type // inferred column types; entries may be nil when unknown
	Rows  [][]Value
	Scans []Scan
}

// Query parses (with a per-DB cache) and executes one SELECT statement.
func (db *DB) Query(sql string) (*Result, error) {
	var st *Stmt
	if c, ok := db.stmtCache.Load(sql); ok {
		switch x := c.(type) {
		case *Stmt:
			st = x
		case error:
			return nil, x
		}
	} else {
		s, err := Parse(sql)
		if err != nil {
			db.stmtCache.Store(sql, err)
			return nil, err
		}
		db.stmtCache.Store(sql, s)
		st = s
	}
	return db.Exec(st)
}

// Exec executes a parsed statement.  A *Stmt may be executed any number of times, concurrently, on any DB.
func (db *DB) Exec(st *Stmt) (res *Result, err error) {
	q := &query{db: db}
	defer func() {
		if r := recover(); r != nil {
			if be, ok := r.(bailout); ok {
				res, err = nil, be.err
				return
			}
			panic(r)
		}
	}()
	rel, err := q.execStmt(st, &env{})
	if err != nil {
		return nil, err
	}
	out := &Result{Scans: q.scans}
	for _, c := range rel.cols {
		if c.hidden {
			continue
		}
		out.Cols = append(out.Cols, c.name)
		out.Types = append(out.Types, c.typ)
	}
	out.Rows = rel.visibleRows()
	return out, nil
}

type bailout struct{ err error }

// ---------------------------------------------------------------------------------------------------------
// relations

type relCol struct {
	name   string
	quals  []string // qualifiers under which the column is addressable: table alias, table name, db.table
	typ    *Type
	hidden bool // provenance column (never visible)
	shadow bool // right-hand copy of a JOIN USING column: reachable only with a qualifier
	scan   int  // for hidden columns: index into query.scans
	src    int  // ordinal of the FROM/JOIN source the column came from
}

type relation struct {
	cols []relCol
	rows [][]Value
}

func (r *relation) visibleRows() [][]Value {
	hasHidden := false
	for _, c := range r.cols {
		if c.hidden {
			hasHidden = true
			break
		}
	}
	if !hasHidden {
		return r.rows
	}
	out := make([][]Value, len(r.rows))
	for i, row := range r.rows {
		nr := make([]Value, 0, len(row))
		for j, c := range r.cols {
			if !c.hidden {
				nr = append(nr, row[j])
			}
		}
		out[i] = nr
	}
	return out
}

// stripHidden returns the relation without provenance columns (used when a subquery result becomes a source).
func (r *relation) stripHidden() *relation {
	out := &relation{}
	var keep []int
	for j, c := range r.cols {
		if !c.hidden {
			keep = append(keep, j)
			out.cols = append(out.cols, c)
		}
	}
	if len(keep) == len(r.cols) {
		return r
	}
	out.rows = make([][]Value, len(r.rows))
	for i, row := range r.rows {
		nr := make([]Value, len(keep))
		for k, j := range keep {
			nr[k] = row[j]
		}
		out.rows[i] = nr
	}
	return out
}

// colType returns the declared/inferred type of column j, falling back to the first value from which a type can
// be derived.
func (r *relation) colType(j int) *Type {
	if r.cols[j].typ != nil {
		return r.cols[j].typ
	}
	for _, row := range r.rows {
		if t := typeOfValue(row[j]); t != nil {
			return t
		}
	}
	return nil
}

func sortStrings(s []string) {
	for i := 1; i < len(s); i++ {
		for j := i; j > 0 && s[j] < s[j-1]; j-- {
			s[j], s[j-1] = s[j-1], s[j]
		}
	}
}
