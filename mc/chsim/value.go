package chsim

import (
	"fmt"
	"math"
	"sort"
	"strconv"
	"strings"
	"time"
)

// Value is a ClickHouse value in chsim's model:
//
//	nil        NULL
//	int64      Int8…Int64
//	uint64     UInt8…UInt64, Bool, results of comparisons (0/1)
//	float64    Float32/Float64
//	string     String, FixedString(N) (raw bytes), Enum (by name)
//	Array      Array(T)
//	Tuple      Tuple(...)
//	*Map       Map(K,V): ordered list of key/value pairs exactly like ClickHouse (Array(Tuple(K,V)) inside)
//	Date       Date / Date32: days since 1970-01-01
//	DateTime   DateTime: seconds since epoch (UTC)
//	DateTime64 DateTime64(P): ticks of 10^-P seconds
//	*AggState  an AggregateFunction(...) state (countState(), argMaxState(…))
//
// Integer widths below 64 bit are not modelled (documented limit): arithmetic wraps at 64 bit only.
type Value = any

type Array []Value
type Tuple []Value
type Date int32
type DateTime int64
type DateTime64 struct {
	T int64
	P uint8
}

// Map is an ordered multimap, like ClickHouse's Map (duplicates are kept; lookup returns the first match).
type Map struct {
	Keys []Value
	Vals []Value
}

func (m *Map) Len() int { return len(m.Keys) }

// Get returns the value of the first entry with the key.
func (m *Map) Get(k Value) (Value, bool) {
	for i, kk := range m.Keys {
		if c, ok := compareValues(kk, k); ok && c == 0 {
			return m.Vals[i], true
		}
	}
	return nil, false
}

// NewMapFromStrings builds a Map(String,String) with keys in sorted order (convenient for harnesses).
func NewMapFromStrings(m map[string]string) *Map {
	keys := make([]string, 0, len(m))
	for k := range m {
		keys = append(keys, k)
	}
	sort.Strings(keys)
	out := &Map{}
	for _, k := range keys {
		out.Keys = append(out.Keys, k)
		out.Vals = append(out.Vals, m[k])
	}
	return out
}

// StringMap converts a Map(String,String) value to a Go map (last duplicate wins, like clickhouse-go's scan).
func StringMap(v Value) (map[string]string, bool) {
	m, ok := v.(*Map)
	if !ok {
		return nil, false
	}
	out := make(map[string]string, len(m.Keys))
	for i, k := range m.Keys {
		ks, ok1 := k.(string)
		vs, ok2 := m.Vals[i].(string)
		if !ok1 || !ok2 {
			return nil, false
		}
		out[ks] = vs
	}
	return out, true
}

// V normalises a Go value into the chsim value model (int → int64, bool → uint64, []string → Array,
// map[string]string → *Map with sorted keys, time.Time → DateTime64(9) …).  Values already in the model are
// returned unchanged.  It panics on a Go type it does not know (harness programming error).
func V(x any) Value {
	switch v := x.(type) {
	case nil, int64, uint64, float64, string, Array, Tuple, *Map, Date, DateTime, DateTime64, *AggState, Interval:
		return v
	case int:
		return int64(v)
	case int8:
		return int64(v)
	case int16:
		return int64(v)
	case int32:
		return int64(v)
	case uint:
		return uint64(v)
	case uint8:
		return uint64(v)
	case uint16:
		return uint64(v)
	case uint32:
		return uint64(v)
	case float32:
		return float64(v)
	case bool:
		if v {
			return uint64(1)
		}
		return uint64(0)
	case []byte:
		return string(v)
	case []string:
		a := make(Array, len(v))
		for i, s := range v {
			a[i] = s
		}
		return a
	case []Value:
		a := make(Array, len(v))
		for i, s := range v {
			a[i] = V(s)
		}
		return a
	case [][2]string:
		a := make(Array, len(v))
		for i, s := range v {
			a[i] = Tuple{s[0], s[1]}
		}
		return a
	case map[string]string:
		return NewMapFromStrings(v)
	case time.Time:
		return DateTime64{T: v.UnixNano(), P: 9}
	}
	panic(fmt.Sprintf("chsim.V: unsupported Go type %T", x))
}

// ---------------------------------------------------------------------------------------------------------
// comparison

func isNumeric(v Value) bool {
	switch v.(type) {
	case int64, uint64, float64:
		return true
	}
	return false
}

func toFloat(v Value) (float64, bool) {
	switch x := v.(type) {
	case int64:
		return float64(x), true
	case uint64:
		return float64(x), true
	case float64:
		return x, true
	}
	return 0, false
}

// compareNumbers compares two numeric values exactly (no precision loss between int64/uint64/float64).
// NaN compares as "unordered": ok=false is not used for that; instead cmp=2 flags NaN involvement.
func compareNumbers(a, b Value) int {
	switch x := a.(type) {
	case int64:
		switch y := b.(type) {
		case int64:
			return cmpOrdered(x, y)
		case uint64:
			if x < 0 {
				return -1
			}
			return cmpOrdered(uint64(x), y)
		case float64:
			return -cmpFloatInt(y, x)
		}
	case uint64:
		switch y := b.(type) {
		case int64:
			if y < 0 {
				return 1
			}
			return cmpOrdered(x, uint64(y))
		case uint64:
			return cmpOrdered(x, y)
		case float64:
			return -cmpFloatUint(y, x)
		}
	case float64:
		switch y := b.(type) {
		case int64:
			return cmpFloatInt(x, y)
		case uint64:
			return cmpFloatUint(x, y)
		case float64:
			if math.IsNaN(x) || math.IsNaN(y) {
				return 2
			}
			return cmpOrdered(x, y)
		}
	}
	panic("compareNumbers: not numeric")
}

func cmpOrdered[T int64 | uint64 | float64 | string | int](a, b T) int {
	if a < b {
		return -1
	}
	if a > b {
		return 1
	}
	return 0
}

func cmpFloatInt(f float64, i int64) int {
	if math.IsNaN(f) {
		return 2
	}
	if f >= 9.3e18 {
		return 1
	}
	if f <= -9.3e18 {
		return -1
	}
	fi := math.Trunc(f)
	c := cmpOrdered(int64(fi), i)
	if c != 0 {
		return c
	}
	return cmpOrdered(f-fi, 0)
}

func cmpFloatUint(f float64, u uint64) int {
	if math.IsNaN(f) {
		return 2
	}
	if f < 0 {
		return -1
	}
	if f >= 1.85e19 {
		return 1
	}
	fi := math.Trunc(f)
	c := cmpOrdered(uint64(fi), u)
	if c != 0 {
		return c
	}
	return cmpOrdered(f-fi, 0)
}

// compareValues returns (-1|0|1, true) when the two non-NULL values are comparable in ClickHouse, performing
// the implicit conversions ClickHouse performs for comparisons (number kinds; String constant vs Date/DateTime).
// A NaN operand yields cmp=2 (every ordered comparison false, != true).  ok=false: not comparable (type error).
func compareValues(a, b Value) (int, bool) {
	if isNumeric(a) && isNumeric(b) {
		return compareNumbers(a, b), true
	}
	switch x := a.(type) {
	case string:
		switch y := b.(type) {
		case string:
			return cmpOrdered(x, y), true
		case Date:
			if d, ok := parseDate(x); ok {
				return cmpOrdered(int64(d), int64(y)), true
			}
		case DateTime:
			if d, ok := parseDateTime(x); ok {
				return cmpOrdered(int64(d), int64(y)), true
			}
		case DateTime64:
			if d, ok := parseDateTime64(x, y.P); ok {
				return cmpOrdered(d.T, y.T), true
			}
		}
		return 0, false
	case Date:
		switch y := b.(type) {
		case Date:
			return cmpOrdered(int64(x), int64(y)), true
		case string:
			c, ok := compareValues(b, a)
			return -c, ok
		case DateTime:
			return cmpOrdered(int64(x)*86400, int64(y)), true
		case int64, uint64, float64:
			return compareNumbers(int64(x), y), true
		}
		return 0, false
	case DateTime:
		switch y := b.(type) {
		case DateTime:
			return cmpOrdered(int64(x), int64(y)), true
		case Date:
			return cmpOrdered(int64(x), int64(y)*86400), true
		case string:
			c, ok := compareValues(b, a)
			return -c, ok
		case DateTime64:
			return cmpOrdered(int64(x)*pow10i(int(y.P)), y.T), true
		case int64, uint64, float64:
			return compareNumbers(int64(x), y), true
		}
		return 0, false
	case DateTime64:
		switch y := b.(type) {
		case DateTime64:
			p := x.P
			if y.P > p {
				p = y.P
			}
			return cmpOrdered(x.T*pow10i(int(p-x.P)), y.T*pow10i(int(p-y.P))), true
		case string, DateTime:
			c, ok := compareValues(b, a)
			return -c, ok
		}
		return 0, false
	case int64, uint64, float64:
		switch b.(type) {
		case Date, DateTime:
			c, ok := compareValues(b, a)
			if c == 2 {
				return 2, ok
			}
			return -c, ok
		}
		return 0, false
	case Array:
		y, ok := b.(Array)
		if !ok {
			return 0, false
		}
		return compareSeq(x, y)
	case Tuple:
		y, ok := b.(Tuple)
		if !ok || len(x) != len(y) {
			return 0, false
		}
		return compareSeq(x, y)
	case *Map:
		y, ok := b.(*Map)
		if !ok {
			return 0, false
		}
		// Map compares as Array(Tuple(K,V))
		n := len(x.Keys)
		if len(y.Keys) < n {
			n = len(y.Keys)
		}
		for i := 0; i < n; i++ {
			c, ok := compareNullable(x.Keys[i], y.Keys[i])
			if !ok {
				return 0, false
			}
			if c != 0 {
				return c, true
			}
			c, ok = compareNullable(x.Vals[i], y.Vals[i])
			if !ok {
				return 0, false
			}
			if c != 0 {
				return c, true
			}
		}
		return cmpOrdered(len(x.Keys), len(y.Keys)), true
	}
	return 0, false
}

func compareSeq(x, y []Value) (int, bool) {
	n := len(x)
	if len(y) < n {
		n = len(y)
	}
	for i := 0; i < n; i++ {
		c, ok := compareNullable(x[i], y[i])
		if !ok {
			return 0, false
		}
		if c != 0 {
			return c, true
		}
	}
	return cmpOrdered(len(x), len(y)), true
}

// compareNullable is the total order used for sorting and for comparing nested elements: NULL is greater than
// everything (NULLS LAST), NaN is greater than every number (and equal to NaN).
func compareNullable(a, b Value) (int, bool) {
	if a == nil && b == nil {
		return 0, true
	}
	if a == nil {
		return 1, true
	}
	if b == nil {
		return -1, true
	}
	c, ok := compareValues(a, b)
	if !ok {
		return 0, false
	}
	if c == 2 {
		fa, _ := toFloat(a)
		fb, _ := toFloat(b)
		an, bn := math.IsNaN(fa), math.IsNaN(fb)
		switch {
		case an && bn:
			return 0, true
		case an:
			return 1, true
		default:
			return -1, true
		}
	}
	return c, true
}

func pow10i(n int) int64 {
	r := int64(1)
	for i := 0; i < n; i++ {
		r *= 10
	}
	return r
}

// ---------------------------------------------------------------------------------------------------------
// keys (hashing for GROUP BY / DISTINCT / IN / cityHash64)

// keyOf is a canonical string such that keyOf(a)==keyOf(b) iff ClickHouse treats a and b as the same group key /
// set member.  Numbers of different kinds with the same mathematical value share a key.
func keyOf(v Value) string {
	var b strings.Builder
	writeKey(&b, v)
	return b.String()
}

func writeKey(b *strings.Builder, v Value) {
	switch x := v.(type) {
	case nil:
		b.WriteString("N;")
	case int64:
		b.WriteString("i")
		b.WriteString(strconv.FormatInt(x, 10))
		b.WriteByte(';')
	case uint64:
		b.WriteString("i")
		b.WriteString(strconv.FormatUint(x, 10))
		b.WriteByte(';')
	case float64:
		if x == math.Trunc(x) && x > -9.2e18 && x < 1.8e19 {
			if x < 0 {
				b.WriteString("i")
				b.WriteString(strconv.FormatInt(int64(x), 10))
			} else {
				b.WriteString("i")
				b.WriteString(strconv.FormatUint(uint64(x), 10))
			}
			b.WriteByte(';')
			return
		}
		if math.IsNaN(x) {
			b.WriteString("fnan;")
			return
		}
		b.WriteString("f")
		b.WriteString(strconv.FormatUint(math.Float64bits(x), 16))
		b.WriteByte(';')
	case string:
		b.WriteString("s")
		b.WriteString(strconv.Itoa(len(x)))
		b.WriteByte(':')
		b.WriteString(x)
		b.WriteByte(';')
	case Date:
		b.WriteString("d")
		b.WriteString(strconv.FormatInt(int64(x), 10))
		b.WriteByte(';')
	case DateTime:
		b.WriteString("t")
		b.WriteString(strconv.FormatInt(int64(x), 10))
		b.WriteByte(';')
	case DateTime64:
		b.WriteString("T")
		b.WriteString(strconv.FormatInt(x.T, 10))
		b.WriteByte('/')
		b.WriteString(strconv.Itoa(int(x.P)))
		b.WriteByte(';')
	case Array:
		b.WriteString("[")
		for _, e := range x {
			writeKey(b, e)
		}
		b.WriteString("]")
	case Tuple:
		b.WriteString("(")
		for _, e := range x {
			writeKey(b, e)
		}
		b.WriteString(")")
	case *Map:
		b.WriteString("{")
		for i := range x.Keys {
			writeKey(b, x.Keys[i])
			writeKey(b, x.Vals[i])
		}
		b.WriteString("}")
	case Interval:
		fmt.Fprintf(b, "I%d%s;", x.N, x.Unit)
	case *AggState:
		b.WriteString("A<")
		b.WriteString(x.Fn)
		b.WriteString(">")
		fmt.Fprintf(b, "%v", x.debug())
	default:
		panic(fmt.Sprintf("chsim: value of unknown Go type %T", v))
	}
}

// ---------------------------------------------------------------------------------------------------------
// text

// FormatFloat renders a Float64 the way ClickHouse does (shortest round-trip digits; decimal notation for
// 1e-6 ≤ |x| < 1e21, otherwise exponent form like 1e21 / 1e-7; inf, -inf, nan).
func FormatFloat(f float64) string {
	switch {
	case math.IsNaN(f):
		return "nan"
	case math.IsInf(f, 1):
		return "inf"
	case math.IsInf(f, -1):
		return "-inf"
	case f == 0:
		if math.Signbit(f) {
			return "-0"
		}
		return "0"
	}
	a := math.Abs(f)
	if a >= 1e-6 && a < 1e21 {
		return strconv.FormatFloat(f, 'f', -1, 64)
	}
	s := strconv.FormatFloat(f, 'e', -1, 64) // d.ddde±XX
	mant, exp, _ := strings.Cut(s, "e")
	sign := ""
	if exp[0] == '-' {
		sign = "-"
	}
	exp = strings.TrimLeft(exp[1:], "0")
	return mant + "e" + sign + exp
}

// ToString is ClickHouse's toString(v) / text output of a top-level value.
func ToString(v Value) string {
	switch x := v.(type) {
	case nil:
		return "\\N"
	case int64:
		return strconv.FormatInt(x, 10)
	case uint64:
		return strconv.FormatUint(x, 10)
	case float64:
		return FormatFloat(x)
	case string:
		return x
	case Date:
		return formatDate(x)
	case DateTime:
		return time.Unix(int64(x), 0).UTC().Format("2006-01-02 15:04:05")
	case DateTime64:
		return formatDateTime64(x)
	}
	return quoteNested(v)
}

// quoteNested renders a value as it appears inside arrays/tuples/maps (strings quoted).
func quoteNested(v Value) string {
	switch x := v.(type) {
	case nil:
		return "NULL"
	case string:
		return QuoteString(x)
	case Date, DateTime, DateTime64:
		return "'" + ToString(x) + "'"
	case Array:
		parts := make([]string, len(x))
		for i, e := range x {
			parts[i] = quoteNested(e)
		}
		return "[" + strings.Join(parts, ",") + "]"
	case Tuple:
		parts := make([]string, len(x))
		for i, e := range x {
			parts[i] = quoteNested(e)
		}
		return "(" + strings.Join(parts, ",") + ")"
	case *Map:
		parts := make([]string, len(x.Keys))
		for i := range x.Keys {
			parts[i] = quoteNested(x.Keys[i]) + ":" + quoteNested(x.Vals[i])
		}
		return "{" + strings.Join(parts, ",") + "}"
	case *AggState:
		return "<state " + x.Fn + ">"
	}
	return ToString(v)
}

// Format renders any value for humans (debug output, test expectations): like quoteNested at top level.
func Format(v Value) string { return quoteNested(v) }

func formatDate(d Date) string {
	return time.Unix(int64(d)*86400, 0).UTC().Format("2006-01-02")
}

func formatDateTime64(x DateTime64) string {
	p := pow10i(int(x.P))
	sec := x.T / p
	frac := x.T % p
	if frac < 0 {
		frac += p
		sec--
	}
	s := time.Unix(sec, 0).UTC().Format("2006-01-02 15:04:05")
	if x.P == 0 {
		return s
	}
	return s + "." + fmt.Sprintf("%0*d", int(x.P), frac)
}

// parseDate parses 'YYYY-MM-DD' (also a 'YYYY-MM-DD hh:mm:ss' prefix) into a Date, saturating to the Date range
// [1970-01-01, 2149-06-06] like ClickHouse does.
func parseDate(s string) (Date, bool) {
	if len(s) > 10 {
		if _, ok := parseDateTime(s); !ok {
			return 0, false
		}
		s = s[:10]
	}
	t, err := time.Parse("2006-01-02", s)
	if err != nil {
		// ClickHouse also accepts YYYY-M-D
		t, err = time.Parse("2006-1-2", s)
		if err != nil {
			return 0, false
		}
	}
	days := t.Unix() / 86400
	if t.Unix() < 0 {
		days = 0
	}
	if days > 65535 {
		days = 65535
	}
	return Date(days), true
}

func parseDateTime(s string) (DateTime, bool) {
	if len(s) == 10 {
		d, ok := parseDate(s)
		return DateTime(int64(d) * 86400), ok
	}
	for _, layout := range []string{"2006-01-02 15:04:05", "2006-01-02T15:04:05"} {
		if t, err := time.Parse(layout, s); err == nil {
			u := t.Unix()
			if u < 0 {
				u = 0
			}
			return DateTime(u), true
		}
	}
	return 0, false
}

func parseDateTime64(s string, p uint8) (DateTime64, bool) {
	base, frac, hasFrac := strings.Cut(s, ".")
	dt, ok := parseDateTime(base)
	if !ok {
		return DateTime64{}, false
	}
	t := int64(dt) * pow10i(int(p))
	if hasFrac {
		for len(frac) < int(p) {
			frac += "0"
		}
		frac = frac[:p]
		if frac != "" {
			f, err := strconv.ParseInt(frac, 10, 64)
			if err != nil {
				return DateTime64{}, false
			}
			t += f
		}
	}
	return DateTime64{T: t, P: p}, true
}

// truth is the value of an expression used as a condition (WHERE / HAVING / if / and / or): NULL → (false,null).
func truth(v Value) (val bool, null bool, err error) {
	switch x := v.(type) {
	case nil:
		return false, true, nil
	case uint64:
		return x != 0, false, nil
	case int64:
		return x != 0, false, nil
	case float64:
		return x != 0, false, nil
	}
	return false, false, evalErrorf("ILLEGAL_TYPE_OF_COLUMN_FOR_FILTER", "value %s of type %s used as a condition", Format(v), typeNameOf(v))
}

func boolVal(b bool) Value {
	if b {
		return uint64(1)
	}
	return uint64(0)
}
