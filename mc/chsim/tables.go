package chsim

import (
	"fmt"
	"strings"
)

// QrynSchemas are the column lists ("name Type") of qryn's tables, transcribed from /repo/ctrl/qryn/sql/*.sql
// (final state after all ALTERs; CODECs and engine clauses dropped; LowCardinality stripped).
var QrynSchemas = map[string][]string{
	"time_series":     {"date Date", "fingerprint UInt64", "labels String", "name String", "type UInt8"},
	"samples_v3":      {"fingerprint UInt64", "timestamp_ns Int64", "value Float64", "string String", "type UInt8"},
	"time_series_gin": {"date Date", "key String", "val String", "fingerprint UInt64", "type UInt8"},
	"metrics_15s": {"fingerprint UInt64", "timestamp_ns Int64", "last AggregateFunction(argMax, Float64, Int64)", "max Float64", "min Float64",
		"count AggregateFunction(count)", "sum Float64", "bytes Float64", "type UInt8"},
	"settings": {"fingerprint UInt64", "type String", "name String", "value String", "inserted_at DateTime64(9)"},
	"tempo_traces": {"oid String", "trace_id FixedString(16)", "span_id FixedString(8)", "parent_id String", "name String", "timestamp_ns Int64",
		"duration_ns Int64", "service_name String", "payload_type Int8", "payload String"},
	"tempo_traces_attrs_gin": {"oid String", "date Date", "key String", "val String", "trace_id FixedString(16)", "span_id FixedString(8)",
		"timestamp_ns Int64", "duration Int64"},
	"tempo_traces_kv": {"oid String", "date Date", "key String", "val_id UInt64", "val String"},
	"traces_input": {"oid String", "trace_id String", "span_id String", "parent_id String", "name String", "timestamp_ns Int64", "duration_ns Int64",
		"service_name String", "payload_type Int8", "payload String", "tags Array(Tuple(String, String))"},
	"profiles_input": {"timestamp_ns UInt64", "type String", "service_name String", "sample_types_units Array(Tuple(String, String))",
		"period_type String", "period_unit String", "tags Array(Tuple(String, String))", "duration_ns UInt64", "payload_type String", "payload String",
		"values_agg Array(Tuple(String, Int64, Int32))", "tree Array(Tuple(UInt64, UInt64, UInt64, Array(Tuple(String, Int64, Int64))))",
		"functions Array(Tuple(UInt64, String))"},
	"profiles": {"timestamp_ns UInt64", "fingerprint UInt64", "type_id String", "sample_types_units Array(Tuple(String, String))", "service_name String",
		"duration_ns UInt64", "payload_type String", "payload String", "values_agg Array(Tuple(String, Int64, Int32))",
		"tree Array(Tuple(UInt64, UInt64, UInt64, Array(Tuple(String, Int64, Int64))))", "functions Array(Tuple(UInt64, String))"},
	"profiles_series": {"date Date", "type_id String", "sample_types_units Array(Tuple(String, String))", "service_name String", "fingerprint UInt64",
		"tags Array(Tuple(String, String))"},
	"profiles_series_gin": {"date Date", "key String", "val String", "type_id String", "sample_types_units Array(Tuple(String, String))",
		"service_name String", "fingerprint UInt64"},
	"profiles_series_keys": {"date Date", "key String", "val String", "val_id UInt64"},
}

// QrynViews are the materialized-view definitions of the same files (latest version of each view): target table,
// source table and SELECT body.  corpus mv.sql (extracted from the .sql files) is compared with these texts by
// TestViewsMatchSchemaFiles so the transcription stays bound to the repository.
var QrynViews = []struct{ Name, Target, Source, Select string }{
	{"time_series_gin_view", "time_series_gin", "time_series",
		`SELECT date, pairs.1 as key, pairs.2 as val, fingerprint, type FROM time_series ARRAY JOIN JSONExtractKeysAndValues(time_series.labels, 'String') as pairs`},
	{"metrics_15s_mv", "metrics_15s", "samples_v3",
		`SELECT fingerprint, intDiv(samples.timestamp_ns, 15000000000) * 15000000000 as timestamp_ns, argMaxState(value, samples.timestamp_ns) as last, maxSimpleState(value) as max, minSimpleState(value) as min, countState() as count, sumSimpleState(value) as sum, sumSimpleState(length(string)) as bytes, type FROM samples_v3 as samples GROUP BY fingerprint, timestamp_ns, type`},
	{"traces_input_traces_mv", "tempo_traces", "traces_input",
		`SELECT oid, unhex(trace_id)::FixedString(16) as trace_id, unhex(span_id)::FixedString(8) as span_id, unhex(parent_id) as parent_id, name, timestamp_ns, duration_ns, service_name, payload_type, payload FROM traces_input`},
	{"traces_input_tags_mv", "tempo_traces_attrs_gin", "traces_input",
		`SELECT oid, toDate(intDiv(timestamp_ns, 1000000000)) as date, tags.1 as key, tags.2 as val, unhex(trace_id)::FixedString(16) as trace_id, unhex(span_id)::FixedString(8) as span_id, timestamp_ns, duration_ns as duration FROM traces_input ARRAY JOIN tags`},
	{"tempo_traces_kv_mv", "tempo_traces_kv", "tempo_traces_attrs_gin",
		`SELECT oid, date, key, cityHash64(val) % 10000 as val_id, val FROM tempo_traces_attrs_gin`},
	{"profiles_mv", "profiles", "profiles_input",
		`SELECT timestamp_ns, cityHash64(arraySort(arrayConcat( profiles_input.tags, [ ('__type__', concatWithSeparator(':', type, period_type, period_unit) as _type_id), ('__sample_types_units__', arrayStringConcat(arrayMap(x -> x.1 || ':' || x.2, arraySort(sample_types_units)), ';')), ('service_name', service_name) ])) as _tags) as fingerprint, _type_id as type_id, sample_types_units, service_name, duration_ns, payload_type, payload, values_agg, tree, functions FROM profiles_input`},
	{"profiles_series_mv", "profiles_series", "profiles_input",
		`SELECT toDate(intDiv(timestamp_ns, 1000000000)) as date, concatWithSeparator(':', type, period_type, period_unit) as type_id, sample_types_units, service_name, cityHash64(arraySort(arrayConcat( profiles_input.tags, [ ('__type__', type_id), ('__sample_types_units__', arrayStringConcat(arrayMap(x -> x.1 || ':' || x.2, arraySort(sample_types_units)), ';')), ('service_name', service_name) ])) as _tags) as fingerprint, arrayConcat(profiles_input.tags, [('service_name', service_name)]) as tags FROM profiles_input`},
	{"profiles_series_gin_mv", "profiles_series_gin", "profiles_series",
		`SELECT date, kv.1 as key, kv.2 as val, type_id, sample_types_units, service_name, fingerprint FROM profiles_series ARRAY JOIN tags as kv`},
	{"profiles_series_keys_mv", "profiles_series_keys", "profiles_series_gin",
		`SELECT date, key, val, cityHash64(val) % 50000 as val_id FROM profiles_series_gin`},
}

// AddQrynTable registers a table with the schema from QrynSchemas.  Row cells may be given in Go types (see V);
// a Date column also accepts "YYYY-MM-DD" strings.
func (db *DB) AddQrynTable(name string, rows [][]Value) *Table {
	cols, ok := QrynSchemas[name]
	if !ok {
		panic("chsim.AddQrynTable: unknown qryn table " + name)
	}
	t := db.AddTable(name, cols, rows)
	for j, c := range t.Cols {
		if c.Type == nil || c.Type.Name != "Date" {
			continue
		}
		for _, r := range t.Rows {
			if s, ok := r[j].(string); ok {
				d, ok := parseDate(s)
				if !ok {
					panic(fmt.Sprintf("chsim.AddQrynTable(%s): bad date %q", name, s))
				}
				r[j] = d
			}
		}
	}
	return t
}

// Materialize runs the SELECT of a qryn materialized view over the current content of its source table and
// (re)creates the target table from the result, with the target's declared schema.  Result columns are matched
// to the target columns by name, like ClickHouse's MV insert; target columns the view does not produce get
// their default value.  Because qryn's target tables use Replacing/Aggregating engines whose merges are not
// modelled, call it once per source snapshot.
func (db *DB) Materialize(view string) error {
	for _, v := range QrynViews {
		if v.Name != view {
			continue
		}
		res, err := db.Query(v.Select)
		if err != nil {
			return fmt.Errorf("materialize %s: %w", view, err)
		}
		schema := QrynSchemas[v.Target]
		idx := make([]int, len(schema))
		types := make([]*Type, len(schema))
		for i, c := range schema {
			name, ty, _ := strings.Cut(c, " ")
			idx[i] = -1
			for j, rc := range res.Cols {
				if rc == name {
					idx[i] = j
				}
			}
			t, err := ParseType(ty)
			if err != nil {
				return err
			}
			types[i] = t
		}
		rows := make([][]Value, len(res.Rows))
		for r, src := range res.Rows {
			row := make([]Value, len(schema))
			for i := range schema {
				if idx[i] >= 0 {
					row[i] = src[idx[i]]
					continue
				}
				d, err := types[i].DefaultValue()
				if err != nil {
					return err
				}
				row[i] = d
			}
			rows[r] = row
		}
		db.AddTable(v.Target, schema, rows)
		return nil
	}
	return fmt.Errorf("chsim: unknown view %s", view)
}

// MaterializeAll derives every qryn target table whose source table is present, in dependency order.
func (db *DB) MaterializeAll() error {
	for _, v := range QrynViews {
		if db.tables[v.Source] == nil {
			continue
		}
		if err := db.Materialize(v.Name); err != nil {
			return err
		}
	}
	return nil
}

// LabelsJSON renders a label set the way qryn's writer stores it in time_series.labels: a JSON object with keys in
// sorted order and string values (keys/values escaped as JSON).
func LabelsJSON(labels map[string]string) string {
	m := NewMapFromStrings(labels)
	var b strings.Builder
	b.WriteByte('{')
	for i := range m.Keys {
		if i > 0 {
			b.WriteByte(',')
		}
		writeJSONString(&b, m.Keys[i].(string))
		b.WriteByte(':')
		writeJSONString(&b, m.Vals[i].(string))
	}
	b.WriteByte('}')
	return b.String()
}
