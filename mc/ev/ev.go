// Package ev is the shared reporting layer of every check: evidence file, violation lines, known findings.
package ev

import (
	"bufio"
	"encoding/json"
	"flag"
	"fmt"
	"os"
	"path/filepath"
	"sort"
	"strconv"
	"strings"
	"sync"
	"time"
)

// Root is /verif (or $VERIF_ROOT).
func Root() string {
	if r := os.Getenv("VERIF_ROOT"); r != "" {
		return r
	}
	return "/verif"
}

// Out is where evidence/ and replays/ are written: /verif, or $VERIF_OUT (used by bin/demo-detect so that a run
// against a mutated copy of the repository does not overwrite the real evidence).
func Out() string {
	if r := os.Getenv("VERIF_OUT"); r != "" {
		return r
	}
	return Root()
}

// Repo is the repository under test (/repo or $VERIF_REPO).
func Repo() string {
	if r := os.Getenv("VERIF_REPO"); r != "" {
		return r
	}
	return "/repo"
}

// Run is one invocation of one check.
type Run struct {
	Property string
	Level    string // model_checking | exploration | fault_enumeration | ...
	Tier     string
	Seed     int
	Part     string // "" or the name of a part: a second binary of the same check that merges into the evidence
	Replay   string // --replay file, "" when exploring
	Deadline time.Time

	start time.Time
	mu    sync.Mutex

	// coverage counters (measured)
	States, Transitions, TracesValidated int64
	Evaluations                          int64
	Exhaustive                           bool
	Rule                                 string
	Explanation                          string
	Extra                                map[string]any
	Assumptions                          []string
	samples                              []any
	distinct                             map[string]struct{}
	outcomes                             map[string]int64

	known      []Known
	violations []Violation
	knownHits  map[string]int
	capped     []string
}

type Known struct {
	Status   string // "known" | "fixed"
	Property string
	Class    string // for known: class token (exact, or prefix ending in '*'); for fixed: commit
	Text     string
}

type Violation struct {
	Class  string `json:"class"`
	What   string `json:"what"`
	Replay any    `json:"replay"`
}

// Start parses the common flags (--tier, --replay) and env (VERIF_SEED, VERIF_TIER) and loads the
// known-findings file.  budgetQuick/budgetThorough are internal deadlines: a run that reaches its deadline
// stops exploring, reports exhaustive:false and exits 0.
func Start(property, level string, budgetQuick, budgetThorough time.Duration) *Run {
	r := &Run{Property: property, Level: level, start: time.Now(), Exhaustive: true,
		Extra: map[string]any{}, distinct: map[string]struct{}{}, outcomes: map[string]int64{}, knownHits: map[string]int{}}
	tier := os.Getenv("VERIF_TIER")
	if tier == "" {
		tier = "quick"
	}
	fs := flag.CommandLine
	fs.StringVar(&r.Tier, "tier", tier, "quick|thorough")
	fs.StringVar(&r.Replay, "replay", "", "replay file")
	if !flag.Parsed() {
		flag.Parse()
	}
	if r.Tier != "thorough" {
		r.Tier = "quick"
	}
	if s := os.Getenv("VERIF_SEED"); s != "" {
		r.Seed, _ = strconv.Atoi(s)
	}
	b := budgetQuick
	if r.Tier == "thorough" {
		b = budgetThorough
	}
	if s := os.Getenv("VERIF_BUDGET_S"); s != "" {
		if n, err := strconv.Atoi(s); err == nil {
			b = time.Duration(n) * time.Second
		}
	}
	r.Deadline = r.start.Add(b)
	r.known = LoadKnown(filepath.Join(Root(), "KNOWN_FINDINGS.txt"))
	return r
}

// StartPart is Start for a check made of several binaries run one after the other by the check's run.sh: a
// non-empty part makes Finish merge this run's coverage into the evidence file the earlier part wrote.
func StartPart(property, part, level string, budgetQuick, budgetThorough time.Duration) *Run {
	r := Start(property, level, budgetQuick, budgetThorough)
	r.Part = part
	return r
}

func (r *Run) Thorough() bool { return r.Tier == "thorough" }

// Expired reports whether the internal deadline passed; the first time it does the run is marked capped.
func (r *Run) Expired() bool {
	if time.Now().After(r.Deadline) {
		r.Cap("internal deadline reached")
		return true
	}
	return false
}

// Cap records that some bound/cap was hit: the run is no longer exhaustive.
func (r *Run) Cap(why string) {
	r.mu.Lock()
	defer r.mu.Unlock()
	r.Exhaustive = false
	for _, c := range r.capped {
		if c == why {
			return
		}
	}
	r.capped = append(r.capped, why)
}

// LoadKnown reads KNOWN_FINDINGS.txt:
//
//	known: property=C17 class=<token> <what fails>
//	fixed: property=C04 <commit> <what failed>
func LoadKnown(path string) []Known {
	f, err := os.Open(path)
	if err != nil {
		return nil
	}
	defer f.Close()
	var out []Known
	sc := bufio.NewScanner(f)
	sc.Buffer(make([]byte, 1<<20), 1<<20)
	for sc.Scan() {
		line := strings.TrimSpace(sc.Text())
		if line == "" || strings.HasPrefix(line, "#") {
			continue
		}
		var k Known
		switch {
		case strings.HasPrefix(line, "known:"):
			k.Status = "known"
			line = strings.TrimSpace(line[len("known:"):])
		case strings.HasPrefix(line, "fixed:"):
			k.Status = "fixed"
			line = strings.TrimSpace(line[len("fixed:"):])
		default:
			continue
		}
		parts := strings.SplitN(line, " ", 3)
		if len(parts) < 2 || !strings.HasPrefix(parts[0], "property=") {
			continue
		}
		k.Property = parts[0][len("property="):]
		k.Class = strings.TrimPrefix(parts[1], "class=")
		if len(parts) == 3 {
			k.Text = parts[2]
		}
		out = append(out, k)
	}
	return out
}

func (r *Run) matchKnown(class string) *Known {
	for i := range r.known {
		k := &r.known[i]
		if k.Status != "known" || k.Property != r.Property {
			continue
		}
		if k.Class == class || (strings.HasSuffix(k.Class, "*") && strings.HasPrefix(class, k.Class[:len(k.Class)-1])) {
			return k
		}
	}
	return nil
}

// Sample keeps up to 8 example cases for the evidence file.
func (r *Run) Sample(s any) {
	r.mu.Lock()
	defer r.mu.Unlock()
	if len(r.samples) < 8 {
		r.samples = append(r.samples, s)
	}
}

// Distinct counts a distinct non-trivial case by key.
func (r *Run) Distinct(key string) {
	r.mu.Lock()
	r.distinct[key] = struct{}{}
	r.mu.Unlock()
}

// Outcome counts an observed outcome class (one outcome from many executions means nothing collided).
func (r *Run) Outcome(key string) {
	r.mu.Lock()
	r.outcomes[key]++
	r.mu.Unlock()
}

func (r *Run) AddEval(n int64) {
	r.mu.Lock()
	r.Evaluations += n
	r.mu.Unlock()
}

// Violate reports a violation.  class is a stable token (no spaces) naming the failing input / call site /
// history by explanation; a violation whose class is listed as `known:` is printed as KNOWN-FINDING (once per
// class) and does not fail the run.  replay is stored as JSON under /verif/replays/<prop>/.
func (r *Run) Violate(class, what string, replay any) {
	class = strings.ReplaceAll(class, " ", "_")
	r.mu.Lock()
	defer r.mu.Unlock()
	if k := r.matchKnown(class); k != nil {
		r.knownHits[k.Class]++
		if r.knownHits[k.Class] == 1 {
			fmt.Printf("KNOWN-FINDING: property=%s class=%s %s\n", r.Property, k.Class, k.Text)
		}
		return
	}
	for _, v := range r.violations {
		if v.Class == class && len(r.violations) > 50 {
			return
		}
	}
	if len(r.violations) >= 200 {
		return
	}
	r.violations = append(r.violations, Violation{class, what, replay})
	dir := filepath.Join(Out(), "replays", r.Property)
	os.MkdirAll(dir, 0o755)
	path := filepath.Join(dir, fmt.Sprintf("%03d.json", len(r.violations)))
	b, _ := json.MarshalIndent(map[string]any{"property": r.Property, "class": class, "what": what, "replay": replay}, "", " ")
	os.WriteFile(path, b, 0o644)
	fmt.Printf("VIOLATION property=%s replay=%s class=%s %s\n", r.Property, path, class, what)
}

func (r *Run) Violations() int { return len(r.violations) }

// Finish writes the evidence file and exits (0 = held on everything explored, 1 = unlisted violation).
func (r *Run) Finish() {
	r.mu.Lock()
	cov := map[string]any{}
	for k, v := range r.Extra {
		cov[k] = v
	}
	if r.States > 0 {
		cov["states"] = r.States
	}
	if r.Transitions > 0 {
		cov["transitions"] = r.Transitions
	}
	cov["traces_validated_against_impl"] = r.TracesValidated
	cov["evaluations"] = r.Evaluations
	cov["distinct_nontrivial"] = len(r.distinct)
	cov["rule"] = r.Rule
	if r.Explanation != "" {
		cov["explanation"] = r.Explanation
	}
	if len(r.samples) == 0 {
		r.samples = append(r.samples, "none recorded")
	}
	cov["samples"] = r.samples
	cov["exhaustive"] = r.Exhaustive
	if len(r.capped) > 0 {
		cov["caps_hit"] = r.capped
	}
	oc := map[string]int64{}
	keys := make([]string, 0, len(r.outcomes))
	for k := range r.outcomes {
		keys = append(keys, k)
	}
	sort.Strings(keys)
	for i, k := range keys {
		if i < 40 {
			oc[k] = r.outcomes[k]
		}
	}
	cov["distinct_outcomes"] = len(r.outcomes)
	cov["outcomes"] = oc
	kh := map[string]int{}
	for k, v := range r.knownHits {
		kh[k] = v
	}
	cov["known_findings_reproduced"] = kh
	doc := map[string]any{
		"property_id": r.Property, "tier": r.Tier, "seed": r.Seed, "level": r.Level,
		"coverage": cov, "assumptions": r.Assumptions,
		"wall_s":     time.Since(r.start).Seconds(),
		"violations": len(r.violations),
	}
	if r.Assumptions == nil {
		doc["assumptions"] = []string{}
	}
	nv := len(r.violations)
	r.mu.Unlock()
	if r.Replay == "" && r.Part != "" {
		mergePart(doc, filepath.Join(Out(), "evidence", r.Property+".json"), r.Part)
	}
	if r.Replay == "" {
		dir := filepath.Join(Out(), "evidence")
		os.MkdirAll(dir, 0o755)
		b, _ := json.MarshalIndent(doc, "", " ")
		if err := os.WriteFile(filepath.Join(dir, r.Property+".json"), append(b, '\n'), 0o644); err != nil {
			fmt.Fprintln(os.Stderr, "cannot write evidence:", err)
			os.Exit(2)
		}
	}
	fmt.Printf("[%s] tier=%s evaluations=%d states=%d transitions=%d distinct=%d outcomes=%d exhaustive=%v violations=%d wall=%.1fs\n",
		r.Property, r.Tier, r.Evaluations, r.States, r.Transitions, len(r.distinct), len(r.outcomes), r.Exhaustive, nv, time.Since(r.start).Seconds())
	if nv > 0 {
		os.Exit(1)
	}
	os.Exit(0)
}

// Fatal is a harness failure (not a verdict): exit 2, no VIOLATION line.
func Fatal(format string, a ...any) {
	fmt.Fprintf(os.Stderr, "HARNESS-ERROR: "+format+"\n", a...)
	os.Exit(2)
}

// mergePart folds the evidence written by an earlier part of the same check into doc (sums of the measured
// counters, union of samples / caps / outcomes, exhaustive only if every part was).
func mergePart(doc map[string]any, path, part string) {
	raw, err := os.ReadFile(path)
	if err != nil {
		return
	}
	var old map[string]any
	if json.Unmarshal(raw, &old) != nil || old["property_id"] != doc["property_id"] || old["tier"] != doc["tier"] {
		return
	}
	oc, _ := old["coverage"].(map[string]any)
	nc := doc["coverage"].(map[string]any)
	num := func(v any) float64 {
		switch x := v.(type) {
		case float64:
			return x
		case int:
			return float64(x)
		case int64:
			return float64(x)
		}
		return 0
	}
	for _, k := range []string{"evaluations", "states", "transitions", "traces_validated_against_impl", "distinct_nontrivial", "distinct_outcomes"} {
		if _, ok := oc[k]; ok || nc[k] != nil {
			nc[k] = int64(num(oc[k]) + num(nc[k]))
		}
	}
	if e, ok := oc["exhaustive"].(bool); ok {
		nc["exhaustive"] = e && nc["exhaustive"].(bool)
	}
	if s, ok := oc["samples"].([]any); ok {
		ns, _ := nc["samples"].([]any)
		nc["samples"] = append(s, ns...)
	}
	if s, ok := oc["caps_hit"].([]any); ok {
		var ns []any
		if x, ok := nc["caps_hit"].([]string); ok {
			for _, c := range x {
				ns = append(ns, c)
			}
		}
		nc["caps_hit"] = append(s, ns...)
	}
	if s, ok := oc["rule"].(string); ok {
		nc["rule"] = s + " || " + fmt.Sprint(nc["rule"])
	}
	for k, v := range oc {
		if _, ok := nc[k]; !ok {
			nc[k] = v
		}
	}
	if a, ok := old["assumptions"].([]any); ok {
		var na []any
		switch x := doc["assumptions"].(type) {
		case []string:
			for _, c := range x {
				na = append(na, c)
			}
		}
		doc["assumptions"] = append(a, na...)
	}
	doc["wall_s"] = num(old["wall_s"]) + num(doc["wall_s"])
	doc["violations"] = int(num(old["violations"]) + num(doc["violations"]))
	nc["parts"] = fmt.Sprintf("%v + %s", oc["parts"], part)
	if oc["parts"] == nil {
		nc["parts"] = "main + " + part
	}
}
