package ingestref

import (
	"bytes"
	"go/ast"
	"go/parser"
	"go/token"
	"io"
	"os"
	"path/filepath"
	"sort"
	"strconv"
)

// How the body arrives is an input dimension of every decoder: Opt.Reader selects the io.Reader handed to the parser.
//
//	0      the whole body behind a bytes.Reader
//	1..7   a streaming reader that returns at most k bytes per Read, k = ReaderChunk[Reader]
//	8      a streaming reader that returns the last bytes together with io.EOF
//	9      a streaming reader whose first Read returns (0, nil)
var ReaderChunk = []int{0, 1, 7, 512, 4096, 65535, 65536, 65537}

const (
	ReaderWhole       = 0
	ReaderEOFWithData = 8
	ReaderZeroOnce    = 9
	ReaderKinds       = 10
)

func ReaderName(k int) string {
	switch {
	case k == 0:
		return "whole"
	case k < len(ReaderChunk):
		return "short_reads_" + strconv.Itoa(ReaderChunk[k])
	case k == ReaderEOFWithData:
		return "eof_with_last_bytes"
	case k == ReaderZeroOnce:
		return "zero_bytes_once"
	}
	return "reader?" + strconv.Itoa(k)
}

type arrival struct {
	b       []byte
	max     int
	eofData bool
	zero    bool
}

func (a *arrival) Read(p []byte) (int, error) {
	if a.zero {
		a.zero = false
		return 0, nil
	}
	if len(a.b) == 0 {
		return 0, io.EOF
	}
	n := len(p)
	if a.max > 0 && n > a.max {
		n = a.max
	}
	if n > len(a.b) {
		n = len(a.b)
	}
	copy(p, a.b[:n])
	a.b = a.b[n:]
	if a.eofData && len(a.b) == 0 {
		return n, io.EOF
	}
	return n, nil
}

// NewArrival returns the reader of the given kind over body.
func NewArrival(body []byte, kind int) io.Reader {
	switch {
	case kind <= 0 || kind >= ReaderKinds:
		return bytes.NewReader(body)
	case kind < len(ReaderChunk):
		return &arrival{b: body, max: ReaderChunk[kind]}
	case kind == ReaderEOFWithData:
		return &arrival{b: body, eofData: true}
	default:
		return &arrival{b: body, zero: true}
	}
}

// LibraryLimits are the buffer sizes of the libraries the decoders rely on that do not appear as constants in the
// repository: bufio's default buffer (4096) and bufio.MaxScanTokenSize (64 KiB).
var LibraryLimits = []int{4096, 64 * 1024}

// SizeLimits collects, mechanically from the decoder sources, every integer constant expression (literals combined
// with * and <<) — the buffer sizes, portion limits and counters the decoders use (64*1024 for the jx buffer,
// 1*1024*1024 for the portion limit, 1000 for the point counter, ...).
func SizeLimits(repo string) ([]int, error) {
	seen := map[int]bool{}
	fset := token.NewFileSet()
	var eval func(e ast.Expr) (int64, bool)
	eval = func(e ast.Expr) (int64, bool) {
		switch x := e.(type) {
		case *ast.BasicLit:
			if x.Kind == token.INT {
				v, err := strconv.ParseInt(x.Value, 0, 64)
				return v, err == nil
			}
		case *ast.ParenExpr:
			return eval(x.X)
		case *ast.BinaryExpr:
			a, ok1 := eval(x.X)
			b, ok2 := eval(x.Y)
			if ok1 && ok2 {
				switch x.Op {
				case token.MUL:
					return a * b, true
				case token.SHL:
					if b >= 0 && b < 40 {
						return a << uint(b), true
					}
				}
			}
		}
		return 0, false
	}
	for _, f := range DecoderFiles {
		path := filepath.Join(repo, "writer", "utils", "unmarshal", f)
		src, err := os.ReadFile(path)
		if err != nil {
			return nil, err
		}
		file, err := parser.ParseFile(fset, path, src, 0)
		if err != nil {
			return nil, err
		}
		ast.Inspect(file, func(n ast.Node) bool {
			if e, ok := n.(ast.Expr); ok {
				if v, ok := eval(e); ok && v >= 100 && v <= 1<<30 {
					seen[int(v)] = true
					if _, isBin := e.(*ast.BinaryExpr); isBin {
						return false // do not also report the factors of 64*1024
					}
				}
			}
			return true
		})
	}
	var out []int
	for v := range seen {
		out = append(out, v)
	}
	sort.Ints(out)
	return out, nil
}
