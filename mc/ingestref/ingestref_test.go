package ingestref

import (
	"io"
	"regexp"
	"testing"
)

func TestStrictStringObject(t *testing.T) {
	good := map[string]string{
		`{}`:                        "",
		` { "a" : "x" , "b":"y" } `: `"a"="x","b"="y"`,
		`{"a":"\"\\\/\b\f\n\r\té"}`: `"a"="\"\\/\b\f\n\r\té"`,
		`{"a":"😀"}`:                 `"a"="😀"`,
		"{\"a\":\"é✓\"}":            `"a"="é✓"`,
		`{"a":"","b_1":"\u0000"}`:   `"a"="","b_1"="\x00"`,
	}
	for doc, want := range good {
		got, err := StrictStringObject([]byte(doc))
		if err != nil {
			t.Errorf("%s: %v", doc, err)
			continue
		}
		if LabelsKey(got) != want {
			t.Errorf("%s: got %s want %s", doc, LabelsKey(got), want)
		}
	}
	bad := []string{
		`{"a":"\a"}`, `{"a":"\v"}`, `{"a":"\x00"}`, `{"a":"\U0001f600"}`, "{\"a\":\"\x07\"}", "{\"a\":\"\xff\"}",
		`{"a":"\ud83d"}`, `{"a":"x"} x`, `{"a":1}`, `{"a":"x","a":"y"}`, `{"a":"x",}`, `["a"]`, `{"a":"\u12"}`, `{"a":"x`,
	}
	for _, doc := range bad {
		if got, err := StrictStringObject([]byte(doc)); err == nil {
			t.Errorf("%q accepted as %v", doc, got)
		}
	}
}

func TestGoQuotedObject(t *testing.T) {
	g, ok := GoQuotedObject(`{"a":"\a\x00","b":"\xff\U000e0001"}`)
	if !ok || LabelsKey(g) != LabelsKey([]Label{{"a", "\a\x00"}, {"b", "\xff\U000e0001"}}) {
		t.Fatalf("got %v %v", g, ok)
	}
	if _, ok := GoQuotedObject(`{"a":x}`); ok {
		t.Fatal("accepted garbage")
	}
}

// the reference name rule must agree with the regular expression the write path documents
func TestSanitizeNameAgainstRegexp(t *testing.T) {
	re := regexp.MustCompile("(^[^a-zA-Z_]|[^a-zA-Z0-9_])")
	for _, n := range []string{"a", "a-b", "0a", "_x", "é", "aé✓b", "a\xffb", "\xff", "", "9", "a.b.c", "__ttl_days__", "A9_"} {
		if got, want := SanitizeName(n), re.ReplaceAllString(n, "_"); got != want {
			t.Errorf("%q: reference %q, regexp %q", n, got, want)
		}
	}
}

func TestDiff(t *testing.T) {
	a := []Row{{1, 1, "x", 0, 1}, {1, 1, "x", 0, 1}, {2, 2, "", 5, 2}}
	if d, _, _ := Diff(a, []Row{a[2], a[0], a[1]}); d != "" {
		t.Fatal(d)
	}
	if d, m, e := Diff(a, a[:2]); d == "" || len(m) != 1 || len(e) != 0 {
		t.Fatal("lost row not seen")
	}
	if d, m, e := Diff(a[:1], a[:2]); d == "" || len(m) != 0 || len(e) != 1 {
		t.Fatal("duplicate not seen")
	}
}

func TestSpecialNames(t *testing.T) {
	l, c, err := SpecialNames("/repo")
	if err != nil {
		t.Skip(err)
	}
	t.Logf("labels %v contexts %v", l, c)
	has := func(xs []string, s string) bool {
		for _, x := range xs {
			if x == s {
				return true
			}
		}
		return false
	}
	if !has(l, "__ttl_days__") || !has(c, "TTL_DAYS") {
		t.Errorf("the TTL pseudo-label / context value were not found: %v %v", l, c)
	}
}

func TestSizeLimits(t *testing.T) {
	l, err := SizeLimits("/repo")
	if err != nil {
		t.Skip(err)
	}
	t.Logf("limits %v", l)
}

func TestArrival(t *testing.T) {
	body := []byte("0123456789abcdef")
	for k := 0; k < ReaderKinds; k++ {
		b, err := io.ReadAll(NewArrival(body, k))
		if err != nil || string(b) != string(body) {
			t.Errorf("%s: %q %v", ReaderName(k), b, err)
		}
	}
}
