package ingestref

import (
	"go/ast"
	"go/parser"
	"go/token"
	"os"
	"path/filepath"
	"regexp"
	"sort"
	"strconv"
	"strings"
)

// DecoderFiles are the sources of the log/metric decoders and of the row builder (the anchors of C03/C04).
var DecoderFiles = []string{"unmarshal.go", "logsProtobuf.go", "metricsProtobuf.go", "influxUnmarshal.go", "datadogJsonUnmarshal.go",
	"datadogMetricsJsonUnmarshal.go", "otlplogs.go", "builder.go", "shared.go"}

var identLike = regexp.MustCompile(`^[A-Za-z_][A-Za-z0-9_]*$`)

// SpecialNames collects, mechanically from the decoder sources of the repository under test, the names the code
// treats specially:
//   - labels: identifier-like string literals that are compared (== / !=) with something, that are the first
//     element of a two-element []string{name, value} label constructor, or that index a map on the left of an
//     assignment (attrsMap["level"] = ...);
//   - contexts: string literals passed to a .Value("...") call (request context values such as TTL_DAYS).
func SpecialNames(repo string) (labels, contexts []string, err error) {
	ls, cs := map[string]bool{}, map[string]bool{}
	fset := token.NewFileSet()
	for _, f := range DecoderFiles {
		path := filepath.Join(repo, "writer", "utils", "unmarshal", f)
		src, e := os.ReadFile(path)
		if e != nil {
			return nil, nil, e
		}
		file, e := parser.ParseFile(fset, path, src, 0)
		if e != nil {
			return nil, nil, e
		}
		lit := func(x ast.Expr) (string, bool) {
			b, ok := x.(*ast.BasicLit)
			if !ok || b.Kind != token.STRING {
				return "", false
			}
			s, e := strconv.Unquote(b.Value)
			return s, e == nil
		}
		ast.Inspect(file, func(n ast.Node) bool {
			switch x := n.(type) {
			case *ast.BinaryExpr:
				if x.Op == token.EQL || x.Op == token.NEQ {
					for _, side := range []ast.Expr{x.X, x.Y} {
						if s, ok := lit(side); ok && identLike.MatchString(s) {
							ls[s] = true
						}
					}
				}
			case *ast.CompositeLit:
				if at, ok := x.Type.(*ast.ArrayType); ok && at.Len == nil {
					if id, ok := at.Elt.(*ast.Ident); ok && id.Name == "string" && len(x.Elts) == 2 {
						if s, ok := lit(x.Elts[0]); ok && identLike.MatchString(s) {
							ls[s] = true
						}
					}
				}
				if at, ok := x.Type.(*ast.ArrayType); ok && at.Len == nil { // [][]string{{"ddsource", d.Source}, ...}
					if inner, ok := at.Elt.(*ast.ArrayType); ok && inner.Len == nil {
						for _, el := range x.Elts {
							if cl, ok := el.(*ast.CompositeLit); ok && len(cl.Elts) == 2 {
								if s, ok := lit(cl.Elts[0]); ok && identLike.MatchString(s) {
									ls[s] = true
								}
							}
						}
					}
				}
			case *ast.AssignStmt:
				for _, l := range x.Lhs {
					if ix, ok := l.(*ast.IndexExpr); ok {
						if s, ok := lit(ix.Index); ok && identLike.MatchString(s) {
							ls[s] = true
						}
					}
				}
			case *ast.CallExpr:
				if sel, ok := x.Fun.(*ast.SelectorExpr); ok && sel.Sel.Name == "Value" && len(x.Args) == 1 {
					if s, ok := lit(x.Args[0]); ok && strings.TrimSpace(s) != "" {
						cs[s] = true
					}
				}
			}
			return true
		})
	}
	for s := range ls {
		labels = append(labels, s)
	}
	for s := range cs {
		contexts = append(contexts, s)
	}
	sort.Strings(labels)
	sort.Strings(contexts)
	return labels, contexts, nil
}
