// Package ingestref is the value-level reference model of the log/metric ingest side (properties C03 and C04):
// a request is described as []Stream{labels, []Entry{tsNs, line, value, type}}, request bodies are *rendered from
// that description* for every ingest protocol, fed to the real exported parsers of writer/utils/unmarshal and the
// parser output is compared with the description.  Nothing in here re-implements a parser or the fingerprint hash.
package ingestref

import (
	"fmt"
	"math"
	"sort"
	"strings"
	"unicode/utf8"
)

// Sample types as stored in samples_v3.type (writer/model/insertRequestModel.go).
const (
	TypeBoth   uint8 = 0 // entry carries a line AND a numeric value (Loki JSON only): stored with type 0
	TypeLog    uint8 = 1
	TypeMetric uint8 = 2
)

type Label struct{ Name, Value string }

type Entry struct {
	TsNs  int64
	Line  string  // "" for TypeMetric
	Value float64 // 0 for TypeLog
	Type  uint8
}

type Stream struct {
	Labels  []Label
	Entries []Entry
}

// Row is one expected / observed sample row.
type Row struct {
	FP   uint64
	TsNs int64
	Msg  string
	Val  uint64 // math.Float64bits, so that NaN/-0 compare exactly
	Type uint8
}

func (r Row) String() string {
	m := r.Msg
	if len(m) > 24 {
		m = fmt.Sprintf("%q...(%d bytes)", m[:24], len(m))
	} else {
		m = fmt.Sprintf("%q", m)
	}
	return fmt.Sprintf("{fp=%d ts=%d msg=%s val=%v type=%d}", r.FP, r.TsNs, m, math.Float64frombits(r.Val), r.Type)
}

func MkRow(fp uint64, e Entry) Row {
	return Row{FP: fp, TsNs: e.TsNs, Msg: e.Line, Val: math.Float64bits(e.Value), Type: e.Type}
}

// LabelsKey is a canonical, order-independent key of a label set.
func LabelsKey(l []Label) string {
	s := make([]string, len(l))
	for i, x := range l {
		s[i] = fmt.Sprintf("%q=%q", x.Name, x.Value)
	}
	sort.Strings(s)
	return strings.Join(s, ",")
}

// SanitizeName is the documented label-name rule of the write path (Prometheus name alphabet): every character
// outside [a-zA-Z0-9_] becomes '_', and a leading character outside [a-zA-Z_] becomes '_'.  Characters are runes;
// a byte that is not valid UTF-8 counts as one character.
func SanitizeName(n string) string {
	var b strings.Builder
	first := true
	for i := 0; i < len(n); {
		r, w := utf8.DecodeRuneInString(n[i:])
		ok := (r >= 'a' && r <= 'z') || (r >= 'A' && r <= 'Z') || r == '_' || (!first && r >= '0' && r <= '9')
		if w == 1 && r == utf8.RuneError {
			ok = false
		}
		if ok {
			b.WriteRune(r)
		} else {
			b.WriteByte('_')
		}
		i += w
		first = false
	}
	return b.String()
}

// SanitizeValue is the documented label-value rule: values longer than 100 bytes are cut to 100 bytes + "...".
func SanitizeValue(v string) string {
	if len(v) > 100 {
		return v[:100] + "..."
	}
	return v
}

// Sanitized returns the label set as the write path is documented to store it: names and values sanitised, the
// control label __ttl_days__ removed (it sets the TTL, it is not part of the series identity).
func Sanitized(l []Label) []Label {
	out := make([]Label, 0, len(l))
	for _, x := range l {
		n := SanitizeName(x.Name)
		if n == "__ttl_days__" {
			continue
		}
		out = append(out, Label{n, SanitizeValue(x.Value)})
	}
	return out
}

// DistinctAfterSanitisation reports whether all names of the set stay distinct after sanitisation (the C04
// quantifier is restricted to such sets).
func DistinctAfterSanitisation(l []Label) bool {
	seen := map[string]bool{}
	for _, x := range l {
		n := SanitizeName(x.Name)
		if seen[n] {
			return false
		}
		seen[n] = true
	}
	return true
}

// Permutations returns all permutations of 0..n-1 in lexicographic order.
func Permutations(n int) [][]int {
	var out [][]int
	p := make([]int, n)
	used := make([]bool, n)
	var rec func(k int)
	rec = func(k int) {
		if k == n {
			out = append(out, append([]int(nil), p...))
			return
		}
		for i := 0; i < n; i++ {
			if !used[i] {
				used[i] = true
				p[k] = i
				rec(k + 1)
				used[i] = false
			}
		}
	}
	rec(0)
	return out
}

// Permute returns the labels in the given order.
func Permute(l []Label, p []int) []Label {
	out := make([]Label, len(l))
	for i, j := range p {
		out[i] = l[j]
	}
	return out
}

func f64bits(f float64) uint64 { return math.Float64bits(f) }
