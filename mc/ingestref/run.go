package ingestref

import (
	"context"
	"errors"
	"fmt"
	"io"
	"sort"
	"strings"
	"sync"
	"time"
	"unsafe"

	"github.com/golang/snappy"
	clconfig "github.com/metrico/cloki-config"
	"github.com/metrico/qryn/writer/config"
	"github.com/metrico/qryn/writer/model"
	customErrors "github.com/metrico/qryn/writer/utils/errors"
	"github.com/metrico/qryn/writer/utils/logger"
	"github.com/metrico/qryn/writer/utils/numbercache"
	"github.com/metrico/qryn/writer/utils/unmarshal"
)

// InitWriterGlobals sets the process-wide state the parsers read: the default configuration (CityHash
// fingerprints, as `clconfig.New` + defaults produce it in main.go) and a silent logger.
func InitWriterGlobals() {
	config.Cloki = clconfig.New(clconfig.CLOKI_WRITER, nil, "", "")
	logger.Logger.SetOutput(io.Discard)
}

// SetFingerprintType switches between the CityHash (1, default) and Bernstein (0) configuration.
func SetFingerprintType(t uint) { config.Cloki.Setting.FingerPrintType = t }

// Proto is one ingest protocol: how a description is rendered and which exported parser reads it (the wiring is
// the one of writer/controller/*.go).
type Proto struct {
	Name   string
	Render func([]Stream, Opt) ([]byte, error)
	Parser unmarshal.ParsingFunction
	Snappy bool   // the route runs controller.withUnsnappyRequest in front of the parser
	Route  string // for the notes only
	Kinds  string // which entry types the protocol can carry: subset of "lmb" (log, metric, both)
	// MultiEntry: one stream of the description reaches the row builder as ONE callback with all its entries
	// (Loki, remote-write, datadog series); otherwise every entry is its own callback.
	MultiEntry bool
}

var (
	LokiJSON      = &Proto{Name: "loki_json", Render: RenderLokiJSON, Parser: unmarshal.DecodePushRequestStringV2, Route: "POST /loki/api/v1/push", Kinds: "lmb", MultiEntry: true}
	LokiProto     = &Proto{Name: "loki_proto", Render: RenderLokiProto, Parser: unmarshal.UnmarshalProtoV2, Snappy: true, Route: "POST /loki/api/v1/push (application/x-protobuf)", Kinds: "l", MultiEntry: true}
	RemoteWrite   = &Proto{Name: "remote_write", Render: RenderRemoteWrite, Parser: unmarshal.UnmarshallMetricsWriteProtoV2, Snappy: true, Route: "POST /api/v1/prom/remote/write", Kinds: "m", MultiEntry: true}
	Influx        = &Proto{Name: "influx", Render: RenderInflux, Parser: unmarshal.UnmarshalInfluxDBLogsV2, Route: "POST /influx/api/v2/write", Kinds: "lm"}
	DatadogLogs   = &Proto{Name: "datadog_logs", Render: RenderDatadogLogs, Parser: unmarshal.UnmarshallDatadogV2JSONV2, Route: "POST /api/v2/logs", Kinds: "l"}
	DatadogSeries = &Proto{Name: "datadog_series", Render: RenderDatadogSeries, Parser: unmarshal.UnmarshallDatadogMetricsV2JSONV2, Route: "POST /api/v2/series", Kinds: "m", MultiEntry: true}
	OTLPLogs      = &Proto{Name: "otlp_logs", Render: RenderOTLPLogs, Parser: unmarshal.UnmarshalOTLPLogsV2, Route: "POST /v1/logs", Kinds: "l"}
	Protocols     = []*Proto{LokiJSON, LokiProto, RemoteWrite, Influx, DatadogLogs, DatadogSeries, OTLPLogs}
)

func ProtoByName(n string) *Proto {
	for _, p := range Protocols {
		if p.Name == n {
			return p
		}
	}
	return nil
}

// Chunk is one ParserResponse of a log/metric parser.
type Chunk struct {
	Spl *model.TimeSamplesData
	Ts  *model.TimeSeriesData
}

// Output is everything a parser said about one body.
type Output struct {
	Chunks   []Chunk
	Err      error
	Status   int      // HTTP status class the controller answers for Err (controller.ErrorHandler): 0, 4xx, 500
	Problems []string // responses that carry data in the wrong field / of the wrong type
	Mutated  []string // chunks whose arrays changed after they had been handed over
	Shared   string   // two handed-over chunks whose columns share a backing array ("" = none)
}

// NeverSeen is an ICache that has never seen any key: every (day, fingerprint) is announced.
type NeverSeen struct{}

func (NeverSeen) CheckAndSet(uint64) bool              { return false }
func (NeverSeen) DB(string) numbercache.ICache[uint64] { return NeverSeen{} }

// Parse feeds body to the protocol's real parser exactly as the route does and collects every response.
func (p *Proto) Parse(body []byte, o Opt, cache numbercache.ICache[uint64]) Output {
	if p.Snappy { // controller.withUnsnappyRequest
		if n, err := snappy.DecodedLen(body); err == nil && n <= 10*1024*1024 {
			if raw, err := snappy.Decode(nil, body); err == nil {
				body = raw
			}
		}
	}
	ctx := context.Background()
	if p == Influx {
		prec := o.Precision
		if prec == 0 {
			prec = time.Nanosecond
		}
		ctx = context.WithValue(ctx, "precision", prec)
	}
	if o.TTLDays != 0 { // controller.WithOverallContextMiddleware
		ctx = context.WithValue(ctx, "TTL_DAYS", o.TTLDays)
	}
	if cache == nil {
		cache = NeverSeen{}
	}
	var out Output
	var kept []keptChunk
	ch := p.Parser(ctx, NewArrival(body, o.Reader), cache)
	for r := range ch {
		if r.Error != nil {
			if out.Err == nil {
				out.Err = r.Error
				out.Status = StatusOf(r.Error)
			}
			continue
		}
		var c Chunk
		if r.SamplesRequest != nil {
			if s, ok := r.SamplesRequest.(*model.TimeSamplesData); ok {
				c.Spl = s
			} else {
				out.Problems = append(out.Problems, fmt.Sprintf("SamplesRequest holds %T", r.SamplesRequest))
			}
		}
		if r.TimeSeriesRequest != nil {
			if s, ok := r.TimeSeriesRequest.(*model.TimeSeriesData); ok {
				c.Ts = s
			} else {
				out.Problems = append(out.Problems, fmt.Sprintf("TimeSeriesRequest holds %T", r.TimeSeriesRequest))
			}
		}
		if r.SpansRequest != nil || r.SpansAttrsRequest != nil || r.ProfileRequest != nil {
			out.Problems = append(out.Problems, fmt.Sprintf("log/metric parser filled spans=%v attrs=%v profile=%v",
				r.SpansRequest != nil, r.SpansAttrsRequest != nil, r.ProfileRequest != nil))
		}
		if c.Spl == nil && c.Ts == nil && len(out.Problems) == 0 {
			out.Problems = append(out.Problems, "empty response (neither samples nor series)")
		}
		out.Chunks = append(out.Chunks, c)
		// "a chunk must not change after hand-over": the consumer (doPush) reads it in its own goroutine and re-submits
		// the SAME object on retry.  Every chunk is kept exactly as handed over (no copy) next to a deep snapshot taken
		// at receipt; all retained chunks are compared with their snapshots when a later chunk arrives and at the end.
		for i := range kept {
			if d := kept[i].changed(); d != "" {
				out.Mutated = append(out.Mutated, fmt.Sprintf("chunk %d changed after hand-over (seen when chunk %d arrived): %s", i, len(kept), d))
			}
		}
		kept = append(kept, keep(c))
	}
	for i := range kept {
		if d := kept[i].changed(); d != "" {
			out.Mutated = append(out.Mutated, fmt.Sprintf("chunk %d changed after hand-over (seen after the decoder finished): %s", i, d))
		}
	}
	out.Shared = sharedBacking(out.Chunks)
	return out
}

// StatusOf mirrors controller.ErrorHandler: qryn errors carry their code, everything else is a 500.
func StatusOf(err error) int {
	if err == nil {
		return 0
	}
	var q customErrors.IQrynError
	if errors.As(err, &q) {
		return q.GetCode()
	}
	return 500
}

// Rectangular checks that all per-row arrays of a chunk have equal length; it returns a description of the
// first chunk that is not rectangular ("" when all are).
func (o *Output) Rectangular() string {
	for i, c := range o.Chunks {
		if s := c.Spl; s != nil {
			n := len(s.MTimestampNS)
			if len(s.MFingerprint) != n || len(s.MMessage) != n || len(s.MValue) != n || len(s.MType) != n || len(s.MTTLDays) != n {
				return fmt.Sprintf("chunk %d samples: fingerprint=%d timestamp_ns=%d string=%d value=%d type=%d ttl_days=%d",
					i, len(s.MFingerprint), n, len(s.MMessage), len(s.MValue), len(s.MType), len(s.MTTLDays))
			}
		}
		if t := c.Ts; t != nil {
			n := len(t.MDate)
			if len(t.MLabels) != n || len(t.MFingerprint) != n || len(t.MType) != n || len(t.MTTLDays) != n {
				return fmt.Sprintf("chunk %d series: date=%d labels=%d fingerprint=%d type=%d ttl_days=%d",
					i, n, len(t.MLabels), len(t.MFingerprint), len(t.MType), len(t.MTTLDays))
			}
		}
	}
	return ""
}

// Rows is the concatenation of all sample rows of all chunks.  Row i of a chunk is read across the columns; a
// column that is too short yields the zero value (non-rectangular chunks are reported separately).
func (o *Output) Rows() []Row {
	var rows []Row
	for _, c := range o.Chunks {
		s := c.Spl
		if s == nil {
			continue
		}
		for i := range s.MTimestampNS {
			var r Row
			r.TsNs = s.MTimestampNS[i]
			if i < len(s.MFingerprint) {
				r.FP = s.MFingerprint[i]
			}
			if i < len(s.MMessage) {
				r.Msg = s.MMessage[i]
			}
			if i < len(s.MValue) {
				r.Val = f64bits(s.MValue[i])
			}
			if i < len(s.MType) {
				r.Type = s.MType[i]
			} else {
				r.Type = 255
			}
			rows = append(rows, r)
		}
	}
	return rows
}

// OnlyTypeColumnOff reports whether every chunk is rectangular except for the length of the sample type column.
func (o *Output) OnlyTypeColumnOff() bool {
	for _, c := range o.Chunks {
		if s := c.Spl; s != nil {
			n := len(s.MTimestampNS)
			if len(s.MFingerprint) != n || len(s.MMessage) != n || len(s.MValue) != n || len(s.MTTLDays) != n {
				return false
			}
		}
		if t := c.Ts; t != nil {
			n := len(t.MDate)
			if len(t.MLabels) != n || len(t.MFingerprint) != n || len(t.MType) != n || len(t.MTTLDays) != n {
				return false
			}
		}
	}
	return true
}

// TypeCount is the total length of the type column over all chunks (needed by the D4 classifier).
func (o *Output) TypeCount() int {
	n := 0
	for _, c := range o.Chunks {
		if c.Spl != nil {
			n += len(c.Spl.MType)
		}
	}
	return n
}

// Diff compares two multisets of rows; it returns "" when equal, otherwise a short description.
func Diff(want, got []Row) (string, []Row, []Row) {
	m := make(map[Row]int, len(want))
	for _, r := range want {
		m[r]++
	}
	var extra []Row
	for _, r := range got {
		if m[r] > 0 {
			m[r]--
		} else {
			extra = append(extra, r)
		}
	}
	var missing []Row
	for r, n := range m {
		for ; n > 0; n-- {
			missing = append(missing, r)
		}
	}
	if len(missing) == 0 && len(extra) == 0 {
		return "", nil, nil
	}
	sortRows(missing)
	sortRows(extra)
	var sb strings.Builder
	fmt.Fprintf(&sb, "want %d rows, got %d; missing %d", len(want), len(got), len(missing))
	for i, r := range missing {
		if i == 3 {
			sb.WriteString(" ...")
			break
		}
		sb.WriteString(" " + r.String())
	}
	fmt.Fprintf(&sb, "; unexpected %d", len(extra))
	for i, r := range extra {
		if i == 3 {
			sb.WriteString(" ...")
			break
		}
		sb.WriteString(" " + r.String())
	}
	return sb.String(), missing, extra
}

func sortRows(r []Row) {
	sort.Slice(r, func(i, j int) bool {
		a, b := r[i], r[j]
		if a.TsNs != b.TsNs {
			return a.TsNs < b.TsNs
		}
		if a.FP != b.FP {
			return a.FP < b.FP
		}
		if a.Type != b.Type {
			return a.Type < b.Type
		}
		if a.Val != b.Val {
			return a.Val < b.Val
		}
		return a.Msg < b.Msg
	})
}

// FPRef answers "which fingerprint does the parser itself give to this label set": a single-stream, single-entry
// body of the same protocol in the plainest rendering.  Differential: the hash is never re-implemented.
type FPRef struct {
	mu sync.Mutex
	m  map[string]fpRes
}

type fpRes struct {
	fp  uint64
	err error
}

func NewFPRef() *FPRef { return &FPRef{m: map[string]fpRes{}} }

// RefOpt is the plainest rendering of each protocol (used for reference fingerprints).
func RefOpt(p *Proto) Opt { return Opt{} }

func (f *FPRef) FP(p *Proto, labels []Label) (uint64, error) { return f.FPWith(p, labels, 0) }

// FPWith: the reference fingerprint under a given X-Ttl-Days context value (with it, __ttl_days__ stays a label).
func (f *FPRef) FPWith(p *Proto, labels []Label, ttl uint16) (uint64, error) {
	key := fmt.Sprintf("%s|%d|%s", p.Name, ttl, labelsSeqKey(labels))
	f.mu.Lock()
	r, ok := f.m[key]
	f.mu.Unlock()
	if ok {
		return r.fp, r.err
	}
	fp, err := refFP(p, labels, ttl)
	f.mu.Lock()
	f.m[key] = fpRes{fp, err}
	f.mu.Unlock()
	return fp, err
}

func labelsSeqKey(l []Label) string {
	var sb strings.Builder
	for _, x := range l {
		fmt.Fprintf(&sb, "%q=%q,", x.Name, x.Value)
	}
	return sb.String()
}

func refEntry(p *Proto) Entry {
	const ts = 1700000000 * int64(1e9)
	if strings.Contains(p.Kinds, "l") {
		return Entry{TsNs: ts, Line: "ref", Type: TypeLog}
	}
	return Entry{TsNs: ts, Value: 1, Type: TypeMetric}
}

func refFP(p *Proto, labels []Label, ttl uint16) (uint64, error) {
	e := refEntry(p)
	if p == Influx {
		for _, l := range labels {
			if l.Name == "__name__" {
				e = Entry{TsNs: e.TsNs, Value: 1, Type: TypeMetric}
			}
		}
	}
	ro := RefOpt(p)
	ro.TTLDays = ttl
	body, err := p.Render([]Stream{{Labels: labels, Entries: []Entry{e}}}, ro)
	if err != nil {
		return 0, err
	}
	out := p.Parse(body, ro, nil)
	if out.Err != nil {
		return 0, fmt.Errorf("reference body rejected: %w", out.Err)
	}
	rows := out.Rows()
	if len(rows) != 1 {
		return 0, fmt.Errorf("reference body gave %d rows", len(rows))
	}
	return rows[0].FP, nil
}

type keptChunk struct {
	c   Chunk
	spl *model.TimeSamplesData
	ts  *model.TimeSeriesData
}

func keep(c Chunk) keptChunk {
	k := keptChunk{c: c}
	if s := c.Spl; s != nil {
		k.spl = &model.TimeSamplesData{MFingerprint: append([]uint64(nil), s.MFingerprint...), MTimestampNS: append([]int64(nil), s.MTimestampNS...),
			MMessage: append([]string(nil), s.MMessage...), MValue: append([]float64(nil), s.MValue...), MTTLDays: append([]uint16(nil), s.MTTLDays...),
			MType: append([]uint8(nil), s.MType...), Size: s.Size}
	}
	if t := c.Ts; t != nil {
		k.ts = &model.TimeSeriesData{MDate: append([]time.Time(nil), t.MDate...), MLabels: append([]string(nil), t.MLabels...),
			MFingerprint: append([]uint64(nil), t.MFingerprint...), MTTLDays: append([]uint16(nil), t.MTTLDays...), MType: append([]uint8(nil), t.MType...),
			Size: t.Size, MMeta: t.MMeta}
	}
	return k
}

func eqSlice[T comparable](a, b []T) int {
	if len(a) != len(b) {
		return -2
	}
	for i := range a {
		if a[i] != b[i] {
			return i
		}
	}
	return -1
}

func (k *keptChunk) changed() string {
	rep := func(col string, r int) string {
		if r == -2 {
			return col + ": length changed"
		}
		return fmt.Sprintf("%s[%d] differs from the value handed over", col, r)
	}
	if s, o := k.c.Spl, k.spl; s != nil {
		if r := eqSlice(s.MFingerprint, o.MFingerprint); r != -1 {
			return rep("samples.fingerprint", r)
		}
		if r := eqSlice(s.MTimestampNS, o.MTimestampNS); r != -1 {
			return rep("samples.timestamp_ns", r)
		}
		if r := eqSlice(s.MMessage, o.MMessage); r != -1 {
			return rep("samples.string", r)
		}
		for i := range s.MValue {
			if i >= len(o.MValue) || f64bits(s.MValue[i]) != f64bits(o.MValue[i]) {
				return rep("samples.value", i)
			}
		}
		if len(s.MValue) != len(o.MValue) {
			return rep("samples.value", -2)
		}
		if r := eqSlice(s.MTTLDays, o.MTTLDays); r != -1 {
			return rep("samples.ttl_days", r)
		}
		if r := eqSlice(s.MType, o.MType); r != -1 {
			return rep("samples.type", r)
		}
	}
	if t, o := k.c.Ts, k.ts; t != nil {
		if len(t.MDate) != len(o.MDate) {
			return rep("series.date", -2)
		}
		for i := range t.MDate {
			if !t.MDate[i].Equal(o.MDate[i]) {
				return rep("series.date", i)
			}
		}
		if r := eqSlice(t.MLabels, o.MLabels); r != -1 {
			return rep("series.labels", r)
		}
		if r := eqSlice(t.MFingerprint, o.MFingerprint); r != -1 {
			return rep("series.fingerprint", r)
		}
		if r := eqSlice(t.MTTLDays, o.MTTLDays); r != -1 {
			return rep("series.ttl_days", r)
		}
		if r := eqSlice(t.MType, o.MType); r != -1 {
			return rep("series.type", r)
		}
	}
	return ""
}

// sharedBacking reports two handed-over chunks whose non-empty columns start at the same address.
func sharedBacking(chunks []Chunk) string {
	seen := map[unsafe.Pointer]string{}
	note := func(p unsafe.Pointer, n int, who string) string {
		if n == 0 || p == nil {
			return ""
		}
		if o, ok := seen[p]; ok {
			return o + " and " + who
		}
		seen[p] = who
		return ""
	}
	for i, c := range chunks {
		w := func(col string) string { return fmt.Sprintf("chunk %d %s", i, col) }
		var hits []string
		if s := c.Spl; s != nil {
			hits = append(hits, note(unsafe.Pointer(unsafe.SliceData(s.MFingerprint)), len(s.MFingerprint), w("samples.fingerprint")),
				note(unsafe.Pointer(unsafe.SliceData(s.MTimestampNS)), len(s.MTimestampNS), w("samples.timestamp_ns")),
				note(unsafe.Pointer(unsafe.SliceData(s.MMessage)), len(s.MMessage), w("samples.string")),
				note(unsafe.Pointer(unsafe.SliceData(s.MValue)), len(s.MValue), w("samples.value")),
				note(unsafe.Pointer(unsafe.SliceData(s.MTTLDays)), len(s.MTTLDays), w("samples.ttl_days")),
				note(unsafe.Pointer(unsafe.SliceData(s.MType)), len(s.MType), w("samples.type")))
		}
		if t := c.Ts; t != nil {
			hits = append(hits, note(unsafe.Pointer(unsafe.SliceData(t.MDate)), len(t.MDate), w("series.date")),
				note(unsafe.Pointer(unsafe.SliceData(t.MLabels)), len(t.MLabels), w("series.labels")),
				note(unsafe.Pointer(unsafe.SliceData(t.MFingerprint)), len(t.MFingerprint), w("series.fingerprint")),
				note(unsafe.Pointer(unsafe.SliceData(t.MTTLDays)), len(t.MTTLDays), w("series.ttl_days")),
				note(unsafe.Pointer(unsafe.SliceData(t.MType)), len(t.MType), w("series.type")))
		}
		for _, h := range hits {
			if h != "" {
				return h + " share a backing array"
			}
		}
	}
	return ""
}
