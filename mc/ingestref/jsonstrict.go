package ingestref

import (
	"encoding/json"
	"fmt"
	"strconv"
	"strings"
	"unicode/utf16"
	"unicode/utf8"
)

// StrictStringObject reads doc as ONE JSON object whose values are all strings, following RFC 8259 to the byte
// (what a conforming reader such as ClickHouse's JSONExtractKeysAndValues accepts, and nothing more lenient):
// only the escapes \" \\ \/ \b \f \n \r \t \uXXXX, no raw control characters, valid UTF-8 only, surrogates only in
// pairs, no trailing bytes.  Returns the pairs in document order (duplicate keys are an error).
func StrictStringObject(doc []byte) ([]Label, error) {
	p := &sjson{b: doc}
	p.ws()
	if !p.eat('{') {
		return nil, p.errf("expected '{'")
	}
	var out []Label
	seen := map[string]bool{}
	p.ws()
	if p.eat('}') {
		p.ws()
		if p.i != len(p.b) {
			return nil, p.errf("trailing bytes")
		}
		return out, nil
	}
	for {
		p.ws()
		k, err := p.str()
		if err != nil {
			return nil, err
		}
		p.ws()
		if !p.eat(':') {
			return nil, p.errf("expected ':'")
		}
		p.ws()
		v, err := p.str()
		if err != nil {
			return nil, err
		}
		if seen[k] {
			return nil, p.errf("duplicate key %q", k)
		}
		seen[k] = true
		out = append(out, Label{k, v})
		p.ws()
		if p.eat(',') {
			continue
		}
		if p.eat('}') {
			break
		}
		return nil, p.errf("expected ',' or '}'")
	}
	p.ws()
	if p.i != len(p.b) {
		return nil, p.errf("trailing bytes")
	}
	return out, nil
}

type sjson struct {
	b []byte
	i int
}

// StrictError carries the reason in a stable form (used to name findings by explanation).
type StrictError struct {
	Pos    int
	Reason string // e.g. "escape \\a", "raw control byte", "invalid UTF-8"
}

func (e *StrictError) Error() string {
	return fmt.Sprintf("not RFC 8259 JSON at byte %d: %s", e.Pos, e.Reason)
}

func (p *sjson) errf(f string, a ...any) error { return &StrictError{p.i, fmt.Sprintf(f, a...)} }

func (p *sjson) ws() {
	for p.i < len(p.b) && (p.b[p.i] == ' ' || p.b[p.i] == '\t' || p.b[p.i] == '\n' || p.b[p.i] == '\r') {
		p.i++
	}
}

func (p *sjson) eat(c byte) bool {
	if p.i < len(p.b) && p.b[p.i] == c {
		p.i++
		return true
	}
	return false
}

func (p *sjson) hex4() (rune, error) {
	if p.i+4 > len(p.b) {
		return 0, p.errf("short \\u escape")
	}
	n, err := strconv.ParseUint(string(p.b[p.i:p.i+4]), 16, 16)
	if err != nil {
		return 0, p.errf("bad \\u escape")
	}
	p.i += 4
	return rune(n), nil
}

func (p *sjson) str() (string, error) {
	if !p.eat('"') {
		return "", p.errf("expected string")
	}
	var sb strings.Builder
	for {
		if p.i >= len(p.b) {
			return "", p.errf("unterminated string")
		}
		c := p.b[p.i]
		switch {
		case c == '"':
			p.i++
			return sb.String(), nil
		case c < 0x20:
			return "", p.errf("raw control byte 0x%02x in string", c)
		case c == '\\':
			p.i++
			if p.i >= len(p.b) {
				return "", p.errf("unterminated escape")
			}
			e := p.b[p.i]
			p.i++
			switch e {
			case '"', '\\', '/':
				sb.WriteByte(e)
			case 'b':
				sb.WriteByte('\b')
			case 'f':
				sb.WriteByte('\f')
			case 'n':
				sb.WriteByte('\n')
			case 'r':
				sb.WriteByte('\r')
			case 't':
				sb.WriteByte('\t')
			case 'u':
				r, err := p.hex4()
				if err != nil {
					return "", err
				}
				if utf16.IsSurrogate(r) {
					if p.i+2 <= len(p.b) && p.b[p.i] == '\\' && p.b[p.i+1] == 'u' {
						p.i += 2
						r2, err := p.hex4()
						if err != nil {
							return "", err
						}
						d := utf16.DecodeRune(r, r2)
						if d == utf8.RuneError {
							return "", p.errf("unpaired surrogate")
						}
						r = d
					} else {
						return "", p.errf("unpaired surrogate")
					}
				}
				sb.WriteRune(r)
			default:
				p.i--
				return "", p.errf("escape \\%c is not JSON", e)
			}
		case c < 0x80:
			sb.WriteByte(c)
			p.i++
		default:
			r, w := utf8.DecodeRune(p.b[p.i:])
			if r == utf8.RuneError && w == 1 {
				return "", p.errf("invalid UTF-8 byte 0x%02x", c)
			}
			sb.Write(p.b[p.i : p.i+w])
			p.i += w
		}
	}
}

// LenientStringObject is encoding/json's reading of the same document (what the Go reader side does).
func LenientStringObject(doc []byte) (map[string]string, error) {
	var m map[string]string
	if err := json.Unmarshal(doc, &m); err != nil {
		return nil, err
	}
	if m == nil {
		return nil, fmt.Errorf("not an object")
	}
	return m, nil
}

// GoQuotedObject reads doc under the deviant rule of D3: {"k":"v",...} where every string is a Go string literal
// (strconv.Quote).  It is used only to recognise D3, never as an oracle.
func GoQuotedObject(doc string) ([]Label, bool) {
	if len(doc) < 2 || doc[0] != '{' || doc[len(doc)-1] != '}' {
		return nil, false
	}
	s := doc[1 : len(doc)-1]
	var out []Label
	if s == "" {
		return out, true
	}
	next := func() (string, bool) {
		pre, err := strconv.QuotedPrefix(s)
		if err != nil {
			return "", false
		}
		v, err := strconv.Unquote(pre)
		if err != nil {
			return "", false
		}
		s = s[len(pre):]
		return v, true
	}
	for {
		k, ok := next()
		if !ok || len(s) == 0 || s[0] != ':' {
			return nil, false
		}
		s = s[1:]
		v, ok := next()
		if !ok {
			return nil, false
		}
		out = append(out, Label{k, v})
		if s == "" {
			return out, true
		}
		if s[0] != ',' {
			return nil, false
		}
		s = s[1:]
	}
}
