package ingestref

import (
	"context"
	"errors"
	"fmt"
	"strings"
	"sync"

	"github.com/ClickHouse/ch-go"
	"github.com/ClickHouse/ch-go/proto"
	"github.com/ClickHouse/clickhouse-go/v2/lib/driver"
	"github.com/metrico/qryn/writer/ch_wrapper"
)

// FakeCH implements writer/ch_wrapper.IChClient for the insert side: every Do is decoded (the blocks are pooled
// and recycled by the service, so they are read inside Do) and answered with the outcome the environment chose.
type FakeCH struct {
	mu  sync.Mutex
	Log []Insert
	// the pending faults may be shared by the clients of several databases ("the next INSERT into time_series,
	// wherever it goes, fails")
	f *Faults
}

// Faults: FailNext[table] > 0 means the next INSERT into that table fails (and the counter goes down by one).
type Faults struct {
	mu       sync.Mutex
	FailNext map[string]int
}

func NewFaults() *Faults { return &Faults{FailNext: map[string]int{}} }

// Insert is one decoded INSERT block.
type Insert struct {
	Table   string // time_series | samples (the _dist suffix of cluster mode is kept in Query)
	Query   string
	OK      bool
	Rows    int
	RowsPer map[string]int // rows per column (a rectangular block has one value)
	Series  []SeriesRow
	Samples []SampleRow
}

type SeriesRow struct {
	FP     uint64
	Day    uint16 // the UInt16 day number actually sent in the Date column
	Type   uint8
	Labels string
}

type SampleRow struct {
	FP   uint64
	TsNs int64
	Type uint8
	Msg  string
	Val  float64
}

func NewFakeCH() *FakeCH { return &FakeCH{f: NewFaults()} }

// NewFakeCHSharing returns a client of another database that shares the pending faults f.
func NewFakeCHSharing(f *Faults) *FakeCH { return &FakeCH{f: f} }

func (f *FakeCH) Faults() *Faults { return f.f }

func (f *FakeCH) Factory() ch_wrapper.IChClientFactory {
	return func() (ch_wrapper.IChClient, error) { return f, nil }
}

// Reset forgets the log and all pending faults.
func (f *FakeCH) Reset() {
	f.mu.Lock()
	f.Log = nil
	f.mu.Unlock()
	f.f.mu.Lock()
	f.f.FailNext = map[string]int{}
	f.f.mu.Unlock()
}

// Take returns the log and clears it.
func (f *FakeCH) Take() []Insert {
	f.mu.Lock()
	defer f.mu.Unlock()
	l := f.Log
	f.Log = nil
	return l
}

func (f *FakeCH) SetFail(table string, n int) {
	f.f.mu.Lock()
	f.f.FailNext[table] = n
	f.f.mu.Unlock()
}

func (f *FakeCH) Fail(table string) int {
	f.f.mu.Lock()
	defer f.f.mu.Unlock()
	return f.f.FailNext[table]
}

var ErrInjected = errors.New("code: 241, message: injected INSERT failure (verif)")

func (f *FakeCH) Do(ctx context.Context, q ch.Query) error {
	ins := Insert{Query: q.Body, RowsPer: map[string]int{}}
	switch {
	case strings.HasPrefix(q.Body, "INSERT INTO time_series"):
		ins.Table = "time_series"
	case strings.HasPrefix(q.Body, "INSERT INTO samples"):
		ins.Table = "samples"
	default:
		ins.Table = "other"
	}
	cols := map[string]proto.ColInput{}
	for _, c := range q.Input {
		cols[c.Name] = c.Data
		ins.RowsPer[c.Name] = c.Data.Rows()
		if c.Data.Rows() > ins.Rows {
			ins.Rows = c.Data.Rows()
		}
	}
	u8 := func(n string, i int) uint8 {
		if c, ok := cols[n].(proto.ColUInt8); ok && i < len(c) {
			return c[i]
		}
		return 255
	}
	u64 := func(n string, i int) uint64 {
		if c, ok := cols[n].(proto.ColUInt64); ok && i < len(c) {
			return c[i]
		}
		return 0
	}
	str := func(n string, i int) string {
		if c, ok := cols[n].(*proto.ColStr); ok && i < c.Rows() {
			return c.Row(i)
		}
		return ""
	}
	switch ins.Table {
	case "time_series":
		d, _ := cols["date"].(proto.ColDate)
		for i := 0; i < ins.Rows; i++ {
			r := SeriesRow{FP: u64("fingerprint", i), Type: u8("type", i), Labels: str("labels", i)}
			if i < len(d) {
				r.Day = uint16(d[i])
			}
			ins.Series = append(ins.Series, r)
		}
	case "samples":
		ts, _ := cols["timestamp_ns"].(proto.ColInt64)
		val, _ := cols["value"].(proto.ColFloat64)
		for i := 0; i < ins.Rows; i++ {
			r := SampleRow{FP: u64("fingerprint", i), Type: u8("type", i), Msg: str("string", i)}
			if i < len(ts) {
				r.TsNs = ts[i]
			}
			if i < len(val) {
				r.Val = val[i]
			}
			ins.Samples = append(ins.Samples, r)
		}
	}
	f.f.mu.Lock()
	fail := f.f.FailNext[ins.Table] > 0
	if fail {
		f.f.FailNext[ins.Table]--
	}
	f.f.mu.Unlock()
	f.mu.Lock()
	defer f.mu.Unlock()
	if fail {
		f.Log = append(f.Log, ins)
		return ErrInjected
	}
	ins.OK = true
	f.Log = append(f.Log, ins)
	return nil
}

func (f *FakeCH) Ping(ctx context.Context) error { return nil }
func (f *FakeCH) Close() error                   { return nil }

var errNotInsert = fmt.Errorf("verif fake: only the insert half of IChClient is implemented")

func (f *FakeCH) Exec(ctx context.Context, query string, args ...any) error { return errNotInsert }
func (f *FakeCH) Scan(ctx context.Context, req string, args []any, dest ...interface{}) error {
	return errNotInsert
}
func (f *FakeCH) DropIfEmpty(ctx context.Context, name string) error { return errNotInsert }
func (f *FakeCH) TableExists(ctx context.Context, name string) (bool, error) {
	return false, errNotInsert
}
func (f *FakeCH) GetDBExec(env map[string]string) func(ctx context.Context, query string, args ...[]interface{}) error {
	return func(ctx context.Context, query string, args ...[]interface{}) error { return errNotInsert }
}
func (f *FakeCH) GetVersion(ctx context.Context, k uint64) (uint64, error) { return 0, errNotInsert }
func (f *FakeCH) GetSetting(ctx context.Context, tp string, name string) (string, error) {
	return "", errNotInsert
}
func (f *FakeCH) PutSetting(ctx context.Context, tp string, name string, value string) error {
	return errNotInsert
}
func (f *FakeCH) GetFirst(req string, first ...interface{}) error { return errNotInsert }
func (f *FakeCH) GetList(req string) ([]string, error)            { return nil, errNotInsert }
func (f *FakeCH) Query(ctx context.Context, query string, args ...interface{}) (driver.Rows, error) {
	return nil, errNotInsert
}
func (f *FakeCH) QueryRow(ctx context.Context, query string, args ...interface{}) driver.Row {
	return nil
}

var _ ch_wrapper.IChClient = (*FakeCH)(nil)
