package ingestref

import (
	"bytes"
	"encoding/base64"
	"encoding/json"
	"errors"
	"fmt"
	"sort"
	"strconv"
	"strings"
	"time"
	"unicode/utf8"

	"github.com/golang/snappy"
	"github.com/metrico/qryn/writer/utils/proto/logproto"
	"github.com/metrico/qryn/writer/utils/proto/prompb"
	otlpCommon "go.opentelemetry.io/proto/otlp/common/v1"
	otlpLogs "go.opentelemetry.io/proto/otlp/logs/v1"
	otlpResource "go.opentelemetry.io/proto/otlp/resource/v1"
	"google.golang.org/protobuf/proto"
)

// ErrInexpressible: the protocol has no way to say this (e.g. a metric sample in a Loki protobuf push).  Such
// (description, protocol) pairs are skipped and counted, never judged.
var ErrInexpressible = errors.New("inexpressible in this protocol")

func inexpr(format string, a ...any) error {
	return fmt.Errorf("%w: %s", ErrInexpressible, fmt.Sprintf(format, a...))
}

// Opt are the rendering choices (different byte strings that mean the same request).
type Opt struct {
	// Loki JSON
	Layout       int  // 0: "stream" object + "values" arrays; 1: "labels" string + "entries" objects
	EntriesFirst bool // key order inside a stream object
	Perm         int  // layout 1: permutation (index into Permutations(3)) of the entry keys (ts, line, value)
	TsKey        int  // layout 1: 0 "ts", 1 "timestamp"
	TsFmt        int  // layout 1: 0 integer string, 1 RFC3339Nano Z, 2 RFC3339Nano with +02:00 offset
	Third        int  // layout 0, log entries: 0 absent, 1 object (structured metadata), 2 string, 3 null, 4 array
	Envelope     int  // 0 {"streams":[...]}; 1 unknown key before; 2 unknown key after
	Unknown      bool // add an unknown key to every stream object and (layout 1) entry object
	// Influx
	Precision   time.Duration // ns, us, ms, s
	MergeFields bool          // numeric fields of one point on one line
	// Datadog / generic JSON objects
	KeyRot int // rotation of the key order inside the per-entry / per-series object
	// OTLP logs
	Place      int  // base-3 digits: level (0 resource, 1 scope, 2 record) of label i
	Typed      int  // 0 string values; 1 typed AnyValue where the string is the canonical text of a typed value; 2 same, bytes preferred
	OmitEmpty  bool // leave `resource` / `scope` unset when they would carry no attribute
	PerEntry   bool // one ResourceLogs per entry instead of one per stream
	SevAsLevel bool // label "level" travels as severity_text
	OneRes     bool // all streams under ONE ResourceLogs, one ScopeLogs each (needs no stream to have resource-level labels)
	ByName     bool // placement by label name instead of o.Place: res_* resource attribute, scp_* scope attribute, level severity_text, others record attribute
	Pack       bool // with ByName: consecutive streams with equal resource attributes share a ResourceLogs, with equal scope attributes a ScopeLogs — records of different streams then sit in ONE scope
	OmitBody   bool // an empty line travels as an unset body / an absent "message" key instead of an empty string
	Reverse    bool // remote-write: labels of every series in reverse order
	// request context, not part of the body
	TTLDays uint16 // value of the X-Ttl-Days header (context value TTL_DAYS); 0 = absent
	Reader  int    // how the body arrives (see arrival.go): 0 whole, 1..7 short reads, 8 EOF with the last bytes, 9 (0,nil) once
}

// jstr writes s as a JSON string with the minimal escapes (the bytes of s are otherwise copied verbatim, so a
// description holding invalid UTF-8 yields a body holding invalid UTF-8).
func jstr(b *bytes.Buffer, s string) {
	b.WriteByte('"')
	for i := 0; i < len(s); i++ {
		c := s[i]
		switch {
		case c == '"':
			b.WriteString(`\"`)
		case c == '\\':
			b.WriteString(`\\`)
		case c < 0x20:
			fmt.Fprintf(b, `\u%04x`, c)
		default:
			b.WriteByte(c)
		}
	}
	b.WriteByte('"')
}

func jnum(v float64) string { return strconv.FormatFloat(v, 'g', -1, 64) }

// LokiLabelString renders {a="x",b="y"} (values in Go/Prometheus quoting, which is what Loki clients send).
func LokiLabelString(l []Label) (string, error) {
	if len(l) == 0 {
		return "", inexpr("empty label set in a Loki label string")
	}
	var sb strings.Builder
	sb.WriteByte('{')
	for i, x := range l {
		if !isIdent(x.Name) {
			return "", inexpr("label name %q is not an identifier", x.Name)
		}
		if i > 0 {
			sb.WriteByte(',')
		}
		sb.WriteString(x.Name)
		sb.WriteByte('=')
		sb.WriteString(strconv.Quote(x.Value))
	}
	sb.WriteByte('}')
	return sb.String(), nil
}

func isIdent(s string) bool {
	if s == "" {
		return false
	}
	for i := 0; i < len(s); i++ {
		c := s[i]
		if !(c == '_' || (c >= 'a' && c <= 'z') || (c >= 'A' && c <= 'Z') || (i > 0 && c >= '0' && c <= '9')) {
			return false
		}
	}
	return true
}

func checkEntry(e Entry) error {
	switch e.Type {
	case TypeLog:
		if e.Value != 0 {
			return fmt.Errorf("bad description: log entry with value")
		}
	case TypeMetric:
		if e.Line != "" {
			return fmt.Errorf("bad description: metric entry with line")
		}
	case TypeBoth:
	default:
		return fmt.Errorf("bad description: type %d", e.Type)
	}
	if e.TsNs <= 0 {
		return fmt.Errorf("bad description: timestamp %d", e.TsNs)
	}
	return nil
}

// RenderLokiJSON renders a Loki JSON push body.
func RenderLokiJSON(streams []Stream, o Opt) ([]byte, error) {
	var b bytes.Buffer
	b.WriteByte('{')
	if o.Envelope == 1 {
		b.WriteString(`"meta":{"streams":[1,"x",{"stream":{}}]},`)
	}
	b.WriteString(`"streams":[`)
	perm := Permutations(3)[o.Perm%6]
	for si, s := range streams {
		if si > 0 {
			b.WriteByte(',')
		}
		var lb, eb bytes.Buffer
		if o.Layout == 0 {
			lb.WriteString(`"stream":{`)
			for i, l := range s.Labels {
				if i > 0 {
					lb.WriteByte(',')
				}
				jstr(&lb, l.Name)
				lb.WriteByte(':')
				jstr(&lb, l.Value)
			}
			lb.WriteByte('}')
			eb.WriteString(`"values":[`)
			for i, e := range s.Entries {
				if err := checkEntry(e); err != nil {
					return nil, err
				}
				if e.Type == TypeMetric {
					return nil, inexpr("value-only entry in the values layout")
				}
				if i > 0 {
					eb.WriteByte(',')
				}
				eb.WriteByte('[')
				jstr(&eb, strconv.FormatInt(e.TsNs, 10))
				eb.WriteByte(',')
				jstr(&eb, e.Line)
				if e.Type == TypeBoth {
					eb.WriteByte(',')
					eb.WriteString(jnum(e.Value))
				} else {
					switch o.Third {
					case 1:
						eb.WriteString(`,{"trace_id":"0242ac120002","n":1}`)
					case 2:
						eb.WriteString(`,"7"`)
					case 3:
						eb.WriteString(`,null`)
					case 4:
						eb.WriteString(`,[1,2]`)
					}
				}
				eb.WriteByte(']')
			}
			eb.WriteByte(']')
		} else {
			ls, err := LokiLabelString(s.Labels)
			if err != nil {
				return nil, err
			}
			lb.WriteString(`"labels":`)
			jstr(&lb, ls)
			eb.WriteString(`"entries":[`)
			for i, e := range s.Entries {
				if err := checkEntry(e); err != nil {
					return nil, err
				}
				if i > 0 {
					eb.WriteByte(',')
				}
				eb.WriteByte('{')
				n := 0
				for _, k := range perm {
					var kv bytes.Buffer
					switch k {
					case 0:
						if o.TsKey == 0 {
							kv.WriteString(`"ts":`)
						} else {
							kv.WriteString(`"timestamp":`)
						}
						switch o.TsFmt {
						case 0:
							jstr(&kv, strconv.FormatInt(e.TsNs, 10))
						case 1:
							jstr(&kv, time.Unix(0, e.TsNs).UTC().Format(time.RFC3339Nano))
						default:
							jstr(&kv, time.Unix(0, e.TsNs).In(time.FixedZone("", 2*3600)).Format(time.RFC3339Nano))
						}
					case 1:
						if e.Type == TypeMetric {
							continue
						}
						kv.WriteString(`"line":`)
						jstr(&kv, e.Line)
					case 2:
						if e.Type == TypeLog {
							continue
						}
						kv.WriteString(`"value":`)
						kv.WriteString(jnum(e.Value))
					}
					if n > 0 {
						eb.WriteByte(',')
					}
					n++
					eb.Write(kv.Bytes())
				}
				if o.Unknown {
					eb.WriteString(`,"structuredMetadata":{"line":"no","value":3,"ts":"1"}`)
				}
				eb.WriteByte('}')
			}
			eb.WriteByte(']')
		}
		b.WriteByte('{')
		if o.Unknown {
			b.WriteString(`"x-unknown":[{"stream":{"zz":"1"},"values":[["1","q"]]}],`)
		}
		if o.EntriesFirst {
			b.Write(eb.Bytes())
			b.WriteByte(',')
			b.Write(lb.Bytes())
		} else {
			b.Write(lb.Bytes())
			b.WriteByte(',')
			b.Write(eb.Bytes())
		}
		b.WriteByte('}')
	}
	b.WriteByte(']')
	if o.Envelope == 2 {
		b.WriteString(`,"meta":{"streams":[]}`)
	}
	b.WriteByte('}')
	return b.Bytes(), nil
}

// RenderLokiProto renders a snappy-compressed logproto.PushRequest (log entries only).
func RenderLokiProto(streams []Stream, o Opt) ([]byte, error) {
	req := &logproto.PushRequest{}
	for _, s := range streams {
		ls, err := LokiLabelString(s.Labels)
		if err != nil {
			return nil, err
		}
		st := &logproto.StreamAdapter{Labels: ls}
		for _, e := range s.Entries {
			if err := checkEntry(e); err != nil {
				return nil, err
			}
			if e.Type != TypeLog {
				return nil, inexpr("non-log entry in a Loki protobuf push")
			}
			if !utf8.ValidString(e.Line) {
				return nil, inexpr("invalid UTF-8 in a proto3 string")
			}
			st.Entries = append(st.Entries, &logproto.EntryAdapter{
				Timestamp: &logproto.Timestamp{Seconds: e.TsNs / 1e9, Nanos: int32(e.TsNs % 1e9)}, Line: e.Line})
		}
		req.Streams = append(req.Streams, st)
	}
	raw, err := proto.Marshal(req)
	if err != nil {
		return nil, inexpr("proto marshal: %v", err)
	}
	return snappy.Encode(nil, raw), nil
}

// RenderRemoteWrite renders a snappy-compressed prompb.WriteRequest (metric samples, millisecond timestamps).
func RenderRemoteWrite(streams []Stream, o Opt) ([]byte, error) {
	req := &prompb.WriteRequest{}
	for _, s := range streams {
		ts := &prompb.TimeSeries{}
		for _, l := range s.Labels {
			if !utf8.ValidString(l.Name) || !utf8.ValidString(l.Value) {
				return nil, inexpr("invalid UTF-8 in a proto3 string")
			}
			ts.Labels = append(ts.Labels, &prompb.Label{Name: l.Name, Value: l.Value})
		}
		if o.Reverse {
			for i, j := 0, len(ts.Labels)-1; i < j; i, j = i+1, j-1 {
				ts.Labels[i], ts.Labels[j] = ts.Labels[j], ts.Labels[i]
			}
		}
		for _, e := range s.Entries {
			if err := checkEntry(e); err != nil {
				return nil, err
			}
			if e.Type != TypeMetric {
				return nil, inexpr("non-metric entry in remote-write")
			}
			if e.TsNs%1e6 != 0 {
				return nil, inexpr("sub-millisecond timestamp in remote-write")
			}
			ts.Samples = append(ts.Samples, &prompb.Sample{Value: e.Value, Timestamp: e.TsNs / 1e6})
		}
		req.Timeseries = append(req.Timeseries, ts)
	}
	raw, err := proto.Marshal(req)
	if err != nil {
		return nil, inexpr("proto marshal: %v", err)
	}
	return snappy.Encode(nil, raw), nil
}

func influxEsc(s, set string) (string, error) {
	if s == "" {
		return "", inexpr("empty name/tag in line protocol")
	}
	var sb strings.Builder
	for i := 0; i < len(s); i++ {
		c := s[i]
		if c < 0x20 || c == 0x7f || c == '\\' {
			return "", inexpr("control byte or backslash in a line-protocol key/tag")
		}
		if strings.IndexByte(set, c) >= 0 {
			sb.WriteByte('\\')
		}
		sb.WriteByte(c)
	}
	return sb.String(), nil
}

func influxStr(s string) (string, error) {
	var sb strings.Builder
	sb.WriteByte('"')
	for i := 0; i < len(s); i++ {
		c := s[i]
		if c == '"' || c == '\\' {
			sb.WriteByte('\\')
		}
		sb.WriteByte(c)
	}
	sb.WriteByte('"')
	return sb.String(), nil
}

func influxNum(v float64) string {
	if v == float64(int64(v)) && v > -1e15 && v < 1e15 && int64(v)%2 == 0 {
		return strconv.FormatInt(int64(v), 10) + "i" // even integers travel as integer fields, the rest as floats
	}
	return strconv.FormatFloat(v, 'g', -1, 64)
}

type influxHead struct {
	meas, tags, name string
	labelsNoName     string
}

func influxHeadOf(s Stream) (influxHead, error) {
	var h influxHead
	var tags []string
	var rest []Label
	hasM := false
	for _, l := range s.Labels {
		switch l.Name {
		case "measurement":
			m, err := influxEsc(l.Value, ", ")
			if err != nil {
				return h, err
			}
			if strings.HasPrefix(l.Value, "#") {
				return h, inexpr("measurement starting with #")
			}
			h.meas, hasM = m, true
		case "__name__":
			h.name = l.Value
		default:
			k, err := influxEsc(l.Name, ",= ")
			if err != nil {
				return h, err
			}
			v, err := influxEsc(l.Value, ",= ")
			if err != nil {
				return h, err
			}
			tags = append(tags, k+"="+v)
			rest = append(rest, l)
		}
	}
	if !hasM {
		return h, inexpr("influx stream without measurement label")
	}
	if len(tags) > 0 {
		h.tags = "," + strings.Join(tags, ",")
	}
	h.labelsNoName = h.meas + h.tags
	return h, nil
}

// RenderInflux renders InfluxDB line protocol.  Log entries travel as the string field `message`, metric entries
// as a numeric field named by the stream's __name__ label; the label `measurement` is the measurement, every other
// label a tag.
func RenderInflux(streams []Stream, o Opt) ([]byte, error) {
	prec := o.Precision
	if prec == 0 {
		prec = time.Nanosecond
	}
	var b bytes.Buffer
	done := make([]bool, len(streams))
	for si, s := range streams {
		if done[si] {
			continue
		}
		h, err := influxHeadOf(s)
		if err != nil {
			return nil, err
		}
		group := []int{si}
		if o.MergeFields && h.name != "" {
			for sj := si + 1; sj < len(streams); sj++ {
				h2, err := influxHeadOf(streams[sj])
				if err != nil {
					return nil, err
				}
				if h2.labelsNoName == h.labelsNoName && h2.name != "" && h2.name != h.name && sameTs(s, streams[sj]) {
					dup := false
					for _, g := range group {
						if hg, _ := influxHeadOf(streams[g]); hg.name == h2.name {
							dup = true
						}
					}
					if !dup {
						group = append(group, sj)
					}
				}
			}
		}
		for _, g := range group {
			done[g] = true
		}
		for ei, e := range s.Entries {
			if err := checkEntry(e); err != nil {
				return nil, err
			}
			if e.TsNs%int64(prec) != 0 {
				return nil, inexpr("timestamp finer than the precision")
			}
			b.WriteString(h.meas)
			b.WriteString(h.tags)
			b.WriteByte(' ')
			switch e.Type {
			case TypeLog:
				if h.name != "" {
					return nil, inexpr("log entry in a stream with __name__")
				}
				if strings.ContainsAny(e.Line, "\n") {
					return nil, inexpr("newline in a line-protocol string field")
				}
				m, _ := influxStr(e.Line)
				b.WriteString("message=" + m)
			case TypeMetric:
				if h.name == "" {
					return nil, inexpr("metric entry in a stream without __name__")
				}
				for gi, g := range group {
					hg, _ := influxHeadOf(streams[g])
					k, err := influxEsc(hg.name, ",= ")
					if err != nil {
						return nil, err
					}
					if k == "message" {
						return nil, inexpr("numeric field called message")
					}
					if gi > 0 {
						b.WriteByte(',')
					}
					ge := streams[g].Entries[ei]
					if ge.Type != TypeMetric {
						return nil, inexpr("mixed types in merged fields")
					}
					b.WriteString(k + "=" + influxNum(ge.Value))
				}
			default:
				return nil, inexpr("line+value entry in line protocol")
			}
			b.WriteByte(' ')
			b.WriteString(strconv.FormatInt(e.TsNs/int64(prec), 10))
			b.WriteByte('\n')
		}
	}
	return b.Bytes(), nil
}

func sameTs(a, b Stream) bool {
	if len(a.Entries) != len(b.Entries) {
		return false
	}
	for i := range a.Entries {
		if a.Entries[i].TsNs != b.Entries[i].TsNs || a.Entries[i].Type != TypeMetric || b.Entries[i].Type != TypeMetric {
			return false
		}
	}
	return true
}

var ddTagKeyOK = func(s string) bool {
	if s == "" {
		return false
	}
	for i, r := range s {
		letter := (r >= 'a' && r <= 'z') || (r >= 'A' && r <= 'Z') || r > 0x7f && isLetterRune(r)
		if i == 0 {
			if !letter {
				return false
			}
			continue
		}
		if !(letter || r == '_' || (r >= '0' && r <= '9') || r == '-' || r == '.' || r == '\\' || r == '/') {
			return false
		}
	}
	return true
}

func isLetterRune(r rune) bool { return r == 'é' || r == 'ß' || r == 'я' }

func ddTagValOK(s string) bool {
	if s == "" {
		return false
	}
	for _, r := range s {
		letter := (r >= 'a' && r <= 'z') || (r >= 'A' && r <= 'Z') || r > 0x7f && isLetterRune(r)
		if !(letter || r == '_' || (r >= '0' && r <= '9') || r == '-' || r == '.' || r == '\\' || r == '/' || r == ':') {
			return false
		}
	}
	return true
}

// RenderDatadogLogs renders a Datadog v2 logs intake body: one JSON object per entry.  Labels ddsource, service,
// hostname, source_type travel as their own attributes, every other label inside `ddtags` ("k:v,k:v"); the label
// type="datadog" is implied by the endpoint and must be part of the description.
func RenderDatadogLogs(streams []Stream, o Opt) ([]byte, error) {
	var b bytes.Buffer
	b.WriteByte('[')
	first := true
	for _, s := range streams {
		fields := map[string]string{}
		var tags []string
		typed := false
		for _, l := range s.Labels {
			switch l.Name {
			case "ddsource", "service", "hostname", "source_type":
				if l.Value == "" {
					return nil, inexpr("empty datadog attribute is no label")
				}
				if !utf8.ValidString(l.Value) {
					return nil, inexpr("invalid UTF-8")
				}
				fields[l.Name] = l.Value
			case "type":
				if l.Value != "datadog" {
					return nil, inexpr("type label is fixed by the endpoint")
				}
				typed = true
			default:
				if !ddTagKeyOK(l.Name) || !ddTagValOK(l.Value) {
					return nil, inexpr("tag outside the ddtags alphabet")
				}
				tags = append(tags, l.Name+":"+l.Value)
			}
		}
		if !typed {
			return nil, inexpr("datadog stream without type=datadog")
		}
		for _, e := range s.Entries {
			if err := checkEntry(e); err != nil {
				return nil, err
			}
			if e.Type != TypeLog {
				return nil, inexpr("non-log entry in datadog logs")
			}
			if e.TsNs%1e6 != 0 {
				return nil, inexpr("sub-millisecond timestamp")
			}
			if !utf8.ValidString(e.Line) {
				return nil, inexpr("invalid UTF-8")
			}
			var kvs []string
			for _, k := range []string{"ddsource", "ddtags", "hostname", "message", "service", "source_type", "timestamp", "status"} {
				var kv bytes.Buffer
				jstr(&kv, k)
				kv.WriteByte(':')
				switch k {
				case "ddtags":
					if len(tags) == 0 {
						continue
					}
					jstr(&kv, strings.Join(tags, ","))
				case "message":
					if o.OmitBody && e.Line == "" {
						continue
					}
					jstr(&kv, e.Line)
				case "timestamp":
					kv.WriteString(strconv.FormatInt(e.TsNs/1e6, 10))
				case "status":
					if !o.Unknown {
						continue
					}
					kv.WriteString(`{"source_type":"x","message":"y"}`)
				default:
					v, ok := fields[k]
					if !ok {
						continue
					}
					jstr(&kv, v)
				}
				kvs = append(kvs, kv.String())
			}
			r := o.KeyRot % len(kvs)
			kvs = append(kvs[r:], kvs[:r]...)
			if !first {
				b.WriteByte(',')
			}
			first = false
			b.WriteByte('{')
			b.WriteString(strings.Join(kvs, ","))
			b.WriteByte('}')
		}
	}
	b.WriteByte(']')
	return b.Bytes(), nil
}

// RenderDatadogSeries renders a Datadog v2 series body.  Label __name__ is the metric name, labels
// resource<N>_<key> are key <key> of the N-th resource object; timestamps are whole seconds.
func RenderDatadogSeries(streams []Stream, o Opt) ([]byte, error) {
	var b bytes.Buffer
	b.WriteString(`{"series":[`)
	for si, s := range streams {
		name, hasName := "", false
		res := map[int][]Label{}
		maxN := 0
		for _, l := range s.Labels {
			if !utf8.ValidString(l.Name) || !utf8.ValidString(l.Value) {
				return nil, inexpr("invalid UTF-8")
			}
			if l.Name == "__name__" {
				name, hasName = l.Value, true
				continue
			}
			var key string
			if !strings.HasPrefix(l.Name, "resource") {
				return nil, inexpr("label %q is not expressible in a datadog series", l.Name)
			}
			rest := l.Name[len("resource"):]
			i := strings.IndexByte(rest, '_')
			if i <= 0 {
				return nil, inexpr("label %q", l.Name)
			}
			n, err := strconv.Atoi(rest[:i])
			if err != nil || n < 1 || strconv.Itoa(n) != rest[:i] {
				return nil, inexpr("label %q", l.Name)
			}
			key = rest[i+1:]
			res[n] = append(res[n], Label{key, l.Value})
			if n > maxN {
				maxN = n
			}
		}
		if !hasName {
			return nil, inexpr("datadog series without __name__")
		}
		for n := 1; n <= maxN; n++ {
			if len(res[n]) == 0 {
				return nil, inexpr("resource numbering with a gap")
			}
		}
		var parts []string
		{
			var kv bytes.Buffer
			kv.WriteString(`"metric":`)
			jstr(&kv, name)
			parts = append(parts, kv.String())
		}
		if maxN > 0 {
			var kv bytes.Buffer
			kv.WriteString(`"resources":[`)
			for n := 1; n <= maxN; n++ {
				if n > 1 {
					kv.WriteByte(',')
				}
				kv.WriteByte('{')
				for i, l := range res[n] {
					if i > 0 {
						kv.WriteByte(',')
					}
					jstr(&kv, l.Name)
					kv.WriteByte(':')
					jstr(&kv, l.Value)
				}
				kv.WriteByte('}')
			}
			kv.WriteByte(']')
			parts = append(parts, kv.String())
		}
		{
			var kv bytes.Buffer
			kv.WriteString(`"points":[`)
			for i, e := range s.Entries {
				if err := checkEntry(e); err != nil {
					return nil, err
				}
				if e.Type != TypeMetric {
					return nil, inexpr("non-metric entry in a datadog series")
				}
				if e.TsNs%1e9 != 0 {
					return nil, inexpr("sub-second timestamp")
				}
				if i > 0 {
					kv.WriteByte(',')
				}
				if o.EntriesFirst {
					fmt.Fprintf(&kv, `{"value":%s,"timestamp":%d}`, jnum(e.Value), e.TsNs/1e9)
				} else {
					fmt.Fprintf(&kv, `{"timestamp":%d,"value":%s}`, e.TsNs/1e9, jnum(e.Value))
				}
			}
			kv.WriteByte(']')
			parts = append(parts, kv.String())
		}
		if o.Unknown {
			parts = append(parts, `"type":3,"unit":"byte","tags":["metric:zz"]`)
		}
		r := o.KeyRot % len(parts)
		parts = append(parts[r:], parts[:r]...)
		if si > 0 {
			b.WriteByte(',')
		}
		b.WriteByte('{')
		b.WriteString(strings.Join(parts, ","))
		b.WriteByte('}')
	}
	b.WriteString(`]}`)
	return b.Bytes(), nil
}

func otlpValue(v string, typed int) *otlpCommon.AnyValue {
	str := &otlpCommon.AnyValue{Value: &otlpCommon.AnyValue_StringValue{StringValue: v}}
	if typed == 0 {
		return str
	}
	if typed == 2 && v != "" {
		if raw, err := base64.StdEncoding.DecodeString(v); err == nil && base64.StdEncoding.EncodeToString(raw) == v {
			return &otlpCommon.AnyValue{Value: &otlpCommon.AnyValue_BytesValue{BytesValue: raw}}
		}
	}
	if v == "true" || v == "false" {
		return &otlpCommon.AnyValue{Value: &otlpCommon.AnyValue_BoolValue{BoolValue: v == "true"}}
	}
	if i, err := strconv.ParseInt(v, 10, 64); err == nil && strconv.FormatInt(i, 10) == v {
		return &otlpCommon.AnyValue{Value: &otlpCommon.AnyValue_IntValue{IntValue: i}}
	}
	if f, err := strconv.ParseFloat(v, 64); err == nil && strconv.FormatFloat(f, 'f', -1, 64) == v {
		return &otlpCommon.AnyValue{Value: &otlpCommon.AnyValue_DoubleValue{DoubleValue: f}}
	}
	if strings.HasPrefix(v, "[") {
		var items []string
		if json.Unmarshal([]byte(v), &items) == nil {
			if back, _ := json.Marshal(items); string(back) == v {
				arr := &otlpCommon.ArrayValue{}
				for _, it := range items {
					arr.Values = append(arr.Values, otlpValue(it, 0))
				}
				return &otlpCommon.AnyValue{Value: &otlpCommon.AnyValue_ArrayValue{ArrayValue: arr}}
			}
		}
	}
	if strings.HasPrefix(v, "{") {
		var m map[string]string
		if json.Unmarshal([]byte(v), &m) == nil {
			if back, _ := json.Marshal(m); string(back) == v {
				keys := make([]string, 0, len(m))
				for k := range m {
					if !isIdent(k) {
						return str
					}
					keys = append(keys, k)
				}
				sort.Sort(sort.Reverse(sort.StringSlice(keys)))
				kl := &otlpCommon.KeyValueList{}
				for _, k := range keys {
					kl.Values = append(kl.Values, &otlpCommon.KeyValue{Key: k, Value: otlpValue(m[k], 0)})
				}
				return &otlpCommon.AnyValue{Value: &otlpCommon.AnyValue_KvlistValue{KvlistValue: kl}}
			}
		}
	}
	return str
}

// RenderOTLPLogs renders an OTLP LogsData protobuf.  The labels of a stream are the union of resource, scope and
// record attributes (placement chosen by o.Place, or by label name with o.ByName); the label "level" may travel as
// severity_text.
func RenderOTLPLogs(streams []Stream, o Opt) ([]byte, error) {
	ld := &otlpLogs.LogsData{}
	var shared *otlpLogs.ResourceLogs
	var lastRes, lastScope string // ByName+Pack: keys of the resource / scope attributes of the current group
	var curRes *otlpLogs.ResourceLogs
	var curScope *otlpLogs.ScopeLogs
	for _, s := range streams {
		var lv [3][]*otlpCommon.KeyValue
		var lvl [3][]Label
		sev := ""
		p := o.Place
		for _, l := range s.Labels {
			if !utf8.ValidString(l.Name) || !utf8.ValidString(l.Value) {
				return nil, inexpr("invalid UTF-8 in a proto3 string")
			}
			if l.Name == "level" && (o.SevAsLevel || o.ByName) {
				if l.Value == "" {
					return nil, inexpr("empty severity_text is absent")
				}
				sev = l.Value
				continue
			}
			lev := p % 3
			p /= 3
			if o.ByName {
				switch {
				case strings.HasPrefix(l.Name, "res_"):
					lev = 0
				case strings.HasPrefix(l.Name, "scp_"):
					lev = 1
				default:
					lev = 2
				}
			}
			lv[lev] = append(lv[lev], &otlpCommon.KeyValue{Key: l.Name, Value: otlpValue(l.Value, o.Typed)})
			lvl[lev] = append(lvl[lev], l)
		}
		mkRes := func() *otlpResource.Resource {
			if len(lv[0]) == 0 && o.OmitEmpty {
				return nil
			}
			return &otlpResource.Resource{Attributes: lv[0]}
		}
		mkScope := func() *otlpCommon.InstrumentationScope {
			if len(lv[1]) == 0 && o.OmitEmpty {
				return nil
			}
			return &otlpCommon.InstrumentationScope{Name: "verif", Attributes: lv[1]}
		}
		var recs []*otlpLogs.LogRecord
		for i, e := range s.Entries {
			if err := checkEntry(e); err != nil {
				return nil, err
			}
			if e.Type != TypeLog {
				return nil, inexpr("non-log entry in OTLP logs")
			}
			if !utf8.ValidString(e.Line) {
				return nil, inexpr("invalid UTF-8 in a proto3 string")
			}
			rec := &otlpLogs.LogRecord{TimeUnixNano: uint64(e.TsNs), SeverityText: sev, Attributes: lv[2],
				Body: &otlpCommon.AnyValue{Value: &otlpCommon.AnyValue_StringValue{StringValue: e.Line}}}
			if o.OmitBody && e.Line == "" {
				rec.Body = nil
			}
			if o.ByName { // fields the decoder does not read: they must not matter
				rec.SeverityNumber = otlpLogs.SeverityNumber(1 + (i*4)%24)
				rec.ObservedTimeUnixNano = uint64(e.TsNs) + 777
				rec.TraceId = []byte("0123456789abcdef")
				rec.SpanId = []byte("01234567")
				rec.Flags = 1
				rec.DroppedAttributesCount = 2
			}
			recs = append(recs, rec)
		}
		switch {
		case o.ByName && o.Pack:
			rk, sk := "R"+labelsSeqKey(lvl[0]), "S"+labelsSeqKey(lvl[1])
			if curRes == nil || rk != lastRes {
				curRes = &otlpLogs.ResourceLogs{Resource: mkRes()}
				ld.ResourceLogs = append(ld.ResourceLogs, curRes)
				lastRes, curScope = rk, nil
			}
			if curScope == nil || sk != lastScope {
				curScope = &otlpLogs.ScopeLogs{Scope: mkScope()}
				curRes.ScopeLogs = append(curRes.ScopeLogs, curScope)
				lastScope = sk
			}
			curScope.LogRecords = append(curScope.LogRecords, recs...)
		case o.OneRes:
			if len(lv[0]) > 0 {
				return nil, inexpr("resource-level labels differ per stream")
			}
			if shared == nil {
				shared = &otlpLogs.ResourceLogs{Resource: mkRes()}
				ld.ResourceLogs = append(ld.ResourceLogs, shared)
			}
			if o.PerEntry {
				for _, r := range recs {
					shared.ScopeLogs = append(shared.ScopeLogs, &otlpLogs.ScopeLogs{Scope: mkScope(), LogRecords: []*otlpLogs.LogRecord{r}})
				}
			} else {
				shared.ScopeLogs = append(shared.ScopeLogs, &otlpLogs.ScopeLogs{Scope: mkScope(), LogRecords: recs})
			}
		case o.PerEntry:
			for _, r := range recs {
				ld.ResourceLogs = append(ld.ResourceLogs, &otlpLogs.ResourceLogs{Resource: mkRes(),
					ScopeLogs: []*otlpLogs.ScopeLogs{{Scope: mkScope(), LogRecords: []*otlpLogs.LogRecord{r}}}})
			}
		default:
			ld.ResourceLogs = append(ld.ResourceLogs, &otlpLogs.ResourceLogs{Resource: mkRes(),
				ScopeLogs: []*otlpLogs.ScopeLogs{{Scope: mkScope(), LogRecords: recs}}})
		}
	}
	raw, err := proto.Marshal(ld)
	if err != nil {
		return nil, inexpr("proto marshal: %v", err)
	}
	return raw, nil
}
