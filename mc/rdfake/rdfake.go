// Package rdfake holds the fakes of the reader-side database seam used by C14 and C15:
//
//   - a scripted database/sql driver ("verifscript"): every query text is handed to a Handler which answers
//     with columns + rows (values are passed through untouched, so map[string]string / []string / uint64
//     reach rows.Scan by reflection exactly as with clickhouse-go);
//   - DB, an implementation of reader/model.ISqlxDB on top of it which also records every statement;
//   - Registry, an implementation of reader/model.IDBRegistry returning one DB.
//
// Nothing here decides anything: it is plumbing between scripted rows and the real reader code.
package rdfake

import (
	"context"
	"database/sql"
	"database/sql/driver"
	"fmt"
	"io"
	"sync"
	"sync/atomic"

	"github.com/metrico/cloki-config/config"
	"github.com/metrico/qryn/reader/model"
)

// Result is the scripted answer to one query.
type Result struct {
	Cols []string
	Rows [][]driver.Value
	Err  error // returned by QueryContext
}

// Handler answers one query text.
type Handler func(query string) Result

var (
	regMu    sync.Mutex
	handlers = map[string]Handler{}
	seq      int64
	once     sync.Once
)

type drv struct{}

func (drv) Open(name string) (driver.Conn, error) {
	regMu.Lock()
	h := handlers[name]
	regMu.Unlock()
	if h == nil {
		return nil, fmt.Errorf("rdfake: no handler %q", name)
	}
	return &conn{h: h}, nil
}

type conn struct{ h Handler }

func (c *conn) Prepare(q string) (driver.Stmt, error) { return &stmt{c: c, q: q}, nil }
func (c *conn) Close() error                          { return nil }
func (c *conn) Begin() (driver.Tx, error)             { return tx{}, nil }

// QueryContext: database/sql prefers it over Prepare; arguments are ignored (the reader never binds any).
func (c *conn) QueryContext(ctx context.Context, q string, args []driver.NamedValue) (driver.Rows, error) {
	r := c.h(q)
	if r.Err != nil {
		return nil, r.Err
	}
	return &rows{r: r}, nil
}
func (c *conn) ExecContext(ctx context.Context, q string, args []driver.NamedValue) (driver.Result, error) {
	c.h(q)
	return driver.RowsAffected(0), nil
}

// CheckNamedValue lets any Go value through as an argument.
func (c *conn) CheckNamedValue(*driver.NamedValue) error { return nil }

type tx struct{}

func (tx) Commit() error   { return nil }
func (tx) Rollback() error { return nil }

type stmt struct {
	c *conn
	q string
}

func (s *stmt) Close() error  { return nil }
func (s *stmt) NumInput() int { return -1 }
func (s *stmt) Exec(args []driver.Value) (driver.Result, error) {
	return s.c.ExecContext(context.Background(), s.q, nil)
}
func (s *stmt) Query(args []driver.Value) (driver.Rows, error) {
	return s.c.QueryContext(context.Background(), s.q, nil)
}

type rows struct {
	r Result
	i int
}

func (r *rows) Columns() []string { return r.r.Cols }
func (r *rows) Close() error      { return nil }
func (r *rows) Next(dest []driver.Value) error {
	if r.i >= len(r.r.Rows) {
		return io.EOF
	}
	copy(dest, r.r.Rows[r.i])
	r.i++
	return nil
}

// DB implements model.ISqlxDB over the scripted driver and records the statements it receives.
type DB struct {
	Name string
	db   *sql.DB
	mu   sync.Mutex
	log  []string
}

// NewDB registers handler h under a fresh private DSN and opens a *sql.DB on it.
// If h is nil every query answers with zero rows of one column.
func NewDB(name string, h Handler) *DB {
	once.Do(func() { sql.Register("verifscript", drv{}) })
	d := &DB{Name: name}
	dsn := fmt.Sprintf("%s#%d", name, atomic.AddInt64(&seq, 1))
	wrapped := func(q string) Result {
		d.mu.Lock()
		d.log = append(d.log, q)
		d.mu.Unlock()
		if h == nil {
			return Result{Cols: []string{"x"}}
		}
		return h(q)
	}
	regMu.Lock()
	handlers[dsn] = wrapped
	regMu.Unlock()
	db, err := sql.Open("verifscript", dsn)
	if err != nil {
		panic(err)
	}
	d.db = db
	return d
}

func (d *DB) GetName() string { return d.Name }
func (d *DB) QueryCtx(ctx context.Context, query string, args ...any) (*sql.Rows, error) {
	return d.db.QueryContext(ctx, query, args...)
}
func (d *DB) ExecCtx(ctx context.Context, query string, args ...any) error {
	_, err := d.db.ExecContext(ctx, query, args...)
	return err
}
func (d *DB) Conn(ctx context.Context) (*sql.Conn, error) { return d.db.Conn(ctx) }
func (d *DB) Begin() (*sql.Tx, error)                     { return d.db.Begin() }
func (d *DB) Close()                                      { d.db.Close() }

// Log returns a copy of the statements received so far; Reset clears it.
func (d *DB) Log() []string {
	d.mu.Lock()
	defer d.mu.Unlock()
	return append([]string(nil), d.log...)
}
func (d *DB) Reset() {
	d.mu.Lock()
	d.log = nil
	d.mu.Unlock()
}

// Registry implements model.IDBRegistry with one database.
type Registry struct{ M *model.DataDatabasesMap }

func NewRegistry(db *DB, cluster string) *Registry {
	return &Registry{M: &model.DataDatabasesMap{
		Config:  &config.ClokiBaseDataBase{Name: "qryn", ClusterName: cluster},
		Session: db,
	}}
}
func (r *Registry) GetDB(ctx context.Context) (*model.DataDatabasesMap, error) { return r.M, nil }
func (r *Registry) Run()                                                       {}
func (r *Registry) Stop()                                                      {}
func (r *Registry) Ping() error                                                { return nil }
