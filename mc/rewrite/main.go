// rewrite: source instrumenter for engine E1.  For the listed repository files it writes instrumented copies and
// adds them to a `go build -overlay` JSON; the repository itself is never touched.
//
//	rewrite -repo /repo -out $SCRATCH/inst -overlay $SCRATCH/overlay.json [-noyield] file.go ...
//
// Rewrites (selective, the original code stays otherwise byte-for-byte):
//   - imports "sync", "sync/atomic", "context", "time" -> shim packages under the same local name
//   - go f(x)            -> __sched.Go(func(){ f(x) }) with callee and arguments evaluated at the go statement
//   - ch <- v, <-ch, v,ok := <-ch, close(ch), for v := range ch, select{...} -> shim calls (channel model)
//   - a scheduling point __sched.Yield() before every statement (no-op inside critical sections)
//
// Anything it does not understand in a listed file is a hard error (exit 2): never silence.
package main

import (
	"bytes"
	"encoding/json"
	"flag"
	"fmt"
	"go/ast"
	"go/format"
	"go/token"
	"go/types"
	"os"
	"path/filepath"
	"strconv"
	"strings"

	"golang.org/x/tools/go/ast/astutil"
	"golang.org/x/tools/go/packages"
)

var shimFor = map[string]string{
	"sync":        "verif/mc/sched/vsync",
	"sync/atomic": "verif/mc/sched/vatomic",
	"context":     "verif/mc/sched/vctx",
	"time":        "verif/mc/sched/vtime",
}

var defaultName = map[string]string{"sync": "sync", "sync/atomic": "atomic", "context": "context", "time": "time"}

func die(format string, a ...any) {
	fmt.Fprintf(os.Stderr, "HARNESS-ERROR: rewrite: "+format+"\n", a...)
	os.Exit(2)
}

func main() {
	repo := flag.String("repo", "/repo", "repository root")
	out := flag.String("out", "", "directory for instrumented copies")
	overlay := flag.String("overlay", "", "overlay JSON to extend")
	noyield := flag.Bool("noyield", false, "do not insert statement-level scheduling points")
	flag.Parse()
	if *out == "" || *overlay == "" || flag.NArg() == 0 {
		die("usage: rewrite -repo R -out D -overlay F files...")
	}
	os.MkdirAll(*out, 0o755)
	want := map[string]bool{}
	dirs := map[string]bool{}
	for _, f := range flag.Args() {
		abs := filepath.Join(*repo, f)
		if _, err := os.Stat(abs); err != nil {
			die("listed file does not exist: %s", f)
		}
		want[abs] = true
		dirs["./"+filepath.Dir(f)] = true
	}
	var pats []string
	for d := range dirs {
		pats = append(pats, d)
	}
	cfg := &packages.Config{Mode: packages.NeedName | packages.NeedFiles | packages.NeedSyntax | packages.NeedTypes |
		packages.NeedTypesInfo | packages.NeedImports, Dir: *repo}
	pkgs, err := packages.Load(cfg, pats...)
	if err != nil {
		die("load: %v", err)
	}
	ov := map[string]map[string]string{"Replace": {}}
	if b, err := os.ReadFile(*overlay); err == nil {
		json.Unmarshal(b, &ov)
		if ov["Replace"] == nil {
			ov["Replace"] = map[string]string{}
		}
	}
	done := 0
	for _, p := range pkgs {
		if len(p.Errors) > 0 {
			die("package %s has errors: %v", p.PkgPath, p.Errors)
		}
		for _, f := range p.Syntax {
			name := p.Fset.Position(f.Package).Filename
			if !want[name] {
				continue
			}
			rw := &rewriter{fset: p.Fset, info: p.TypesInfo, file: f, yield: !*noyield, name: name}
			rw.run()
			rw.dropUnusedSchedImport()
			var buf bytes.Buffer
			if err := format.Node(&buf, p.Fset, f); err != nil {
				die("print %s: %v", name, err)
			}
			rel, _ := filepath.Rel(*repo, name)
			dst := filepath.Join(*out, strings.ReplaceAll(rel, "/", "__"))
			if err := os.WriteFile(dst, buf.Bytes(), 0o644); err != nil {
				die("write: %v", err)
			}
			ov["Replace"][name] = dst
			done++
			fmt.Fprintf(os.Stderr, "rewrite: %s: %d yields, %d chan ops, %d selects, %d go stmts, %d map ranges\n", rel, rw.nYield, rw.nChan, rw.nSel, rw.nGo, rw.nMap)
		}
	}
	if done != len(want) {
		die("only %d of %d listed files were found in loaded packages", done, len(want))
	}
	b, _ := json.MarshalIndent(ov, "", " ")
	if err := os.WriteFile(*overlay, b, 0o644); err != nil {
		die("overlay: %v", err)
	}
}

type rewriter struct {
	fset  *token.FileSet
	info  *types.Info
	file  *ast.File
	yield bool
	name  string
	tmp   int

	commOps map[ast.Node]bool // send stmts / recv exprs that are the communication of a select case
	nYield, nChan, nSel, nGo, nMap int
}

func (rw *rewriter) pos(n ast.Node) string { return rw.fset.Position(n.Pos()).String() }

func sel(pkg, name string) ast.Expr {
	return &ast.SelectorExpr{X: ast.NewIdent(pkg), Sel: ast.NewIdent(name)}
}

func call(pkg, name string, args ...ast.Expr) *ast.CallExpr {
	return &ast.CallExpr{Fun: sel(pkg, name), Args: args}
}

const schedName = "__sched"

func (rw *rewriter) isChan(e ast.Expr) bool {
	tv, ok := rw.info.Types[e]
	if !ok || tv.Type == nil {
		return false
	}
	_, isCh := tv.Type.Underlying().(*types.Chan)
	return isCh
}

func (rw *rewriter) isMap(e ast.Expr) bool {
	tv, ok := rw.info.Types[e]
	if !ok || tv.Type == nil {
		return false
	}
	_, isMap := tv.Type.Underlying().(*types.Map)
	return isMap
}

// mapRange makes the iteration order of `for k, v := range m` canonical:
//
//	for _, __mk := range __sched.MapKeys(m) { v, __ok := m[__mk]; if !__ok { continue }; k := __mk; body }
//
// (an entry deleted during the iteration is skipped, as Go does; entries inserted during it are not visited, which
// Go allows).  The map expression is evaluated again per element, so it must be free of calls.
func (rw *rewriter) mapRange(x *ast.RangeStmt) {
	hasCall := false
	ast.Inspect(x.X, func(n ast.Node) bool {
		if _, ok := n.(*ast.CallExpr); ok {
			hasCall = true
		}
		return true
	})
	if hasCall {
		die("%s: range over a map produced by a call is not supported by the instrumenter", rw.pos(x))
	}
	rw.nMap++
	mk := rw.fresh("mk")
	isBlank := func(e ast.Expr) bool {
		id, ok := e.(*ast.Ident)
		return e == nil || (ok && id.Name == "_")
	}
	var pre []ast.Stmt
	if !isBlank(x.Value) {
		okv := rw.fresh("ok")
		pre = append(pre, &ast.AssignStmt{Lhs: []ast.Expr{x.Value, okv}, Tok: x.Tok,
			Rhs: []ast.Expr{&ast.IndexExpr{X: x.X, Index: mk}}})
		if x.Tok == token.ASSIGN {
			// `for k, v = range m` with pre-declared variables: ok needs its own declaration
			pre = []ast.Stmt{
				&ast.AssignStmt{Lhs: []ast.Expr{ast.NewIdent("_"), okv}, Tok: token.DEFINE, Rhs: []ast.Expr{&ast.IndexExpr{X: x.X, Index: mk}}},
				&ast.AssignStmt{Lhs: []ast.Expr{x.Value}, Tok: token.ASSIGN, Rhs: []ast.Expr{&ast.IndexExpr{X: x.X, Index: mk}}},
			}
		}
		pre = append(pre, &ast.IfStmt{Cond: &ast.UnaryExpr{Op: token.NOT, X: okv},
			Body: &ast.BlockStmt{List: []ast.Stmt{&ast.BranchStmt{Tok: token.CONTINUE}}}})
	} else {
		okv := rw.fresh("ok")
		pre = append(pre, &ast.AssignStmt{Lhs: []ast.Expr{ast.NewIdent("_"), okv}, Tok: token.DEFINE,
			Rhs: []ast.Expr{&ast.IndexExpr{X: x.X, Index: mk}}})
		pre = append(pre, &ast.IfStmt{Cond: &ast.UnaryExpr{Op: token.NOT, X: okv},
			Body: &ast.BlockStmt{List: []ast.Stmt{&ast.BranchStmt{Tok: token.CONTINUE}}}})
	}
	if !isBlank(x.Key) {
		pre = append(pre, &ast.AssignStmt{Lhs: []ast.Expr{x.Key}, Tok: x.Tok, Rhs: []ast.Expr{mk}})
		if x.Tok == token.DEFINE {
			pre = append(pre, &ast.AssignStmt{Lhs: []ast.Expr{ast.NewIdent("_")}, Tok: token.ASSIGN, Rhs: []ast.Expr{x.Key}})
		}
	}
	if !isBlank(x.Value) && x.Tok == token.DEFINE {
		pre = append(pre, &ast.AssignStmt{Lhs: []ast.Expr{ast.NewIdent("_")}, Tok: token.ASSIGN, Rhs: []ast.Expr{x.Value}})
	}
	x.Body.List = append(pre, x.Body.List...)
	x.Key = ast.NewIdent("_")
	x.Value = mk
	x.Tok = token.DEFINE
	x.X = call(schedName, "MapKeys", x.X)
}

func (rw *rewriter) run() {
	// 1. import swap
	for _, imp := range rw.file.Imports {
		path, _ := strconv.Unquote(imp.Path.Value)
		if shim, ok := shimFor[path]; ok {
			if imp.Name == nil {
				imp.Name = ast.NewIdent(defaultName[path])
			} else if imp.Name.Name == "_" || imp.Name.Name == "." {
				die("%s: unsupported import form for %s", rw.name, path)
			}
			imp.Path.Value = strconv.Quote(shim)
		}
	}
	astutil.AddNamedImport(rw.fset, rw.file, schedName, "verif/mc/sched")

	// 2. statement-level yields (on the original statement lists, before other rewrites create new statements)
	if rw.yield {
		clauseLists := map[*ast.BlockStmt]bool{} // bodies of select/switch hold clauses, not statements
		ast.Inspect(rw.file, func(n ast.Node) bool {
			switch x := n.(type) {
			case *ast.SelectStmt:
				clauseLists[x.Body] = true
			case *ast.SwitchStmt:
				clauseLists[x.Body] = true
			case *ast.TypeSwitchStmt:
				clauseLists[x.Body] = true
			case *ast.BlockStmt:
				if !clauseLists[x] {
					x.List = rw.withYields(x.List)
				}
			case *ast.CaseClause:
				x.Body = rw.withYields(x.Body)
			case *ast.CommClause:
				x.Body = rw.withYields(x.Body)
			}
			return true
		})
	}

	// 3. mark select communications
	rw.commOps = map[ast.Node]bool{}
	ast.Inspect(rw.file, func(n ast.Node) bool {
		s, ok := n.(*ast.SelectStmt)
		if !ok {
			return true
		}
		for _, c := range s.Body.List {
			cc := c.(*ast.CommClause)
			switch comm := cc.Comm.(type) {
			case nil:
			case *ast.SendStmt:
				rw.commOps[comm] = true
			case *ast.ExprStmt:
				rw.commOps[rw.recvOf(comm.X, comm)] = true
			case *ast.AssignStmt:
				if len(comm.Rhs) != 1 {
					die("%s: unsupported select communication", rw.pos(comm))
				}
				rw.commOps[rw.recvOf(comm.Rhs[0], comm)] = true
			default:
				die("%s: unsupported select communication %T", rw.pos(cc), cc.Comm)
			}
		}
		return true
	})

	// 4. channel operations, go statements, selects (post-order so that inner expressions are rewritten first)
	astutil.Apply(rw.file, nil, func(c *astutil.Cursor) bool {
		switch x := c.Node().(type) {
		case *ast.SendStmt:
			if rw.commOps[x] {
				return true
			}
			rw.nChan++
			c.Replace(&ast.ExprStmt{X: call(schedName, "Send", x.Chan, x.Value)})
		case *ast.UnaryExpr:
			if x.Op != token.ARROW || rw.commOps[x] {
				return true
			}
			rw.nChan++
			// v, ok := <-ch ?
			if as, ok := c.Parent().(*ast.AssignStmt); ok && len(as.Lhs) == 2 && len(as.Rhs) == 1 {
				c.Replace(call(schedName, "Recv2", x.X))
			} else if vs, ok := c.Parent().(*ast.ValueSpec); ok && len(vs.Names) == 2 && len(vs.Values) == 1 {
				c.Replace(call(schedName, "Recv2", x.X))
			} else {
				c.Replace(call(schedName, "Recv", x.X))
			}
		case *ast.CallExpr:
			if id, ok := x.Fun.(*ast.Ident); ok && id.Name == "close" && len(x.Args) == 1 {
				if _, isB := rw.info.Uses[id].(*types.Builtin); isB {
					rw.nChan++
					c.Replace(call(schedName, "Close", x.Args[0]))
				}
			}
		case *ast.RangeStmt:
			if rw.isChan(x.X) {
				rw.nChan++
				x.X = call(schedName, "RangeChan", x.X)
			} else if rw.isMap(x.X) && (x.Key != nil || x.Value != nil) {
				rw.mapRange(x)
			}
		case *ast.GoStmt:
			rw.nGo++
			c.Replace(rw.goStmt(x))
		case *ast.SelectStmt:
			rw.nSel++
			c.Replace(rw.selectStmt(x, nil))
		case *ast.LabeledStmt:
			// a labelled select was already replaced by a block; keep `break L` working by labelling the switch
			if blk, ok := x.Stmt.(*ast.BlockStmt); ok && len(blk.List) > 0 {
				if sw, ok := blk.List[len(blk.List)-1].(*ast.SwitchStmt); ok && isSelSwitch(sw) {
					blk.List[len(blk.List)-1] = &ast.LabeledStmt{Label: x.Label, Stmt: sw}
					c.Replace(blk)
				}
			}
		}
		return true
	})
}

func (rw *rewriter) dropUnusedSchedImport() {
	if rw.nYield+rw.nChan+rw.nSel+rw.nGo+rw.nMap == 0 {
		astutil.DeleteNamedImport(rw.fset, rw.file, schedName, "verif/mc/sched")
	}
}

func isSelSwitch(sw *ast.SwitchStmt) bool {
	ce, ok := sw.Tag.(*ast.CallExpr)
	if !ok {
		return false
	}
	se, ok := ce.Fun.(*ast.SelectorExpr)
	return ok && se.Sel.Name == "Wait"
}

func (rw *rewriter) recvOf(e ast.Expr, at ast.Node) ast.Node {
	for {
		if p, ok := e.(*ast.ParenExpr); ok {
			e = p.X
			continue
		}
		break
	}
	u, ok := e.(*ast.UnaryExpr)
	if !ok || u.Op != token.ARROW {
		die("%s: select case is not a plain receive", rw.pos(at))
	}
	return u
}

func (rw *rewriter) withYields(list []ast.Stmt) []ast.Stmt {
	if len(list) == 0 {
		return list
	}
	out := make([]ast.Stmt, 0, 2*len(list))
	for _, s := range list {
		switch s.(type) {
		case *ast.DeclStmt, *ast.EmptyStmt:
			out = append(out, s)
			continue
		}
		if !rw.touchesShared(s) {
			out = append(out, s)
			continue
		}
		rw.nYield++
		out = append(out, &ast.ExprStmt{X: call(schedName, "Yield")}, s)
	}
	return out
}

// touchesShared reports whether the statement itself (not the blocks nested in it) reads or writes memory that
// other threads may reach: a struct field through a pointer/receiver, an element of a map/slice reached through
// such a field, a dereference, or a package-level variable.  Statements over locals only get no scheduling point.
func (rw *rewriter) touchesShared(s ast.Stmt) bool {
	found := false
	var visit func(n ast.Node) bool
	visit = func(n ast.Node) bool {
		if found || n == nil {
			return false
		}
		switch x := n.(type) {
		case *ast.BlockStmt, *ast.FuncLit:
			return false // nested statements get their own points
		case *ast.CaseClause:
			for _, e := range x.List {
				ast.Inspect(e, visit)
			}
			return false
		case *ast.CommClause:
			return false
		case *ast.SelectorExpr:
			if sel, ok := rw.info.Selections[x]; ok && sel.Kind() == types.FieldVal {
				found = true
				return false
			}
			if id, ok := x.X.(*ast.Ident); ok {
				if _, isPkg := rw.info.Uses[id].(*types.PkgName); isPkg {
					if v, ok := rw.info.Uses[x.Sel].(*types.Var); ok && !v.IsField() {
						found = true // package-level variable of another package
					}
					return false
				}
			}
		case *ast.StarExpr:
			if tv, ok := rw.info.Types[x]; ok && !tv.IsType() {
				found = true
				return false
			}
		case *ast.Ident:
			if v, ok := rw.info.Uses[x].(*types.Var); ok && !v.IsField() && v.Parent() != nil && v.Parent() == v.Pkg().Scope() {
				found = true // package-level variable
				return false
			}
		}
		return true
	}
	switch x := s.(type) {
	case *ast.IfStmt:
		if x.Init != nil {
			ast.Inspect(x.Init, visit)
		}
		ast.Inspect(x.Cond, visit)
	case *ast.ForStmt:
		if x.Init != nil {
			ast.Inspect(x.Init, visit)
		}
		if x.Cond != nil {
			ast.Inspect(x.Cond, visit)
		}
	case *ast.RangeStmt:
		ast.Inspect(x.X, visit)
	case *ast.SwitchStmt:
		if x.Init != nil {
			ast.Inspect(x.Init, visit)
		}
		if x.Tag != nil {
			ast.Inspect(x.Tag, visit)
		}
	case *ast.TypeSwitchStmt:
		ast.Inspect(x.Assign, visit)
	case *ast.SelectStmt, *ast.BlockStmt:
		return false
	case *ast.LabeledStmt:
		return rw.touchesShared(x.Stmt)
	case *ast.GoStmt, *ast.SendStmt:
		return false // these are scheduling points themselves
	default:
		ast.Inspect(s, visit)
	}
	return found
}

func (rw *rewriter) fresh(prefix string) *ast.Ident {
	rw.tmp++
	return ast.NewIdent(fmt.Sprintf("__%s%d", prefix, rw.tmp))
}

// goStmt: go f(a, b) -> { __f := f; __a1 := a; __a2 := b; __sched.Go(func(){ __f(__a1, __a2) }) }
func (rw *rewriter) goStmt(g *ast.GoStmt) ast.Stmt {
	var pre []ast.Stmt
	c := g.Call
	fn := c.Fun
	if _, isLit := fn.(*ast.FuncLit); !isLit {
		// method values and function variables are evaluated at the go statement
		if tv, ok := rw.info.Types[fn]; ok && tv.IsType() {
			die("%s: go with a conversion is unsupported", rw.pos(g))
		}
		if id, ok := fn.(*ast.Ident); !ok || rw.info.Uses[id] == nil || !isFuncObj(rw.info.Uses[id]) {
			f := rw.fresh("f")
			pre = append(pre, &ast.AssignStmt{Lhs: []ast.Expr{f}, Tok: token.DEFINE, Rhs: []ast.Expr{fn}})
			fn = f
		}
	}
	args := make([]ast.Expr, len(c.Args))
	for i, a := range c.Args {
		if tv, ok := rw.info.Types[a]; ok && (tv.Value != nil || tv.IsNil()) {
			args[i] = a // constants need no snapshot (and keep their untyped-ness)
			continue
		}
		t := rw.fresh("a")
		pre = append(pre, &ast.AssignStmt{Lhs: []ast.Expr{t}, Tok: token.DEFINE, Rhs: []ast.Expr{a}})
		args[i] = t
	}
	inner := &ast.CallExpr{Fun: fn, Args: args, Ellipsis: c.Ellipsis}
	lit := &ast.FuncLit{Type: &ast.FuncType{Params: &ast.FieldList{}}, Body: &ast.BlockStmt{List: []ast.Stmt{&ast.ExprStmt{X: inner}}}}
	pre = append(pre, &ast.ExprStmt{X: call(schedName, "Go", lit)})
	return &ast.BlockStmt{List: pre}
}

func isFuncObj(o types.Object) bool {
	_, ok := o.(*types.Func)
	return ok
}

// selectStmt rewrites a select into registration calls + switch on the fired case.
func (rw *rewriter) selectStmt(s *ast.SelectStmt, label *ast.Ident) ast.Stmt {
	sv := rw.fresh("sel")
	hasDefault := false
	for _, c := range s.Body.List {
		if c.(*ast.CommClause).Comm == nil {
			hasDefault = true
		}
	}
	pre := []ast.Stmt{&ast.AssignStmt{Lhs: []ast.Expr{sv}, Tok: token.DEFINE,
		Rhs: []ast.Expr{call(schedName, "NewSel", ast.NewIdent(strconv.FormatBool(hasDefault)))}}}
	var clauses []ast.Stmt
	idx := 0
	for _, c := range s.Body.List {
		cc := c.(*ast.CommClause)
		if cc.Comm == nil {
			clauses = append(clauses, &ast.CaseClause{List: nil, Body: cc.Body})
			continue
		}
		var body []ast.Stmt
		switch comm := cc.Comm.(type) {
		case *ast.SendStmt:
			pre = append(pre, &ast.ExprStmt{X: call(schedName, "SelSend", sv, comm.Chan, comm.Value)})
		case *ast.ExprStmt:
			u := rw.recvOf(comm.X, comm).(*ast.UnaryExpr)
			pre = append(pre, &ast.ExprStmt{X: call(schedName, "SelRecv", sv, u.X)})
		case *ast.AssignStmt:
			u := rw.recvOf(comm.Rhs[0], comm).(*ast.UnaryExpr)
			// the channel expression is evaluated once, on entry
			cv := rw.fresh("ch")
			pre = append(pre, &ast.AssignStmt{Lhs: []ast.Expr{cv}, Tok: token.DEFINE, Rhs: []ast.Expr{u.X}})
			pre = append(pre, &ast.ExprStmt{X: call(schedName, "SelRecv", sv, cv)})
			fn := "SelVal"
			if len(comm.Lhs) == 2 {
				fn = "SelVal2"
			}
			body = append(body, &ast.AssignStmt{Lhs: comm.Lhs, Tok: comm.Tok, Rhs: []ast.Expr{call(schedName, fn, sv, cv)}})
			if comm.Tok == token.DEFINE {
				// silence "declared and not used" exactly as the original select would have complained... it would not:
				// Go requires use as well, so nothing to do.
			}
		}
		body = append(body, cc.Body...)
		clauses = append(clauses, &ast.CaseClause{List: []ast.Expr{&ast.BasicLit{Kind: token.INT, Value: strconv.Itoa(idx)}}, Body: body})
		idx++
	}
	if !hasDefault {
		// keeps the statement "terminating" when the original select was; only reachable during teardown
		clauses = append(clauses, &ast.CaseClause{List: nil, Body: []ast.Stmt{&ast.ExprStmt{X: &ast.CallExpr{Fun: ast.NewIdent("panic"),
			Args: []ast.Expr{&ast.BasicLit{Kind: token.STRING, Value: strconv.Quote("sched: select aborted")}}}}}})
	}
	sw := &ast.SwitchStmt{Tag: &ast.CallExpr{Fun: &ast.SelectorExpr{X: sv, Sel: ast.NewIdent("Wait")}}, Body: &ast.BlockStmt{List: clauses}}
	return &ast.BlockStmt{List: append(pre, sw)}
}
