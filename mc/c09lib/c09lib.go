// Package c09lib runs the real in-process LogQL engine (/repo/reader/logql/logql_transpiler_v2/internal_planner)
// on a *scripted upstream*: a shared.RequestProcessor that emits a given sequence of channel messages, framed the
// way shared.ClickhouseGetterPlanner frames its batches (entries, then one entry with Err == io.EOF as the last
// element of the last message).  "Run chain on scripted upstream, collect output" is Run / RunChain; the
// observation functions model what reader/service/queryRangeService.go makes of the output channel.
//
// The package is deliberately free of checks: C09's main enumerates, the coordinator can drive the same function
// under the controlled scheduler (the chain is a linear Kahn network: one goroutine per stage, unbuffered
// channels, no shared state except what a message carries).
package c09lib

import (
	"context"
	"fmt"
	"io"
	"sort"
	"strings"
	"time"

	"github.com/metrico/qryn/reader/logql/logql_parser"
	"github.com/metrico/qryn/reader/logql/logql_transpiler_v2/internal_planner"
	"github.com/metrico/qryn/reader/logql/logql_transpiler_v2/shared"
)

// Ent is one upstream (or output) entry in JSON-able form.
type Ent struct {
	FP     uint64            `json:"fp"`
	Labels map[string]string `json:"labels,omitempty"`
	TS     int64             `json:"ts"`
	Line   string            `json:"line,omitempty"`
	Value  float64           `json:"value,omitempty"`
	EOF    bool              `json:"eof,omitempty"` // the io.EOF marker entry of ClickhouseGetterPlanner.Scan
	Err    string            `json:"err,omitempty"` // output only: a non-EOF error entry
}

// Case is one execution: query text, planner context, upstream framing.
type Case struct {
	Query   string  `json:"query"`
	FromNs  int64   `json:"from_ns"`
	ToNs    int64   `json:"to_ns"`
	StepNs  int64   `json:"step_ns,omitempty"`
	Limit   int64   `json:"limit"`
	Forward bool    `json:"forward"`
	Msgs    [][]Ent `json:"msgs"`
}

// Output is everything the chain produced.
type Output struct {
	PlanErr    string  // parser / internal_planner.Plan error ("not supported")
	ProcessErr string  // error returned synchronously by Process
	Panic      string  // panic raised synchronously by Plan/Process (not tamed by the engine)
	Hung       bool    // output channel neither delivered nor closed for HangGuard
	Batches    [][]Ent // messages as received, deep-copied at receipt
	Matrix     bool
}

// HangGuard is the only wall-clock value in the library: a chain that stays silent this long is reported as Hung.
var HangGuard = 20 * time.Second

// Upstream is the scripted shared.RequestProcessor.
type Upstream struct {
	Msgs   [][]Ent
	Matrix bool
}

func (u *Upstream) IsMatrix() bool { return u.Matrix }

func toLogEntry(e Ent) shared.LogEntry {
	if e.EOF {
		return shared.LogEntry{Err: io.EOF}
	}
	le := shared.LogEntry{TimestampNS: e.TS, Fingerprint: e.FP, Message: e.Line, Value: e.Value}
	// the real Scan always allocates a fresh map per entry
	le.Labels = make(map[string]string, len(e.Labels))
	for k, v := range e.Labels {
		le.Labels[k] = v
	}
	return le
}

// Process emits the scripted messages on an unbuffered channel and closes it, like Scan does.  Cancellation of
// ctx.Ctx is ignored: losing that race is always a legal behaviour of the real getter.
func (u *Upstream) Process(ctx *shared.PlannerContext, _ chan []shared.LogEntry) (chan []shared.LogEntry, error) {
	out := make(chan []shared.LogEntry)
	go func() {
		defer close(out)
		for _, m := range u.Msgs {
			msg := make([]shared.LogEntry, len(m))
			for i, e := range m {
				msg[i] = toLogEntry(e)
			}
			out <- msg
		}
	}()
	return out, nil
}

// BuildChain parses the query with the real parser and plans the *whole* pipeline on the in-process engine
// (the situation after breakScript with breakpoint 0: ClickHouse only evaluates the stream selector).
func BuildChain(query string, up shared.RequestProcessor) (shared.RequestProcessor, error) {
	script, err := logql_parser.Parse(query)
	if err != nil {
		return nil, fmt.Errorf("parse: %w", err)
	}
	return internal_planner.Plan(script, up)
}

// Context builds the PlannerContext the way QueryRangeService.prepareOutput does (the fields the engine reads).
func Context(c Case) (*shared.PlannerContext, context.CancelFunc) {
	cctx, cancel := context.WithCancel(context.Background())
	return &shared.PlannerContext{
		From:       time.Unix(0, c.FromNs),
		To:         time.Unix(0, c.ToNs),
		OrderASC:   c.Forward,
		Limit:      c.Limit,
		Ctx:        cctx,
		CancelCtx:  cancel,
		CHFinalize: true,
		Step:       time.Duration(c.StepNs),
	}, cancel
}

// Run parses and plans c.Query on a scripted upstream and collects the output.
func Run(c Case) Output {
	script, err := Parse(c.Query)
	if err != nil {
		return Output{PlanErr: "parse: " + err.Error()}
	}
	return RunScript(script, c)
}

// Parse is the real parser.  A parsed script can be planned many times (internal_planner.Plan only reads it);
// logql_parser.Parse rebuilds its participle grammar on every call, so enumerators parse once per query.
func Parse(query string) (*logql_parser.LogQLScript, error) { return logql_parser.Parse(query) }

// RunScript plans the whole pipeline of an already parsed script on the in-process engine (a fresh chain per
// call, like one HTTP request) over a scripted upstream and collects the output.  c.Query is not read.
func RunScript(script *logql_parser.LogQLScript, c Case) (out Output) {
	defer func() {
		if r := recover(); r != nil {
			out.Panic = fmt.Sprint(r)
		}
	}()
	proc, err := internal_planner.Plan(script, &Upstream{Msgs: c.Msgs})
	if err != nil {
		out.PlanErr = err.Error()
		return out
	}
	ctx, cancel := Context(c)
	defer cancel()
	return RunChain(proc, ctx)
}

// RunChain starts the chain and drains its output channel.
func RunChain(proc shared.RequestProcessor, ctx *shared.PlannerContext) (out Output) {
	out.Matrix = proc.IsMatrix()
	defer func() {
		if r := recover(); r != nil {
			out.Panic = fmt.Sprint(r)
		}
	}()
	ch, err := proc.Process(ctx, nil)
	if err != nil {
		out.ProcessErr = err.Error()
		return out
	}
	guard := time.NewTimer(HangGuard)
	defer guard.Stop()
	for {
		select {
		case msg, ok := <-ch:
			if !ok {
				return out
			}
			b := make([]Ent, len(msg))
			for i, e := range msg {
				b[i] = fromLogEntry(e)
			}
			out.Batches = append(out.Batches, b)
			if !guard.Stop() {
				<-guard.C
			}
			guard.Reset(HangGuard)
		case <-guard.C:
			out.Hung = true
			return out
		}
	}
}

func fromLogEntry(e shared.LogEntry) Ent {
	r := Ent{FP: e.Fingerprint, TS: e.TimestampNS, Line: e.Message, Value: e.Value}
	if e.Err == io.EOF {
		r.EOF = true
	} else if e.Err != nil {
		r.Err = e.Err.Error()
	}
	if e.Labels != nil {
		r.Labels = make(map[string]string, len(e.Labels))
		for k, v := range e.Labels {
			r.Labels[k] = v
		}
	}
	return r
}

// ---------------------------------------------------------------------------------------------------------------
// observation: what the HTTP layer makes of the output channel (reader/service/queryRangeService.go)

// Block is one `{"stream": labels, "values": [...]}` / `{"metric": labels, "values": [...]}` object of the
// response: a maximal run of consecutive entries with the same fingerprint, labelled with the labels of the
// run's first entry.
type Block struct {
	FP      uint64
	Labels  map[string]string
	Entries []Ent
}

// Observe models exportStreamsValue (streams) and the matrix loop of QueryRange: entries with Err == io.EOF are
// skipped (streams) or end the current message (matrix); any other Err fails the query (err != "").
func Observe(out Output) (blocks []Block, err string) {
	first := true
	var last uint64
	for _, msg := range out.Batches {
		for _, e := range msg {
			if e.EOF {
				if out.Matrix {
					break
				}
				continue
			}
			if e.Err != "" {
				return blocks, e.Err
			}
			if first || e.FP != last {
				// (exportStreamsValue starts with lastFp == 0 and does not open a block for a leading
				// fingerprint 0 - that is C15's D24; fingerprints here are never 0.)
				blocks = append(blocks, Block{FP: e.FP, Labels: e.Labels})
				last, first = e.FP, false
			}
			b := &blocks[len(blocks)-1]
			b.Entries = append(b.Entries, e)
		}
	}
	return blocks, ""
}

// CanonLabels renders a label set (sorted; empty values omitted).
func CanonLabels(l map[string]string) string {
	ks := make([]string, 0, len(l))
	for k, v := range l {
		if v != "" {
			ks = append(ks, k)
		}
	}
	sort.Strings(ks)
	var b strings.Builder
	for _, k := range ks {
		fmt.Fprintf(&b, "%s=%q,", k, l[k])
	}
	return "{" + b.String() + "}"
}
