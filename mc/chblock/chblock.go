// Package chblock turns the column buffers an insert service would send to ClickHouse into the native-protocol
// data block (exactly the bytes ch-go puts on the wire) and decodes that block back into rows, guided only by the
// column names and type strings carried in the block — i.e. "the rows exactly as stored".
//
// The decoder is deliberately independent of the repository's own column adapters: it understands the type
// strings String, FixedString(N), Int8/16/32/64, UInt8/16/32/64, Float64, Date, Array(T), Tuple(T1, ...).
// Go values follow clickhouse-go: string for String/FixedString (raw bytes), time.Time (UTC midnight) for Date,
// []any for Array, []any for Tuple.
package chblock

import (
	"bytes"
	"fmt"
	"strconv"
	"strings"
	"sync"
	"time"

	"github.com/ClickHouse/ch-go/proto"
)

// Block is a decoded data block.
type Block struct {
	Names []string
	Types []string
	Rows  int
	Cols  [][]any // Cols[c][r]
}

// Col returns the values of the named column, or nil.
func (b *Block) Col(name string) []any {
	for i, n := range b.Names {
		if n == name {
			return b.Cols[i]
		}
	}
	return nil
}

// TypeOf returns the type string of the named column.
func (b *Block) TypeOf(name string) string {
	for i, n := range b.Names {
		if n == name {
			return b.Types[i]
		}
	}
	return ""
}

// Encode builds the raw native block for the given input columns (all must have the same number of rows).
func Encode(input []proto.InputColumn) ([]byte, error) {
	if len(input) == 0 {
		return nil, fmt.Errorf("no columns")
	}
	rows := input[0].Data.Rows()
	var buf proto.Buffer
	if err := (proto.Block{Columns: len(input), Rows: rows}).EncodeRawBlock(&buf, proto.Version, input); err != nil {
		return nil, err
	}
	return buf.Buf, nil
}

// Decode decodes a raw native block.
func Decode(raw []byte) (blk *Block, err error) {
	// proto.NewReader allocates a 1 MiB bufio buffer; keep readers in a pool (a reader is only returned to the pool
	// after a clean decode, when its buffer is known to be drained)
	pr, _ := readerPool.Get().(*pooledReader)
	if pr == nil {
		pr = &pooledReader{src: &swapReader{}}
		pr.r = proto.NewReader(pr.src)
	}
	pr.src.cur = bytes.NewReader(raw)
	defer func() {
		if err == nil {
			readerPool.Put(pr)
		}
	}()
	r := pr.r
	ncols, err := r.Int()
	if err != nil {
		return nil, err
	}
	nrows, err := r.Int()
	if err != nil {
		return nil, err
	}
	b := &Block{Rows: nrows}
	for i := 0; i < ncols; i++ {
		name, err := r.Str()
		if err != nil {
			return nil, fmt.Errorf("column %d name: %w", i, err)
		}
		typ, err := r.Str()
		if err != nil {
			return nil, fmt.Errorf("column %d type: %w", i, err)
		}
		if proto.FeatureCustomSerialization.In(proto.Version) {
			custom, err := r.Bool()
			if err != nil {
				return nil, err
			}
			if custom {
				return nil, fmt.Errorf("column %s: custom serialization", name)
			}
		}
		c, err := build(typ)
		if err != nil {
			return nil, fmt.Errorf("column %s: %w", name, err)
		}
		if nrows > 0 {
			if err := c.decode(r, nrows); err != nil {
				return nil, fmt.Errorf("column %s (%s): %w", name, typ, err)
			}
		}
		vals := make([]any, nrows)
		for j := 0; j < nrows; j++ {
			vals[j] = c.row(j)
		}
		b.Names = append(b.Names, name)
		b.Types = append(b.Types, typ)
		b.Cols = append(b.Cols, vals)
	}
	var one [1]byte
	if n, _ := r.Read(one[:]); n != 0 {
		return nil, fmt.Errorf("trailing bytes after the last column")
	}
	return b, nil
}

type swapReader struct{ cur *bytes.Reader }

func (s *swapReader) Read(p []byte) (int, error) { return s.cur.Read(p) }

type pooledReader struct {
	src *swapReader
	r   *proto.Reader
}

var readerPool sync.Pool

type col interface {
	decode(r *proto.Reader, rows int) error
	row(i int) any
}

type prim[T any] struct {
	c interface {
		DecodeColumn(r *proto.Reader, rows int) error
		Row(i int) T
	}
	conv func(T) any
}

func (p *prim[T]) decode(r *proto.Reader, rows int) error { return p.c.DecodeColumn(r, rows) }
func (p *prim[T]) row(i int) any {
	if p.conv != nil {
		return p.conv(p.c.Row(i))
	}
	return p.c.Row(i)
}

type arr struct {
	off  proto.ColUInt64
	data col
}

func (a *arr) decode(r *proto.Reader, rows int) error {
	if err := a.off.DecodeColumn(r, rows); err != nil {
		return err
	}
	n := 0
	if rows > 0 {
		n = int(a.off[rows-1])
	}
	if n == 0 {
		return nil
	}
	return a.data.decode(r, n)
}
func (a *arr) row(i int) any {
	start := 0
	if i > 0 {
		start = int(a.off[i-1])
	}
	end := int(a.off[i])
	out := make([]any, 0, end-start)
	for j := start; j < end; j++ {
		out = append(out, a.data.row(j))
	}
	return out
}

type tup struct{ elems []col }

func (t *tup) decode(r *proto.Reader, rows int) error {
	for _, e := range t.elems {
		if err := e.decode(r, rows); err != nil {
			return err
		}
	}
	return nil
}
func (t *tup) row(i int) any {
	out := make([]any, len(t.elems))
	for k, e := range t.elems {
		out[k] = e.row(i)
	}
	return out
}

func build(typ string) (col, error) {
	typ = strings.TrimSpace(typ)
	switch typ {
	case "String":
		return &prim[string]{c: new(proto.ColStr)}, nil
	case "Int8":
		return &prim[int8]{c: new(proto.ColInt8)}, nil
	case "Int16":
		return &prim[int16]{c: new(proto.ColInt16)}, nil
	case "Int32":
		return &prim[int32]{c: new(proto.ColInt32)}, nil
	case "Int64":
		return &prim[int64]{c: new(proto.ColInt64)}, nil
	case "UInt8":
		return &prim[uint8]{c: new(proto.ColUInt8)}, nil
	case "UInt16":
		return &prim[uint16]{c: new(proto.ColUInt16)}, nil
	case "UInt32":
		return &prim[uint32]{c: new(proto.ColUInt32)}, nil
	case "UInt64":
		return &prim[uint64]{c: new(proto.ColUInt64)}, nil
	case "Float64":
		return &prim[float64]{c: new(proto.ColFloat64)}, nil
	case "Date":
		// stored as UInt16 days since epoch
		return &prim[uint16]{c: new(proto.ColUInt16), conv: func(d uint16) any {
			return time.Unix(int64(d)*86400, 0).UTC()
		}}, nil
	}
	if inner, ok := unwrap(typ, "FixedString"); ok {
		n, err := strconv.Atoi(strings.TrimSpace(inner))
		if err != nil || n <= 0 {
			return nil, fmt.Errorf("bad type %q", typ)
		}
		return &prim[[]byte]{c: &proto.ColFixedStr{Size: n}, conv: func(b []byte) any { return string(b) }}, nil
	}
	if inner, ok := unwrap(typ, "Array"); ok {
		d, err := build(inner)
		if err != nil {
			return nil, err
		}
		return &arr{data: d}, nil
	}
	if inner, ok := unwrap(typ, "Tuple"); ok {
		t := &tup{}
		for _, p := range splitTop(inner) {
			e, err := build(p)
			if err != nil {
				return nil, err
			}
			t.elems = append(t.elems, e)
		}
		return t, nil
	}
	return nil, fmt.Errorf("unsupported column type %q", typ)
}

func unwrap(typ, name string) (string, bool) {
	if strings.HasPrefix(typ, name+"(") && strings.HasSuffix(typ, ")") {
		return typ[len(name)+1 : len(typ)-1], true
	}
	return "", false
}

// splitTop splits a comma separated type list at depth 0.
func splitTop(s string) []string {
	var out []string
	depth, start := 0, 0
	for i, c := range s {
		switch c {
		case '(':
			depth++
		case ')':
			depth--
		case ',':
			if depth == 0 {
				out = append(out, strings.TrimSpace(s[start:i]))
				start = i + 1
			}
		}
	}
	return append(out, strings.TrimSpace(s[start:]))
}
