// Package readerharness assembles the real reader side of qryn (reader/router + controllers + services +
// planners) over a scripted database (verif/mc/fakesql), in-process, the way reader.Init does it
// (reader/main.go performV1APIRouting), minus the network listener, the watchdog ticker and clickhouse.OpenDB.
//
// It is a library so that the C12 grid (C12a), the schedule-exploration half (C12b) and C17 can share the
// route/driver assembly.
package readerharness

import (
	"bytes"
	"context"
	"fmt"
	"io"
	"net/http"
	"net/http/httptest"
	"os"
	"regexp"
	"runtime"
	"sort"
	"strings"
	"sync"
	"time"

	"github.com/gorilla/mux"
	"github.com/gorilla/websocket"
	clconfig "github.com/metrico/cloki-config"
	clcfg "github.com/metrico/cloki-config/config"
	"github.com/metrico/qryn/reader/config"
	"github.com/metrico/qryn/reader/model"
	apirouterv1 "github.com/metrico/qryn/reader/router"
	"github.com/metrico/qryn/reader/utils/logger"

	"verif/mc/fakesql"
)

// Harness is one assembled reader.
type Harness struct {
	Router   *mux.Router
	Script   *fakesql.DB
	Session  *fakesql.Session
	Registry model.IDBRegistry
	Node     *model.DataDatabasesMap
	nameSeq  int
}

var initOnce sync.Once

// routersWired is the list of router constructors of reader/main.go performV1APIRouting that New calls.
// CheckWiring compares it with the source text so that a router added to the repository is noticed (exit 2).
var routersWired = []string{"RouteQueryRangeApis", "RouteSelectLabels", "RouteSelectPrometheusLabels",
	"RoutePrometheusQueryRange", "RouteTempo", "RouteMiscApis", "RouteProf", "PluggableRoutes"}

// CheckWiring verifies that reader/main.go wires exactly the routers this harness wires.
func CheckWiring(repo string) error {
	b, err := os.ReadFile(repo + "/reader/main.go")
	if err != nil {
		return err
	}
	re := regexp.MustCompile(`apirouterv1\.(\w+)\(`)
	var got []string
	for _, m := range re.FindAllStringSubmatch(string(b), -1) {
		got = append(got, m[1])
	}
	a, w := append([]string(nil), got...), append([]string(nil), routersWired...)
	sort.Strings(a)
	sort.Strings(w)
	if strings.Join(a, ",") != strings.Join(w, ",") {
		return fmt.Errorf("reader/main.go wires %v, harness wires %v", got, routersWired)
	}
	return nil
}

// New builds the router over a fresh scripted database.  cluster != "" selects clustered table names.
func New(h fakesql.Handler, cluster string) *Harness {
	initOnce.Do(func() {
		cfg := &clconfig.ClokiConfig{Setting: &clcfg.ClokiBaseSettingServer{}}
		cfg.Setting.SYSTEM_SETTINGS.MetricsMaxSamples = 5000000
		cfg.Setting.LOG_SETTINGS.Level = "error"
		config.Cloki = cfg
		logger.Logger.SetOutput(io.Discard)
	})
	hr := &Harness{Script: fakesql.New(h)}
	hr.Session = fakesql.NewSession("verif-0", hr.Script)
	hr.Registry, hr.Node = fakesql.Registry(hr.Session, "qryn", cluster)
	app := mux.NewRouter()
	// same order as reader/main.go performV1APIRouting (dbRegistry.Init and watchdog.Init replaced by the
	// scripted registry; the watchdog only pings every 5 s and panics after 30 s of failures).
	apirouterv1.RouteQueryRangeApis(app, hr.Registry)
	apirouterv1.RouteSelectLabels(app, hr.Registry)
	apirouterv1.RouteSelectPrometheusLabels(app, hr.Registry)
	apirouterv1.RoutePrometheusQueryRange(app, hr.Registry, false)
	apirouterv1.RouteTempo(app, hr.Registry)
	apirouterv1.RouteMiscApis(app)
	apirouterv1.RouteProf(app, hr.Registry)
	apirouterv1.PluggableRoutes(app, hr.Registry)
	hr.Router = app
	return hr
}

// FreshName gives the session a new name so that reader/utils/dbVersion (which caches version info per
// GetName() for 10 s of wall-clock time) queries the database again: the sequence of statements a request sends
// then does not depend on when the previous request ran.
func (h *Harness) FreshName() {
	h.nameSeq++
	h.Session.Name = fmt.Sprintf("verif-%d", h.nameSeq)
}

// Routes lists (methods, path template) of every route registered on the router.
func (h *Harness) Routes() []string {
	var out []string
	h.Router.Walk(func(route *mux.Route, router *mux.Router, ancestors []*mux.Route) error {
		p, _ := route.GetPathTemplate()
		m, _ := route.GetMethods()
		out = append(out, strings.Join(m, ",")+" "+p)
		return nil
	})
	sort.Strings(out)
	return out
}

// Request describes one HTTP request.
type Request struct {
	Method string            `json:"method"`
	URL    string            `json:"url"` // path + raw query
	Header map[string]string `json:"header,omitempty"`
	Body   []byte            `json:"body,omitempty"`
	// CancelWhenBlocked: cancel the request context (client went away) as soon as the driver reports a parked
	// query; CancelAfterQueries: cancel after the n-th statement was sent (0 = never).
	CancelWhenBlocked bool `json:"cancel_when_blocked,omitempty"`
}

// Outcome of one request.
type Outcome struct {
	Responded    bool     `json:"responded"` // handler returned (normally or through its own recover)
	Status       int      `json:"status"`    // HTTP status (200 when the handler never called WriteHeader)
	BodyLen      int      `json:"body_len"`
	Body         []byte   `json:"-"`
	Panic        string   `json:"panic,omitempty"`         // panic escaped the handler: net/http would abort the connection without a response
	PanicSite    string   `json:"panic_site,omitempty"`    // first repository frame of the panic
	PanicHandler string   `json:"panic_handler,omitempty"` // outermost repository frame (the HTTP handler)
	Hang         bool     `json:"hang,omitempty"`          // handler still running after the bound
	HangSite     string   `json:"hang_site,omitempty"`
	HangBusy     bool     `json:"hang_busy,omitempty"` // the handler goroutine was running (CPU-bound), not parked
	Cancelled    bool     `json:"cancelled,omitempty"` // the harness cancelled the request context
	Leaked       []string `json:"leaked,omitempty"`    // repository functions of goroutines started during the request and still alive after the poll
	Queries      int      `json:"queries"`
	OpenRows     int64    `json:"open_rows,omitempty"` // driver.Rows never closed (connection leak; reported, not part of C12)
}

// Bounds used by Do; generous against µs–ms normal latency (DESIGN.md §7 worker model).
var (
	ResponseBound = 15 * time.Second
	CensusBound   = 4 * time.Second
)

// Do serves one request through the router and applies the C12 observations: response, escaped panic,
// goroutine census.  It never lets a panic of the handler goroutine escape (it records it instead); panics in
// goroutines started by the code under test kill the process, which is what the worker model observes.
func (h *Harness) Do(rq Request) Outcome {
	before := Census()
	h.Script.ResetLog()
	out := h.serve(rq)
	if out.Hang || out.Status == -1 {
		return out
	}
	out.Leaked = AwaitBaseline(before, CensusBound)
	out.OpenRows = h.Script.OpenRows()
	return out
}

// DoConcurrent serves the requests at the same time (a burst of clients) and applies the same observations to
// each; the goroutine census is taken once around the whole burst and reported with every outcome.
func (h *Harness) DoConcurrent(rqs []Request) []Outcome {
	before := Census()
	h.Script.ResetLog()
	outs := make([]Outcome, len(rqs))
	var wg sync.WaitGroup
	for i := range rqs {
		wg.Add(1)
		go func(i int) {
			defer wg.Done()
			outs[i] = h.serve(rqs[i])
		}(i)
	}
	wg.Wait()
	for _, o := range outs {
		if o.Hang {
			return outs
		}
	}
	leaked := AwaitBaseline(before, CensusBound)
	for i := range outs {
		outs[i].Leaked = leaked
		outs[i].OpenRows = h.Script.OpenRows()
	}
	return outs
}

// serve runs one request through the router: response, escaped panic, hang; no census.
func (h *Harness) serve(rq Request) Outcome {
	var out Outcome
	ctx, cancel := context.WithCancel(context.Background())
	defer cancel()
	var body io.Reader
	if rq.Body != nil {
		body = bytes.NewReader(rq.Body)
	}
	method := rq.Method
	if method == "" {
		method = "GET"
	}
	req, err := http.NewRequestWithContext(ctx, method, "http://qryn.test"+rq.URL, body)
	if err != nil {
		// the URL cannot be expressed as an HTTP request line: not a request
		out.Responded = true
		out.Status = -1
		return out
	}
	for k, v := range rq.Header {
		req.Header.Set(k, v)
	}
	rec := httptest.NewRecorder()
	done := make(chan struct{})
	var hGid string
	go func() {
		defer close(done)
		hGid = curGoroutineHeader()
		defer func() {
			if p := recover(); p != nil {
				out.Panic = fmt.Sprint(p)
				st := string(stackOf())
				out.PanicSite = firstRepoFrame(st)
				out.PanicHandler = outermostRepoFrame(st)
			}
		}()
		h.Router.ServeHTTP(rec, req)
	}()
	timer := time.NewTimer(ResponseBound)
	defer timer.Stop()
	blockedCh := h.Script.BlockedCh
	if !rq.CancelWhenBlocked {
		blockedCh = nil
	}
wait:
	for {
		select {
		case <-done:
			break wait
		case <-blockedCh:
			out.Cancelled = true
			cancel()
			blockedCh = nil
		case <-timer.C:
			out.Hang = true
			out.HangSite, out.HangBusy = hangSite(hGid)
			out.Queries = len(h.Script.Queries())
			return out
		}
	}
	out.Queries = len(h.Script.Queries())
	if out.Panic == "" {
		out.Responded = true
		out.Status = rec.Code
		out.Body = rec.Body.Bytes()
		out.BodyLen = rec.Body.Len()
	}
	// the client is gone once the response is complete: net/http cancels the request context when ServeHTTP returns
	cancel()
	return out
}

// ---- goroutine census ----

const repoPrefix = "github.com/metrico/qryn/"

// censusIgnore lists repository goroutines that are not work of one request: the version-cache throttle of
// reader/utils/dbVersion sleeps 10 s and exits on its own.
var censusIgnore = []string{"reader/utils/dbVersion.throttle"}

var (
	censusMu  sync.Mutex
	censusBuf = make([]byte, 256<<10)
)

// Census returns goroutine id -> first repository function on its stack, for every goroutine that has a
// repository frame (runtime.Stack filtered to repository frames).
func Census() map[string]string {
	censusMu.Lock()
	defer censusMu.Unlock()
	var buf []byte
	for {
		n := runtime.Stack(censusBuf, true)
		if n < len(censusBuf) {
			buf = censusBuf[:n]
			break
		}
		censusBuf = make([]byte, 2*len(censusBuf))
	}
	out := map[string]string{}
	for _, g := range strings.Split(string(buf), "\n\n") {
		fn := firstRepoFrame(g)
		if fn == "" {
			continue
		}
		skip := false
		for _, ig := range censusIgnore {
			if strings.Contains(g, repoPrefix+ig) {
				skip = true
			}
		}
		if skip {
			continue
		}
		hdr := g
		if i := strings.IndexByte(g, '['); i > 0 {
			hdr = strings.TrimSpace(g[:i])
		}
		out[hdr] = fn
	}
	return out
}

// AwaitBaseline polls until every goroutine with repository frames that is not in `before` is gone, or the bound
// passes; it returns the repository functions of the survivors (sorted).
func AwaitBaseline(before map[string]string, bound time.Duration) []string {
	deadline := time.Now().Add(bound)
	sleep := 50 * time.Microsecond
	for i := 0; ; i++ {
		var left []string
		for id, fn := range Census() {
			if _, ok := before[id]; !ok {
				left = append(left, fn)
			}
		}
		if len(left) == 0 {
			return nil
		}
		if time.Now().After(deadline) {
			sort.Strings(left)
			return left
		}
		if i < 20 {
			runtime.Gosched()
		} else {
			time.Sleep(sleep)
			if sleep < 20*time.Millisecond {
				sleep *= 2
			}
		}
	}
}

var frameRe = regexp.MustCompile(`(?m)^(github\.com/metrico/qryn/[^\s(]+(?:\([^)]*\))?[^\s(]*)\(`)

// firstRepoFrame returns the innermost repository function of one goroutine dump ("" if none), with the module
// prefix removed: reader/service.(*TempoService).OutputQuery.func1
func firstRepoFrame(g string) string {
	for _, line := range strings.Split(g, "\n") {
		if strings.HasPrefix(line, repoPrefix) {
			fn := line
			// strip the argument list: the last '(' that starts "(0x..." or "(...)" or "()"
			if i := strings.LastIndex(fn, "("); i > 0 {
				fn = fn[:i]
			}
			return strings.TrimPrefix(fn, repoPrefix)
		}
		if strings.HasPrefix(line, "created by "+repoPrefix) {
			fn := strings.TrimPrefix(line, "created by ")
			if i := strings.Index(fn, " in goroutine"); i > 0 {
				fn = fn[:i]
			}
			return "created_by:" + strings.TrimPrefix(fn, repoPrefix)
		}
	}
	return ""
}

// outermostRepoFrame returns the outermost repository function of a goroutine dump (method-value wrappers "-fm"
// skipped).
func outermostRepoFrame(g string) string {
	last := ""
	for _, line := range strings.Split(g, "\n") {
		if strings.HasPrefix(line, repoPrefix) {
			fn := line
			if i := strings.LastIndex(fn, "("); i > 0 {
				fn = fn[:i]
			}
			if strings.HasSuffix(fn, "-fm") {
				continue
			}
			last = strings.TrimPrefix(fn, repoPrefix)
		}
	}
	return last
}

func stackOf() []byte {
	buf := make([]byte, 1<<16)
	return buf[:runtime.Stack(buf, false)]
}

func curGoroutineHeader() string {
	s := string(stackOf())
	if i := strings.IndexByte(s, '['); i > 0 {
		return strings.TrimSpace(s[:i])
	}
	return ""
}

// hangSite says where the handler goroutine is when a request does not finish, and whether it is still doing
// something.  The goroutine is sampled three times 100 ms apart: parked on the very same stack every time =
// blocked forever (busy=false); otherwise it is computing or making slow progress (busy=true).  The site is the
// outermost repository function of the handler goroutine (the handler), which does not depend on the sample.
func hangSite(handlerHdr string) (string, bool) {
	var blocks []string
	site := ""
	for i := 0; i < 3; i++ {
		if i > 0 {
			time.Sleep(100 * time.Millisecond)
		}
		censusMu.Lock()
		n := runtime.Stack(censusBuf, true)
		dump := string(censusBuf[:n])
		censusMu.Unlock()
		for _, g := range strings.Split(dump, "\n\n") {
			if handlerHdr != "" && strings.HasPrefix(g, handlerHdr+" [") {
				if fn := outermostRepoFrame(g); fn != "" {
					site = fn
				}
				// drop the header line (it carries the wait time in minutes)
				if j := strings.IndexByte(g, '\n'); j >= 0 {
					state := g[len(handlerHdr)+2 : j]
					if k := strings.IndexAny(state, "],"); k >= 0 {
						state = state[:k]
					}
					blocks = append(blocks, state+"\n"+g[j:])
				}
			}
		}
	}
	busy := len(blocks) < 3
	for _, b := range blocks {
		if b != blocks[0] || strings.HasPrefix(b, "running") || strings.HasPrefix(b, "runnable") {
			busy = true
		}
	}
	return site, busy
}

// DoTail exercises the websocket route /loki/api/v1/tail over a real loopback HTTP server (the handler needs a
// hijackable connection): connect, read messages for `listen`, then the client goes away (close frame + TCP
// close).  The same observations as Do apply: a handshake answer within the bound, no escaped panic, goroutine
// census back to baseline after the client left.
func (h *Harness) DoTail(rawQuery string, listen time.Duration) Outcome {
	var out Outcome
	before := Census()
	h.Script.ResetLog()
	var panicMu sync.Mutex
	srv := httptest.NewServer(http.HandlerFunc(func(w http.ResponseWriter, r *http.Request) {
		defer func() {
			if p := recover(); p != nil {
				panicMu.Lock()
				out.Panic = fmt.Sprint(p)
				st := string(stackOf())
				out.PanicSite = firstRepoFrame(st)
				out.PanicHandler = outermostRepoFrame(st)
				panicMu.Unlock()
				panic(http.ErrAbortHandler)
			}
		}()
		h.Router.ServeHTTP(w, r)
	}))
	defer srv.Close()
	url := "ws" + strings.TrimPrefix(srv.URL, "http") + "/loki/api/v1/tail?" + rawQuery
	d := websocket.Dialer{HandshakeTimeout: ResponseBound}
	conn, resp, err := d.Dial(url, nil)
	if err != nil {
		// no upgrade: an ordinary HTTP answer (or none at all)
		if resp != nil {
			out.Responded = true
			out.Status = resp.StatusCode
		} else {
			panicMu.Lock()
			if out.Panic == "" {
				out.Hang = true
				out.HangSite = "controller.QueryRangeController.Tail"
			}
			panicMu.Unlock()
		}
	} else {
		out.Responded = true
		out.Status = resp.StatusCode
		deadline := time.Now().Add(listen)
		conn.SetReadDeadline(deadline)
		for {
			_, msg, err := conn.ReadMessage()
			if err != nil {
				break
			}
			out.BodyLen += len(msg)
			if len(out.Body) == 0 {
				out.Body = msg
			}
		}
		conn.WriteControl(websocket.CloseMessage, websocket.FormatCloseMessage(websocket.CloseNormalClosure, ""), time.Now().Add(time.Second))
		conn.Close()
		out.Cancelled = true
	}
	out.Queries = len(h.Script.Queries())
	srv.CloseClientConnections()
	out.Leaked = AwaitBaseline(before, CensusBound)
	out.OpenRows = h.Script.OpenRows()
	return out
}
