// Package wkpool runs an indexed, deterministic list of cases in worker subprocesses (same binary re-executed)
// with a journal, so that a case which kills the process (panic in a goroutine of the code under test, runaway
// allocation, spin) is attributed to its index instead of taking the whole check down (AGENT_BRIEF "worker
// subprocesses", DESIGN.md §7 "worker model").
//
// Protocol (worker -> parent, one line per record on fd 3):
//
//	B <i>          about to run case i
//	V <json Viol>  a violation found in the case announced by the last B
//	S <json Stats> aggregated statistics of all cases finished since the previous S; Upto = next index to run
//	X <i>          deadline reached before case i (shard not finished)
//	D              shard finished
//
// A worker that dies between "B i" and the following record is restarted from the last flushed index with case i
// on its skip list; case i is then re-run alone 3 times (fresh process each) and is reported as a crash only if
// it dies every time.  Everything is a pure function of (case list, shard count): two runs give identical
// counts.
package wkpool

import (
	"bufio"
	"encoding/json"
	"fmt"
	"os"
	"os/exec"
	"sort"
	"strconv"
	"strings"
	"sync"
	"sync/atomic"
	"time"
)

// Viol is one violation found by a worker.
type Viol struct {
	Idx    int             `json:"i"`
	Class  string          `json:"class"`
	What   string          `json:"what"`
	Replay json.RawMessage `json:"replay"`
}

// CaseResult is what running one case yields.
type CaseResult struct {
	Key        string   // distinctness key ("" = trivial case, not counted as distinct)
	Outcomes   []string // observed outcome classes
	Viols      []Viol
	Counters   map[string]int64
	Sample     any // optional example to keep (first few are forwarded)
	RealTraces int64
}

// Stats is the aggregate a worker flushes.
type Stats struct {
	Upto     int              `json:"upto"`
	Evals    int64            `json:"evals"`
	Traces   int64            `json:"traces"`
	Keys     []string         `json:"keys,omitempty"`
	Outcomes map[string]int64 `json:"outcomes,omitempty"`
	Counters map[string]int64 `json:"counters,omitempty"`
	Samples  []any            `json:"samples,omitempty"`
}

const envSpec = "VERIF_WK_SPEC"

// IsWorker reports whether this process was started by Parent.
func IsWorker() bool { return os.Getenv(envSpec) != "" }

type spec struct {
	Shard, Shards int
	From, To      int   // half-open range of indices this worker may touch
	Skip          []int // indices to skip (journalled crashers)
	Only          int   // >=0: run just this index
	DeadlineUnix  int64 // unix nanos; 0 = none
	Flush         int
}

// Worker is the worker-side main loop.  run must be deterministic.  It never returns.
func Worker(total int, run func(i int) *CaseResult) {
	var sp spec
	if err := json.Unmarshal([]byte(os.Getenv(envSpec)), &sp); err != nil {
		fmt.Fprintln(os.Stderr, "wkpool: bad spec:", err)
		os.Exit(2)
	}
	out := bufio.NewWriterSize(os.NewFile(3, "journal"), 1<<16)
	emit := func(tag string, v any) {
		out.WriteString(tag)
		if v != nil {
			out.WriteByte(' ')
			switch x := v.(type) {
			case int:
				out.WriteString(strconv.Itoa(x))
			default:
				b, _ := json.Marshal(v)
				out.Write(b)
			}
		}
		out.WriteByte('\n')
	}
	skip := map[int]bool{}
	for _, s := range sp.Skip {
		skip[s] = true
	}
	agg := Stats{Outcomes: map[string]int64{}, Counters: map[string]int64{}}
	keys := map[string]struct{}{}
	nsamples := 0
	flush := func(upto int) {
		agg.Upto = upto
		agg.Keys = agg.Keys[:0]
		for k := range keys {
			agg.Keys = append(agg.Keys, k)
		}
		sort.Strings(agg.Keys)
		emit("S", &agg)
		out.Flush()
		agg = Stats{Outcomes: map[string]int64{}, Counters: map[string]int64{}}
		keys = map[string]struct{}{}
	}
	one := func(i int) {
		emit("B", i)
		out.Flush() // the journal entry must be out before the case can kill us
		r := run(i)
		agg.Evals++
		if r == nil {
			return
		}
		agg.Traces += r.RealTraces
		if r.Key != "" {
			keys[r.Key] = struct{}{}
		}
		for _, o := range r.Outcomes {
			agg.Outcomes[o]++
		}
		for k, v := range r.Counters {
			agg.Counters[k] += v
		}
		if r.Sample != nil && nsamples < 2 {
			agg.Samples = append(agg.Samples, r.Sample)
			nsamples++
		}
		for _, v := range r.Viols {
			v.Idx = i
			emit("V", &v)
		}
	}
	if sp.Only >= 0 {
		one(sp.Only)
		// a panic in a goroutine of the code under test may let the main goroutine run on for a moment (deferred
		// close of the result channel): give the dying process time to die before declaring the case survived
		time.Sleep(50 * time.Millisecond)
		flush(sp.Only + 1)
		emit("D", nil)
		out.Flush()
		os.Exit(0)
	}
	if sp.Flush <= 0 {
		sp.Flush = 256
	}
	n := 0
	for i := sp.From; i < sp.To && i < total; i++ {
		if i%sp.Shards != sp.Shard || skip[i] {
			continue
		}
		if sp.DeadlineUnix != 0 && n%64 == 0 && time.Now().UnixNano() > sp.DeadlineUnix {
			flush(i)
			emit("X", i)
			out.Flush()
			os.Exit(0)
		}
		one(i)
		n++
		if n%sp.Flush == 0 {
			flush(i + 1)
		}
	}
	flush(sp.To)
	emit("D", nil)
	out.Flush()
	os.Exit(0)
}

// Sink receives everything the parent learns.  Calls are serialised.
type Sink struct {
	Stats     func(*Stats)
	Violation func(*Viol)
	// Crash is called for a case that killed its worker 1+3 times; tail is the end of the worker's stderr.
	Crash func(idx int, tail string)
	// Flaky is called for a case that killed its worker once but not when re-run alone.
	Flaky func(idx int, tail string)
	Cap   func(why string)
}

// Options for Parent.
type Options struct {
	Workers  int
	Deadline time.Time
	Args     []string // extra argv for workers (flags are re-parsed by the worker)
	Env      []string // extra environment
	MemKB    int64    // ulimit -v per worker (0 = none)
	// StallSec: a worker that writes nothing to its journal for this long (a case that spins or crawls) is killed
	// and the journalled case is treated like one that killed the process (0 = 180 s).  The only wall-clock
	// criterion in the pool; it is orders of magnitude above the normal time of a case.
	StallSec int
}

// Parent runs cases [0,total) over opt.Workers subprocesses and returns when all shards are done.
func Parent(total int, opt Options, sink Sink) error {
	if opt.Workers < 1 {
		opt.Workers = 1
	}
	if opt.Workers > total && total > 0 {
		opt.Workers = total
	}
	var mu sync.Mutex
	var wg sync.WaitGroup
	var firstErr error
	seenV := map[string]bool{}
	handle := func(line string, lastB *int, quiet bool) (done bool, stopped bool, upto int) {
		upto = -1
		tag, rest, _ := strings.Cut(line, " ")
		if quiet && (tag == "V" || tag == "S") {
			return
		}
		switch tag {
		case "B":
			*lastB, _ = strconv.Atoi(rest)
		case "V":
			var v Viol
			if json.Unmarshal([]byte(rest), &v) == nil {
				mu.Lock()
				k := strconv.Itoa(v.Idx) + "\x00" + v.Class + "\x00" + v.What
				if !seenV[k] {
					seenV[k] = true
					sink.Violation(&v)
				}
				mu.Unlock()
			}
		case "S":
			var s Stats
			if json.Unmarshal([]byte(rest), &s) == nil {
				mu.Lock()
				sink.Stats(&s)
				mu.Unlock()
				upto = s.Upto
				*lastB = -1
			}
		case "X":
			stopped = true
		case "D":
			done = true
		}
		return
	}
	// spawn runs one worker process to completion; returns (finished, deadlineStopped, flushedUpto, lastBegun, stderrTail)
	spawn := func(sp spec, quiet bool) (bool, bool, int, int, string) {
		b, _ := json.Marshal(sp)
		self, err := os.Executable()
		if err != nil {
			self = os.Args[0]
		}
		var cmd *exec.Cmd
		if opt.MemKB > 0 {
			sh := fmt.Sprintf("ulimit -v %d; exec \"$0\" \"$@\"", opt.MemKB)
			cmd = exec.Command("/bin/bash", append([]string{"-c", sh, self}, opt.Args...)...)
		} else {
			cmd = exec.Command(self, opt.Args...)
		}
		pr, pw, err := os.Pipe()
		if err != nil {
			return false, false, sp.From, -1, err.Error()
		}
		cmd.ExtraFiles = []*os.File{pw}
		cmd.Env = append(append(os.Environ(), envSpec+"="+string(b)), opt.Env...)
		cmd.Stdout = nil
		tail := &tailBuf{max: 4000}
		cmd.Stderr = tail
		if err := cmd.Start(); err != nil {
			pw.Close()
			pr.Close()
			return false, false, sp.From, -1, err.Error()
		}
		pw.Close()
		sc := bufio.NewScanner(pr)
		sc.Buffer(make([]byte, 1<<20), 64<<20)
		lastB, flushed, done, stopped := -1, sp.From, false, false
		stall := time.Duration(opt.StallSec) * time.Second
		if stall <= 0 {
			stall = 180 * time.Second
		}
		var stalled atomic.Bool
		watchdog := time.AfterFunc(stall, func() {
			stalled.Store(true)
			cmd.Process.Kill()
		})
		defer watchdog.Stop()
		for sc.Scan() {
			watchdog.Reset(stall)
			d, st, up := handle(sc.Text(), &lastB, quiet)
			if up >= 0 {
				flushed = up
			}
			done = done || d
			stopped = stopped || st
		}
		pr.Close()
		cmd.Wait()
		if stalled.Load() {
			return false, false, flushed, lastB, fmt.Sprintf("no progress for %v: worker killed by the stall watchdog | %s", stall, tail.String())
		}
		return done, stopped, flushed, lastB, tail.String()
	}
	for k := 0; k < opt.Workers; k++ {
		wg.Add(1)
		go func(k int) {
			defer wg.Done()
			sp := spec{Shard: k, Shards: opt.Workers, From: 0, To: total, Only: -1}
			if !opt.Deadline.IsZero() {
				sp.DeadlineUnix = opt.Deadline.UnixNano()
			}
			restarts := 0
			for {
				done, stopped, flushed, lastB, tail := spawn(sp, false)
				if stopped {
					mu.Lock()
					sink.Cap("internal deadline reached")
					mu.Unlock()
					return
				}
				if done {
					return
				}
				// the worker died
				if lastB < 0 {
					restarts++
					if restarts > 3 {
						mu.Lock()
						if firstErr == nil {
							firstErr = fmt.Errorf("worker %d dies outside any case: %s", k, tail)
						}
						mu.Unlock()
						return
					}
					sp.From = flushed
					continue
				}
				// re-run the journalled case alone 3x; if it survives, the culprit may be the case before it in this
				// shard (a foreign-goroutine panic can let the worker announce the next case before the process dies)
				culprit, lastTail := -1, tail
				cands := []int{lastB}
				if prev := lastB - opt.Workers; prev >= 0 {
					skipped := false
					for _, x := range sp.Skip {
						skipped = skipped || x == prev
					}
					if !skipped {
						cands = append(cands, prev)
					}
				}
				for _, cand := range cands {
					deaths := 0
					for a := 0; a < 3; a++ {
						d, _, _, _, t := spawn(spec{Shard: 0, Shards: 1, Only: cand, From: cand, To: cand + 1}, true)
						if !d {
							deaths++
							lastTail = t
						}
					}
					if deaths == 3 {
						culprit = cand
						break
					}
				}
				mu.Lock()
				if culprit >= 0 {
					sink.Crash(culprit, lastTail)
				} else if sink.Flaky != nil {
					sink.Flaky(lastB, tail)
				}
				mu.Unlock()
				if culprit < 0 {
					// not reproducible: run it once more, this time keeping its results
					spawn(spec{Shard: 0, Shards: 1, Only: lastB, From: lastB, To: lastB + 1}, false)
					culprit = lastB
				}
				lastB = culprit
				sp.From = flushed
				sp.Skip = append(sp.Skip, lastB)
				if len(sp.Skip) > 200 {
					mu.Lock()
					sink.Cap("more than 200 crashing cases in one shard; shard abandoned")
					mu.Unlock()
					return
				}
			}
		}(k)
	}
	wg.Wait()
	return firstErr
}

type tailBuf struct {
	mu  sync.Mutex
	b   []byte
	max int
}

func (t *tailBuf) Write(p []byte) (int, error) {
	t.mu.Lock()
	t.b = append(t.b, p...)
	if len(t.b) > 2*t.max {
		t.b = append([]byte(nil), t.b[len(t.b)-t.max:]...)
	}
	t.mu.Unlock()
	return len(p), nil
}

func (t *tailBuf) String() string {
	t.mu.Lock()
	defer t.mu.Unlock()
	b := t.b
	if len(b) > t.max {
		b = b[len(b)-t.max:]
	}
	return string(b)
}
