package fakeconn

import (
	"errors"
	"fmt"
	"strconv"
	"strings"
)

// ErrUnknownShape marks a statement the recogniser does not know: a harness error, never a verdict.
var ErrUnknownShape = errors.New("fakeconn: unknown statement shape")

func unknown(format string, a ...any) error {
	return fmt.Errorf("%w: %s", ErrUnknownShape, fmt.Sprintf(format, a...))
}

// QName is a possibly database-qualified object name.
type QName struct{ DB, Name string }

func (q QName) String() string {
	if q.DB != "" {
		return q.DB + "." + q.Name
	}
	return q.Name
}

// AlterCmd is one command of an ALTER TABLE.
type AlterCmd struct {
	Op          string // ADD_COLUMN | MODIFY_ORDER_BY | MODIFY_TTL | MODIFY_SETTING
	IfNotExists bool
	Col         Column
	After       string
	OrderBy     []string
	TTL         []TTLElem
	TTLText     string
	Settings    [][2]string
}

// InsertVal is one value of an INSERT … VALUES row.
type InsertVal struct {
	Text     string // literal value, or normalised expression text
	UsesNow  bool   // expression contains NOW()
	IsLit    bool
	IsNumber bool
}

// Stmt is a recognised statement.
type Stmt struct {
	Kind string // create_database create_table create_mv create_view drop rename alter insert
	// select show_tables show_create_database
	Text        string // normalised text
	IfNotExists bool
	IfExists    bool
	Name        QName
	OnCluster   string
	HasCluster  bool

	// create_table
	Cols        []Column
	Engine      string
	EngineArgs  []string
	PartitionBy string
	OrderBy     []string
	PrimaryKey  string
	TTL         []TTLElem
	Settings    [][2]string

	// create_mv / create_view
	To         QName
	Select     string
	From       QName
	SourceCols []string // identifiers of the SELECT that must resolve to columns of the source table

	// drop
	DropKind string // TABLE | VIEW

	// rename
	RenameTo QName

	// alter
	Cmds []AlterCmd

	// insert
	InsCols []string
	InsVals []InsertVal

	// select
	Items   []SelExpr
	Where   []Cmp
	GroupBy []string
	Having  []Cmp
	Format  string
}

// IsAlter reports whether the statement is an ALTER TABLE.
func (s *Stmt) IsAlter() bool { return s.Kind == "alter" }

type parser struct {
	src  string
	toks []token
	pos  int
}

func (p *parser) peek() token { return p.toks[p.pos] }
func (p *parser) next() token {
	t := p.toks[p.pos]
	if t.Kind != tEOF {
		p.pos++
	}
	return t
}
func (p *parser) isKw(t token, kw string) bool {
	return t.Kind == tIdent && strings.EqualFold(t.Val, kw)
}
func (p *parser) peekKw(kws ...string) bool {
	for i, kw := range kws {
		if p.pos+i >= len(p.toks) || !p.isKw(p.toks[p.pos+i], kw) {
			return false
		}
	}
	return true
}
func (p *parser) acceptKw(kws ...string) bool {
	if p.peekKw(kws...) {
		p.pos += len(kws)
		return true
	}
	return false
}
func (p *parser) expectKw(kws ...string) error {
	if !p.acceptKw(kws...) {
		return unknown("expected %s at %q", strings.Join(kws, " "), p.rest())
	}
	return nil
}
func (p *parser) peekPunct(v string) bool { t := p.peek(); return t.Kind == tPunct && t.Val == v }
func (p *parser) acceptPunct(v string) bool {
	if p.peekPunct(v) {
		p.pos++
		return true
	}
	return false
}
func (p *parser) expectPunct(v string) error {
	if !p.acceptPunct(v) {
		return unknown("expected %q at %q", v, p.rest())
	}
	return nil
}
func (p *parser) rest() string {
	s := p.src[p.peek().Start:]
	if len(s) > 60 {
		s = s[:60] + "…"
	}
	return s
}
func (p *parser) ident() (string, error) {
	t := p.peek()
	if t.Kind == tIdent || t.Kind == tQIdent {
		p.pos++
		return t.Val, nil
	}
	return "", unknown("expected identifier at %q", p.rest())
}
func (p *parser) qname() (QName, error) {
	a, err := p.ident()
	if err != nil {
		return QName{}, err
	}
	if p.peekPunct(".") {
		p.pos++
		b, err := p.ident()
		if err != nil {
			return QName{}, err
		}
		return QName{a, b}, nil
	}
	return QName{"", a}, nil
}
func (p *parser) onCluster(st *Stmt) error {
	if p.acceptKw("ON", "CLUSTER") {
		c, err := p.ident()
		if err != nil {
			return err
		}
		st.OnCluster, st.HasCluster = c, true
	}
	return nil
}
func (p *parser) end() error {
	p.acceptPunct(";")
	if p.peek().Kind != tEOF {
		return unknown("trailing input %q", p.rest())
	}
	return nil
}

// exprUntil consumes tokens up to (not including) the first token at parenthesis depth 0 for which stop is true
// (or EOF / ';') and returns them.
func (p *parser) exprUntil(stop func(t token, i int) bool) []token {
	depth := 0
	start := p.pos
	for {
		t := p.peek()
		if t.Kind == tEOF {
			break
		}
		if depth == 0 {
			if t.Kind == tPunct && (t.Val == ")" || t.Val == "]" || t.Val == ";") {
				break
			}
			if stop(t, p.pos) {
				break
			}
		}
		if t.Kind == tPunct {
			switch t.Val {
			case "(", "[":
				depth++
			case ")", "]":
				depth--
			}
		}
		p.pos++
	}
	return p.toks[start:p.pos]
}

func kwStop(kws ...string) func(token, int) bool {
	return func(t token, _ int) bool {
		if t.Kind != tIdent {
			return false
		}
		for _, k := range kws {
			if strings.EqualFold(t.Val, k) {
				return true
			}
		}
		return false
	}
}

// bindArgs substitutes $n parameters (clickhouse-go positional binding: strings quoted, numbers verbatim).
func bindArgs(toks []token, args []any) ([]token, error) {
	out := make([]token, 0, len(toks))
	for _, t := range toks {
		if t.Kind != tParam {
			out = append(out, t)
			continue
		}
		n, _ := strconv.Atoi(t.Val)
		if n < 1 || n > len(args) {
			return nil, fmt.Errorf("have no arg for $%d", n) // what clickhouse-go's bind reports
		}
		switch v := args[n-1].(type) {
		case string:
			out = append(out, token{tString, v, t.Start, t.End})
		case int:
			out = append(out, token{tNumber, strconv.FormatInt(int64(v), 10), t.Start, t.End})
		case int32:
			out = append(out, token{tNumber, strconv.FormatInt(int64(v), 10), t.Start, t.End})
		case int64:
			out = append(out, token{tNumber, strconv.FormatInt(v, 10), t.Start, t.End})
		case uint:
			out = append(out, token{tNumber, strconv.FormatUint(uint64(v), 10), t.Start, t.End})
		case uint32:
			out = append(out, token{tNumber, strconv.FormatUint(uint64(v), 10), t.Start, t.End})
		case uint64:
			out = append(out, token{tNumber, strconv.FormatUint(v, 10), t.Start, t.End})
		default:
			return nil, unknown("bind argument of type %T", v)
		}
	}
	return out, nil
}

// Parse recognises one statement (after binding args).
func Parse(query string, args ...any) (*Stmt, error) {
	toks, err := lex(query)
	if err != nil {
		return nil, unknown("%v in %q", err, query)
	}
	hasParam := false
	for _, t := range toks {
		if t.Kind == tParam {
			hasParam = true
		}
	}
	if hasParam {
		toks, err = bindArgs(toks, args)
		if err != nil {
			return nil, err
		}
	} else if len(args) > 0 {
		return nil, unknown("%d args but no placeholders in %q", len(args), query)
	}
	p := &parser{src: query, toks: toks}
	st, err := p.statement()
	if err != nil {
		return nil, fmt.Errorf("%w\n  statement: %s", err, query)
	}
	st.Text = norm(toks)
	return st, nil
}

func (p *parser) statement() (*Stmt, error) {
	switch {
	case p.acceptKw("CREATE", "DATABASE"):
		return p.createDatabase()
	case p.acceptKw("CREATE", "TABLE"):
		return p.createTable()
	case p.acceptKw("CREATE", "MATERIALIZED", "VIEW"):
		return p.createView(true)
	case p.acceptKw("CREATE", "VIEW"):
		return p.createView(false)
	case p.acceptKw("DROP", "TABLE"):
		return p.drop("TABLE")
	case p.acceptKw("DROP", "VIEW"):
		return p.drop("VIEW")
	case p.acceptKw("RENAME", "TABLE"):
		return p.rename()
	case p.acceptKw("ALTER", "TABLE"):
		return p.alter()
	case p.acceptKw("INSERT", "INTO"):
		return p.insert()
	case p.acceptKw("SHOW", "TABLES"):
		return &Stmt{Kind: "show_tables"}, p.end()
	case p.acceptKw("SHOW", "CREATE", "DATABASE"):
		n, err := p.ident()
		if err != nil {
			return nil, err
		}
		return &Stmt{Kind: "show_create_database", Name: QName{"", n}}, p.end()
	case p.acceptKw("SELECT"):
		return p.selectStmt()
	}
	return nil, unknown("statement starts with %q", p.rest())
}

func (p *parser) ifNotExists() bool { return p.acceptKw("IF", "NOT", "EXISTS") }
func (p *parser) ifExists() bool    { return p.acceptKw("IF", "EXISTS") }

func (p *parser) createDatabase() (*Stmt, error) {
	st := &Stmt{Kind: "create_database"}
	st.IfNotExists = p.ifNotExists()
	n, err := p.ident()
	if err != nil {
		return nil, err
	}
	st.Name = QName{"", n}
	if err := p.onCluster(st); err != nil {
		return nil, err
	}
	return st, p.end()
}

var knownEngines = map[string]bool{
	"MergeTree": true, "ReplacingMergeTree": true, "AggregatingMergeTree": true,
	"ReplicatedMergeTree": true, "ReplicatedReplacingMergeTree": true, "ReplicatedAggregatingMergeTree": true,
	"Distributed": true, "Merge": true, "Null": true,
}

func (p *parser) createTable() (*Stmt, error) {
	st := &Stmt{Kind: "create_table"}
	st.IfNotExists = p.ifNotExists()
	var err error
	if st.Name, err = p.qname(); err != nil {
		return nil, err
	}
	if err = p.onCluster(st); err != nil {
		return nil, err
	}
	if err = p.expectPunct("("); err != nil {
		return nil, err
	}
	for {
		c, err := p.columnDef()
		if err != nil {
			return nil, err
		}
		st.Cols = append(st.Cols, c)
		if p.acceptPunct(",") {
			continue
		}
		break
	}
	if err = p.expectPunct(")"); err != nil {
		return nil, err
	}
	if err = p.expectKw("ENGINE"); err != nil {
		return nil, err
	}
	p.acceptPunct("=")
	if st.Engine, err = p.ident(); err != nil {
		return nil, err
	}
	if !knownEngines[st.Engine] {
		return nil, unknown("table engine %q", st.Engine)
	}
	if p.acceptPunct("(") {
		for !p.peekPunct(")") {
			a := p.exprUntil(func(t token, _ int) bool { return t.Kind == tPunct && t.Val == "," })
			if len(a) == 0 {
				return nil, unknown("empty engine argument at %q", p.rest())
			}
			st.EngineArgs = append(st.EngineArgs, argText(a))
			if !p.acceptPunct(",") {
				break
			}
		}
		if err = p.expectPunct(")"); err != nil {
			return nil, err
		}
	}
	clauseStop := kwStop("PARTITION", "ORDER", "PRIMARY", "SAMPLE", "TTL", "SETTINGS")
	for {
		switch {
		case p.acceptKw("PARTITION", "BY"):
			st.PartitionBy = norm(p.exprUntil(clauseStop))
		case p.acceptKw("ORDER", "BY"):
			st.OrderBy = keyList(p.exprUntil(clauseStop))
		case p.acceptKw("PRIMARY", "KEY"):
			st.PrimaryKey = norm(p.exprUntil(clauseStop))
		case p.acceptKw("TTL"):
			ts := p.exprUntil(kwStop("SETTINGS"))
			if st.TTL, err = parseTTL(ts); err != nil {
				return nil, err
			}
		case p.acceptKw("SETTINGS"):
			if st.Settings, err = p.settingsList(); err != nil {
				return nil, err
			}
		default:
			return st, p.end()
		}
	}
}

// argText: engine arguments: a string literal is kept by value, anything else as normalised text.
func argText(ts []token) string {
	if len(ts) == 1 && ts[0].Kind == tString {
		return ts[0].Val
	}
	if len(ts) == 1 && ts[0].Kind == tQIdent {
		return ts[0].Val
	}
	return norm(ts)
}

// keyList splits a sorting key "(a, b, f(c))" or "a" into its elements.
func keyList(ts []token) []string {
	if len(ts) >= 2 && ts[0].Kind == tPunct && ts[0].Val == "(" && ts[len(ts)-1].Kind == tPunct && ts[len(ts)-1].Val == ")" {
		// make sure the parentheses match each other
		depth, wraps := 0, true
		for i, t := range ts {
			if t.Kind == tPunct && t.Val == "(" {
				depth++
			}
			if t.Kind == tPunct && t.Val == ")" {
				depth--
				if depth == 0 && i != len(ts)-1 {
					wraps = false
				}
			}
		}
		if wraps {
			ts = ts[1 : len(ts)-1]
		}
	}
	var out []string
	depth, start := 0, 0
	for i, t := range ts {
		if t.Kind == tPunct {
			switch t.Val {
			case "(", "[":
				depth++
			case ")", "]":
				depth--
			case ",":
				if depth == 0 {
					out = append(out, argText(ts[start:i]))
					start = i + 1
				}
			}
		}
	}
	if start < len(ts) {
		out = append(out, argText(ts[start:]))
	}
	return out
}

func (p *parser) settingsList() ([][2]string, error) {
	var out [][2]string
	for {
		k, err := p.ident()
		if err != nil {
			return nil, err
		}
		if err := p.expectPunct("="); err != nil {
			return nil, err
		}
		v := p.next()
		if v.Kind != tString && v.Kind != tNumber {
			return nil, unknown("setting value %q", v.String())
		}
		out = append(out, [2]string{k, v.Val})
		// another "k = v" pair follows only if the shape is ", ident ="
		if p.peekPunct(",") && p.pos+2 < len(p.toks) && p.toks[p.pos+1].Kind == tIdent &&
			p.toks[p.pos+2].Kind == tPunct && p.toks[p.pos+2].Val == "=" {
			p.pos++
			continue
		}
		return out, nil
	}
}

var colAttrStop = kwStop("DEFAULT", "MATERIALIZED", "ALIAS", "CODEC", "TTL", "COMMENT", "AFTER", "FIRST")

// columnDef: name type [DEFAULT|MATERIALIZED|ALIAS expr] [CODEC(...)]
func (p *parser) columnDef() (Column, error) {
	var c Column
	var err error
	if p.peekKw("INDEX") || p.peekKw("CONSTRAINT") || p.peekKw("PROJECTION") {
		return c, unknown("table element %q", p.rest())
	}
	if c.Name, err = p.ident(); err != nil {
		return c, err
	}
	stopComma := func(t token, i int) bool {
		return (t.Kind == tPunct && t.Val == ",") || colAttrStop(t, i)
	}
	ty := p.exprUntil(stopComma)
	if len(ty) == 0 {
		return c, unknown("column %s has no type at %q", c.Name, p.rest())
	}
	c.Type = norm(ty)
	for {
		switch {
		case p.peekKw("DEFAULT") || p.peekKw("MATERIALIZED") || p.peekKw("ALIAS"):
			c.DefaultKind = strings.ToUpper(p.next().Val)
			e := p.exprUntil(stopComma)
			if len(e) == 0 {
				return c, unknown("empty default expression at %q", p.rest())
			}
			c.DefaultExpr = norm(e)
		case p.acceptKw("CODEC"):
			if err := p.expectPunct("("); err != nil {
				return c, err
			}
			c.Codec = norm(p.exprUntil(func(token, int) bool { return false }))
			if err := p.expectPunct(")"); err != nil {
				return c, err
			}
		case p.peekKw("TTL") || p.peekKw("COMMENT"):
			return c, unknown("column attribute %q", p.rest())
		default:
			return c, nil
		}
	}
}

// parseTTL: list of  <expr> + toInterval<Unit>(n) [DELETE | TO DISK 'd' | TO VOLUME 'v'].
func parseTTL(ts []token) ([]TTLElem, error) {
	var out []TTLElem
	// split on depth-0 commas
	depth, start := 0, 0
	var parts [][]token
	for i, t := range ts {
		if t.Kind == tPunct {
			switch t.Val {
			case "(", "[":
				depth++
			case ")", "]":
				depth--
			case ",":
				if depth == 0 {
					parts = append(parts, ts[start:i])
					start = i + 1
				}
			}
		}
	}
	parts = append(parts, ts[start:])
	for _, part := range parts {
		if len(part) == 0 {
			return nil, unknown("empty TTL element in %q", norm(ts))
		}
		e := TTLElem{Action: "DELETE"}
		// action suffix
		n := len(part)
		switch {
		case n >= 3 && part[n-3].Kind == tIdent && strings.EqualFold(part[n-3].Val, "TO") && part[n-2].Kind == tIdent &&
			(strings.EqualFold(part[n-2].Val, "DISK") || strings.EqualFold(part[n-2].Val, "VOLUME")) && part[n-1].Kind == tString:
			e.Action = strings.ToUpper(part[n-2].Val) + ":" + part[n-1].Val
			part = part[:n-3]
		case n >= 1 && part[n-1].Kind == tIdent && strings.EqualFold(part[n-1].Val, "DELETE"):
			part = part[:n-1]
		}
		// trailing  + toIntervalX ( n )
		n = len(part)
		if n < 6 || !(part[n-1].Kind == tPunct && part[n-1].Val == ")") || part[n-2].Kind != tNumber {
			return nil, unknown("TTL element %q", norm(part))
		}
		neg := false
		numTok := part[n-2]
		open := n - 3
		if part[open].Kind == tPunct && part[open].Val == "-" {
			neg = true
			open--
		}
		if open < 2 || !(part[open].Kind == tPunct && part[open].Val == "(") || part[open-1].Kind != tIdent ||
			!(part[open-2].Kind == tPunct && part[open-2].Val == "+") {
			return nil, unknown("TTL element %q", norm(part))
		}
		var mult int64
		switch strings.ToLower(part[open-1].Val) {
		case "tointervalsecond":
			mult = 1
		case "tointervalminute":
			mult = 60
		case "tointervalhour":
			mult = 3600
		case "tointervalday":
			mult = 86400
		default:
			return nil, unknown("TTL interval function %q", part[open-1].Val)
		}
		v, err := strconv.ParseInt(numTok.Val, 10, 64)
		if err != nil {
			return nil, unknown("TTL interval %q", numTok.Val)
		}
		if neg {
			v = -v
		}
		e.Seconds = v * mult
		e.Base = norm(part[:open-2])
		if e.Base == "" {
			return nil, unknown("TTL element %q has no base expression", norm(part))
		}
		out = append(out, e)
	}
	return out, nil
}

var selectKeywords = map[string]bool{"select": true, "from": true, "as": true, "array": true, "join": true,
	"group": true, "by": true, "where": true, "and": true, "or": true, "not": true}

func (p *parser) createView(mv bool) (*Stmt, error) {
	st := &Stmt{Kind: "create_view"}
	if mv {
		st.Kind = "create_mv"
	}
	st.IfNotExists = p.ifNotExists()
	var err error
	if st.Name, err = p.qname(); err != nil {
		return nil, err
	}
	if err = p.onCluster(st); err != nil {
		return nil, err
	}
	if mv {
		if err = p.expectKw("TO"); err != nil {
			return nil, err // MV with an inner table (ENGINE …) does not occur
		}
		if st.To, err = p.qname(); err != nil {
			return nil, err
		}
	}
	if err = p.expectKw("AS"); err != nil {
		return nil, err
	}
	if !p.peekKw("SELECT") {
		return nil, unknown("expected SELECT at %q", p.rest())
	}
	start := p.pos
	sel := p.exprUntil(func(token, int) bool { return false })
	st.Select = norm(sel)
	if err = p.end(); err != nil {
		return nil, err
	}
	if err = analyseSelect(st, p.toks[start:start+len(sel)]); err != nil {
		return nil, err
	}
	return st, nil
}

// analyseSelect finds the single source table of a view SELECT and the identifiers that must be columns of it.
// Shape: SELECT list FROM [db.]t [AS a | a] [ARRAY JOIN expr [AS a]] [GROUP BY list]
func analyseSelect(st *Stmt, ts []token) error {
	fromIdx := -1
	depth := 0
	for i, t := range ts {
		if t.Kind == tPunct && (t.Val == "(" || t.Val == "[") {
			depth++
		}
		if t.Kind == tPunct && (t.Val == ")" || t.Val == "]") {
			depth--
		}
		if depth == 0 && t.Kind == tIdent && strings.EqualFold(t.Val, "FROM") {
			if fromIdx >= 0 {
				return unknown("view SELECT with two FROM: %s", norm(ts))
			}
			fromIdx = i
		}
		if t.Kind == tIdent && (strings.EqualFold(t.Val, "UNION") || strings.EqualFold(t.Val, "WHERE") ||
			strings.EqualFold(t.Val, "PREWHERE") || strings.EqualFold(t.Val, "HAVING") || strings.EqualFold(t.Val, "LIMIT")) {
			return unknown("view SELECT clause %s", t.Val)
		}
		if t.Kind == tIdent && strings.EqualFold(t.Val, "JOIN") && !(i > 0 && strings.EqualFold(ts[i-1].Val, "ARRAY")) {
			return unknown("view SELECT with JOIN")
		}
	}
	if fromIdx < 0 {
		return unknown("view SELECT without FROM: %s", norm(ts))
	}
	// source
	i := fromIdx + 1
	if i >= len(ts) || (ts[i].Kind != tIdent && ts[i].Kind != tQIdent) {
		return unknown("view SELECT source at %s", norm(ts[fromIdx:]))
	}
	src := QName{"", ts[i].Val}
	i++
	if i+1 < len(ts) && ts[i].Kind == tPunct && ts[i].Val == "." {
		src = QName{src.Name, ts[i+1].Val}
		i += 2
	}
	st.From = src
	qualifiers := map[string]bool{src.Name: true} // names that qualify source columns
	aliases := map[string]bool{}                  // aliases defined anywhere in the SELECT
	lambdas := map[string]bool{}
	if i < len(ts) && ts[i].Kind == tIdent && strings.EqualFold(ts[i].Val, "AS") && i+1 < len(ts) {
		qualifiers[ts[i+1].Val] = true
		i += 2
	} else if i < len(ts) && ts[i].Kind == tIdent && !selectKeywords[strings.ToLower(ts[i].Val)] {
		qualifiers[ts[i].Val] = true
		i++
	}
	for j, t := range ts {
		if t.Kind == tIdent && strings.EqualFold(t.Val, "AS") && j+1 < len(ts) && !(j > fromIdx && j < i) {
			aliases[ts[j+1].Val] = true
		}
		if t.Kind == tIdent && j+1 < len(ts) && ts[j+1].Kind == tPunct && ts[j+1].Val == "->" {
			lambdas[t.Val] = true
		}
	}
	seen := map[string]bool{}
	for j, t := range ts {
		if t.Kind != tIdent && t.Kind != tQIdent {
			continue
		}
		if t.Kind == tIdent && selectKeywords[strings.ToLower(t.Val)] {
			continue
		}
		if j >= fromIdx+1 && j < i { // the source name / alias itself
			continue
		}
		prevDot := j > 0 && ts[j-1].Kind == tPunct && ts[j-1].Val == "."
		nextDot := j+1 < len(ts) && ts[j+1].Kind == tPunct && ts[j+1].Val == "."
		nextParen := j+1 < len(ts) && ts[j+1].Kind == tPunct && ts[j+1].Val == "("
		prevAs := j > 0 && ts[j-1].Kind == tIdent && strings.EqualFold(ts[j-1].Val, "AS")
		if nextParen || prevAs || lambdas[t.Val] {
			continue
		}
		if prevDot {
			q := ts[j-2]
			if qualifiers[q.Val] {
				if !seen[t.Val] {
					seen[t.Val] = true
					st.SourceCols = append(st.SourceCols, t.Val)
				}
			}
			continue
		}
		if nextDot {
			if qualifiers[t.Val] || aliases[t.Val] {
				continue
			}
			// <column>.N on an array-joined column, e.g. tags.1
			if j+2 < len(ts) && ts[j+2].Kind == tNumber {
				if !seen[t.Val] {
					seen[t.Val] = true
					st.SourceCols = append(st.SourceCols, t.Val)
				}
				continue
			}
			return unknown("qualifier %q in view SELECT", t.Val)
		}
		if aliases[t.Val] {
			continue
		}
		if !seen[t.Val] {
			seen[t.Val] = true
			st.SourceCols = append(st.SourceCols, t.Val)
		}
	}
	return nil
}

func (p *parser) drop(kind string) (*Stmt, error) {
	st := &Stmt{Kind: "drop", DropKind: kind}
	st.IfExists = p.ifExists()
	var err error
	if st.Name, err = p.qname(); err != nil {
		return nil, err
	}
	if err = p.onCluster(st); err != nil {
		return nil, err
	}
	p.acceptKw("SYNC")
	return st, p.end()
}

func (p *parser) rename() (*Stmt, error) {
	st := &Stmt{Kind: "rename"}
	st.IfExists = p.ifExists()
	var err error
	if st.Name, err = p.qname(); err != nil {
		return nil, err
	}
	if err = p.expectKw("TO"); err != nil {
		return nil, err
	}
	if st.RenameTo, err = p.qname(); err != nil {
		return nil, err
	}
	if p.peekPunct(",") {
		return nil, unknown("multi-table RENAME")
	}
	if err = p.onCluster(st); err != nil {
		return nil, err
	}
	return st, p.end()
}

var alterCmdStart = kwStop("ADD", "MODIFY", "DROP", "MATERIALIZE", "CLEAR", "RENAME", "COMMENT", "UPDATE", "DELETE", "ALTER")

func (p *parser) alter() (*Stmt, error) {
	st := &Stmt{Kind: "alter"}
	var err error
	if st.Name, err = p.qname(); err != nil {
		return nil, err
	}
	if err = p.onCluster(st); err != nil {
		return nil, err
	}
	for {
		paren := p.acceptPunct("(")
		cmd, err := p.alterCmd()
		if err != nil {
			return nil, err
		}
		st.Cmds = append(st.Cmds, cmd)
		if paren {
			if err := p.expectPunct(")"); err != nil {
				return nil, err
			}
		}
		if p.acceptPunct(",") {
			continue
		}
		break
	}
	return st, p.end()
}

func (p *parser) alterCmd() (AlterCmd, error) {
	var c AlterCmd
	cmdSep := func(t token, i int) bool {
		// a comma that is followed by the start of another command (or "(")
		if t.Kind == tPunct && t.Val == "," && i+1 < len(p.toks) {
			n := p.toks[i+1]
			return alterCmdStart(n, i+1) || (n.Kind == tPunct && n.Val == "(")
		}
		return false
	}
	switch {
	case p.acceptKw("ADD", "COLUMN"):
		c.Op = "ADD_COLUMN"
		c.IfNotExists = p.ifNotExists()
		var err error
		if c.Col.Name, err = p.ident(); err != nil {
			return c, err
		}
		stop := func(t token, i int) bool { return cmdSep(t, i) || colAttrStop(t, i) }
		ty := p.exprUntil(stop)
		if len(ty) == 0 {
			return c, unknown("ADD COLUMN %s without type at %q", c.Col.Name, p.rest())
		}
		c.Col.Type = norm(ty)
		for {
			switch {
			case p.peekKw("DEFAULT") || p.peekKw("MATERIALIZED") || p.peekKw("ALIAS"):
				c.Col.DefaultKind = strings.ToUpper(p.next().Val)
				e := p.exprUntil(stop)
				if len(e) == 0 {
					return c, unknown("empty default expression at %q", p.rest())
				}
				c.Col.DefaultExpr = norm(e)
			case p.acceptKw("CODEC"):
				if err := p.expectPunct("("); err != nil {
					return c, err
				}
				c.Col.Codec = norm(p.exprUntil(func(token, int) bool { return false }))
				if err := p.expectPunct(")"); err != nil {
					return c, err
				}
			case p.acceptKw("AFTER"):
				if c.After, err = p.ident(); err != nil {
					return c, err
				}
			case p.peekKw("FIRST") || p.peekKw("TTL") || p.peekKw("COMMENT"):
				return c, unknown("ADD COLUMN attribute %q", p.rest())
			default:
				return c, nil
			}
		}
	case p.acceptKw("MODIFY", "ORDER", "BY"):
		c.Op = "MODIFY_ORDER_BY"
		e := p.exprUntil(cmdSep)
		if len(e) == 0 {
			return c, unknown("empty ORDER BY at %q", p.rest())
		}
		c.OrderBy = keyList(e)
		return c, nil
	case p.acceptKw("MODIFY", "TTL"):
		c.Op = "MODIFY_TTL"
		e := p.exprUntil(cmdSep)
		var err error
		c.TTLText = norm(e)
		c.TTL, err = parseTTL(e)
		return c, err
	case p.acceptKw("MODIFY", "SETTING"):
		c.Op = "MODIFY_SETTING"
		var err error
		c.Settings, err = p.settingsList()
		return c, err
	}
	return c, unknown("ALTER command %q", p.rest())
}

func (p *parser) insert() (*Stmt, error) {
	st := &Stmt{Kind: "insert"}
	var err error
	if st.Name, err = p.qname(); err != nil {
		return nil, err
	}
	if err = p.expectPunct("("); err != nil {
		return nil, err
	}
	for {
		c, err := p.ident()
		if err != nil {
			return nil, err
		}
		st.InsCols = append(st.InsCols, c)
		if !p.acceptPunct(",") {
			break
		}
	}
	if err = p.expectPunct(")"); err != nil {
		return nil, err
	}
	if err = p.expectKw("VALUES"); err != nil {
		return nil, err // INSERT … SELECT does not occur in the maintenance code
	}
	if err = p.expectPunct("("); err != nil {
		return nil, err
	}
	for {
		e := p.exprUntil(func(t token, _ int) bool { return t.Kind == tPunct && t.Val == "," })
		if len(e) == 0 {
			return nil, unknown("empty value at %q", p.rest())
		}
		v := InsertVal{}
		if len(e) == 1 && (e[0].Kind == tString || e[0].Kind == tNumber) {
			v.Text, v.IsLit, v.IsNumber = e[0].Val, true, e[0].Kind == tNumber
		} else {
			// function-call expression over literals: only known functions
			for i, t := range e {
				if t.Kind == tIdent {
					switch strings.ToLower(t.Val) {
					case "now":
						v.UsesNow = true
					case "cityhash64", "tostring", "tounixtimestamp":
					default:
						return nil, unknown("function %q in INSERT value", t.Val)
					}
					if i+1 >= len(e) || !(e[i+1].Kind == tPunct && e[i+1].Val == "(") {
						return nil, unknown("identifier %q in INSERT value", t.Val)
					}
				} else if t.Kind == tQIdent || t.Kind == tParam {
					return nil, unknown("INSERT value %q", norm(e))
				}
			}
			v.Text = norm(e)
		}
		st.InsVals = append(st.InsVals, v)
		if !p.acceptPunct(",") {
			break
		}
	}
	if err = p.expectPunct(")"); err != nil {
		return nil, err
	}
	if p.peekPunct(",") {
		return nil, unknown("multi-row INSERT")
	}
	if len(st.InsCols) != len(st.InsVals) {
		return nil, unknown("INSERT with %d columns and %d values", len(st.InsCols), len(st.InsVals))
	}
	return st, p.end()
}

// ---------------------------------------------------------------------------------------------------------------
// SELECT: a small real parser for single-table aggregate / projection queries, understood by what they compute:
//
//	SELECT item [[AS] alias] {, item …} FROM [db.]t [[AS] alias]
//	  [WHERE pred] [GROUP BY col{, col} | (col{, col})] [HAVING pred] [FORMAT name] [;]
//	item    := col | agg(args)            agg ∈ max min any argMax argMin count (names are case-insensitive)
//	pred    := cmp {AND cmp} | (pred)     cmp := operand (= | == | != | <>) operand
//	operand := col | agg(args) | literal  (exactly one side of a cmp is a literal)
//
// Anything else (joins, subqueries, OR, ORDER BY, LIMIT, arithmetic …) is an unknown shape.

// SelExpr is a column reference or an aggregate call.
type SelExpr struct {
	Func  string   // "" for a plain column; lower-cased aggregate name otherwise
	Args  []string // column names ("*" / a literal for count)
	Alias string
	Text  string // normalised text (the result column name when there is no alias)
}

// Cmp is one comparison  <expr> (= | !=) <literal>.
type Cmp struct {
	L     SelExpr
	Neq   bool
	Val   string
	IsNum bool
}

var aggArity = map[string][2]int{"max": {1, 1}, "min": {1, 1}, "any": {1, 1}, "argmax": {2, 2}, "argmin": {2, 2}, "count": {0, 1}}

var selectClauseKw = map[string]bool{"from": true, "where": true, "group": true, "having": true, "format": true, "order": true,
	"limit": true, "settings": true, "union": true, "join": true, "prewhere": true, "as": true, "and": true, "or": true, "final": true,
	"array": true, "left": true, "inner": true, "global": true, "any": false}

func (p *parser) selExpr() (SelExpr, error) {
	start := p.pos
	t := p.peek()
	if t.Kind != tIdent && t.Kind != tQIdent {
		return SelExpr{}, unknown("SELECT expression at %q", p.rest())
	}
	p.pos++
	var e SelExpr
	if t.Kind == tIdent && p.peekPunct("(") {
		fn := strings.ToLower(t.Val)
		ar, ok := aggArity[fn]
		if !ok {
			return e, unknown("function %q in SELECT", t.Val)
		}
		p.pos++
		e.Func = fn
		for !p.peekPunct(")") {
			a := p.next()
			switch {
			case a.Kind == tIdent || a.Kind == tQIdent:
				e.Args = append(e.Args, a.Val)
			case fn == "count" && (a.Kind == tNumber || (a.Kind == tPunct && a.Val == "*")):
				e.Args = append(e.Args, "*")
			default:
				return e, unknown("argument %q of %s()", a.String(), t.Val)
			}
			if !p.acceptPunct(",") {
				break
			}
		}
		if err := p.expectPunct(")"); err != nil {
			return e, err
		}
		if len(e.Args) < ar[0] || len(e.Args) > ar[1] {
			return e, unknown("%s() with %d arguments", t.Val, len(e.Args))
		}
	} else {
		if t.Kind == tIdent && selectClauseKw[strings.ToLower(t.Val)] {
			return e, unknown("SELECT expression at %q", p.src[t.Start:])
		}
		e.Args = []string{t.Val}
	}
	e.Text = norm(p.toks[start:p.pos])
	return e, nil
}

// predicate parses  cmp {AND cmp}  with optional parentheses around the whole and around each comparison.
func (p *parser) predicate() ([]Cmp, error) {
	var out []Cmp
	for {
		if p.acceptPunct("(") {
			in, err := p.predicate()
			if err != nil {
				return nil, err
			}
			if err := p.expectPunct(")"); err != nil {
				return nil, err
			}
			out = append(out, in...)
		} else {
			c, err := p.comparison()
			if err != nil {
				return nil, err
			}
			out = append(out, c)
		}
		if p.acceptKw("AND") {
			continue
		}
		if p.peekKw("OR") || p.peekKw("NOT") {
			return nil, unknown("predicate operator at %q", p.rest())
		}
		return out, nil
	}
}

func (p *parser) comparison() (Cmp, error) {
	var c Cmp
	lit := func() (string, bool, bool) {
		t := p.peek()
		if t.Kind == tString || t.Kind == tNumber {
			p.pos++
			return t.Val, t.Kind == tNumber, true
		}
		return "", false, false
	}
	lv, lnum, lIsLit := lit()
	var err error
	if !lIsLit {
		if c.L, err = p.selExpr(); err != nil {
			return c, err
		}
	}
	op := p.next()
	if op.Kind != tPunct {
		return c, unknown("comparison operator %q", op.String())
	}
	switch op.Val {
	case "=", "==":
	case "!=", "<>":
		c.Neq = true
	default:
		return c, unknown("comparison operator %q", op.Val)
	}
	if lIsLit {
		c.Val, c.IsNum = lv, lnum
		if c.L, err = p.selExpr(); err != nil {
			return c, err
		}
		return c, nil
	}
	rv, rnum, ok := lit()
	if !ok {
		return c, unknown("comparison of two expressions at %q", p.rest())
	}
	c.Val, c.IsNum = rv, rnum
	return c, nil
}

func (p *parser) selectStmt() (*Stmt, error) {
	st := &Stmt{Kind: "select"}
	if p.peekKw("DISTINCT") {
		return nil, unknown("SELECT DISTINCT")
	}
	for {
		e, err := p.selExpr()
		if err != nil {
			return nil, err
		}
		if p.acceptKw("AS") {
			if e.Alias, err = p.ident(); err != nil {
				return nil, err
			}
		} else if t := p.peek(); (t.Kind == tIdent && !selectClauseKw[strings.ToLower(t.Val)]) || t.Kind == tQIdent {
			e.Alias = t.Val
			p.pos++
		}
		st.Items = append(st.Items, e)
		if !p.acceptPunct(",") {
			break
		}
	}
	if err := p.expectKw("FROM"); err != nil {
		return nil, err
	}
	var err error
	if st.Name, err = p.qname(); err != nil {
		return nil, err
	}
	if p.acceptKw("AS") {
		if _, err = p.ident(); err != nil {
			return nil, err
		}
	}
	if p.acceptKw("WHERE") {
		if st.Where, err = p.predicate(); err != nil {
			return nil, err
		}
		for _, c := range st.Where {
			if c.L.Func != "" {
				return nil, unknown("aggregate %s in WHERE", c.L.Text)
			}
		}
	}
	if p.acceptKw("GROUP", "BY") {
		paren := p.acceptPunct("(")
		for {
			c, err := p.ident()
			if err != nil {
				return nil, err
			}
			st.GroupBy = append(st.GroupBy, c)
			if !p.acceptPunct(",") {
				break
			}
		}
		if paren {
			if err := p.expectPunct(")"); err != nil {
				return nil, err
			}
		}
	}
	if p.acceptKw("HAVING") {
		if st.Having, err = p.predicate(); err != nil {
			return nil, err
		}
	}
	if p.acceptKw("FORMAT") {
		if st.Format, err = p.ident(); err != nil {
			return nil, err
		}
	}
	return st, p.end()
}

// WhereEq returns the literal a column is compared with for equality in WHERE (top-level conjunction).
func (s *Stmt) WhereEq(col string) (string, bool) {
	for _, c := range s.Where {
		if !c.Neq && c.L.Func == "" && len(c.L.Args) == 1 && c.L.Args[0] == col {
			return c.Val, true
		}
	}
	return "", false
}

// IsRead reports whether the statement only reads (SELECT / SHOW).
func (s *Stmt) IsRead() bool {
	return s.Kind == "select" || s.Kind == "show_tables" || s.Kind == "show_create_database"
}

// InsertValue returns the value given for a column by an INSERT … VALUES statement.
func (s *Stmt) InsertValue(col string) (InsertVal, bool) {
	for i, c := range s.InsCols {
		if c == col && i < len(s.InsVals) {
			return s.InsVals[i], true
		}
	}
	return InsertVal{}, false
}

// ParseTTLText parses a TTL expression list ("a + toIntervalSecond(60) TO DISK 'd', a + toIntervalDay(7)").
func ParseTTLText(text string) ([]TTLElem, error) {
	ts, err := lex(text)
	if err != nil {
		return nil, err
	}
	return parseTTL(ts[:len(ts)-1])
}

// Idents returns the bare identifiers of an expression that are not function names.
func Idents(expr string) []string { return identsOf(expr) }

// HasColumn reports whether the table has a column of that name.
func (t *Table) HasColumn(name string) bool { return t.col(name) >= 0 }
