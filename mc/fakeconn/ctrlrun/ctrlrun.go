// Package ctrlrun drives the real database-initialisation entry points of the repository — ctrl.Init and
// ctrl.Rotate, exactly what main.go's initDB calls — against a fakeconn process.  It needs the build overlay
// produced by mc/fakeconn/mkhook.py (ConnectV2 consults maintenance.VerifConnect), i.e. it only builds through
// bin/check with the prepare.sh of c18/c19.
package ctrlrun

import (
	"fmt"
	"io"
	"strconv"
	"sync"
	"sync/atomic"

	clickhouse "github.com/ClickHouse/clickhouse-go/v2"
	clconfig "github.com/metrico/cloki-config"
	"github.com/metrico/cloki-config/config"
	"github.com/metrico/qryn/ctrl"
	"github.com/metrico/qryn/ctrl/logger"
	shared "github.com/metrico/qryn/ctrl/maintenance"
	"github.com/sirupsen/logrus"

	"verif/mc/fakeconn"
)

// Policy is one tier move of the retention configuration (config file: ttl_policy / move_to).
type Policy struct {
	Timeout string `json:"timeout"`
	MoveTo  string `json:"move_to"`
}

// Config is the part of config.ClokiBaseDataBase the maintenance code reads.
type Config struct {
	Name                  string   `json:"name"` // label of the configuration in reports
	DB                    string   `json:"db"`
	Cloud                 bool     `json:"cloud"`
	Cluster               string   `json:"cluster"`
	TTLDays               int      `json:"ttl_days"`
	StoragePolicy         string   `json:"storage_policy"`
	SamplesOrdering       string   `json:"samples_ordering"`
	SkipUnavailableShards bool     `json:"skip_unavailable_shards"`
	TTLPolicy             []Policy `json:"ttl_policy"`
}

var (
	procs sync.Map // host -> *fakeconn.Proc
	seq   atomic.Int64
)

func init() {
	logger.Logger.SetOutput(io.Discard)
	logger.Logger.SetLevel(logrus.PanicLevel)
	shared.VerifConnect = func(dbObject *config.ClokiBaseDataBase, database bool) (clickhouse.Conn, error) {
		v, ok := procs.Load(dbObject.Host)
		if !ok {
			return nil, fmt.Errorf("ctrlrun: no fake process registered for host %q", dbObject.Host)
		}
		db := ""
		if database {
			db = dbObject.Name
		}
		return v.(*fakeconn.Proc).Connect(db), nil
	}
}

func (c Config) cloki(host string) *clconfig.ClokiConfig {
	d := config.ClokiBaseDataBase{Name: c.DB, Host: host, Port: 9000, Node: "n1", Cloud: c.Cloud, ClusterName: c.Cluster,
		TTLDays: c.TTLDays, StoragePolicy: c.StoragePolicy, SamplesOrdering: c.SamplesOrdering,
		SkipUnavailableShards: c.SkipUnavailableShards}
	for _, p := range c.TTLPolicy {
		d.TTLPolicy = append(d.TTLPolicy, struct {
			Timeout string `json:"ttl_policy" mapstructure:"ttl_policy" default:""`
			MoveTo  string `json:"move_to" mapstructure:"move_to" default:""`
		}{p.Timeout, p.MoveTo})
	}
	return &clconfig.ClokiConfig{Setting: &config.ClokiBaseSettingServer{DATABASE_DATA: []config.ClokiBaseDataBase{d}}}
}

func run(p *fakeconn.Proc, c Config, f func(*clconfig.ClokiConfig, string) error) (err error, panicked bool) {
	host := "fake-" + strconv.FormatInt(seq.Add(1), 10)
	procs.Store(host, p)
	defer procs.Delete(host)
	defer func() {
		if r := recover(); r != nil {
			panicked = true
			if e, ok := r.(error); ok {
				err = e
			} else {
				err = fmt.Errorf("panic: %v", r)
			}
		}
	}()
	return f(c.cloki(host), "qryn"), false
}

// Init runs ctrl.Init (CREATE DATABASE + all migration streams).  A panic (ctrl.Init panics when InitDB fails)
// is the death of the process: reported as error with panicked=true.
func Init(p *fakeconn.Proc, c Config) (error, bool) { return run(p, c, ctrl.Init) }

// Rotate runs ctrl.Rotate (InitDB + retention settings).
func Rotate(p *fakeconn.Proc, c Config) (error, bool) { return run(p, c, ctrl.Rotate) }
