package fakeconn

import (
	"context"
	"errors"
	"fmt"
	"reflect"
	"strconv"
	"sync"

	"github.com/ClickHouse/clickhouse-go/v2/lib/driver"
)

// Pos is the position of an injected fault relative to the effect of the statement.
type Pos int

const (
	// ErrBefore: the statement returns an error and has no effect; the connection stays usable.
	ErrBefore Pos = iota
	// ErrAfter: the effect is applied, then an error is returned (e.g. a distributed DDL timeout that still went
	// through); the connection stays usable.
	ErrAfter
	// KillAfter: the effect is applied, the process is killed before anything else happens: the call returns an
	// error and every later statement of this process fails without effect.
	KillAfter
	// KillBefore: killed right before the statement: no effect, every later statement fails without effect.
	KillBefore
	// FailNext: the statement is applied and succeeds, the *next* statement (typically the version INSERT)
	// fails without effect.  Same as ErrBefore at index+1; kept as a named variant.
	FailNext
)

func (p Pos) String() string {
	return [...]string{"err_before", "err_after", "kill_after", "kill_before", "fail_next"}[p]
}

// Fault is one injected fault: Index counts the statements (Exec and Query) of the process from 0.
type Fault struct {
	Index int `json:"index"`
	Pos   Pos `json:"pos"`
}

// InjectedError is what a faulted statement returns.
type InjectedError struct {
	Index int
	Pos   Pos
	Dead  bool // returned by statements after a kill
}

func (e *InjectedError) Error() string {
	if e.Dead {
		return fmt.Sprintf("fakeconn: process was killed at statement %d", e.Index)
	}
	return fmt.Sprintf("fakeconn: injected fault %s at statement %d", e.Pos, e.Index)
}

// Entry is one statement of the log.
type Entry struct {
	Index   int
	Conn    string // current database of the connection ("" = none)
	IsQuery bool
	SQL     string // as sent by the code under test
	Args    []any
	Stmt    *Stmt // nil when the statement was not recognised
	// Target is the table the statement reads or changes, resolved against the catalogue at the time of the
	// statement: the local table for a SELECT from / INSERT into a Distributed table, the unqualified name otherwise.
	Target  string
	Applied bool  // the effect was applied (Exec) / the result was produced (Query)
	Changed bool  // Exec only: the canonical state differs from before
	Err     error // what the call returned
}

// Proc models one process run against the server: a statement counter and log shared by all connections the
// process opens, a fault plan, and the dead flag.
type Proc struct {
	St         *State
	Faults     []Fault
	Log        []*Entry
	Dead       bool
	HarnessErr error // first unknown statement shape / unsupported driver call
	KilledAt   int
	// TrackChange makes Exec compare canonical states before/after (costly; off by default).
	TrackChange bool
	// OnApplied, when set, is called right after the effect of a statement was applied (before an "after"
	// fault makes the call return an error): lets an oracle look at the state at that very moment.
	OnApplied func(e *Entry)
}

// NewProc starts a process on the given state (which it mutates).
func NewProc(st *State, faults ...Fault) *Proc {
	p := &Proc{St: st, KilledAt: -1}
	for _, f := range faults {
		if f.Pos == FailNext {
			f = Fault{f.Index + 1, ErrBefore}
		}
		p.Faults = append(p.Faults, f)
	}
	return p
}

// Connect opens a connection with the given current database ("" = none).
func (p *Proc) Connect(database string) *Conn { return &Conn{p: p, db: database} }

func (p *Proc) harness(err error) error {
	if p.HarnessErr == nil {
		p.HarnessErr = err
	}
	return err
}

func (p *Proc) faultAt(i int) (Fault, bool) {
	for _, f := range p.Faults {
		if f.Index == i {
			return f, true
		}
	}
	return Fault{}, false
}

var parseCache sync.Map // sql text (+ rendered args and their types) -> *Stmt, read-only once stored

func parseCached(q string, args []any) (*Stmt, error) {
	key := q
	if len(args) > 0 {
		key = fmt.Sprintf("%s\x00%T%v", q, args, args)
		for _, a := range args {
			key += fmt.Sprintf("\x00%T", a)
		}
	}
	if v, ok := parseCache.Load(key); ok {
		return v.(*Stmt), nil
	}
	st, err := Parse(q, args...)
	if err == nil {
		parseCache.Store(key, st)
	}
	return st, err
}

// do runs one statement through the fault plan.
func (p *Proc) do(db string, isQuery bool, q string, args []any) (*Entry, []string, []string, [][]string) {
	e := &Entry{Index: len(p.Log), Conn: db, IsQuery: isQuery, SQL: q, Args: args}
	p.Log = append(p.Log, e)
	if p.Dead {
		e.Err = &InjectedError{Index: p.KilledAt, Dead: true}
		return e, nil, nil, nil
	}
	st, err := parseCached(q, args)
	if err != nil {
		if errors.Is(err, ErrUnknownShape) {
			p.harness(err)
		}
		e.Err = err
		return e, nil, nil, nil
	}
	e.Stmt = st
	if st.Kind == "select" {
		if t, terr := p.St.ReadTarget(db, st.Name); terr == nil {
			e.Target = t.Name
		}
	} else if !st.IsRead() {
		e.Target = p.St.WriteTarget(db, st)
	}
	f, faulted := p.faultAt(e.Index)
	if faulted && (f.Pos == ErrBefore || f.Pos == KillBefore) {
		if f.Pos == KillBefore {
			p.Dead, p.KilledAt = true, e.Index
		}
		e.Err = &InjectedError{Index: e.Index, Pos: f.Pos}
		return e, nil, nil, nil
	}
	var cols, types []string
	var rows [][]string
	if isQuery {
		if !st.IsRead() {
			e.Err = p.harness(unknown("Query() with a %s statement", st.Kind))
			return e, nil, nil, nil
		}
		cols, types, rows, err = p.St.Query(db, st)
	} else {
		if st.IsRead() {
			e.Err = p.harness(unknown("Exec() with a %s statement", st.Kind))
			return e, nil, nil, nil
		}

		var before string
		if p.TrackChange {
			before = p.St.Canon()
		}
		err = p.St.Exec(db, st)
		if p.TrackChange && err == nil {
			e.Changed = before != p.St.Canon()
		}
	}
	if err != nil {
		if errors.Is(err, ErrUnknownShape) {
			p.harness(err)
		}
		e.Err = err
		return e, nil, nil, nil
	}
	e.Applied = true
	if p.OnApplied != nil {
		p.OnApplied(e)
	}
	if faulted {
		if f.Pos == KillAfter {
			p.Dead, p.KilledAt = true, e.Index
		}
		e.Err = &InjectedError{Index: e.Index, Pos: f.Pos}
		return e, nil, nil, nil
	}
	return e, cols, types, rows
}

// Conn implements driver.Conn over a Proc.
type Conn struct {
	p  *Proc
	db string
}

var _ driver.Conn = (*Conn)(nil)

func (c *Conn) Contributors() []string { return nil }
func (c *Conn) ServerVersion() (*driver.ServerVersion, error) {
	return nil, c.p.harness(unknown("driver call ServerVersion"))
}
func (c *Conn) Select(ctx context.Context, dest any, query string, args ...any) error {
	return c.p.harness(unknown("driver call Select(%q)", query))
}
func (c *Conn) PrepareBatch(ctx context.Context, query string, opts ...driver.PrepareBatchOption) (driver.Batch, error) {
	return nil, c.p.harness(unknown("driver call PrepareBatch(%q)", query))
}
func (c *Conn) AsyncInsert(ctx context.Context, query string, wait bool, args ...any) error {
	return c.p.harness(unknown("driver call AsyncInsert(%q)", query))
}
func (c *Conn) Ping(context.Context) error {
	if c.p.Dead {
		return &InjectedError{Index: c.p.KilledAt, Dead: true}
	}
	return nil
}
func (c *Conn) Stats() driver.Stats { return driver.Stats{} }
func (c *Conn) Close() error        { return nil }

func (c *Conn) Exec(ctx context.Context, query string, args ...any) error {
	e, _, _, _ := c.p.do(c.db, false, query, args)
	return e.Err
}

func (c *Conn) Query(ctx context.Context, query string, args ...any) (driver.Rows, error) {
	e, cols, types, rows := c.p.do(c.db, true, query, args)
	if e.Err != nil {
		return nil, e.Err
	}
	return &Rows{p: c.p, cols: cols, types: types, rows: rows, i: -1}, nil
}

func (c *Conn) QueryRow(ctx context.Context, query string, args ...any) driver.Row {
	e, cols, types, rows := c.p.do(c.db, true, query, args)
	return &row{err: e.Err, r: &Rows{p: c.p, cols: cols, types: types, rows: rows, i: -1}}
}

type row struct {
	err error
	r   *Rows
}

func (r *row) Err() error { return r.err }
func (r *row) Scan(dest ...any) error {
	if r.err != nil {
		return r.err
	}
	if !r.r.Next() {
		return errors.New("sql: no rows in result set")
	}
	return r.r.Scan(dest...)
}
func (r *row) ScanStruct(dest any) error { return r.r.p.harness(unknown("driver call ScanStruct")) }

// Rows is the result of a Query.
type Rows struct {
	p     *Proc
	cols  []string
	types []string
	rows  [][]string
	i     int
}

func (r *Rows) Next() bool {
	if r.i+1 >= len(r.rows) {
		r.i = len(r.rows)
		return false
	}
	r.i++
	return true
}

// Scan converts like clickhouse-go: a UInt64 column scans into *uint64, a String column into *string; anything
// else is the driver's conversion error.
func (r *Rows) Scan(dest ...any) error {
	if r.i < 0 || r.i >= len(r.rows) {
		return errors.New("clickhouse: Scan called without a current row") // clickhouse-go panics / errors here
	}
	row := r.rows[r.i]
	if len(dest) != len(row) {
		return fmt.Errorf("clickhouse: expected %d destination arguments in Scan, not %d", len(row), len(dest))
	}
	for i, d := range dest {
		switch r.types[i] {
		case "UInt64":
			p, ok := d.(*uint64)
			if !ok {
				return fmt.Errorf("clickhouse: converting UInt64 to %T is unsupported", d)
			}
			v, _ := strconv.ParseUint(row[i], 10, 64)
			*p = v
		case "UInt32", "UInt16", "UInt8":
			v, _ := strconv.ParseUint(row[i], 10, 64)
			switch p := d.(type) {
			case *uint32:
				if r.types[i] != "UInt32" {
					return fmt.Errorf("clickhouse: converting %s to %T is unsupported", r.types[i], d)
				}
				*p = uint32(v)
			case *uint16:
				if r.types[i] != "UInt16" {
					return fmt.Errorf("clickhouse: converting %s to %T is unsupported", r.types[i], d)
				}
				*p = uint16(v)
			case *uint8:
				if r.types[i] != "UInt8" {
					return fmt.Errorf("clickhouse: converting %s to %T is unsupported", r.types[i], d)
				}
				*p = uint8(v)
			default:
				return fmt.Errorf("clickhouse: converting %s to %T is unsupported", r.types[i], d)
			}
		case "String":
			p, ok := d.(*string)
			if !ok {
				return fmt.Errorf("clickhouse: converting String to %T is unsupported", d)
			}
			*p = row[i]
		default:
			return r.p.harness(unknown("result column type %s", r.types[i]))
		}
	}
	return nil
}
func (r *Rows) ScanStruct(dest any) error { return r.p.harness(unknown("driver call ScanStruct")) }
func (r *Rows) ColumnTypes() []driver.ColumnType {
	r.p.harness(unknown("driver call ColumnTypes"))
	return nil
}
func (r *Rows) Totals(dest ...any) error { return r.p.harness(unknown("driver call Totals")) }
func (r *Rows) Columns() []string        { return r.cols }
func (r *Rows) Close() error             { return nil }
func (r *Rows) Err() error               { return nil }

var _ = reflect.TypeOf
