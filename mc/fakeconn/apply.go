package fakeconn

import (
	"fmt"
	"strconv"
	"strings"
)

// CHError is an error the modelled server answers with (the real statement semantics refused the statement).
type CHError struct {
	Code  int
	Name  string // ClickHouse error name, e.g. UNKNOWN_TABLE
	Table string // object concerned (unqualified)
	Msg   string
}

func (e *CHError) Error() string {
	return fmt.Sprintf("code: %d, message: %s (%s)", e.Code, e.Msg, e.Name)
}

func chErr(code int, name, table, format string, a ...any) *CHError {
	return &CHError{Code: code, Name: name, Table: table, Msg: fmt.Sprintf(format, a...)}
}

// resolve a name against the connection's current database.
func (s *State) resolve(cur string, q QName) (db string, tbl string, err error) {
	db = q.DB
	if db == "" {
		db = cur
	}
	if db == "" {
		return "", "", chErr(81, "UNKNOWN_DATABASE", q.Name, "Database name is empty (no current database)")
	}
	if _, ok := s.DBs[db]; !ok {
		return "", "", chErr(81, "UNKNOWN_DATABASE", q.Name, "Database %s does not exist", db)
	}
	return db, q.Name, nil
}

func (s *State) checkCluster(st *Stmt) error {
	if st.HasCluster && !s.Clusters[st.OnCluster] {
		return chErr(701, "CLUSTER_DOESNT_EXIST", st.Name.Name, "Requested cluster '%s' not found", st.OnCluster)
	}
	return nil
}

// identsOf returns the bare identifiers of a normalised expression that are not function names.
func identsOf(expr string) []string {
	ts, err := lex(expr)
	if err != nil {
		return nil
	}
	var out []string
	for i, t := range ts {
		if t.Kind != tIdent && t.Kind != tQIdent {
			continue
		}
		if i+1 < len(ts) && ts[i+1].Kind == tPunct && ts[i+1].Val == "(" {
			continue
		}
		out = append(out, t.Val)
	}
	return out
}

// Exec applies a recognised non-SELECT statement to the state.  cur is the connection's current database.
// Either the whole statement is applied or nothing is (ClickHouse applies all commands of one ALTER atomically to
// the table metadata).
func (s *State) Exec(cur string, st *Stmt) error {
	if err := s.checkCluster(st); err != nil {
		return err
	}
	switch st.Kind {
	case "create_database":
		if _, ok := s.DBs[st.Name.Name]; ok {
			if st.IfNotExists {
				return nil
			}
			return chErr(82, "DATABASE_ALREADY_EXISTS", st.Name.Name, "Database %s already exists", st.Name.Name)
		}
		s.DBs[st.Name.Name] = map[string]*Table{}
		return nil
	case "create_table":
		return s.createTable(cur, st)
	case "create_mv", "create_view":
		return s.createView(cur, st)
	case "drop":
		db, n, err := s.resolve(cur, st.Name)
		if err != nil {
			return err
		}
		t := s.DBs[db][n]
		if t == nil {
			if st.IfExists {
				return nil
			}
			return chErr(60, "UNKNOWN_TABLE", n, "Table %s.%s does not exist", db, n)
		}
		if st.DropKind == "VIEW" && t.Kind == "table" {
			return chErr(48, "NOT_IMPLEMENTED", n, "Table %s.%s is not a View", db, n)
		}
		delete(s.DBs[db], n)
		return nil
	case "rename":
		db, n, err := s.resolve(cur, st.Name)
		if err != nil {
			return err
		}
		db2, n2, err := s.resolve(cur, st.RenameTo)
		if err != nil {
			return err
		}
		t := s.DBs[db][n]
		if t == nil {
			if st.IfExists {
				return nil
			}
			return chErr(60, "UNKNOWN_TABLE", n, "Table %s.%s does not exist", db, n)
		}
		if s.DBs[db2][n2] != nil {
			return chErr(57, "TABLE_ALREADY_EXISTS", n2, "Table %s.%s already exists", db2, n2)
		}
		c := t.clone()
		c.Name = n2
		c.seal(db2)
		delete(s.DBs[db], n)
		s.DBs[db2][n2] = c
		return nil
	case "alter":
		return s.alter(cur, st)
	case "insert":
		return s.insert(cur, st)
	}
	return unknown("Exec of statement kind %s", st.Kind)
}

// seal finishes a (new or mutated, still private) table before it is published in a state: canonical text and digest.
func (t *Table) seal(db string) *Table {
	t.db = db
	t.canon = ""
	t.canon = t.schemaCanon()
	t.digest()
	return t
}

func (s *State) createTable(cur string, st *Stmt) error {
	db, n, err := s.resolve(cur, st.Name)
	if err != nil {
		return err
	}
	if s.DBs[db][n] != nil {
		if st.IfNotExists {
			return nil
		}
		return chErr(57, "TABLE_ALREADY_EXISTS", n, "Table %s.%s already exists", db, n)
	}
	t := &Table{Name: n, Kind: "table", Columns: append([]Column(nil), st.Cols...), Engine: st.Engine,
		EngineArgs: append([]string(nil), st.EngineArgs...), PartitionBy: st.PartitionBy,
		OrderBy: append([]string(nil), st.OrderBy...), PrimaryKey: st.PrimaryKey, TTL: append([]TTLElem(nil), st.TTL...),
		Settings: map[string]string{}}
	seen := map[string]bool{}
	for _, c := range t.Columns {
		if seen[c.Name] {
			return chErr(15, "DUPLICATE_COLUMN", n, "Column %s already exists", c.Name)
		}
		seen[c.Name] = true
	}
	mt := t.IsMergeTree()
	switch {
	case mt:
		if len(st.OrderBy) == 0 && st.PrimaryKey == "" {
			return chErr(36, "BAD_ARGUMENTS", n, "You must provide an ORDER BY or PRIMARY KEY expression in the table definition")
		}
		for _, k := range append(append([]string{}, st.OrderBy...), st.PartitionBy) {
			for _, id := range identsOf(k) {
				if !seen[id] {
					return chErr(47, "UNKNOWN_IDENTIFIER", n, "Missing columns: '%s' while processing key expression %s", id, k)
				}
			}
		}
		// version column of Replacing engines
		if strings.HasSuffix(t.Engine, "ReplacingMergeTree") && len(t.EngineArgs) > 0 && !seen[t.EngineArgs[len(t.EngineArgs)-1]] {
			return chErr(16, "NO_SUCH_COLUMN_IN_TABLE", n, "Version column %s does not exist in table declaration", t.EngineArgs[len(t.EngineArgs)-1])
		}
		t.Settings["index_granularity"] = "8192" // always materialised into the stored definition by ClickHouse
	case t.Engine == "Distributed":
		if len(t.EngineArgs) < 3 {
			return chErr(42, "NUMBER_OF_ARGUMENTS_DOESNT_MATCH", n, "Storage Distributed requires 3 to 5 parameters")
		}
		if !s.Clusters[t.EngineArgs[0]] {
			return chErr(701, "CLUSTER_DOESNT_EXIST", n, "Requested cluster '%s' not found", t.EngineArgs[0])
		}
		if len(st.OrderBy) > 0 || st.PartitionBy != "" || len(st.TTL) > 0 {
			return chErr(36, "BAD_ARGUMENTS", n, "Engine Distributed doesn't support PARTITION BY / ORDER BY / TTL clauses")
		}
	default: // Merge, Null
		if len(st.OrderBy) > 0 || st.PartitionBy != "" || len(st.TTL) > 0 {
			return chErr(36, "BAD_ARGUMENTS", n, "Engine %s doesn't support PARTITION BY / ORDER BY / TTL clauses", t.Engine)
		}
		if len(st.Settings) > 0 {
			return chErr(36, "BAD_ARGUMENTS", n, "Engine %s doesn't support SETTINGS clause", t.Engine)
		}
	}
	for _, kv := range st.Settings {
		if err := checkSetting(t, kv[0], kv[1], true); err != nil {
			return err
		}
		t.Settings[kv[0]] = kv[1]
	}
	if err := checkTTL(t, t.TTL); err != nil {
		return err
	}
	s.DBs[db][n] = t.seal(db)
	return nil
}

var mergeTreeSettings = map[string]bool{"storage_policy": true, "ttl_only_drop_parts": true, "merge_with_ttl_timeout": true,
	"index_granularity": true}
var distributedSettings = map[string]bool{"skip_unavailable_shards": true}

func checkSetting(t *Table, k, v string, create bool) error {
	switch {
	case t.IsMergeTree():
		if !mergeTreeSettings[k] {
			return unknown("MergeTree setting %q", k)
		}
		if k == "index_granularity" && !create {
			if cur := t.Settings[k]; cur != v {
				return chErr(472, "READONLY_SETTING", t.Name, "Setting 'index_granularity' is readonly for storage '%s'", t.Engine)
			}
		}
		if k != "storage_policy" {
			if _, err := strconv.ParseUint(v, 10, 64); err != nil {
				return chErr(27, "CANNOT_PARSE_INPUT_ASSERTION_FAILED", t.Name, "Cannot parse value %q of setting %s", v, k)
			}
		}
	case t.Engine == "Distributed":
		if !create {
			return chErr(48, "NOT_IMPLEMENTED", t.Name, "Alter of type 'MODIFY_SETTING' is not supported by storage Distributed")
		}
		if !distributedSettings[k] {
			return unknown("Distributed setting %q", k)
		}
	default:
		return chErr(48, "NOT_IMPLEMENTED", t.Name, "Engine %s doesn't support SETTINGS", t.Engine)
	}
	return nil
}

func checkTTL(t *Table, ttl []TTLElem) error {
	if len(ttl) == 0 {
		return nil
	}
	if !t.IsMergeTree() {
		return chErr(36, "BAD_ARGUMENTS", t.Name, "Engine %s doesn't support TTL clause", t.Engine)
	}
	deletes := 0
	for _, e := range ttl {
		if e.Action == "DELETE" {
			deletes++
		}
		for _, id := range identsOf(e.Base) {
			if t.col(id) < 0 {
				return chErr(47, "UNKNOWN_IDENTIFIER", t.Name, "Missing columns: '%s' while processing TTL expression", id)
			}
		}
	}
	if deletes > 1 {
		return chErr(36, "BAD_TTL_EXPRESSION", t.Name, "More than one DELETE TTL expression without WHERE expression is not allowed")
	}
	return nil
}

func (s *State) createView(cur string, st *Stmt) error {
	db, n, err := s.resolve(cur, st.Name)
	if err != nil {
		return err
	}
	if s.DBs[db][n] != nil {
		if st.IfNotExists {
			return nil
		}
		return chErr(57, "TABLE_ALREADY_EXISTS", n, "Table %s.%s already exists", db, n)
	}
	sdb, sn, err := s.resolve(cur, st.From)
	if err != nil {
		return err
	}
	src := s.DBs[sdb][sn]
	if src == nil {
		return chErr(60, "UNKNOWN_TABLE", sn, "Table %s.%s does not exist (source of view %s)", sdb, sn, n)
	}
	for _, c := range st.SourceCols {
		if src.col(c) < 0 {
			return chErr(47, "UNKNOWN_IDENTIFIER", sn, "Missing columns: '%s' while processing query of view %s (source %s)", c, n, sn)
		}
	}
	t := &Table{Name: n, Kind: "view", Engine: "View", From: sn, Select: st.Select, Settings: map[string]string{}}
	if st.Kind == "create_mv" {
		t.Kind, t.Engine = "mv", "MaterializedView"
		tdb, tn, err := s.resolve(cur, st.To)
		if err != nil {
			return err
		}
		if tdb != db {
			return unknown("materialized view target in another database")
		}
		t.To = tn
		// ClickHouse does not require the target table to exist at creation time.
	}
	s.DBs[db][n] = t.seal(db)
	return nil
}

func (s *State) alter(cur string, st *Stmt) error {
	db, n, err := s.resolve(cur, st.Name)
	if err != nil {
		return err
	}
	old := s.DBs[db][n]
	if old == nil {
		return chErr(60, "UNKNOWN_TABLE", n, "Table %s.%s does not exist", db, n)
	}
	if old.Kind != "table" {
		return chErr(48, "NOT_IMPLEMENTED", n, "Alter is not supported by storage %s", old.Engine)
	}
	t := old.clone()
	added := map[string]bool{}
	var newKey []string
	for _, c := range st.Cmds {
		switch c.Op {
		case "ADD_COLUMN":
			if t.col(c.Col.Name) >= 0 {
				if c.IfNotExists {
					continue
				}
				return chErr(15, "DUPLICATE_COLUMN", n, "Cannot add column %s: column with this name already exists", c.Col.Name)
			}
			if c.Col.DefaultKind != "" {
				for _, id := range identsOf(c.Col.DefaultExpr) {
					if t.col(id) < 0 {
						return chErr(47, "UNKNOWN_IDENTIFIER", n, "Missing columns: '%s' while processing default expression of column %s", id, c.Col.Name)
					}
				}
			}
			if c.After != "" {
				i := t.col(c.After)
				if i < 0 {
					return chErr(10, "NOT_FOUND_COLUMN_IN_BLOCK", n, "Wrong column name. Cannot find column %s to insert after", c.After)
				}
				t.Columns = append(t.Columns[:i+1], append([]Column{c.Col}, t.Columns[i+1:]...)...)
			} else {
				t.Columns = append(t.Columns, c.Col)
			}
			added[c.Col.Name] = true
		case "MODIFY_ORDER_BY":
			if !t.IsMergeTree() {
				return chErr(48, "NOT_IMPLEMENTED", n, "Alter of type 'MODIFY_ORDER_BY' is not supported by storage %s", t.Engine)
			}
			newKey = c.OrderBy
		case "MODIFY_TTL":
			if !t.IsMergeTree() {
				return chErr(48, "NOT_IMPLEMENTED", n, "Alter of type 'MODIFY_TTL' is not supported by storage %s", t.Engine)
			}
			if err := checkTTL(t, c.TTL); err != nil {
				return err
			}
			t.TTL = append([]TTLElem(nil), c.TTL...)
		case "MODIFY_SETTING":
			for _, kv := range c.Settings {
				if err := checkSetting(t, kv[0], kv[1], false); err != nil {
					return err
				}
				t.Settings[kv[0]] = kv[1]
			}
		default:
			return unknown("ALTER command %s", c.Op)
		}
	}
	if newKey != nil {
		// MergeTreeData::checkProperties: the old sorting key must be a prefix of the new one and appended
		// expressions may only use columns added by the same ALTER, without default expressions.
		if len(newKey) < len(t.OrderBy) {
			return chErr(36, "BAD_ARGUMENTS", n, "Existing sorting key columns cannot be removed")
		}
		for i, k := range t.OrderBy {
			if newKey[i] != k {
				return chErr(36, "BAD_ARGUMENTS", n, "Existing column %s of the sorting key cannot be changed or reordered", k)
			}
		}
		for _, k := range newKey[len(t.OrderBy):] {
			for _, id := range identsOf(k) {
				if !added[id] {
					if t.col(id) < 0 {
						return chErr(47, "UNKNOWN_IDENTIFIER", n, "Missing columns: '%s' while processing sorting key", id)
					}
					return chErr(36, "BAD_ARGUMENTS", n, "Existing column %s is used in the expression that was added to the sorting key. You can add expressions that use only the newly added columns", id)
				}
				if c := t.Columns[t.col(id)]; c.DefaultKind != "" {
					return chErr(36, "BAD_ARGUMENTS", n, "Newly added column %s has a default expression, so adding expressions that use it to the sorting key is forbidden", id)
				}
			}
		}
		t.OrderBy = append([]string(nil), newKey...)
	}
	s.DBs[db][n] = t.seal(db)
	return nil
}

// evalInsertVal evaluates an INSERT value: literals by value; NOW() and expressions over NOW() on the logical
// clock; other function calls over literals symbolically (their normalised text: injective, which is all that is
// needed of cityHash64 here).
func (s *State) evalInsertVal(v InsertVal, now int64) string {
	if v.IsLit {
		return v.Text
	}
	if v.UsesNow {
		return ClockPrefix + strconv.FormatInt(now, 10)
	}
	return v.Text
}

func (s *State) insert(cur string, st *Stmt) error {
	db, n, err := s.resolve(cur, st.Name)
	if err != nil {
		return err
	}
	t := s.DBs[db][n]
	if t == nil {
		return chErr(60, "UNKNOWN_TABLE", n, "Table %s.%s does not exist", db, n)
	}
	if t.Kind != "table" {
		return unknown("INSERT into a %s", t.Kind)
	}
	target := t
	if t.Engine == "Distributed" {
		if target, err = s.distTarget(t); err != nil {
			return err
		}
		db = t.EngineArgs[1]
	}
	if !target.IsMergeTree() {
		return unknown("INSERT into engine %s", target.Engine)
	}
	for _, mv := range s.DBs[db] {
		if mv.Kind == "mv" && mv.From == target.Name {
			return unknown("INSERT into %s which feeds materialized view %s", target.Name, mv.Name)
		}
	}
	now := s.Clock
	usesNow := false
	row := make([]string, len(target.Columns))
	set := make([]bool, len(target.Columns))
	for i, c := range st.InsCols {
		j := target.col(c)
		if j < 0 || t.col(c) < 0 {
			return chErr(16, "NO_SUCH_COLUMN_IN_TABLE", n, "No such column %s in table %s", c, n)
		}
		v := st.InsVals[i]
		if v.UsesNow {
			usesNow = true
		}
		ty := target.Columns[j].Type
		if strings.HasPrefix(ty, "UInt") && v.IsLit && !v.IsNumber {
			return chErr(6, "CANNOT_PARSE_TEXT", n, "Cannot parse string %q as %s", v.Text, ty)
		}
		row[j] = s.evalInsertVal(v, now)
		set[j] = true
	}
	for j := range row {
		if !set[j] {
			if strings.HasPrefix(target.Columns[j].Type, "UInt") || strings.HasPrefix(target.Columns[j].Type, "Int") {
				row[j] = "0"
			}
		}
	}
	if usesNow {
		s.Clock++
	}
	m := s.mutable(db, target.Name)
	m.Rows = append(m.Rows, row)
	m.Rows = m.collapsedRows()
	m.canon = target.canon // rows are not part of the schema text
	m.digest()
	return nil
}

// distTarget resolves a Distributed table to its local table (single shard model: the rows are those of the
// local table).
func (s *State) distTarget(t *Table) (*Table, error) {
	if !s.Clusters[t.EngineArgs[0]] {
		return nil, chErr(701, "CLUSTER_DOESNT_EXIST", t.Name, "Requested cluster '%s' not found", t.EngineArgs[0])
	}
	tdb := s.DBs[t.EngineArgs[1]]
	if tdb == nil {
		return nil, chErr(81, "UNKNOWN_DATABASE", t.Name, "Database %s does not exist", t.EngineArgs[1])
	}
	lt := tdb[t.EngineArgs[2]]
	if lt == nil {
		return nil, chErr(60, "UNKNOWN_TABLE", t.EngineArgs[2], "Table %s.%s does not exist (remote of %s)", t.EngineArgs[1], t.EngineArgs[2], t.Name)
	}
	return lt, nil
}

// ReadTarget resolves the table a SELECT reads (a Distributed table to its local table).
func (s *State) ReadTarget(cur string, q QName) (*Table, error) {
	db, n, err := s.resolve(cur, q)
	if err != nil {
		return nil, err
	}
	t := s.DBs[db][n]
	if t == nil {
		return nil, chErr(60, "UNKNOWN_TABLE", n, "Table %s.%s does not exist", db, n)
	}
	if t.Engine == "Distributed" {
		return s.distTarget(t)
	}
	if t.Kind != "table" || !(t.IsMergeTree()) {
		return nil, unknown("SELECT from %s %s (engine %s)", t.Kind, t.Name, t.Engine)
	}
	return t, nil
}

func numericType(ty string) bool {
	return strings.HasPrefix(ty, "UInt") || strings.HasPrefix(ty, "Int")
}

// cmpValues: equality of a stored value and a literal (numbers by value).
func sameValue(stored, lit string, numeric bool) bool {
	if numeric {
		a, ea := strconv.ParseUint(stored, 10, 64)
		b, eb := strconv.ParseUint(lit, 10, 64)
		if ea == nil && eb == nil {
			return a == b
		}
	}
	return stored == lit
}

// evalAgg computes one aggregate over the rows of a group; an empty group yields the type's default.
func evalAgg(t *Table, e SelExpr, rows [][]string) (val, typ string, err error) {
	colIdx := func(name string) (int, error) {
		i := t.col(name)
		if i < 0 {
			return -1, chErr(47, "UNKNOWN_IDENTIFIER", t.Name, "Missing columns: '%s' while processing query", name)
		}
		return i, nil
	}
	def := func(ty string) string {
		if numericType(ty) {
			return "0"
		}
		return ""
	}
	switch e.Func {
	case "count":
		return strconv.Itoa(len(rows)), "UInt64", nil
	case "max", "min", "any":
		i, err := colIdx(e.Args[0])
		if err != nil {
			return "", "", err
		}
		ty := t.Columns[i].Type
		if len(rows) == 0 {
			return def(ty), ty, nil
		}
		best := rows[0][i]
		for _, r := range rows[1:] {
			if (e.Func == "max" && lessVersion(best, r[i])) || (e.Func == "min" && lessVersion(r[i], best)) {
				best = r[i]
			}
		}
		return best, ty, nil
	case "argmax", "argmin":
		vi, err := colIdx(e.Args[0])
		if err != nil {
			return "", "", err
		}
		ki, err := colIdx(e.Args[1])
		if err != nil {
			return "", "", err
		}
		ty := t.Columns[vi].Type
		if len(rows) == 0 {
			return def(ty), ty, nil
		}
		best := rows[0]
		for _, r := range rows[1:] { // the first extremum is kept
			if (e.Func == "argmax" && lessVersion(best[ki], r[ki])) || (e.Func == "argmin" && lessVersion(r[ki], best[ki])) {
				best = r
			}
		}
		return best[vi], ty, nil
	}
	return "", "", unknown("aggregate %s", e.Func)
}

// selectRows evaluates a parsed SELECT over the (resolved) table.
func (s *State) selectRows(cur string, st *Stmt) (cols []string, types []string, out [][]string, err error) {
	t, err := s.ReadTarget(cur, st.Name)
	if err != nil {
		return nil, nil, nil, err
	}
	// WHERE
	var rows [][]string
	type flt struct {
		i   int
		c   Cmp
		num bool
	}
	var fs []flt
	for _, c := range st.Where {
		i := t.col(c.L.Args[0])
		if i < 0 {
			return nil, nil, nil, chErr(47, "UNKNOWN_IDENTIFIER", t.Name, "Missing columns: '%s' while processing query", c.L.Args[0])
		}
		fs = append(fs, flt{i, c, numericType(t.Columns[i].Type)})
	}
	for _, r := range t.Rows {
		ok := true
		for _, f := range fs {
			if sameValue(r[f.i], f.c.Val, f.num) == f.c.Neq {
				ok = false
				break
			}
		}
		if ok {
			rows = append(rows, r)
		}
	}
	hasAgg := len(st.Having) > 0
	for _, it := range st.Items {
		hasAgg = hasAgg || it.Func != ""
	}
	for _, it := range st.Items {
		name := it.Alias
		if name == "" {
			name = it.Text
		}
		cols = append(cols, name)
	}
	if !hasAgg && len(st.GroupBy) == 0 {
		for _, it := range st.Items {
			i := t.col(it.Args[0])
			if i < 0 {
				return nil, nil, nil, chErr(47, "UNKNOWN_IDENTIFIER", t.Name, "Missing columns: '%s' while processing query", it.Args[0])
			}
			types = append(types, t.Columns[i].Type)
		}
		for _, r := range rows {
			var o []string
			for _, it := range st.Items {
				o = append(o, r[t.col(it.Args[0])])
			}
			out = append(out, o)
		}
		return cols, types, out, nil
	}
	// grouping
	var gidx []int
	for _, g := range st.GroupBy {
		i := t.col(g)
		if i < 0 {
			return nil, nil, nil, chErr(47, "UNKNOWN_IDENTIFIER", t.Name, "Missing columns: '%s' while processing query", g)
		}
		gidx = append(gidx, i)
	}
	var groups [][][]string
	if len(gidx) == 0 {
		groups = [][][]string{rows} // an aggregate without GROUP BY always yields one row, also for an empty set
	} else {
		pos := map[string]int{}
		for _, r := range rows {
			var kb strings.Builder
			for _, i := range gidx {
				kb.WriteString(r[i])
				kb.WriteByte(0x1f)
			}
			j, ok := pos[kb.String()]
			if !ok {
				j = len(groups)
				pos[kb.String()] = j
				groups = append(groups, nil)
			}
			groups[j] = append(groups[j], r)
		}
	}
	evalExpr := func(e SelExpr, g [][]string) (string, string, error) {
		if e.Func != "" {
			return evalAgg(t, e, g)
		}
		i := t.col(e.Args[0])
		if i < 0 {
			return "", "", chErr(47, "UNKNOWN_IDENTIFIER", t.Name, "Missing columns: '%s' while processing query", e.Args[0])
		}
		grouped := false
		for _, gi := range gidx {
			grouped = grouped || gi == i
		}
		if !grouped {
			return "", "", chErr(215, "NOT_AN_AGGREGATE", t.Name, "Column %s is not under aggregate function and not in GROUP BY", e.Args[0])
		}
		if len(g) == 0 {
			return "", t.Columns[i].Type, nil
		}
		return g[0][i], t.Columns[i].Type, nil
	}
	for gi, g := range groups {
		keep := true
		for _, h := range st.Having {
			v, ty, err := evalExpr(h.L, g)
			if err != nil {
				return nil, nil, nil, err
			}
			if sameValue(v, h.Val, numericType(ty)) == h.Neq {
				keep = false
			}
		}
		var o []string
		for _, it := range st.Items {
			v, ty, err := evalExpr(it, g)
			if err != nil {
				return nil, nil, nil, err
			}
			o = append(o, v)
			if gi == 0 {
				types = append(types, ty)
			}
		}
		if keep {
			out = append(out, o)
		}
	}
	if len(groups) == 0 {
		for _, it := range st.Items {
			_, ty, err := evalExpr(it, nil)
			if err != nil {
				return nil, nil, nil, err
			}
			types = append(types, ty)
		}
	}
	return cols, types, out, nil
}

// Query evaluates a recognised SELECT/SHOW statement: column names, ClickHouse types and rows (values as strings).
func (s *State) Query(cur string, st *Stmt) (cols []string, types []string, rows [][]string, err error) {
	switch st.Kind {
	case "select":
		return s.selectRows(cur, st)
	case "show_tables":
		if _, ok := s.DBs[cur]; !ok {
			return nil, nil, nil, chErr(81, "UNKNOWN_DATABASE", "", "Database %s does not exist", cur)
		}
		for _, n := range s.TableNames(cur) {
			rows = append(rows, []string{n})
		}
		return []string{"name"}, []string{"String"}, rows, nil
	case "show_create_database":
		if _, ok := s.DBs[st.Name.Name]; !ok {
			return nil, nil, nil, chErr(81, "UNKNOWN_DATABASE", "", "Database %s does not exist", st.Name.Name)
		}
		return []string{"statement"}, []string{"String"}, [][]string{{"CREATE DATABASE " + st.Name.Name + "\nENGINE = Atomic"}}, nil
	}
	return nil, nil, nil, unknown("Query of statement kind %s", st.Kind)
}

// WriteTarget names the table a non-SELECT statement changes (INSERT through a Distributed table: the local table).
// Computed before the statement is applied; "" when there is none (CREATE DATABASE) or it cannot be resolved.
func (s *State) WriteTarget(cur string, st *Stmt) string {
	if st.Kind == "create_database" {
		return ""
	}
	db, n, err := s.resolve(cur, st.Name)
	if err != nil {
		return st.Name.Name
	}
	if st.Kind == "insert" {
		if t := s.DBs[db][n]; t != nil && t.Engine == "Distributed" {
			if lt, err := s.distTarget(t); err == nil {
				return lt.Name
			}
		}
	}
	return n
}
