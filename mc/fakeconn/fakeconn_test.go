package fakeconn

import (
	"context"
	"errors"
	"regexp"
	"strings"
	"testing"

	qsql "github.com/metrico/qryn/ctrl/qryn/sql"
)

func render(s string, cluster bool) []string {
	env := map[string]string{"DB": "qdb", "CLUSTER": "", "OnCluster": " ", "CREATE_SETTINGS": "SETTINGS storage_policy = 'p1'",
		"SAMPLES_ORDER_RUL": "timestamp_ns", "DIST_CREATE_SETTINGS": " SETTINGS skip_unavailable_shards = 1",
		"ReplacingMergeTree": "ReplacingMergeTree", "MergeTree": "MergeTree", "AggregatingMergeTree": "AggregatingMergeTree", "DefaultTtlDays": "7"}
	if cluster {
		env["CLUSTER"], env["OnCluster"] = "c1", "ON CLUSTER `c1`"
	}
	s = regexp.MustCompile(`(?m)^##.*$`).ReplaceAllString(s, "")
	s = regexp.MustCompile(`\{\{\.(\w+)\}\}`).ReplaceAllStringFunc(s, func(m string) string { return env[m[3:len(m)-2]] })
	var out []string
	for _, q := range strings.Split(s, ";\n\n") {
		if q = strings.Trim(q, "\n "); q != "" {
			out = append(out, q)
		}
	}
	return out
}

func TestAllScriptsApply(t *testing.T) {
	for _, cluster := range []bool{false, true} {
		st := NewState([]string{"qdb"}, []string{"c1"})
		files := []string{qsql.LogScript, qsql.TracesScript, qsql.ProfilesScript}
		if cluster {
			files = []string{qsql.LogScript, qsql.LogDistScript, qsql.TracesScript, qsql.TracesDistScript, qsql.ProfilesScript, qsql.ProfilesDistScript}
		}
		p := NewProc(st)
		c := p.Connect("qdb")
		n := 0
		for _, f := range files {
			for _, q := range render(f, cluster) {
				if err := c.Exec(context.Background(), q); err != nil {
					t.Fatalf("cluster=%v: %v\n%s", cluster, err, q)
				}
				n++
			}
		}
		if p.HarnessErr != nil {
			t.Fatal(p.HarnessErr)
		}
		ts := st.Table("qdb", "time_series")
		if ts == nil || strings.Join(ts.OrderBy, ",") != "fingerprint,type" || ts.col("type_v2") < 0 || ts.StoragePolicy() != "p1" {
			t.Fatalf("time_series wrong: %+v", ts)
		}
		if st.Table("qdb", "time_series_gin_view_bak") != nil || st.Table("qdb", "time_series_gin_view") == nil {
			t.Fatal("rename/drop sequence wrong")
		}
		t.Logf("cluster=%v: %d scripts, %d objects", cluster, n, len(st.TableNames("qdb")))
		// second application of every script: only the known non-idempotent ones may fail
		for _, f := range files {
			for _, q := range render(f, cluster) {
				err := c.Exec(context.Background(), q)
				var ce *CHError
				if err != nil && !errors.As(err, &ce) {
					t.Fatalf("unexpected error type %v", err)
				}
				if err != nil {
					t.Logf("re-run fails: %s: %v", strings.SplitN(q, "\n", 2)[0], err)
				}
			}
		}
	}
}

func TestSemantics(t *testing.T) {
	st := NewState([]string{"d"}, nil)
	p := NewProc(st)
	c := p.Connect("d")
	ctx := context.Background()
	must := func(q string, args ...any) {
		t.Helper()
		if err := c.Exec(ctx, q, args...); err != nil {
			t.Fatalf("%s: %v", q, err)
		}
	}
	fails := func(name, q string, args ...any) {
		t.Helper()
		err := c.Exec(ctx, q, args...)
		var ce *CHError
		if !errors.As(err, &ce) || ce.Name != name {
			t.Fatalf("%s: want %s, got %v", q, name, err)
		}
	}
	must("CREATE TABLE t (a UInt64, b String) ENGINE = MergeTree ORDER BY a")
	fails("TABLE_ALREADY_EXISTS", "CREATE TABLE t (a UInt64) ENGINE = MergeTree ORDER BY a")
	must("CREATE TABLE IF NOT EXISTS t (a UInt64) ENGINE = MergeTree ORDER BY a")
	fails("UNKNOWN_TABLE", "RENAME TABLE x TO y")
	must("RENAME TABLE IF EXISTS x TO y")
	must("CREATE TABLE u (a UInt64) ENGINE = MergeTree ORDER BY a")
	fails("TABLE_ALREADY_EXISTS", "RENAME TABLE t TO u")
	must("DROP TABLE u")
	fails("UNKNOWN_TABLE", "DROP TABLE u")
	must("DROP TABLE IF EXISTS u")
	must("ALTER TABLE t ADD COLUMN c UInt8, MODIFY ORDER BY (a, c)")
	must("ALTER TABLE t ADD COLUMN IF NOT EXISTS c UInt8, MODIFY ORDER BY (a, c)") // unchanged key is accepted
	fails("DUPLICATE_COLUMN", "ALTER TABLE t ADD COLUMN c UInt8")
	fails("BAD_ARGUMENTS", "ALTER TABLE t MODIFY ORDER BY (a, c, b)") // existing column appended
	fails("BAD_ARGUMENTS", "ALTER TABLE t MODIFY ORDER BY (a)")
	must("ALTER TABLE t (ADD COLUMN `c2` UInt8 ALIAS c)")
	fails("UNKNOWN_IDENTIFIER", "ALTER TABLE t (ADD COLUMN `c3` UInt8 ALIAS nope)")
	must("ALTER TABLE t MODIFY TTL toDateTime(a / 1000000000) + toIntervalSecond(60) TO DISK 'd1', toDateTime(a / 1000000000) + toIntervalDay(7)")
	if tt := st.Table("d", "t").TTL; len(tt) != 2 || tt[0].Seconds != 60 || tt[0].Action != "DISK:d1" || tt[1].Seconds != 7*86400 || tt[1].Action != "DELETE" {
		t.Fatalf("ttl %v", tt)
	}
	fails("BAD_TTL_EXPRESSION", "ALTER TABLE t MODIFY TTL a + toIntervalDay(1), a + toIntervalDay(2)")
	must("ALTER TABLE t  MODIFY SETTING storage_policy=$1", "p9")
	must("ALTER TABLE t \nMODIFY SETTING ttl_only_drop_parts = 1, merge_with_ttl_timeout = 3600, index_granularity = 8192")
	fails("READONLY_SETTING", "ALTER TABLE t MODIFY SETTING index_granularity = 1024")
	if st.Table("d", "t").StoragePolicy() != "p9" {
		t.Fatal("policy")
	}
	fails("UNKNOWN_TABLE", "CREATE MATERIALIZED VIEW mv TO t AS SELECT a FROM nope")
	fails("UNKNOWN_IDENTIFIER", "CREATE MATERIALIZED VIEW mv TO t AS SELECT a, zz FROM t")
	must("CREATE MATERIALIZED VIEW mv TO t2 AS SELECT a, c as x FROM t")
	fails("NOT_IMPLEMENTED", "ALTER TABLE mv ADD COLUMN q UInt8")
	must("CREATE TABLE ver (k UInt64, ver UInt64) ENGINE=ReplacingMergeTree(ver) ORDER BY k")
	must("INSERT INTO ver (k, ver) VALUES ($1, $2)", int64(3), uint64(5))
	must("INSERT INTO ver (k, ver) VALUES ($1, $2)", int64(3), uint64(4))
	rows, err := c.Query(ctx, "SELECT max(ver) as ver FROM ver WHERE k = $1 FORMAT JSON", int64(3))
	if err != nil {
		t.Fatal(err)
	}
	var v uint64
	for rows.Next() {
		if err := rows.Scan(&v); err != nil {
			t.Fatal(err)
		}
	}
	if v != 5 {
		t.Fatalf("ver %d", v)
	}
	if err := c.Exec(ctx, "OPTIMIZE TABLE t"); !errors.Is(err, ErrUnknownShape) || p.HarnessErr == nil {
		t.Fatalf("unknown shape must be a harness error, got %v", err)
	}
	// fault positions
	st2 := st.Clone()
	p2 := NewProc(st2, Fault{1, KillAfter})
	c2 := p2.Connect("d")
	if err := c2.Exec(ctx, "DROP TABLE IF EXISTS zz"); err != nil {
		t.Fatal(err)
	}
	if err := c2.Exec(ctx, "DROP TABLE t"); err == nil || st2.Table("d", "t") != nil {
		t.Fatal("kill_after must apply the effect and return an error")
	}
	if err := c2.Exec(ctx, "DROP TABLE ver"); err == nil || st2.Table("d", "ver") == nil {
		t.Fatal("dead process must not apply anything")
	}
	if st.Table("d", "t") == nil {
		t.Fatal("clone is not isolated")
	}
}

func TestFingerprintFollowsCanon(t *testing.T) {
	ctx := context.Background()
	mk := func(qs ...string) *State {
		st := NewState([]string{"d"}, nil)
		c := NewProc(st).Connect("d")
		for _, q := range qs {
			if err := c.Exec(ctx, q); err != nil {
				t.Fatal(err)
			}
		}
		return st
	}
	base := "CREATE TABLE settings (fingerprint UInt64, type String, name String, value String, inserted_at DateTime64(9, 'UTC')) ENGINE = ReplacingMergeTree(inserted_at) ORDER BY fingerprint"
	a := mk(base, "INSERT INTO settings (fingerprint, type, name, value, inserted_at) VALUES (1, 'rotate', 'a', 'x', NOW())",
		"INSERT INTO settings (fingerprint, type, name, value, inserted_at) VALUES (2, 'rotate', 'b', 'y', NOW())")
	b := mk(base, "INSERT INTO settings (fingerprint, type, name, value, inserted_at) VALUES (2, 'rotate', 'b', 'old', NOW())",
		"INSERT INTO settings (fingerprint, type, name, value, inserted_at) VALUES (1, 'rotate', 'a', 'x', NOW())",
		"INSERT INTO settings (fingerprint, type, name, value, inserted_at) VALUES (2, 'rotate', 'b', 'y', NOW())")
	if a.Canon() != b.Canon() || a.Fingerprint() != b.Fingerprint() {
		t.Fatalf("same rows in another order / after replacement must be the same state\n%s\n--\n%s", a.Canon(), b.Canon())
	}
	c := mk(base, "INSERT INTO settings (fingerprint, type, name, value, inserted_at) VALUES (1, 'rotate', 'a', 'x', NOW())")
	if a.Canon() == c.Canon() || a.Fingerprint() == c.Fingerprint() {
		t.Fatal("different rows must differ")
	}
	d := a.Clone()
	if err := NewProc(d).Connect("d").Exec(ctx, "ALTER TABLE settings MODIFY TTL inserted_at + toIntervalDay(1)"); err != nil {
		t.Fatal(err)
	}
	if d.Fingerprint() == a.Fingerprint() || d.Canon() == a.Canon() {
		t.Fatal("schema change must change the state")
	}
}

// The lookups of update.go / rotate.go in several spellings that mean the same must parse and give the same answer.
func TestSelectSpellings(t *testing.T) {
	ctx := context.Background()
	st := NewState([]string{"d"}, []string{"c1"})
	c := NewProc(st).Connect("d")
	for _, q := range []string{
		"create table ver (k UInt64, ver UInt64) engine = ReplacingMergeTree(ver) order by k",
		"CREATE TABLE ver_dist (\n k UInt64,\n ver UInt64\n) ENGINE = Distributed('c1', 'd', 'ver', rand())",
		"CREATE TABLE settings (fingerprint UInt64, type String, name String, value String, inserted_at DateTime64(9, 'UTC')) ENGINE = ReplacingMergeTree(inserted_at) ORDER BY fingerprint",
		"INSERT INTO ver (k, ver) VALUES (1, 7)", "INSERT INTO ver (ver, k) VALUES (9, 2)",
		"insert into settings (fingerprint, type, name, value, inserted_at) values (5, 'rotate', 'a', 'x', now())",
		"INSERT INTO settings (fingerprint, type, name, value, inserted_at)\nVALUES (5, 'rotate', 'a', 'y', NOW())",
		"INSERT INTO settings (fingerprint, type, name, value, inserted_at) VALUES (6, 'rotate', '', 'z', NOW())",
	} {
		if err := c.Exec(ctx, q); err != nil {
			t.Fatalf("%s: %v", q, err)
		}
	}
	u64 := func(q string, args ...any) uint64 {
		t.Helper()
		rows, err := c.Query(ctx, q, args...)
		if err != nil {
			t.Fatalf("%s: %v", q, err)
		}
		var v uint64
		n := 0
		for rows.Next() {
			n++
			if err := rows.Scan(&v); err != nil {
				t.Fatal(err)
			}
		}
		if n != 1 {
			t.Fatalf("%s: %d rows", q, n)
		}
		return v
	}
	for _, q := range []string{
		"SELECT max(ver) as ver FROM ver WHERE k = $1 FORMAT JSON",
		"SELECT max(ver) AS ver FROM ver_dist WHERE (k = $1) FORMAT JSON",
		"select MAX(ver) v\nfrom d.ver -- the version\nwhere ((k = $1)) ;",
		"SELECT max(ver) FROM ver WHERE $1 = k",
	} {
		if v := u64(q, int64(1)); v != 7 {
			t.Fatalf("%s: %d", q, v)
		}
		if v := u64(q, int64(3)); v != 0 {
			t.Fatalf("%s (no rows): %d", q, v)
		}
	}
	if v := u64("SELECT count(1) FROM ver"); v != 2 {
		t.Fatal(v)
	}
	str := func(q string, args ...any) []string {
		t.Helper()
		rows, err := c.Query(ctx, q, args...)
		if err != nil {
			t.Fatalf("%s: %v", q, err)
		}
		var out []string
		for rows.Next() {
			var v string
			if err := rows.Scan(&v); err != nil {
				t.Fatal(err)
			}
			out = append(out, v)
		}
		return out
	}
	for _, q := range []string{
		"SELECT argMax(value, inserted_at) as _value FROM settings WHERE fingerprint = $1 \nGROUP BY fingerprint HAVING argMax(name, inserted_at) != ''",
		"SELECT argMax(value, inserted_at) AS setting_value FROM settings WHERE (fingerprint = $1) GROUP BY fingerprint HAVING argMax(name, inserted_at) <> ''",
		"select argmax(value, inserted_at) from settings where fingerprint = $1 group by (fingerprint) having ('' != argMax(name, inserted_at))",
	} {
		if v := str(q, uint32(5)); len(v) != 1 || v[0] != "y" {
			t.Fatalf("%s: %v", q, v)
		}
		if v := str(q, uint32(6)); len(v) != 0 { // latest name is empty
			t.Fatalf("%s: %v", q, v)
		}
		if v := str(q, uint32(7)); len(v) != 0 {
			t.Fatalf("%s: %v", q, v)
		}
	}
	p := NewProc(st)
	if _, err := p.Connect("d").Query(ctx, "SELECT value FROM settings ORDER BY value"); !errors.Is(err, ErrUnknownShape) || p.HarnessErr == nil {
		t.Fatalf("ORDER BY must stay an unknown shape, got %v", err)
	}
	if err := NewProc(st).Connect("d").Exec(ctx, "ALTER TABLE settings MODIFY SETTING index_granularity = 8192, merge_with_ttl_timeout = 3600, ttl_only_drop_parts = 1"); err != nil {
		t.Fatal(err)
	}
}
