package fakeconn

import (
	"crypto/sha256"
	"encoding/binary"
	"fmt"
	"hash/fnv"
	"sort"
	"strconv"
	"strings"
)

// Column of a modelled table.
type Column struct {
	Name        string
	Type        string // normalised type text
	DefaultKind string // "", DEFAULT, MATERIALIZED, ALIAS
	DefaultExpr string
	Codec       string
}

// TTLElem is one element of a table TTL: Base + Seconds, then Action.
type TTLElem struct {
	Base    string // normalised expression the interval is added to, e.g. "toDateTime(timestamp_ns / 1000000000)" or "date"
	Seconds int64  // interval converted to seconds
	Action  string // "DELETE", "DISK:<name>", "VOLUME:<name>"
}

func (e TTLElem) String() string { return fmt.Sprintf("%s+%ds→%s", e.Base, e.Seconds, e.Action) }

// Table is one catalogue object (table, view, materialized view).  Tables are immutable once stored in a State:
// every mutation clones first (copy-on-write), so States can share them.
type Table struct {
	Name        string
	Kind        string // "table" | "view" | "mv"
	Columns     []Column
	Engine      string
	EngineArgs  []string // normalised argument texts
	PartitionBy string
	OrderBy     []string // sorting key elements (normalised)
	PrimaryKey  string
	TTL         []TTLElem
	Settings    map[string]string
	To          string // mv target (unqualified, same database)
	From        string // view/mv source table
	Select      string // normalised SELECT text
	Rows        [][]string

	canon string    // cached schema part of the canonical form
	fp    [2]uint64 // 128-bit digest of (database, schema, rows); maintained by seal / sealRows
	db    string
}

func (t *Table) clone() *Table {
	c := *t
	c.Columns = append([]Column(nil), t.Columns...)
	c.EngineArgs = append([]string(nil), t.EngineArgs...)
	c.OrderBy = append([]string(nil), t.OrderBy...)
	c.TTL = append([]TTLElem(nil), t.TTL...)
	c.Settings = make(map[string]string, len(t.Settings))
	for k, v := range t.Settings {
		c.Settings[k] = v
	}
	c.Rows = append([][]string(nil), t.Rows...)
	c.canon = ""
	return &c
}

func (t *Table) col(name string) int {
	for i := range t.Columns {
		if t.Columns[i].Name == name {
			return i
		}
	}
	return -1
}

// IsMergeTree reports whether the engine belongs to the MergeTree family (with or without Replicated prefix).
func (t *Table) IsMergeTree() bool {
	return t.Kind == "table" && strings.HasSuffix(t.Engine, "MergeTree")
}

// StoragePolicy is the modelled storage policy ("default" when never set).
func (t *Table) StoragePolicy() string {
	if p, ok := t.Settings["storage_policy"]; ok {
		return p
	}
	return "default"
}

func (t *Table) schemaCanon() string {
	if t.canon != "" {
		return t.canon
	}
	var b strings.Builder
	b.Grow(512)
	w := func(parts ...string) {
		for _, p := range parts {
			b.WriteString(p)
		}
	}
	w(t.Kind, " ", t.Name, " engine=", t.Engine, "(", strings.Join(t.EngineArgs, ","), ")")
	for _, c := range t.Columns {
		w("\n  col ", c.Name, " ", c.Type)
		if c.DefaultKind != "" {
			w(" ", c.DefaultKind, " ", c.DefaultExpr)
		}
		if c.Codec != "" {
			w(" CODEC(", c.Codec, ")")
		}
	}
	if t.PartitionBy != "" {
		w("\n  partition_by ", t.PartitionBy)
	}
	if len(t.OrderBy) > 0 {
		w("\n  order_by (", strings.Join(t.OrderBy, ", "), ")")
	}
	if t.PrimaryKey != "" {
		w("\n  primary_key ", t.PrimaryKey)
	}
	for _, e := range t.TTL {
		w("\n  ttl ", e.Base, "+", strconv.FormatInt(e.Seconds, 10), "s→", e.Action)
	}
	keys := make([]string, 0, len(t.Settings))
	for k := range t.Settings {
		keys = append(keys, k)
	}
	sort.Strings(keys)
	for _, k := range keys {
		w("\n  setting ", k, "=", t.Settings[k])
	}
	if t.To != "" {
		w("\n  to ", t.To)
	}
	if t.Select != "" {
		w("\n  from ", t.From, "\n  as ", t.Select)
	}
	t.canon = b.String()
	return t.canon
}

// State is the whole modelled server: databases with their objects, known clusters, a logical clock.
type State struct {
	DBs      map[string]map[string]*Table
	Clusters map[string]bool
	Clock    int64 // logical time: advances by one at every statement that evaluates NOW()
}

// NewState returns a server with the given (existing, empty) databases and known cluster names.
func NewState(dbs []string, clusters []string) *State {
	s := &State{DBs: map[string]map[string]*Table{}, Clusters: map[string]bool{}, Clock: 1}
	for _, d := range dbs {
		s.DBs[d] = map[string]*Table{}
	}
	for _, c := range clusters {
		s.Clusters[c] = true
	}
	return s
}

// Clone is cheap: tables are shared (copy-on-write).
func (s *State) Clone() *State {
	c := &State{DBs: make(map[string]map[string]*Table, len(s.DBs)), Clusters: s.Clusters, Clock: s.Clock}
	for d, ts := range s.DBs {
		m := make(map[string]*Table, len(ts))
		for n, t := range ts {
			m[n] = t
		}
		c.DBs[d] = m
	}
	return c
}

// Table looks an object up.
func (s *State) Table(db, name string) *Table {
	if m, ok := s.DBs[db]; ok {
		return m[name]
	}
	return nil
}

// TableNames lists the objects of a database, sorted.
func (s *State) TableNames(db string) []string {
	var out []string
	for n := range s.DBs[db] {
		out = append(out, n)
	}
	sort.Strings(out)
	return out
}

// mutable returns a private copy of the table, already stored in the state.
func (s *State) mutable(db, name string) *Table {
	t := s.DBs[db][name].clone()
	s.DBs[db][name] = t
	return t
}

// SchemaCanon is the canonical text of the schema (all objects, no rows).  Two states have the same schema iff
// the texts are equal.
func (s *State) SchemaCanon() string {
	var b strings.Builder
	dbs := make([]string, 0, len(s.DBs))
	for d := range s.DBs {
		dbs = append(dbs, d)
	}
	sort.Strings(dbs)
	for _, d := range dbs {
		fmt.Fprintf(&b, "database %s\n", d)
		for _, n := range s.TableNames(d) {
			b.WriteString(s.DBs[d][n].schemaCanon())
			b.WriteByte('\n')
		}
	}
	return b.String()
}

// RowsCanon is the canonical text of the stored rows.  Values produced by the logical clock are masked: rows are
// kept collapsed (see collapse), so the only thing a clock value could still decide — which of two rows with the
// same key is newer — is already decided, and two states that differ only in logical time behave identically.
func (s *State) RowsCanon() string {
	var lines []string
	for d, ts := range s.DBs {
		for n, t := range ts {
			for _, r := range t.Rows {
				vs := make([]string, len(r))
				for i, v := range r {
					if _, ok := clockOf(v); ok {
						vs[i] = "T"
					} else {
						vs[i] = v
					}
				}
				lines = append(lines, d+"."+n+": "+strings.Join(vs, " | "))
			}
		}
	}
	sort.Strings(lines)
	return strings.Join(lines, "\n")
}

// ClockPrefix marks a value produced from NOW() on the logical clock.
const ClockPrefix = "\x00T"

func clockOf(v string) (int64, bool) {
	if strings.HasPrefix(v, ClockPrefix) {
		n, err := strconv.ParseInt(v[len(ClockPrefix):], 10, 64)
		return n, err == nil
	}
	return 0, false
}

// collapsedRows applies Replacing semantics for Replacing engines: key = ORDER BY columns, version = engine arg
// (greater wins; ties and version-less tables: later insert wins).  Other engines: all rows.  The fake applies it
// at every INSERT ("merges are instantaneous"): none of the modelled SELECT shapes (max(ver) per k, argMax(value,
// inserted_at) per fingerprint) can tell the difference, and states stay small.
func (t *Table) collapsedRows() [][]string {
	if !strings.HasSuffix(t.Engine, "ReplacingMergeTree") {
		return t.Rows
	}
	var keyIdx []int
	for _, k := range t.OrderBy {
		if i := t.col(k); i >= 0 {
			keyIdx = append(keyIdx, i)
		}
	}
	verIdx := -1
	if len(t.EngineArgs) > 0 {
		verIdx = t.col(t.EngineArgs[len(t.EngineArgs)-1])
	}
	best := map[string][]string{}
	var order []string
	for _, r := range t.Rows {
		var kb strings.Builder
		for _, i := range keyIdx {
			kb.WriteString(r[i])
			kb.WriteByte(0x1f)
		}
		k := kb.String()
		cur, ok := best[k]
		if !ok {
			order = append(order, k)
			best[k] = r
			continue
		}
		if verIdx < 0 || !lessVersion(r[verIdx], cur[verIdx]) {
			best[k] = r
		}
	}
	out := make([][]string, 0, len(order))
	for _, k := range order {
		out = append(out, best[k])
	}
	return out
}

// lessVersion compares two version column values (numbers or logical clock values).
func lessVersion(a, b string) bool {
	ca, oka := clockOf(a)
	cb, okb := clockOf(b)
	if oka && okb {
		return ca < cb
	}
	na, ea := strconv.ParseUint(a, 10, 64)
	nb, eb := strconv.ParseUint(b, 10, 64)
	if ea == nil && eb == nil {
		return na < nb
	}
	return a < b
}

// digest recomputes the table's 128-bit digest from its canonical schema text and its (clock-masked) rows.
func (t *Table) digest() {
	h := sha256.New()
	h.Write([]byte(t.db))
	h.Write([]byte{0})
	h.Write([]byte(t.schemaCanon()))
	lines := make([]string, 0, len(t.Rows))
	for _, r := range t.Rows {
		var b strings.Builder
		for _, v := range r {
			if _, ok := clockOf(v); ok {
				v = "T"
			}
			b.WriteString(v)
			b.WriteByte(0)
		}
		lines = append(lines, b.String())
	}
	sort.Strings(lines) // the order of rows is not part of the state
	for _, l := range lines {
		h.Write([]byte{1})
		h.Write([]byte(l))
	}
	var sum [32]byte
	h.Sum(sum[:0])
	t.fp = [2]uint64{binary.LittleEndian.Uint64(sum[0:8]), binary.LittleEndian.Uint64(sum[8:16])}
}

// Fingerprint is a 128-bit digest of the whole state, equal exactly for states with equal Canon() (up to digest
// collisions).  It is the sum of per-table digests
// that are maintained when a table changes, so it costs a few additions per table instead of building the text.
func (s *State) Fingerprint() [2]uint64 {
	var f [2]uint64
	for d, ts := range s.DBs {
		if len(ts) == 0 {
			h := sha256.Sum256([]byte("emptydb\x00" + d))
			f[0] += binary.LittleEndian.Uint64(h[0:8])
			f[1] += binary.LittleEndian.Uint64(h[8:16])
			continue
		}
		h := sha256.Sum256([]byte("db\x00" + d))
		f[0] += binary.LittleEndian.Uint64(h[0:8])
		f[1] += binary.LittleEndian.Uint64(h[8:16])
		for _, t := range ts {
			f[0] += t.fp[0]
			f[1] += t.fp[1]
		}
	}
	return f
}

// Canon is the canonical form of the whole state (schema + rows).
func (s *State) Canon() string { return s.SchemaCanon() + "--rows--\n" + s.RowsCanon() }

// Hash of the canonical form.
func (s *State) Hash() uint64 {
	h := fnv.New64a()
	h.Write([]byte(s.Canon()))
	return h.Sum64()
}

// DiffSchema names the first difference between two schemas as "<db>.<object>:<what>", "" when equal.
func DiffSchema(a, b *State) string {
	seen := map[string]bool{}
	var names []string
	for d, ts := range a.DBs {
		for n := range ts {
			if !seen[d+"."+n] {
				seen[d+"."+n] = true
				names = append(names, d+"."+n)
			}
		}
	}
	for d, ts := range b.DBs {
		for n := range ts {
			if !seen[d+"."+n] {
				seen[d+"."+n] = true
				names = append(names, d+"."+n)
			}
		}
	}
	sort.Strings(names)
	for _, qn := range names {
		i := strings.IndexByte(qn, '.')
		d, n := qn[:i], qn[i+1:]
		ta, tb := a.Table(d, n), b.Table(d, n)
		switch {
		case ta == nil:
			return qn + ":missing_in_first"
		case tb == nil:
			return qn + ":missing_in_second"
		case ta.schemaCanon() != tb.schemaCanon():
			la, lb := strings.Split(ta.schemaCanon(), "\n"), strings.Split(tb.schemaCanon(), "\n")
			for i := 0; i < len(la) || i < len(lb); i++ {
				var x, y string
				if i < len(la) {
					x = la[i]
				}
				if i < len(lb) {
					y = lb[i]
				}
				if x != y {
					return fmt.Sprintf("%s:%q_vs_%q", qn, strings.TrimSpace(x), strings.TrimSpace(y))
				}
			}
		}
	}
	return ""
}
