#!/usr/bin/env python3
"""mkhook.py <repo> <scratch dir> <overlay.json>

Generates an overlay copy of <repo>/ctrl/maintenance/shared.go in which ConnectV2 first consults the package
variable VerifConnect (the harness seam that hands out fakeconn connections) and otherwise behaves exactly as the
original.  Generated from the *current* file of the repository under test, so edits to shared.go are kept; if the
ConnectV2 signature cannot be found the script fails (=> harness error, exit 2), it never guesses."""
import json, os, re, sys
repo, scratch, overlay = sys.argv[1:4]
rel = "ctrl/maintenance/shared.go"
src = open(os.path.join(repo, rel)).read()
m = re.search(r"^func ConnectV2\((?P<params>[^)]*)\) \((?P<res>[^)]*)\) \{", src, re.M)
if not m:
    sys.exit("mkhook: func ConnectV2(...) (...) { not found in " + rel)
params, res = m.group("params"), m.group("res")
names = [p.strip().split()[0] for p in params.split(",")]
out = src[:m.start()] + "func connectV2Real(%s) (%s) {" % (params, res) + src[m.end():]
out += """
// VerifConnect is the verification harness seam (overlay only, not part of the repository).
var VerifConnect func(%s) (%s)

func ConnectV2(%s) (%s) {
	if VerifConnect != nil {
		return VerifConnect(%s)
	}
	return connectV2Real(%s)
}
""" % (params, res, params, res, ", ".join(names), ", ".join(names))
d = os.path.join(scratch, "hook")
os.makedirs(d, exist_ok=True)
path = os.path.join(d, "shared.go")
open(path, "w").write(out)
ov = json.load(open(overlay))
ov.setdefault("Replace", {})[os.path.join(repo, rel)] = path
json.dump(ov, open(overlay, "w"), indent=1)
