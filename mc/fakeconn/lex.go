// Package fakeconn is a fake of github.com/ClickHouse/clickhouse-go/v2 driver.Conn for the ctrl (schema
// maintenance) code of qryn: a modelled ClickHouse catalogue with DDL semantics for exactly the statement shapes
// that ctrl/qryn/sql/*.sql, ctrl/qryn/maintenance/{update,rotate}.go and ctrl/maintenance/shared.go issue, a
// statement log and single-statement fault injection.  A statement shape the recogniser does not know is a
// *harness error* (ErrUnknownShape, recorded in Proc.HarnessErr), never silently accepted.
package fakeconn

import (
	"fmt"
	"strings"
)

type tokKind int

const (
	tIdent  tokKind = iota // bare identifier / keyword
	tQIdent                // `quoted` or "quoted" identifier
	tString                // 'string' (Val = decoded)
	tNumber
	tParam // $n (Val = n)
	tPunct
	tEOF
)

type token struct {
	Kind       tokKind
	Val        string // decoded value (identifier name, string contents, number text, punct text)
	Start, End int    // byte offsets in the source
}

func (t token) String() string {
	switch t.Kind {
	case tString:
		return "'" + strings.ReplaceAll(strings.ReplaceAll(t.Val, `\`, `\\`), `'`, `\'`) + "'"
	case tQIdent:
		return "`" + t.Val + "`"
	case tParam:
		return "$" + t.Val
	case tEOF:
		return "<eof>"
	}
	return t.Val
}

func isIdentStart(c byte) bool { return c == '_' || (c >= 'a' && c <= 'z') || (c >= 'A' && c <= 'Z') }
func isDigit(c byte) bool      { return c >= '0' && c <= '9' }

// lex tokenises one statement.  Comments (-- and /* */) are skipped.
func lex(s string) ([]token, error) {
	var out []token
	i := 0
	for i < len(s) {
		c := s[i]
		switch {
		case c == ' ' || c == '\t' || c == '\n' || c == '\r':
			i++
		case c == '-' && i+1 < len(s) && s[i+1] == '-':
			for i < len(s) && s[i] != '\n' {
				i++
			}
		case c == '/' && i+1 < len(s) && s[i+1] == '*':
			j := strings.Index(s[i+2:], "*/")
			if j < 0 {
				return nil, fmt.Errorf("unterminated comment at %d", i)
			}
			i += j + 4
		case isIdentStart(c):
			j := i + 1
			for j < len(s) && (isIdentStart(s[j]) || isDigit(s[j])) {
				j++
			}
			out = append(out, token{tIdent, s[i:j], i, j})
			i = j
		case isDigit(c):
			j := i + 1
			for j < len(s) && (isDigit(s[j]) || s[j] == '.') {
				j++
			}
			out = append(out, token{tNumber, s[i:j], i, j})
			i = j
		case c == '$' && i+1 < len(s) && isDigit(s[i+1]):
			j := i + 1
			for j < len(s) && isDigit(s[j]) {
				j++
			}
			out = append(out, token{tParam, s[i+1 : j], i, j})
			i = j
		case c == '\'':
			var b strings.Builder
			j := i + 1
			closed := false
			for j < len(s) {
				if s[j] == '\\' && j+1 < len(s) {
					switch s[j+1] {
					case 'n':
						b.WriteByte('\n')
					case 't':
						b.WriteByte('\t')
					case '0':
						b.WriteByte(0)
					default:
						b.WriteByte(s[j+1])
					}
					j += 2
					continue
				}
				if s[j] == '\'' {
					if j+1 < len(s) && s[j+1] == '\'' {
						b.WriteByte('\'')
						j += 2
						continue
					}
					closed = true
					j++
					break
				}
				b.WriteByte(s[j])
				j++
			}
			if !closed {
				return nil, fmt.Errorf("unterminated string at %d", i)
			}
			out = append(out, token{tString, b.String(), i, j})
			i = j
		case c == '`' || c == '"':
			j := strings.IndexByte(s[i+1:], c)
			if j < 0 {
				return nil, fmt.Errorf("unterminated quoted identifier at %d", i)
			}
			out = append(out, token{tQIdent, s[i+1 : i+1+j], i, i + j + 2})
			i += j + 2
		default:
			if i+1 < len(s) {
				two := s[i : i+2]
				switch two {
				case "->", "::", "!=", "<>", "||", ">=", "<=", "==":
					out = append(out, token{tPunct, two, i, i + 2})
					i += 2
					continue
				}
			}
			if strings.IndexByte("(),.;=+-*/%<>![]:?{}", c) >= 0 {
				out = append(out, token{tPunct, string(c), i, i + 1})
				i++
				continue
			}
			return nil, fmt.Errorf("unexpected character %q at %d", c, i)
		}
	}
	out = append(out, token{tEOF, "", len(s), len(s)})
	return out, nil
}

// norm renders a token slice in a canonical one-line form (single spaces, no space around . ( ) ,).
func norm(ts []token) string {
	var b strings.Builder
	for i, t := range ts {
		if t.Kind == tEOF {
			break
		}
		s := t.String()
		if i > 0 {
			p := ts[i-1]
			noSpace := (t.Kind == tPunct && (s == "," || s == ")" || s == "." || s == "(" || s == "]" || s == "[")) ||
				(p.Kind == tPunct && (p.Val == "(" || p.Val == "." || p.Val == "["))
			if t.Kind == tPunct && s == "(" && !(p.Kind == tIdent || p.Kind == tQIdent) {
				noSpace = p.Kind == tPunct && (p.Val == "(" || p.Val == ".")
			}
			if !noSpace {
				b.WriteByte(' ')
			}
		}
		b.WriteString(s)
	}
	return b.String()
}
