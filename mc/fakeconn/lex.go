// Package fakeconn is a fake of github.com/ClickHouse/clickhouse-go/v2 driver.Conn for the ctrl (schema
// maintenance) code of qryn: a modelled ClickHouse catalogue with DDL semantics for exactly the statement shapes
// that ctrl/qryn/sql/*.sql, ctrl/qryn/maintenance/{update,rotate}.go and ctrl/maintenance/shared.go issue, a
// statement log and single-statement fault injection.  A statement shape the recogniser does not know is a
// *harness error* (ErrUnknownShape, recorded in Proc.HarnessErr), never silently accepted.
package fakeconn

import (
	"fmt"
	"strings"

	"verif/mc/chlex"
)

type tokKind int

const (
	tIdent  tokKind = iota // bare identifier / keyword
	tQIdent                // `quoted` or "quoted" identifier
	tString                // 'string' (Val = decoded)
	tNumber
	tParam // $n (Val = n)
	tPunct
	tEOF
)

type token struct {
	Kind       tokKind
	Val        string // decoded value (identifier name, string contents, number text, punct text)
	Start, End int    // byte offsets in the source
}

func (t token) String() string {
	switch t.Kind {
	case tString:
		return "'" + strings.ReplaceAll(strings.ReplaceAll(t.Val, `\`, `\\`), `'`, `\'`) + "'"
	case tQIdent:
		return "`" + t.Val + "`"
	case tParam:
		return "$" + t.Val
	case tEOF:
		return "<eof>"
	}
	return t.Val
}

// lex tokenises one statement with the ClickHouse-compatible tokenizer verif/mc/chlex (whitespace of any kind and
// the three comment styles are dropped, string literals and quoted identifiers are decoded the way ClickHouse
// decodes them).  `$n` — a bare word for ClickHouse's lexer — is the positional parameter of clickhouse-go.
func lex(s string) ([]token, error) {
	var out []token
	for _, t := range chlex.Tokenize(s) {
		end := t.Pos + len(t.Text)
		switch t.Kind {
		case chlex.Whitespace, chlex.Comment:
		case chlex.BareWord:
			if len(t.Text) > 1 && t.Text[0] == '$' && strings.Trim(t.Text[1:], "0123456789") == "" {
				out = append(out, token{tParam, t.Text[1:], t.Pos, end})
			} else {
				out = append(out, token{tIdent, t.Text, t.Pos, end})
			}
		case chlex.Number:
			out = append(out, token{tNumber, t.Text, t.Pos, end})
		case chlex.StringLiteral, chlex.HereDoc:
			v, err := chlex.DecodeString(t)
			if err != nil {
				return nil, fmt.Errorf("string literal at %d: %v", t.Pos, err)
			}
			out = append(out, token{tString, v, t.Pos, end})
		case chlex.QuotedIdentifier:
			v, err := chlex.DecodeIdentifier(t)
			if err != nil {
				return nil, fmt.Errorf("quoted identifier at %d: %v", t.Pos, err)
			}
			out = append(out, token{tQIdent, v, t.Pos, end})
		case chlex.Punct:
			out = append(out, token{tPunct, t.Text, t.Pos, end})
		default:
			return nil, fmt.Errorf("lexical error at %d: %q %s", t.Pos, t.Text, t.Err)
		}
	}
	out = append(out, token{tEOF, "", len(s), len(s)})
	return out, nil
}

// norm renders a token slice in a canonical one-line form (single spaces, no space around . ( ) ,).
func norm(ts []token) string {
	var b strings.Builder
	for i, t := range ts {
		if t.Kind == tEOF {
			break
		}
		s := t.String()
		if i > 0 {
			p := ts[i-1]
			noSpace := (t.Kind == tPunct && (s == "," || s == ")" || s == "." || s == "(" || s == "]" || s == "[")) ||
				(p.Kind == tPunct && (p.Val == "(" || p.Val == "." || p.Val == "["))
			if t.Kind == tPunct && s == "(" && !(p.Kind == tIdent || p.Kind == tQIdent) {
				noSpace = p.Kind == tPunct && (p.Val == "(" || p.Val == ".")
			}
			if !noSpace {
				b.WriteByte(' ')
			}
		}
		b.WriteString(s)
	}
	return b.String()
}

// Tok is an exported view of a token: Kind ∈ ident qident string number param punct.
type Tok struct {
	Kind string
	Val  string
}

// Tokens tokenises a statement (whitespace and comments dropped, literals decoded); a trailing ';' is dropped.
func Tokens(sql string) ([]Tok, error) {
	ts, err := lex(sql)
	if err != nil {
		return nil, err
	}
	names := [...]string{"ident", "qident", "string", "number", "param", "punct"}
	out := make([]Tok, 0, len(ts))
	for _, t := range ts {
		if t.Kind == tEOF {
			break
		}
		out = append(out, Tok{names[t.Kind], t.Val})
	}
	for len(out) > 0 && out[len(out)-1].Kind == "punct" && out[len(out)-1].Val == ";" {
		out = out[:len(out)-1]
	}
	return out, nil
}
