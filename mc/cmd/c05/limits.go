package main

import (
	"go/ast"
	"go/parser"
	gotoken "go/token"
	"os"
	"path/filepath"
	"sort"
	"strconv"
	"strings"
)

// ScanLimits reads writer/controller with go/ast and returns the small integer limits (2..64) that doParse / doPush —
// and the package functions they call — compare against or index with: literals in comparisons and package-level
// integer constants they reference (today none; a bound on portions in flight, retries per portion, ... would show up
// here).  For each such n the database-outcome cross gets bodies yielding n-1, n, n+1 and 2n portions.
func ScanLimits(repo string) (limits []int, where []string) {
	dir := filepath.Join(repo, "writer/controller")
	fset := gotoken.NewFileSet()
	consts := map[string]int{}
	funcs := map[string]*ast.FuncDecl{}
	ents, _ := os.ReadDir(dir)
	for _, e := range ents {
		if e.IsDir() || !strings.HasSuffix(e.Name(), ".go") || strings.HasSuffix(e.Name(), "_test.go") {
			continue
		}
		f, err := parser.ParseFile(fset, filepath.Join(dir, e.Name()), nil, parser.SkipObjectResolution)
		if err != nil {
			continue
		}
		for _, d := range f.Decls {
			switch x := d.(type) {
			case *ast.GenDecl:
				if x.Tok != gotoken.CONST {
					continue
				}
				for _, sp := range x.Specs {
					vs := sp.(*ast.ValueSpec)
					for i, n := range vs.Names {
						if i < len(vs.Values) {
							if bl, ok := vs.Values[i].(*ast.BasicLit); ok && bl.Kind == gotoken.INT {
								if v, err := strconv.Atoi(bl.Value); err == nil {
									consts[n.Name] = v
								}
							}
						}
					}
				}
			case *ast.FuncDecl:
				if x.Recv == nil {
					funcs[x.Name.Name] = x
				}
			}
		}
	}
	seen := map[int]bool{}
	visited := map[string]bool{}
	var visit func(name string, depth int)
	visit = func(name string, depth int) {
		fd := funcs[name]
		if fd == nil || fd.Body == nil || visited[name] || depth > 3 {
			return
		}
		visited[name] = true
		note := func(v int, what string, pos gotoken.Pos) {
			if v >= 2 && v <= 64 && !seen[v] {
				seen[v] = true
				limits = append(limits, v)
				p := fset.Position(pos)
				where = append(where, filepath.Base(p.Filename)+":"+strconv.Itoa(p.Line)+" "+name+": "+what)
			}
		}
		ast.Inspect(fd.Body, func(n ast.Node) bool {
			switch x := n.(type) {
			case *ast.BinaryExpr:
				switch x.Op {
				case gotoken.LSS, gotoken.LEQ, gotoken.GTR, gotoken.GEQ, gotoken.EQL, gotoken.NEQ, gotoken.REM:
					for _, side := range []ast.Expr{x.X, x.Y} {
						if bl, ok := side.(*ast.BasicLit); ok && bl.Kind == gotoken.INT {
							if v, err := strconv.Atoi(bl.Value); err == nil {
								note(v, "literal "+bl.Value, bl.Pos())
							}
						}
					}
				}
			case *ast.Ident:
				if v, ok := consts[x.Name]; ok {
					note(v, "const "+x.Name+" = "+strconv.Itoa(v), x.Pos())
				}
			case *ast.CallExpr:
				if id, ok := x.Fun.(*ast.Ident); ok {
					visit(id.Name, depth+1)
				}
			}
			return true
		})
	}
	visit("doParse", 0)
	visit("doPush", 0)
	sort.Ints(limits)
	return
}
