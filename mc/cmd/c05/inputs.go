package main

import (
	"bytes"
	"compress/gzip"
	"encoding/json"
	"fmt"
	"mime/multipart"
	"net/url"
	"sort"
	"strings"

	"github.com/golang/snappy"
	pprof "github.com/google/pprof/profile"
	"github.com/metrico/qryn/writer/utils/proto/logproto"
	"github.com/metrico/qryn/writer/utils/proto/prompb"
	commonpb "go.opentelemetry.io/proto/otlp/common/v1"
	logspb "go.opentelemetry.io/proto/otlp/logs/v1"
	respb "go.opentelemetry.io/proto/otlp/resource/v1"
	tracepb "go.opentelemetry.io/proto/otlp/trace/v1"
	"google.golang.org/protobuf/proto"
)

// Input is one request of the enumerated space.
type Input struct {
	ID       int         `json:"id"`
	Route    string      `json:"route"` // route template
	Method   string      `json:"method"`
	Path     string      `json:"path"` // concrete path + query
	Headers  [][2]string `json:"headers"`
	Body     []byte      `json:"body"`
	Family   string      `json:"family"`              // which decoder reads the body (reference acceptance rule, follow-up seed)
	DB       string      `json:"db,omitempty"`        // database outcome while the request is served: "" healthy | all_fail | first1_fail | first3_fail | fail_after_first | slow
	Big      *bigSpec    `json:"big,omitempty"`       // body built by the worker (too large for the shard file): sizedBody(Family, N, LineLen)
	SeedBody bool        `json:"seed_body,omitempty"` // the body is the unmodified valid seed of Family (it carries rows)
	Gen      string      `json:"gen"`                 // seed | bytes3 | mut1 | mut2 | trunc | params | headers | lit | size
	Desc     string      `json:"desc"`                // what was done to the seed
}

func (in *Input) header(k string) string {
	for _, h := range in.Headers {
		if strings.EqualFold(h[0], k) {
			return h[1]
		}
	}
	return ""
}

// ---------------------------------------------------------------------------------------------------------------
// route table: every ingest route of writer/router must be listed here (the worker walks the real router and the
// parent refuses to run — exit 2 — if a walked route has no entry, so a new route cannot go unexplored).

type routeSpec struct {
	Template string
	Method   string
	Path     string   // concrete path
	Handler  string   // routes sharing a handler build (alias group): full alphabet on the first, reduced on aliases in quick
	Variants []ctSpec // accepted content-type / encoding combinations with the decoder family each selects
	Query    string   // valid query string ("" = none)
}

type ctSpec struct {
	CT     string // Content-Type header ("" = absent)
	Family string
}

var zipkinCTs = []ctSpec{{"application/json", "zipkin_json"}, {"", "zipkin_json"}, {"ndjson", "zipkin_ndjson"}, {"application/x-ndjson", "zipkin_json"}}
var promCTs = []ctSpec{{"application/x-protobuf", "prom_rw"}, {"", "prom_rw"}}

var routeTable = []routeSpec{
	{"/loki/api/v1/push", "POST", "/loki/api/v1/push", "loki_push", []ctSpec{{"application/json", "loki_json"}, {"", "loki_json"}, {"application/x-protobuf", "loki_proto"}}, ""},
	{"/influx/api/v2/write", "POST", "/influx/api/v2/write", "influx", []ctSpec{{"text/plain", "influx"}, {"", "influx"}}, ""},
	{"/cf/v1/insert", "POST", "/cf/v1/insert", "dd_cf", []ctSpec{{"application/json", "dd_cf"}, {"", "dd_cf"}}, "ddsource=cf"},
	{"/api/v2/series", "POST", "/api/v2/series", "dd_series", []ctSpec{{"application/json", "dd_series"}, {"", "unsupported_ct"}}, ""},
	{"/api/v2/logs", "POST", "/api/v2/logs", "dd_logs", []ctSpec{{"application/json", "dd_logs"}, {"text/plain", "unsupported_ct"}}, "ddsource=nginx"},
	{"/v1/logs", "POST", "/v1/logs", "otlp_logs", []ctSpec{{"application/x-protobuf", "otlp_logs"}, {"", "otlp_logs"}}, ""},
	{"/influx/api/v2/write/health", "GET", "/influx/api/v2/write/health", "health", []ctSpec{{"", "health"}}, ""},
	{"/influx/health", "GET", "/influx/health", "health", []ctSpec{{"", "health"}}, ""},
	{"/v1/prom/remote/write", "POST", "/v1/prom/remote/write", "prom_rw", promCTs, ""},
	{"/api/v1/prom/remote/write", "POST", "/api/v1/prom/remote/write", "prom_rw", promCTs, ""},
	{"/prom/remote/write", "POST", "/prom/remote/write", "prom_rw", promCTs, ""},
	{"/api/prom/remote/write", "POST", "/api/prom/remote/write", "prom_rw", promCTs, ""},
	{"/api/prom/push", "POST", "/api/prom/push", "prom_rw", promCTs, ""},
	{"/{target}/_doc", "POST", "/idx/_doc", "elastic_doc", []ctSpec{{"application/json", "elastic_doc"}, {"", "elastic_doc"}}, ""},
	{"/{target}/_create/{id}", "POST", "/idx/_create/7", "elastic_doc", []ctSpec{{"application/json", "elastic_doc"}}, ""},
	{"/{target}/_doc/{id}", "PUT", "/idx/_doc/7", "elastic_doc", []ctSpec{{"application/json", "elastic_doc"}}, ""},
	{"/{target}/_create/{id}", "PUT", "/idx/_create/7", "elastic_doc", []ctSpec{{"application/json", "elastic_doc"}}, ""},
	{"/_bulk", "POST", "/_bulk", "elastic_bulk", []ctSpec{{"application/x-ndjson", "elastic_bulk"}, {"", "elastic_bulk"}}, ""},
	{"/{target}/_bulk", "POST", "/idx/_bulk", "elastic_bulk", []ctSpec{{"application/x-ndjson", "elastic_bulk"}}, ""},
	{"/tempo/spans", "POST", "/tempo/spans", "zipkin", zipkinCTs, ""},
	{"/tempo/api/push", "POST", "/tempo/api/push", "zipkin", zipkinCTs, ""},
	{"/api/v2/spans", "POST", "/api/v2/spans", "zipkin", zipkinCTs, ""},
	{"/v1/traces", "POST", "/v1/traces", "otlp_traces", []ctSpec{{"application/x-protobuf", "otlp_traces"}, {"", "otlp_traces"}}, ""},
	{"/ingest", "POST", "/ingest", "ingest", []ctSpec{{"multipart/form-data; boundary=verifboundary", "pprof_multipart"}, {"binary/octet-stream", "pprof_binary"}, {"", "unsupported_ct"}},
		"name=verif.app%7Bregion%3Deu%7D&from=1700000000&until=1700000010"},
}

// success status of each family's route (what a well-formed body is acknowledged with)
var familyOK = map[string]int{"loki_json": 204, "loki_proto": 204, "influx": 204, "dd_cf": 202, "dd_series": 202, "dd_logs": 202,
	"otlp_logs": 204, "health": 200, "prom_rw": 204, "elastic_doc": 200, "elastic_bulk": 200, "zipkin_json": 202,
	"zipkin_ndjson": 202, "otlp_traces": 200, "pprof_multipart": 200, "pprof_binary": 200}

// ---------------------------------------------------------------------------------------------------------------
// seeds: one valid body per decoder family.  marker is embedded in a string column so that the fake ClickHouse
// client can recognise the rows of a follow-up push.

const pprofBoundary = "verifboundary"

func lokiJSONSeed(marker string) *jnode {
	return jO("streams", jA(
		jO("stream", jO("job", jS("verif"), "lvl", jS("info")),
			"values", jA(jA(jS("1700000000000000000"), jS("line one "+marker)), jA(jS("1700000000000000001"), jS("line two"), jN("3.5")))),
		jO("labels", jS(`{job="v2",env="e"}`),
			"entries", jA(jO("ts", jS("2023-11-14T22:13:20Z"), "line", jS("old style")),
				jO("timestamp", jS("1700000000000000002"), "line", jS("l4"), "value", jN("1")))),
	))
}

func ddLogsSeed(marker string) *jnode {
	return jA(jO("ddsource", jS("nginx"), "ddtags", jS("env:prod,team:a"), "hostname", jS("h1"), "message", jS("m1 "+marker),
		"service", jS("svc"), "timestamp", jN("1700000000000")),
		jO("message", jS("m2"), "source_type", jS("st")))
}

func ddSeriesSeed(marker string) *jnode {
	return jO("series", jA(jO("metric", jS("m.x"), "resources", jA(jO("name", jS("h "+marker), "type", jS("host"))),
		"points", jA(jO("timestamp", jN("1700000000"), "value", jN("1.5")), jO("timestamp", jN("1700000001"), "value", jN("2"))))))
}

func ddCFLines(marker string) []*jnode {
	return []*jnode{
		jO("EventType", jS("fetch"), "Outcome", jS("ok"), "ScriptName", jS("s "+marker), "EventTimestampMs", jN("1700000000000")),
		jO("ActionResult", jB(true), "ActionType", jS("login"), "ActorType", jS("user"), "ResourceType", jS("acct"), "When", jN("1700000000000000000")),
	}
}

func zipkinSpan(marker string, n int) *jnode {
	return jO("traceId", jS("0123456789abcdef0123456789abcde"+fmt.Sprint(n%10)), "id", jS("0123456789abcde"+fmt.Sprint(n%10)),
		"parentId", jS("fedcba9876543210"), "name", jS("op "+marker), "timestamp", jN("1700000000000000"), "duration", jN("1000"),
		"localEndpoint", jO("serviceName", jS("svc")), "remoteEndpoint", jO("serviceName", jS("peer")),
		"tags", jO("k", jS("v"), "n", jS("1")))
}

func elasticDocSeed(marker string) *jnode {
	return jO("message", jS("hello "+marker), "level", jS("info"), "n", jN("3"))
}

func elasticBulkLines(marker string) []*jnode {
	return []*jnode{
		jO("index", jO("_index", jS("idx"), "_id", jS("1"))),
		jO("message", jS("hello "+marker)),
		jO("create", jO("_index", jS("idx2"))),
		jO("message", jS("second")),
		jO("delete", jO("_index", jS("idx"), "_id", jS("2"))),
	}
}

func ndjson(lines []*jnode) string {
	var b strings.Builder
	for _, l := range lines {
		b.WriteString(l.String())
		b.WriteByte('\n')
	}
	return b.String()
}

func influxSeed(marker string) string {
	return "cpu,host=a usage=0.5,count=3i 1700000000000000000\nlogs,host=a message=\"hello " + marker + "\" 1700000000000000001\n"
}

func lokiProtoMsg(marker string) *logproto.PushRequest {
	return &logproto.PushRequest{Streams: []*logproto.StreamAdapter{{
		Labels: `{job="verif",lvl="info"}`,
		Entries: []*logproto.EntryAdapter{
			{Timestamp: &logproto.Timestamp{Seconds: 1700000000, Nanos: 1}, Line: "proto line " + marker},
			{Timestamp: &logproto.Timestamp{Seconds: 1700000000, Nanos: 2}, Line: "second"},
		}}}}
}

func promMsg(marker string) *prompb.WriteRequest {
	return &prompb.WriteRequest{Timeseries: []*prompb.TimeSeries{{
		Labels:  []*prompb.Label{{Name: "__name__", Value: "verif_metric"}, {Name: "job", Value: "j " + marker}},
		Samples: []*prompb.Sample{{Value: 1.5, Timestamp: 1700000000000}, {Value: 2, Timestamp: 1700000001000}},
	}}}
}

func kv(k, v string) *commonpb.KeyValue {
	return &commonpb.KeyValue{Key: k, Value: &commonpb.AnyValue{Value: &commonpb.AnyValue_StringValue{StringValue: v}}}
}

func otlpLogsMsg(marker string) *logspb.LogsData {
	return &logspb.LogsData{ResourceLogs: []*logspb.ResourceLogs{{
		Resource: &respb.Resource{Attributes: []*commonpb.KeyValue{kv("service.name", "svc")}},
		ScopeLogs: []*logspb.ScopeLogs{{
			Scope: &commonpb.InstrumentationScope{Name: "scope", Attributes: []*commonpb.KeyValue{kv("sk", "sv")}},
			LogRecords: []*logspb.LogRecord{{
				TimeUnixNano: 1700000000000000000, SeverityText: "INFO",
				Body:       &commonpb.AnyValue{Value: &commonpb.AnyValue_StringValue{StringValue: "otlp log " + marker}},
				Attributes: []*commonpb.KeyValue{kv("a", "b")},
			}},
		}},
	}}}
}

func otlpTracesMsg(marker string) *tracepb.TracesData {
	return &tracepb.TracesData{ResourceSpans: []*tracepb.ResourceSpans{{
		Resource: &respb.Resource{Attributes: []*commonpb.KeyValue{kv("service.name", "svc")}},
		ScopeSpans: []*tracepb.ScopeSpans{{
			Scope: &commonpb.InstrumentationScope{Name: "scope"},
			Spans: []*tracepb.Span{{
				TraceId: []byte("0123456789abcdef"), SpanId: []byte("01234567"), ParentSpanId: []byte("76543210"),
				Name: "span " + marker, StartTimeUnixNano: 1700000000000000000, EndTimeUnixNano: 1700000000000001000,
				Attributes: []*commonpb.KeyValue{kv("k", "v"),
					{Key: "n", Value: &commonpb.AnyValue{Value: &commonpb.AnyValue_IntValue{IntValue: 3}}}},
			}},
		}},
	}}}
}

func mustMarshal(m proto.Message) []byte {
	b, err := proto.Marshal(m)
	if err != nil {
		panic(err)
	}
	return b
}

func pprofProfile() *pprof.Profile {
	f1 := &pprof.Function{ID: 1, Name: "main.work", SystemName: "main.work", Filename: "main.go"}
	f2 := &pprof.Function{ID: 2, Name: "main.main", SystemName: "main.main", Filename: "main.go"}
	l1 := &pprof.Location{ID: 1, Address: 0x1000, Line: []pprof.Line{{Function: f1, Line: 10}}}
	l2 := &pprof.Location{ID: 2, Address: 0x2000, Line: []pprof.Line{{Function: f2, Line: 20}}}
	return &pprof.Profile{
		SampleType:    []*pprof.ValueType{{Type: "samples", Unit: "count"}, {Type: "cpu", Unit: "nanoseconds"}},
		PeriodType:    &pprof.ValueType{Type: "cpu", Unit: "nanoseconds"},
		Period:        10000000,
		TimeNanos:     1700000000000000000,
		DurationNanos: 10000000000,
		Sample: []*pprof.Sample{
			{Location: []*pprof.Location{l1, l2}, Value: []int64{3, 30000000}},
			{Location: []*pprof.Location{l2}, Value: []int64{1, 10000000}},
		},
		Location: []*pprof.Location{l1, l2},
		Function: []*pprof.Function{f1, f2},
	}
}

func pprofGz(p *pprof.Profile) []byte {
	var b bytes.Buffer
	if err := p.Write(&b); err != nil { // gzip-compressed protobuf
		panic(err)
	}
	return b.Bytes()
}

func pprofRaw(p *pprof.Profile) []byte {
	var b bytes.Buffer
	if err := p.WriteUncompressed(&b); err != nil {
		panic(err)
	}
	return b.Bytes()
}

func multipartBody(field, filename string, content []byte, closing bool) []byte {
	var b bytes.Buffer
	w := multipart.NewWriter(&b)
	w.SetBoundary(pprofBoundary)
	fw, _ := w.CreateFormFile(field, filename)
	fw.Write(content)
	if closing {
		w.Close()
	}
	return b.Bytes()
}

func gz(b []byte) []byte {
	var out bytes.Buffer
	w := gzip.NewWriter(&out)
	w.Write(b)
	w.Close()
	return out.Bytes()
}

func snappyFramed(b []byte) []byte {
	var out bytes.Buffer
	w := snappy.NewBufferedWriter(&out)
	w.Write(b)
	w.Close()
	return out.Bytes()
}

// seedBody returns the valid seed of a family.
func seedBody(family, marker string) []byte {
	switch family {
	case "loki_json":
		return []byte(lokiJSONSeed(marker).String())
	case "loki_proto":
		return snappy.Encode(nil, mustMarshal(lokiProtoMsg(marker)))
	case "influx":
		return []byte(influxSeed(marker))
	case "dd_cf":
		return []byte(ndjson(ddCFLines(marker)))
	case "dd_series":
		return []byte(ddSeriesSeed(marker).String())
	case "dd_logs":
		return []byte(ddLogsSeed(marker).String())
	case "otlp_logs":
		return mustMarshal(otlpLogsMsg(marker))
	case "prom_rw":
		return snappy.Encode(nil, mustMarshal(promMsg(marker)))
	case "elastic_doc":
		return []byte(elasticDocSeed(marker).String())
	case "elastic_bulk":
		return []byte(ndjson(elasticBulkLines(marker)))
	case "zipkin_json":
		return []byte(jA(zipkinSpan(marker, 1), zipkinSpan("", 2)).String())
	case "zipkin_ndjson":
		return []byte(ndjson([]*jnode{zipkinSpan(marker, 1), zipkinSpan("", 2)}))
	case "otlp_traces":
		return mustMarshal(otlpTracesMsg(marker))
	case "pprof_multipart":
		return multipartBody("profile", "profile.pprof", pprofGz(pprofProfile()), true)
	case "pprof_binary":
		return pprofGz(pprofProfile())
	case "health", "unsupported_ct":
		return nil
	}
	panic("no seed for family " + family)
}

// ---------------------------------------------------------------------------------------------------------------
// generators

// the 14 syntax-significant bytes of alphabet (i)
var alphabet14 = []byte{'{', '}', '[', ']', '"', ':', ',', '\\', '0', '1', 'a', '\n', 0x00, 0xff}

func bytesUpTo(n int) [][]byte {
	out := [][]byte{{}}
	prev := [][]byte{{}}
	for l := 1; l <= n; l++ {
		var cur [][]byte
		for _, p := range prev {
			for _, c := range alphabet14 {
				s := append(append([]byte{}, p...), c)
				cur = append(cur, s)
			}
		}
		out = append(out, cur...)
		prev = cur
	}
	return out
}

type bodyVariant struct {
	Body []byte
	Gen  string
	Desc string
}

// truncations: every proper prefix of b.
func truncations(b []byte, what string) []bodyVariant {
	var out []bodyVariant
	for k := 0; k < len(b); k++ {
		out = append(out, bodyVariant{append([]byte{}, b[:k]...), "trunc", fmt.Sprintf("%s truncated at %d/%d", what, k, len(b))})
	}
	return out
}

func jsonVariants(seed *jnode, thorough bool, wrap func(*jnode) string) []bodyVariant {
	muts := jsonMutations(seed)
	var out []bodyVariant
	for _, m := range muts {
		c := seed.clone()
		if m.apply(c) {
			out = append(out, bodyVariant{[]byte(wrap(c)), "mut1", m.Name})
		}
	}
	for i := 0; i < len(muts); i++ {
		for j := i + 1; j < len(muts); j++ {
			if !thorough && !(muts[i].Core && muts[j].Core) {
				continue
			}
			c := seed.clone()
			// later path first: the earlier path stays valid
			if muts[j].apply(c) && muts[i].apply(c) {
				out = append(out, bodyVariant{[]byte(wrap(c)), "mut2", muts[i].Name + "+" + muts[j].Name})
			}
		}
	}
	return out
}

// line-oriented families: mutate one line of the seed, keep the others.
func ndjsonVariants(lines []*jnode, thorough bool) []bodyVariant {
	var out []bodyVariant
	for li := range lines {
		li := li
		vs := jsonVariants(lines[li], thorough, func(n *jnode) string {
			cp := append([]*jnode{}, lines...)
			cp[li] = n
			return ndjson(cp)
		})
		for i := range vs {
			vs[i].Desc = fmt.Sprintf("line%d:%s", li, vs[i].Desc)
		}
		out = append(out, vs...)
	}
	// line-level structure
	out = append(out,
		bodyVariant{[]byte(strings.ReplaceAll(ndjson(lines), "\n", "\r\n")), "mut1", "crlf_line_ends"},
		bodyVariant{[]byte(strings.TrimSuffix(ndjson(lines), "\n")), "mut1", "no_final_newline"},
		bodyVariant{[]byte("\n\n" + ndjson(lines) + "\n\n"), "mut1", "blank_lines_around"},
		bodyVariant{[]byte(strings.ReplaceAll(ndjson(lines), "\n", "\n\n")), "mut1", "blank_line_between"},
		bodyVariant{[]byte(ndjson(lines[:1]) + strings.Repeat("x", 70000) + "\n"), "mut1", "line_longer_than_scanner_buffer"},
		bodyVariant{[]byte(ndjson(append(append([]*jnode{}, lines...), lines...))), "mut1", "all_lines_twice"},
	)
	return out
}

type protoMut struct {
	Name string
	Core bool
}

// protoVariants applies every single and every pair of the named mutations to a fresh message.
func protoVariants[M proto.Message](fresh func() M, muts []string, apply func(m M, name string), thorough bool, encode func(M) []byte) []bodyVariant {
	var out []bodyVariant
	for _, a := range muts {
		m := fresh()
		apply(m, a)
		out = append(out, bodyVariant{encode(m), "mut1", a})
	}
	for i := 0; i < len(muts); i++ {
		for j := i + 1; j < len(muts); j++ {
			m := fresh()
			apply(m, muts[i])
			apply(m, muts[j])
			out = append(out, bodyVariant{encode(m), "mut2", muts[i] + "+" + muts[j]})
		}
	}
	return out
}

var otlpTraceMuts = []string{"resource_nil", "resource_attrs_empty", "scope_nil", "scope_spans_empty", "spans_empty", "span_nil_entry",
	"trace_id_empty", "trace_id_1", "trace_id_15", "trace_id_17", "trace_id_32", "span_id_empty", "span_id_7", "span_id_9",
	"parent_id_empty", "parent_id_9", "name_empty", "start_zero", "start_max", "end_before_start", "attr_value_nil",
	"attr_anyvalue_empty", "attr_nested_kvlist", "attr_nested_array", "attr_bytes", "attr_key_empty", "attr_duplicate",
	"resource_spans_twice", "span_twice", "kind_huge", "status_set", "events_links"}

func applyOtlpTraceMut(m *tracepb.TracesData, name string) {
	rs := m.ResourceSpans[0]
	var sp *tracepb.Span
	if len(rs.ScopeSpans) > 0 && len(rs.ScopeSpans[0].Spans) > 0 {
		sp = rs.ScopeSpans[0].Spans[0]
	}
	withSpan := func(f func(*tracepb.Span)) {
		if sp != nil {
			f(sp)
		}
	}
	switch name {
	case "resource_nil":
		rs.Resource = nil
	case "resource_attrs_empty":
		if rs.Resource != nil {
			rs.Resource.Attributes = nil
		}
	case "scope_nil":
		if len(rs.ScopeSpans) > 0 {
			rs.ScopeSpans[0].Scope = nil
		}
	case "scope_spans_empty":
		rs.ScopeSpans = nil
	case "spans_empty":
		if len(rs.ScopeSpans) > 0 {
			rs.ScopeSpans[0].Spans = nil
		}
	case "span_nil_entry":
		if len(rs.ScopeSpans) > 0 {
			rs.ScopeSpans[0].Spans = append(rs.ScopeSpans[0].Spans, &tracepb.Span{})
		}
	case "trace_id_empty":
		withSpan(func(s *tracepb.Span) { s.TraceId = nil })
	case "trace_id_1":
		withSpan(func(s *tracepb.Span) { s.TraceId = []byte("0") })
	case "trace_id_15":
		withSpan(func(s *tracepb.Span) { s.TraceId = []byte("0123456789abcde") })
	case "trace_id_17":
		withSpan(func(s *tracepb.Span) { s.TraceId = []byte("0123456789abcdef0") })
	case "trace_id_32":
		withSpan(func(s *tracepb.Span) { s.TraceId = []byte("0123456789abcdef0123456789abcdef") })
	case "span_id_empty":
		withSpan(func(s *tracepb.Span) { s.SpanId = nil })
	case "span_id_7":
		withSpan(func(s *tracepb.Span) { s.SpanId = []byte("0123456") })
	case "span_id_9":
		withSpan(func(s *tracepb.Span) { s.SpanId = []byte("012345678") })
	case "parent_id_empty":
		withSpan(func(s *tracepb.Span) { s.ParentSpanId = nil })
	case "parent_id_9":
		withSpan(func(s *tracepb.Span) { s.ParentSpanId = []byte("012345678") })
	case "name_empty":
		withSpan(func(s *tracepb.Span) { s.Name = "" })
	case "start_zero":
		withSpan(func(s *tracepb.Span) { s.StartTimeUnixNano = 0 })
	case "start_max":
		withSpan(func(s *tracepb.Span) { s.StartTimeUnixNano = ^uint64(0) })
	case "end_before_start":
		withSpan(func(s *tracepb.Span) { s.EndTimeUnixNano = 1 })
	case "attr_value_nil":
		withSpan(func(s *tracepb.Span) { s.Attributes = append(s.Attributes, &commonpb.KeyValue{Key: "nilv"}) })
	case "attr_anyvalue_empty":
		withSpan(func(s *tracepb.Span) {
			s.Attributes = append(s.Attributes, &commonpb.KeyValue{Key: "emptyv", Value: &commonpb.AnyValue{}})
		})
	case "attr_nested_kvlist":
		withSpan(func(s *tracepb.Span) {
			s.Attributes = append(s.Attributes, &commonpb.KeyValue{Key: "kvl", Value: &commonpb.AnyValue{Value: &commonpb.AnyValue_KvlistValue{
				KvlistValue: &commonpb.KeyValueList{Values: []*commonpb.KeyValue{kv("in", "x"), {Key: "innil"}}}}}})
		})
	case "attr_nested_array":
		withSpan(func(s *tracepb.Span) {
			s.Attributes = append(s.Attributes, &commonpb.KeyValue{Key: "arr", Value: &commonpb.AnyValue{Value: &commonpb.AnyValue_ArrayValue{
				ArrayValue: &commonpb.ArrayValue{Values: []*commonpb.AnyValue{{Value: &commonpb.AnyValue_StringValue{StringValue: "e"}}, {}}}}}})
		})
	case "attr_bytes":
		withSpan(func(s *tracepb.Span) {
			s.Attributes = append(s.Attributes, &commonpb.KeyValue{Key: "by", Value: &commonpb.AnyValue{Value: &commonpb.AnyValue_BytesValue{BytesValue: []byte{0, 255}}}})
		})
	case "attr_key_empty":
		withSpan(func(s *tracepb.Span) { s.Attributes = append(s.Attributes, kv("", "v")) })
	case "attr_duplicate":
		withSpan(func(s *tracepb.Span) { s.Attributes = append(s.Attributes, kv("k", "v2"), kv("service.name", "other")) })
	case "resource_spans_twice":
		m.ResourceSpans = append(m.ResourceSpans, proto.Clone(rs).(*tracepb.ResourceSpans))
	case "span_twice":
		if sp != nil {
			rs.ScopeSpans[0].Spans = append(rs.ScopeSpans[0].Spans, proto.Clone(sp).(*tracepb.Span))
		}
	case "kind_huge":
		withSpan(func(s *tracepb.Span) { s.Kind = tracepb.Span_SpanKind(1 << 30) })
	case "status_set":
		withSpan(func(s *tracepb.Span) { s.Status = &tracepb.Status{Code: 2, Message: "err"} })
	case "events_links":
		withSpan(func(s *tracepb.Span) {
			s.Events = []*tracepb.Span_Event{{Name: "e", Attributes: []*commonpb.KeyValue{{Key: "nil"}}}}
			s.Links = []*tracepb.Span_Link{{TraceId: []byte("x"), SpanId: []byte("y")}}
		})
	default:
		panic("unknown mutation " + name)
	}
}

var otlpLogMuts = []string{"resource_nil", "scope_nil", "scope_logs_empty", "records_empty", "record_empty", "body_nil", "body_int",
	"body_kvlist", "attr_value_nil", "attr_key_empty", "attr_nested", "severity_empty", "time_zero", "time_max", "resource_logs_twice",
	"ttl_label", "long_value"}

func applyOtlpLogMut(m *logspb.LogsData, name string) {
	rl := m.ResourceLogs[0]
	var rec *logspb.LogRecord
	if len(rl.ScopeLogs) > 0 && len(rl.ScopeLogs[0].LogRecords) > 0 {
		rec = rl.ScopeLogs[0].LogRecords[0]
	}
	withRec := func(f func(*logspb.LogRecord)) {
		if rec != nil {
			f(rec)
		}
	}
	switch name {
	case "resource_nil":
		rl.Resource = nil
	case "scope_nil":
		if len(rl.ScopeLogs) > 0 {
			rl.ScopeLogs[0].Scope = nil
		}
	case "scope_logs_empty":
		rl.ScopeLogs = nil
	case "records_empty":
		if len(rl.ScopeLogs) > 0 {
			rl.ScopeLogs[0].LogRecords = nil
		}
	case "record_empty":
		if len(rl.ScopeLogs) > 0 {
			rl.ScopeLogs[0].LogRecords = append(rl.ScopeLogs[0].LogRecords, &logspb.LogRecord{})
		}
	case "body_nil":
		withRec(func(r *logspb.LogRecord) { r.Body = nil })
	case "body_int":
		withRec(func(r *logspb.LogRecord) {
			r.Body = &commonpb.AnyValue{Value: &commonpb.AnyValue_IntValue{IntValue: 5}}
		})
	case "body_kvlist":
		withRec(func(r *logspb.LogRecord) {
			r.Body = &commonpb.AnyValue{Value: &commonpb.AnyValue_KvlistValue{KvlistValue: &commonpb.KeyValueList{Values: []*commonpb.KeyValue{{Key: "nil"}}}}}
		})
	case "attr_value_nil":
		withRec(func(r *logspb.LogRecord) { r.Attributes = append(r.Attributes, &commonpb.KeyValue{Key: "nilv"}) })
	case "attr_key_empty":
		withRec(func(r *logspb.LogRecord) { r.Attributes = append(r.Attributes, kv("", "v")) })
	case "attr_nested":
		withRec(func(r *logspb.LogRecord) {
			r.Attributes = append(r.Attributes, &commonpb.KeyValue{Key: "kvl", Value: &commonpb.AnyValue{Value: &commonpb.AnyValue_KvlistValue{
				KvlistValue: &commonpb.KeyValueList{Values: []*commonpb.KeyValue{kv("in", "x"), {Key: "innil"}}}}}},
				&commonpb.KeyValue{Key: "arr", Value: &commonpb.AnyValue{Value: &commonpb.AnyValue_ArrayValue{
					ArrayValue: &commonpb.ArrayValue{Values: []*commonpb.AnyValue{{}, nil}}}}})
		})
	case "severity_empty":
		withRec(func(r *logspb.LogRecord) { r.SeverityText = "" })
	case "time_zero":
		withRec(func(r *logspb.LogRecord) { r.TimeUnixNano = 0 })
	case "time_max":
		withRec(func(r *logspb.LogRecord) { r.TimeUnixNano = ^uint64(0) })
	case "resource_logs_twice":
		m.ResourceLogs = append(m.ResourceLogs, proto.Clone(rl).(*logspb.ResourceLogs))
	case "ttl_label":
		withRec(func(r *logspb.LogRecord) {
			r.Attributes = append(r.Attributes, kv("__ttl_days__", "x"), kv("__ttl_days__", "99999"))
		})
	case "long_value":
		withRec(func(r *logspb.LogRecord) { r.Attributes = append(r.Attributes, kv("long", strings.Repeat("v", 300))) })
	default:
		panic("unknown mutation " + name)
	}
}

var lokiProtoMuts = []string{"streams_empty", "stream_nil_fields", "labels_empty", "labels_unclosed", "labels_no_quotes", "labels_bad_escape",
	"labels_empty_set", "labels_dup", "entries_empty", "entry_no_timestamp", "entry_empty", "ts_negative", "ts_nanos_huge", "ts_max",
	"line_empty", "line_nul", "stream_twice", "label_name_digit", "label_value_long"}

func applyLokiProtoMut(m *logproto.PushRequest, name string) {
	var st *logproto.StreamAdapter
	if len(m.Streams) > 0 {
		st = m.Streams[0]
	}
	withSt := func(f func(*logproto.StreamAdapter)) {
		if st != nil {
			f(st)
		}
	}
	withE := func(f func(*logproto.EntryAdapter)) {
		if st != nil && len(st.Entries) > 0 {
			f(st.Entries[0])
		}
	}
	switch name {
	case "streams_empty":
		m.Streams = nil
	case "stream_nil_fields":
		m.Streams = append(m.Streams, &logproto.StreamAdapter{})
	case "labels_empty":
		withSt(func(s *logproto.StreamAdapter) { s.Labels = "" })
	case "labels_unclosed":
		withSt(func(s *logproto.StreamAdapter) { s.Labels = `{job="verif"` })
	case "labels_no_quotes":
		withSt(func(s *logproto.StreamAdapter) { s.Labels = `{job=verif}` })
	case "labels_bad_escape":
		withSt(func(s *logproto.StreamAdapter) { s.Labels = `{job="a\qb"}` })
	case "labels_empty_set":
		withSt(func(s *logproto.StreamAdapter) { s.Labels = `{}` })
	case "labels_dup":
		withSt(func(s *logproto.StreamAdapter) { s.Labels = `{job="a",job="b"}` })
	case "entries_empty":
		withSt(func(s *logproto.StreamAdapter) { s.Entries = nil })
	case "entry_no_timestamp":
		withE(func(e *logproto.EntryAdapter) { e.Timestamp = nil })
	case "entry_empty":
		withSt(func(s *logproto.StreamAdapter) { s.Entries = append(s.Entries, &logproto.EntryAdapter{}) })
	case "ts_negative":
		withE(func(e *logproto.EntryAdapter) { e.Timestamp = &logproto.Timestamp{Seconds: -1, Nanos: -1} })
	case "ts_nanos_huge":
		withE(func(e *logproto.EntryAdapter) { e.Timestamp = &logproto.Timestamp{Seconds: 1, Nanos: 2147483647} })
	case "ts_max":
		withE(func(e *logproto.EntryAdapter) { e.Timestamp = &logproto.Timestamp{Seconds: 1 << 62} })
	case "line_empty":
		withE(func(e *logproto.EntryAdapter) { e.Line = "" })
	case "line_nul":
		withE(func(e *logproto.EntryAdapter) { e.Line = "a\x00b\u00ff" })
	case "stream_twice":
		if st != nil {
			m.Streams = append(m.Streams, proto.Clone(st).(*logproto.StreamAdapter))
		}
	case "label_name_digit":
		withSt(func(s *logproto.StreamAdapter) { s.Labels = `{_1job="a"}` })
	case "label_value_long":
		withSt(func(s *logproto.StreamAdapter) { s.Labels = `{job="` + strings.Repeat("v", 300) + `"}` })
	default:
		panic("unknown mutation " + name)
	}
}

var promMuts = []string{"timeseries_empty", "series_empty", "labels_empty", "label_nil_fields", "label_name_empty", "label_value_long",
	"samples_empty", "sample_zero", "ts_negative", "ts_max", "value_nan", "value_inf", "series_twice", "label_dup", "label_ttl"}

func applyPromMut(m *prompb.WriteRequest, name string) {
	var ts *prompb.TimeSeries
	if len(m.Timeseries) > 0 {
		ts = m.Timeseries[0]
	}
	with := func(f func(*prompb.TimeSeries)) {
		if ts != nil {
			f(ts)
		}
	}
	withS := func(f func(*prompb.Sample)) {
		if ts != nil && len(ts.Samples) > 0 {
			f(ts.Samples[0])
		}
	}
	switch name {
	case "timeseries_empty":
		m.Timeseries = nil
	case "series_empty":
		m.Timeseries = append(m.Timeseries, &prompb.TimeSeries{})
	case "labels_empty":
		with(func(t *prompb.TimeSeries) { t.Labels = nil })
	case "label_nil_fields":
		with(func(t *prompb.TimeSeries) { t.Labels = append(t.Labels, &prompb.Label{}) })
	case "label_name_empty":
		with(func(t *prompb.TimeSeries) { t.Labels = append(t.Labels, &prompb.Label{Name: "", Value: "v"}) })
	case "label_value_long":
		with(func(t *prompb.TimeSeries) {
			t.Labels = append(t.Labels, &prompb.Label{Name: "l", Value: strings.Repeat("v", 300)})
		})
	case "samples_empty":
		with(func(t *prompb.TimeSeries) { t.Samples = nil })
	case "sample_zero":
		with(func(t *prompb.TimeSeries) { t.Samples = append(t.Samples, &prompb.Sample{}) })
	case "ts_negative":
		withS(func(s *prompb.Sample) { s.Timestamp = -1 })
	case "ts_max":
		withS(func(s *prompb.Sample) { s.Timestamp = 1<<63 - 1 })
	case "value_nan":
		withS(func(s *prompb.Sample) { s.Value = nan() })
	case "value_inf":
		withS(func(s *prompb.Sample) { s.Value = inf() })
	case "series_twice":
		if ts != nil {
			m.Timeseries = append(m.Timeseries, proto.Clone(ts).(*prompb.TimeSeries))
		}
	case "label_dup":
		with(func(t *prompb.TimeSeries) { t.Labels = append(t.Labels, &prompb.Label{Name: "job", Value: "other"}) })
	case "label_ttl":
		with(func(t *prompb.TimeSeries) {
			t.Labels = append(t.Labels, &prompb.Label{Name: "__ttl_days__", Value: "-5"})
		})
	default:
		panic("unknown mutation " + name)
	}
}

func influxVariants() []bodyVariant {
	lines := map[string]string{
		"no_fields":            "cpu,host=a 1700000000000000000\n",
		"no_measurement":       ",host=a usage=1 1700000000000000000\n",
		"no_timestamp":         "cpu,host=a usage=1\n",
		"timestamp_text":       "cpu,host=a usage=1 abc\n",
		"timestamp_negative":   "cpu,host=a usage=1 -1\n",
		"timestamp_20_digits":  "cpu,host=a usage=1 99999999999999999999\n",
		"field_huge":           "cpu,host=a usage=1e400 1700000000000000000\n",
		"field_int_overflow":   "cpu,host=a usage=99999999999999999999i 1700000000000000000\n",
		"field_bool":           "cpu,host=a ok=true 1700000000000000000\n",
		"field_string_only":    "cpu,host=a note=\"x\" 1700000000000000000\n",
		"field_dup":            "cpu,host=a usage=1,usage=2 1700000000000000000\n",
		"tag_dup":              "cpu,host=a,host=b usage=1 1700000000000000000\n",
		"tag_empty_value":      "cpu,host= usage=1 1700000000000000000\n",
		"message_number":       "logs,host=a message=5 1700000000000000001\n",
		"message_bool":         "logs,host=a message=true 1700000000000000001\n",
		"message_and_more":     "logs,host=a message=\"m\",level=\"info\",n=3i 1700000000000000001\n",
		"message_unterminated": "logs,host=a message=\"m 1700000000000000001\n",
		"message_empty":        "logs,host=a message=\"\" 1700000000000000001\n",
		"escaped_everything":   "c\\ pu,ho\\=st=a\\,b us\\ age=1 1\n",
		"comment_and_blank":    "# comment\n\ncpu usage=1 1\n",
		"crlf":                 "cpu usage=1 1\r\nlogs message=\"x\" 2\r\n",
		"no_final_newline":     "cpu usage=1 1",
		"ttl_tag":              "cpu,__ttl_days__=abc usage=1 1\n",
		"unicode":              "cpü,hôst=ä üsage=1 1\n",
		"nul_byte":             "cpu,host=a usage=1 1\x00\n",
		"long_tag":             "cpu,host=" + strings.Repeat("v", 300) + " usage=1 1\n",
		"many_fields":          "cpu a=1,b=2,c=3,d=4,e=5,f=6,g=7,h=8 1\n",
	}
	keys := make([]string, 0, len(lines))
	for k := range lines {
		keys = append(keys, k)
	}
	sort.Strings(keys)
	var out []bodyVariant
	for _, k := range keys {
		out = append(out, bodyVariant{[]byte(lines[k]), "mut1", k})
	}
	for i := 0; i < len(keys); i++ {
		for j := i + 1; j < len(keys); j++ {
			out = append(out, bodyVariant{[]byte(lines[keys[i]] + lines[keys[j]]), "mut2", keys[i] + "+" + keys[j]})
		}
	}
	return out
}

func pprofVariants(multipartForm bool) []bodyVariant {
	type pm struct {
		name string
		f    func(p *pprof.Profile)
	}
	muts := []pm{
		{"no_samples", func(p *pprof.Profile) { p.Sample = nil }},
		{"sample_no_location", func(p *pprof.Profile) { p.Sample[0].Location = nil }},
		{"location_no_line", func(p *pprof.Profile) { p.Location[0].Line = nil }},
		{"period_type_unknown", func(p *pprof.Profile) { p.PeriodType = &pprof.ValueType{Type: "weird", Unit: "u"} }},
		{"period_type_empty", func(p *pprof.Profile) { p.PeriodType = &pprof.ValueType{} }},
		{"one_sample_type", func(p *pprof.Profile) {
			p.SampleType = p.SampleType[:1]
			for _, s := range p.Sample {
				s.Value = s.Value[:1]
			}
		}},
		{"values_negative", func(p *pprof.Profile) { p.Sample[0].Value = []int64{-1, -1 << 62} }},
		{"function_name_empty", func(p *pprof.Profile) { p.Function[0].Name = "" }},
		{"deep_stack", func(p *pprof.Profile) {
			l := p.Location[0]
			for i := 0; i < 600; i++ {
				p.Sample[0].Location = append(p.Sample[0].Location, l)
			}
		}},
		{"labels", func(p *pprof.Profile) {
			p.Sample[0].Label = map[string][]string{"k": {"v", "w"}}
			p.Sample[0].NumLabel = map[string][]int64{"n": {1}}
		}},
		{"sample_twice", func(p *pprof.Profile) { p.Sample = append(p.Sample, p.Sample[0]) }},
		{"time_zero", func(p *pprof.Profile) { p.TimeNanos, p.DurationNanos = 0, 0 }},
	}
	enc := func(p *pprof.Profile, raw bool) []byte {
		var b []byte
		if raw {
			b = pprofRaw(p)
		} else {
			b = pprofGz(p)
		}
		if multipartForm {
			return multipartBody("profile", "profile.pprof", b, true)
		}
		return b
	}
	var out []bodyVariant
	for i, a := range muts {
		p := pprofProfile()
		a.f(p)
		out = append(out, bodyVariant{enc(p, false), "mut1", a.name})
		for _, b := range muts[i+1:] {
			p := pprofProfile()
			func() {
				defer func() { recover() }() // e.g. no_samples + sample_no_location
				a.f(p)
				b.f(p)
				out = append(out, bodyVariant{enc(p, false), "mut2", a.name + "+" + b.name})
			}()
		}
	}
	good := pprofProfile()
	out = append(out, bodyVariant{enc(good, true), "mut1", "uncompressed_protobuf"})
	// hand-broken protobuf: a sample with fewer values than sample types (pprof.Write refuses to produce it)
	raw := pprofRaw(good)
	out = append(out, bodyVariant{wrapPprof(append(append([]byte{}, raw...), 0x12, 0x02, 0x08, 0x01), multipartForm), "mut1", "sample_without_values_appended"})
	out = append(out, bodyVariant{wrapPprof(append(append([]byte{}, raw...), 0x12, 0x04, 0x0a, 0x02, 0x63, 0x63), multipartForm), "mut1", "sample_with_unknown_location_id"})
	out = append(out, bodyVariant{wrapPprof(gz(nil), multipartForm), "mut1", "gzip_of_nothing"})
	out = append(out, bodyVariant{wrapPprof(gz(gz(raw)), multipartForm), "mut1", "double_gzip"})
	if multipartForm {
		pg := pprofGz(good)
		out = append(out,
			bodyVariant{multipartBody("other", "profile.pprof", pg, true), "mut1", "wrong_field_name"},
			bodyVariant{multipartBody("profile", "", pg, true), "mut1", "no_filename"},
			bodyVariant{multipartBody("profile", "profile.pprof", pg, false), "mut1", "no_closing_boundary"},
			bodyVariant{multipartBody("profile", "profile.pprof", nil, true), "mut1", "empty_file"},
			bodyVariant{multipartBody("profile", "profile.pprof", pprofRaw(good), true), "mut1", "file_not_gzipped"},
			bodyVariant{bytes.ReplaceAll(multipartBody("profile", "profile.pprof", pg, true), []byte(pprofBoundary), []byte("otherboundary")), "mut1", "boundary_differs_from_header"},
			bodyVariant{append(multipartBody("profile", "profile.pprof", pg, true), multipartBody("profile", "p2", pg, true)...), "mut1", "two_forms"},
			bodyVariant{[]byte("--" + pprofBoundary + "\r\n\r\n"), "mut1", "boundary_only"},
			bodyVariant{[]byte("--" + pprofBoundary + "--\r\n"), "mut1", "closing_boundary_only"},
			bodyVariant{[]byte("--\r\n"), "mut1", "empty_boundary"},
		)
	}
	return out
}

func wrapPprof(b []byte, multipartForm bool) []byte {
	if multipartForm {
		return multipartBody("profile", "profile.pprof", gz(b), true)
	}
	return b
}

// menu (iii): values tried for every query parameter
var paramMenu = []string{"", "0", "-1", "1", "1e400", "99999999999999999999", "18446744073709551615", "{", "{a}", "a{b=c}", "1700000000", "x y&z=1"}

// ---------------------------------------------------------------------------------------------------------------

type genOpts struct {
	Thorough bool
	Literals []string // string literals the ingest code compares run-time strings against (ScanLiterals)
	Headers  []string // request headers the ingest code reads
}

// Generate builds the whole input space in a fixed order.  It is a pure function of opts, run identically by the
// parent and by every worker (workers pick their inputs by index).
func Generate(o genOpts) []Input {
	var out []Input
	add := func(rs routeSpec, ct ctSpec, extraHeaders [][2]string, query string, v bodyVariant) {
		in := Input{ID: len(out), Route: rs.Template, Method: rs.Method, Family: ct.Family, Gen: v.Gen, Desc: v.Desc, Body: v.Body}
		in.SeedBody = (v.Gen == "seed" || v.Gen == "params" || v.Gen == "headers" || v.Gen == "lit") && len(v.Body) > 0 && bytes.Equal(v.Body, seedOf(ct.Family))
		in.Path = rs.Path
		if query != "" {
			in.Path += "?" + query
		}
		if ct.CT != "" {
			in.Headers = append(in.Headers, [2]string{"Content-Type", ct.CT})
		}
		in.Headers = append(in.Headers, extraHeaders...)
		out = append(out, in)
	}
	all3 := bytesUpTo(3)
	all2 := bytesUpTo(2)
	seenHandler := map[string]bool{}
	for _, rs := range routeTable {
		alias := seenHandler[rs.Handler]
		seenHandler[rs.Handler] = true
		for ci, ct := range rs.Variants {
			fam := ct.Family
			// seed
			add(rs, ct, nil, rs.Query, bodyVariant{seedBody(fam, ""), "seed", "valid seed"})
			// (i) every byte string of length <= 3 over the 14-symbol alphabet (aliases of a handler: <= 2 in quick)
			strs := all3
			sameDecoderAgain := false
			for _, prev := range rs.Variants[:ci] {
				if prev.Family == fam {
					sameDecoderAgain = true // another Content-Type value that selects the same decoder
				}
			}
			if (alias || sameDecoderAgain) && !o.Thorough {
				strs = all2
			}
			for _, s := range strs {
				add(rs, ct, nil, rs.Query, bodyVariant{s, "bytes3", fmt.Sprintf("bytes %q", s)})
			}
			if fam == "health" || fam == "unsupported_ct" {
				continue
			}
			if alias && !o.Thorough && ci > 0 {
				continue
			}
			aliasQuick := alias && !o.Thorough // same handler build as an earlier route: singles only in the quick tier
			// (ii) structural mutations, singles and pairs
			var vs []bodyVariant
			switch fam {
			case "loki_json":
				vs = jsonVariants(lokiJSONSeed(""), o.Thorough, (*jnode).String)
			case "dd_logs":
				vs = jsonVariants(ddLogsSeed(""), o.Thorough, (*jnode).String)
			case "dd_series":
				vs = jsonVariants(ddSeriesSeed(""), o.Thorough, (*jnode).String)
			case "zipkin_json":
				if o.Thorough {
					vs = jsonVariants(jA(zipkinSpan("", 1), zipkinSpan("", 2)), true, (*jnode).String)
				} else {
					// quick: mutate a one-span batch (the number of pairs is quadratic in the number of nodes)
					vs = jsonVariants(jA(zipkinSpan("", 1)), false, (*jnode).String)
				}
			case "elastic_doc":
				vs = jsonVariants(elasticDocSeed(""), o.Thorough, (*jnode).String)
			case "zipkin_ndjson":
				if o.Thorough {
					vs = ndjsonVariants([]*jnode{zipkinSpan("", 1), zipkinSpan("", 2)}, true)
				} else {
					vs = ndjsonVariants([]*jnode{zipkinSpan("", 1), jO("traceId", jS("0123456789abcdef0123456789abcde2"), "id", jS("0123456789abcde2"))}, false)
				}
			case "dd_cf":
				vs = ndjsonVariants(ddCFLines(""), o.Thorough)
			case "elastic_bulk":
				vs = ndjsonVariants(elasticBulkLines(""), o.Thorough)
			case "influx":
				vs = influxVariants()
			case "loki_proto":
				vs = protoVariants(func() *logproto.PushRequest { return lokiProtoMsg("") }, lokiProtoMuts, applyLokiProtoMut, o.Thorough,
					func(m *logproto.PushRequest) []byte { return snappy.Encode(nil, mustMarshal(m)) })
				vs = append(vs, bodyVariant{mustMarshal(lokiProtoMsg("")), "mut1", "protobuf_not_snappy_compressed"},
					bodyVariant{snappy.Encode(nil, snappy.Encode(nil, mustMarshal(lokiProtoMsg("")))), "mut1", "snappy_twice"},
					bodyVariant{snappyFramed(mustMarshal(lokiProtoMsg(""))), "mut1", "snappy_stream_format_instead_of_block"},
					bodyVariant{[]byte{0xff, 0xff, 0xff, 0xff, 0x0f, 0x00}, "mut1", "snappy_header_claims_4GiB"},
					bodyVariant{[]byte{0x80, 0x80, 0x80, 0x06, 0x00}, "mut1", "snappy_header_claims_12MiB"})
			case "prom_rw":
				vs = protoVariants(func() *prompb.WriteRequest { return promMsg("") }, promMuts, applyPromMut, o.Thorough,
					func(m *prompb.WriteRequest) []byte { return snappy.Encode(nil, mustMarshal(m)) })
				vs = append(vs, bodyVariant{mustMarshal(promMsg("")), "mut1", "protobuf_not_snappy_compressed"},
					bodyVariant{[]byte{0xff, 0xff, 0xff, 0xff, 0x0f, 0x00}, "mut1", "snappy_header_claims_4GiB"},
					bodyVariant{[]byte{0x80, 0x80, 0x80, 0x06, 0x00}, "mut1", "snappy_header_claims_12MiB"})
			case "otlp_logs":
				vs = protoVariants(func() *logspb.LogsData { return otlpLogsMsg("") }, otlpLogMuts, applyOtlpLogMut, o.Thorough,
					func(m *logspb.LogsData) []byte { return mustMarshal(m) })
			case "otlp_traces":
				vs = protoVariants(func() *tracepb.TracesData { return otlpTracesMsg("") }, otlpTraceMuts, applyOtlpTraceMut, o.Thorough,
					func(m *tracepb.TracesData) []byte { return mustMarshal(m) })
			case "pprof_multipart":
				vs = pprofVariants(true)
			case "pprof_binary":
				vs = pprofVariants(false)
			}
			seenBody := map[string]bool{}
			for _, v := range vs {
				if seenBody[string(v.Body)] || (aliasQuick && v.Gen == "mut2") {
					continue
				}
				seenBody[string(v.Body)] = true
				add(rs, ct, nil, rs.Query, v)
			}
			// truncation at every byte, plain and inside each accepted transfer framing
			seed := seedBody(fam, "")
			for _, v := range truncations(seed, "seed") {
				add(rs, ct, nil, rs.Query, v)
			}
			if !alias || o.Thorough {
				for _, v := range truncations(gz(seed), "gzip frame") {
					add(rs, ct, [][2]string{{"Content-Encoding", "gzip"}}, rs.Query, v)
				}
				add(rs, ct, [][2]string{{"Content-Encoding", "gzip"}}, rs.Query, bodyVariant{gz(seed), "seed", "valid seed, gzip"})
				for _, v := range truncations(snappyFramed(seed), "snappy stream frame") {
					add(rs, ct, [][2]string{{"Content-Encoding", "snappy"}}, rs.Query, v)
				}
				add(rs, ct, [][2]string{{"Content-Encoding", "snappy"}}, rs.Query, bodyVariant{snappyFramed(seed), "seed", "valid seed, snappy stream"})
				// corrupt one byte of the gzip frame at every position (checksum / header / deflate damage)
				if o.Thorough {
					g := gz(seed)
					for k := 0; k < len(g); k++ {
						c := append([]byte{}, g...)
						c[k] ^= 0x55
						add(rs, ct, [][2]string{{"Content-Encoding", "gzip"}}, rs.Query, bodyVariant{c, "trunc", fmt.Sprintf("gzip frame byte %d flipped", k)})
					}
				}
			}
			if (ci > 0 && fam != "loki_proto" && fam != "pprof_binary" && fam != "zipkin_ndjson") || aliasQuick {
				continue
			}
			// (iii) query parameters: every menu value for every parameter the route reads, singly (quick) and in
			// pairs (thorough); plus an unknown parameter
			params := routeParams(rs)
			base, _ := url.ParseQuery(rs.Query)
			for _, p := range params {
				for _, val := range paramMenu {
					q := cloneValues(base)
					q.Set(p, val)
					add(rs, ct, nil, q.Encode(), bodyVariant{seed, "params", fmt.Sprintf("%s=%q", p, val)})
				}
				q := cloneValues(base)
				q.Del(p)
				add(rs, ct, nil, q.Encode(), bodyVariant{seed, "params", p + " absent"})
				q = cloneValues(base)
				q[p] = []string{"1700000000", "0"}
				add(rs, ct, nil, q.Encode(), bodyVariant{seed, "params", p + " given twice"})
			}
			if o.Thorough {
				for i := 0; i < len(params); i++ {
					for j := i + 1; j < len(params); j++ {
						for _, v1 := range paramMenu {
							for _, v2 := range paramMenu {
								q := cloneValues(base)
								q.Set(params[i], v1)
								q.Set(params[j], v2)
								add(rs, ct, nil, q.Encode(), bodyVariant{seed, "params", fmt.Sprintf("%s=%q,%s=%q", params[i], v1, params[j], v2)})
							}
						}
					}
				}
			}
			// header combinations (full product of the small menus)
			for _, ttl := range []string{"", "0", "7", "-1", "65536", "abc"} {
				for _, async := range []string{"", "0", "1", "x"} {
					for _, dsn := range []string{"", "nonexistent-node"} {
						for _, meta := range []string{"", "{\"k\":1}"} {
							var hs [][2]string
							desc := ""
							for _, h := range [][2]string{{"X-Ttl-Days", ttl}, {"X-Async-Insert", async}, {"X-CH-DSN", dsn}, {"X-Scope-Meta", meta}} {
								if h[1] != "" {
									hs = append(hs, h)
									desc += h[0] + "=" + h[1] + " "
								}
							}
							if len(hs) == 0 {
								continue
							}
							add(rs, ct, hs, rs.Query, bodyVariant{seed, "headers", strings.TrimSpace(desc)})
						}
					}
				}
			}
			// (v) every string literal the ingest code compares run-time strings against (found in the source at run
			// time), alone and embedded, as value of every query parameter, of every header the code reads, and as body
			if !alias {
				for _, l := range o.Literals {
					for _, val := range []string{l, "x" + l + "y"} {
						for _, p := range params {
							q := cloneValues(base)
							q.Set(p, val)
							add(rs, ct, nil, q.Encode(), bodyVariant{seed, "lit", fmt.Sprintf("%s=%q", p, val)})
						}
						for _, h := range o.Headers {
							if val != l && !o.Thorough {
								break // quick: headers get the literal itself only
							}
							if h == "Content-Type" {
								continue // selects the decoder: covered by the Content-Type menus
							}
							add(rs, ct, [][2]string{{h, val}}, rs.Query, bodyVariant{seed, "lit", fmt.Sprintf("%s: %q", h, val)})
						}
						add(rs, ct, nil, rs.Query, bodyVariant{[]byte(val), "lit", fmt.Sprintf("body %q", val)})
					}
				}
			}
			for _, ce := range []string{"br", "GZIP", "gzip, gzip", "identity", "deflate"} {
				add(rs, ct, [][2]string{{"Content-Encoding", ce}}, rs.Query, bodyVariant{seed, "headers", "Content-Encoding=" + ce})
			}
			for _, c := range []string{"application/json; charset=utf-8", "APPLICATION/JSON", "application/x-protobuf; proto=x", "multipart/form-data", "ndjson; x", "*/*", "text/plain", "\x00"} {
				if c == ct.CT {
					continue
				}
				in := Input{ID: len(out), Route: rs.Template, Method: rs.Method, Family: "any_ct", Gen: "headers", Desc: "Content-Type=" + c + " with the " + fam + " seed",
					Body: seed, Path: rs.Path, Headers: [][2]string{{"Content-Type", c}}}
				if rs.Query != "" {
					in.Path += "?" + rs.Query
				}
				out = append(out, in)
			}
		}
	}
	// order: seeds, single mutations, parameter / header menus, truncations, short byte strings, and pairs of mutations
	// last (if the internal deadline ever cuts a run short, what is left unexplored is the tail of the pairs)
	prio := map[string]int{"seed": 0, "mut1": 1, "params": 2, "headers": 3, "lit": 3, "trunc": 4, "bytes3": 5, "mut2": 6}
	sort.SliceStable(out, func(i, j int) bool { return prio[out[i].Gen] < prio[out[j].Gen] })
	for i := range out {
		out[i].ID = i
	}
	return out
}

func cloneValues(v url.Values) url.Values {
	c := url.Values{}
	for k, vs := range v {
		c[k] = append([]string{}, vs...)
	}
	return c
}

func routeParams(rs routeSpec) []string {
	switch rs.Handler {
	case "ingest":
		return []string{"from", "until", "name"}
	case "influx":
		return []string{"precision", "bucket"}
	case "dd_cf", "dd_logs":
		return []string{"ddsource"}
	}
	return []string{"unknown_param"}
}

func nan() float64 { var z float64; return z / z }
func inf() float64 { var z float64; return 1 / z }

// ---------------------------------------------------------------------------------------------------------------
// reference acceptance rule ("is this body well-formed for the decoder that reads it?"), deliberately boring: it
// only checks framing/syntax, so that `2xx => wellFormed` can be demanded without asking for more than the statement.
// Returns ok and, when not ok, a short token naming what is broken (used in the violation class).

func wellFormed(in *Input) (bool, string) {
	body := in.Body
	switch in.header("Content-Encoding") {
	case "":
	case "gzip":
		r, err := gzip.NewReader(bytes.NewReader(body))
		if err != nil {
			return false, "gzip_header_broken"
		}
		var buf bytes.Buffer
		if _, err := buf.ReadFrom(r); err != nil {
			return false, "gzip_stream_broken"
		}
		body = buf.Bytes()
	case "snappy":
		var buf bytes.Buffer
		if _, err := buf.ReadFrom(snappy.NewReader(bytes.NewReader(body))); err != nil {
			return false, "snappy_stream_broken"
		}
		body = buf.Bytes()
	default:
		return false, "unsupported_content_encoding"
	}
	jsonDoc := func(b []byte) bool { return json.Valid(b) }
	ndjsonOK := func(b []byte) (bool, string) {
		for _, l := range bytes.Split(b, []byte("\n")) {
			l = bytes.TrimSuffix(l, []byte("\r"))
			if len(l) == 0 {
				continue
			}
			if !json.Valid(l) {
				dec := json.NewDecoder(bytes.NewReader(l))
				var v any
				if dec.Decode(&v) == nil {
					return false, "trailing_data_after_json_value_in_line"
				}
				return false, "invalid_json_line"
			}
		}
		return true, ""
	}
	unsnap := func(b []byte) []byte { // writer/controller withUnsnappyRequest: block format, raw body on failure
		if d, err := snappy.Decode(nil, b); err == nil {
			return d
		}
		return b
	}
	switch in.Family {
	case "loki_json", "dd_logs", "dd_series", "zipkin_json":
		if !jsonDoc(body) {
			// name the common special case: one complete JSON document followed by more bytes
			dec := json.NewDecoder(bytes.NewReader(body))
			var v any
			if dec.Decode(&v) == nil {
				return false, "trailing_data_after_json_document"
			}
			return false, "invalid_json"
		}
	case "zipkin_ndjson", "dd_cf", "elastic_bulk":
		if ok, why := ndjsonOK(body); !ok {
			return false, why
		}
	case "loki_proto":
		if proto.Unmarshal(unsnap(body), &logproto.PushRequest{}) != nil {
			return false, "invalid_protobuf"
		}
	case "prom_rw":
		if proto.Unmarshal(unsnap(body), &prompb.WriteRequest{}) != nil {
			return false, "invalid_protobuf"
		}
	case "otlp_logs":
		if proto.Unmarshal(body, &logspb.LogsData{}) != nil {
			return false, "invalid_protobuf"
		}
	case "otlp_traces":
		if proto.Unmarshal(body, &tracepb.TracesData{}) != nil {
			return false, "invalid_protobuf"
		}
	case "pprof_binary":
		if _, err := pprof.ParseData(body); err != nil {
			return false, "invalid_pprof"
		}
	case "pprof_multipart":
		r := multipart.NewReader(bytes.NewReader(body), pprofBoundary)
		form, err := r.ReadForm(1 << 24)
		if err != nil {
			// the implementation sniffs the boundary from the body instead of the header: accept any boundary
			if i := bytes.Index(body, []byte("\n")); i > 2 && bytes.HasPrefix(body, []byte("--")) {
				r = multipart.NewReader(bytes.NewReader(body), strings.TrimRight(string(body[2:i]), "\r"))
				form, err = r.ReadForm(1 << 24)
			}
			if err != nil {
				return false, "invalid_multipart"
			}
		}
		fhs := form.File["profile"]
		if len(fhs) == 0 {
			return false, "no_profile_part"
		}
		f, err := fhs[0].Open()
		if err != nil {
			return false, "invalid_multipart"
		}
		var buf bytes.Buffer
		buf.ReadFrom(f)
		f.Close()
		if _, err := pprof.ParseData(buf.Bytes()); err != nil {
			return false, "invalid_pprof"
		}
	case "unsupported_ct":
		return false, "unsupported_content_type"
	case "influx", "elastic_doc", "health", "any_ct":
		// no independent syntax rule: only "a response is produced, status from the valid set" is demanded
	}
	return true, ""
}

// ---------------------------------------------------------------------------------------------------------------
// size classes: valid bodies derived from the seeds that cross the decoders' internal thresholds — the request-wide
// 1000-point flush (entries per stream / samples per series / spans per batch in 999..2500, alone and after a first
// series of 500 so that the flush falls INSIDE a series) and the 1 MiB chunk flush.  They are run in "shared batch"
// workers: another client's valid push is already waiting in the same insert-service batch when the sized request
// arrives, and both go to ClickHouse in one block.

func sizedBody(family string, n int, lineLen int, twoSeries bool) []byte {
	line := func(i int) string {
		s := fmt.Sprintf("sized line %d", i)
		if lineLen > len(s) {
			s += strings.Repeat("x", lineLen-len(s))
		}
		return s
	}
	first := 0
	if twoSeries {
		first = 500 // a first stream / series of 500 entries: the 1000-point flush falls inside the second one
	}
	switch family {
	case "loki_json":
		mk := func(job string, cnt, off int) *jnode {
			vals := make([]*jnode, cnt)
			for i := range vals {
				vals[i] = jA(jS(fmt.Sprint(1700000000000000000+int64(off+i))), jS(line(off+i)))
			}
			return jO("stream", jO("job", jS(job)), "values", jA(vals...))
		}
		streams := []*jnode{}
		if first > 0 {
			streams = append(streams, mk("sized_first", first, 0))
		}
		streams = append(streams, mk("sized", n, first))
		return []byte(jO("streams", jA(streams...)).String())
	case "loki_proto":
		mk := func(job string, cnt, off int) *logproto.StreamAdapter {
			st := &logproto.StreamAdapter{Labels: `{job="` + job + `"}`}
			for i := 0; i < cnt; i++ {
				st.Entries = append(st.Entries, &logproto.EntryAdapter{Timestamp: &logproto.Timestamp{Seconds: 1700000000, Nanos: int32(off + i)}, Line: line(off + i)})
			}
			return st
		}
		req := &logproto.PushRequest{}
		if first > 0 {
			req.Streams = append(req.Streams, mk("sized_first", first, 0))
		}
		req.Streams = append(req.Streams, mk("sized", n, first))
		return snappy.Encode(nil, mustMarshal(req))
	case "prom_rw":
		mk := func(name string, cnt, off int) *prompb.TimeSeries {
			ts := &prompb.TimeSeries{Labels: []*prompb.Label{{Name: "__name__", Value: name}, {Name: "job", Value: "sized"}}}
			for i := 0; i < cnt; i++ {
				ts.Samples = append(ts.Samples, &prompb.Sample{Value: float64(i), Timestamp: 1700000000000 + int64(off+i)})
			}
			return ts
		}
		req := &prompb.WriteRequest{}
		if first > 0 {
			req.Timeseries = append(req.Timeseries, mk("sized_first", first, 0))
		}
		req.Timeseries = append(req.Timeseries, mk("sized_metric", n, first))
		return snappy.Encode(nil, mustMarshal(req))
	case "influx":
		var b strings.Builder
		for i := 0; i < first+n; i++ {
			if lineLen > 0 {
				fmt.Fprintf(&b, "logs,host=a message=\"%s\" %d\n", line(i), 1700000000000000000+int64(i))
			} else {
				fmt.Fprintf(&b, "cpu,host=a usage=%d %d\n", i, 1700000000000000000+int64(i))
			}
		}
		return []byte(b.String())
	case "dd_logs":
		items := make([]*jnode, first+n)
		for i := range items {
			items[i] = jO("ddsource", jS("nginx"), "hostname", jS("h1"), "message", jS(line(i)), "service", jS("svc"), "timestamp", jN(fmt.Sprint(1700000000000+int64(i))))
		}
		return []byte(jA(items...).String())
	case "dd_series":
		mk := func(name string, cnt, off int) *jnode {
			pts := make([]*jnode, cnt)
			for i := range pts {
				pts[i] = jO("timestamp", jN(fmt.Sprint(1700000000+int64(off+i))), "value", jN(fmt.Sprint(i)))
			}
			return jO("metric", jS(name), "points", jA(pts...))
		}
		series := []*jnode{}
		if first > 0 {
			series = append(series, mk("sized.first", first, 0))
		}
		series = append(series, mk("sized.x", n, first))
		return []byte(jO("series", jA(series...)).String())
	case "dd_cf":
		var b strings.Builder
		for i := 0; i < first+n; i++ {
			b.WriteString(jO("EventType", jS("fetch"), "ScriptName", jS(line(i)), "EventTimestampMs", jN(fmt.Sprint(1700000000000+int64(i)))).String())
			b.WriteByte('\n')
		}
		return []byte(b.String())
	case "otlp_logs":
		m := otlpLogsMsg("")
		rec := m.ResourceLogs[0].ScopeLogs[0].LogRecords[0]
		var recs []*logspb.LogRecord
		for i := 0; i < first+n; i++ {
			r := proto.Clone(rec).(*logspb.LogRecord)
			r.TimeUnixNano = 1700000000000000000 + uint64(i)
			r.Body = &commonpb.AnyValue{Value: &commonpb.AnyValue_StringValue{StringValue: line(i)}}
			recs = append(recs, r)
		}
		m.ResourceLogs[0].ScopeLogs[0].LogRecords = recs
		return mustMarshal(m)
	case "otlp_traces":
		m := otlpTracesMsg("")
		sp := m.ResourceSpans[0].ScopeSpans[0].Spans[0]
		var spans []*tracepb.Span
		for i := 0; i < first+n; i++ {
			s := proto.Clone(sp).(*tracepb.Span)
			s.SpanId = []byte(fmt.Sprintf("%08d", i))
			s.Name = line(i)
			spans = append(spans, s)
		}
		m.ResourceSpans[0].ScopeSpans[0].Spans = spans
		return mustMarshal(m)
	case "zipkin_json", "zipkin_ndjson":
		spans := make([]*jnode, first+n)
		for i := range spans {
			spans[i] = jO("traceId", jS("0123456789abcdef0123456789abcdef"), "id", jS(fmt.Sprintf("%016x", i+1)), "name", jS(line(i)),
				"timestamp", jN("1700000000000000"), "duration", jN("1000"), "localEndpoint", jO("serviceName", jS("svc")), "tags", jO("k", jS("v")))
		}
		if family == "zipkin_json" {
			return []byte(jA(spans...).String())
		}
		return []byte(ndjson(spans))
	case "elastic_bulk":
		var lines []*jnode
		for i := 0; i < first+n; i++ {
			lines = append(lines, jO("index", jO("_index", jS("idx"))), jO("message", jS(line(i))))
		}
		return []byte(ndjson(lines))
	case "elastic_doc":
		return []byte(jO("message", jS(line(0)), "n", jN(fmt.Sprint(n))).String())
	case "pprof_multipart", "pprof_binary":
		p := pprofProfile()
		base := p.Sample[0]
		p.Sample = nil
		for i := 0; i < first+n; i++ {
			s := *base
			s.Value = []int64{int64(i + 1), int64(i+1) * 1000}
			p.Sample = append(p.Sample, &s)
		}
		if lineLen > 0 {
			p.Function[0].Name = line(0)
		}
		if family == "pprof_multipart" {
			return multipartBody("profile", "profile.pprof", pprofGz(p), true)
		}
		return pprofGz(p)
	}
	return nil
}

// GenerateSizes builds the size-class inputs (IDs start at firstID).
func GenerateSizes(o genOpts, firstID int) []Input {
	var out []Input
	counts := []int{1001, 1500}
	if o.Thorough {
		counts = []int{999, 1000, 1001, 1500, 2500}
	}
	done := map[string]bool{}
	for _, rs := range routeTable {
		for _, ct := range rs.Variants {
			fam := ct.Family
			if done[fam] || fam == "health" || fam == "unsupported_ct" {
				continue
			}
			done[fam] = true
			add := func(desc string, body []byte) {
				if body == nil {
					return
				}
				in := Input{ID: firstID + len(out), Route: rs.Template, Method: rs.Method, Path: rs.Path, Family: fam, Gen: "size", Desc: desc, Body: body}
				if rs.Query != "" {
					in.Path += "?" + rs.Query
				}
				if ct.CT != "" {
					in.Headers = [][2]string{{"Content-Type", ct.CT}}
				}
				out = append(out, in)
			}
			if fam == "elastic_doc" {
				add("one document of 1.2 MiB", sizedBody(fam, 1, 1200*1024, false))
				continue
			}
			for _, n := range counts {
				add(fmt.Sprintf("%d entries in one stream/series/batch", n), sizedBody(fam, n, 0, false))
				if n == 1500 || o.Thorough {
					add(fmt.Sprintf("500 entries in a first stream/series, then %d in the second", n), sizedBody(fam, n, 0, true))
				}
			}
			// crossing the 1 MiB chunk flush: 5 entries of 300 KiB each, and (metric / span protocols, whose size is
			// counted per point) 45 000 points
			switch fam {
			case "prom_rw", "dd_series":
				add("45000 points in one series (crosses the 1 MiB chunk flush)", sizedBody(fam, 45000, 0, false))
			case "pprof_multipart", "pprof_binary":
				add("function name of 1.2 MiB", sizedBody(fam, 2, 1200*1024, false))
			default:
				add("5 entries of 300 KiB (crosses the 1 MiB chunk flush)", sizedBody(fam, 5, 300*1024, false))
			}
		}
	}
	return out
}

var seedCache = map[string][]byte{}

func seedOf(fam string) []byte {
	if b, ok := seedCache[fam]; ok {
		return b
	}
	var b []byte
	if _, ok := familyOK[fam]; ok && fam != "health" {
		b = seedBody(fam, "")
	}
	seedCache[fam] = b
	return b
}

// ---------------------------------------------------------------------------------------------------------------
// database outcome x body size

type bigSpec struct {
	Portions int `json:"portions"` // aimed number of ~1 MiB portions the decoder cuts the body into
	N        int `json:"n"`
	LineLen  int `json:"line_len"`
}

var dbOutcomes = []string{"", "all_fail", "first1_fail", "first3_fail", "fail_after_first", "slow"}

// families whose decoders cut a body into portions (chunks of ~1 MiB of accounted rows)
var portionFamilies = []string{"loki_json", "loki_proto", "prom_rw", "otlp_logs", "otlp_traces", "zipkin_json", "zipkin_ndjson",
	"dd_logs", "dd_series", "dd_cf", "influx", "elastic_bulk"}

func bigFor(fam string, portions int) *bigSpec {
	switch fam {
	case "prom_rw", "dd_series":
		return &bigSpec{portions, 40400 * portions, 0} // 26 accounted bytes per point
	case "zipkin_json", "zipkin_ndjson", "otlp_traces":
		return &bigSpec{portions, portions, 400 * 1024} // a span's name is accounted about three times (name, payload, tag)
	}
	return &bigSpec{portions, 4 * portions, 300 * 1024} // 4 entries of 300 KiB cross 1 MiB
}

// GenerateDBX crosses the database outcome with the body size.  limits = small integer limits found in doParse/doPush
// (ScanLimits).  Quick: every valid seed x every outcome; per portion family one body of 10 portions and, for every
// limit n, n+1 and 2n portions x {healthy, every INSERT fails}.  Thorough: portions {1, 2, 3, 6, 10} and
// {n-1, n, n+1, 2n} x every outcome.
func GenerateDBX(o genOpts, firstID int, limits []int) []Input {
	var out []Input
	done := map[string]bool{}
	add := func(fam, db, desc string, body []byte, big *bigSpec) {
		rs, ct := routeForFamily(fam)
		in := Input{ID: firstID + len(out), Route: rs.Template, Method: rs.Method, Path: rs.Path, Family: fam, Gen: "dbx", Desc: desc, Body: body, DB: db, Big: big}
		if db == "" {
			in.Desc += ", database healthy"
		} else {
			in.Desc += ", database " + db
		}
		in.SeedBody = big == nil
		if rs.Query != "" {
			in.Path += "?" + rs.Query
		}
		if ct.CT != "" {
			in.Headers = [][2]string{{"Content-Type", ct.CT}}
		}
		out = append(out, in)
	}
	for _, rs := range routeTable {
		for _, ct := range rs.Variants {
			fam := ct.Family
			if done[fam] || fam == "health" || fam == "unsupported_ct" {
				continue
			}
			done[fam] = true
			for _, db := range dbOutcomes[1:] {
				add(fam, db, "valid seed", seedBody(fam, ""), nil)
			}
		}
	}
	portionSet := map[int]bool{}
	if o.Thorough {
		for _, p := range []int{1, 2, 3, 6, 10} {
			portionSet[p] = true
		}
	} else {
		portionSet[10] = true
	}
	for _, n := range limits {
		if n > 16 {
			continue // 2n portions of 1 MiB each per family would not fit any budget
		}
		if o.Thorough {
			portionSet[n-1], portionSet[n], portionSet[n+1], portionSet[2*n] = true, true, true, true
		} else {
			portionSet[n+1], portionSet[2*n] = true, true
		}
	}
	var portions []int
	for p := range portionSet {
		if p >= 1 {
			portions = append(portions, p)
		}
	}
	sort.Ints(portions)
	outcomes := []string{"", "all_fail"}
	if o.Thorough {
		outcomes = dbOutcomes
	}
	for _, fam := range portionFamilies {
		for _, p := range portions {
			for _, db := range outcomes {
				add(fam, db, fmt.Sprintf("body of about %d portions", p), nil, bigFor(fam, p))
			}
		}
	}
	return out
}

// GenerateInterleaved: for every decoder family, B = the valid seed and a handful of hostile classes taken from the
// main list (first single mutations, a truncation in the middle, short garbage), each sent while another client's
// valid push of the same family waits for the retry of its refused first INSERT.
func GenerateInterleaved(o genOpts, main []Input, firstID int) []Input {
	var out []Input
	cnt := map[string]int{}
	seenRoute := map[string]string{}
	per := 6
	if o.Thorough {
		per = 40
	}
	for i := range main {
		in := main[i]
		if _, ok := familyOK[in.Family]; !ok || in.Family == "health" || len(in.Headers) > 1 {
			continue
		}
		if r, ok := seenRoute[in.Family]; ok && r != in.Route {
			continue // one route per family
		}
		seenRoute[in.Family] = in.Route
		k := in.Family + "/" + in.Gen
		switch in.Gen {
		case "seed", "mut1":
		case "trunc":
			if !strings.Contains(in.Desc, "seed truncated") || cnt[k] > 0 && cnt[k]%37 != 0 {
				cnt[k]++
				continue
			}
		case "bytes3":
			if len(in.Body) != 1 {
				continue
			}
		default:
			continue
		}
		if cnt[k+"#"] >= per {
			continue
		}
		cnt[k+"#"]++
		cnt[k]++
		in.ID = firstID + len(out)
		in.Desc = "while another client waits for its retry: " + in.Desc
		in.Gen = "ilv"
		out = append(out, in)
	}
	return out
}
