package main

import (
	"fmt"
	"strconv"
	"strings"
)

// A tiny order-preserving JSON tree (duplicate keys allowed) used to build seed bodies and their structural mutations.

type jkind int

const (
	jNull jkind = iota
	jBool
	jNum // Raw holds the literal
	jStr
	jArr
	jObj
	jRaw // Raw is emitted verbatim (used for "wrong" literals such as 1e400)
)

type jmember struct {
	Key string
	Val *jnode
}

type jnode struct {
	Kind jkind
	B    bool
	Raw  string
	S    string
	Arr  []*jnode
	Obj  []jmember
}

func jS(s string) *jnode        { return &jnode{Kind: jStr, S: s} }
func jN(raw string) *jnode      { return &jnode{Kind: jNum, Raw: raw} }
func jB(b bool) *jnode          { return &jnode{Kind: jBool, B: b} }
func jA(items ...*jnode) *jnode { return &jnode{Kind: jArr, Arr: items} }
func jRawLit(raw string) *jnode { return &jnode{Kind: jRaw, Raw: raw} }
func jNullNode() *jnode         { return &jnode{Kind: jNull} }
func jO(kv ...any) *jnode { // jO("k", node, "k2", node2)
	n := &jnode{Kind: jObj}
	for i := 0; i+1 < len(kv); i += 2 {
		n.Obj = append(n.Obj, jmember{kv[i].(string), kv[i+1].(*jnode)})
	}
	return n
}

func (n *jnode) clone() *jnode {
	if n == nil {
		return nil
	}
	c := *n
	if n.Arr != nil {
		c.Arr = make([]*jnode, len(n.Arr))
		for i, x := range n.Arr {
			c.Arr[i] = x.clone()
		}
	}
	if n.Obj != nil {
		c.Obj = make([]jmember, len(n.Obj))
		for i, m := range n.Obj {
			c.Obj[i] = jmember{m.Key, m.Val.clone()}
		}
	}
	return &c
}

func (n *jnode) render(b *strings.Builder) {
	switch n.Kind {
	case jNull:
		b.WriteString("null")
	case jBool:
		b.WriteString(strconv.FormatBool(n.B))
	case jNum, jRaw:
		b.WriteString(n.Raw)
	case jStr:
		b.WriteString(strconv.Quote(n.S)) // seeds and mutation values are plain ASCII: Go quoting == JSON quoting
	case jArr:
		b.WriteByte('[')
		for i, x := range n.Arr {
			if i > 0 {
				b.WriteByte(',')
			}
			x.render(b)
		}
		b.WriteByte(']')
	case jObj:
		b.WriteByte('{')
		for i, m := range n.Obj {
			if i > 0 {
				b.WriteByte(',')
			}
			b.WriteString(strconv.Quote(m.Key))
			b.WriteByte(':')
			m.Val.render(b)
		}
		b.WriteByte('}')
	}
}

func (n *jnode) String() string {
	var b strings.Builder
	n.render(&b)
	return b.String()
}

// jpath addresses a node: sequence of steps, each an object member index or an array index.
type jstep struct {
	Obj bool
	Idx int
	Key string
}
type jpath []jstep

func (p jpath) String() string {
	var b strings.Builder
	for _, s := range p {
		if s.Obj {
			b.WriteString("." + s.Key)
		} else {
			fmt.Fprintf(&b, "[%d]", s.Idx)
		}
	}
	if b.Len() == 0 {
		return "$"
	}
	return b.String()
}

// walk calls fn for every node together with its parent and the step leading to it (root: parent nil).
func (n *jnode) walk(path jpath, parent *jnode, fn func(path jpath, parent, node *jnode)) {
	fn(path, parent, n)
	switch n.Kind {
	case jArr:
		for i, x := range n.Arr {
			x.walk(append(append(jpath{}, path...), jstep{false, i, ""}), n, fn)
		}
	case jObj:
		for i, m := range n.Obj {
			m.Val.walk(append(append(jpath{}, path...), jstep{true, i, m.Key}), n, fn)
		}
	}
}

func (n *jnode) at(p jpath) (parent, node *jnode) {
	node = n
	for _, s := range p {
		parent = node
		if s.Obj {
			if s.Idx >= len(node.Obj) {
				return nil, nil
			}
			node = node.Obj[s.Idx].Val
		} else {
			if s.Idx >= len(node.Arr) {
				return nil, nil
			}
			node = node.Arr[s.Idx]
		}
	}
	return parent, node
}

// jmut is one structural mutation of a JSON tree: apply works on a clone; it returns false when the mutation no
// longer applies (the target disappeared through an earlier mutation of a pair).
type jmut struct {
	Name  string // e.g. delete(.streams[0].stream)
	Core  bool   // member of the reduced op set used for pairs in the quick tier
	apply func(root *jnode) bool
}

var hexKeys = map[string]bool{"traceId": true, "id": true, "parentId": true}

// jsonMutations enumerates the single structural mutations of a seed tree: for every node
// delete / duplicate (object members), and replacement by null, "", [], {}, wrong scalar type, huge number, negative
// number, deeper nesting; for arrays additionally "empty" and "duplicate first element"; for hex id strings the
// wrong-length / non-hex menu.
func jsonMutations(seed *jnode) []jmut {
	var out []jmut
	seed.walk(nil, nil, func(path jpath, parent, node *jnode) {
		p := append(jpath{}, path...)
		ps := p.String()
		replace := func(name string, core bool, mk func() *jnode) {
			out = append(out, jmut{Name: name + "(" + ps + ")", Core: core, apply: func(root *jnode) bool {
				par, cur := root.at(p)
				if cur == nil {
					return false
				}
				nv := mk()
				if par == nil {
					*root = *nv
					return true
				}
				last := p[len(p)-1]
				if last.Obj {
					par.Obj[last.Idx].Val = nv
				} else {
					par.Arr[last.Idx] = nv
				}
				return true
			}})
		}
		if len(p) > 0 {
			last := p[len(p)-1]
			if last.Obj {
				out = append(out, jmut{Name: "delete(" + ps + ")", Core: true, apply: func(root *jnode) bool {
					par, cur := root.at(p)
					if cur == nil || par == nil || par.Kind != jObj || last.Idx >= len(par.Obj) || par.Obj[last.Idx].Key != last.Key {
						return false
					}
					par.Obj = append(par.Obj[:last.Idx:last.Idx], par.Obj[last.Idx+1:]...)
					return true
				}})
				out = append(out, jmut{Name: "duplicate(" + ps + ")", Core: false, apply: func(root *jnode) bool {
					par, cur := root.at(p)
					if cur == nil || par == nil || par.Kind != jObj {
						return false
					}
					par.Obj = append(par.Obj, jmember{last.Key, cur.clone()})
					return true
				}})
			} else {
				out = append(out, jmut{Name: "drop_element(" + ps + ")", Core: false, apply: func(root *jnode) bool {
					par, cur := root.at(p)
					if cur == nil || par == nil || par.Kind != jArr {
						return false
					}
					par.Arr = append(par.Arr[:last.Idx:last.Idx], par.Arr[last.Idx+1:]...)
					return true
				}})
			}
		}
		replace("null", true, jNullNode)
		switch node.Kind {
		case jStr:
			replace("empty_string", true, func() *jnode { return jS("") })
			replace("string_to_number", true, func() *jnode { return jN("7") })
			replace("string_to_object", false, func() *jnode { return jO() })
			replace("string_to_array", false, func() *jnode { return jA() })
			replace("string_to_bool", false, func() *jnode { return jB(true) })
			replace("string_long", false, func() *jnode { return jS(strings.Repeat("A", 300)) })
			replace("string_nul_and_quote", false, func() *jnode { return jS("a\x00\"\\b") })
			if len(p) > 0 && p[len(p)-1].Obj && hexKeys[p[len(p)-1].Key] {
				for _, l := range []int{1, 15, 17, 31, 33, 64} {
					l := l
					replace(fmt.Sprintf("hex_len_%d", l), l == 15 || l == 33, func() *jnode { return jS(strings.Repeat("a", l)) })
				}
				replace("hex_non_hex", true, func() *jnode { return jS(strings.Repeat("z", len(node.S))) })
			}
		case jNum:
			replace("number_to_string", true, func() *jnode { return jS("x") })
			replace("number_to_numeric_string", false, func() *jnode { return jS(node.Raw) })
			replace("number_huge_exp", true, func() *jnode { return jRawLit("1e400") })
			replace("number_20_digits", true, func() *jnode { return jRawLit("99999999999999999999") })
			replace("number_negative", false, func() *jnode { return jRawLit("-1") })
			replace("number_zero", false, func() *jnode { return jRawLit("0") })
			replace("number_fraction", false, func() *jnode { return jRawLit("0.5") })
			replace("number_to_object", false, func() *jnode { return jO() })
			replace("number_to_bool", false, func() *jnode { return jB(false) })
		case jBool:
			replace("bool_to_string", true, func() *jnode { return jS("true") })
			replace("bool_to_number", false, func() *jnode { return jN("1") })
		case jArr:
			replace("empty_array", true, func() *jnode { return jA() })
			replace("array_to_object", true, func() *jnode { return jO() })
			replace("array_to_string", false, func() *jnode { return jS("x") })
			replace("array_to_number", false, func() *jnode { return jN("1") })
			replace("array_nested", false, func() *jnode { return jA(jA(jA())) })
			if len(node.Arr) > 0 {
				replace("array_duplicate_first", false, func() *jnode {
					c := node.clone()
					c.Arr = append(c.Arr, c.Arr[0].clone())
					return c
				})
				replace("array_of_nulls", false, func() *jnode { return jA(jNullNode(), jNullNode()) })
			}
		case jObj:
			replace("empty_object", true, func() *jnode { return jO() })
			replace("object_to_array", true, func() *jnode { return jA() })
			replace("object_to_string", false, func() *jnode { return jS("x") })
			replace("object_to_number", false, func() *jnode { return jN("1") })
		}
	})
	return out
}
