package main

// Hand-over oracle: what the parser stage handed to the insert-service stage (the helpers.SizeGetter passed to
// IInsertServiceV2.Request by a doPush goroutine) must not change between the hand-over and its consumption, whatever
// other request is parsed in between.  The pass-through decorator countingSvc is the observation point: while the gate
// collects, every Request call is digested (deep, by content) and parked BEFORE the real service sees it; the harness
// then serves another request completely, digests the parked requests again and lets them go.

import (
	"crypto/sha256"
	"fmt"
	"hash"
	"reflect"
	"sort"
	"sync"

	"github.com/metrico/qryn/writer/utils/helpers"
)

type heldReq struct {
	req    helpers.SizeGetter
	before map[string]string
}

type handoverGate struct {
	mu         sync.Mutex
	collecting bool
	held       []*heldReq
	rel        chan struct{}
}

var hoGate = &handoverGate{}

// park is called by countingSvc.Request before the real service is called.
func (g *handoverGate) park(req helpers.SizeGetter) {
	g.mu.Lock()
	if !g.collecting || req == nil {
		g.mu.Unlock()
		return
	}
	g.held = append(g.held, &heldReq{req: req, before: fieldDigests(req)})
	rel := g.rel
	g.mu.Unlock()
	<-rel
}

func (g *handoverGate) arm() {
	g.mu.Lock()
	g.collecting, g.held, g.rel = true, nil, make(chan struct{})
	g.mu.Unlock()
}

func (g *handoverGate) count() int {
	g.mu.Lock()
	defer g.mu.Unlock()
	return len(g.held)
}

// stop: later Request calls (the second request's own) pass through; returns how many are parked.
func (g *handoverGate) stop() int {
	g.mu.Lock()
	defer g.mu.Unlock()
	g.collecting = false
	return len(g.held)
}

// recheck digests the parked requests again: "<type>.<field>" of everything that changed since the hand-over.
func (g *handoverGate) recheck() []string {
	g.mu.Lock()
	held := g.held
	g.mu.Unlock()
	var out []string
	for _, h := range held {
		now := fieldDigests(h.req)
		for k, v := range h.before {
			if now[k] != v {
				out = append(out, fmt.Sprintf("%T.%s", h.req, k))
			}
		}
	}
	sort.Strings(out)
	return out
}

func (g *handoverGate) releaseAll() {
	g.mu.Lock()
	g.collecting = false
	if g.rel != nil {
		close(g.rel)
		g.rel = nil
	}
	g.held = nil
	g.mu.Unlock()
}

// fieldDigests: content digest per top-level field of the request (one entry "*" when it is not a struct).
func fieldDigests(x any) map[string]string {
	v := reflect.ValueOf(x)
	for v.IsValid() && (v.Kind() == reflect.Ptr || v.Kind() == reflect.Interface) && !v.IsNil() {
		v = v.Elem()
	}
	out := map[string]string{}
	if !v.IsValid() {
		return out
	}
	if v.Kind() != reflect.Struct {
		out["*"] = deepDigest(v)
		return out
	}
	for i := 0; i < v.NumField(); i++ {
		out[v.Type().Field(i).Name] = deepDigest(v.Field(i))
	}
	return out
}

func deepDigest(v reflect.Value) string {
	h := sha256.New()
	deepWalk(h, v, map[uintptr]bool{}, 0)
	return fmt.Sprintf("%x", h.Sum(nil)[:8])
}

// deepWalk hashes a value by CONTENT: pointers and interfaces are followed, slices / strings / maps are hashed by
// their elements (maps as a multiset of entries), addresses and capacities are not part of the digest; channels,
// functions and unsafe pointers only by kind.
func deepWalk(h hash.Hash, v reflect.Value, seen map[uintptr]bool, depth int) {
	if !v.IsValid() || depth > 40 {
		h.Write([]byte{0xfe})
		return
	}
	h.Write([]byte{byte(v.Kind())})
	switch v.Kind() {
	case reflect.Bool:
		if v.Bool() {
			h.Write([]byte{1})
		} else {
			h.Write([]byte{0})
		}
	case reflect.Int, reflect.Int8, reflect.Int16, reflect.Int32, reflect.Int64:
		fmt.Fprintf(h, "%d;", v.Int())
	case reflect.Uint, reflect.Uint8, reflect.Uint16, reflect.Uint32, reflect.Uint64, reflect.Uintptr:
		fmt.Fprintf(h, "%d;", v.Uint())
	case reflect.Float32, reflect.Float64:
		fmt.Fprintf(h, "%x;", v.Float())
	case reflect.Complex64, reflect.Complex128:
		fmt.Fprintf(h, "%v;", v.Complex())
	case reflect.String:
		fmt.Fprintf(h, "%d:", v.Len())
		h.Write([]byte(v.String()))
	case reflect.Ptr:
		if v.IsNil() {
			h.Write([]byte{0})
			return
		}
		p := v.Pointer()
		if seen[p] {
			h.Write([]byte{2})
			return
		}
		seen[p] = true
		deepWalk(h, v.Elem(), seen, depth+1)
		delete(seen, p)
	case reflect.Interface:
		if v.IsNil() {
			h.Write([]byte{0})
			return
		}
		h.Write([]byte(v.Elem().Type().String()))
		deepWalk(h, v.Elem(), seen, depth+1)
	case reflect.Slice:
		if v.IsNil() {
			h.Write([]byte{0})
			return
		}
		fmt.Fprintf(h, "%d:", v.Len())
		if v.Type().Elem().Kind() == reflect.Uint8 {
			h.Write(v.Bytes())
			return
		}
		for i := 0; i < v.Len(); i++ {
			deepWalk(h, v.Index(i), seen, depth+1)
		}
	case reflect.Array:
		for i := 0; i < v.Len(); i++ {
			deepWalk(h, v.Index(i), seen, depth+1)
		}
	case reflect.Struct:
		for i := 0; i < v.NumField(); i++ {
			deepWalk(h, v.Field(i), seen, depth+1)
		}
	case reflect.Map:
		if v.IsNil() {
			h.Write([]byte{0})
			return
		}
		var ents []string
		it := v.MapRange()
		for it.Next() {
			eh := sha256.New()
			deepWalk(eh, it.Key(), seen, depth+1)
			deepWalk(eh, it.Value(), seen, depth+1)
			ents = append(ents, string(eh.Sum(nil)))
		}
		sort.Strings(ents)
		fmt.Fprintf(h, "%d:", len(ents))
		for _, e := range ents {
			h.Write([]byte(e))
		}
	default: // Chan, Func, UnsafePointer
	}
}
