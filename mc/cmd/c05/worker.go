package main

import (
	"bufio"
	"bytes"
	"context"
	"crypto/sha256"
	"encoding/json"
	"fmt"
	"io"
	"net/http"
	"net/http/httptest"
	"os"
	"reflect"
	"regexp"
	"runtime"
	"sort"
	"strconv"
	"strings"
	"sync"
	"sync/atomic"
	"time"

	"github.com/ClickHouse/ch-go"
	"github.com/ClickHouse/ch-go/proto"
	"github.com/ClickHouse/clickhouse-go/v2/lib/driver"
	"github.com/gorilla/mux"
	clconfig "github.com/metrico/cloki-config"
	"github.com/metrico/cloki-config/config"
	"github.com/metrico/qryn/writer/ch_wrapper"
	wconfig "github.com/metrico/qryn/writer/config"
	controllerv1 "github.com/metrico/qryn/writer/controller"
	"github.com/metrico/qryn/writer/model"
	"github.com/metrico/qryn/writer/plugin"
	"github.com/metrico/qryn/writer/service"
	"github.com/metrico/qryn/writer/service/impl"
	"github.com/metrico/qryn/writer/service/registry"
	"github.com/metrico/qryn/writer/utils/helpers"
	"github.com/metrico/qryn/writer/utils/promise"
)

// ---------------------------------------------------------------------------------------------------------------
// fake ClickHouse client: always accepts; checks every INSERT block it is handed

type blockIssue struct {
	Query string         `json:"query"`
	Rows  map[string]int `json:"rows"`
}

type fakeCH struct {
	mu      sync.Mutex
	dos     int64
	issues  []blockIssue
	markers map[string]int // marker -> times seen in a string column of an accepted block
	doLog   map[string]int // INSERT statement -> blocks received since the last takeDoLog
	mode    string         // database outcome (see dbOutcomes)
	seq     int            // blocks received since setMode
	holdC   chan struct{}
	held    bool
	digests map[string]string // INSERT statement -> digest of the last accepted block (all columns, wire encoding)
}

var errInjected = fmt.Errorf("fake ClickHouse: injected INSERT failure")

// blockDigest: digest of a block as a MULTISET of rows (several decoders emit rows in map order).  One-row blocks
// and columns of plain types are covered; a multi-row block with an array / tuple column is not comparable ("").
func blockDigest(in proto.Input, rows int) string {
	if rows == 1 {
		h := sha256.New()
		for _, c := range in {
			var b proto.Buffer
			c.Data.EncodeColumn(&b)
			h.Write([]byte(c.Name))
			h.Write(b.Buf)
		}
		return fmt.Sprintf("1 row %x", h.Sum(nil)[:8])
	}
	lines := make([]string, rows)
	for _, c := range in {
		for i := 0; i < rows; i++ {
			var cell string
			switch d := c.Data.(type) {
			case *proto.ColStr:
				cell = d.Row(i)
			case *proto.ColFixedStr:
				cell = string(d.Row(i))
			default:
				v := reflect.ValueOf(c.Data)
				if v.Kind() == reflect.Ptr {
					v = v.Elem()
				}
				if v.Kind() != reflect.Slice || v.Len() != rows {
					return ""
				}
				cell = fmt.Sprint(v.Index(i).Interface())
			}
			lines[i] += c.Name + "=" + strconv.Quote(cell) + ";"
		}
	}
	sort.Strings(lines)
	h := sha256.New()
	for _, l := range lines {
		h.Write([]byte(l))
		h.Write([]byte{0})
	}
	return fmt.Sprintf("%d rows %x", rows, h.Sum(nil)[:8])
}

// hold_fail_first: the first block after setMode is held inside Do until release() and then refused; everything else
// is accepted.  While it is held, the request that sent it has been parsed and waits for its retry.
func (f *fakeCH) release() {
	f.mu.Lock()
	if f.holdC != nil {
		close(f.holdC)
		f.holdC = nil
	}
	f.mu.Unlock()
}

func (f *fakeCH) holding() bool {
	f.mu.Lock()
	defer f.mu.Unlock()
	return f.held
}

func (f *fakeCH) takeDigests() map[string]string {
	f.mu.Lock()
	defer f.mu.Unlock()
	r := f.digests
	f.digests = map[string]string{}
	return r
}

func (f *fakeCH) setMode(m string) {
	f.mu.Lock()
	f.mode, f.seq, f.held = m, 0, false
	f.mu.Unlock()
}

var errNotRectangular = fmt.Errorf("fake ClickHouse: block rejected, columns have different numbers of rows")

var markerRe = regexp.MustCompile(`verifmk[0-9]+x`)

func (f *fakeCH) Ping(ctx context.Context) error { return nil }

func (f *fakeCH) Do(ctx context.Context, q ch.Query) error {
	f.mu.Lock()
	slow := f.mode == "slow"
	var wait chan struct{}
	if f.mode == "hold_fail_first" && f.seq == 0 && !f.held {
		f.held, f.seq = true, 1
		f.holdC = make(chan struct{})
		wait = f.holdC
	}
	f.mu.Unlock()
	if wait != nil {
		select {
		case <-wait:
		case <-time.After(3 * time.Second):
		}
		return errInjected
	}
	if slow {
		time.Sleep(30 * time.Millisecond)
	}
	f.mu.Lock()
	defer f.mu.Unlock()
	atomic.AddInt64(&f.dos, 1)
	rows := map[string]int{}
	first, rect := -1, true
	for _, c := range q.Input {
		n := c.Data.Rows()
		rows[c.Name] = n
		if first < 0 {
			first = n
		} else if n != first {
			rect = false
		}
		if s, ok := c.Data.(*proto.ColStr); ok {
			for _, m := range markerRe.FindAll(s.Buf, -1) {
				f.markers[string(m)]++
			}
		}
	}
	if f.doLog != nil {
		f.doLog[q.Body]++
	}
	if !rect || first <= 0 {
		f.issues = append(f.issues, blockIssue{q.Body, rows})
		if !rect {
			return errNotRectangular // as the server would: the whole block, with every client's rows in it, is refused
		}
	}
	if f.digests != nil && rect && first > 0 {
		f.digests[q.Body] = blockDigest(q.Input, first)
	}
	f.seq++
	switch f.mode {
	case "all_fail":
		return errInjected
	case "first1_fail":
		if f.seq <= 1 {
			return errInjected
		}
	case "first3_fail":
		if f.seq <= 3 {
			return errInjected
		}
	case "fail_after_first":
		if f.seq > 1 {
			return errInjected
		}
	}
	return nil
}

func (f *fakeCH) takeDoLog() map[string]int {
	f.mu.Lock()
	defer f.mu.Unlock()
	r := f.doLog
	f.doLog = map[string]int{}
	return r
}

func (f *fakeCH) takeIssues() []blockIssue {
	f.mu.Lock()
	defer f.mu.Unlock()
	r := f.issues
	f.issues = nil
	return r
}

func (f *fakeCH) sawMarker(m string) bool {
	f.mu.Lock()
	defer f.mu.Unlock()
	return f.markers[m] > 0
}

var errNotInsert = fmt.Errorf("fake insert client: not implemented")

func (f *fakeCH) Exec(ctx context.Context, query string, args ...any) error { return errNotInsert }
func (f *fakeCH) Scan(ctx context.Context, req string, args []any, dest ...interface{}) error {
	return errNotInsert
}
func (f *fakeCH) DropIfEmpty(ctx context.Context, name string) error { return errNotInsert }
func (f *fakeCH) TableExists(ctx context.Context, name string) (bool, error) {
	return false, errNotInsert
}
func (f *fakeCH) GetDBExec(env map[string]string) func(ctx context.Context, query string, args ...[]interface{}) error {
	return func(ctx context.Context, query string, args ...[]interface{}) error { return errNotInsert }
}
func (f *fakeCH) GetVersion(ctx context.Context, k uint64) (uint64, error) { return 0, errNotInsert }
func (f *fakeCH) GetSetting(ctx context.Context, tp string, name string) (string, error) {
	return "", errNotInsert
}
func (f *fakeCH) PutSetting(ctx context.Context, tp string, name string, value string) error {
	return errNotInsert
}
func (f *fakeCH) GetFirst(req string, first ...interface{}) error { return errNotInsert }
func (f *fakeCH) GetList(req string) ([]string, error)            { return nil, errNotInsert }
func (f *fakeCH) Query(ctx context.Context, query string, args ...interface{}) (driver.Rows, error) {
	return nil, errNotInsert
}
func (f *fakeCH) QueryRow(ctx context.Context, query string, args ...interface{}) driver.Row {
	return nil
}
func (f *fakeCH) Close() error { return nil }

var _ ch_wrapper.IChClient = (*fakeCH)(nil)

// ---------------------------------------------------------------------------------------------------------------
// pass-through decorators counting calls into the insert services (tells whether an input touched a shared batch)

var svcRequests int64

type countingSvc struct{ service.IInsertServiceV2 }

func (c countingSvc) Request(req helpers.SizeGetter, insertMode int) *promise.Promise[uint32] {
	atomic.AddInt64(&svcRequests, 1)
	hoGate.park(req) // hand-over oracle (handover.go): a no-op unless the gate is collecting
	return c.IInsertServiceV2.Request(req, insertMode)
}

type countingRegistry struct{ inner registry.IServiceRegistry }

func wrapSvc(s service.IInsertServiceV2, err error) (service.IInsertServiceV2, error) {
	if err != nil || s == nil {
		return s, err
	}
	return countingSvc{s}, nil
}
func (c countingRegistry) GetTimeSeriesService(id string) (service.IInsertServiceV2, error) {
	return wrapSvc(c.inner.GetTimeSeriesService(id))
}
func (c countingRegistry) GetSamplesService(id string) (service.IInsertServiceV2, error) {
	return wrapSvc(c.inner.GetSamplesService(id))
}
func (c countingRegistry) GetMetricsService(id string) (service.IInsertServiceV2, error) {
	return wrapSvc(c.inner.GetMetricsService(id))
}
func (c countingRegistry) GetSpansService(id string) (service.IInsertServiceV2, error) {
	return wrapSvc(c.inner.GetSpansService(id))
}
func (c countingRegistry) GetSpansSeriesService(id string) (service.IInsertServiceV2, error) {
	return wrapSvc(c.inner.GetSpansSeriesService(id))
}
func (c countingRegistry) GetProfileInsertService(id string) (service.IInsertServiceV2, error) {
	return wrapSvc(c.inner.GetProfileInsertService(id))
}
func (c countingRegistry) Run()  { c.inner.Run() }
func (c countingRegistry) Stop() { c.inner.Stop() }

// ---------------------------------------------------------------------------------------------------------------
// assembly: the lines of writer.Init (writer/main_dev.go) with one difference — the database sessions are the fake
// client factory instead of plugin.Initialize's real adapters.

type ingest struct {
	router *mux.Router
	fake   *fakeCH
	routes []string // "METHOD template" walked on the real router
}

func assemble(shared bool) *ingest {
	cfg := clconfig.New(clconfig.CLOKI_READER, nil, "", "")
	cfg.ReadConfig()
	db := config.ClokiBaseDataBase{Name: "verif", Host: "fake", Port: 9000, ReadTimeout: 30, WriteTimeout: 30, TTLDays: 7}
	cfg.Setting.DATABASE_DATA = []config.ClokiBaseDataBase{db}
	cfg.Setting.SYSTEM_SETTINGS.Mode = "writer"
	cfg.Setting.SYSTEM_SETTINGS.DBTimer = 0.002 // BULK_MAX_AGE_MS=2: flush interval of the insert services
	cfg.Setting.SYSTEM_SETTINGS.RetryTimeoutS = 0
	if shared {
		// "shared batch" workers: one insert-service instance per table and a flush interval long enough for two
		// clients' rows to meet in the same batch
		cfg.Setting.SYSTEM_SETTINGS.DBTimer = 0.1
		cfg.Setting.SYSTEM_SETTINGS.ChannelsSample = 1
		cfg.Setting.SYSTEM_SETTINGS.ChannelsTimeSeries = 1
	}
	cfg.Setting.LOG_SETTINGS.Level = "error"
	wconfig.Cloki = cfg

	fake := &fakeCH{markers: map[string]int{}}
	p := &plugin.QrynWriterPlugin{}
	p.ServicesObject = plugin.ServicesObject{
		DatabaseNodeMap: []model.DataDatabasesMap{{ClokiBaseDataBase: db}},
		Dbv2Map:         []ch_wrapper.IChClient{fake},
		Dbv3Map:         []ch_wrapper.IChClientFactory{func() (ch_wrapper.IChClient, error) { return fake, nil }},
	}
	s := cfg.Setting
	poolSize := (s.SYSTEM_SETTINGS.ChannelsTimeSeries*2*2+s.SYSTEM_SETTINGS.ChannelsSample*2*11)*len(s.DATABASE_DATA) + 20
	service.CreateColPools(int32(poolSize)) // plugin.Initialize does this
	p.CreateStaticServiceRegistry(*cfg.Setting, &impl.DevInsertServiceFactory{})
	controllerv1.Registry = countingRegistry{plugin.ServiceRegistry}
	controllerv1.FPCache = plugin.GoCache
	pro := controllerv1.NewMiddlewareConfig(controllerv1.WithExtraMiddlewareDefault...)
	tempo := controllerv1.NewMiddlewareConfig(controllerv1.WithExtraMiddlewareTempo...)
	router := mux.NewRouter()
	p.RegisterRoutes(*cfg.Setting, pro, tempo, router)
	ing := &ingest{router: router, fake: fake}
	router.Walk(func(route *mux.Route, _ *mux.Router, _ []*mux.Route) error {
		tpl, _ := route.GetPathTemplate()
		ms, _ := route.GetMethods()
		for _, m := range ms {
			ing.routes = append(ing.routes, m+" "+tpl)
		}
		if len(ms) == 0 {
			ing.routes = append(ing.routes, "* "+tpl)
		}
		return nil
	})
	return ing
}

// ---------------------------------------------------------------------------------------------------------------
// goroutine census: goroutines with a frame inside the repository

type gor struct {
	ID    int
	State string
	Site  string // innermost repository function
	Top   string // innermost function at all
}

var gorHeader = regexp.MustCompile(`^goroutine (\d+) \[([^\]]*)\]:`)

func census() map[int]gor {
	buf := make([]byte, 1<<20)
	for {
		n := runtime.Stack(buf, true)
		if n < len(buf) {
			buf = buf[:n]
			break
		}
		buf = make([]byte, 2*len(buf))
	}
	out := map[int]gor{}
	for _, blk := range strings.Split(string(buf), "\n\n") {
		lines := strings.Split(blk, "\n")
		m := gorHeader.FindStringSubmatch(lines[0])
		if m == nil {
			continue
		}
		id, _ := strconv.Atoi(m[1])
		g := gor{ID: id, State: m[2]}
		for _, l := range lines[1:] {
			if strings.HasPrefix(l, "\t") || strings.HasPrefix(l, "created by ") {
				continue
			}
			fn := l
			if i := strings.LastIndex(fn, "("); i > 0 {
				fn = fn[:i]
			}
			if g.Top == "" {
				g.Top = fn
			}
			if g.Site == "" && strings.Contains(fn, "github.com/metrico/qryn/") {
				g.Site = strings.TrimPrefix(fn, "github.com/metrico/qryn/")
			}
		}
		if g.Site != "" {
			out[id] = g
		}
	}
	return out
}

func shortSite(s string) string {
	if i := strings.LastIndex(s, "/"); i >= 0 {
		s = s[i+1:]
	}
	s = strings.NewReplacer("(*", "", ")", "", "[...]", "").Replace(s)
	return s
}

// ---------------------------------------------------------------------------------------------------------------

// Result of one input (journal "E" record).
type Result struct {
	ID          int            `json:"id"`
	Status      int            `json:"status"`
	Panic       string         `json:"panic,omitempty"` // panic inside the handler goroutine (net/http would swallow it: no response)
	PanicSite   string         `json:"panic_site,omitempty"`
	Requests    int64          `json:"svc_requests"` // calls into insert services caused by the input
	Inserts     int            `json:"insert_blocks"`
	Issues      []blockIssue   `json:"block_issues,omitempty"`
	Leaked      []string       `json:"leaked,omitempty"` // goroutines of the request still alive after the grace ("site [state]")
	FollowUp    int            `json:"followup_status,omitempty"`
	FollowSeen  bool           `json:"followup_rows_seen,omitempty"`
	FollowDone  bool           `json:"followup_done,omitempty"`
	FollowIss   []blockIssue   `json:"followup_block_issues,omitempty"`
	SharedMode  bool           `json:"shared_mode,omitempty"` // the follow-up push was already waiting in the batch when the input arrived
	Interleaved bool           `json:"interleaved,omitempty"` // the input was sent while another client's push (A) waited for the retry of its refused INSERT
	AStatus     int            `json:"a_status,omitempty"`
	AHeld       bool           `json:"a_held,omitempty"`    // A's first INSERT block really was held when the input was sent
	AAltered    []string       `json:"a_altered,omitempty"` // INSERT statements whose finally accepted block for A differs from the one A yields alone
	ACompared   int            `json:"a_compared,omitempty"`
	HOHeld      int            `json:"ho_held,omitempty"`     // hand-over phase: requests of the other client's push parked between parser and insert service while the input was served
	HOAltered   []string       `json:"ho_altered,omitempty"`  // ... fields of those requests whose content changed before the insert service consumed them
	HOAStatus   int            `json:"ho_a_status,omitempty"` // ... answer to that push after its requests were let go (healthy database)
	Shared      bool           `json:"shared_batch,omitempty"` // ... and both went to the fake in the same block(s)
	Blocks      map[string]int `json:"blocks,omitempty"`
	MicroS      int64          `json:"us"`
}

type stallInfo struct {
	ID   int      `json:"id"`
	Site string   `json:"site"`  // innermost repository function of the goroutine(s) the request left running/blocked
	All  []string `json:"sites"` // every such goroutine: "site [state]"
}

type workerEnv struct {
	ing      *ingest
	out      *bufio.Writer
	deadline time.Duration
	n        int
	mkSeq    int
	base     map[int]gor // census after the previous request settled = baseline of the next one
	ilvRef   map[string]map[string]string
}

func (w *workerEnv) emit(kind string, v any) {
	b, _ := json.Marshal(v)
	fmt.Fprintf(w.out, "%s %s\n", kind, b)
	w.out.Flush()
}

type serveOut struct {
	status    int
	panicked  string
	panicSite string
}

// serve sends one request through the router; on a missed deadline it reports the stall and exits (a spinning
// goroutine cannot be stopped from inside the process).
func (w *workerEnv) serve(id int, method, path string, headers [][2]string, body []byte, base map[int]gor) serveOut {
	rec := httptest.NewRecorder()
	req := httptest.NewRequest(method, "http://ingest.local"+path, bytes.NewReader(body))
	for _, h := range headers {
		req.Header.Set(h[0], h[1])
	}
	// like net/http: the request context ends when the handler returns
	ctx, cancel := context.WithCancel(req.Context())
	req = req.WithContext(ctx)
	done := make(chan serveOut, 1)
	go func() {
		var so serveOut
		defer func() {
			if e := recover(); e != nil {
				so.panicked = fmt.Sprint(e)
				buf := make([]byte, 16<<10)
				buf = buf[:runtime.Stack(buf, false)]
				for _, l := range strings.Split(string(buf), "\n") {
					if strings.Contains(l, "github.com/metrico/qryn/") && !strings.HasPrefix(l, "\t") {
						so.panicSite = shortSite(strings.TrimPrefix(l[:strings.LastIndex(l, "(")], "github.com/metrico/qryn/"))
						break
					}
				}
			}
			so.status = rec.Code
			done <- so
		}()
		defer cancel()
		w.ing.router.ServeHTTP(rec, req)
	}()
	select {
	case so := <-done:
		return so
	case <-time.After(w.deadline):
		st := stallInfo{ID: id}
		now := census()
		var ids []int
		for gid := range now {
			if _, ok := base[gid]; !ok {
				ids = append(ids, gid)
			}
		}
		sort.Ints(ids)
		for _, gid := range ids {
			g := now[gid]
			st.All = append(st.All, shortSite(g.Site)+" ["+g.State+"]")
			// prefer a running / runnable goroutine (the spinner) over parked ones
			if st.Site == "" || strings.HasPrefix(g.State, "run") {
				if !(st.Site != "" && !strings.HasPrefix(g.State, "run")) {
					st.Site = shortSite(g.Site)
				}
			}
		}
		w.emit("S", st)
		os.Exit(3)
	}
	panic("unreachable")
}

// settle waits until no goroutine created since base (with repository frames) is left, polling with scheduler
// yields first and short sleeps later; returns what is left after the bound, and the last census taken.
// how long settle polls for the request's goroutines to go away: 50 scheduler yields, then sleeps growing from 2 ms
// to 50 ms, until the bound (solo re-runs: 10x; database-outcome inputs: 10 s, solo 20 s)
var settleBound = 800 * time.Millisecond

func settle(base map[int]gor) ([]string, map[int]gor) {
	var left []string
	var cur map[int]gor
	start := time.Now()
	for i := 0; i < 50 || time.Since(start) < settleBound; i++ {
		left = left[:0]
		cur = census()
		for id, g := range cur {
			if _, ok := base[id]; !ok {
				left = append(left, shortSite(g.Site)+" ["+strings.SplitN(g.State, ",", 2)[0]+"]")
			}
		}
		if len(left) == 0 {
			return nil, cur
		}
		switch {
		case i < 50:
			runtime.Gosched()
		case i < 400:
			time.Sleep(2 * time.Millisecond)
		default:
			time.Sleep(50 * time.Millisecond)
		}
	}
	sort.Strings(left)
	return left, cur
}

func (w *workerEnv) run(in *Input, forceFollow bool) Result {
	t0 := time.Now()
	res := Result{ID: in.ID}
	base := w.base
	if base == nil {
		base = census()
	}
	r0 := atomic.LoadInt64(&svcRequests)
	w.ing.fake.takeIssues()
	w.ing.fake.takeDoLog()
	body := in.Body
	if in.Big != nil {
		body = sizedBody(in.Family, in.Big.N, in.Big.LineLen, false)
	}
	w.ing.fake.setMode(in.DB)
	so := w.serve(in.ID, in.Method, in.Path, in.Headers, body, base)
	w.ing.fake.setMode("")
	res.Status, res.Panic, res.PanicSite = so.status, so.panicked, so.panicSite
	if in.Gen == "dbx" {
		// failing / slow database, many portions: retries may still be winding down; poll for quiescence of the
		// request's goroutines up to a generous bound (10 s, 20 s when re-run alone) before calling anything left behind
		saved := settleBound
		settleBound = 10 * time.Second
		if saved > time.Second { // solo re-run
			settleBound = 20 * time.Second
		}
		res.Leaked, w.base = settle(base)
		settleBound = saved
	} else {
		res.Leaked, w.base = settle(base)
	}
	res.Requests = atomic.LoadInt64(&svcRequests) - r0
	res.Issues = w.ing.fake.takeIssues()
	for _, n := range w.ing.fake.takeDoLog() {
		res.Inserts += n // INSERT blocks that reached the fake ClickHouse while the request was served
	}
	w.n++
	// follow-up push by "another client": whenever the input reached an insert service (it may share a batch),
	// was acknowledged or failed server-side, and periodically anyway
	if fam := followFamily(in); fam != "" && (forceFollow || res.Requests > 0 || res.Status/100 != 4 || w.n%50 == 0) {
		w.mkSeq++
		marker := fmt.Sprintf("verifmk%d%06dx", os.Getpid(), w.mkSeq)
		rs, ct := routeForFamily(fam)
		var hs [][2]string
		if ct.CT != "" {
			hs = append(hs, [2]string{"Content-Type", ct.CT})
		}
		path := rs.Path
		q := rs.Query
		if fam == "pprof_multipart" || fam == "pprof_binary" {
			q = "name=" + marker + "&from=1700000000&until=1700000010" // service_name column carries the marker
		}
		if q != "" {
			path += "?" + q
		}
		fbase := w.base
		fo := w.serve(in.ID, rs.Method, path, hs, seedBody(fam, marker), fbase)
		res.FollowDone = true
		res.FollowUp = fo.status
		if fo.panicked != "" {
			res.FollowUp = -1
		}
		res.FollowSeen = w.ing.fake.sawMarker(marker)
		res.FollowIss = w.ing.fake.takeIssues()
		var l []string
		if l, w.base = settle(fbase); len(l) > 0 && len(res.Leaked) == 0 {
			res.Leaked = l
		}
	}
	res.MicroS = time.Since(t0).Microseconds()
	return res
}

// runShared: another client's valid push of the same family is sent first and is waiting for the flush when the
// input arrives; both share the insert-service batch and reach the fake ClickHouse in one block.
func (w *workerEnv) runShared(in *Input) Result {
	t0 := time.Now()
	res := Result{ID: in.ID, SharedMode: true}
	base := w.base
	if base == nil {
		base = census()
	}
	fam := followFamily(in)
	w.ing.fake.takeIssues()
	w.ing.fake.takeDoLog()
	r0 := atomic.LoadInt64(&svcRequests)
	w.mkSeq++
	marker := fmt.Sprintf("verifmk%d%06dx", os.Getpid(), w.mkSeq)
	rs, ct := routeForFamily(fam)
	var hs [][2]string
	if ct.CT != "" {
		hs = append(hs, [2]string{"Content-Type", ct.CT})
	}
	path, q := rs.Path, rs.Query
	if fam == "pprof_multipart" || fam == "pprof_binary" {
		q = "name=" + marker + "&from=1700000000&until=1700000010"
	}
	if q != "" {
		path += "?" + q
	}
	other := make(chan serveOut, 1)
	go func() { other <- w.serve(in.ID, rs.Method, path, hs, seedBody(fam, marker), base) }()
	// wait until the other client's rows are in the batch (its calls into the insert services have been made)
	for i, last, stable := 0, int64(-1), 0; i < 2000 && stable < 10; i++ {
		time.Sleep(200 * time.Microsecond)
		if d := atomic.LoadInt64(&svcRequests) - r0; d > 0 && d == last {
			stable++
		} else {
			last, stable = d, 0
		}
	}
	so := w.serve(in.ID, in.Method, in.Path, in.Headers, in.Body, base)
	fo := <-other
	res.Status, res.Panic, res.PanicSite = so.status, so.panicked, so.panicSite
	res.FollowDone, res.FollowUp = true, fo.status
	if fo.panicked != "" {
		res.FollowUp = -1
	}
	res.FollowSeen = w.ing.fake.sawMarker(marker)
	res.Leaked, w.base = settle(base)
	res.Requests = atomic.LoadInt64(&svcRequests) - r0
	res.Issues = w.ing.fake.takeIssues()
	res.Blocks = w.ing.fake.takeDoLog()
	for _, n := range res.Blocks {
		res.Inserts += n
	}
	res.Shared = len(res.Blocks) > 0
	for _, n := range res.Blocks {
		if n != 1 {
			res.Shared = false // two blocks for one table: the two requests did not meet (or a refused block was retried)
		}
	}
	res.MicroS = time.Since(t0).Microseconds()
	return res
}

const ilvMarker = "verifmk0000000x"

// reference: the blocks the valid seed of a family (fixed marker) yields when pushed alone, twice; only INSERT
// statements whose block is identical both times are comparable (some decoders stamp rows with time.Now)
func (w *workerEnv) ilvReference(fam string, base map[int]gor) map[string]string {
	if r, ok := w.ilvRef[fam]; ok {
		return r
	}
	rs, ct := routeForFamily(fam)
	var hs [][2]string
	if ct.CT != "" {
		hs = append(hs, [2]string{"Content-Type", ct.CT})
	}
	path, q := rs.Path, rs.Query
	if fam == "pprof_multipart" || fam == "pprof_binary" {
		q = "name=" + ilvMarker + "&from=1700000000&until=1700000010"
	}
	if q != "" {
		path += "?" + q
	}
	var runs [2]map[string]string
	for i := range runs {
		w.ing.fake.takeDigests()
		w.serve(-1, rs.Method, path, hs, seedBody(fam, ilvMarker), base)
		runs[i] = w.ing.fake.takeDigests()
	}
	ref := map[string]string{}
	for k, v := range runs[1] {
		if runs[0][k] == v || strings.Contains(k, "time_series") {
			if runs[0][k] == v {
				ref[k] = v
			}
		}
	}
	if w.ilvRef == nil {
		w.ilvRef = map[string]map[string]string{}
	}
	w.ilvRef[fam] = ref
	return ref
}

// runInterleaved: history "A (valid push of another client) is parsed, its first INSERT is refused -> the input B is
// sent while A waits for its retry -> A's retry succeeds".  What ClickHouse finally receives for A must be what A
// yields alone.  GOMAXPROCS(1) makes hand-over of pooled objects between the two requests deterministic.
func (w *workerEnv) runInterleaved(in *Input) Result {
	runtime.GOMAXPROCS(1)
	t0 := time.Now()
	res := Result{ID: in.ID, Interleaved: true}
	base := w.base
	if base == nil {
		base = census()
	}
	fam := followFamily(in)
	w.ing.fake.mu.Lock()
	if w.ing.fake.digests == nil {
		w.ing.fake.digests = map[string]string{}
	}
	w.ing.fake.mu.Unlock()
	ref := w.ilvReference(fam, base)
	rs, ct := routeForFamily(fam)
	var hs [][2]string
	if ct.CT != "" {
		hs = append(hs, [2]string{"Content-Type", ct.CT})
	}
	path, q := rs.Path, rs.Query
	if fam == "pprof_multipart" || fam == "pprof_binary" {
		q = "name=" + ilvMarker + "&from=1700000000&until=1700000010"
	}
	if q != "" {
		path += "?" + q
	}
	// hand-over phase (healthy database): the other client's push A0 is parsed, every request its parser hands to an
	// insert service is parked before the service consumes it; the input is served completely; the parked requests must
	// still have the content they were handed over with; A0 is then let go and must be acknowledged.
	{
		hoGate.arm()
		a0 := make(chan serveOut, 1)
		go func() { a0 <- w.serve(in.ID, rs.Method, path, hs, seedBody(fam, ilvMarker), base) }()
		last, same := 0, 0
		for i := 0; i < 10000 && same < 25; i++ { // parked calls > 0 and unchanged for 25 polls: A0's parser is through
			time.Sleep(200 * time.Microsecond)
			if n := hoGate.count(); n > 0 && n == last {
				same++
			} else {
				last, same = n, 0
			}
			if len(a0) > 0 {
				break
			}
		}
		res.HOHeld = hoGate.stop()
		if res.HOHeld > 0 {
			w.serve(in.ID, in.Method, in.Path, in.Headers, in.Body, base)
			res.HOAltered = hoGate.recheck()
		}
		hoGate.releaseAll()
		res.HOAStatus = (<-a0).status
		settle(base) // rows the input left in a batch are flushed before the retry phase starts
	}
	w.ing.fake.takeIssues()
	w.ing.fake.takeDoLog()
	w.ing.fake.takeDigests()
	w.ing.fake.setMode("hold_fail_first")
	a := make(chan serveOut, 1)
	go func() { a <- w.serve(in.ID, rs.Method, path, hs, seedBody(fam, ilvMarker), base) }()
	for i := 0; i < 4000 && !w.ing.fake.holding(); i++ {
		time.Sleep(500 * time.Microsecond)
	}
	res.AHeld = w.ing.fake.holding()
	rB := atomic.LoadInt64(&svcRequests)
	// B; if its own rows queue up behind the held block it cannot be answered before the release: release after 300 ms
	bDone := make(chan serveOut, 1)
	go func() { bDone <- w.serve(in.ID, in.Method, in.Path, in.Headers, in.Body, base) }()
	var so serveOut
	select {
	case so = <-bDone:
		w.ing.fake.release()
	case <-time.After(300 * time.Millisecond):
		w.ing.fake.release()
		so = <-bDone
	}
	ao := <-a
	w.ing.fake.setMode("")
	res.Status, res.Panic, res.PanicSite = so.status, so.panicked, so.panicSite
	res.Requests = atomic.LoadInt64(&svcRequests) - rB
	res.AStatus = ao.status
	res.Leaked, w.base = settle(base)
	res.Issues = w.ing.fake.takeIssues()
	got := w.ing.fake.takeDigests()
	for _, n := range w.ing.fake.takeDoLog() {
		res.Inserts += n
	}
	// comparable only when B contributed no rows of its own (rejected, or touched no insert service)
	if so.status/100 != 2 || res.Requests == 0 {
		for k, want := range ref {
			if g, ok := got[k]; ok && g != "" && want != "" {
				res.ACompared++
				if g != want {
					res.AAltered = append(res.AAltered, k+": "+g+" instead of "+want)
				}
			}
		}
		sort.Strings(res.AAltered)
	}
	res.MicroS = time.Since(t0).Microseconds()
	return res
}

// followFamily: which family's valid seed is pushed after this input (same decoder family where there is one).
func followFamily(in *Input) string {
	switch in.Family {
	case "health":
		return ""
	case "unsupported_ct", "any_ct":
		for _, rs := range routeTable {
			if rs.Template == in.Route && rs.Method == in.Method {
				return rs.Variants[0].Family
			}
		}
		return ""
	}
	return in.Family
}

func routeForFamily(fam string) (routeSpec, ctSpec) {
	for _, rs := range routeTable {
		for _, ct := range rs.Variants {
			if ct.Family == fam {
				return rs, ct
			}
		}
	}
	panic("no route for family " + fam)
}

// workerMain: read inputs (JSON lines) from file starting at offset, run up to count of them, journal on stdout.
func workerMain(file string, offset int64, count int, deadline time.Duration, standby, shared bool) {
	// the journal goes to fd 3 (stdout / stderr carry whatever the repository prints, and the crash dump)
	jf := os.Stdout
	if os.Getenv("VERIF_C05_JOURNAL_FD") == "3" {
		jf = os.NewFile(3, "journal")
	}
	out := bufio.NewWriterSize(jf, 1<<16)
	w := &workerEnv{out: out, deadline: deadline}
	w.ing = assemble(shared)
	w.ing.fake.doLog = map[string]int{}
	// the insert services start their loops asynchronously: wait until the set of repository goroutines is stable
	{
		prev, same := -1, 0
		for i := 0; i < 500 && same < 5; i++ {
			time.Sleep(4 * time.Millisecond)
			sum := 0
			for id := range census() {
				sum += id*31 + 7
			}
			if sum == prev {
				same++
			} else {
				prev, same = sum, 0
			}
		}
	}
	// warm-up: every family's seed must be acknowledged and its rows must reach the fake in a rectangular block
	// (also starts every lazily created background goroutine before the first census baseline)
	fams := make([]string, 0, len(familyOK))
	for f := range familyOK {
		fams = append(fams, f)
	}
	sort.Strings(fams)
	w.deadline = 15 * time.Second // warm-up runs while the machine may be busy starting other workers
	if shared {
		// flush interval 100 ms: warm up with all seeds at once (they must all be acknowledged)
		type wu struct {
			fam string
			so  serveOut
		}
		ch := make(chan wu, len(fams))
		nfam := 0
		for _, fam := range fams {
			if fam == "health" {
				continue
			}
			nfam++
			go func(fam string) {
				rs, ct := routeForFamily(fam)
				path := rs.Path
				if rs.Query != "" {
					path += "?" + rs.Query
				}
				var hs [][2]string
				if ct.CT != "" {
					hs = [][2]string{{"Content-Type", ct.CT}}
				}
				ch <- wu{fam, w.serve(-1, rs.Method, path, hs, seedBody(fam, ""), map[int]gor{})}
			}(fam)
		}
		for i := 0; i < nfam; i++ {
			x := <-ch
			if x.so.status != familyOK[x.fam] || x.so.panicked != "" {
				w.emit("W", map[string]any{"family": x.fam})
				w.emit("F", map[string]any{"family": x.fam, "msg": fmt.Sprintf("the valid seed of family %s is answered %d %s in a shared-batch worker", x.fam, x.so.status, x.so.panicked)})
				os.Exit(4)
			}
		}
		if is := w.ing.fake.takeIssues(); len(is) > 0 {
			b, _ := json.Marshal(is)
			w.emit("W", map[string]any{"family": "all_seeds_together"})
			w.emit("F", map[string]any{"family": "all_seeds_together", "msg": "the valid seeds pushed together produce a bad block: " + string(b)})
			os.Exit(4)
		}
		settle(census())
		fams = nil
	}
	for _, fam := range fams {
		if fam == "health" {
			continue
		}
		rs, ct := routeForFamily(fam)
		w.emit("W", map[string]any{"family": fam})
		in := &Input{ID: -1, Route: rs.Template, Method: rs.Method, Path: rs.Path, Family: fam, Body: seedBody(fam, "")}
		if rs.Query != "" {
			in.Path += "?" + rs.Query
		}
		if ct.CT != "" {
			in.Headers = [][2]string{{"Content-Type", ct.CT}}
		}
		r := w.run(in, true)
		if r.Status != familyOK[fam] || r.FollowUp != familyOK[fam] || !r.FollowSeen || len(r.Issues)+len(r.FollowIss) > 0 || len(r.Leaked) > 0 || r.Panic != "" {
			b, _ := json.Marshal(r)
			w.emit("F", map[string]any{"family": fam, "msg": "the valid seed of family " + fam + " is not cleanly acknowledged", "result": json.RawMessage(b)})
			os.Exit(4)
		}
	}
	w.emit("R", map[string]any{"routes": w.ing.routes, "pid": os.Getpid()})
	if standby {
		// assignment: "file\toffset\tcount\tdeadline\n" on stdin; EOF = not needed any more
		line, err := bufio.NewReader(os.Stdin).ReadString('\n')
		if err != nil {
			return
		}
		f := strings.Split(strings.TrimSpace(line), "\t")
		if len(f) != 4 {
			w.emit("X", map[string]any{"msg": "bad assignment: " + line})
			os.Exit(4)
		}
		file = f[0]
		offset, _ = strconv.ParseInt(f[1], 10, 64)
		count, _ = strconv.Atoi(f[2])
		deadline, _ = time.ParseDuration(f[3])
		w.base = nil
	}
	w.deadline = deadline
	f, err := os.Open(file)
	if err != nil {
		w.emit("X", map[string]any{"msg": err.Error()})
		os.Exit(4)
	}
	if _, err := f.Seek(offset, io.SeekStart); err != nil {
		w.emit("X", map[string]any{"msg": err.Error()})
		os.Exit(4)
	}
	rd := bufio.NewReaderSize(f, 1<<20)
	for n := 0; count < 0 || n < count; n++ {
		line, err := rd.ReadBytes('\n')
		if len(line) == 0 && err != nil {
			break
		}
		var in Input
		if e := json.Unmarshal(line, &in); e != nil {
			w.emit("X", map[string]any{"msg": "bad input line: " + e.Error()})
			os.Exit(4)
		}
		if count == 1 {
			settleBound = 8 * time.Second
		}
		fmt.Fprintf(out, "B %d\n", in.ID)
		out.Flush()
		var r Result
		if shared {
			r = w.runShared(&in)
		} else if in.Gen == "ilv" {
			r = w.runInterleaved(&in)
		} else {
			r = w.run(&in, count == 1)
		}
		w.emit("E", r)
	}
	w.emit("D", map[string]any{"done": true})
}

var _ = http.StatusOK
