package main

import (
	"go/ast"
	"go/parser"
	gotoken "go/token"
	"net/http"
	"os"
	"path/filepath"
	"sort"
	"strconv"
	"strings"
)

// ScanLiterals reads the ingest code (writer/controller, writer/utils/errors, writer/utils/unmarshal) with go/ast and
// returns (a) every string literal the code compares a run-time string against — arguments of strings.Contains /
// HasPrefix / HasSuffix / EqualFold / Index / Count / TrimPrefix / TrimSuffix, operands of == and !=, and case labels
// of switch statements — and (b) every request-header name it reads (X.Header.Get("...")).  The literals become
// values of every query parameter, every such header and short bodies (alone and embedded as x<lit>y), so that code
// that branches on the TEXT of an error message, a header or a parameter is driven through both branches without
// anybody having to guess the magic phrase.
func ScanLiterals(repo string) (literals, headers []string) {
	lit := map[string]bool{}
	hdr := map[string]bool{}
	fset := gotoken.NewFileSet()
	str := func(e ast.Expr) (string, bool) {
		bl, ok := e.(*ast.BasicLit)
		if !ok || bl.Kind != gotoken.STRING {
			return "", false
		}
		v, err := strconv.Unquote(bl.Value)
		return v, err == nil
	}
	add := func(v string) {
		if len(v) >= 1 && len(v) <= 64 {
			lit[v] = true
		}
	}
	for _, dir := range []string{"writer/controller", "writer/utils/errors", "writer/utils/unmarshal"} {
		ents, _ := os.ReadDir(filepath.Join(repo, dir))
		for _, e := range ents {
			if e.IsDir() || !strings.HasSuffix(e.Name(), ".go") || strings.HasSuffix(e.Name(), "_test.go") {
				continue
			}
			f, err := parser.ParseFile(fset, filepath.Join(repo, dir, e.Name()), nil, parser.SkipObjectResolution)
			if err != nil {
				continue
			}
			ast.Inspect(f, func(n ast.Node) bool {
				switch x := n.(type) {
				case *ast.CallExpr:
					sel, ok := x.Fun.(*ast.SelectorExpr)
					if !ok {
						return true
					}
					if id, ok := sel.X.(*ast.Ident); ok && id.Name == "strings" {
						switch sel.Sel.Name {
						case "Contains", "HasPrefix", "HasSuffix", "EqualFold", "Index", "Count", "TrimPrefix", "TrimSuffix", "ContainsAny", "Split", "SplitN":
							for _, a := range x.Args {
								if v, ok := str(a); ok {
									add(v)
								}
							}
						}
					}
					if sel.Sel.Name == "Get" && len(x.Args) == 1 {
						if hs, ok := sel.X.(*ast.SelectorExpr); ok && hs.Sel.Name == "Header" {
							if v, ok := str(x.Args[0]); ok {
								hdr[http.CanonicalHeaderKey(v)] = true
							}
						}
					}
				case *ast.BinaryExpr:
					if x.Op == gotoken.EQL || x.Op == gotoken.NEQ {
						if v, ok := str(x.X); ok {
							add(v)
						}
						if v, ok := str(x.Y); ok {
							add(v)
						}
					}
				case *ast.CaseClause:
					for _, c := range x.List {
						if v, ok := str(c); ok {
							add(v)
						}
					}
				}
				return true
			})
		}
	}
	for v := range lit {
		literals = append(literals, v)
	}
	for v := range hdr {
		headers = append(headers, v)
	}
	sort.Strings(literals)
	sort.Strings(headers)
	return
}
