// Check C05: no request body can crash or wedge the ingest side.
//
// One binary, two roles.  The parent (default) enumerates the bounded input space (inputs.go), shards it over
// long-lived journalled worker processes (same binary, -worker) that run under `ulimit -v`, attributes every worker
// death / missed deadline to the journalled input, re-runs that input alone 3 times in fresh workers before it
// counts, judges every result against the statement and reports through verif/mc/ev.  A worker (worker.go) assembles
// the real writer router + controllers + parsers + real insert services over an always-ok fake ClickHouse client and
// sends its inputs through it with httptest.
package main

import (
	"bufio"
	"encoding/json"
	"flag"
	"fmt"
	"os"
	"os/exec"
	"path/filepath"
	"regexp"
	"runtime"
	"sort"
	"strings"
	"sync"
	"time"

	"verif/mc/ev"
)

var (
	fWorker   = flag.Bool("worker", false, "worker role")
	fFile     = flag.String("file", "", "worker: shard file")
	fOffset   = flag.Int64("offset", 0, "worker: byte offset into the shard file")
	fCount    = flag.Int("count", -1, "worker: number of inputs to run (-1 = to the end)")
	fDeadline = flag.Duration("deadline", 5*time.Second, "worker: per-request deadline")
	fShared   = flag.Bool("shared", false, "worker: shared-batch mode (one insert service per table, 250 ms flush interval, the follow-up push waits in the batch)")
	fStandby  = flag.Bool("standby", false, "worker: wait for the assignment (file, offset, count, deadline) on stdin after warming up")
)

type shardItem struct {
	ID     int
	Offset int64
}

type culprit struct {
	In     *Input
	Kind   string // "exit" | "stall"
	Site   string
	Detail string
}

type outcome struct {
	res  *Result
	cul  *culprit
	stat string
}

// runWorker starts one worker on (file, offset, count) and streams its journal.  It returns the results in order
// and, if the worker died or stalled, the culprit ID (-1 otherwise), the kind and the evidence.
type workerRun struct {
	Results    []Result
	CulpritID  int
	Kind       string // "" | exit | stall | harness
	Site       string
	Detail     string
	Routes     []string
	HarnessErr string
	ExitErr    string
}

var panicLine = regexp.MustCompile(`(?m)^(panic: .*|fatal error: .*)$`)

// proc is one worker process.  Workers are started in standby mode (they assemble the router, warm up, report
// ready and then wait for their assignment on stdin), so that a pool of ready spares hides the start-up latency
// when a worker dies.
type proc struct {
	cmd     *exec.Cmd
	stdin   *os.File
	pr      *os.File
	lines   chan string
	logPath string
	tag     string
	routes  []string
	err     string // start-up failure
	seedFam string // start-up failed while (or because) a valid seed was being served: a finding, not a harness error
}

type pool struct {
	self, scratch string
	extraArgs     string
	vlimitKB      int
	ready         chan *proc
	stop          chan struct{}
	seq           int64
	mu            sync.Mutex
	wg            sync.WaitGroup
}

func newPool(self, scratch string, vlimitKB, spares, starters int, extraArgs string) *pool {
	pl := &pool{self: self, scratch: scratch, vlimitKB: vlimitKB, extraArgs: extraArgs, ready: make(chan *proc, spares), stop: make(chan struct{})}
	for i := 0; i < starters; i++ {
		pl.wg.Add(1)
		go func() {
			defer pl.wg.Done()
			for {
				select {
				case <-pl.stop:
					return
				default:
				}
				p := pl.spawn()
				select {
				case pl.ready <- p:
				case <-pl.stop:
					p.kill()
					return
				}
			}
		}()
	}
	return pl
}

func (pl *pool) close() {
	close(pl.stop)
	pl.wg.Wait()
	for {
		select {
		case p := <-pl.ready:
			p.kill()
		default:
			return
		}
	}
}

func (p *proc) kill() {
	if p.cmd != nil && p.cmd.Process != nil {
		p.cmd.Process.Kill()
		p.cmd.Wait()
	}
	if p.stdin != nil {
		p.stdin.Close()
	}
	if p.pr != nil {
		p.pr.Close()
	}
}

// spawn starts a standby worker and waits until it reported ready (or failed).
func (pl *pool) spawn() *proc {
	pl.mu.Lock()
	pl.seq++
	tag := fmt.Sprintf("%05d", pl.seq)
	pl.mu.Unlock()
	p := &proc{tag: tag, logPath: filepath.Join(pl.scratch, "worker-"+tag+".log")}
	lf, err := os.Create(p.logPath)
	if err != nil {
		p.err = err.Error()
		return p
	}
	defer lf.Close()
	pr, pw, err := os.Pipe()
	if err != nil {
		p.err = err.Error()
		return p
	}
	sr, sw, err := os.Pipe()
	if err != nil {
		p.err = err.Error()
		return p
	}
	// `ulimit -v` caps the address space of the worker; fd 3 is the journal, stdin carries the assignment
	cmd := exec.Command("/bin/sh", "-c", fmt.Sprintf("ulimit -v %d; exec \"$0\" -worker -standby%s", pl.vlimitKB, pl.extraArgs), pl.self)
	cmd.Stdin, cmd.Stdout, cmd.Stderr = sr, lf, lf
	cmd.ExtraFiles = []*os.File{pw}
	cmd.Env = append(os.Environ(), "GOMAXPROCS=2", "GOTRACEBACK=all", "VERIF_C05_JOURNAL_FD=3")
	if err := cmd.Start(); err != nil {
		pw.Close()
		pr.Close()
		sr.Close()
		sw.Close()
		p.err = err.Error()
		return p
	}
	pw.Close()
	sr.Close()
	p.cmd, p.stdin, p.pr = cmd, sw, pr
	p.lines = make(chan string, 256)
	go func() {
		sc := bufio.NewScanner(pr)
		sc.Buffer(make([]byte, 1<<20), 1<<26)
		for sc.Scan() {
			p.lines <- sc.Text()
		}
		close(p.lines)
	}()
	lastW := ""
	deadline := time.After(150 * time.Second)
	for {
		select {
		case l, ok := <-p.lines:
			kind, rest, _ := strings.Cut(l, " ")
			switch {
			case !ok:
				cmd.Wait()
				lb, _ := os.ReadFile(p.logPath)
				msg := panicLine.FindString(string(lb))
				if len(lb) > 2000 {
					lb = lb[len(lb)-2000:]
				}
				p.seedFam = lastW
				p.err = fmt.Sprintf("worker %s exited before it was ready (while serving the valid seed of %q) %s\n%s", tag, lastW, msg, lb)
				return p
			case kind == "W":
				var m struct {
					Family string `json:"family"`
				}
				json.Unmarshal([]byte(rest), &m)
				lastW = m.Family
			case kind == "S":
				p.seedFam = lastW
				p.err = "no response to the valid seed of " + lastW + ": " + rest
				p.kill()
				return p
			case kind == "F":
				p.seedFam = lastW
				p.err = rest
				p.kill()
				return p
			case kind == "R":
				var m struct {
					Routes []string `json:"routes"`
				}
				json.Unmarshal([]byte(rest), &m)
				p.routes = m.Routes
				return p
			default:
				p.err = "worker " + tag + " start-up: " + l
				p.kill()
				return p
			}
		case <-deadline:
			p.err = "worker " + tag + " not ready after 150 s"
			p.kill()
			return p
		case <-pl.stop:
			p.err = "stopped"
			p.kill()
			return p
		}
	}
}

// stopAt: the run's internal deadline; a worker still busy then is killed (its journalled results so far are kept)
var stopAt time.Time

func runWorker(pl *pool, file string, offset int64, count int, deadline, noProgress time.Duration) *workerRun {
	wr := &workerRun{CulpritID: -1}
	p := <-pl.ready
	if p.err != "" {
		wr.Kind, wr.HarnessErr = "harness", p.err
		if p.seedFam != "" {
			wr.Kind, wr.Site = "seedfail", p.seedFam
		}
		return wr
	}
	wr.Routes = p.routes
	tag, logPath, cmd, pr, lines := p.tag, p.logPath, p.cmd, p.pr, p.lines
	if _, err := fmt.Fprintf(p.stdin, "%s\t%d\t%d\t%s\n", file, offset, count, deadline); err != nil {
		wr.Kind, wr.HarnessErr = "harness", "cannot hand the assignment to worker "+tag+": "+err.Error()
		p.kill()
		return wr
	}
	p.stdin.Close()
	pending := -1
	ready := true
	timer := time.NewTimer(noProgress)
	defer timer.Stop()
	killed := false
	var stopC <-chan time.Time
	if !stopAt.IsZero() && count < 0 {
		st := time.NewTimer(time.Until(stopAt))
		defer st.Stop()
		stopC = st.C
	}
loop:
	for {
		select {
		case <-stopC:
			killed = true
			cmd.Process.Kill()
			wr.Kind = "deadline"
			break loop
		case l, ok := <-lines:
			if !ok {
				break loop
			}
			if !timer.Stop() {
				select {
				case <-timer.C:
				default:
				}
			}
			timer.Reset(noProgress)
			kind, rest, _ := strings.Cut(l, " ")
			switch kind {
			case "B":
				fmt.Sscanf(rest, "%d", &pending)
			case "E":
				var r Result
				if err := json.Unmarshal([]byte(rest), &r); err != nil {
					wr.Kind, wr.HarnessErr = "harness", "bad journal line: "+err.Error()
					cmd.Process.Kill()
					break loop
				}
				wr.Results = append(wr.Results, r)
				pending = -1
			case "S":
				var s stallInfo
				json.Unmarshal([]byte(rest), &s)
				wr.CulpritID, wr.Kind, wr.Site = s.ID, "stall", s.Site
				wr.Detail = fmt.Sprintf("no response within %s; goroutines of the request: %s", deadline, strings.Join(s.All, "; "))
			case "X":
				wr.Kind, wr.HarnessErr = "harness", rest
			case "D":
			}
		case <-timer.C:
			// no journal progress at all: the whole worker is wedged
			killed = true
			cmd.Process.Kill()
			if pending >= 0 {
				wr.CulpritID, wr.Kind, wr.Site = pending, "stall", "worker_wedged"
				wr.Detail = fmt.Sprintf("worker made no progress for %s", noProgress)
			} else if wr.Kind == "" {
				wr.Kind, wr.HarnessErr = "harness", fmt.Sprintf("worker %s made no progress for %s outside any input (ready=%v)", tag, noProgress, ready)
			}
			break loop
		}
	}
	err := cmd.Wait()
	pr.Close()
	wr.ExitErr = fmt.Sprint(err)
	if wr.Kind == "" && pending >= 0 && !killed {
		// died in the middle of an input
		wr.CulpritID, wr.Kind = pending, "exit"
		lb, _ := os.ReadFile(logPath)
		log := string(lb)
		msg := "worker exited: " + fmt.Sprint(err)
		if m := panicLine.FindString(log); m != "" {
			msg = m
			// innermost repository frame of the panicking goroutine
			tail := log[strings.Index(log, m):]
			for _, l := range strings.Split(tail, "\n") {
				if strings.HasPrefix(l, "github.com/metrico/qryn/") {
					fn := l
					if i := strings.LastIndex(fn, "("); i > 0 {
						fn = fn[:i]
					}
					wr.Site = shortSite(strings.TrimPrefix(fn, "github.com/metrico/qryn/"))
					break
				}
				if l == "" && wr.Site != "" {
					break
				}
			}
			if strings.Contains(log, "out of memory") || strings.Contains(log, "cannot allocate memory") {
				wr.Site = "out_of_memory"
			}
		}
		if wr.Site == "" {
			wr.Site = "unknown"
		}
		wr.Detail = msg
	} else if wr.Kind == "" && err != nil && !ready {
		lb, _ := os.ReadFile(logPath)
		if len(lb) > 2000 {
			lb = lb[len(lb)-2000:]
		}
		wr.Kind, wr.HarnessErr = "harness", fmt.Sprintf("worker %s failed before it was ready: %v\n%s", tag, err, lb)
	}
	return wr
}

func token(s string) string {
	var b strings.Builder
	for _, c := range s {
		switch {
		case c >= 'a' && c <= 'z', c >= 'A' && c <= 'Z', c >= '0' && c <= '9', c == '_', c == '.', c == ':', c == '-', c == '/', c == '=', c == '+', c == '(', c == ')', c == '[', c == ']', c == '$':
			b.WriteRune(c)
		default:
			b.WriteByte('_')
		}
	}
	return b.String()
}

func main() {
	if len(os.Args) > 1 && os.Args[1] == "-worker" {
		flag.Parse()
		workerMain(*fFile, *fOffset, *fCount, *fDeadline, *fStandby, *fShared)
		return
	}
	_ = fWorker // the parent's flags (--tier, --replay) are registered and parsed by ev.Start
	r := ev.Start("C05", "model_checking", 80*time.Second, 17*time.Minute)
	scratch := os.Getenv("VERIF_SCRATCH")
	if scratch == "" {
		ev.Fatal("VERIF_SCRATCH not set (run through bin/check C05)")
	}
	self, err := os.Executable()
	if err != nil {
		ev.Fatal("%v", err)
	}
	// firstPass: deadline inside the long-lived shard workers; a request that misses it is only a *suspect* and is
	// then re-run alone with the full deadline
	firstPass, deadline, noProgress := 300*time.Millisecond, 3*time.Second, 20*time.Second
	if r.Thorough() {
		firstPass, deadline = time.Second, 10*time.Second
	}
	if r.Replay != "" {
		deadline = 20 * time.Second
	}
	const vlimitKB = 6 << 20 // 6 GiB of address space per worker
	r.Rule = "every request of the bounded space {ingest route x accepted content-type/encoding x (all byte strings of length <=3 over 14 " +
		"syntax bytes | every single and pair of structural mutations of a valid seed | truncation of the body and of its gzip / snappy " +
		"frame at every byte | 12-value menu per query parameter | header-combination product)} is sent once through the real writer router " +
		"in a journalled worker process; distinct = (route, decoder family, generator, what was done to the seed)"
	r.Assumptions = []string{
		"the ingest side is assembled with the lines of writer.Init (real plugin.CreateStaticServiceRegistry, real RegisterRoutes, real controllers, parsers and insert services); only plugin.Initialize's real ClickHouse adapters are replaced by an always-ok fake ch_wrapper.IChClient that checks every INSERT block",
		"configuration: cloki-config defaults, flush interval 2 ms (BULK_MAX_AGE_MS), retry delay 0 s; no main()-level middleware (authentication / response compression belong to C20)",
		fmt.Sprintf("a worker that died, made no journal progress for %s, or whose current request produced no response within the first-pass deadline %s makes the journalled input a suspect; the suspect is re-run alone 3 times in fresh workers with the full deadline %s (quick 3 s, thorough 10 s, replay 20 s; normal latency is micro- to milliseconds) and counts only if it dies / stays unanswered every time — the only wall-clock criterion of the check (DESIGN §7).  Economy: after 5 confirmed culprits of one class (kind, code site, decoder family) further first-pass suspects of the same class are recorded and counted but not re-run", noProgress, firstPass, deadline),
		"2xx is demanded only for bodies the boring reference rule calls well-formed (valid JSON / valid JSON lines / decodable gzip or snappy framing / parsable protobuf or pprof); influx line protocol, elastic documents and odd content types have no independent syntax rule and are only required to be answered",
		"goroutine census = goroutines with a frame inside the repository; those created by a request must be gone after at most 50 scheduler yields + 350 sleeps of 2 ms",
		"a follow-up valid push by another client is sent after every input that reached an insert service, was acknowledged, or failed with 5xx, and after every 50th input otherwise",
	}

	literals, litHeaders := ScanLiterals(ev.Repo())
	inputs := Generate(genOpts{Thorough: r.Thorough(), Literals: literals, Headers: litHeaders})
	nMain := len(inputs)
	// size classes (threshold-crossing valid bodies), run in shared-batch workers
	inputs = append(inputs, GenerateSizes(genOpts{Thorough: r.Thorough()}, nMain)...)
	// database outcome x body size (portion counts derived from the limits found in doParse / doPush)
	limits, limitsWhere := ScanLimits(ev.Repo())
	inputs = append(inputs, GenerateDBX(genOpts{Thorough: r.Thorough()}, len(inputs), limits)...)
	// interleaved history: B sent while another client's push waits for the retry of its refused INSERT
	inputs = append(inputs, GenerateInterleaved(genOpts{Thorough: r.Thorough()}, inputs[:nMain], len(inputs))...)
	byID := map[int]*Input{}
	for i := range inputs {
		byID[inputs[i].ID] = &inputs[i]
	}
	nw := runtime.NumCPU()
	if nw > 16 {
		nw = 16
	}
	if nw < 2 {
		nw = 2
	}

	if r.Replay != "" {
		replay(r, self, scratch, deadline, noProgress, vlimitKB)
		return
	}

	// ---- shard files (round-robin, rotated by VERIF_SEED)
	const ks = 4 // shared-batch shards (indexes nw .. nw+ks-1)
	const kb = 4 // shards of the database-outcome x body-size inputs (indexes nw+ks .. nw+ks+kb-1): ordinary workers, long deadline
	nsh := nw + ks + kb
	shards := make([][]shardItem, nsh)
	files := make([]string, nsh)
	{
		ws := make([]*bufio.Writer, nsh)
		fs := make([]*os.File, nsh)
		offs := make([]int64, nsh)
		for k := 0; k < nsh; k++ {
			files[k] = filepath.Join(scratch, fmt.Sprintf("shard-%02d.jsonl", k))
			f, err := os.Create(files[k])
			if err != nil {
				ev.Fatal("%v", err)
			}
			fs[k], ws[k] = f, bufio.NewWriterSize(f, 1<<20)
		}
		for i := range inputs {
			k := (i + r.Seed) % nw
			if k < 0 {
				k += nw
			}
			if inputs[i].Gen == "size" {
				k = nw + i%ks
			}
			if inputs[i].Gen == "dbx" || inputs[i].Gen == "ilv" {
				k = nw + ks + i%kb
			}
			b, _ := json.Marshal(&inputs[i])
			b = append(b, '\n')
			shards[k] = append(shards[k], shardItem{inputs[i].ID, offs[k]})
			ws[k].Write(b)
			offs[k] += int64(len(b))
		}
		for k := 0; k < nsh; k++ {
			ws[k].Flush()
			fs[k].Close()
		}
	}

	var mu sync.Mutex
	results := map[int]Result{}
	var culprits []culprit
	var harnessErr string
	var routes []string
	flaky := 0
	confirmed := map[string]int{}   // class -> culprits confirmed by 3 solo re-runs
	unconfirmed := map[string]int{} // class -> further first-pass suspects of an already confirmed class (not re-run)
	seedFail := map[string]string{} // family -> what happened to its valid seed during a worker's warm-up
	soloSem := make(chan struct{}, nw)
	pl := newPool(self, scratch, vlimitKB, nw, nw/2+1, "")
	plShared := newPool(self, scratch, vlimitKB, ks, 2, " -shared")
	stopAt = r.Deadline

	solo := func(in *Input, tag string) *workerRun {
		soloSem <- struct{}{}
		defer func() { <-soloSem }()
		f := filepath.Join(scratch, "solo-"+tag+".jsonl")
		b, _ := json.Marshal(in)
		os.WriteFile(f, append(b, '\n'), 0o644)
		defer os.Remove(f)
		if in.Gen == "size" {
			return runWorker(plShared, f, 0, 1, 10*time.Second, noProgress)
		}
		if in.Gen == "dbx" || in.Gen == "ilv" {
			return runWorker(pl, f, 0, 1, 30*time.Second, 90*time.Second)
		}
		return runWorker(pl, f, 0, 1, deadline, noProgress)
	}

	var wg sync.WaitGroup
	for k := 0; k < nsh; k++ {
		wg.Add(1)
		go func(k int) {
			defer wg.Done()
			pos := 0
			gen := 0
			seedFails := 0
			for pos < len(shards[k]) {
				if r.Expired() {
					return
				}
				gen++
				shPool, shDeadline := pl, firstPass
				if k >= nw+ks {
					shDeadline = 30 * time.Second // ten-portion bodies, ten retries per portion, slow database
				} else if k >= nw {
					// flush interval of shared-batch workers: 100 ms; a refused block is retried 10 times (repository
					// default), so a request may legitimately take a second or more
					shPool, shDeadline = plShared, 10*time.Second
				}
				shNoProgress := noProgress
				if k >= nw+ks {
					shNoProgress = 90 * time.Second // request deadline 30 s + quiescence polling up to 10 s
				}
				wr := runWorker(shPool, files[k], shards[k][pos].Offset, -1, shDeadline, shNoProgress)
				mu.Lock()
				if routes == nil && wr.Routes != nil {
					routes = wr.Routes
				}
				for _, res := range wr.Results {
					results[res.ID] = res
				}
				mu.Unlock()
				pos += len(wr.Results)
				if wr.Kind == "deadline" {
					return
				}
				if wr.Kind == "seedfail" {
					// counts only if three fresh workers in a row fail while warming up
					if seedFails++; seedFails < 3 {
						continue
					}
					mu.Lock()
					seedFail[wr.Site] = wr.HarnessErr
					mu.Unlock()
					return
				}
				seedFails = 0
				if wr.Kind == "harness" {
					mu.Lock()
					harnessErr = wr.HarnessErr
					mu.Unlock()
					return
				}
				if wr.CulpritID < 0 {
					if pos < len(shards[k]) && !r.Expired() {
						mu.Lock()
						harnessErr = fmt.Sprintf("worker of shard %d (generation %d) ended early at position %d/%d without a culprit: %d results, exit=%v", k, gen, pos, len(shards[k]), len(wr.Results), wr.ExitErr)
						mu.Unlock()
					}
					return
				}
				// culprit: must be the next input of this shard
				if pos >= len(shards[k]) || shards[k][pos].ID != wr.CulpritID {
					mu.Lock()
					harnessErr = fmt.Sprintf("shard %d: journalled culprit %d is not the expected next input", k, wr.CulpritID)
					mu.Unlock()
					return
				}
				in := byID[wr.CulpritID]
				classKey := wr.Kind + ":" + wr.Site + ":" + in.Family
				mu.Lock()
				skip := confirmed[classKey] >= 5
				if skip {
					unconfirmed[classKey]++
				}
				mu.Unlock()
				if !skip && r.Expired() {
					return // internal deadline: the suspect stays unexamined (the run is reported as capped)
				}
				if !skip {
					// re-run alone 3 times in fresh workers with the full deadline: counts only if it fails every time
					fails := 0
					var last, good *workerRun
					var swg sync.WaitGroup
					var smu sync.Mutex
					for i := 0; i < 3; i++ {
						swg.Add(1)
						go func(i int) {
							defer swg.Done()
							s := solo(in, fmt.Sprintf("%d-%d", in.ID, i))
							smu.Lock()
							defer smu.Unlock()
							if s.CulpritID == in.ID && (s.Kind == "exit" || s.Kind == "stall") {
								fails++
								last = s
							} else if s.Kind == "seedfail" {
								// this solo worker did not get through its warm-up: inconclusive (a real seed
								// failure is reported by the shard workers, which need it 3 times in a row)
							} else if s.Kind == "harness" {
								mu.Lock()
								harnessErr = s.HarnessErr
								mu.Unlock()
							} else if len(s.Results) == 1 {
								good = s
							}
						}(i)
					}
					swg.Wait()
					mu.Lock()
					if fails == 3 {
						culprits = append(culprits, culprit{In: in, Kind: last.Kind, Site: last.Site, Detail: last.Detail})
						confirmed[last.Kind+":"+last.Site+":"+in.Family]++
					} else {
						flaky++
						if good != nil {
							results[in.ID] = good.Results[0] // it does answer when run alone: judge that answer
						}
					}
					mu.Unlock()
				}
				pos++ // continue after the culprit
			}
		}(k)
	}
	wg.Wait()
	// a goroutine census that did not return to baseline within the polling bound is timing-dependent too: it counts
	// only if the input, re-run alone 3 times in fresh workers (10x longer polling bound), leaves goroutines behind
	// every time
	leaksDropped := 0
	leakNotRerun := map[string]int{}
	if harnessErr == "" && len(seedFail) == 0 {
		var ids []int
		for id, res := range results {
			if len(res.Leaked) > 0 {
				ids = append(ids, id)
			}
		}
		sort.Ints(ids)
		if len(ids) > 300 {
			r.Cap(fmt.Sprintf("%d inputs left goroutines behind in the first pass; only the first 300 were re-run", len(ids)))
			for _, id := range ids[300:] {
				res := results[id]
				res.Leaked = nil
				results[id] = res
			}
			ids = ids[:300]
		}
		// at most 3 confirmations per class (site, family); further suspects of a class are only counted
		perClass := map[string]int{}
		var keep []int
		for _, id := range ids {
			res := results[id]
			ck := strings.Fields(res.Leaked[0])[0] + ":" + byID[id].Family
			if perClass[ck] >= 3 {
				leakNotRerun[ck]++
				res.Leaked = nil
				results[id] = res
				continue
			}
			perClass[ck]++
			keep = append(keep, id)
		}
		ids = keep
		var lwg sync.WaitGroup
		for _, id := range ids {
			lwg.Add(1)
			go func(id int) {
				defer lwg.Done()
				in := byID[id]
				confirmedLeak := 0
				var last []string
				for i := 0; i < 3; i++ {
					s := solo(in, fmt.Sprintf("leak-%d-%d", id, i))
					if len(s.Results) == 1 && len(s.Results[0].Leaked) > 0 {
						confirmedLeak++
						last = s.Results[0].Leaked
					}
				}
				mu.Lock()
				res := results[id]
				if confirmedLeak == 3 {
					res.Leaked = last
				} else {
					res.Leaked = nil
					leaksDropped++
				}
				results[id] = res
				mu.Unlock()
			}(id)
		}
		lwg.Wait()
	}
	r.Extra["goroutine_leak_suspects_not_reproduced_in_3_solo_reruns"] = leaksDropped
	r.Extra["goroutine_leak_suspects_of_classes_already_being_confirmed_not_rerun"] = leakNotRerun
	pl.close()
	plShared.close()
	if len(seedFail) > 0 {
		// the ingest side does not even serve a valid push any more: every worker fails the same way during warm-up
		for fam, what := range seedFail {
			if len(what) > 600 {
				what = what[:600]
			}
			r.Violate("valid_seed_not_served:"+fam, "a valid "+fam+" push (the seed every other input is derived from) is not answered / not acknowledged / kills the process: "+what, map[string]any{"family": fam})
		}
		r.States, r.Transitions = 1, 1
		r.Cap("stopped: valid seeds are not served")
		r.Finish()
	}
	if harnessErr != "" {
		ev.Fatal("%s", harnessErr)
	}

	// ---- every walked route must be in the table and vice versa
	{
		have := map[string]bool{}
		for _, rs := range routeTable {
			have[rs.Method+" "+rs.Template] = true
		}
		walked := map[string]bool{}
		for _, w := range routes {
			walked[w] = true
			if !have[w] {
				ev.Fatal("the writer router registers %q, which the C05 route table does not know: add it to mc/cmd/c05/inputs.go", w)
			}
		}
		for h := range have {
			if !walked[h] {
				ev.Fatal("the C05 route table lists %q, which the writer router no longer registers", h)
			}
		}
		r.States = int64(len(walked))
	}

	// ---- judge
	judgeAll(r, inputs, results, culprits)
	r.Extra["inputs_generated"] = len(inputs)
	r.Extra["small_integer_limits_in_doParse_doPush"] = map[string]any{"values": limits, "where": limitsWhere}
	nDBX := 0
	for i := range inputs {
		if inputs[i].Gen == "dbx" {
			nDBX++
		}
	}
	r.Extra["database_outcome_x_body_size_inputs"] = nDBX
	r.Extra["string_literals_compared_in_ingest_code"] = literals
	r.Extra["request_headers_read_by_ingest_code"] = litHeaders
	nShared, nSize := 0, 0
	for id, res := range results {
		if id >= nMain {
			nSize++
			if res.Shared {
				nShared++
			}
		}
	}
	r.Extra["size_class_inputs"] = map[string]int{"generated": len(inputs) - nMain, "run": nSize, "shared_one_block_with_the_other_client": nShared}
	nUnconf := 0
	for _, v := range unconfirmed {
		nUnconf += v
	}
	r.Extra["culprits_confirmed_by_class"] = confirmed
	r.Extra["first_pass_suspects_of_confirmed_classes_not_rerun"] = unconfirmed
	r.Extra["inputs_run"] = len(results) + len(culprits) + nUnconf
	r.Extra["workers"] = nw
	r.Extra["culprits_not_reproduced_in_3_solo_reruns"] = flaky
	r.Extra["per_request_deadline"] = deadline.String()
	r.Extra["first_pass_deadline"] = firstPass.String()
	if len(results)+len(culprits)+nUnconf < len(inputs) {
		r.Cap(fmt.Sprintf("only %d of %d inputs were run before the internal deadline", len(results)+len(culprits)+nUnconf, len(inputs)))
	}
	r.Finish()
}

var (
	flagMu  sync.Mutex
	flagged = map[string]int{}
)

func violate(r *ev.Run, class, what string, in *Input, extra any) {
	class = token(class)
	flagMu.Lock()
	flagged[class]++
	n := flagged[class]
	flagMu.Unlock()
	if n <= 3 {
		r.Violate(class, what, map[string]any{"input": in, "observed": extra})
	}
}

func describe(in *Input) string {
	ce := in.header("Content-Encoding")
	if ce != "" {
		ce = " Content-Encoding=" + ce
	}
	b := in.Body
	if len(b) > 60 {
		b = b[:60]
	}
	return fmt.Sprintf("%s %s Content-Type=%q%s [%s/%s: %s] body(%dB)=%q", in.Method, in.Path, in.header("Content-Type"), ce, in.Family, in.Gen, in.Desc, len(in.Body), b)
}

// shape: compact description of the input for class tokens (no positions of truncation, no concrete bytes)
func shape(in *Input) string {
	d := in.Desc
	switch in.Gen {
	case "trunc":
		d = strings.SplitN(d, " at ", 2)[0]
		d = strings.SplitN(d, " byte ", 2)[0]
	case "bytes3":
		d = "short_byte_string"
	}
	if len(d) > 80 {
		d = d[:80]
	}
	return in.Family + ":" + strings.ReplaceAll(d, " ", "_")
}

var lineFamilies = map[string]bool{"dd_cf": true, "elastic_bulk": true, "zipkin_ndjson": true}

// acceptedClass names a "2xx for a malformed body" case by explanation.  Two documented deviant rules are recognised
// (each is one root cause seen on the unchanged tree); anything else keeps the fine-grained shape in its class.
func acceptedClass(in *Input, why string) string {
	switch {
	case lineFamilies[in.Family] && (why == "gzip_stream_broken" || why == "snappy_stream_broken"):
		// the decoder reads lines with bufio.Scanner and never looks at scanner.Err(): a read error ends the body early
		return "accepted_malformed:line_scanner_error_ignored:" + in.Family + ":" + why
	case lineFamilies[in.Family] && hasLongLine(in.Body):
		return "accepted_malformed:line_scanner_error_ignored:" + in.Family + ":line_longer_than_64KiB"
	case why == "trailing_data_after_json_document" || why == "trailing_data_after_json_value_in_line":
		// the streaming JSON decoder stops after the first complete value and ignores what follows
		return "accepted_malformed:" + why + ":" + in.Family
	}
	return "accepted_malformed:" + why + ":" + shape(in)
}

func hasLongLine(b []byte) bool {
	n := 0
	for _, c := range b {
		if c == '\n' {
			n = 0
			continue
		}
		if n++; n > 64*1024 {
			return true
		}
	}
	return false
}

func judgeAll(r *ev.Run, inputs []Input, results map[int]Result, culprits []culprit) {
	hoByFam := map[string][2]int{} // family -> {inputs served between parser and insert service of another push, requests parked}
	defer func() {
		if len(hoByFam) > 0 && r.Extra != nil {
			m := map[string]string{}
			for f, c := range hoByFam {
				m[f] = fmt.Sprintf("%d inputs, %d parked requests", c[0], c[1])
			}
			r.Extra["handover_phase_by_family"] = m
		}
	}()
	for i := range inputs {
		in := &inputs[i]
		res, ok := results[in.ID]
		if !ok {
			continue
		}
		r.AddEval(1)
		r.Transitions++
		r.TracesValidated++
		r.Distinct(in.Route + "|" + in.Family + "|" + in.Gen + "|" + in.Desc)
		wf, why := true, ""
		if in.Big == nil {
			wf, why = wellFormed(in)
		}
		cls := "malformed"
		if wf {
			cls = "wellformed"
		}
		r.Outcome(fmt.Sprintf("%s/%s->%d", in.Family, cls, res.Status))
		if i%4001 == 0 {
			r.Sample(map[string]any{"input": describe(in), "status": res.Status, "insert_service_calls": res.Requests, "followup_status": res.FollowUp})
		}
		if res.Panic != "" {
			violate(r, "handler_panic:"+res.PanicSite+":"+in.Family, describe(in)+": panic in the HTTP handler goroutine (net/http would drop the connection without a response): "+res.Panic, in, res)
			continue
		}
		okStatus := familyOK[in.Family]
		switch {
		case res.Status/100 == 2 && in.DB == "all_fail" && res.Requests > 0 && (in.Big != nil || in.SeedBody):
			violate(r, "acknowledged_although_every_insert_failed:"+in.Family, describe(in)+fmt.Sprintf(": answered %d although ClickHouse refused every INSERT of the request", res.Status), in, res)
		case res.Status/100 == 2 && in.Family != "health" && !res.SharedMode && (res.Requests == 0 || (in.SeedBody && res.Inserts == 0)):
			// acknowledged, but nothing was handed to an insert service / the valid seed's rows reached no INSERT
			violate(r, "acknowledged_without_ingest:"+shape(in), describe(in)+fmt.Sprintf(": answered %d although nothing was ingested (calls into insert services: %d, INSERT blocks: %d)", res.Status, res.Requests, res.Inserts), in, res)
		case res.Status/100 == 2:
			if !wf {
				violate(r, acceptedClass(in, why), describe(in)+fmt.Sprintf(": answered %d although the body is malformed (%s)", res.Status, why), in, res)
			} else if okStatus != 0 && res.Status != okStatus {
				violate(r, fmt.Sprintf("unexpected_success_status_%d:%s", res.Status, in.Family), describe(in)+fmt.Sprintf(": answered %d, the route acknowledges with %d", res.Status, okStatus), in, res)
			}
		case res.Status/100 == 4 || res.Status/100 == 5:
		default:
			violate(r, fmt.Sprintf("unexpected_status_%d:%s", res.Status, in.Family), describe(in)+fmt.Sprintf(": status %d is neither success nor an error status", res.Status), in, res)
		}
		for _, is := range res.Issues {
			violate(r, "non_rectangular_block:"+token(strings.Fields(is.Query + " ? ? ?")[2])+":"+shape(in), describe(in)+fmt.Sprintf(": INSERT block handed to ClickHouse is not rectangular or empty: %s rows per column %v", is.Query, is.Rows), in, res)
		}
		stillWorking := false
		for _, l := range res.Leaked {
			if in.Gen == "dbx" && (strings.Contains(l, "[run") || strings.Contains(l, "[syscall") || strings.Contains(l, "[sleep") || strings.Contains(l, "[IO wait")) {
				stillWorking = true // not parked: the machine is too slow for the polling bound, not a verdict
			}
		}
		if stillWorking {
			r.Cap(fmt.Sprintf("input %d (%s): goroutines of the request were still working when the polling bound ended: %v", in.ID, in.Desc, res.Leaked))
		} else if len(res.Leaked) > 0 {
			violate(r, "goroutine_left_behind:"+strings.Fields(res.Leaked[0])[0]+":"+in.Family, describe(in)+fmt.Sprintf(": goroutines created by the request are still there after the grace period: %v", res.Leaked), in, res)
		}
		if res.Interleaved {
			r.Transitions++
			r.TracesValidated++
			fam := followFamily(in)
			if res.HOHeld == 0 {
				r.Outcome("handover_not_achieved/" + fam)
			} else {
				r.Transitions++
				c := hoByFam[fam]
				hoByFam[fam] = [2]int{c[0] + 1, c[1] + res.HOHeld}
				r.Outcome(fmt.Sprintf("handover/%s parked=%d a->%d", fam, res.HOHeld, res.HOAStatus))
				if len(res.HOAltered) > 0 {
					violate(r, "handed_over_request_altered_before_consumed:"+fam, describe(in)+fmt.Sprintf(": the request(s) another client's valid %s push had handed from its parser to the insert service changed while this input was served, before the insert service copied them into the batch: %v", fam, res.HOAltered), in, res)
				} else if res.HOAStatus != familyOK[fam] {
					violate(r, fmt.Sprintf("other_client_between_parser_and_insert_answered_%d:%s", res.HOAStatus, shape(in)), describe(in)+fmt.Sprintf(": the other client's valid %s push, whose parsed requests waited for the insert service while this input was served, was answered %d instead of %d", fam, res.HOAStatus, familyOK[fam]), in, res)
				}
			}
			if !res.AHeld {
				r.Outcome("interleaving_not_achieved/" + fam)
			} else {
				r.Outcome(fmt.Sprintf("interleaved/%s a->%d compared=%d", fam, res.AStatus, res.ACompared))
				if res.AStatus != familyOK[fam] {
					violate(r, fmt.Sprintf("other_client_waiting_for_retry_answered_%d:%s", res.AStatus, shape(in)), describe(in)+fmt.Sprintf(": the other client's valid %s push, whose first INSERT was refused and whose retry succeeded, was answered %d instead of %d", fam, res.AStatus, familyOK[fam]), in, res)
				} else if len(res.AAltered) > 0 {
					violate(r, "other_client_rows_altered_while_waiting_for_retry:"+fam, describe(in)+fmt.Sprintf(": what ClickHouse finally received for the other client's acknowledged %s push differs from what that push yields alone: %v", fam, res.AAltered), in, res)
				}
			}
		}
		if res.FollowDone {
			r.Transitions++
			r.TracesValidated++
			fam := followFamily(in)
			if res.SharedMode && res.FollowUp != familyOK[fam] {
				violate(r, fmt.Sprintf("other_client_in_same_batch_answered_%d:%s", res.FollowUp, shape(in)), describe(in)+fmt.Sprintf(": another client's valid %s push that was waiting in the same insert batch was answered %d instead of %d (blocks: %v)", fam, res.FollowUp, familyOK[fam], res.Blocks), in, res)
			} else if res.FollowUp != familyOK[fam] {
				violate(r, fmt.Sprintf("followup_push_answered_%d:%s", res.FollowUp, shape(in)), describe(in)+fmt.Sprintf(": the next client's valid %s push was answered %d instead of %d", fam, res.FollowUp, familyOK[fam]), in, res)
			} else if !res.FollowSeen {
				violate(r, "followup_rows_never_inserted:"+shape(in), describe(in)+": the next client's valid push was acknowledged but its rows never reached ClickHouse", in, res)
			}
			for _, is := range res.FollowIss {
				violate(r, "followup_block_not_rectangular:"+shape(in), describe(in)+fmt.Sprintf(": the block carrying the next client's rows is not rectangular: %s %v", is.Query, is.Rows), in, res)
			}
		}
	}
	sort.Slice(culprits, func(i, j int) bool { return culprits[i].In.ID < culprits[j].In.ID })
	for _, c := range culprits {
		r.AddEval(1)
		r.Transitions += 4
		r.TracesValidated += 4
		r.Distinct(c.In.Route + "|" + c.In.Family + "|" + c.In.Gen + "|" + c.In.Desc)
		if c.Kind == "exit" {
			r.Outcome(c.In.Family + "->PROCESS_EXIT")
			violate(r, "process_exit:"+c.Site+":"+shape(c.In), describe(c.In)+": the ingest process died (4 of 4 runs, 3 of them alone in a fresh process): "+c.Detail, c.In, c)
		} else {
			r.Outcome(c.In.Family + "->NO_RESPONSE")
			violate(r, "no_response:"+c.Site+":"+shape(c.In), describe(c.In)+": "+c.Detail+" (4 of 4 runs, 3 of them alone in a fresh process)", c.In, c)
		}
	}
	fl := map[string]int{}
	for k, v := range flagged {
		fl[k] = v
	}
	r.Extra["flagged_cases_by_class"] = fl
}

type replayDoc struct {
	Replay struct {
		Input Input `json:"input"`
	} `json:"replay"`
}

func replay(r *ev.Run, self, scratch string, deadline, noProgress time.Duration, vlimitKB int) {
	b, err := os.ReadFile(r.Replay)
	if err != nil {
		ev.Fatal("replay: %v", err)
	}
	var d replayDoc
	if err := json.Unmarshal(b, &d); err != nil {
		ev.Fatal("replay: %v", err)
	}
	in := d.Replay.Input
	f := filepath.Join(scratch, "replay.jsonl")
	lb, _ := json.Marshal(&in)
	os.WriteFile(f, append(lb, '\n'), 0o644)
	extra := ""
	if in.Gen == "size" {
		extra = " -shared"
	}
	pl := newPool(self, scratch, vlimitKB, 1, 1, extra)
	defer pl.close()
	wr := runWorker(pl, f, 0, 1, deadline, noProgress)
	if wr.Kind == "seedfail" {
		r.States, r.Transitions = 1, 1
		r.Violate("valid_seed_not_served:"+wr.Site, "a valid "+wr.Site+" push is not served: "+wr.HarnessErr, map[string]any{"family": wr.Site})
		r.Finish()
	}
	if wr.Kind == "harness" {
		ev.Fatal("%s", wr.HarnessErr)
	}
	results := map[int]Result{}
	var culprits []culprit
	if wr.CulpritID == in.ID {
		culprits = append(culprits, culprit{In: &in, Kind: wr.Kind, Site: wr.Site, Detail: wr.Detail})
	}
	for _, res := range wr.Results {
		results[res.ID] = res
	}
	r.States = 1
	judgeAll(r, []Input{in}, results, culprits)
	r.Finish()
}
