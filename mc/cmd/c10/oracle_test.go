package main

import (
	"strings"
	"testing"
)

func st(sqls ...string) []*stmt { return lexAll(sqls) }
func V(s string) Val            { return Val{s, s} }

func TestCompareHolds(t *testing.T) {
	va := defaultVariants[0]
	q := func(v string) string { return "SELECT a FROM t WHERE (k == 'c') and (v == " + v + ")" }
	f, n := compare(st(q(`'it\'s'`)), st(q(`'x'`)), st(q(`'y'`)), va, V("it's"), V("x"), V("y"))
	if f != nil || n != 1 {
		t.Fatalf("want held with 1 carrier, got %+v %d", f, n)
	}
	// SQL-standard doubling decodes to the same value
	if f, _ := compare(st(q(`'it''s'`)), st(q(`'x'`)), st(q(`'y'`)), va, V("it's"), V("x"), V("y")); f != nil {
		t.Fatalf("doubling: %+v", f)
	}
}

func TestCompareFindings(t *testing.T) {
	va := defaultVariants[0]
	q := func(v string) string { return "SELECT a FROM t WHERE (k == 'c') and (v == " + v + ")" }
	cases := []struct {
		name, got, v, reason string
	}{
		{"break out", q(`'a' OR 1 == 1 OR v == 'b'`), "a' OR 1 == 1 OR v == 'b", "structure_changed"},
		{"comment", q(`'a'--'`), "a'--", "structure_changed"},
		{"unterminated", q(`'a\'`), `a\`, "structure_changed"},
		{"wrong value", q(`'a'`), "a'", "literal_value_mismatch"},
		{"value lost backslash", q(`'a\b'`), `a\b`, "literal_value_mismatch"},
		{"whitespace leak", strings.Replace(q(`'a'`), "WHERE", "WHERE\n", 1), "a", "structure_changed"},
		{"other literal touched", strings.Replace(q(`'a'`), "'c'", "'a'", 1), "a", "unrelated_literal_changed"},
		{"bad hex escape", q(`'\xZZ'`), "zz", "literal_undecodable"},
	}
	for _, c := range cases {
		f, _ := compare(st(c.got), st(q(`'x'`)), st(q(`'y'`)), va, V(c.v), V("x"), V("y"))
		if f == nil || f.Reason != c.reason {
			t.Errorf("%s: want %s, got %+v", c.name, c.reason, f)
		}
	}
	// harmless values outside a literal
	f, _ := compare(st(q(`x`)), st(q(`x`)), st(q(`y`)), va, V("x"), V("x"), V("y"))
	if f == nil || f.Reason != "benign_value_changes_structure" {
		t.Errorf("raw interpolation of harmless values: %+v", f)
	}
	// query count
	f, _ = compare(st(q(`'a'`), "SELECT 1"), st(q(`'x'`)), st(q(`'y'`)), va, V("a"), V("x"), V("y"))
	if f == nil || f.Reason != "query_count_changed" {
		t.Errorf("query count: %+v", f)
	}
}

func TestLikeTransform(t *testing.T) {
	va := lineFilterLikeVariants[0]
	q := func(p string) string { return "SELECT 1 WHERE like(s, " + p + ") == 1" }
	ok := []struct{ lit, v string }{
		{`'%a\\\\b%'`, `a\b`},  // LIKE pattern %a\\b%
		{`'%a\\b%'`, `a\b`},    // LIKE pattern %a\b% : backslash before an ordinary byte is literal too
		{`'%100\\%%'`, `100%`}, // pattern %100\%%
		{`'%100\%%'`, `100%`},  // ClickHouse keeps the backslash of \% in a literal
		{`'%it\'s\'%'`, `it's'`},
		{`'%a\\_b%'`, `a_b`},
	}
	for _, c := range ok {
		if f, _ := compare(st(q(c.lit)), st(q(`'%x%'`)), st(q(`'%y%'`)), va, V(c.v), V("x"), V("y")); f != nil {
			t.Errorf("%s for %q should hold: %+v", c.lit, c.v, f)
		}
	}
	bad := []struct{ lit, v, class string }{
		{`'%it\'s\%'`, `it's'`, "like_quote_trim"},
		{`'%a\\%'`, `a\`, "like_backslash_unescaped"},
		{`'%a\\\\b%'`, `a\\b`, "like_backslash_unescaped"},
		{`'%100%%'`, `100%`, "like_pattern_mismatch"},
	}
	for _, c := range bad {
		f, _ := compare(st(q(c.lit)), st(q(`'%x%'`)), st(q(`'%y%'`)), va, V(c.v), V("x"), V("y"))
		if f == nil || f.Reason != "literal_value_mismatch" {
			t.Errorf("%s for %q should fail: %+v", c.lit, c.v, f)
			continue
		}
		if got := classifyLike(c.v, f.Observed); got != c.class {
			t.Errorf("%s for %q: class %s, want %s", c.lit, c.v, got, c.class)
		}
	}
}

func TestRegexpStandIn(t *testing.T) {
	for in, want := range map[string]string{
		`abc`:         `x`,
		`a(b)c`:       `x(x)x`,
		`a\(b`:        `x\(x`,
		`(?P<n>a.b)c`: `(?P<n>x)x`,
		`a)b(`:        `x)x(`,
		"a\nb":        `x`,
		`a>b`:         `x`,
		`'\`:          `x\`, // the trailing backslash escapes the closing bracket: twin and value are both refused
		`(?i)`:        `(?i)`,
		`(?i)'`:       `(?i)x`,
		`(?:a'|b)`:    `(?:x)`,
		`(?i:a)(b)`:   `(?i:x)(x)`,
		`[(]'`:        `[(]x`,
		`(?'a)`:       `(x)`,
	} {
		if got := regexpStandIn(in, "x"); got != want {
			t.Errorf("regexpStandIn(%q) = %q, want %q", in, got, want)
		}
	}
	if got, _ := regexpStripNames(V(`a(?P<n>b)(c)`)); got != `(a(b)(c))` {
		t.Errorf("regexpStripNames: %q", got)
	}
}

func TestQuoting(t *testing.T) {
	if q, _ := qDQJSON.F("a\"\\\n\x00\xffé"); q.Text != `"a\"\\\n\u0000`+"\xff"+`é"` || q.Value != "a\"\\\n\x00�é" {
		t.Errorf("qDQJSON: %q %q", q.Text, q.Value)
	}
	if q, _ := qDQGo.F("\xff'"); q.Text != `"\xff'"` || q.Value != "\xff'" {
		t.Errorf("qDQGo: %q %q", q.Text, q.Value)
	}
	if _, ok := qBTJSON.F("a`b"); ok {
		t.Errorf("backtick inside a raw string must be inexpressible")
	}
	if q, _ := identForm(reTraceQLName, ".", false).F("--"); q.Weak || q.Text != "a--" {
		t.Errorf("TraceQL names may contain dashes: %+v", q)
	}
	if q, _ := identForm(reLogQLLabel, "", false).F("--"); !q.Weak {
		t.Errorf("LogQL label names may not contain dashes: %+v", q)
	}
	// phases are disjoint; quick has the atoms and the pairs with a critical atom, thorough all pairs and core triples
	count := func(thorough bool) int {
		seen := map[string]bool{}
		for _, ph := range phases(thorough) {
			for _, s := range ph.Strings {
				if seen[s] {
					t.Errorf("string %q in two phases", s)
				}
				seen[s] = true
			}
		}
		return len(seen)
	}
	if q, th := count(false), count(true); q < 500 || th < 10000 {
		t.Errorf("hostile sets too small: quick %d thorough %d", q, th)
	}
}

func TestShapedValues(t *testing.T) {
	// a planner that turns an anchored alternation into an IN list is fine when every alternative is a proper literal
	va := regexValueVariants(Quoted{Value: "^(a|x')$", Hole: "x'"})[0]
	q := func(list string) string { return "SELECT 1 WHERE val IN (" + list + ")" }
	vx, vy := Val{"^(a|x)$", "x"}, Val{"^(a|y)$", "y"}
	if f, n := compare(st(q(`'a','x\''`)), st(q(`'a','x'`)), st(q(`'a','y'`)), va, Val{"^(a|x')$", "x'"}, vx, vy); f != nil || n != 1 {
		t.Errorf("escaped IN list should hold: %+v %d", f, n)
	}
	f, _ := compare(st(q(`'a','x''`)), st(q(`'a','x'`)), st(q(`'a','y'`)), va, Val{"^(a|x')$", "x'"}, vx, vy)
	if f == nil || f.Reason != "structure_changed" {
		t.Errorf("unescaped IN list: %+v", f)
	}
	f, _ = compare(st(q(`'a','x', 'smuggled', 'y'`)), st(q(`'a','x'`)), st(q(`'a','y'`)), va, Val{"^(a|x', 'smuggled', 'y)$", "x', 'smuggled', 'y"}, vx, vy)
	if f == nil || f.Reason != "structure_changed" {
		t.Errorf("smuggled alternatives: %+v", f)
	}
	if got := pipeShape("a|'b||", "x"); got != "x|x||" {
		t.Errorf("pipeShape: %q", got)
	}
	if a := alternatives("^(?:a|b|c)$"); len(a) != 3 || a[2] != "c" {
		t.Errorf("alternatives: %q", a)
	}
}
