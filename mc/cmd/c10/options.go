package main

// Shape-selecting options: the non-string parameters of a request that make the service/planner build a different
// statement (aggregation type, group-by, step, limit, direction, instant vs range, extra selectors, time window,
// single node vs cluster).  Every string position of an endpoint is crossed with every option set of that endpoint
// (expandOptions): a string that is escaped in the default shape may be written by hand in another one.
//
// The lists were made by reading the service signatures and the branches of the planners on PlannerContext;
// scan.go re-reads both with go/ast on every run and fails the check (exit 2) when a service method, one of its
// parameters or a PlannerContext field used by a planner is not accounted for in the tables below.

import "regexp"

type Options struct {
	Name    string
	Cluster bool // database configured with a cluster name (IsCluster: *_dist tables, inlined WITHs, GLOBAL joins)
	// Loki query / query_range
	Forward bool  // direction=forward (OrderASC)
	NoLimit bool  // limit=0 (MainLimitPlanner / IndexLimitPlanner / ValuesPlanner / SeriesPlanner skip LIMIT)
	StepMs  int64 // step (StepFixPlanner branches on range >= step)
	Instant bool  // /query instead of /query_range
	// label values / series
	ExtraMatch bool // more match[] selectors next to the one carrying the position (MultiStreamSelect UNION ALL)
	OtherType  bool // the other labelsType (logs 1 <-> metrics 2: GetTypes)
	// Tempo
	Window  bool // start/end (and min/max duration) given
	Sharded bool // the complexity estimate selects the sharded request path
	// Pyroscope
	Average    bool // SelectSeries aggregation = AVERAGE
	GroupBy    bool // SelectSeries group_by = [k g]
	Step60     bool // SelectSeries step 60 instead of 15
	TwoScripts bool // two matchers / selectors (UNION ALL of the stream selections)
	NoScripts  bool // no matcher at all (label values / names without selector)
	Labels     bool // Series label_names given (FilterLabelsPlanner)
}

// endpointOptions: option sets per endpoint; the first one is the default shape of the base sites.  Not a full
// product: every option value occurs, related options are varied together (the full product of the two SelectSeries
// options that the planner combines in one expression is taken).
var endpointOptions = map[string][]Options{
	"logql_range": {{}, {Name: "forward_nolimit_step60_cluster", Forward: true, NoLimit: true, StepMs: 60000, Cluster: true},
		{Name: "instant", Instant: true}, {Name: "step60", StepMs: 60000}},
	"logql_direct":    {{}},
	"label_values":    {{}, {Name: "more_match_cluster_othertype", ExtraMatch: true, Cluster: true, OtherType: true}},
	"series":          {{}, {Name: "more_match_cluster_othertype", ExtraMatch: true, Cluster: true, OtherType: true}},
	"traceql_search":  {{}, {Name: "nolimit", NoLimit: true}, {Name: "sharded", Sharded: true}},
	"traceql_tags":    {{}, {Name: "nolimit", NoLimit: true}, {Name: "sharded", Sharded: true}},
	"traceql_values":  {{}, {Name: "nolimit", NoLimit: true}, {Name: "sharded", Sharded: true}},
	"tempo_search":    {{}, {Name: "window_durations", Window: true}, {Name: "nolimit", NoLimit: true}},
	"tempo_values_v1": {{}, {Name: "cluster", Cluster: true}},
	"tempo_trace":     {{}, {Name: "window", Window: true}},
	"auto":            {{}},
	"prom_range":      {{}}, // the five hint shapes (raw / downsampled, instant / range function, rows, cluster) are base sites
	"prof_select_series": {{}, {Name: "average", Average: true}, {Name: "group_by", GroupBy: true},
		{Name: "average_group_by_step60_cluster", Average: true, GroupBy: true, Step60: true, Cluster: true}},
	"prof_label_values":      {{}, {Name: "two_selectors_cluster", TwoScripts: true, Cluster: true}, {Name: "no_selector", NoScripts: true}},
	"prof_label_names":       {{}, {Name: "two_selectors_cluster", TwoScripts: true, Cluster: true}},
	"prof_series":            {{}, {Name: "two_selectors_labels_cluster", TwoScripts: true, Labels: true, Cluster: true}, {Name: "labels", Labels: true}},
	"prof_merge_stacktraces": {{}, {Name: "cluster", Cluster: true}},
	"prof_merge_profiles":    {{}, {Name: "cluster", Cluster: true}},
	"prof_render_diff":       {{}, {Name: "cluster", Cluster: true}},
	"prof_analyze":           {{}, {Name: "cluster", Cluster: true}},
}

var endpointByID = []struct {
	re *regexp.Regexp
	ep string
}{
	{regexp.MustCompile(`^auto/`), "auto"},
	{regexp.MustCompile(`^logql/.*/direct`), "logql_direct"},
	{regexp.MustCompile(`^logql/`), "logql_range"},
	{regexp.MustCompile(`^labels/(values_|prom_values_)`), "label_values"},
	{regexp.MustCompile(`^labels/series_match/`), "series"},
	{regexp.MustCompile(`^traceql/.*tags_v2`), "traceql_tags"},
	{regexp.MustCompile(`^traceql/(.*/values_v2/|values_v2_key/)`), "traceql_values"},
	{regexp.MustCompile(`^traceql/`), "traceql_search"},
	{regexp.MustCompile(`^tempo/search_`), "tempo_search"},
	{regexp.MustCompile(`^tempo/values_v1`), "tempo_values_v1"},
	{regexp.MustCompile(`^tempo/trace_id`), "tempo_trace"},
	{regexp.MustCompile(`^promql/`), "prom_range"},
	{regexp.MustCompile(`^prof/series_label_names`), "prof_series"},
	{regexp.MustCompile(`^prof/.*select_series`), "prof_select_series"},
	{regexp.MustCompile(`^prof/.*label_values`), "prof_label_values"},
	{regexp.MustCompile(`^prof/.*label_names`), "prof_label_names"},
	{regexp.MustCompile(`^prof/.*merge_stacktraces`), "prof_merge_stacktraces"},
	{regexp.MustCompile(`^prof/.*merge_profiles`), "prof_merge_profiles"},
	{regexp.MustCompile(`^prof/.*render_diff`), "prof_render_diff"},
	{regexp.MustCompile(`^prof/.*analyze`), "prof_analyze"},
	{regexp.MustCompile(`^prof/.*series`), "prof_series"},
}

func endpointOf(id string) string {
	for _, e := range endpointByID {
		if e.re.MatchString(id) {
			return e.ep
		}
	}
	return ""
}

// optionDropsPosition: option sets that remove the very part of the request that carries the position.
var optionDropsPosition = []struct {
	site *regexp.Regexp
	opt  string
}{
	{regexp.MustCompile(`^prof/selector_`), "no_selector"},     // the position is in the selector
	{regexp.MustCompile(`^traceql/values_v2_key/`), "sharded"}, // the sharded path ignores the key (base site .../sharded asserts it)
	{regexp.MustCompile(`^traceql/values_v2_key/no_query`), "nolimit"},
}

// expandOptions adds one site per (base site, non-default option set of its endpoint).
func expandOptions() {
	base := sites
	sites = nil
	for _, s := range base {
		s.Base = s.ID
		s.Endpoint = endpointOf(s.ID)
		opts, ok := endpointOptions[s.Endpoint]
		if !ok {
			panic("site " + s.ID + " has no endpoint")
		}
	nextOption:
		for _, o := range opts {
			for _, x := range optionDropsPosition {
				if x.opt == o.Name && x.site.MatchString(s.ID) {
					continue nextOption
				}
			}
			d := s
			o := o
			exec := s.Exec
			d.Opt = o.Name
			if o.Name != "" {
				d.ID = s.ID + "#" + o.Name
				d.Exec = func(e *Env, text string) ([]string, error) {
					e.o = o
					defer func() { e.o = Options{} }()
					return exec(e, text)
				}
			}
			sites = append(sites, d)
		}
	}
}
