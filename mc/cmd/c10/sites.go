package main

// Enumeration of the string-valued positions ("sites"): one entry per (request shape, position, quoting form).
// Group names are the rows of the position table in NOTES.md.

import (
	"regexp"
	"strings"
	"text/template"
	"text/template/parse"
	"time"
	"unicode"
)

type Site struct {
	ID    string
	Group string // position family: class prefix of findings and row of the NOTES table
	Lang  string
	Quote QuoteFn
	// Exec performs the request whose position holds the quoted text and returns the SQL that was sent.
	Exec func(e *Env, text string) ([]string, error)
	// Variants: acceptable readings (nil = the literal must decode to the value itself).
	Variants func(q Quoted) []Variant
	// Classify names a finding by explanation (nil = Group:Reason).
	Classify func(v string, f *Finding) string
	// NotInSQL documents that the position is expected never to reach a statement.
	NotInSQL bool
	// Auto: generated from the request-surface scan for a service method the tables do not know (scan.go); nothing
	// is known about it, so it is exempt from the site-table self-check.
	Auto bool
	// Kind: "regex" (the value is a regular expression), "plain" (a plain string value), "" (identifier, template,
	// structured value): decides which context templates (quote.go) are applied around the hostile string.
	Kind string
	// Endpoint (options.go) and the name of the option set of this site ("" = default shape).
	Endpoint, Opt string
	// Ctx is the name of the context template of this site ("" = none); Base the ID of the site without context,
	// BaseQuote its quoting form without the template.
	Ctx, Base string
	CtxCore   bool
	BaseQuote QuoteFn
	// Secondary: one more request shape around a position that a primary site already covers with the full hostile
	// set; the quick tier gives it the reduced set (hostile.go), the thorough tier everything.
	Secondary bool
}

func fixedVariants(vs []Variant) func(Quoted) []Variant { return func(Quoted) []Variant { return vs } }

// tmpl replaces the single hole § of a request template.
func tmpl(t, text string) string { return strings.Replace(t, "§", text, 1) }

var sites []Site

func add(s Site) { sites = append(sites, s) }

func init() {
	logqlSites()
	labelSites()
	traceqlSites()
	tempoSites()
	promSites()
	profSites()
	autoSites()
	expandOptions()
	expandContexts()
	seen := map[string]bool{}
	for i := range sites {
		s := &sites[i]
		if seen[s.ID] {
			panic("duplicate site " + s.ID)
		}
		seen[s.ID] = true
		for _, re := range secondaryShapes {
			if re.MatchString(s.Base) {
				s.Secondary = true
			}
		}
		// identifier positions: the front ends refuse almost every hostile string; quick tier = reduced set
		if s.Quote.Name == "whole" || s.Quote.Name == "suffix" {
			s.Secondary = true
		}
		// non-default option sets: one more request shape
		if s.Opt != "" {
			s.Secondary = true
		}
	}
}

// kindOf classifies string-valued sites by their ID: regex operators / regex line filters are "regex", other value
// positions "plain"; identifiers, templates, structured values (json path, regexp body, type id, trace id) get none.
var (
	reKindRegex = regexp.MustCompile(`/(re|nre|match|not_match)/|/shape_(sum_by|absent)/|/(resource_or_paren|complex_or|values_v2)/|^prof/selector_special/[a-z_]+/re/`)
	reKindPlain = regexp.MustCompile(`^(logql/(stream_value|label_filter_value|drop_value|line_filter/(contains|not_contains))|labels/(values_match|series_match/(eq|neq|prom_name_form)|prom_values_match)|traceql/attr_value|tempo/search_tag_value|promql/(matcher_value|metric_name_matcher)|prof/selector_(value|special))/`)
)

func kindOf(id string) string {
	switch {
	case reKindRegex.MatchString(id):
		return "regex"
	case reKindPlain.MatchString(id):
		return "plain"
	}
	return ""
}

// expandContexts adds, for every regex- and plain-valued site, one site per context template.
func expandContexts() {
	base := sites
	sites = nil
	for _, s := range base {
		if s.Base == "" {
			s.Base = s.ID
		}
		s.Kind = kindOf(s.Base)
		s.BaseQuote = s.Quote
		var ctxs []Ctx
		switch s.Kind {
		case "regex":
			ctxs = regexCtxs
			if s.Variants == nil {
				s.Variants = regexValueVariants
			}
		case "plain":
			ctxs = plainCtxs
		default:
			ctxs = []Ctx{idCtx}
		}
		for _, c := range ctxs {
			d := s
			d.Ctx = c.Name
			d.CtxCore = c.Core
			if c.Name != "" {
				d.ID = s.ID + "@" + c.Name
				d.Quote = withCtx(s.Quote, c)
			}
			sites = append(sites, d)
		}
	}
}

// secondaryShapes: request shapes that wrap a position already covered by a primary site of the same planner path.
var secondaryShapes = []*regexp.Regexp{
	regexp.MustCompile(`^logql/stream_value/(shape_|eq/instant|eq/cluster)`),
	regexp.MustCompile(`^logql/line_filter/[a-z_]+/(after_json|rate|cluster)/`),
	regexp.MustCompile(`^logql/label_filter_value/eq/(or_paren|after_regexp_rate|cluster)/`),
	regexp.MustCompile(`^logql/drop_value/rate/`),
	regexp.MustCompile(`^traceql/attr_value/(span_and|resource_or_paren|with_agg|with_avg)/`),
	regexp.MustCompile(`^promql/[a-z_]+/([a-z]+/)?(raw_rate|downsample_sum_over_time|raw_with_rows_cluster)/`),
	regexp.MustCompile(`^prof/selector_value/[a-z]+/(label_values|select_series_avg|merge_profiles|series|series2|render_diff|analyze)/`),
	regexp.MustCompile(`^prof/selector_special/[a-z_]+/(re/series|neq/select_series)/`),
	regexp.MustCompile(`^prof/type_id/[a-z_]+/(select_series|merge_profiles)$`),
	regexp.MustCompile(`^labels/prom_values_match/(neq|re|nre)/`),
	regexp.MustCompile(`^tempo/search_tag_(value/eq_window|name/window)/`),
}

// ---- LogQL ---------------------------------------------------------------------------------------------------------

var strForms = []QuoteFn{qDQJSON, qBTJSON}

func logqlRangeSite(id, group, t string, q QuoteFn, cluster bool) Site {
	return Site{ID: id + "/" + q.Name, Group: group, Lang: "logql", Quote: q,
		Exec: func(e *Env, text string) ([]string, error) { return e.logqlRange(tmpl(t, text), cluster) }}
}

func likeClassify(pre func(Val) (string, bool)) func(string, *Finding) string {
	return func(v string, f *Finding) string {
		if f.Reason != "literal_value_mismatch" {
			return ""
		}
		lit, ok := pre(Val{v, v})
		if !ok {
			return ""
		}
		return classifyLike(lit, f.Observed)
	}
}

func logqlSites() {
	ops := []struct{ op, name string }{{"=", "eq"}, {"!=", "neq"}, {"=~", "re"}, {"!~", "nre"}}
	for _, q := range strForms {
		// stream selector values
		for _, o := range ops {
			add(logqlRangeSite("logql/stream_value/"+o.name+"/log", "logql_stream_matcher_value", `{lbl`+o.op+`§, b="c"}`, q, false))
		}
		for name, t := range map[string]string{
			"rate5s":     `rate({lbl=§}[5s])`,
			"rate1m_15s": `rate({lbl=§}[1m])`,
			"sum_by":     `sum by (b) (rate({lbl=~§}[5s]))`,
			"topk":       `topk(3, rate({lbl!=§, b="c"}[5s]))`,
			"quantile":   `quantile_over_time(0.5, {lbl=§} | json x="y" | unwrap x [5s]) by (b)`,
			"absent":     `absent_over_time({lbl!~§, b="c"}[5s])`,
			"json_after": `{lbl=§} | json | x="y"`,
		} {
			add(logqlRangeSite("logql/stream_value/shape_"+name, "logql_stream_matcher_value", t, q, false))
		}
		add(logqlRangeSite("logql/stream_value/eq/cluster", "logql_stream_matcher_value", `{lbl=§}`, q, true))
		add(Site{ID: "logql/stream_value/eq/instant/" + q.Name, Group: "logql_stream_matcher_value", Lang: "logql", Quote: q,
			Exec: func(e *Env, text string) ([]string, error) {
				return e.logqlInstant(tmpl(`count_over_time({lbl=§}[5s])`, text), false)
			}})

		// line filters
		for _, lf := range []struct {
			op, name string
			regex    bool
		}{{"|=", "contains", false}, {"!=", "not_contains", false}, {"|~", "match", true}, {"!~", "not_match", true}} {
			for shape, t := range map[string]string{
				"log":        `{a="b"} ` + lf.op + ` §`,
				"after_json": `{a="b"} | json x="y" ` + lf.op + ` §`,
				"rate":       `sum by (a) (rate({a="b"} ` + lf.op + ` § [5s]))`,
			} {
				s := logqlRangeSite("logql/line_filter/"+lf.name+"/"+shape, "logql_line_filter", t, q, false)
				if lf.regex {
					s.Variants = fixedVariants(lineFilterRegexVariants)
					s.Classify = func(v string, f *Finding) string {
						for _, fold := range []bool{false, true} {
							if c := likeClassify(regexLiteral(fold))(v, f); c != "" {
								return c
							}
						}
						return ""
					}
				} else {
					s.Variants = fixedVariants(lineFilterLikeVariants)
					s.Classify = likeClassify(identity)
				}
				add(s)
			}
		}
		add(func() Site {
			s := logqlRangeSite("logql/line_filter/contains/cluster", "logql_line_filter", `{a="b"} |= §`, q, true)
			s.Variants = fixedVariants(lineFilterLikeVariants)
			s.Classify = likeClassify(identity)
			return s
		}())

		// label filter values: on time_series labels (no parser before) and on the labels map (after a parser)
		for _, o := range ops {
			add(logqlRangeSite("logql/label_filter_value/"+o.name+"/simple", "logql_label_filter_value", `{a="b"} | lbl `+o.op+` §`, q, false))
			add(logqlRangeSite("logql/label_filter_value/"+o.name+"/after_parser", "logql_label_filter_value", `{a="b"} | json x="y" | lbl `+o.op+` §`, q, false))
		}
		add(logqlRangeSite("logql/label_filter_value/eq/or_paren", "logql_label_filter_value", `{a="b"} | (lbl = § or c = "d") and e != "f"`, q, false))
		add(logqlRangeSite("logql/label_filter_value/eq/after_regexp_rate", "logql_label_filter_value", `rate({a="b"} | regexp "(?P<l>x)" | lbl = § [5s])`, q, false))
		add(logqlRangeSite("logql/label_filter_value/eq/cluster", "logql_label_filter_value", `{a="b"} | lbl = §`, q, true))

		// json parser: path given as a quoted field, and as the whole parameter
		for _, inner := range strForms {
			inner := inner
			outer := q
			if inner.Name == "bt" && outer.Name == "bt" {
				continue // a raw string cannot contain a raw string
			}
			nested := QuoteFn{Name: outer.Name + "_field_" + inner.Name, F: func(s string) (Quoted, bool) {
				in, ok := inner.F(s)
				if !ok {
					return Quoted{}, false
				}
				out, ok := outer.F("a[" + in.Text + "].b[0]")
				if !ok {
					return Quoted{}, false
				}
				return Quoted{Text: out.Text, Value: perByteReplace(in.Value)}, true
			}}
			add(Site{ID: "logql/json_path/field/" + nested.Name, Group: "logql_json_path", Lang: "logql", Quote: nested,
				Exec: func(e *Env, text string) ([]string, error) {
					return e.logqlRange(tmpl(`{a="b"} | json lbl=§, m="n"`, text), false)
				}})
		}

		// regexp parser: the body of a named group
		add(Site{ID: "logql/regexp_body/" + q.Name, Group: "logql_regexp", Lang: "logql",
			Quote: QuoteFn{Name: q.Name, F: func(s string) (Quoted, bool) {
				out, ok := q.F("(?P<l>" + s + ")")
				if !ok {
					return Quoted{}, false
				}
				return Quoted{Text: out.Text, Value: perByteReplace(s)}, true
			}},
			Exec: func(e *Env, text string) ([]string, error) {
				return e.logqlRange(tmpl(`{a="b"} | regexp §`, text), false)
			},
			Variants: regexpBodyVariants})

		// drop values
		add(logqlRangeSite("logql/drop_value/log", "logql_drop_value", `{a="b"} | drop lbl=§, c`, q, false))
		add(logqlRangeSite("logql/drop_value/rate", "logql_drop_value", `sum by (a) (rate({a="b"} | drop c, lbl=§ [5s]))`, q, false))

		// templates: production routes line_format / label_format to the in-process engine (never SQL) ...
		s := logqlRangeSite("logql/line_format/routed", "logql_line_format", `{a="b"} | line_format §`, q, false)
		s.NotInSQL = true
		add(s)
		s = logqlRangeSite("logql/label_format/routed", "logql_label_format", `{a="b"} | label_format l=§`, q, false)
		s.NotInSQL = true
		add(s)
		s = logqlRangeSite("logql/label_format/rate15s", "logql_label_format", `rate({a="b"} | label_format l=§ [1m])`, q, false)
		s.NotInSQL = true
		add(s)
		// ... but the exported SQL planner has a LineFormatPlanner: drive it directly
		add(Site{ID: "logql/line_format/direct/" + q.Name, Group: "logql_line_format", Lang: "logql", Quote: q,
			Exec: func(e *Env, text string) ([]string, error) {
				return e.logqlDirect(tmpl(`{a="b"} | line_format §`, text), false)
			},
			Variants: lineFormatVariants})
		add(Site{ID: "logql/line_format/direct_fields/" + q.Name, Group: "logql_line_format", Lang: "logql",
			Quote: QuoteFn{Name: q.Name, F: func(s string) (Quoted, bool) {
				out, ok := q.F("{{.f}} " + s + " {{.g}}")
				if !ok {
					return Quoted{}, false
				}
				return Quoted{Text: out.Text, Value: perByteReplace(s)}, true
			}},
			Exec: func(e *Env, text string) ([]string, error) {
				return e.logqlDirect(tmpl(`{a="b"} | line_format §`, text), false)
			},
			Variants: func(q Quoted) []Variant {
				return wrapVariants(lineFormatVariants(q), func(b string) string { return "{0} " + b + " {1}" })
			}})
	}

	// identifier positions (restricted by the LogQL lexer; the planners interpolate some of them)
	for _, whole := range []bool{true, false} {
		idSite := func(id, group, t string, re *regexp.Regexp) Site {
			return logqlRangeSite("logql/"+id, group, t, identForm(re, "", whole), false)
		}
		add(idSite("stream_label_name", "logql_stream_label_name", `{§="v"}`, reLogQLLabel))
		add(idSite("label_filter_name/simple_str", "logql_label_filter_name", `{a="b"} | § = "v"`, reLogQLLabel))
		add(idSite("label_filter_name/simple_num", "logql_label_filter_name", `{a="b"} | § >= 5`, reLogQLLabel))
		add(idSite("label_filter_name/after_parser_str", "logql_label_filter_name", `{a="b"} | json x="y" | § =~ "v"`, reLogQLLabel))
		add(idSite("label_filter_name/after_parser_num", "logql_label_filter_name", `{a="b"} | json x="y" | § < 5.5`, reLogQLLabel))
		add(idSite("json_label_name", "logql_json_label_name", `{a="b"} | json §="y"`, reLogQLLabel))
		add(idSite("json_path_ident/second", "logql_json_path", `{a="b"} | json lbl="c.§"`, reGoIdent))
		add(idSite("json_path_ident/only_dq", "logql_json_path", `{a="b"} | json lbl="§"`, reGoIdent))
		add(idSite("json_path_ident/first_of_dotted", "logql_json_path", `{a="b"} | json lbl="§.d.e"`, reGoIdent))
		add(idSite("json_path_ident/after_index", "logql_json_path", `{a="b"} | json lbl="c[0].§"`, reGoIdent))
		add(idSite("json_path_ident/before_index", "logql_json_path", "{a=\"b\"} | json lbl=`§[1]`, m=\"n\"", reGoIdent))
		add(idSite("json_path_ident/after_field", "logql_json_path", `{a="b"} | json lbl="[\"c d\"].§"`, reGoIdent))
		add(idSite("json_path_ident/only_bt_rate", "logql_json_path", "rate({a=\"b\"} | json lbl=`§` [5s])", reGoIdent))
		add(idSite("regexp_group_name", "logql_regexp", `{a="b"} | regexp "(?P<§>x)"`, reRegexpGroup))
		add(idSite("drop_name/bare", "logql_drop_name", `{a="b"} | drop §`, reLogQLLabel))
		add(idSite("drop_name/with_value", "logql_drop_name", `{a="b"} | drop c, §="v"`, reLogQLLabel))
		add(idSite("by_label/agg_ts", "logql_by_without_label", `sum by (§) (rate({a="b"}[5s]))`, reLogQLLabel))
		add(idSite("by_label/agg_suffix", "logql_by_without_label", `sum(rate({a="b"}[5s])) by (b, §)`, reLogQLLabel))
		add(idSite("without_label/agg_parser", "logql_by_without_label", `sum without (§) (rate({a="b"} | json x="y" [5s]))`, reLogQLLabel))
		add(idSite("by_label/unwrap", "logql_by_without_label", `sum_over_time({a="b"} | json x="y" | unwrap x [5s]) by (§)`, reLogQLLabel))
		add(idSite("by_label/quantile", "logql_by_without_label", `quantile_over_time(0.9, {a="b"} | json x="y" | unwrap x [5s]) by (§)`, reLogQLLabel))
		add(idSite("by_label/15s_shortcut", "logql_by_without_label", `sum by (§) (rate({a="b"}[1m]))`, reLogQLLabel))
		add(idSite("unwrap_label", "logql_unwrap_label", `sum_over_time({a="b"} | json x="y" | unwrap § [5s])`, reLogQLLabel))
		s := idSite("label_format_names", "logql_label_format", `{a="b"} | label_format §=c`, reLogQLLabel)
		s.NotInSQL = true
		add(s)
		q := identForm(reGoIdent, "", whole)
		add(Site{ID: "logql/line_format_field/direct/" + q.Name, Group: "logql_line_format", Lang: "logql", Quote: q,
			Exec: func(e *Env, text string) ([]string, error) {
				return e.logqlDirect(tmpl("{a=\"b\"} | line_format `{{.§}}`", text), false)
			}})
	}
}

// regexp stage: `| regexp "(?P<l>BODY)"`.  The statement carries the regex with the group names removed and the
// group names as a label array, so its shape depends on the groups in BODY.  The harmless stand-in keeps every
// bracket of BODY and replaces each run of other characters by x / y.
var regexpTok = regexp.MustCompile(`(?s)\(\?P<|\(|\)|>|[a-zA-Z_][0-9a-zA-Z_]*|\\.|.`)

// reGroupHead: what may follow an opening parenthesis and decides the kind of the group: a name, flags with ':' (non
// capturing) or flags alone (no group at all: "(?i)" is one token that includes its closing parenthesis).
var reGroupHead = regexp.MustCompile(`^\((\?P<[a-zA-Z_][0-9a-zA-Z_]*>|\?[a-zA-Z-]*:|\?[a-zA-Z-]+\))?`)

// regexpStandIn builds the harmless twin of a regexp-stage body: every byte a group-counting rule can look at is kept
// - parentheses WITH their group heads ((?P<name>, (?:, (?i:, (?i)), square brackets, escaped brackets - and every run
// of other bytes becomes filler.  Which of these open a numbered group (the label-name array of the statement has one
// entry per numbered group) is NOT decided here: the twin goes through the planner of the tree under test, so the
// expected array is whatever that tree yields for a harmless regex of the same parenthesis structure - RE2 counting
// or the older "every ( counts" alike.
func regexpStandIn(body, filler string) string {
	whole := "(?P<l>" + body + ")"
	var b strings.Builder
	inRun := false
	structural := func(t string) {
		b.WriteString(t)
		inRun = false
	}
	for i := 0; i < len(whole); {
		c := whole[i]
		switch {
		case c == '\\' && i+1 < len(whole):
			if strings.IndexByte("()[]", whole[i+1]) >= 0 {
				structural(whole[i : i+2])
			} else if !inRun {
				b.WriteString(filler)
				inRun = true
			}
			i += 2
			continue
		case c == '(':
			h := reGroupHead.FindString(whole[i:])
			structural(h)
			i += len(h)
			continue
		case c == ')' || c == '[' || c == ']':
			structural(string(c))
		default:
			if !inRun {
				b.WriteString(filler)
			}
			inRun = true
		}
		i++
	}
	out := b.String()
	if !strings.HasPrefix(out, "(?P<l>") || !strings.HasSuffix(out, ")") {
		return filler
	}
	return out[len("(?P<l>") : len(out)-1]
}

func regexpStripNames(v Val) (string, bool) {
	whole := "(?P<l>" + v.Whole + ")"
	toks := regexpTok.FindAllString(whole, -1)
	var b strings.Builder
	for i := 0; i < len(toks); i++ {
		if toks[i] == "(?P<" && i+2 < len(toks) && toks[i+2] == ">" {
			b.WriteString("(")
			i += 2
			continue
		}
		b.WriteString(toks[i])
	}
	return b.String(), true
}

func regexpBodyVariants(q Quoted) []Variant {
	return []Variant{{Name: "regexp_same_groups", BX: regexpStandIn(q.Value, "x"), BY: regexpStandIn(q.Value, "y"),
		T: []Transform{{"regex_without_group_names", TExact, regexpStripNames}}}}
}

// line_format template: text nodes are copied into format('<text>{0}…', labels['f'], …).
func templateText(v Val) (string, bool) {
	t, err := template.New("t").Parse(v.Whole)
	if err != nil || t.Tree == nil || t.Root == nil {
		return "", false
	}
	var b strings.Builder
	for _, n := range t.Root.Nodes {
		tn, ok := n.(*parse.TextNode)
		if !ok {
			return "", false // the value adds template actions: a different (legitimate) statement shape
		}
		b.Write(tn.Text)
	}
	return b.String(), true
}

func lineFormatVariants(Quoted) []Variant {
	return []Variant{{Name: "template_text", BX: "x", BY: "y", T: []Transform{{"template_text", TExact, templateText}}}}
}

func wrapVariants(vs []Variant, wrap func(string) string) []Variant {
	out := make([]Variant, len(vs))
	for i, va := range vs {
		va := va
		ts := make([]Transform, len(va.T))
		for j, tr := range va.T {
			tr := tr
			ts[j] = Transform{tr.Name, tr.Kind, func(v Val) (string, bool) {
				p, ok := tr.Pre(v)
				if !ok {
					return "", false
				}
				return wrap(p), true
			}}
		}
		out[i] = Variant{Name: va.Name, BX: va.BX, BY: va.BY, T: ts, Whole: va.Whole}
	}
	return out
}

// ---- label / series endpoints (reader/service/queryLabelsService.go) -------------------------------------------------

func labelSites() {
	for _, cluster := range []bool{false, true} {
		cluster := cluster
		cl := map[bool]string{false: "single", true: "cluster"}[cluster]
		add(Site{ID: "labels/values_name/" + cl, Group: "label_values_url_name", Lang: "url", Quote: qPlain,
			Exec: func(e *Env, text string) ([]string, error) { return e.labelValues(text, nil, cluster) }})
	}
	add(Site{ID: "labels/values_name/with_match", Group: "label_values_url_name", Lang: "url", Quote: qPlain,
		Exec: func(e *Env, text string) ([]string, error) {
			return e.labelValues(text, []string{`{a="b"}`, `{c=~"d"}`}, false)
		}})
	add(Site{ID: "labels/prom_values_name", Group: "label_values_url_name", Lang: "url", Quote: qPlain,
		Exec: func(e *Env, text string) ([]string, error) {
			return e.promLabelValues(text, []string{`m{a="b"}`}, false)
		}})

	ops := []struct{ op, name string }{{"=", "eq"}, {"!=", "neq"}, {"=~", "re"}, {"!~", "nre"}}
	for _, q := range strForms {
		for _, o := range ops {
			o := o
			add(Site{ID: "labels/values_match/" + o.name + "/" + q.Name, Group: "label_match_param_value", Lang: "logql", Quote: q,
				Exec: func(e *Env, text string) ([]string, error) {
					return e.labelValues("job", []string{tmpl(`{lbl`+o.op+`§}`, text), `{c="d"}`}, false)
				}})
			add(Site{ID: "labels/series_match/" + o.name + "/" + q.Name, Group: "label_match_param_value", Lang: "logql", Quote: q,
				Exec: func(e *Env, text string) ([]string, error) {
					return e.series([]string{tmpl(`{lbl`+o.op+`§}`, text)}, 1, false)
				}})
		}
		add(Site{ID: "labels/series_match/prom_name_form/" + q.Name, Group: "label_match_param_value", Lang: "logql", Quote: q,
			Exec: func(e *Env, text string) ([]string, error) {
				return e.series([]string{tmpl(`up{lbl=§}`, text), `{c="d"}`}, 2, true)
			}})
	}
	for _, q := range identForms(reLogQLLabel, "") {
		add(Site{ID: "labels/series_match/label_name/" + q.Name, Group: "label_match_param_name", Lang: "logql", Quote: q,
			Exec: func(e *Env, text string) ([]string, error) {
				return e.series([]string{tmpl(`{§="v"}`, text)}, 1, false)
			}})
		add(Site{ID: "labels/series_match/metric_name/" + q.Name, Group: "label_match_param_name", Lang: "logql", Quote: q,
			Exec: func(e *Env, text string) ([]string, error) {
				return e.series([]string{tmpl(`§{a="v"}`, text)}, 2, false)
			}})
	}
	// Prometheus label values: match[] is PromQL, converted to a LogQL selector through labels.Matcher.String()
	for _, q := range []QuoteFn{qDQGo, qDQGoRaw, qSQGo, qBTRaw} {
		for _, o := range ops {
			o := o
			add(Site{ID: "labels/prom_values_match/" + o.name + "/" + q.Name, Group: "label_match_param_value", Lang: "promql", Quote: q,
				Exec: func(e *Env, text string) ([]string, error) {
					return e.promLabelValues("job", []string{tmpl(`m{lbl`+o.op+`§}`, text)}, false)
				}})
		}
	}
}

// ---- TraceQL -----------------------------------------------------------------------------------------------------------

func traceqlSites() {
	ops := []struct{ op, name string }{{"=", "eq"}, {"!=", "neq"}, {"=~", "re"}, {"!~", "nre"}}
	search := func(id, group, t string, q QuoteFn, complex bool) {
		add(Site{ID: id + "/" + q.Name, Group: group, Lang: "traceql", Quote: q,
			Exec: func(e *Env, text string) ([]string, error) { return e.traceqlSearch(tmpl(t, text), complex) }})
	}
	for _, q := range strForms {
		for _, o := range ops {
			search("traceql/attr_value/"+o.name, "traceql_attr_value", `{.attr `+o.op+` §}`, q, false)
		}
		search("traceql/attr_value/span_and", "traceql_attr_value", `{span.attr = § && .b = "c"}`, q, false)
		search("traceql/attr_value/resource_or_paren", "traceql_attr_value", `{(resource.attr =~ § || .b = "c") && .d != "e"}`, q, false)
		search("traceql/attr_value/name", "traceql_attr_value", `{name = §}`, q, false)
		search("traceql/attr_value/with_agg", "traceql_attr_value", `{.attr = §} | count() > 1`, q, false)
		search("traceql/attr_value/with_avg", "traceql_attr_value", `{.attr != §} | avg(.lat) >= 1.5`, q, false)
		search("traceql/attr_value/complex_and", "traceql_attr_value", `{.attr = §} && {.b = "c"}`, q, false)
		search("traceql/attr_value/complex_or", "traceql_attr_value", `{.b = "c"} || {.attr =~ §}`, q, false)
		search("traceql/attr_value/sharded", "traceql_attr_value", `{.attr = §}`, q, true)
		add(Site{ID: "traceql/attr_value/tags_v2/" + q.Name, Group: "traceql_attr_value", Lang: "traceql", Quote: q,
			Exec: func(e *Env, text string) ([]string, error) { return e.traceqlTagsV2(tmpl(`{.attr = §}`, text), false) }})
		add(Site{ID: "traceql/attr_value/values_v2/" + q.Name, Group: "traceql_attr_value", Lang: "traceql", Quote: q,
			Exec: func(e *Env, text string) ([]string, error) {
				return e.traceqlValuesV2("k", tmpl(`{.attr !~ § && .b = "c"}`, text), false)
			}})
	}
	for _, whole := range []bool{true, false} {
		id := func(prefix string) QuoteFn { return identForm(reTraceQLName, prefix, whole) }
		search("traceql/attr_name/dot", "traceql_attr_name", `{.§ = "v"}`, id("."), false)
		search("traceql/attr_name/span_num", "traceql_attr_name", `{span.§ > 5}`, id("span."), false)
		search("traceql/attr_name/resource_re", "traceql_attr_name", `{resource.§ =~ "v"}`, id("resource."), false)
		// un-scoped names other than `name` and `duration` are refused by the planner ("unsupported attribute")
		search("traceql/attr_name/bare", "traceql_attr_name", `{§ = "v"}`, id(""), false)
		sites[len(sites)-1].NotInSQL = true
		search("traceql/agg_attr/dot", "traceql_aggregator_attr", `{.a = "b"} | avg(.§) > 1`, id("."), false)
		search("traceql/agg_attr/span", "traceql_aggregator_attr", `{.a = "b"} | max(span.§) > 1`, id("span."), false)
		search("traceql/agg_attr/bare", "traceql_aggregator_attr", `{.a = "b"} | sum(§) > 1`, id(""), false)
		q := id(".")
		add(Site{ID: "traceql/attr_name/tags_v2/" + q.Name, Group: "traceql_attr_name", Lang: "traceql", Quote: q,
			Exec: func(e *Env, text string) ([]string, error) { return e.traceqlTagsV2(tmpl(`{.§ = "v"}`, text), false) }})
	}
	// tag-values URL name
	add(Site{ID: "traceql/values_v2_key/with_query", Group: "tempo_tag_values_url_name", Lang: "url", Quote: qPlain,
		Exec: func(e *Env, text string) ([]string, error) { return e.traceqlValuesV2(text, `{.a = "b"}`, false) }})
	add(Site{ID: "traceql/values_v2_key/empty_selector", Group: "tempo_tag_values_url_name", Lang: "url", Quote: qPlain,
		Exec: func(e *Env, text string) ([]string, error) { return e.traceqlValuesV2(text, `{}`, false) }})
	add(Site{ID: "traceql/values_v2_key/no_query", Group: "tempo_tag_values_url_name", Lang: "url", Quote: qPlain, NotInSQL: true,
		Exec: func(e *Env, text string) ([]string, error) { return e.traceqlValuesV2(text, ``, false) }})
	add(Site{ID: "traceql/values_v2_key/sharded", Group: "tempo_tag_values_url_name", Lang: "url", Quote: qPlain, NotInSQL: true,
		Exec: func(e *Env, text string) ([]string, error) { return e.traceqlValuesV2(text, `{.a = "b"}`, true) }})
}

// ---- Tempo search tags, v1 tag values, trace by id ---------------------------------------------------------------------

var tempoLiteral = regexp.MustCompile(`^[^ !=~"]+$`)

func tempoSites() {
	lit := QuoteFn{Name: "literal", F: func(s string) (Quoted, bool) {
		// unquoted form: the grammar ends the token at space ! = ~ " and skips other white space between tokens
		if !tempoLiteral.MatchString(s) || strings.IndexFunc(s, unicode.IsSpace) >= 0 {
			return Quoted{}, false
		}
		return Quoted{Text: s, Value: s}, true
	}}
	ops := []struct{ op, name string }{{"=", "eq"}, {"!=", "neq"}, {"=~", "re"}, {"!~", "nre"}}
	for _, q := range []QuoteFn{lit, qDQGo, qDQGoRaw} {
		for _, o := range ops {
			o := o
			add(Site{ID: "tempo/search_tag_value/" + o.name + "/" + q.Name, Group: "tempo_search_tag_value", Lang: "tempo_tags", Quote: q,
				Exec: func(e *Env, text string) ([]string, error) { return e.tempoSearch("k"+o.op+text+" k2=v2", false) }})
		}
		add(Site{ID: "tempo/search_tag_value/eq_window/" + q.Name, Group: "tempo_search_tag_value", Lang: "tempo_tags", Quote: q,
			Exec: func(e *Env, text string) ([]string, error) { return e.tempoSearch("k2=v2 k="+text, true) }})
		add(Site{ID: "tempo/search_tag_name/" + q.Name, Group: "tempo_search_tag_name", Lang: "tempo_tags", Quote: q,
			Exec: func(e *Env, text string) ([]string, error) { return e.tempoSearch(text+"=v k2!=v2", false) }})
		add(Site{ID: "tempo/search_tag_name/window/" + q.Name, Group: "tempo_search_tag_name", Lang: "tempo_tags", Quote: q,
			Exec: func(e *Env, text string) ([]string, error) { return e.tempoSearch("k2=~v2 "+text+"=v", true) }})
	}
	for _, cluster := range []bool{false, true} {
		cluster := cluster
		cl := map[bool]string{false: "single", true: "cluster"}[cluster]
		add(Site{ID: "tempo/values_v1_tag/" + cl, Group: "tempo_tag_values_url_name", Lang: "url",
			Quote: QuoteFn{Name: "plain", F: func(s string) (Quoted, bool) { return Quoted{Text: s, Value: tempoV1TagName(s)}, true }},
			Exec:  func(e *Env, text string) ([]string, error) { return e.tempoValues(text, cluster) }})
	}
	for _, p := range []string{"span.", ".", "resource."} {
		p := p
		add(Site{ID: "tempo/values_v1_tag/prefix_" + strings.Trim(p, ".") + "_", Group: "tempo_tag_values_url_name", Lang: "url",
			Quote: QuoteFn{Name: "plain", F: func(s string) (Quoted, bool) {
				return Quoted{Text: p + s, Value: tempoV1TagName(p + s)}, true
			}},
			Exec: func(e *Env, text string) ([]string, error) { return e.tempoValues(text, false) }})
	}
	add(Site{ID: "tempo/trace_id", Group: "tempo_trace_id", Lang: "url", Quote: qPlain,
		Exec: func(e *Env, text string) ([]string, error) { return e.tempoTrace(text) },
		// a harmless trace id is hex
		Variants: fixedVariants([]Variant{{Name: "value", BX: "ab", BY: "cd", T: []Transform{tExact}}})})
}

// tempoV1TagName: /api/search/tag/{tag}/values accepts scoped names; the scope prefix is not part of the key
// ("span.x", ".x", "resource.x" all mean attribute x - TempoService.Values).
func tempoV1TagName(tag string) string {
	tag = strings.TrimPrefix(tag, "span.")
	tag = strings.TrimPrefix(tag, ".")
	if len(tag) >= 10 {
		tag = strings.TrimPrefix(tag, "resource.")
	}
	return tag
}

// ---- PromQL -------------------------------------------------------------------------------------------------------------

func promSites() {
	ops := []struct{ op, name string }{{"=", "eq"}, {"!=", "neq"}, {"=~", "re"}, {"!~", "nre"}}
	aligned := time.Unix(1700000010/15*15, 0)
	type shape struct {
		name, t    string
		start, end time.Time
		step       time.Duration
		rows       bool
		cluster    bool
	}
	shapes := []shape{
		{"raw_instant_vector", `§`, fromT.Add(time.Second), toT, 5 * time.Second, false, false},
		{"raw_rate", `rate(§[1m])`, fromT.Add(time.Second), toT, 5 * time.Second, false, false},
		{"downsample_vector", `§`, aligned, aligned.Add(10 * time.Minute), 15 * time.Second, false, false},
		{"downsample_sum_over_time", `sum by (b) (sum_over_time(§[5m]))`, aligned, aligned.Add(10 * time.Minute), time.Minute, false, false},
		{"raw_with_rows_cluster", `§ + 1`, fromT.Add(time.Second), toT, 5 * time.Second, true, true},
	}
	for _, sh := range shapes {
		sh := sh
		for _, q := range []QuoteFn{qDQGo, qDQGoRaw, qSQGo, qBTRaw} {
			for _, o := range ops {
				o := o
				if sh.name != "raw_instant_vector" && o.name != "eq" && o.name != "re" {
					continue
				}
				add(Site{ID: "promql/matcher_value/" + o.name + "/" + sh.name + "/" + q.Name, Group: "promql_matcher_value", Lang: "promql", Quote: q,
					Exec: func(e *Env, text string) ([]string, error) {
						return e.promRange(tmpl(sh.t, `m{lbl`+o.op+text+`, b="c"}`), sh.start, sh.end, sh.step, sh.rows, sh.cluster)
					}})
			}
		}
		for _, q := range identForms(rePromLabel, "") {
			add(Site{ID: "promql/matcher_name/" + sh.name + "/" + q.Name, Group: "promql_matcher_name", Lang: "promql", Quote: q,
				Exec: func(e *Env, text string) ([]string, error) {
					return e.promRange(tmpl(sh.t, `m{`+text+`="v"}`), sh.start, sh.end, sh.step, sh.rows, sh.cluster)
				}})
		}
		for _, q := range identForms(rePromMetric, "") {
			add(Site{ID: "promql/metric_name/" + sh.name + "/" + q.Name, Group: "promql_matcher_name", Lang: "promql", Quote: q,
				Exec: func(e *Env, text string) ([]string, error) {
					return e.promRange(tmpl(sh.t, text+`{a="v"}`), sh.start, sh.end, sh.step, sh.rows, sh.cluster)
				}})
		}
	}
	for _, q := range []QuoteFn{qDQGo, qSQGo, qBTRaw} {
		add(Site{ID: "promql/metric_name_matcher/" + q.Name, Group: "promql_matcher_value", Lang: "promql", Quote: q,
			Exec: func(e *Env, text string) ([]string, error) {
				return e.promRange(`{__name__=`+text+`}`, fromT.Add(time.Second), toT, 5*time.Second, false, false)
			}})
	}
}

// ---- Pyroscope -------------------------------------------------------------------------------------------------------------

const benignType = "process_cpu:cpu:nanoseconds:cpu:nanoseconds"

func profSites() {
	ops := []struct{ op, name string }{{"=", "eq"}, {"!=", "neq"}, {"=~", "re"}, {"!~", "nre"}}
	calls := []struct {
		name string
		exec func(e *Env, sel string) ([]string, error)
	}{
		{"label_names", func(e *Env, sel string) ([]string, error) { return e.profCall("label_names", false, sel) }},
		{"label_values", func(e *Env, sel string) ([]string, error) { return e.profCall("label_values", true, sel, "k") }},
		{"merge_stacktraces", func(e *Env, sel string) ([]string, error) {
			return e.profCall("merge_stacktraces", false, sel, benignType)
		}},
		{"select_series", func(e *Env, sel string) ([]string, error) {
			return e.profCall("select_series", false, sel, benignType)
		}},
		{"select_series_avg", func(e *Env, sel string) ([]string, error) {
			return e.profCall("select_series_avg_groupby", true, sel, benignType, "g")
		}},
		{"merge_profiles", func(e *Env, sel string) ([]string, error) {
			return e.profCall("merge_profiles", false, sel, benignType)
		}},
		{"series", func(e *Env, sel string) ([]string, error) { return e.profCall("series", false, sel) }},
		{"series2", func(e *Env, sel string) ([]string, error) { return e.profCall("series2_labels", false, sel, "l") }},
		{"render_diff", func(e *Env, sel string) ([]string, error) {
			return e.profCall("render_diff", false, benignType+sel, benignType+`{k="v"}`)
		}},
		{"analyze", func(e *Env, sel string) ([]string, error) { return e.profCall("analyze", false, sel) }},
	}
	for _, q := range []QuoteFn{qDQGo, qDQGoRaw, qBTRaw} {
		for _, c := range calls {
			c := c
			for _, o := range ops {
				o := o
				if c.name != "label_names" && o.name != "eq" && o.name != "nre" {
					continue
				}
				add(Site{ID: "prof/selector_value/" + o.name + "/" + c.name + "/" + q.Name, Group: "prof_selector_value", Lang: "prof", Quote: q,
					Exec: func(e *Env, text string) ([]string, error) { return c.exec(e, `{lbl`+o.op+text+`, k="v"}`) }})
			}
		}
		// selector names with a dedicated column / expression
		for _, special := range []string{"__name__", "__period_type__", "__period_unit__", "__sample_type__", "__sample_unit__", "__profile_type__", "service_name"} {
			special := special
			for _, o := range []string{"=", "=~"} {
				o := o
				on := map[string]string{"=": "eq", "=~": "re"}[o]
				add(Site{ID: "prof/selector_special/" + special + "/" + on + "/series/" + q.Name, Group: "prof_selector_value", Lang: "prof", Quote: q,
					Exec: func(e *Env, text string) ([]string, error) {
						return e.profCall("series", false, `{`+special+o+text+`, k="v"}`)
					}})
			}
			add(Site{ID: "prof/selector_special/" + special + "/neq/select_series/" + q.Name, Group: "prof_selector_value", Lang: "prof", Quote: q,
				Exec: func(e *Env, text string) ([]string, error) {
					return e.profCall("select_series", false, `{`+special+`!=`+text+`}`, benignType)
				}})
		}
	}
	for _, q := range identForms(reLogQLLabel, "") {
		add(Site{ID: "prof/selector_name/series/" + q.Name, Group: "prof_selector_name", Lang: "prof", Quote: q,
			Exec: func(e *Env, text string) ([]string, error) { return e.profCall("series", false, `{`+text+`="v"}`) }})
		add(Site{ID: "prof/selector_name/merge_stacktraces/" + q.Name, Group: "prof_selector_name", Lang: "prof", Quote: q,
			Exec: func(e *Env, text string) ([]string, error) {
				return e.profCall("merge_stacktraces", false, `{`+text+`=~"v"}`, benignType)
			}})
	}
	// label names given outside the selector
	add(Site{ID: "prof/label_values_name/with_selector", Group: "prof_label_name_param", Lang: "proto", Quote: qPlain,
		Exec: func(e *Env, text string) ([]string, error) { return e.profCall("label_values", false, `{k="v"}`, text) }})
	add(Site{ID: "prof/label_values_name/no_selector", Group: "prof_label_name_param", Lang: "proto", Quote: qPlain,
		Exec: func(e *Env, text string) ([]string, error) { return e.profCall("label_values_noscript", true, text) }})
	add(Site{ID: "prof/series_label_names", Group: "prof_label_name_param", Lang: "proto", Quote: qPlain,
		Exec: func(e *Env, text string) ([]string, error) {
			return e.profCall("series2_labels", false, `{k="v"}`, text)
		}})
	add(Site{ID: "prof/select_series_group_by", Group: "prof_label_name_param", Lang: "proto", Quote: qPlain,
		Exec: func(e *Env, text string) ([]string, error) {
			return e.profCall("select_series_avg_groupby", false, `{k="v"}`, benignType, text)
		}})

	// profile type id parts  name:sample_type:sample_unit:period_type:period_unit
	parts := strings.Split(benignType, ":")
	partNames := []string{"name", "sample_type", "sample_unit", "period_type", "period_unit"}
	for i := range parts {
		i := i
		mk := func(trimLeft, trimRight, brace bool) QuoteFn {
			return QuoteFn{Name: "plain", F: func(s string) (Quoted, bool) {
				if i < 4 && strings.Contains(s, ":") {
					return Quoted{}, false // ':' separates the first four parts
				}
				if brace && strings.Contains(s, "{") {
					return Quoted{}, false // in ?query= the type id ends at the first '{'
				}
				p := append([]string{}, parts...)
				p[i] = s
				v := s
				if trimLeft && i == 0 {
					v = strings.TrimLeftFunc(v, unicode.IsSpace)
				}
				if trimRight && i == 4 {
					v = strings.TrimRightFunc(v, unicode.IsSpace)
				}
				return Quoted{Text: strings.Join(p, ":"), Value: v}, true
			}}
		}
		// sample type and unit also travel together as one literal 'type:unit'
		variants := defaultVariants
		switch i {
		case 1:
			variants = []Variant{{Name: "value", BX: "x", BY: "y", T: []Transform{tExact,
				{"type:unit", TExact, func(v Val) (string, bool) { return v.Whole + ":" + parts[2], true }}}}}
		case 2:
			variants = []Variant{{Name: "value", BX: "x", BY: "y", T: []Transform{tExact,
				{"type:unit", TExact, func(v Val) (string, bool) { return parts[1] + ":" + v.Whole, true }}}}}
		}
		for _, call := range []string{"merge_stacktraces", "select_series", "merge_profiles"} {
			call := call
			add(Site{ID: "prof/type_id/" + partNames[i] + "/" + call, Group: "prof_type_id", Lang: "proto", Quote: mk(false, false, false),
				Exec:     func(e *Env, text string) ([]string, error) { return e.profCall(call, false, `{k="v"}`, text) },
				Variants: fixedVariants(variants), Classify: classifyTypeID})
		}
		add(Site{ID: "prof/type_id/" + partNames[i] + "/render_diff", Group: "prof_type_id", Lang: "url", Quote: mk(true, true, true),
			Variants: fixedVariants(variants),
			Exec: func(e *Env, text string) ([]string, error) {
				return e.profCall("render_diff", false, text+`{k="v"}`, " "+text+` {k!="w"}`)
			},
			Classify: classifyTypeID})
	}
}

// classifyTypeID: transpiler.populateTypeId wraps each part in back quotes and parser.Str.Unquote strips *all*
// leading and trailing back quotes again.
func classifyTypeID(v string, f *Finding) string {
	if f.Reason == "literal_value_mismatch" && strings.Trim(v, "`") != v && f.Observed == strings.Trim(v, "`") {
		return "backtick_trim"
	}
	return ""
}
