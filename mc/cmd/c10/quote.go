package main

// Quoting of a byte string in the *query languages* (not in SQL): the request text must make the front end's
// parser yield exactly the intended value.  Each function returns the literal text and the value the language
// definition assigns to that text ("Value"); ok=false means this quoting form cannot express s.

import (
	"fmt"
	"regexp"
	"strings"
	"unicode/utf8"
)

type Quoted struct {
	Text  string // as written in the request
	Value string // what the front end is specified to read from Text
	Hole  string // the part of Value that is the hostile string itself (context templates); "" = Value
	// Weak: the text is not a well-formed occurrence of this position in the query language (an identifier
	// position given bytes outside the language's identifier grammar, or white space).  The front end must
	// reject it or read a *different program*; the harmless rendering of the site is then no yardstick, and only
	// the rule that holds for every program is applied: no comment and no lexical error in any statement.
	Weak bool
}

type QuoteFn struct {
	Name string
	F    func(s string) (Quoted, bool)
	// Only restricts the hostile strings tried with this form (nil = all); harmless stand-ins ignore it.
	Only func(s string) bool
}

// perByteReplace is what encoding/json and strconv.Unquote do with raw invalid UTF-8: every offending byte
// becomes U+FFFD.  LogQL / TraceQL strings of this repository are decoded with encoding/json, so for those
// languages the *front end's* value of a raw invalid byte is U+FFFD; C10 takes the front end's value as the
// intended one (whether that normalisation is right is a C07 question, it cannot affect SQL structure).
func perByteReplace(s string) string {
	if utf8.ValidString(s) {
		return s
	}
	var b strings.Builder
	for i := 0; i < len(s); {
		r, n := utf8.DecodeRuneInString(s[i:])
		if r == utf8.RuneError && n == 1 {
			b.WriteString("\uFFFD")
		} else {
			b.WriteString(s[i : i+n])
		}
		i += n
	}
	return b.String()
}

// escapeCommon writes s between quote characters q using only escapes that encoding/json AND Go/strconv agree
// on: \\ \q \n \r \t \b \f and \u00XX for the other control bytes.  Bytes >= 0x80 are written raw, unless
// hexInvalid is set, in which case bytes of invalid UTF-8 are written as \xNN (Go/PromQL only).
func escapeCommon(s string, q byte, hexInvalid bool) string {
	var b strings.Builder
	b.WriteByte(q)
	for i := 0; i < len(s); {
		c := s[i]
		switch {
		case c == '\\':
			b.WriteString(`\\`)
		case c == q:
			b.WriteByte('\\')
			b.WriteByte(q)
		case c == '\n':
			b.WriteString(`\n`)
		case c == '\r':
			b.WriteString(`\r`)
		case c == '\t':
			b.WriteString(`\t`)
		case c == '\b':
			b.WriteString(`\b`)
		case c == '\f':
			b.WriteString(`\f`)
		case c < 0x20 || c == 0x7f:
			fmt.Fprintf(&b, `\u%04x`, c)
		case c >= 0x80:
			r, n := utf8.DecodeRuneInString(s[i:])
			if r == utf8.RuneError && n == 1 && hexInvalid {
				fmt.Fprintf(&b, `\x%02x`, c)
			} else {
				b.WriteString(s[i : i+n])
			}
			i += n
			continue
		default:
			b.WriteByte(c)
		}
		i++
	}
	b.WriteByte(q)
	return b.String()
}

// LogQL / TraceQL (this repository decodes both with encoding/json).
var qDQJSON = QuoteFn{Name: "dq", F: func(s string) (Quoted, bool) {
	return Quoted{Text: escapeCommon(s, '"', false), Value: perByteReplace(s)}, true
}}

// `raw` string: Loki/Tempo definition = Go raw string (no escapes, no backtick inside).
var qBTJSON = QuoteFn{Name: "bt", F: func(s string) (Quoted, bool) {
	if strings.Contains(s, "`") {
		return Quoted{}, false
	}
	return Quoted{Text: "`" + s + "`", Value: perByteReplace(s)}, true
}}

// Go-style "…" (strconv.Unquote / Prometheus strutil.Unquote): invalid UTF-8 as \xNN keeps the bytes.
var qDQGo = QuoteFn{Name: "dq", F: func(s string) (Quoted, bool) {
	return Quoted{Text: escapeCommon(s, '"', true), Value: s}, true
}}

// Go-style "…" with raw high bytes: invalid UTF-8 is replaced by the decoder.
var qDQGoRaw = QuoteFn{Name: "dqraw", F: func(s string) (Quoted, bool) {
	return Quoted{Text: escapeCommon(s, '"', false), Value: perByteReplace(s)}, true
}, Only: func(s string) bool { return !utf8.ValidString(s) /* otherwise identical to qDQGo */ }}

// PromQL 'single quoted'.
var qSQGo = QuoteFn{Name: "sq", F: func(s string) (Quoted, bool) {
	return Quoted{Text: escapeCommon(s, '\'', true), Value: s}, true
}}

// PromQL / pyroscope `raw`: no backtick inside, bytes as they are.
var qBTRaw = QuoteFn{Name: "bt", F: func(s string) (Quoted, bool) {
	if strings.Contains(s, "`") {
		return Quoted{}, false
	}
	return Quoted{Text: "`" + s + "`", Value: s}, true
}}

// identForm: an identifier position.  re is the language's identifier grammar for the whole token, tokenPrefix the
// part of the token that the request template writes in front of the hole (e.g. "." or "span." in TraceQL).
// whole: the hostile string is the name; otherwise it follows a harmless first letter.
func identForm(re *regexp.Regexp, tokenPrefix string, whole bool) QuoteFn {
	name := "suffix"
	if whole {
		name = "whole"
	}
	return QuoteFn{Name: name, F: func(s string) (Quoted, bool) {
		text := s
		if !whole {
			text = "a" + s
		}
		return Quoted{Text: text, Value: text, Weak: !re.MatchString(tokenPrefix + text)}, true
	}}
}

func identForms(re *regexp.Regexp, tokenPrefix string) []QuoteFn {
	return []QuoteFn{identForm(re, tokenPrefix, true), identForm(re, tokenPrefix, false)}
}

// identifier grammars, restated from the lexer rule files of the repository / the upstream languages
var (
	reLogQLLabel  = regexp.MustCompile(`^[a-zA-Z_][a-zA-Z0-9_]*$`)                                // logql_parser Label_name / Macros_function
	reTraceQLName = regexp.MustCompile(`^(\.[a-zA-Z_][.a-zA-Z0-9_-]*|[a-zA-Z_][.a-zA-Z0-9_-]*)$`) // traceql parser Label_name
	rePromLabel   = regexp.MustCompile(`^[a-zA-Z_][a-zA-Z0-9_]*$`)                                // PromQL label name
	rePromMetric  = regexp.MustCompile(`^[a-zA-Z_:][a-zA-Z0-9_:]*$`)                              // PromQL metric name
	reGoIdent     = regexp.MustCompile(`^[\p{L}_][\p{L}\p{Nd}_]*$`)                               // text/scanner, text/template identifiers
	reRegexpGroup = regexp.MustCompile(`^[a-zA-Z_][0-9a-zA-Z_]*$`)                                // planner_parser_regexp Ident
)

// plain: the string is handed over as it is (URL path / query parameters after URL decoding, protobuf fields).
var qPlain = QuoteFn{Name: "plain", F: func(s string) (Quoted, bool) { return Quoted{Text: s, Value: s}, true }}

// Ctx is a context template: the hostile string is embedded in a value whose *shape* may steer a planner branch.
// Meta: the payload is written regex-quoted (regexp.QuoteMeta) - a recogniser that keys on the literal-ness of the
// parsed regex sees the payload's bytes as one literal even when they contain regex syntax.
// Core: kept at secondary sites in the quick tier (the shapes recognisers are most likely to look for).
type Ctx struct {
	Name, Pre, Suf string
	Meta, Core     bool
}

// withCtx quotes Pre+s+Suf and remembers what the front end reads for s itself.
func withCtx(q QuoteFn, c Ctx) QuoteFn {
	if c.Pre == "" && c.Suf == "" && !c.Meta {
		return q
	}
	only := q.Only
	if c.Meta {
		// identical to the raw form unless the payload contains regex syntax
		only = func(s string) bool { return regexp.QuoteMeta(s) != s && (q.Only == nil || q.Only(s)) }
	}
	return QuoteFn{Name: q.Name, Only: only, F: func(s string) (Quoted, bool) {
		if c.Meta {
			s = regexp.QuoteMeta(s)
		}
		b, ok := q.F(c.Pre + s + c.Suf)
		if !ok {
			return Quoted{}, false
		}
		h, ok := q.F(s)
		if !ok {
			return Quoted{}, false
		}
		b.Hole = h.Value
		return b, true
	}}
}

var idCtx = Ctx{Name: ""}

// regexCtxs: for positions whose value is a regular expression - the shapes a planner may recognise and rewrite
// (substring / prefix / suffix / exact searches, case folding, groups, alternations, classes), each with the payload
// raw and regex-quoted.  regexRecognisers (scan.go) lists what the planners of the tree look for today.
var regexCtxs = func() []Ctx {
	base := []Ctx{
		idCtx,
		{Name: "contains", Pre: ".*", Suf: ".*", Core: true},
		{Name: "anchored", Pre: "^", Suf: "$", Core: true},
		{Name: "anchored_alt_last", Pre: "^(a|", Suf: ")$", Core: true},
		{Name: "fold", Pre: "(?i)", Core: true},
		{Name: "prefix_of_any", Suf: ".*", Core: true},
		{Name: "suffix_of_any", Pre: ".*"},
		{Name: "anchored_start", Pre: "^"},
		{Name: "anchored_end", Suf: "$"},
		{Name: "anchored_noncapture_alt_first", Pre: "^(?:", Suf: "|b)$"},
		{Name: "group", Pre: "(", Suf: ")"},
		{Name: "noncapture_group", Pre: "(?:", Suf: ")"},
		{Name: "fold_contains", Pre: "(?i).*", Suf: ".*"},
		{Name: "between_some", Pre: ".+", Suf: ".+"},
		{Name: "some_then_any", Pre: ".+", Suf: ".*"},
		{Name: "bare_alt", Pre: "a|"},
		{Name: "class", Pre: "[", Suf: "]"},
		{Name: "literal_affixes", Pre: "ab", Suf: "cd"},
		{Name: "escaped_literal", Pre: `a\.`},
	}
	out := append([]Ctx{}, base...)
	for _, c := range base {
		m := c
		m.Meta = true
		if m.Name == "" {
			m.Name = "quoted"
		} else {
			m.Name += "_quoted"
		}
		out = append(out, m)
	}
	return out
}()

// plainCtxs: for positions whose value is a plain string: number-, duration- and size-looking values.
var plainCtxs = []Ctx{
	idCtx,
	{Name: "digit_prefix", Pre: "5"},
	{Name: "digit_suffix", Suf: "5"},
	{Name: "float_prefix", Pre: "1.5"},
	{Name: "duration_like", Pre: "5", Suf: "s"},
	{Name: "size_like", Pre: "10", Suf: "KB"},
}
