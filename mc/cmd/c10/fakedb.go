package main

// Fake database seam: a database/sql driver that records every query text and answers with scripted rows, wrapped
// in the repository's own ISqlxDB implementation (reader/utils/dsn.StableSqlxDBWrapper) and handed to the services
// through a fake model.IDBRegistry.  Nothing is ever sent anywhere.

import (
	"context"
	"database/sql"
	"database/sql/driver"
	"io"
	"sync"

	"github.com/jmoiron/sqlx"
	"github.com/metrico/cloki-config/config"
	"github.com/metrico/qryn/reader/model"
	"github.com/metrico/qryn/reader/utils/dsn"
)

// Recorder collects the SQL of one case.
type Recorder struct {
	mu      sync.Mutex
	queries []string
	// Script decides the rows answered to a query; nil => no rows.
	Script func(query string) [][]driver.Value
}

func (r *Recorder) Reset(script func(string) [][]driver.Value) {
	r.mu.Lock()
	r.queries = nil
	r.Script = script
	r.mu.Unlock()
}

func (r *Recorder) Take() []string {
	r.mu.Lock()
	defer r.mu.Unlock()
	out := r.queries
	r.queries = nil
	return out
}

func (r *Recorder) record(q string) [][]driver.Value {
	r.mu.Lock()
	defer r.mu.Unlock()
	r.queries = append(r.queries, q)
	if r.Script != nil {
		return r.Script(q)
	}
	return nil
}

type fakeConnector struct{ rec *Recorder }

func (c *fakeConnector) Connect(context.Context) (driver.Conn, error) { return &fakeConn{c.rec}, nil }
func (c *fakeConnector) Driver() driver.Driver                        { return fakeDriver{} }

type fakeDriver struct{}

func (fakeDriver) Open(string) (driver.Conn, error) { return nil, io.ErrUnexpectedEOF }

type fakeConn struct{ rec *Recorder }

func (c *fakeConn) Prepare(q string) (driver.Stmt, error) { return &fakeStmt{c, q}, nil }
func (c *fakeConn) Close() error                          { return nil }
func (c *fakeConn) Begin() (driver.Tx, error)             { return fakeTx{}, nil }
func (c *fakeConn) QueryContext(_ context.Context, q string, _ []driver.NamedValue) (driver.Rows, error) {
	return &fakeRows{rows: c.rec.record(q)}, nil
}
func (c *fakeConn) ExecContext(_ context.Context, q string, _ []driver.NamedValue) (driver.Result, error) {
	c.rec.record(q)
	return driver.RowsAffected(0), nil
}

type fakeTx struct{}

func (fakeTx) Commit() error   { return nil }
func (fakeTx) Rollback() error { return nil }

type fakeStmt struct {
	c *fakeConn
	q string
}

func (s *fakeStmt) Close() error  { return nil }
func (s *fakeStmt) NumInput() int { return -1 }
func (s *fakeStmt) Exec([]driver.Value) (driver.Result, error) {
	s.c.rec.record(s.q)
	return driver.RowsAffected(0), nil
}
func (s *fakeStmt) Query([]driver.Value) (driver.Rows, error) {
	return &fakeRows{rows: s.c.rec.record(s.q)}, nil
}

type fakeRows struct {
	rows [][]driver.Value
	i    int
}

func (r *fakeRows) Columns() []string {
	n := 1
	if len(r.rows) > 0 {
		n = len(r.rows[0])
	}
	cols := make([]string, n)
	for i := range cols {
		cols[i] = "c"
	}
	return cols
}
func (r *fakeRows) Close() error { return nil }
func (r *fakeRows) Next(dest []driver.Value) error {
	if r.i >= len(r.rows) {
		return io.EOF
	}
	copy(dest, r.rows[r.i])
	r.i++
	return nil
}

// fakeRegistry implements model.IDBRegistry.
type fakeRegistry struct{ db *model.DataDatabasesMap }

func (f *fakeRegistry) GetDB(context.Context) (*model.DataDatabasesMap, error) { return f.db, nil }
func (f *fakeRegistry) Run()                                                   {}
func (f *fakeRegistry) Stop()                                                  {}
func (f *fakeRegistry) Ping() error                                            { return nil }

func newRegistry(rec *Recorder, name, cluster string) *fakeRegistry {
	db := sqlx.NewDb(sql.OpenDB(&fakeConnector{rec}), "clickhouse")
	w := &dsn.StableSqlxDBWrapper{DB: db, Name: name + "/" + cluster, GetDB: func() *sqlx.DB { return db }}
	return &fakeRegistry{db: &model.DataDatabasesMap{
		Config:  &config.ClokiBaseDataBase{Name: name, ClusterName: cluster},
		Session: w,
	}}
}
