package main

// State carried across requests, and sizes.
//
// SIZE: integer constants of reader/utils/sql_select and of the planner packages (go/ast, sizeLimits) that look like
// byte limits give, for each limit L, values of L-1, L and L+1 bytes: harmless filler with a hostile tail.
//
// HISTORY: the probe value is sent after a predecessor request of a given class in the same worker process
// (GOMAXPROCS=1, so the hand-over of pooled objects between two consecutive requests is deterministic):
//
//	harmless   the same request with the harmless value (accepted, statement sent)
//	error      a request of the same language that the planner refuses with an error
//	large      the same request with 200 KiB of filler
//	over_L     the same request with L+1 bytes of filler, for every discovered limit L
//
// The oracle is unchanged: the probe's statements must have the structure of the harmless twin's (rendered BEFORE the
// predecessor, in a clean state) and its literals must read back.  A history case is written as one string
// historyMark + class + NUL + probe so that it travels through the ordinary case machinery and replay files.

import (
	"go/ast"
	"go/parser"
	"go/token"
	"os"
	"path/filepath"
	"sort"
	"strconv"
	"strings"

	"verif/mc/ev"
)

const historyMark = "\x00history\x00"

const largeSize = 200 << 10

var sizeTails = []string{`'`, `\`}
var historyProbes = []string{"x", `'`, `\`}

func filler(n int) string {
	if n < 0 {
		n = 0
	}
	return strings.Repeat("a", n)
}

// evalInt evaluates the integer constant expressions limits are written as: 131072, 128 * 1024, 128 << 10, (1 << 17) - 1.
func evalInt(e ast.Expr, env map[string]int64) (int64, bool) {
	switch x := e.(type) {
	case *ast.BasicLit:
		if x.Kind != token.INT {
			return 0, false
		}
		v, err := strconv.ParseInt(strings.ReplaceAll(x.Value, "_", ""), 0, 64)
		return v, err == nil
	case *ast.ParenExpr:
		return evalInt(x.X, env)
	case *ast.Ident:
		v, ok := env[x.Name]
		return v, ok
	case *ast.BinaryExpr:
		a, ok1 := evalInt(x.X, env)
		b, ok2 := evalInt(x.Y, env)
		if !ok1 || !ok2 {
			return 0, false
		}
		switch x.Op {
		case token.MUL:
			return a * b, true
		case token.ADD:
			return a + b, true
		case token.SUB:
			return a - b, true
		case token.SHL:
			if b < 0 || b > 40 {
				return 0, false
			}
			return a << uint(b), true
		}
	}
	return 0, false
}

var limitsOnce []int
var limitsNames map[int]string
var limitsDone bool

// sizeLimits: package-level integer constants / variables between 256 B and 1 MiB in the SQL builder and the planners.
func sizeLimits() ([]int, map[int]string) {
	if limitsDone {
		return limitsOnce, limitsNames
	}
	limitsDone = true
	limitsNames = map[int]string{}
	repo := ev.Repo()
	fset := token.NewFileSet()
	for _, dir := range []string{"reader/utils/sql_select", "reader/logql/logql_transpiler_v2/clickhouse_planner", "reader/logql/logql_transpiler_v2/shared",
		"reader/traceql/transpiler", "reader/traceql/transpiler/clickhouse_transpiler", "reader/prof/transpiler", "reader/promql/transpiler", "reader/tempo"} {
		ents, err := os.ReadDir(filepath.Join(repo, dir))
		if err != nil {
			continue
		}
		env := map[string]int64{}
		for _, e := range ents {
			if e.IsDir() || !strings.HasSuffix(e.Name(), ".go") || strings.HasSuffix(e.Name(), "_test.go") {
				continue
			}
			file, err := parser.ParseFile(fset, filepath.Join(repo, dir, e.Name()), nil, 0)
			if err != nil {
				continue
			}
			for _, d := range file.Decls {
				gd, ok := d.(*ast.GenDecl)
				if !ok || (gd.Tok != token.CONST && gd.Tok != token.VAR) {
					continue
				}
				for _, sp := range gd.Specs {
					vs, ok := sp.(*ast.ValueSpec)
					if !ok {
						continue
					}
					for i, n := range vs.Names {
						if i >= len(vs.Values) {
							continue
						}
						if v, ok := evalInt(vs.Values[i], env); ok {
							env[n.Name] = v
							if v >= 256 && v <= 1<<20 {
								limitsNames[int(v)] = filepath.Base(dir) + "." + n.Name
							}
						}
					}
				}
			}
		}
	}
	for l := range limitsNames {
		limitsOnce = append(limitsOnce, l)
	}
	sort.Ints(limitsOnce)
	return limitsOnce, limitsNames
}

// sizeStrings: for each limit L, values of L-1, L, L+1 bytes ending in a hostile tail.
func sizeStrings() []string {
	var out []string
	limits, _ := sizeLimits()
	for _, l := range limits {
		for _, n := range []int{l - 1, l, l + 1} {
			for _, t := range sizeTails {
				out = append(out, filler(n-len(t))+t)
			}
		}
	}
	return out
}

// historyStrings: predecessor class x probe.
func historyStrings() []string {
	classes := []string{"harmless", "error", "large"}
	limits, _ := sizeLimits()
	for _, l := range limits {
		classes = append(classes, "over_"+strconv.Itoa(l))
	}
	var out []string
	for _, c := range classes {
		for _, p := range historyProbes {
			out = append(out, historyMark+c+"\x00"+p)
		}
	}
	return out
}

// predecessorError: a request the planner of the language refuses with an error.
func predecessorError(e *Env, lang string) {
	switch lang {
	case "traceql":
		e.traceqlSearch(`{x = "v"}`, false)
	case "prof", "proto":
		e.profCall("merge_stacktraces", false, `{k="v"}`, "not-a-type-id")
	case "tempo_tags":
		e.tempoSearch(`k=`, false)
	default:
		e.logqlRange(`sum_over_time({a="b"} | unwrap x [5s])`, false)
	}
}

// checkCase runs one case: an ordinary value, or predecessor + probe.
func (c *checker) checkCase(site *Site, s string) CaseResult {
	if !strings.HasPrefix(s, historyMark) {
		return c.check(site, s)
	}
	parts := strings.SplitN(s[len(historyMark):], "\x00", 2)
	if len(parts) != 2 {
		return CaseResult{Outcome: "inexpressible"}
	}
	class, probe := parts[0], parts[1]
	c.check(site, probe) // renders every harmless twin the probe needs, in a clean state
	switch {
	case class == "harmless":
		c.run(site, "x")
	case class == "error":
		predecessorError(c.env, site.Lang)
	case class == "large":
		c.run(site, filler(largeSize))
	case strings.HasPrefix(class, "over_"):
		n, _ := strconv.Atoi(class[len("over_"):])
		c.run(site, filler(n+1))
	}
	r := c.check(site, probe)
	if r.Outcome == "violation" {
		r.Class += "_after_" + strings.SplitN(class, "_", 2)[0] + "_request"
		r.What = "after a " + class + " predecessor request in the same process: " + r.What
	}
	return r
}
