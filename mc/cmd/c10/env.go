package main

// Env: the real services of the repository wired to the fake database seam, plus one method per request kind
// that performs the request and returns every SQL statement the code handed to the session.

import (
	"context"
	"database/sql/driver"
	"fmt"
	"net/http"
	"net/http/httptest"
	"strings"
	"time"

	kitlog "github.com/go-kit/log"
	"github.com/gorilla/mux"
	controllerv1 "github.com/metrico/qryn/reader/controller"
	"github.com/metrico/qryn/reader/logql/logql_parser"
	"github.com/metrico/qryn/reader/logql/logql_transpiler_v2/clickhouse_planner"
	"github.com/metrico/qryn/reader/logql/logql_transpiler_v2/shared"
	"github.com/metrico/qryn/reader/model"
	v1 "github.com/metrico/qryn/reader/prof/types/v1"
	"github.com/metrico/qryn/reader/service"
	sqlsel "github.com/metrico/qryn/reader/utils/sql_select"
	"github.com/metrico/qryn/reader/utils/tables"
	"github.com/prometheus/prometheus/promql"
)

const (
	fromS = int64(1700000000)
	toS   = int64(1700000600)
)

var (
	fromT = time.Unix(fromS, 0)
	toT   = time.Unix(toS, 0)
)

type backend struct {
	reg   *fakeRegistry
	qr    *service.QueryRangeService
	ql    *service.QueryLabelsService
	tempo model.ITempoService
	prof  *service.ProfService
	prom  *service.CLokiQueriable
}

type Env struct {
	rec     *Recorder
	single  *backend
	cluster *backend
	eng     *promql.Engine
	// scripted answers of the fake database for the current request
	script func(string) [][]driver.Value
	// shape-selecting options of the current request (options.go) and the endpoint that served it
	o        Options
	endpoint string
}

func newBackend(rec *Recorder, cluster string) *backend {
	reg := newRegistry(rec, "qryn", cluster)
	sd := &model.ServiceData{Session: reg}
	return &backend{
		reg:   reg,
		qr:    service.NewQueryRangeService(sd),
		ql:    service.NewQueryLabelsService(sd),
		tempo: service.NewTempoService(*sd),
		prof:  &service.ProfService{DataSession: reg},
		prom:  &service.CLokiQueriable{ServiceData: *sd},
	}
}

func newEnv() *Env {
	rec := &Recorder{}
	return &Env{
		rec:     rec,
		single:  newBackend(rec, ""),
		cluster: newBackend(rec, "c1"),
		eng: promql.NewEngine(promql.EngineOpts{
			Logger:     kitlog.NewNopLogger(),
			MaxSamples: 50000000,
			Timeout:    30 * time.Second,
		}),
	}
}

func (e *Env) be(cluster bool) *backend {
	if cluster {
		return e.cluster
	}
	return e.single
}

// isVersionSQL: the two constant statements of reader/utils/dbVersion (cached for 10 s per database, so whether
// they appear depends on timing; they contain no request data).
func isVersionSQL(q string) bool {
	return q == "SHOW TABLES" || strings.HasPrefix(q, "SELECT argMax(name, inserted_at) as _name")
}

// capture runs f and returns the recorded statements; a panic of the code under test is reported as an error
// (the statements recorded before it still count: they were sent).
func (e *Env) capture(f func() error) (sqls []string, err error) {
	e.rec.Reset(e.script)
	defer func() {
		if p := recover(); p != nil {
			err = fmt.Errorf("panic: %v", p)
		}
		for _, q := range e.rec.Take() {
			if !isVersionSQL(q) {
				sqls = append(sqls, q)
			}
		}
		e.script = nil
	}()
	err = f()
	return
}

func drain[T any](ch chan T, err error) error {
	if err != nil {
		return err
	}
	if ch == nil {
		return nil
	}
	for range ch {
	}
	return nil
}

// ---- LogQL -------------------------------------------------------------------------------------------------------

func (e *Env) logqlRange(query string, cluster bool) ([]string, error) {
	e.endpoint = "logql_range"
	if e.o.Instant {
		return e.logqlInstant(query, cluster)
	}
	limit, step := int64(100), int64(1000)
	if e.o.NoLimit {
		limit = 0
	}
	if e.o.StepMs != 0 {
		step = e.o.StepMs
	}
	return e.capture(func() error {
		ch, err := e.be(cluster || e.o.Cluster).qr.QueryRange(context.Background(), query, fromS*1e9, toS*1e9, step, limit, e.o.Forward)
		return drain(ch, err)
	})
}

func (e *Env) logqlInstant(query string, cluster bool) ([]string, error) {
	e.endpoint = "logql_range"
	return e.capture(func() error {
		ch, err := e.be(cluster || e.o.Cluster).qr.QueryInstant(context.Background(), query, toS*1e9, 1000, 100)
		return drain(ch, err)
	})
}

// logqlDirect drives the exported ClickHouse planner entry point with the whole script (no split between the
// SQL engine and the in-process engine): reaches the planners production never routes a stage to.
func (e *Env) logqlDirect(query string, cluster bool) ([]string, error) {
	e.endpoint = "logql_direct"
	return e.capture(func() error {
		script, err := logql_parser.Parse(query)
		if err != nil {
			return err
		}
		plan, err := clickhouse_planner.Plan(script, true)
		if err != nil {
			return err
		}
		conn := e.be(cluster).reg.db
		ctx := tables.PopulateTableNames(&shared.PlannerContext{
			IsCluster: cluster, From: fromT, To: toT, Limit: 100, Ctx: context.Background(),
			CHDb: conn.Session, CHFinalize: true, Step: time.Second,
			CHSqlCtx: sqlsel.DefaultCtx(),
		}, conn)
		req, err := plan.Process(ctx)
		if err != nil {
			return err
		}
		var opts []int
		if cluster {
			opts = append(opts, sqlsel.STRING_OPT_INLINE_WITH)
		}
		str, err := req.String(ctx.CHSqlCtx, opts...)
		if err != nil {
			return err
		}
		rows, err := conn.Session.QueryCtx(context.Background(), str)
		if err == nil {
			rows.Close()
		}
		return err
	})
}

func (e *Env) labelValues(name string, match []string, cluster bool) ([]string, error) {
	e.endpoint = "label_values"
	tp := uint16(1)
	if e.o.OtherType {
		tp = 2
	}
	if e.o.ExtraMatch {
		match = append(append([]string{}, match...), `{zz="yy"}`, `{ww=~"vv.+"}`)
	}
	return e.capture(func() error {
		ch, err := e.be(cluster || e.o.Cluster).ql.Values(context.Background(), name, match, fromS*1000, toS*1000, tp)
		return drain(ch, err)
	})
}

func (e *Env) promLabelValues(name string, match []string, cluster bool) ([]string, error) {
	e.endpoint = "label_values"
	tp := uint16(2)
	if e.o.OtherType {
		tp = 1
	}
	if e.o.ExtraMatch {
		match = append(append([]string{}, match...), `m2{zz="yy"}`, `{ww=~"vv.+"}`)
	}
	return e.capture(func() error {
		ch, err := e.be(cluster || e.o.Cluster).ql.PromValues(context.Background(), name, match, fromS*1000, toS*1000, tp)
		return drain(ch, err)
	})
}

func (e *Env) series(match []string, tp uint16, cluster bool) ([]string, error) {
	e.endpoint = "series"
	if e.o.OtherType {
		tp = 3 - tp
	}
	if e.o.ExtraMatch {
		match = append(append([]string{}, match...), `{zz="yy"}`, `up{ww=~"vv.+"}`)
	}
	return e.capture(func() error {
		ch, err := e.be(cluster || e.o.Cluster).ql.Series(context.Background(), match, fromS*1000, toS*1000, tp)
		return drain(ch, err)
	})
}

// ---- Tempo / TraceQL ---------------------------------------------------------------------------------------------

// complexity scripts the answer of the "evaluate complexity" statement so that the complex (sharded) request
// path is taken: two portions.
func complexityScript(q string) [][]driver.Value {
	if strings.Contains(q, "_count") && strings.Contains(q, "pre_final") {
		return [][]driver.Value{{int64(2 * 10000000)}}
	}
	return nil
}

func (e *Env) traceqlSearch(q string, complex bool) ([]string, error) {
	e.endpoint = "traceql_search"
	if complex || e.o.Sharded {
		e.script = complexityScript
	}
	limit := 20
	if e.o.NoLimit {
		limit = 0
	}
	return e.capture(func() error {
		ch, err := e.single.tempo.SearchTraceQL(context.Background(), q, limit, fromT, toT)
		return drain(ch, err)
	})
}

func (e *Env) traceqlTagsV2(q string, complex bool) ([]string, error) {
	e.endpoint = "traceql_tags"
	if complex || e.o.Sharded {
		e.script = complexityScript
	}
	limit := 2000
	if e.o.NoLimit {
		limit = 0
	}
	return e.capture(func() error {
		ch, err := e.single.tempo.TagsV2(context.Background(), q, fromT, toT, limit)
		return drain(ch, err)
	})
}

func (e *Env) traceqlValuesV2(key, q string, complex bool) ([]string, error) {
	e.endpoint = "traceql_values"
	if complex || e.o.Sharded {
		e.script = complexityScript
	}
	limit := 2000
	if e.o.NoLimit {
		limit = 0
	}
	return e.capture(func() error {
		ch, err := e.single.tempo.ValuesV2(context.Background(), key, q, fromT, toT, limit)
		return drain(ch, err)
	})
}

func (e *Env) tempoValues(tag string, cluster bool) ([]string, error) {
	e.endpoint = "tempo_values_v1"
	return e.capture(func() error {
		ch, err := e.be(cluster || e.o.Cluster).tempo.Values(context.Background(), tag)
		return drain(ch, err)
	})
}

func (e *Env) tempoSearch(tags string, withWindow bool) ([]string, error) {
	e.endpoint = "tempo_search"
	limit := 10
	if e.o.NoLimit {
		limit = 0
	}
	return e.capture(func() error {
		var from, to, minD, maxD int64
		if withWindow || e.o.Window {
			from, to, minD, maxD = fromS*1e9, toS*1e9, 1e6, 1e9
		}
		ch, err := e.single.tempo.Search(context.Background(), tags, minD, maxD, limit, from, to)
		return drain(ch, err)
	})
}

// tempoTrace goes through the real controller because the controller is the front end that validates the id.
func (e *Env) tempoTrace(traceID string) ([]string, error) {
	e.endpoint = "tempo_trace"
	url := "/api/traces/x"
	if e.o.Window {
		url += "?start=1700000000&end=1700000600"
	}
	return e.capture(func() error {
		ctl := &controllerv1.TempoController{Service: e.single.tempo}
		r := httptest.NewRequest("GET", url, nil)
		r = mux.SetURLVars(r, map[string]string{"traceId": traceID})
		w := httptest.NewRecorder()
		ctl.Trace(w, r)
		if w.Code != http.StatusOK {
			return fmt.Errorf("http %d", w.Code)
		}
		return nil
	})
}

// ---- PromQL (real engine over the repository's Queryable) ---------------------------------------------------------

func (e *Env) promRange(query string, start, end time.Time, step time.Duration, rows bool, cluster bool) ([]string, error) {
	e.endpoint = "prom_range"
	if rows {
		e.script = func(q string) [][]driver.Value {
			if strings.Contains(q, "fp_sel") {
				return [][]driver.Value{{uint64(7), float64(1), start.UnixMilli()}}
			}
			return nil
		}
	}
	return e.capture(func() error {
		q, err := e.eng.NewRangeQuery(e.be(cluster).prom.SetOidAndDB(context.Background()), nil, query, start, end, step)
		if err != nil {
			return err
		}
		res := q.Exec(context.Background())
		q.Close()
		return res.Err
	})
}

// ---- Pyroscope ------------------------------------------------------------------------------------------------------

func (e *Env) profCall(kind string, cluster bool, a ...string) ([]string, error) {
	ps := e.be(cluster || e.o.Cluster).prof
	ctx := context.Background()
	o := e.o
	scripts := func(sel string) []string {
		switch {
		case o.NoScripts:
			return nil
		case o.TwoScripts:
			return []string{sel, `{k2=~"v2.+"}`}
		}
		return []string{sel}
	}
	agg := v1.TimeSeriesAggregationType_TIME_SERIES_AGGREGATION_TYPE_SUM
	if o.Average {
		agg = v1.TimeSeriesAggregationType_TIME_SERIES_AGGREGATION_TYPE_AVERAGE
	}
	var groupBy, labels []string
	if o.GroupBy {
		groupBy = []string{"k", "g"}
	}
	if o.Labels {
		labels = []string{"k", "l"}
	}
	step := int64(15)
	if o.Step60 {
		step = 60
	}
	e.endpoint = map[string]string{"label_names": "prof_label_names", "label_values": "prof_label_values",
		"label_values_noscript": "prof_label_values", "merge_stacktraces": "prof_merge_stacktraces",
		"select_series": "prof_select_series", "select_series_avg_groupby": "prof_select_series",
		"merge_profiles": "prof_merge_profiles", "series": "prof_series", "series2_labels": "prof_series",
		"render_diff": "prof_render_diff", "analyze": "prof_analyze"}[kind]
	return e.capture(func() error {
		var err error
		switch kind {
		case "label_names":
			_, err = ps.LabelNames(ctx, scripts(a[0]), fromT, toT)
		case "label_values":
			_, err = ps.LabelValues(ctx, scripts(a[0]), a[1], fromT, toT)
		case "label_values_noscript":
			_, err = ps.LabelValues(ctx, nil, a[0], fromT, toT)
		case "merge_stacktraces":
			_, err = ps.MergeStackTraces(ctx, a[0], a[1], fromT, toT)
		case "select_series":
			_, err = ps.SelectSeries(ctx, a[0], a[1], groupBy, agg, step, fromT, toT)
		case "select_series_avg_groupby":
			_, err = ps.SelectSeries(ctx, a[0], a[1], []string{"k", a[2]}, v1.TimeSeriesAggregationType_TIME_SERIES_AGGREGATION_TYPE_AVERAGE, step, fromT, toT)
		case "merge_profiles":
			_, err = ps.MergeProfiles(ctx, a[0], a[1], fromT, toT)
		case "series":
			_, err = ps.TimeSeries(ctx, scripts(a[0]), labels, fromT, toT)
		case "series2_labels":
			_, err = ps.TimeSeries(ctx, []string{a[0], `{k="v"}`}, []string{"k", a[1]}, fromT, toT)
		case "render_diff":
			_, err = ps.RenderDiff(ctx, a[0], a[1], fromT, fromT, toT, toT)
		case "analyze":
			_, err = ps.AnalyzeQuery(ctx, a[0], fromT, toT)
		default:
			panic("unknown prof call " + kind)
		}
		return err
	})
}
