package main

// The C10 oracle.  For a site (string-valued position of one request shape) and a value v at that position:
//
//	(1) every SQL statement has the token sequence of the statement rendered for a harmless value at the same
//	    position: same kinds, same text for every token that is not a string literal (white space and comments
//	    are tokens too, so (3) "no byte of the value outside string literals" is the same comparison);
//	(2) string literals that do not depend on the position (equal for the two harmless values) keep their value;
//	    literals that carry the position decode (ClickHouse rules, package chlex) to the intended value: v itself,
//	    or - where the statement uses LIKE - a pattern that reads, by ClickHouse's LIKE rules, as "contains v".

import (
	"fmt"
	"regexp/syntax"
	"strconv"
	"strings"

	"verif/mc/chlex"
)

type TransformKind int

const (
	TExact        TransformKind = iota // literal decodes to Pre(v)
	TLikeContains                      // literal is a LIKE pattern meaning: contains Pre(v)
	TLikePrefix                        // ... starts with Pre(v)
	TLikeSuffix                        // ... ends with Pre(v)
	TLikeExact                         // ... equals Pre(v) (no live wildcard at all)
)

// Val is the front end's reading of the position: Whole is the value of the position; Hole is the part of it
// that is the hostile (or harmless stand-in) string when the site embeds it in a context template such as
// `^(a|§)$` (Hole == Whole without a context).  A planner may legitimately take a shaped value apart (an anchored
// alternation into an IN list), so a carrier may hold the whole value, the hole, or one alternative.
type Val struct{ Whole, Hole string }

// Transform says what a carrier literal must decode to for the front-end value v.
type Transform struct {
	Name string
	Kind TransformKind
	Pre  func(v Val) (string, bool) // ok=false: this reading does not apply to v
}

func identity(v Val) (string, bool) { return v.Whole, true }
func holeOf(v Val) (string, bool)   { return v.Hole, true }

var tExact = Transform{"value", TExact, identity}
var tHole = Transform{"hole", TExact, holeOf}
var tLike = Transform{"like_contains", TLikeContains, identity}
var tLikeHole = Transform{"like_contains_hole", TLikeContains, holeOf}

// alternatives reads w as an anchored alternation: optional ^ and $, optional one enclosing ( ) or (?: ), split at |.
func alternatives(w string) []string {
	w = strings.TrimPrefix(w, "^")
	w = strings.TrimSuffix(w, "$")
	if strings.HasSuffix(w, ")") {
		if strings.HasPrefix(w, "(?:") {
			w = w[3 : len(w)-1]
		} else if strings.HasPrefix(w, "(") {
			w = w[1 : len(w)-1]
		}
	}
	return strings.Split(w, "|")
}

// tAlt(i): the carrier holds the i-th alternative of the value.
func tAlt(i int) Transform {
	return Transform{fmt.Sprintf("alternative_%d", i), TExact, func(v Val) (string, bool) {
		a := alternatives(v.Whole)
		if i >= len(a) {
			return "", false
		}
		return a[i], true
	}}
}

func altTransforms(n int) []Transform {
	var out []Transform
	for i := 0; i < n; i++ {
		out = append(out, tAlt(i))
	}
	return out
}

// canonical is one literal value that satisfies the transform (used to recognise carriers on harmless values).
func (t Transform) canonical(v Val) (string, bool) {
	p, ok := t.Pre(v)
	if !ok {
		return "", false
	}
	switch t.Kind {
	case TLikeContains:
		return "%" + likeEscape(p) + "%", true
	case TLikePrefix:
		return likeEscape(p) + "%", true
	case TLikeSuffix:
		return "%" + likeEscape(p), true
	case TLikeExact:
		return likeEscape(p), true
	}
	return p, true
}

// likeAtoms: what a LIKE pattern of this kind must read as for the literal p: the bytes of p as literal atoms, a live
// wildcard only where the kind says so - no %, _ or \ of p may be live.
func (t Transform) likeAtoms(p string) []chlex.LikeAtom {
	a := chlex.LikeContains(p) // % p %
	switch t.Kind {
	case TLikePrefix:
		return a[1:]
	case TLikeSuffix:
		return a[:len(a)-1]
	case TLikeExact:
		return a[1 : len(a)-1]
	}
	return a
}

func likeEscape(s string) string {
	var b strings.Builder
	for i := 0; i < len(s); i++ {
		if s[i] == '\\' || s[i] == '%' || s[i] == '_' {
			b.WriteByte('\\')
		}
		b.WriteByte(s[i])
	}
	return b.String()
}

func (t Transform) satisfied(decoded string, v Val) bool {
	p, ok := t.Pre(v)
	if !ok {
		return false
	}
	if t.Kind != TExact {
		atoms, err := chlex.ParseLike(decoded)
		return err == nil && chlex.LikeEqual(atoms, t.likeAtoms(p))
	}
	return decoded == p
}

// regexCore: the literal a planner may pull out of a regular expression whose parse is a single literal, optionally
// between .* / anchors / one group: `lit`, `.*lit.*`, `lit.*`, `^lit$`, `(lit)`, `\Qmeta\E`-style escaped text ...
// (what optimisations that key on the literal-ness of the parsed regex can recognise).  The value is parsed with the
// standard library, never with the code under test.
func regexCore(v Val) (string, bool) {
	exp, err := syntax.Parse(v.Whole, syntax.PerlX)
	if err != nil {
		return "", false
	}
	var strip func(e *syntax.Regexp) *syntax.Regexp
	isAny := func(e *syntax.Regexp) bool {
		return (e.Op == syntax.OpStar) && len(e.Sub) == 1 && (e.Sub[0].Op == syntax.OpAnyCharNotNL || e.Sub[0].Op == syntax.OpAnyChar)
	}
	isAnchor := func(e *syntax.Regexp) bool {
		switch e.Op {
		case syntax.OpBeginText, syntax.OpBeginLine, syntax.OpEndText, syntax.OpEndLine:
			return true
		}
		return false
	}
	strip = func(e *syntax.Regexp) *syntax.Regexp {
		for e.Op == syntax.OpCapture && len(e.Sub) == 1 {
			e = e.Sub[0]
		}
		if e.Op != syntax.OpConcat {
			return e
		}
		sub := e.Sub
		for len(sub) > 0 && (isAny(sub[0]) || isAnchor(sub[0])) {
			sub = sub[1:]
		}
		for len(sub) > 0 && (isAny(sub[len(sub)-1]) || isAnchor(sub[len(sub)-1])) {
			sub = sub[:len(sub)-1]
		}
		if len(sub) != 1 {
			return e
		}
		return strip(sub[0])
	}
	core := strip(exp)
	if core.Op != syntax.OpLiteral {
		return "", false
	}
	return string(core.Rune), true
}

// likeCoreTransforms: the carrier is a LIKE pattern for the literal core of the regex (any of the four LIKE kinds;
// which one is told by the harmless rendering).
func likeCoreTransforms() []Transform {
	return []Transform{
		{"like_contains_regex_core", TLikeContains, regexCore},
		{"like_prefix_regex_core", TLikePrefix, regexCore},
		{"like_suffix_regex_core", TLikeSuffix, regexCore},
		{"like_exact_regex_core", TLikeExact, regexCore},
	}
}

// Variant is one acceptable reading of the position: the harmless stand-ins that take the same planner branch,
// and the transforms a carrier may use.
type Variant struct {
	Name   string
	BX, BY string
	T      []Transform
	// Whole: BX/BY are complete values of the position (they are not put into the site's context template): the
	// planner may collapse a shaped value into the branch of a plain one (the regex a|a is the literal a).
	Whole bool
}

var defaultVariants = []Variant{{Name: "value", BX: "x", BY: "y", T: []Transform{tExact, tHole}}}

// regexValueVariants: a position whose value is a regular expression.  Planners may (and the repository's do, for
// line filters) branch on the shape of the expression; accepted readings: the stand-in x/y in the same context
// (carrier = whole value, hole or one alternative), a stand-in that is certainly not a plain literal (x.), and -
// when the hole itself contains | - a stand-in with the same number of alternatives.
func regexValueVariants(q Quoted) []Variant {
	vs := []Variant{
		{Name: "value", BX: "x", BY: "y", T: append(append([]Transform{tExact, tHole}, altTransforms(4)...), likeCoreTransforms()...)},
		{Name: "regex_generic", BX: "x.", BY: "y.", T: []Transform{tExact}},
		{Name: "plain_value_whole", BX: "x", BY: "y", T: append(append([]Transform{tExact, tHole}, altTransforms(4)...), likeCoreTransforms()...), Whole: true},
		{Name: "regex_generic_whole", BX: "x.", BY: "y.", T: []Transform{tExact}, Whole: true},
	}
	if strings.Contains(q.Hole, "|") {
		vs = append(vs, Variant{Name: "same_alternatives", BX: pipeShape(q.Hole, "x"), BY: pipeShape(q.Hole, "y"),
			T: append([]Transform{tExact}, altTransforms(6)...)})
	}
	return vs
}

// pipeShape keeps every | of s and replaces each run of other bytes by filler.
func pipeShape(s, filler string) string {
	parts := strings.Split(s, "|")
	for i, p := range parts {
		if p != "" {
			parts[i] = filler
		}
	}
	return strings.Join(parts, "|")
}

// regexp literal reading used by `|~` / `!~` line filters: the planner turns a pure literal regex into LIKE.
func regexLiteral(fold bool) func(Val) (string, bool) {
	return func(v Val) (string, bool) {
		exp, err := syntax.Parse(v.Whole, syntax.PerlX)
		if err != nil || exp.Op != syntax.OpLiteral || exp.Flags&^(syntax.PerlX|syntax.FoldCase) != 0 {
			return "", false
		}
		if (exp.Flags&syntax.FoldCase != 0) != fold {
			return "", false
		}
		return string(exp.Rune), true
	}
}

var lineFilterLikeVariants = []Variant{{Name: "like", BX: "x", BY: "y", T: []Transform{tLike, tLikeHole}}}
var lineFilterRegexVariants = []Variant{
	{Name: "regex_literal_like", BX: "x", BY: "y", T: []Transform{{"like_contains_literal", TLikeContains, regexLiteral(false)}}, Whole: true},
	{Name: "regex_literal_ilike", BX: "(?i)x", BY: "(?i)y", T: []Transform{{"ilike_contains_literal", TLikeContains, regexLiteral(true)}}, Whole: true},
	{Name: "regex_match", BX: "x.", BY: "y.", T: []Transform{tExact}, Whole: true},
	{Name: "regex_match_same_context", BX: "x", BY: "y", T: append(append([]Transform{tExact, tHole}, altTransforms(4)...), likeCoreTransforms()...)},
}

// lexed statement
type stmt struct {
	sql  string
	toks []chlex.Token
	dec  []string // decoded value per token (string literals only)
	bad  []error
}

func lexStmt(sql string) *stmt {
	st := &stmt{sql: sql, toks: chlex.Tokenize(sql)}
	st.dec = make([]string, len(st.toks))
	st.bad = make([]error, len(st.toks))
	for i, t := range st.toks {
		if t.IsString() {
			st.dec[i], st.bad[i] = chlex.DecodeString(t)
		}
	}
	return st
}

// Finding is a failed check.
type Finding struct {
	Reason string // structure_changed | literal_value_mismatch | ...
	Detail string
	// for value mismatches
	Observed string
	Variant  string
	depth    int // how far the comparison got (to pick the most telling finding among variants)
}

func sameShape(a, b chlex.Token) bool {
	if a.Kind != b.Kind {
		return false
	}
	if a.IsString() {
		return true
	}
	return a.Text == b.Text
}

func short(s string, n int) string {
	if len(s) > n {
		return s[:n] + "…"
	}
	return s
}

func around(st *stmt, j int) string {
	lo, hi := j-4, j+5
	if lo < 0 {
		lo = 0
	}
	if hi > len(st.toks) {
		hi = len(st.toks)
	}
	var b strings.Builder
	for k := lo; k < hi; k++ {
		b.WriteString(st.toks[k].Text)
	}
	return ascii(short(b.String(), 160))
}

// ascii makes a snippet printable (messages end up in logs that are grepped).
func ascii(s string) string {
	q := strconv.QuoteToASCII(s)
	return q[1 : len(q)-1]
}

func tokStr(t chlex.Token) string {
	return fmt.Sprintf("%s(%s)@%d", t.Kind, ascii(short(t.Text, 60)), t.Pos)
}

// compare checks the statements rendered for value v against the statements rendered for the variant's two
// harmless values (vx, vy: what the front end reads for them).  nil = the variant explains the statements completely.  carriers reports how many literals
// carried the position.
func compare(got, bx, by []*stmt, va Variant, v, vx, vy Val) (f *Finding, carriers int) {
	if len(bx) != len(by) {
		return &Finding{Reason: "benign_query_count_differs", Detail: fmt.Sprintf("%d statements for %q, %d for %q", len(bx), va.BX, len(by), va.BY), Variant: va.Name}, 0
	}
	if len(got) != len(bx) {
		return &Finding{Reason: "query_count_changed", Detail: fmt.Sprintf("%d statements instead of %d", len(got), len(bx)), Variant: va.Name}, 0
	}
	depth := 0
	for i := range got {
		g, x, y := got[i], bx[i], by[i]
		// the two harmless renderings must agree with each other first
		if len(x.toks) != len(y.toks) {
			return &Finding{Reason: "benign_value_changes_structure", Detail: fmt.Sprintf("statement %d has %d tokens for %q and %d for %q", i, len(x.toks), va.BX, len(y.toks), va.BY), Variant: va.Name}, 0
		}
		for j := range x.toks {
			if !sameShape(x.toks[j], y.toks[j]) {
				return &Finding{Reason: "benign_value_changes_structure", Detail: fmt.Sprintf("statement %d token %d: %s vs %s near «%s»", i, j, tokStr(x.toks[j]), tokStr(y.toks[j]), around(x, j)), Variant: va.Name}, 0
			}
		}
		n := len(g.toks)
		if len(x.toks) < n {
			n = len(x.toks)
		}
		for j := 0; j < n; j++ {
			if !sameShape(g.toks[j], x.toks[j]) {
				return &Finding{Reason: "structure_changed", Variant: va.Name, depth: depth + j,
					Detail: fmt.Sprintf("statement %d token %d is %s, harmless value gives %s; near «%s»", i, j, tokStr(g.toks[j]), tokStr(x.toks[j]), around(g, j))}, 0
			}
		}
		if len(g.toks) != len(x.toks) {
			return &Finding{Reason: "structure_changed", Variant: va.Name, depth: depth + n,
				Detail: fmt.Sprintf("statement %d has %d tokens, harmless value gives %d; tail «%s»", i, len(g.toks), len(x.toks), around(g, n))}, 0
		}
		depth += len(g.toks)
		for j, t := range g.toks {
			if !t.IsString() {
				continue
			}
			if x.bad[j] != nil || y.bad[j] != nil {
				return &Finding{Reason: "benign_literal_undecodable", Detail: fmt.Sprintf("%v", x.bad[j]), Variant: va.Name, depth: depth}, 0
			}
			if g.bad[j] != nil {
				return &Finding{Reason: "literal_undecodable", Detail: fmt.Sprintf("statement %d literal %+q: %s", i, short(t.Text, 80), ascii(g.bad[j].Error())), Variant: va.Name, depth: depth}, 0
			}
			if x.dec[j] == y.dec[j] {
				if g.dec[j] != x.dec[j] {
					return &Finding{Reason: "unrelated_literal_changed", Variant: va.Name, depth: depth, Observed: g.dec[j],
						Detail: fmt.Sprintf("statement %d literal %+q decodes to %+q, harmless value gives %+q", i, short(t.Text, 80), g.dec[j], x.dec[j])}, 0
				}
				continue
			}
			carriers++
			ok, recognised := false, false
			for _, tr := range va.T {
				cx, okx := tr.canonical(vx)
				cy, oky := tr.canonical(vy)
				if !okx || !oky || cx != x.dec[j] || cy != y.dec[j] {
					continue
				}
				recognised = true
				if tr.satisfied(g.dec[j], v) {
					ok = true
					break
				}
			}
			if !recognised {
				return &Finding{Reason: "benign_value_not_decoded", Variant: va.Name, depth: depth, Observed: x.dec[j],
					Detail: fmt.Sprintf("statement %d literal %+q decodes to %+q for the harmless value %+q", i, short(x.toks[j].Text, 80), x.dec[j], va.BX)}, carriers
			}
			if !ok {
				return &Finding{Reason: "literal_value_mismatch", Variant: va.Name, depth: depth + 1, Observed: g.dec[j],
					Detail: fmt.Sprintf("statement %d literal %+q decodes to %+q", i, short(t.Text, 120), g.dec[j])}, carriers
			}
		}
	}
	return nil, carriers
}

// ---- deviant-rule classifiers (DESIGN.md §7): name a value mismatch by its explanation ---------------------------

// svEscape replays reader/utils/sql_select StringVal.String (without the quotes) - used only to *explain* findings.
func svEscape(s string) string {
	find := []string{"\\", "\000", "\n", "\r", "\b", "\t", "\x1a", "'"}
	repl := []string{"\\\\", "\\0", "\\n", "\\r", "\\b", "\\t", "\\x1a", "\\'"}
	for i, f := range find {
		s = strings.Replace(s, f, repl[i], -1)
	}
	return s
}

// classifyLike explains a wrong LIKE pattern for the literal lit:
//   - like_backslash_unescaped (D15): the pattern is %lit% with only % and _ escaped, so a backslash of lit is
//     read by LIKE as an escape character;
//   - like_quote_trim (D14): additionally strings.Trim(quoted, "'") removed quotes that belong to lit and left
//     the backslash that escaped them.
func classifyLike(lit, observed string) string {
	pu := strings.NewReplacer("%", `\%`, "_", `\_`)
	if observed == "%"+pu.Replace(lit)+"%" {
		return "like_backslash_unescaped"
	}
	// the trim, with and without the backslash of the value doubled for LIKE (D15 fixed or not)
	for _, body := range []string{lit, strings.Replace(lit, `\`, `\\`, -1)} {
		enq := strings.Trim("'"+svEscape(body)+"'", "'")
		enq = pu.Replace(enq)
		toks := chlex.Tokenize("'%" + enq + "%'")
		if len(toks) == 1 && toks[0].Kind == chlex.StringLiteral {
			if dec, err := chlex.DecodeString(toks[0]); err == nil && dec == observed {
				return "like_quote_trim"
			}
		}
	}
	return "like_pattern_mismatch"
}

// dirty reports the first comment or lexical error of a statement.  No statement of any harmless request has one,
// so one appearing means request bytes are being read as SQL - whatever program the front end thought it parsed.
func dirty(sts []*stmt) *Finding {
	for i, st := range sts {
		for j, t := range st.toks {
			if t.Kind == chlex.Comment || t.Kind == chlex.Error {
				return &Finding{Reason: "sql_comment_or_lexical_error", Detail: fmt.Sprintf("statement %d token %d is %s [%s] near «%s»", i, j, tokStr(t), t.Err, around(st, j))}
			}
		}
	}
	return nil
}
