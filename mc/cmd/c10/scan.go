package main

// Honesty scan (go/ast over $VERIF_REPO): the request surface the option and site tables were written from is
// re-read on every run.  A service method, a parameter of one, or a PlannerContext field read by a planner that is not
// in the tables below is NOT a failure (checks run unattended against refactored trees): it is reported as a cap
// ("unclassified request item: ...", exhaustive=false, one line on stdout) and handled conservatively where the
// harness can reach it generically - every string / []string / []byte parameter of an unknown exported service method
// is enumerated as a position through reflection (autoSites).  A new parameter of a *known* method changes its Go
// signature and breaks the build of the harness (exit 2, a real machinery failure); a new PlannerContext field can
// only be reported.

import (
	"context"
	"fmt"
	"go/ast"
	"go/parser"
	"go/token"
	"os"
	"path/filepath"
	"reflect"
	"sort"
	"strings"
	"time"

	"verif/mc/ev"
)

// serviceParams: Type.Method.param -> how the check treats it.
//
//	position: hostile strings are placed there (sites.go)        option: varied by options.go
//	window:   time range, constant (numbers rendered with %d / IntVal; C13's subject)
//	-:        not request data (context) or never reaches a statement
var serviceParams = map[string]string{
	"QueryRangeService.QueryRange.ctx": "-", "QueryRangeService.QueryRange.query": "position", "QueryRangeService.QueryRange.fromNs": "window",
	"QueryRangeService.QueryRange.toNs": "window", "QueryRangeService.QueryRange.stepMs": "option StepMs", "QueryRangeService.QueryRange.limit": "option NoLimit",
	"QueryRangeService.QueryRange.forward": "option Forward",
	"QueryRangeService.QueryInstant.ctx":   "-", "QueryRangeService.QueryInstant.query": "position (option Instant)", "QueryRangeService.QueryInstant.timeNs": "window",
	"QueryRangeService.QueryInstant.stepMs": "constant 1000 (same planners as QueryRange, whose step is varied)", "QueryRangeService.QueryInstant.limit": "constant 100 (varied through QueryRange)",
	"QueryRangeService.Tail.ctx": "-", "QueryRangeService.Tail.query": "not driven: same Transpile+planners as QueryRange, needs a ticker/websocket",

	"QueryLabelsService.GenericLabelReq.ctx": "-", "QueryLabelsService.GenericLabelReq.query": "internal: receives rendered statements", "QueryLabelsService.GenericLabelReq.args": "internal: never used with arguments",
	"QueryLabelsService.GetEstimateKVComplexityRequest.ctx": "-", "QueryLabelsService.GetEstimateKVComplexityRequest.conn": "-",
	"QueryLabelsService.Labels.ctx": "-", "QueryLabelsService.Labels.startMs": "window", "QueryLabelsService.Labels.endMs": "window", "QueryLabelsService.Labels.labelsType": "no string in this request",
	"QueryLabelsService.PromValues.ctx": "-", "QueryLabelsService.PromValues.label": "position", "QueryLabelsService.PromValues.match": "position + option ExtraMatch",
	"QueryLabelsService.PromValues.startMs": "window", "QueryLabelsService.PromValues.endMs": "window", "QueryLabelsService.PromValues.labelsType": "option OtherType",
	"QueryLabelsService.Prom2LogqlMatch.match": "position (through PromValues)",
	"QueryLabelsService.Values.ctx":            "-", "QueryLabelsService.Values.label": "position", "QueryLabelsService.Values.match": "position + option ExtraMatch (and base sites without match[])",
	"QueryLabelsService.Values.startMs": "window", "QueryLabelsService.Values.endMs": "window", "QueryLabelsService.Values.labelsType": "option OtherType",
	"QueryLabelsService.Series.ctx": "-", "QueryLabelsService.Series.requests": "position + option ExtraMatch", "QueryLabelsService.Series.startMs": "window",
	"QueryLabelsService.Series.endMs": "window", "QueryLabelsService.Series.labelsType": "option OtherType",

	"TempoService.GetQueryRequest.ctx": "-", "TempoService.GetQueryRequest.startNS": "option Window", "TempoService.GetQueryRequest.endNS": "option Window",
	"TempoService.GetQueryRequest.traceId": "position", "TempoService.GetQueryRequest.conn": "-",
	"TempoService.OutputQuery.binIds": "-", "TempoService.OutputQuery.rows": "-",
	"TempoService.Query.ctx": "-", "TempoService.Query.startNS": "option Window", "TempoService.Query.endNS": "option Window", "TempoService.Query.traceId": "position (through the controller)", "TempoService.Query.binIds": "response encoding only",
	"TempoService.GetTagsRequest.ctx": "-", "TempoService.GetTagsRequest.conn": "-", "TempoService.Tags.ctx": "-",
	"TempoService.TagsV2.ctx": "-", "TempoService.TagsV2.query": "position", "TempoService.TagsV2.from": "window", "TempoService.TagsV2.to": "window", "TempoService.TagsV2.limit": "option NoLimit",
	"TempoService.ValuesV2.ctx": "-", "TempoService.ValuesV2.key": "position", "TempoService.ValuesV2.query": "position (and base sites without query)", "TempoService.ValuesV2.from": "window",
	"TempoService.ValuesV2.to": "window", "TempoService.ValuesV2.limit": "option NoLimit",
	"TempoService.GetValuesRequest.ctx": "-", "TempoService.GetValuesRequest.tag": "position", "TempoService.GetValuesRequest.conn": "-",
	"TempoService.Values.ctx": "-", "TempoService.Values.tag": "position",
	"TempoService.Search.ctx": "-", "TempoService.Search.tags": "position", "TempoService.Search.minDurationNS": "option Window", "TempoService.Search.maxDurationNS": "option Window",
	"TempoService.Search.limit": "option NoLimit", "TempoService.Search.fromNS": "option Window", "TempoService.Search.toNS": "option Window",
	"TempoService.SearchTraceQL.ctx": "-", "TempoService.SearchTraceQL.q": "position", "TempoService.SearchTraceQL.limit": "option NoLimit", "TempoService.SearchTraceQL.from": "window", "TempoService.SearchTraceQL.to": "window",

	"ProfService.ProfileTypes.ctx": "-", "ProfService.ProfileTypes.start": "window", "ProfService.ProfileTypes.end": "window",
	"ProfService.LabelNames.ctx": "-", "ProfService.LabelNames.strScripts": "position + option TwoScripts", "ProfService.LabelNames.start": "window", "ProfService.LabelNames.end": "window",
	"ProfService.LabelValues.ctx": "-", "ProfService.LabelValues.strScripts": "position + options TwoScripts / NoScripts", "ProfService.LabelValues.labelName": "position",
	"ProfService.LabelValues.start": "window", "ProfService.LabelValues.end": "window",
	"ProfService.MergeStackTraces.ctx": "-", "ProfService.MergeStackTraces.strScript": "position", "ProfService.MergeStackTraces.strTypeID": "position", "ProfService.MergeStackTraces.start": "window", "ProfService.MergeStackTraces.end": "window",
	"ProfService.SelectSeries.ctx": "-", "ProfService.SelectSeries.strScript": "position", "ProfService.SelectSeries.strTypeID": "position", "ProfService.SelectSeries.groupBy": "position + option GroupBy",
	"ProfService.SelectSeries.agg": "option Average", "ProfService.SelectSeries.step": "option Step60", "ProfService.SelectSeries.start": "window", "ProfService.SelectSeries.end": "window",
	"ProfService.MergeProfiles.ctx": "-", "ProfService.MergeProfiles.strScript": "position", "ProfService.MergeProfiles.strTypeID": "position", "ProfService.MergeProfiles.start": "window", "ProfService.MergeProfiles.end": "window",
	"ProfService.TimeSeries.ctx": "-", "ProfService.TimeSeries.strScripts": "position + option TwoScripts", "ProfService.TimeSeries.labels": "position + option Labels", "ProfService.TimeSeries.start": "window", "ProfService.TimeSeries.end": "window",
	"ProfService.ProfileStats.ctx": "-", "ProfService.Settings.ctx": "-",
	"ProfService.RenderDiff.ctx": "-", "ProfService.RenderDiff.strLeftQuery": "position", "ProfService.RenderDiff.strRightQuery": "position", "ProfService.RenderDiff.leftFrom": "window",
	"ProfService.RenderDiff.rightFrom": "window", "ProfService.RenderDiff.leftTo": "window", "ProfService.RenderDiff.rightTo": "window",
	"ProfService.AnalyzeQuery.ctx": "-", "ProfService.AnalyzeQuery.strQuery": "position", "ProfService.AnalyzeQuery.from": "window", "ProfService.AnalyzeQuery.to": "window",
}

// plannerContextFields: PlannerContext field read by a planner -> how it is varied.
var plannerContextFields = map[string]string{
	"From": "window (constant)", "To": "window (constant)", "Ctx": "-", "CHDb": "-", "Id": "counter",
	"Limit":                  "option NoLimit (LogQL, TraceQL, tags/values v2); 10000 fixed by the label services",
	"OrderASC":               "option Forward",
	"Step":                   "option StepMs",
	"IsCluster":              "option Cluster / cluster base sites",
	"Type":                   "option OtherType",
	"CHFinalize":             "always true in the services",
	"RandomFilter":           "option Sharded",
	"CachedTraceIds":         "option Sharded (ids come from rows, empty here)",
	"VersionInfo":            "from the settings table (fake: empty => no tempo_v2 branch); deployment state, not a request option",
	"TimeSeriesGinTableName": "config", "SamplesTableName": "config", "TimeSeriesTableName": "config", "TimeSeriesDistTableName": "config",
	"Metrics15sTableName": "config", "Metrics15sV2TableName": "config", "TracesAttrsTable": "config", "TracesAttrsDistTable": "config",
	"TracesTable": "config", "TracesDistTable": "config", "TracesKVTable": "config", "TracesKVDistTable": "config",
	"ProfilesSeriesGinTable": "config", "ProfilesSeriesGinDistTable": "config", "ProfilesTable": "config", "ProfilesDistTable": "config",
	"ProfilesSeriesTable": "config", "ProfilesSeriesDistTable": "config",
}

// hints fields of storage.SelectHints read by the PromQL transpiler: all set by the engine from the query text and
// the range parameters; the five hint shapes of promSites cover raw / downsampled x instant / range functions.
var promHintFields = map[string]string{"Step": "shape", "Start": "shape", "End": "shape", "Range": "shape", "Func": "shape", "Grouping": "dead code", "By": "dead code"}

// scanResult: what the scan found.  Nothing in here is fatal: an unclassified item is reported as a cap
// (exhaustive=false + a line on stdout) and, where the harness can reach it generically, enumerated conservatively.
type scanResult struct {
	Recognisers   []string            // regex recognisers found in the planner packages ("pkg: syntax.OpLiteral", ...)
	Unclassified  []string            // "service parameter T.M.p", "PlannerContext field F", "scan: cannot read ..."
	NewMethods    map[string][]string // "Type.Method" -> parameter names, for exported service methods with no classified parameter at all
	ParamsChecked int
	Fields        []string
}

var scanOnce *scanResult

func scanRequestSurface() *scanResult {
	if scanOnce != nil {
		return scanOnce
	}
	res := &scanResult{NewMethods: map[string][]string{}}
	scanOnce = res
	repo := ev.Repo()
	fset := token.NewFileSet()
	goFiles := func(dir string) []string {
		ents, err := os.ReadDir(filepath.Join(repo, dir))
		if err != nil {
			res.Unclassified = append(res.Unclassified, "scan: cannot read "+dir+" (moved or renamed?)")
			return nil
		}
		var out []string
		for _, e := range ents {
			if !e.IsDir() && strings.HasSuffix(e.Name(), ".go") && !strings.HasSuffix(e.Name(), "_test.go") {
				out = append(out, filepath.Join(repo, dir, e.Name()))
			}
		}
		sort.Strings(out)
		return out
	}
	// 1. exported methods of the four services and their parameters (whole package: methods may move between files)
	services := map[string]bool{"QueryRangeService": true, "QueryLabelsService": true, "TempoService": true, "ProfService": true}
	for _, path := range goFiles("reader/service") {
		file, err := parser.ParseFile(fset, path, nil, 0)
		if err != nil {
			res.Unclassified = append(res.Unclassified, "scan: cannot parse "+filepath.Base(path))
			continue
		}
		for _, d := range file.Decls {
			fd, ok := d.(*ast.FuncDecl)
			if !ok || fd.Recv == nil || !fd.Name.IsExported() || len(fd.Recv.List) != 1 {
				continue
			}
			recv := ""
			if st, ok := fd.Recv.List[0].Type.(*ast.StarExpr); ok {
				if id, ok := st.X.(*ast.Ident); ok {
					recv = id.Name
				}
			}
			if !services[recv] {
				continue
			}
			var names []string
			known := 0
			for _, p := range fd.Type.Params.List {
				for _, n := range p.Names {
					names = append(names, n.Name)
					res.ParamsChecked++
					if _, ok := serviceParams[recv+"."+fd.Name.Name+"."+n.Name]; ok {
						known++
					}
				}
			}
			if known == 0 && len(names) > 0 {
				res.NewMethods[recv+"."+fd.Name.Name] = names
				continue
			}
			for _, n := range names {
				if _, ok := serviceParams[recv+"."+fd.Name.Name+"."+n]; !ok {
					res.Unclassified = append(res.Unclassified, "service parameter "+recv+"."+fd.Name.Name+"."+n)
				}
			}
		}
	}
	// 2. PlannerContext fields read by planners
	fields := map[string]int{}
	recognisers := map[string]bool{}
	for _, dir := range []string{"reader/logql/logql_transpiler_v2/clickhouse_planner", "reader/traceql/transpiler", "reader/traceql/transpiler/clickhouse_transpiler",
		"reader/prof/transpiler", "reader/promql/transpiler", "reader/tempo"} {
		for _, path := range goFiles(dir) {
			file, err := parser.ParseFile(fset, path, nil, 0)
			if err != nil {
				res.Unclassified = append(res.Unclassified, "scan: cannot parse "+filepath.Base(path))
				continue
			}
			// identifiers declared with type *shared.PlannerContext (parameters named ctx, mostly)
			pcNames := map[string]bool{}
			ast.Inspect(file, func(n ast.Node) bool {
				fl, ok := n.(*ast.Field)
				if !ok {
					return true
				}
				if st, ok := fl.Type.(*ast.StarExpr); ok {
					if se, ok := st.X.(*ast.SelectorExpr); ok && se.Sel.Name == "PlannerContext" {
						for _, nm := range fl.Names {
							pcNames[nm.Name] = true
						}
					}
				}
				return true
			})
			imports := map[string]bool{}
			for _, im := range file.Imports {
				imports[strings.Trim(im.Path.Value, `"`)] = true
			}
			pkg := filepath.Base(dir)
			ast.Inspect(file, func(n ast.Node) bool {
				switch x := n.(type) {
				case *ast.SelectorExpr:
					id, ok := x.X.(*ast.Ident)
					if !ok {
						return true
					}
					if pcNames[id.Name] && ast.IsExported(x.Sel.Name) {
						fields[x.Sel.Name]++
					}
					// 3. regex recognisers: anything taken from regexp/syntax or regexp
					if (id.Name == "syntax" && imports["regexp/syntax"]) || (id.Name == "regexp" && imports["regexp"]) {
						recognisers[pkg+": "+id.Name+"."+x.Sel.Name] = true
					}
				case *ast.CallExpr:
					// ... and string surgery on patterns: strings.HasPrefix(p, ".*") and friends
					se, ok := x.Fun.(*ast.SelectorExpr)
					if !ok {
						return true
					}
					if id, ok := se.X.(*ast.Ident); !ok || id.Name != "strings" {
						return true
					}
					switch se.Sel.Name {
					case "HasPrefix", "HasSuffix", "TrimPrefix", "TrimSuffix", "Split", "SplitN", "Contains", "Index", "Cut":
						for _, a := range x.Args {
							if bl, ok := a.(*ast.BasicLit); ok && bl.Kind == token.STRING && regexish(bl.Value) {
								recognisers[pkg+": strings."+se.Sel.Name+"("+bl.Value+")"] = true
							}
						}
					}
				}
				return true
			})
		}
	}
	for f := range fields {
		res.Fields = append(res.Fields, f)
		if _, ok := plannerContextFields[f]; !ok {
			res.Unclassified = append(res.Unclassified, "PlannerContext field "+f+" (read by a planner; no option of the harness varies it)")
		}
	}
	for rc := range recognisers {
		res.Recognisers = append(res.Recognisers, rc)
		if !regexRecognisers[rc] {
			res.Unclassified = append(res.Unclassified, "regex recogniser "+rc+" (a planner looks at the shape of a pattern in a way the template family of quote.go was not written against)")
		}
	}
	sort.Strings(res.Recognisers)
	sort.Strings(res.Fields)
	sort.Strings(res.Unclassified)
	return res
}

// regexish: a string constant that looks like a piece of regex syntax (".*", "^", "(?i)", "|", ...).
func regexish(lit string) bool {
	for _, m := range []string{".*", ".+", "^", "$", "(?", "|", "[", "\\"} {
		if strings.Contains(lit, m) {
			return true
		}
	}
	return false
}

// regexRecognisers: how the planners of the tree look at the shape of a pattern today.  The template family
// regexCtxs (quote.go) was written against these: a regex that parses to ONE literal (optionally case-folded) becomes
// (i)like in LineFilterPlanner.  Templates for the shapes a recogniser could reasonably add (substring, prefix,
// suffix, exact, groups, alternations, classes; payload raw and regex-quoted) are enumerated anyway; a recogniser
// that is not listed here is reported as a cap so that somebody checks that a template exercises it.
var regexRecognisers = map[string]bool{
	"clickhouse_planner: syntax.Parse":     true,
	"clickhouse_planner: syntax.PerlX":     true,
	"clickhouse_planner: syntax.OpLiteral": true,
	"clickhouse_planner: syntax.FoldCase":  true,
}

// ---- generic reach: exported service methods the tables do not know ------------------------------------------------

var (
	tString  = reflect.TypeOf("")
	tStrings = reflect.TypeOf([]string(nil))
	tBytes   = reflect.TypeOf([]byte(nil))
	tCtx     = reflect.TypeOf((*context.Context)(nil)).Elem()
	tTime    = reflect.TypeOf(time.Time{})
)

// callGeneric invokes recv.Method with the string-typed argument `hole` set to text and every other argument set to
// a harmless value of its type; channels in the results are drained.  Panics are caught by Env.capture.
func callGeneric(recv any, method string, hole int, text string) error {
	m := reflect.ValueOf(recv).MethodByName(method)
	if !m.IsValid() {
		return fmt.Errorf("no method %s", method)
	}
	mt := m.Type()
	args := make([]reflect.Value, mt.NumIn())
	timeSeen := 0
	for i := 0; i < mt.NumIn(); i++ {
		t := mt.In(i)
		switch {
		case t == tCtx:
			args[i] = reflect.ValueOf(context.Background())
		case t == tString:
			v := "x"
			if i == hole {
				v = text
			}
			args[i] = reflect.ValueOf(v)
		case t == tStrings:
			v := []string{"x"}
			if i == hole {
				v = []string{text}
			}
			args[i] = reflect.ValueOf(v)
		case t == tBytes:
			v := []byte("ab")
			if i == hole {
				v = []byte(text)
			}
			args[i] = reflect.ValueOf(v)
		case t == tTime:
			if timeSeen%2 == 0 {
				args[i] = reflect.ValueOf(fromT)
			} else {
				args[i] = reflect.ValueOf(toT)
			}
			timeSeen++
		case t.Kind() >= reflect.Int && t.Kind() <= reflect.Uint64:
			args[i] = reflect.ValueOf(1700000000).Convert(t)
		default:
			args[i] = reflect.Zero(t)
		}
	}
	if mt.IsVariadic() {
		args = args[:len(args)-1]
	}
	var err error
	for _, out := range m.Call(args) {
		if out.Kind() == reflect.Chan && !out.IsNil() && out.Type().ChanDir()&reflect.RecvDir != 0 {
			for {
				if _, ok := out.Recv(); !ok {
					break
				}
			}
		}
		if e, ok := out.Interface().(error); ok && e != nil {
			err = e
		}
	}
	return err
}

func (e *Env) serviceByType(name string) any {
	switch name {
	case "QueryRangeService":
		return e.single.qr
	case "QueryLabelsService":
		return e.single.ql
	case "TempoService":
		return e.single.tempo
	case "ProfService":
		return e.single.prof
	}
	return nil
}

// autoSites: every string-like parameter of an exported service method the tables do not know becomes a position,
// handed over as it is (no query-language quoting is known for it).
func autoSites() {
	res := scanRequestSurface()
	if len(res.NewMethods) == 0 {
		return
	}
	probe := newEnv()
	for _, key := range sortedKeys(res.NewMethods) {
		tm := strings.SplitN(key, ".", 2)
		recv := probe.serviceByType(tm[0])
		m := reflect.ValueOf(recv).MethodByName(tm[1])
		if recv == nil || !m.IsValid() {
			continue
		}
		for i := 0; i < m.Type().NumIn(); i++ {
			t := m.Type().In(i)
			if t != tString && t != tStrings && t != tBytes {
				continue
			}
			i, typ, meth := i, tm[0], tm[1]
			add(Site{ID: fmt.Sprintf("auto/%s.%s/arg%d", typ, meth, i), Group: "unclassified_service_method", Lang: "auto", Quote: qPlain,
				Auto: true,
				Exec: func(e *Env, text string) ([]string, error) {
					e.endpoint = "auto"
					return e.capture(func() error { return callGeneric(e.serviceByType(typ), meth, i, text) })
				}})
		}
	}
}
