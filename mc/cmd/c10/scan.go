package main

// Honesty scan (go/ast over $VERIF_REPO, run by the parent before the workers): the request surface the option and
// site tables were written from is re-read on every run.  A service method, a parameter of one, or a
// PlannerContext field read by a planner that is not in the tables below is a harness failure (exit 2): somebody has
// to decide whether it is a string position, a shape-selecting option, or irrelevant - silence is not an option.

import (
	"fmt"
	"go/ast"
	"go/parser"
	"go/token"
	"os"
	"path/filepath"
	"sort"
	"strings"

	"verif/mc/ev"
)

// serviceParams: Type.Method.param -> how the check treats it.
//
//	position: hostile strings are placed there (sites.go)        option: varied by options.go
//	window:   time range, constant (numbers rendered with %d / IntVal; C13's subject)
//	-:        not request data (context) or never reaches a statement
var serviceParams = map[string]string{
	"QueryRangeService.QueryRange.ctx": "-", "QueryRangeService.QueryRange.query": "position", "QueryRangeService.QueryRange.fromNs": "window",
	"QueryRangeService.QueryRange.toNs": "window", "QueryRangeService.QueryRange.stepMs": "option StepMs", "QueryRangeService.QueryRange.limit": "option NoLimit",
	"QueryRangeService.QueryRange.forward": "option Forward",
	"QueryRangeService.QueryInstant.ctx":   "-", "QueryRangeService.QueryInstant.query": "position (option Instant)", "QueryRangeService.QueryInstant.timeNs": "window",
	"QueryRangeService.QueryInstant.stepMs": "constant 1000 (same planners as QueryRange, whose step is varied)", "QueryRangeService.QueryInstant.limit": "constant 100 (varied through QueryRange)",
	"QueryRangeService.Tail.ctx": "-", "QueryRangeService.Tail.query": "not driven: same Transpile+planners as QueryRange, needs a ticker/websocket",

	"QueryLabelsService.GenericLabelReq.ctx": "-", "QueryLabelsService.GenericLabelReq.query": "internal: receives rendered statements", "QueryLabelsService.GenericLabelReq.args": "internal: never used with arguments",
	"QueryLabelsService.GetEstimateKVComplexityRequest.ctx": "-", "QueryLabelsService.GetEstimateKVComplexityRequest.conn": "-",
	"QueryLabelsService.Labels.ctx": "-", "QueryLabelsService.Labels.startMs": "window", "QueryLabelsService.Labels.endMs": "window", "QueryLabelsService.Labels.labelsType": "no string in this request",
	"QueryLabelsService.PromValues.ctx": "-", "QueryLabelsService.PromValues.label": "position", "QueryLabelsService.PromValues.match": "position + option ExtraMatch",
	"QueryLabelsService.PromValues.startMs": "window", "QueryLabelsService.PromValues.endMs": "window", "QueryLabelsService.PromValues.labelsType": "option OtherType",
	"QueryLabelsService.Prom2LogqlMatch.match": "position (through PromValues)",
	"QueryLabelsService.Values.ctx":            "-", "QueryLabelsService.Values.label": "position", "QueryLabelsService.Values.match": "position + option ExtraMatch (and base sites without match[])",
	"QueryLabelsService.Values.startMs": "window", "QueryLabelsService.Values.endMs": "window", "QueryLabelsService.Values.labelsType": "option OtherType",
	"QueryLabelsService.Series.ctx": "-", "QueryLabelsService.Series.requests": "position + option ExtraMatch", "QueryLabelsService.Series.startMs": "window",
	"QueryLabelsService.Series.endMs": "window", "QueryLabelsService.Series.labelsType": "option OtherType",

	"TempoService.GetQueryRequest.ctx": "-", "TempoService.GetQueryRequest.startNS": "option Window", "TempoService.GetQueryRequest.endNS": "option Window",
	"TempoService.GetQueryRequest.traceId": "position", "TempoService.GetQueryRequest.conn": "-",
	"TempoService.OutputQuery.binIds": "-", "TempoService.OutputQuery.rows": "-",
	"TempoService.Query.ctx": "-", "TempoService.Query.startNS": "option Window", "TempoService.Query.endNS": "option Window", "TempoService.Query.traceId": "position (through the controller)", "TempoService.Query.binIds": "response encoding only",
	"TempoService.GetTagsRequest.ctx": "-", "TempoService.GetTagsRequest.conn": "-", "TempoService.Tags.ctx": "-",
	"TempoService.TagsV2.ctx": "-", "TempoService.TagsV2.query": "position", "TempoService.TagsV2.from": "window", "TempoService.TagsV2.to": "window", "TempoService.TagsV2.limit": "option NoLimit",
	"TempoService.ValuesV2.ctx": "-", "TempoService.ValuesV2.key": "position", "TempoService.ValuesV2.query": "position (and base sites without query)", "TempoService.ValuesV2.from": "window",
	"TempoService.ValuesV2.to": "window", "TempoService.ValuesV2.limit": "option NoLimit",
	"TempoService.GetValuesRequest.ctx": "-", "TempoService.GetValuesRequest.tag": "position", "TempoService.GetValuesRequest.conn": "-",
	"TempoService.Values.ctx": "-", "TempoService.Values.tag": "position",
	"TempoService.Search.ctx": "-", "TempoService.Search.tags": "position", "TempoService.Search.minDurationNS": "option Window", "TempoService.Search.maxDurationNS": "option Window",
	"TempoService.Search.limit": "option NoLimit", "TempoService.Search.fromNS": "option Window", "TempoService.Search.toNS": "option Window",
	"TempoService.SearchTraceQL.ctx": "-", "TempoService.SearchTraceQL.q": "position", "TempoService.SearchTraceQL.limit": "option NoLimit", "TempoService.SearchTraceQL.from": "window", "TempoService.SearchTraceQL.to": "window",

	"ProfService.ProfileTypes.ctx": "-", "ProfService.ProfileTypes.start": "window", "ProfService.ProfileTypes.end": "window",
	"ProfService.LabelNames.ctx": "-", "ProfService.LabelNames.strScripts": "position + option TwoScripts", "ProfService.LabelNames.start": "window", "ProfService.LabelNames.end": "window",
	"ProfService.LabelValues.ctx": "-", "ProfService.LabelValues.strScripts": "position + options TwoScripts / NoScripts", "ProfService.LabelValues.labelName": "position",
	"ProfService.LabelValues.start": "window", "ProfService.LabelValues.end": "window",
	"ProfService.MergeStackTraces.ctx": "-", "ProfService.MergeStackTraces.strScript": "position", "ProfService.MergeStackTraces.strTypeID": "position", "ProfService.MergeStackTraces.start": "window", "ProfService.MergeStackTraces.end": "window",
	"ProfService.SelectSeries.ctx": "-", "ProfService.SelectSeries.strScript": "position", "ProfService.SelectSeries.strTypeID": "position", "ProfService.SelectSeries.groupBy": "position + option GroupBy",
	"ProfService.SelectSeries.agg": "option Average", "ProfService.SelectSeries.step": "option Step60", "ProfService.SelectSeries.start": "window", "ProfService.SelectSeries.end": "window",
	"ProfService.MergeProfiles.ctx": "-", "ProfService.MergeProfiles.strScript": "position", "ProfService.MergeProfiles.strTypeID": "position", "ProfService.MergeProfiles.start": "window", "ProfService.MergeProfiles.end": "window",
	"ProfService.TimeSeries.ctx": "-", "ProfService.TimeSeries.strScripts": "position + option TwoScripts", "ProfService.TimeSeries.labels": "position + option Labels", "ProfService.TimeSeries.start": "window", "ProfService.TimeSeries.end": "window",
	"ProfService.ProfileStats.ctx": "-", "ProfService.Settings.ctx": "-",
	"ProfService.RenderDiff.ctx": "-", "ProfService.RenderDiff.strLeftQuery": "position", "ProfService.RenderDiff.strRightQuery": "position", "ProfService.RenderDiff.leftFrom": "window",
	"ProfService.RenderDiff.rightFrom": "window", "ProfService.RenderDiff.leftTo": "window", "ProfService.RenderDiff.rightTo": "window",
	"ProfService.AnalyzeQuery.ctx": "-", "ProfService.AnalyzeQuery.strQuery": "position", "ProfService.AnalyzeQuery.from": "window", "ProfService.AnalyzeQuery.to": "window",
}

// plannerContextFields: PlannerContext field read by a planner -> how it is varied.
var plannerContextFields = map[string]string{
	"From": "window (constant)", "To": "window (constant)", "Ctx": "-", "CHDb": "-", "Id": "counter",
	"Limit":                  "option NoLimit (LogQL, TraceQL, tags/values v2); 10000 fixed by the label services",
	"OrderASC":               "option Forward",
	"Step":                   "option StepMs",
	"IsCluster":              "option Cluster / cluster base sites",
	"Type":                   "option OtherType",
	"CHFinalize":             "always true in the services",
	"RandomFilter":           "option Sharded",
	"CachedTraceIds":         "option Sharded (ids come from rows, empty here)",
	"VersionInfo":            "from the settings table (fake: empty => no tempo_v2 branch); deployment state, not a request option",
	"TimeSeriesGinTableName": "config", "SamplesTableName": "config", "TimeSeriesTableName": "config", "TimeSeriesDistTableName": "config",
	"Metrics15sTableName": "config", "Metrics15sV2TableName": "config", "TracesAttrsTable": "config", "TracesAttrsDistTable": "config",
	"TracesTable": "config", "TracesDistTable": "config", "TracesKVTable": "config", "TracesKVDistTable": "config",
	"ProfilesSeriesGinTable": "config", "ProfilesSeriesGinDistTable": "config", "ProfilesTable": "config", "ProfilesDistTable": "config",
	"ProfilesSeriesTable": "config", "ProfilesSeriesDistTable": "config",
}

// hints fields of storage.SelectHints read by the PromQL transpiler: all set by the engine from the query text and
// the range parameters; the five hint shapes of promSites cover raw / downsampled x instant / range functions.
var promHintFields = map[string]string{"Step": "shape", "Start": "shape", "End": "shape", "Range": "shape", "Func": "shape", "Grouping": "dead code", "By": "dead code"}

func scanRequestSurface() (report map[string]any) {
	repo := ev.Repo()
	fset := token.NewFileSet()
	var problems []string
	// 1. exported methods of the four services and their parameters
	services := map[string]bool{"QueryRangeService": true, "QueryLabelsService": true, "TempoService": true, "ProfService": true}
	seenParams := 0
	for _, f := range []string{"queryRangeService.go", "queryLabelsService.go", "tempoService.go", "tempoServiceTraceQL.go", "profService.go"} {
		file, err := parser.ParseFile(fset, filepath.Join(repo, "reader/service", f), nil, 0)
		if err != nil {
			ev.Fatal("scan: %v", err)
		}
		for _, d := range file.Decls {
			fd, ok := d.(*ast.FuncDecl)
			if !ok || fd.Recv == nil || !fd.Name.IsExported() || len(fd.Recv.List) != 1 {
				continue
			}
			recv := ""
			if st, ok := fd.Recv.List[0].Type.(*ast.StarExpr); ok {
				if id, ok := st.X.(*ast.Ident); ok {
					recv = id.Name
				}
			}
			if !services[recv] {
				continue
			}
			for _, p := range fd.Type.Params.List {
				for _, n := range p.Names {
					key := recv + "." + fd.Name.Name + "." + n.Name
					seenParams++
					if _, ok := serviceParams[key]; !ok {
						problems = append(problems, "service parameter not in the table: "+key)
					}
				}
			}
		}
	}
	// 2. PlannerContext fields read by planners
	fields := map[string]int{}
	for _, dir := range []string{"reader/logql/logql_transpiler_v2/clickhouse_planner", "reader/traceql/transpiler", "reader/traceql/transpiler/clickhouse_transpiler",
		"reader/prof/transpiler", "reader/promql/transpiler", "reader/tempo"} {
		ents, err := os.ReadDir(filepath.Join(repo, dir))
		if err != nil {
			ev.Fatal("scan: %v", err)
		}
		for _, e := range ents {
			if e.IsDir() || !strings.HasSuffix(e.Name(), ".go") || strings.HasSuffix(e.Name(), "_test.go") {
				continue
			}
			file, err := parser.ParseFile(fset, filepath.Join(repo, dir, e.Name()), nil, 0)
			if err != nil {
				ev.Fatal("scan: %v", err)
			}
			// identifiers declared with type *shared.PlannerContext (parameters named ctx, mostly)
			pcNames := map[string]bool{}
			ast.Inspect(file, func(n ast.Node) bool {
				fl, ok := n.(*ast.Field)
				if !ok {
					return true
				}
				if st, ok := fl.Type.(*ast.StarExpr); ok {
					if se, ok := st.X.(*ast.SelectorExpr); ok && se.Sel.Name == "PlannerContext" {
						for _, nm := range fl.Names {
							pcNames[nm.Name] = true
						}
					}
				}
				return true
			})
			ast.Inspect(file, func(n ast.Node) bool {
				se, ok := n.(*ast.SelectorExpr)
				if !ok {
					return true
				}
				if id, ok := se.X.(*ast.Ident); ok && pcNames[id.Name] && ast.IsExported(se.Sel.Name) {
					fields[se.Sel.Name]++
				}
				return true
			})
		}
	}
	// sql.Ctx has an Id() too; PlannerContext identifiers are what was collected, so only its own members show up
	for f := range fields {
		if _, ok := plannerContextFields[f]; !ok {
			problems = append(problems, "PlannerContext field read by a planner but not in the table: "+f)
		}
	}
	if len(problems) > 0 {
		sort.Strings(problems)
		for _, p := range problems {
			fmt.Fprintln(os.Stderr, "request-surface scan:", p)
		}
		ev.Fatal("%d request-surface items are not accounted for (mc/cmd/c10/scan.go, options.go)", len(problems))
	}
	fl := make([]string, 0, len(fields))
	for f := range fields {
		fl = append(fl, f)
	}
	sort.Strings(fl)
	return map[string]any{"service_parameters_checked": seenParams, "planner_context_fields_read": fl}
}
