// Check C10: request strings can never change the structure of SQL sent to ClickHouse.
//
// Every site (string-valued position of a request shape, see sites.go) x every hostile string (hostile.go) is
// executed against the real services over a recording fake database; every statement is tokenized with
// verif/mc/chlex and compared with the statement rendered for harmless values (oracle.go).
//
// Process model: the parent enumerates nothing itself; it starts W worker processes (the repository prints a lot
// to stdout/stderr and a case may panic in a foreign goroutine), each taking the cases with index = shard mod W,
// journalling "B <idx>" before and "R <idx> ..." after each case on fd 3.  A worker death is attributed to the
// journalled case, which is re-run alone 3 times.
package main

import (
	"bufio"
	"encoding/base64"
	"encoding/json"
	"flag"
	"fmt"
	"hash/fnv"
	"os"
	"os/exec"
	"regexp"
	"runtime"
	"runtime/pprof"
	"sort"
	"strconv"
	"strings"
	"sync"
	"time"

	"verif/mc/ev"
)

var (
	flagWorker = flag.Bool("worker", false, "internal: run as worker")
	flagShard  = flag.Int("shard", 0, "internal")
	flagOf     = flag.Int("of", 1, "internal")
	flagFrom   = flag.Int("from", 0, "internal: first case index of this shard to run")
	flagOnly   = flag.Int("only", -1, "internal: run only this case index")
	flagList   = flag.Bool("list-sites", false, "print the site table and exit")
	flagW      = flag.Int("workers", 0, "number of worker processes (default: CPUs, max 16)")
)

// ---- one case ---------------------------------------------------------------------------------------------------------

type baseline struct {
	x, y   []*stmt
	vx, vy Val // front-end values of the two harmless stand-ins
	errX   error
	loaded bool
}

type checker struct {
	env   *Env
	bases map[string]*baseline // site.ID + "\x00" + BX + "\x00" + BY
	// measured
	renders int64
}

func newChecker() *checker { return &checker{env: newEnv(), bases: map[string]*baseline{}} }

func lexAll(sqls []string) []*stmt {
	out := make([]*stmt, len(sqls))
	for i, q := range sqls {
		out[i] = lexStmt(q)
	}
	return out
}

// run executes the site with the raw string s at the position.
func (c *checker) run(site *Site, s string) (q Quoted, expressible bool, sqls []string, err error) {
	return c.runQ(site, site.Quote, s)
}

func (c *checker) runQ(site *Site, quote QuoteFn, s string) (q Quoted, expressible bool, sqls []string, err error) {
	q, ok := quote.F(s)
	if !ok {
		return q, false, nil, nil
	}
	if q.Hole == "" {
		q.Hole = q.Value
	}
	c.renders++
	sqls, err = site.Exec(c.env, q.Text)
	return q, true, sqls, err
}

func (c *checker) baseline(site *Site, va Variant) *baseline {
	key := site.ID + "\x00" + va.BX + "\x00" + va.BY
	quote := site.Quote
	if va.Whole && site.BaseQuote.F != nil {
		key += "\x00whole"
		quote = site.BaseQuote
	}
	if b, ok := c.bases[key]; ok {
		return b
	}
	b := &baseline{}
	qx, okx, sx, errX := c.runQ(site, quote, va.BX)
	qy, oky, sy, _ := c.runQ(site, quote, va.BY)
	if okx && oky {
		b.x, b.y = lexAll(sx), lexAll(sy)
		b.vx, b.vy = valOf(qx), valOf(qy)
		b.errX = errX
		b.loaded = true
	}
	c.bases[key] = b
	return b
}

type CaseResult struct {
	Outcome  string // inexpressible | rejected | held | held_not_in_sql | violation | no_baseline
	NSQL     int
	Carriers int
	Value    string
	Class    string
	What     string
	SQL      []string
	Err      string
}

func (c *checker) check(site *Site, s string) CaseResult {
	q, ok, sqls, err := c.run(site, s)
	if !ok {
		return CaseResult{Outcome: "inexpressible"}
	}
	res := CaseResult{NSQL: len(sqls), Value: q.Value, SQL: sqls}
	if err != nil {
		res.Err = err.Error()
	}
	if len(sqls) == 0 {
		res.Outcome = "rejected"
		return res
	}
	got := lexAll(sqls)
	if f := dirty(got); f != nil {
		if b := c.baseline(site, defaultBaselineVariant(site)); !b.loaded || (dirty(b.x) == nil && dirty(b.y) == nil) {
			res.Outcome = "violation"
			res.Class = site.Group + ":" + f.Reason
			res.What = fmt.Sprintf("site=%s text=%+q: %s", site.ID, q.Text, f.Detail)
			return res
		}
	}
	if q.Weak {
		res.Outcome = "held_weak"
		return res
	}
	variants := defaultVariants
	if site.Variants != nil {
		variants = site.Variants(q)
	}
	v := valOf(q)
	var best *Finding
	anyBaseline := false
	for _, va := range variants {
		applicable := false
		for _, tr := range va.T {
			if _, ok := tr.Pre(v); ok {
				applicable = true
			}
		}
		if !applicable {
			continue
		}
		b := c.baseline(site, va)
		if !b.loaded || len(b.x) == 0 {
			continue
		}
		anyBaseline = true
		f, carriers := compare(got, b.x, b.y, va, v, b.vx, b.vy)
		if f == nil {
			res.Carriers = carriers
			if carriers == 0 {
				res.Outcome = "held_not_in_sql"
			} else {
				res.Outcome = "held"
			}
			return res
		}
		if best == nil || f.depth > best.depth {
			best = f
			res.Carriers = carriers
		}
	}
	if !anyBaseline {
		res.Outcome = "no_baseline"
		res.What = "no harmless stand-in produced SQL for this value (oracle gap)"
		return res
	}
	res.Outcome = "violation"
	cls := ""
	if site.Classify != nil {
		cls = site.Classify(q.Value, best)
	}
	if cls == "" {
		cls = best.Reason
	}
	res.Class = site.Group + ":" + cls
	res.What = fmt.Sprintf("site=%s value=%+q variant=%s: %s", site.ID, q.Value, best.Variant, best.Detail)
	return res
}

func valOf(q Quoted) Val {
	if q.Hole == "" {
		return Val{q.Value, q.Value}
	}
	return Val{q.Value, q.Hole}
}

func defaultBaselineVariant(site *Site) Variant {
	if site.Variants != nil {
		if vs := site.Variants(Quoted{Text: "x", Value: "x", Hole: "x"}); len(vs) > 0 {
			return vs[0]
		}
	}
	return defaultVariants[0]
}

// ---- worker -------------------------------------------------------------------------------------------------------------

type violationMsg struct {
	Idx   int    `json:"idx"`
	Site  string `json:"site"`
	S64   string `json:"s_b64"`
	Class string `json:"class"`
	What  string `json:"what"`
}

var reDigits = regexp.MustCompile(`[0-9]+`)

// reasonClass: why the front end refused a request (error text with positions and the echoed input removed).
func reasonClass(r CaseResult) string {
	if r.Outcome != "rejected" {
		return ""
	}
	e := r.Err
	if e == "" {
		return "no statement, no error"
	}
	if i := strings.IndexAny(e, "\"`'"); i > 8 {
		e = e[:i]
	}
	e = reDigits.ReplaceAllString(e, "N")
	e = strings.Map(func(c rune) rune {
		if c < 0x20 || c > 0x7e {
			return '?'
		}
		return c
	}, e)
	if len(e) > 60 {
		e = e[:60]
	}
	return e
}

func hash64(parts ...string) string {
	h := fnv.New64a()
	for _, p := range parts {
		h.Write([]byte(p))
		h.Write([]byte{0})
	}
	return strconv.FormatUint(h.Sum64(), 36)
}

func workerMain(thorough bool) {
	if pf := os.Getenv("VERIF_C10_CPUPROFILE"); pf != "" && *flagShard == 0 {
		if f, err := os.Create(pf); err == nil {
			pprof.StartCPUProfile(f)
			defer pprof.StopCPUProfile()
		}
	}
	out := os.NewFile(3, "journal")
	if out == nil {
		fmt.Fprintln(os.Stderr, "worker: fd 3 missing")
		os.Exit(2)
	}
	c := newChecker()
	perClass := map[string]int{}
	w := bufio.NewWriterSize(out, 1<<16)
	mine := func(si int) bool { return si%*flagOf == *flagShard }
	// site table self-check for this worker's sites (also warms the baselines): does the harmless value reach a
	// statement exactly where the table says it does?
	var silent []string
	used := map[int]bool{}
	enumerate(thorough, func(idx, si int, ph string, s string) { used[si] = true })
	if *flagOnly < 0 && *flagFrom == 0 {
		for i := range sites {
			if !mine(i) || !used[i] || sites[i].Auto {
				continue
			}
			site := &sites[i]
			va := defaultBaselineVariant(site)
			b := c.baseline(site, va)
			if c.env.endpoint != site.Endpoint {
				silent = append(silent, fmt.Sprintf("%s is served by endpoint %q, the site table says %q", site.ID, c.env.endpoint, site.Endpoint))
			}
			n := 0
			var bf *Finding
			if b.loaded {
				bf, n = compare(b.x, b.x, b.y, va, b.vx, b.vx, b.vy)
			}
			if bf != nil {
				continue // the harmless renderings themselves break the oracle: reported as violations by the cases
			}
			if (n == 0) != site.NotInSQL {
				silent = append(silent, fmt.Sprintf("%s carriers=%d notInSQL=%v statements=%d", site.ID, n, site.NotInSQL, len(b.x)))
			}
		}
	}
	enumerate(thorough, func(idx, si int, ph string, s string) {
		if !mine(si) || (*flagOnly >= 0 && idx != *flagOnly) || idx < *flagFrom {
			return
		}
		site := &sites[si]
		if site.Quote.Only != nil && (strings.HasPrefix(s, historyMark) || !site.Quote.Only(s)) {
			fmt.Fprintf(w, "R\t%d\t%d\tinexpressible\t0\t0\t-\t\t\n", idx, si)
			return
		}
		// the journal line must be on the pipe before the case runs
		fmt.Fprintf(w, "B\t%d\n", idx)
		w.Flush()
		r := c.checkCase(site, s)
		if r.Outcome == "violation" || r.Outcome == "no_baseline" {
			if r.Outcome == "no_baseline" {
				r.Class = site.Group + ":oracle_gap_no_baseline"
			}
			perClass[r.Class]++
			if perClass[r.Class] <= 2 {
				b, _ := json.Marshal(violationMsg{idx, site.ID, base64.StdEncoding.EncodeToString([]byte(s)), r.Class, r.What})
				fmt.Fprintf(w, "V\t%s\n", b)
			}
		}
		h := "-"
		if r.NSQL > 0 {
			h = hash64(site.ID, r.Value)
		}
		fmt.Fprintf(w, "R\t%d\t%d\t%s\t%d\t%d\t%s\t%s\t%s\n", idx, si, r.Outcome, r.NSQL, r.Carriers, h, r.Class, reasonClass(r))
	})
	b, _ := json.Marshal(map[string]any{"renders": c.renders, "carrier_mismatch": silent})
	fmt.Fprintf(w, "E\t%s\n", b)
	w.Flush()
}

// ---- parent -------------------------------------------------------------------------------------------------------------

type agg struct {
	mu         sync.Mutex
	done       map[int]bool
	outcomes   map[string]int64
	byGroup    map[string]map[string]int64
	byLang     map[string]map[string]int64
	byCtx      map[string]map[string]int64
	classCount map[string]int64
	rejects    map[string]map[string]int64
	violations []violationMsg
	distinct   map[string]struct{}
	statements int64
	renders    int64
	carrierMis []string
	died       []string
}

func runWorker(r *ev.Run, exe string, shard, of, from, only int, a *agg) (lastBegun int, finished bool) {
	args := []string{"--worker", "--shard", strconv.Itoa(shard), "--of", strconv.Itoa(of), "--from", strconv.Itoa(from),
		"--only", strconv.Itoa(only), "--tier", r.Tier}
	cmd := exec.Command(exe, args...)
	pr, pw, err := os.Pipe()
	if err != nil {
		ev.Fatal("pipe: %v", err)
	}
	cmd.ExtraFiles = []*os.File{pw}
	cmd.Env = append(os.Environ(), "GOMAXPROCS=1", "GOGC=400")
	cmd.Stdout = nil // the repository prints every statement it builds
	errPath := fmt.Sprintf("%s/worker-%d-%d.stderr", scratchDir(), shard, from)
	if ef, err := os.Create(errPath); err == nil {
		cmd.Stderr = ef
		defer ef.Close()
	}
	if err := cmd.Start(); err != nil {
		ev.Fatal("cannot start worker: %v", err)
	}
	pw.Close()
	lastBegun = -1
	lastActivity := time.Now()
	var actMu sync.Mutex
	stop := make(chan struct{})
	go func() { // watchdog: no journal line for 60 s => kill; the deadline of the run => kill
		t := time.NewTicker(time.Second)
		defer t.Stop()
		for {
			select {
			case <-stop:
				return
			case <-t.C:
				actMu.Lock()
				idle := time.Since(lastActivity)
				actMu.Unlock()
				if idle > 60*time.Second || time.Now().After(r.Deadline) {
					cmd.Process.Kill()
					return
				}
			}
		}
	}()
	sc := bufio.NewScanner(pr)
	sc.Buffer(make([]byte, 1<<20), 1<<24)
	for sc.Scan() {
		actMu.Lock()
		lastActivity = time.Now()
		actMu.Unlock()
		f := strings.Split(sc.Text(), "\t")
		switch f[0] {
		case "B":
			lastBegun, _ = strconv.Atoi(f[1])
		case "V":
			var v violationMsg
			if json.Unmarshal([]byte(f[1]), &v) == nil {
				a.mu.Lock()
				a.violations = append(a.violations, v)
				a.mu.Unlock()
			}
		case "R":
			if len(f) < 9 {
				continue
			}
			idx, _ := strconv.Atoi(f[1])
			si, _ := strconv.Atoi(f[2])
			nsql, _ := strconv.Atoi(f[4])
			site := &sites[si]
			a.mu.Lock()
			if !a.done[idx] {
				a.done[idx] = true
				a.outcomes[f[3]]++
				bump(a.byGroup, site.Group, f[3])
				bump(a.byLang, site.Lang, f[3])
				bump(a.byCtx, site.Kind+"@"+site.Ctx, f[3])
				a.statements += int64(nsql)
				if f[6] != "-" {
					a.distinct[f[6]] = struct{}{}
				}
				if f[7] != "" {
					a.classCount[f[7]]++
				}
				if f[8] != "" {
					bump(a.rejects, site.Lang, f[8])
				}
			}
			a.mu.Unlock()
		case "E":
			var e struct {
				Renders int64    `json:"renders"`
				Mis     []string `json:"carrier_mismatch"`
			}
			json.Unmarshal([]byte(f[1]), &e)
			a.mu.Lock()
			a.renders += e.Renders
			a.carrierMis = append(a.carrierMis, e.Mis...)
			a.mu.Unlock()
			finished = true
		}
	}
	close(stop)
	pr.Close()
	cmd.Wait()
	if finished {
		os.Remove(errPath)
	}
	return lastBegun, finished
}

func bump(m map[string]map[string]int64, k, o string) {
	if m[k] == nil {
		m[k] = map[string]int64{}
	}
	m[k][o]++
}

func scratchDir() string {
	if d := os.Getenv("VERIF_SCRATCH"); d != "" {
		return d
	}
	return os.TempDir()
}

func describeCase(thorough bool, want int) string {
	d := "?"
	enumerate(thorough, func(idx, si int, ph string, s string) {
		if idx == want {
			d = fmt.Sprintf("site=%s s=%q", sites[si].ID, s)
		}
	})
	return d
}

func main() {
	r := ev.Start("C10", "model_checking", 80*time.Second, 18*time.Minute)
	sort.Slice(sites, func(i, j int) bool { return sites[i].ID < sites[j].ID })
	if *flagWorker {
		workerMain(r.Thorough())
		return
	}
	if *flagList {
		listSites()
		return
	}
	if r.Replay != "" {
		replay(r)
		return
	}
	r.Rule = "case = (site, hostile string): site = one string-valued position of one request shape in one quoting form of the query language " +
		"(sites.go; LogQL, TraceQL, Tempo tags / tag values / trace id, label & series endpoints, PromQL through the engine and Queryable.Select, Pyroscope); " +
		"hostile string = an atom of H or a concatenation of <=2 atoms (thorough: <=3 core atoms). A case is distinct/non-trivial when the request was " +
		"accepted and produced SQL (distinct_nontrivial counts distinct (site, front-end value) pairs that reached a statement); every statement " +
		"recorded by the fake session is tokenized (transitions = statements compared token by token with the harmless rendering)."
	r.Assumptions = []string{
		"ClickHouse lexing and string-literal decoding are as transcribed in verif/mc/chlex (Lexer.cpp, readAnyQuotedStringInto/parseComplexEscapeSequence, likePatternToRegexp); no server is available offline",
		"the value a query-language front end reads from a literal is the intended value: LogQL/TraceQL strings are decoded by encoding/json in this repository, so raw invalid UTF-8 in a request is U+FFFD before it reaches a planner (counted, not judged here)",
		"requests are issued at the service layer (reader/service) with the controller's own validation only for /api/traces/{id}; controllers pass URL/query/protobuf strings through unchanged",
		"table and database names come from configuration, not from requests, and are outside the quantifier",
		"one position is hostile per request; the other strings of the request are harmless",
	}
	scan := scanRequestSurface()
	r.Extra["request_surface_scan"] = map[string]any{"service_parameters_checked": scan.ParamsChecked, "planner_context_fields_read": scan.Fields, "regex_recognisers_in_planners": scan.Recognisers,
		"unclassified": scan.Unclassified, "unknown_service_methods_enumerated_generically": scan.NewMethods}
	for _, u := range scan.Unclassified {
		fmt.Printf("[C10] unclassified request item: %s\n", u)
		r.Cap("unclassified request item: " + u)
	}
	for _, m := range sortedKeys(scan.NewMethods) {
		fmt.Printf("[C10] unclassified request item: service method %s(%s) - its string parameters are enumerated generically\n", m, strings.Join(scan.NewMethods[m], ", "))
		r.Cap("unclassified request item: service method " + m + " (string parameters enumerated generically, no option sets)")
	}
	W := *flagW
	if W <= 0 {
		W = runtime.NumCPU()
		if W > 16 {
			W = 16
		}
	}
	exe, err := os.Executable()
	if err != nil {
		ev.Fatal("executable: %v", err)
	}
	nStrings := map[string]bool{}
	perPhase := map[string]int{}
	total := enumerate(r.Thorough(), func(idx, si int, ph string, s string) {
		nStrings[s] = true
		perPhase[ph]++
	})
	a := &agg{done: map[int]bool{}, outcomes: map[string]int64{}, byGroup: map[string]map[string]int64{}, byLang: map[string]map[string]int64{}, byCtx: map[string]map[string]int64{},
		classCount: map[string]int64{}, distinct: map[string]struct{}{}, rejects: map[string]map[string]int64{}}
	var wg sync.WaitGroup
	for sh := 0; sh < W; sh++ {
		wg.Add(1)
		go func(sh int) {
			defer wg.Done()
			from := 0
			for {
				last, finished := runWorker(r, exe, sh, W, from, -1, a)
				if finished || time.Now().After(r.Deadline) {
					return
				}
				if last < 0 {
					ev.Fatal("worker %d died before its first case (see %s)", sh, scratchDir())
				}
				// the worker died inside case `last`: re-run it alone three times
				deaths := 0
				for k := 0; k < 3; k++ {
					if _, ok := runWorker(r, exe, sh, W, last, last, a); !ok {
						deaths++
					}
				}
				a.mu.Lock()
				a.died = append(a.died, fmt.Sprintf("%s deaths_alone=%d/3", describeCase(r.Thorough(), last), deaths))
				if !a.done[last] {
					a.done[last] = true
					a.outcomes["worker_died"]++
				}
				a.mu.Unlock()
				from = last + 1
			}
		}(sh)
	}
	wg.Wait()

	// ---- report
	a.mu.Lock()
	defer a.mu.Unlock()
	if len(a.done) < total {
		r.Cap(fmt.Sprintf("%d of %d cases not run (deadline)", total-len(a.done), total))
	}
	if len(a.died) > 0 {
		r.Cap("a worker process died on: " + strings.Join(a.died, "; ") + " (crash of the code under test: property C12, not judged here)")
	}
	r.AddEval(int64(len(a.done)) - a.outcomes["inexpressible"])
	for _, k := range sortedKeys(a.outcomes) {
		for i := int64(0); i < a.outcomes[k]; i++ {
			r.Outcome(k)
		}
	}
	for k := range a.distinct {
		r.Distinct(k)
	}
	r.States = int64(len(a.distinct))
	r.Transitions = a.statements
	r.TracesValidated = a.renders
	r.Extra["sites"] = len(sites)
	r.Extra["hostile_strings"] = len(nStrings)
	r.Extra["cases_per_phase_in_priority_order"] = perPhase
	r.Extra["by_value_kind_and_context"] = a.byCtx
	r.Extra["hostile_atoms"] = len(coreAtoms) + len(extAtoms)
	r.Extra["cases_total"] = total
	r.Extra["sql_statements_tokenized"] = a.statements
	r.Extra["by_position_family"] = a.byGroup
	r.Extra["by_language"] = a.byLang
	r.Extra["finding_classes"] = a.classCount
	r.Extra["workers"] = W
	lim, limNames := sizeLimits()
	r.Extra["size_limits_found_in_sql_builder_and_planners"] = limNames
	r.Extra["history_predecessor_classes"] = 3 + len(lim)
	r.Extra["front_end_rejections_by_reason"] = a.rejects
	if len(a.died) > 0 {
		r.Extra["worker_deaths"] = a.died
	}
	r.Sample(map[string]string{"site": sites[0].ID, "s": "'"})
	r.Sample(map[string]string{"site": sites[len(sites)/2].ID, "s": "\\'"})
	r.Sample(map[string]string{"site": sites[len(sites)-1].ID, "s": "--"})
	sort.Slice(a.violations, func(i, j int) bool { return a.violations[i].Idx < a.violations[j].Idx })
	shown := map[string]int{}
	for _, v := range a.violations {
		if shown[v.Class]++; shown[v.Class] > 3 {
			continue // three examples per explanation; the totals are in coverage.finding_classes
		}
		r.Violate(v.Class, v.What, map[string]any{"site": v.Site, "s_b64": v.S64})
	}
	if len(a.carrierMis) > 0 && r.Violations() == 0 {
		// the site table says which positions reach a statement; a disagreement without any violation means the
		// table (or the routing inside the repository) changed: loud, but not a verdict
		for _, m := range a.carrierMis {
			fmt.Fprintln(os.Stderr, "carrier self-check:", m)
		}
		ev.Fatal("%d sites: the harmless value reaches / does not reach a statement contrary to the site table (fix sites.go or NOTES.md)", len(a.carrierMis))
	}
	r.Extra["site_table_disagreements"] = a.carrierMis
	r.Finish()
}

func listSites() {
	groups := map[string][]string{}
	for _, s := range sites {
		groups[s.Group] = append(groups[s.Group], s.ID)
	}
	for _, g := range sortedKeys(groups) {
		fmt.Printf("%s (%d)\n", g, len(groups[g]))
		for _, id := range groups[g] {
			fmt.Printf("    %s\n", id)
		}
	}
	fmt.Printf("%d sites\n", len(sites))
}

// replay re-runs one case in this process and prints everything.
func replay(r *ev.Run) {
	b, err := os.ReadFile(r.Replay)
	if err != nil {
		ev.Fatal("replay: %v", err)
	}
	var doc struct {
		Replay struct {
			Site string `json:"site"`
			S64  string `json:"s_b64"`
			S    string `json:"s"`
		} `json:"replay"`
	}
	if err := json.Unmarshal(b, &doc); err != nil {
		ev.Fatal("replay: %v", err)
	}
	s := doc.Replay.S
	if doc.Replay.S64 != "" {
		raw, err := base64.StdEncoding.DecodeString(doc.Replay.S64)
		if err != nil {
			ev.Fatal("replay: %v", err)
		}
		s = string(raw)
	}
	var site *Site
	for i := range sites {
		if sites[i].ID == doc.Replay.Site {
			site = &sites[i]
		}
	}
	if site == nil {
		ev.Fatal("replay: unknown site %q", doc.Replay.Site)
	}
	// the repository prints to stdout while it works: silence it during the case
	saved := os.Stdout
	if null, err := os.OpenFile(os.DevNull, os.O_WRONLY, 0); err == nil {
		os.Stdout = null
	}
	c := newChecker()
	res := c.checkCase(site, s)
	os.Stdout = saved
	q, _ := site.Quote.F(s)
	fmt.Printf("site      %s\nstring    %q\nrequest   %q\nvalue     %q\noutcome   %s  statements=%d carriers=%d err=%q\n", site.ID, s, q.Text, res.Value, res.Outcome, res.NSQL, res.Carriers, res.Err)
	for i, q := range res.SQL {
		fmt.Printf("SQL[%d]    %s\n", i, q)
	}
	r.AddEval(1)
	r.Outcome(res.Outcome)
	if res.Outcome == "violation" {
		r.Violate(res.Class, res.What, map[string]any{"site": site.ID, "s_b64": base64.StdEncoding.EncodeToString([]byte(s))})
	}
	r.Finish()
}
