package main

import "sort"

// The hostile alphabet H of DESIGN.md §2 C10 ("core") plus a few atoms that steer the planners into their
// value-dependent branches or that matter to the query-language front ends ("ext").
var coreAtoms = []string{
	`'`, `\`, `\'`, `''`, `\\'`, "\x00", "\n", `--`, `/*`, `*/`, `#`, `;`, `%`, `_`, `$$`, "`", `"`, `)`, `{{`,
	"é",    // multi-byte
	"\xff", // invalid UTF-8
}

var extAtoms = []string{
	" ", "a", "(?i)", ".*", "\r", "\t", "\x1a", "}}", "(", "’" /* ’ closes a ClickHouse unicode-quoted literal */, "=", ":", "|", "0",
}

// criticalAtoms: the atoms that can end or escape a ClickHouse literal or start a comment.
var criticalAtoms = []string{`'`, `\`, `"`, "`", `--`, "\n", "\x00", `%`, `)`}

// hostileSet: all atoms; all concatenations of two atoms with at least one core atom (quick) or of any two atoms
// (thorough); thorough adds all concatenations of three core atoms.  Deterministic order, duplicates
// (e.g. ' + ' == ”) removed.
func hostileSet(thorough bool) []string {
	all := append(append([]string{}, coreAtoms...), extAtoms...)
	isCore := map[string]bool{}
	for _, a := range coreAtoms {
		isCore[a] = true
	}
	seen := map[string]bool{}
	var out []string
	add := func(s string) {
		if !seen[s] {
			seen[s] = true
			out = append(out, s)
		}
	}
	for _, a := range all {
		add(a)
	}
	for _, a := range all {
		for _, b := range all {
			if thorough || isCore[a] || isCore[b] {
				add(a + b)
			}
		}
	}
	if thorough {
		for _, a := range coreAtoms {
			for _, b := range coreAtoms {
				for _, c := range coreAtoms {
					add(a + b + c)
				}
			}
		}
	}
	return out
}

// reducedSet: what a *secondary* site (one more request shape around a position whose primary site gets the full
// set) is given in the quick tier: every atom, and every concatenation of two critical atoms.
func reducedSet() map[string]bool {
	out := map[string]bool{}
	for _, a := range coreAtoms {
		out[a] = true
	}
	for _, a := range extAtoms {
		out[a] = true
	}
	for _, a := range criticalAtoms {
		for _, b := range criticalAtoms {
			out[a+b] = true
		}
	}
	return out
}

func sortedKeys[V any](m map[string]V) []string {
	keys := make([]string, 0, len(m))
	for k := range m {
		keys = append(keys, k)
	}
	sort.Strings(keys)
	return keys
}
