package main

import "sort"

// The hostile alphabet H of DESIGN.md §2 C10 ("core") plus a few atoms that steer the planners into their
// value-dependent branches or that matter to the query-language front ends ("ext").
var coreAtoms = []string{
	`'`, `\`, `\'`, `''`, `\\'`, "\x00", "\n", `--`, `/*`, `*/`, `#`, `;`, `%`, `_`, `$$`, "`", `"`, `)`, `{{`,
	"é",    // multi-byte
	"\xff", // invalid UTF-8
}

var extAtoms = []string{
	" ", "a", "(?i)", ".*", "\r", "\t", "\x1a", "}}", "(", "’" /* ’ closes a ClickHouse unicode-quoted literal */, "=", ":", "|", "0",
}

// criticalAtoms: the atoms that can end or escape a ClickHouse literal or start a comment.
var criticalAtoms = []string{`'`, `\`, `"`, "`", `--`, "\n", "\x00", `%`, `)`}

// A phase is one slice of the enumeration: a list of hostile strings and the sites that get them.  Phases are run in
// order (all sites of phase 1, then phase 2, ...), so an internal deadline cuts the least important strings; the string
// lists are disjoint and the site sets shrink from phase to phase, so no (site, string) pair is run twice.
type phase struct {
	Name    string
	Strings []string
	Applies func(s *Site) bool
}

func phases(thorough bool) []phase {
	all := append(append([]string{}, coreAtoms...), extAtoms...)
	isCore, isCrit := map[string]bool{}, map[string]bool{}
	for _, a := range coreAtoms {
		isCore[a] = true
	}
	for _, a := range criticalAtoms {
		isCrit[a] = true
	}
	seen := map[string]bool{}
	collect := func(f func(add func(string))) []string {
		var out []string
		f(func(s string) {
			if !seen[s] {
				seen[s] = true
				out = append(out, s)
			}
		})
		return out
	}
	pairs := func(keep func(a, b string) bool) []string {
		return collect(func(add func(string)) {
			for _, a := range all {
				for _, b := range all {
					if keep(a, b) {
						add(a + b)
					}
				}
			}
		})
	}
	atoms := collect(func(add func(string)) {
		for _, a := range all {
			add(a)
		}
	})
	critPairs := pairs(func(a, b string) bool { return isCrit[a] && isCrit[b] })
	crit1Pairs := pairs(func(a, b string) bool { return isCrit[a] || isCrit[b] })
	core1Pairs := pairs(func(a, b string) bool { return isCore[a] || isCore[b] })
	everySite := func(*Site) bool { return true }
	noCtx := func(s *Site) bool { return s.Ctx == "" && s.Opt == "" }
	primaryNoCtx := func(s *Site) bool { return s.Ctx == "" && !s.Secondary }
	// one representative per position family carries the size and history dimensions in the quick tier
	rep := familyRepresentatives()
	isRep := func(s *Site) bool { return rep[s.ID] }
	baseSite := func(s *Site) bool { return s.Ctx == "" && s.Opt == "" && !s.Auto }
	if !thorough {
		return []phase{
			{"history_predecessor_x_probe", historyStrings(), isRep},
			{"sizes_around_limits", sizeStrings(), isRep},
			// every position x every option set, and every position x every context template (default options)
			// (secondary shapes keep only the core templates here; thorough gives them all)
			{"atoms", atoms, func(s *Site) bool {
				return s.Ctx == "" || (s.Opt == "" && (!s.Secondary || s.CtxCore))
			}},
			{"pairs_of_critical_atoms", critPairs, func(s *Site) bool {
				return (s.Ctx == "" && s.Opt == "") || (!s.Secondary && s.CtxCore)
			}},
			{"pairs_with_a_critical_atom", crit1Pairs, primaryNoCtx},
		}
	}
	allPairs := pairs(func(a, b string) bool { return true })
	triples := collect(func(add func(string)) {
		for _, a := range coreAtoms {
			for _, b := range coreAtoms {
				for _, c := range coreAtoms {
					add(a + b + c)
				}
			}
		}
	})
	return []phase{
		{"history_predecessor_x_probe", historyStrings(), baseSite},
		{"sizes_around_limits", sizeStrings(), baseSite},
		{"atoms", atoms, everySite},
		{"pairs_of_critical_atoms", critPairs, everySite},
		{"pairs_with_a_critical_atom", crit1Pairs, func(s *Site) bool { return s.Ctx == "" || (!s.Secondary && s.CtxCore) }},
		{"pairs_with_a_core_atom", core1Pairs, noCtx},
		{"all_pairs", allPairs, noCtx},
		{"triples_of_core_atoms", triples, primaryNoCtx},
	}
}

// familyRepresentatives: the first primary base site of every position family (any base site if it has no primary).
func familyRepresentatives() map[string]bool {
	best := map[string]*Site{}
	for i := range sites {
		s := &sites[i]
		if s.Ctx != "" || s.Opt != "" || s.Auto || s.NotInSQL || s.Quote.Only != nil {
			continue
		}
		b := best[s.Group]
		if b == nil || (b.Secondary && !s.Secondary) {
			best[s.Group] = s
		}
	}
	out := map[string]bool{}
	for _, s := range best {
		out[s.ID] = true
	}
	return out
}

// enumerate calls f for every case in priority order; idx is the case number.
func enumerate(thorough bool, f func(idx, si int, ph string, s string)) int {
	idx := 0
	for _, ph := range phases(thorough) {
		for si := range sites {
			if !ph.Applies(&sites[si]) {
				continue
			}
			for _, s := range ph.Strings {
				f(idx, si, ph.Name, s)
				idx++
			}
		}
	}
	return idx
}

func sortedKeys[V any](m map[string]V) []string {
	keys := make([]string, 0, len(m))
	for k := range m {
		keys = append(keys, k)
	}
	sort.Strings(keys)
	return keys
}
