# instrument the (day, fingerprint) cache for engine E1 (C04s: concurrent first sight of series); sourced by bin/check
go build -modfile="$scratch/mod/go.mod" -o "$scratch/bin/rewrite" ./mc/rewrite || return 1
files=$(cd "$VERIF_REPO" && ls writer/utils/numbercache/*.go | grep -v _test.go)
"$scratch/bin/rewrite" -repo "$VERIF_REPO" -out "$scratch/inst" -overlay "$scratch/overlay.json" $files \
   2>"$scratch/rewrite.log" || { cat "$scratch/rewrite.log" >&2; return 1; }
