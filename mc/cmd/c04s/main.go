// C04 (schedules): "every sample's series is indexed" when pushes are concurrent.  The parser asks the process-wide
// (day, fingerprint) cache `seen before?` per sample and emits the time_series row only on `no`; with several requests
// in flight the answers must still be those of SOME sequential order of the calls.  The real numbercache package
// (instrumented through the build overlay: scheduling points at its lock operations and before every statement that
// touches shared memory) is driven by 2-3 request threads, each taking its own view with DB(node) as
// controller/builder.go does per request, under the controlled scheduler (engine E1), for every interleaving within
// the deviation bound, with the cache's own clean-up ticker as a timer deviation.
// Oracle (safety only, so a cache that answers `not seen` too often is accepted): for every (node, key) presented at
// least one call answered `not seen` (somebody emits the series row), and no call answered `seen` for a (node, key)
// that no OTHER call presented (a key nobody indexed).  On a clustered node every answer is `not seen`.
package main

import (
	"fmt"
	"io"
	"os"
	"runtime"
	"sort"
	"strings"
	"time"
	"unsafe"

	"github.com/metrico/qryn/writer/model"
	"github.com/metrico/qryn/writer/utils/logger"
	"github.com/metrico/qryn/writer/utils/numbercache"

	"verif/mc/ev"
	"verif/mc/sched"
	"verif/mc/sched/vsync"
)

type call struct {
	Node string
	Key  uint64
}

type scenario struct {
	name    string
	threads [][]call
}

func (s *scenario) Name() string { return s.name }

type obs struct {
	answers [][]bool
}

func nodes() map[string]*model.DataDatabasesMap {
	return map[string]*model.DataDatabasesMap{"n1": {}, "n2": {}, "nc": {}}
}

func ser(val uint64) []byte { return unsafe.Slice((*byte)(unsafe.Pointer(&val)), 8) } // as writer/plugin/qryn_writer_db.go

func (s *scenario) Run() any {
	nm := nodes()
	nm["nc"].ClusterName = "c"
	var root numbercache.ICache[uint64]
	// built by a daemon thread: the clean-up goroutine NewCache starts inherits that (it never ends and need not)
	sched.GoNamed("boot", true, func() { root = numbercache.NewCache[uint64](30*time.Minute, ser, nm) })
	sched.Quiesce() // the clean-up goroutine reaches its ticker
	o := &obs{answers: make([][]bool, len(s.threads))}
	var wg vsync.WaitGroup
	for i := range s.threads {
		i := i
		o.answers[i] = make([]bool, len(s.threads[i]))
		wg.Add(1)
		sched.GoNamed(fmt.Sprintf("req%d", i), false, func() {
			defer wg.Done()
			for j, c := range s.threads[i] {
				view := root.DB(c.Node) // one view per request and node, as controller/builder.go takes it
				o.answers[i][j] = view.CheckAndSet(c.Key)
			}
		})
	}
	wg.Wait()
	return o
}

func (s *scenario) Check(x any, res *sched.Result) (string, []sched.Finding) {
	o, _ := x.(*obs)
	if res.Failure != "" || o == nil {
		cls := "cache_" + strings.SplitN(res.Failure, ":", 2)[0]
		return res.Failure, []sched.Finding{{Class: strings.ReplaceAll(cls, " ", "_"), What: fmt.Sprintf("%s; unfinished=%v", res.Failure, res.Unfinished)}}
	}
	type nk struct {
		n string
		k uint64
	}
	presented := map[nk]int{}
	notSeen := map[nk]int{}
	var fs []sched.Finding
	var sb strings.Builder
	for i, th := range s.threads {
		for j, c := range th {
			k := nk{c.Node, c.Key}
			presented[k]++
			if !o.answers[i][j] {
				notSeen[k]++
			}
			fmt.Fprintf(&sb, "%v", map[bool]string{true: "S", false: "n"}[o.answers[i][j]])
			if c.Node == "nc" && o.answers[i][j] {
				fs = append(fs, sched.Finding{Class: "clustered_node_answered_seen", What: fmt.Sprintf("thread %d call %d (%s,%d): a clustered node must never skip the series row", i, j, c.Node, c.Key)})
			}
		}
		sb.WriteString("|")
	}
	keys := make([]nk, 0, len(presented))
	for k := range presented {
		keys = append(keys, k)
	}
	sort.Slice(keys, func(a, b int) bool { return keys[a].n+fmt.Sprint(keys[a].k) < keys[b].n+fmt.Sprint(keys[b].k) })
	for _, k := range keys {
		if notSeen[k] == 0 {
			fs = append(fs, sched.Finding{Class: "series_seen_although_never_indexed", What: fmt.Sprintf("every one of the %d concurrent calls for (node %s, key %d) was answered `seen before`: no request emits its time_series row (answers %s)", presented[k], k.n, k.k, sb.String())})
		}
	}
	return s.name + " => " + sb.String(), fs
}

func scenarios() []sched.Scenario {
	// keys: two (day, fingerprint) ids that differ in one byte, and one that differs in every byte
	k1, k2, k3 := uint64(0x0101010101010101), uint64(0x0101010101010102), uint64(0xfefefefefefefefe)
	var out []sched.Scenario
	add := func(name string, th ...[]call) { out = append(out, &scenario{name: name, threads: th}) }
	for _, nodePair := range [][2]string{{"n1", "n1"}, {"n1", "n2"}, {"n1", "nc"}} {
		a, b := nodePair[0], nodePair[1]
		p := a + b
		add(p+"/2x1:same", []call{{a, k1}}, []call{{b, k1}})
		add(p+"/2x1:near", []call{{a, k1}}, []call{{b, k2}})
		add(p+"/2x1:far", []call{{a, k1}}, []call{{b, k3}})
		add(p+"/2x2:cross", []call{{a, k1}, {a, k2}}, []call{{b, k2}, {b, k1}})
		add(p+"/2x2:disjoint", []call{{a, k1}, {a, k1}}, []call{{b, k3}, {b, k3}})
		add(p+"/3x1:two+one", []call{{a, k1}}, []call{{b, k2}}, []call{{a, k1}})
		add(p+"/3x1:all-different", []call{{a, k1}}, []call{{b, k2}}, []call{{a, k3}})
	}
	return out
}

var all []sched.Scenario

func lookup(n string) sched.Scenario {
	for _, s := range all {
		if s.Name() == n {
			return s
		}
	}
	return nil
}

func main() {
	logger.Logger.SetOutput(io.Discard)
	all = scenarios()
	if sched.IsWorker() {
		sched.WorkerMain(lookup)
		return
	}
	r := ev.StartPart("C04", os.Getenv("VERIF_PART"), "model_checking", 30*time.Second, 5*time.Minute)
	r.Rule = "C04s: stateless DFS (engine E1, delay-bounded, scheduling points at lock operations and before every statement that touches shared memory, the clean-up ticker as a timer deviation) over 2-3 concurrent requests asking the real numbercache `seen before?` through per-request DB(node) views; oracle: for every (node, key) presented at least one call is answered `not seen`, a clustered node never answers `seen`"
	if r.Replay != "" {
		replay(r)
		return
	}
	b := sched.Bounds{Preempt: 2, Faults: 0, Timers: 1, Horizon: 5000}
	if r.Thorough() {
		b.Preempt = 3
	}
	t0 := time.Now()
	st, ex, left := sched.Explore(all, b, runtime.NumCPU(), r.Deadline, 20)
	fmt.Printf("[C04s] scenarios=%d executions=%d outcomes=%d completed=%v left=%d %.1fs\n", len(all), st.Executions, len(st.Outcomes), ex, left, time.Since(t0).Seconds())
	if !ex {
		r.Cap(fmt.Sprintf("C04s cut by the deadline (%d subtrees unexplored)", left))
	}
	if st.Diverged > 0 || st.Unreproducible > 0 {
		r.Cap(fmt.Sprintf("%d executions diverged from their prefix and %d findings did not reproduce (uncaptured nondeterminism; nothing was concluded from them): %v", st.Diverged, st.Unreproducible, st.Notes))
	}
	r.AddEval(st.Executions)
	r.States += st.Points
	r.Transitions += st.Steps
	r.TracesValidated += st.Executions
	for k := range st.Outcomes {
		r.Distinct("c04s:" + k)
	}
	r.Extra["c04s"] = map[string]any{"scenarios": len(all), "bounds": b, "executions": st.Executions, "completed": ex,
		"distinct_outcomes": len(st.Outcomes), "max_points": st.MaxPoints}
	r.Sample(map[string]any{"c04s_scenario": all[1].Name()})
	for _, v := range st.Violations {
		r.Violate(v.Class, v.Scn+": "+v.What, v)
	}
	r.Finish()
}

func replay(r *ev.Run) {
	rp, res, outcome, fs, err := sched.ReplayFile(r.Replay, lookup)
	if err != nil {
		ev.Fatal("replay: %v", err)
	}
	fmt.Println(strings.Join(res.Trace, "\n"))
	fmt.Println("outcome:", outcome, "failure:", res.Failure)
	r.AddEval(1)
	r.States, r.Transitions, r.TracesValidated = int64(len(res.Points)), int64(res.Steps), 1
	for _, f := range fs {
		r.Violate(f.Class, f.What, rp)
	}
	r.Finish()
}
