// C13 — every read is confined to the requested time window and signal type.
//
// For every window of a menu (all pairs of instants placed around UTC midnight at a month end, around local
// midnight of two zones, a sub-second pair, 5-minute look-back windows), for every process time zone of the
// *writer* (how index rows are dated — taken from the real writer code in a subprocess with that TZ) and of the
// *reader* (how SQL is generated — a worker subprocess per TZ), and for single-node and clustered table layouts,
// a database is built that holds one datum of every signal at every *time class* of the window (1 ns / 1 day /
// 1 month before, at start, inside, 1 ns before the end, at the end, after, just outside every bucket widening).
// Every read endpoint of the real reader router is then called with that window; the SQL it sends is executed by the
// ClickHouse-subset interpreter chsim, and two oracles are applied: O on the response (nothing from outside the
// window or of the other signal, everything inside it) and O' on the interpreter's scan log (data-table scans admit
// only rows the endpoint may read).  See NOTES.md.
package main

import (
	"encoding/json"
	"flag"
	"fmt"
	"os"
	"runtime"
	"sort"
	"strings"
	"sync"
	"time"
	_ "time/tzdata"

	"verif/mc/ev"
	"verif/mc/wkpool"
)

var (
	role     = flag.String("role", "", "internal: writer | probe")
	probe    = flag.Bool("probe", false, "run the plain reproductions of the suspected defects against the real code and exit")
	dumpFlag = flag.String("dump", "", "print SQL and response of the endpoints whose name contains this string (first window, single layout)")
)

// cellSpec is one unit of work of a reader worker: one window x one writer zone (both layouts, all endpoints).
type cellSpec struct {
	Win    int `json:"win"`
	Writer int `json:"writer"`
}

type plan struct {
	Thorough bool
	Wins     []Win
	Cells    []cellSpec
	Dates    []*WriterDates // per zone
	Eps      []*Endpoint
}

func makePlan(thorough bool) *plan {
	p := &plan{Thorough: thorough, Wins: windows(thorough)}
	for wi := range p.Wins {
		for z := range zoneNames {
			p.Cells = append(p.Cells, cellSpec{wi, z})
		}
	}
	for _, e := range endpoints() {
		if e.Thorough && !thorough {
			continue
		}
		p.Eps = append(p.Eps, e)
	}
	return p
}

func (p *plan) applicable(e *Endpoint, w Win) bool {
	if w.S%e.Unit != 0 || w.E%e.Unit != 0 {
		return false
	}
	if e.OnlyLookback && w.E-w.S != 300e9 {
		return false
	}
	return true
}

const datesEnv = "VERIF_C13_DATES"

func main() {
	// flags are parsed by ev.Start in the parent; workers and helper roles parse them here
	if wkpool.IsWorker() {
		tier := flag.String("tier", "quick", "")
		flag.String("replay", "", "")
		flag.Parse()
		workerMain(*tier == "thorough")
		return
	}
	if os.Getenv(childEnv) != "" {
		childMain()
		return
	}
	for i, a := range os.Args {
		if a == "-role" || a == "--role" {
			if i+1 < len(os.Args) && os.Args[i+1] == "writer" {
				writerMain()
				return
			}
		}
	}
	parentMain()
}

// ---- worker ---------------------------------------------------------------------------------------------------

type caseOut struct {
	Key      string
	Findings []Finding
	Counters map[string]int64
	Outcomes []string
}

func loadDates() []*WriterDates {
	b, err := os.ReadFile(os.Getenv(datesEnv))
	if err != nil {
		fmt.Fprintln(os.Stderr, "c13 worker: dates file:", err)
		os.Exit(2)
	}
	var d []*WriterDates
	if err := json.Unmarshal(b, &d); err != nil {
		fmt.Fprintln(os.Stderr, "c13 worker: dates file:", err)
		os.Exit(2)
	}
	return d
}

func workerMain(thorough bool) {
	p := makePlan(thorough)
	p.Dates = loadDates()
	x := newExec()
	wkpool.Worker(len(p.Cells), func(i int) *wkpool.CaseResult {
		return runCell(p, x, p.Cells[i], "")
	})
}

// runCell runs every applicable endpoint in both layouts on one (window, writer zone) database.
func runCell(p *plan, x *Exec, cs cellSpec, only string) *wkpool.CaseResult {
	w := p.Wins[cs.Win]
	wd := p.Dates[cs.Writer]
	cell, err := buildCell(w, wd.Zone, classesOf(w), fromWriter(wd.Series), fromWriter(wd.Tags))
	if err != nil {
		fmt.Fprintln(os.Stderr, "c13 worker: cannot build database:", err)
		os.Exit(2)
	}
	res := &wkpool.CaseResult{Counters: map[string]int64{}, Key: ""}
	readerZone := os.Getenv("TZ")
	seenClass := map[string]bool{}
	for _, ep := range p.Eps {
		if only != "" && ep.Name != only {
			continue
		}
		if !p.applicable(ep, w) {
			res.Counters["skipped_window_not_expressible_or_not_lookback"]++
			continue
		}
		for _, cluster := range []bool{false, true} {
			fmt.Fprintf(os.Stderr, "c13: %s cluster=%v window=%s writer=%s reader=%s\n", ep.Name, cluster, w.Name, wd.Zone, readerZone)
			x.begin(cell)
			var obs []*Obs
			var stmts []StmtRec
			if ep.RunParts != nil {
				for _, pt := range ep.RunParts(x, cluster, w) {
					pc := *cell
					pc.Win = pt.Win
					obs = append(obs, judge(&pc, ep, cluster, pt.Resp, pt.Stmts, nil))
					stmts = append(stmts, pt.Stmts...)
				}
			} else {
				resp := ep.Run(x, cluster, w)
				stmts = x.taken()
				obs = append(obs, judge(cell, ep, cluster, resp, stmts, func(w2 Win) []StmtRec { x.begin(cell); ep.Run(x, cluster, w2); return x.taken() }))
			}
			o := mergeObs(obs)
			res.RealTraces++
			res.Counters["requests"]++
			res.Counters["statements"] += int64(len(stmts))
			for _, s := range stmts {
				for _, sc := range s.Scans {
					if k := tableKind[baseName(sc.Table)]; k != "" {
						res.Counters["scans_"+k]++
						res.Counters["rows_offered"] += int64(sc.Offered)
						res.Counters["rows_admitted"] += int64(sc.Admitted)
					}
				}
				if s.Class != "" {
					res.Counters["statements_"+s.Class]++
				}
			}
			res.Counters["items_owed"] += int64(o.MustN)
			res.Counters["items_returned"] += int64(len(o.Returned))
			if len(o.Unsupp) > 0 {
				res.Counters["unsupported_by_chsim"]++
				res.Outcomes = append(res.Outcomes, "unsupported:"+ep.Name)
				fmt.Fprintln(os.Stderr, "c13: UNSUPPORTED", o.Unsupp[0])
				continue
			}
			if len(o.Findings) == 0 {
				if len(o.Returned) > 0 {
					res.Outcomes = append(res.Outcomes, "ok_nonempty:"+ep.Group)
					res.Counters["shape_ok_nonempty:"+ep.Name]++
				} else {
					res.Outcomes = append(res.Outcomes, "ok_empty:"+ep.Group)
					res.Counters["shape_ok_empty:"+ep.Name]++
				}
			} else {
				res.Counters["shape_deviating:"+ep.Name]++
			}
			for _, f := range o.Findings {
				res.Outcomes = append(res.Outcomes, "deviation:"+f.Class)
				key := f.Class
				if seenClass[key] {
					continue // one replay per class and cell is enough
				}
				seenClass[key] = true
				rp, _ := json.Marshal(replayCase{Reader: readerZone, Writer: wd.Zone, Win: w, Endpoint: ep.Name, Cluster: cluster})
				res.Viols = append(res.Viols, wkpool.Viol{Class: f.Class, What: f.What, Replay: rp})
			}
		}
	}
	res.Key = fmt.Sprintf("%s/%s/%s", readerZone, wd.Zone, w.Name)
	return res
}

// mergeObs folds the observations of the parts of one request into one.
func mergeObs(obs []*Obs) *Obs {
	o := obs[0]
	for _, p := range obs[1:] {
		o.Returned = append(o.Returned, p.Returned...)
		o.Findings = append(o.Findings, p.Findings...)
		o.MustN += p.MustN
		o.Unsupp = append(o.Unsupp, p.Unsupp...)
	}
	return o
}

type replayCase struct {
	Reader   string `json:"reader_tz"`
	Writer   string `json:"writer_tz"`
	Win      Win    `json:"window"`
	Endpoint string `json:"endpoint"`
	Cluster  bool   `json:"cluster"`
}

// ---- parent ---------------------------------------------------------------------------------------------------

func parentMain() {
	r := ev.Start("C13", "model_checking", 75*time.Second, 17*time.Minute)
	if *probe || *role == "probe" {
		probeMain()
		return
	}
	if r.Replay != "" {
		replayMain(r)
		return
	}
	if *dumpFlag != "" {
		dumpMain(*dumpFlag)
		return
	}
	if err := checkWiring(); err != nil {
		ev.Fatal("%v", err)
	}
	p := makePlan(r.Thorough())
	r.Rule = "one case = (reader TZ, writer TZ, window, endpoint shape, table layout): the real reader route is called with the window on a database holding one datum per time class x signal type; the statements it sends are executed by chsim; distinct = distinct (reader TZ, writer TZ, window) databases"
	r.Assumptions = []string{
		"ClickHouse semantics of the statements = chsim (mc/chsim README: trusted base)",
		"the ClickHouse server's time zone is UTC (profiles_* index dates are computed by the server: toDate(intDiv(timestamp_ns, 1e9)))",
		"clustered layout = same rows reachable under the _dist names (no sharding model); what differs is the table names, inlined WITHs and the layout-specific planner branches",
		"one datum per identity: a series has one sample, a trace one span, a profile series one profile, so that every returned marker is one datum",
		"Tempo and Pyroscope APIs do not say whether a datum exactly at start/end belongs to the window: both instants are 'may' there; Loki: [start, end); Prometheus Select: [Start, End]",
		"settings/version rows as ctrl/qryn/sql leaves them (no 'tempo_v2' marker exists, so the tag search index carries date bounds only)",
	}
	// writer side: dates of every stored timestamp per writer zone, from the real writer code
	tss := allTimestamps(p.Wins)
	var wg sync.WaitGroup
	p.Dates = make([]*WriterDates, len(zoneNames))
	errs := make([]error, len(zoneNames))
	for i, z := range zoneNames {
		wg.Add(1)
		go func(i int, z string) {
			defer wg.Done()
			p.Dates[i], errs[i] = writerDatesFor(z, tss)
		}(i, z)
	}
	wg.Wait()
	for _, e := range errs {
		if e != nil {
			ev.Fatal("%v", e)
		}
	}
	scratch := os.Getenv("VERIF_SCRATCH")
	if scratch == "" {
		scratch = os.TempDir()
	}
	df, err := os.CreateTemp(scratch, "c13-dates-*.json")
	if err != nil {
		ev.Fatal("%v", err)
	}
	defer os.Remove(df.Name())
	json.NewEncoder(df).Encode(p.Dates)
	df.Close()
	writerShift := map[string]int{}
	for i, z := range zoneNames {
		for _, ts := range tss {
			k := fmt.Sprint(ts)
			if p.Dates[i].Series[k] != utcDay(ts) {
				writerShift[z+":time_series"]++
			}
			if p.Dates[i].Tags[k] != utcDay(ts) {
				writerShift[z+":tempo_traces_attrs_gin"]++
			}
		}
	}
	r.Extra["writer_dates_differing_from_utc_day"] = writerShift
	r.Extra["writer_date_source"] = "real writer code path per TZ subprocess: unmarshal.DecodePushRequestStringV2 / UnmarshalZipkinJSONV2 -> builder.go onEntries/onSpan -> service.DateAppender -> proto.ColDate"

	// reader side: one pool of worker processes per reader zone
	var mu sync.Mutex
	counters := map[string]int64{}
	perZone := map[string]int64{}
	workers := runtime.NumCPU() / len(zoneNames)
	if workers < 1 {
		workers = 1
	}
	if workers > 5 {
		workers = 5
	}
	var pool sync.WaitGroup
	poolErr := make([]error, len(zoneNames))
	for zi, z := range zoneNames {
		pool.Add(1)
		go func(zi int, z string) {
			defer pool.Done()
			sink := wkpool.Sink{
				Stats: func(s *wkpool.Stats) {
					mu.Lock()
					defer mu.Unlock()
					r.AddEval(s.Counters["requests"])
					r.TracesValidated += s.Traces
					r.States += s.Evals
					r.Transitions += s.Counters["statements"]
					for _, k := range s.Keys {
						r.Distinct(k)
					}
					for k, v := range s.Outcomes {
						for i := int64(0); i < v; i++ {
							r.Outcome(k)
						}
					}
					for k, v := range s.Counters {
						counters[k] += v
					}
					perZone[z] += s.Counters["requests"]
				},
				Violation: func(v *wkpool.Viol) {
					mu.Lock()
					defer mu.Unlock()
					var rp any
					json.Unmarshal(v.Replay, &rp)
					r.Violate(v.Class, v.What, rp)
				},
				Crash: func(idx int, tail string) {
					mu.Lock()
					defer mu.Unlock()
					ep := lastEndpoint(tail)
					r.Violate("worker_dies@"+ep, fmt.Sprintf("reader process (TZ=%s) dies 4 times out of 4 in cell %v: %s", z, p.Cells[idx], lastLines(tail, 6)),
						map[string]any{"reader_tz": z, "cell": p.Cells[idx], "window": p.Wins[p.Cells[idx].Win]})
				},
				Flaky: func(idx int, tail string) {
					mu.Lock()
					defer mu.Unlock()
					counters["flaky_worker_deaths"]++
				},
				Cap: func(why string) { r.Cap(why) },
			}
			args := []string{"--tier", r.Tier}
			poolErr[zi] = wkpool.Parent(len(p.Cells), wkpool.Options{Workers: workers, Deadline: r.Deadline, Args: args,
				Env: []string{"TZ=" + z, datesEnv + "=" + df.Name()}, MemKB: 6 << 20}, sink)
		}(zi, z)
	}
	// two requests at a time (pairs.go), while the worker pools run
	pairDone := make(chan struct{})
	go func() { defer close(pairDone); pairPass(r, p, counters, &mu) }()
	pool.Wait()
	<-pairDone
	for _, e := range poolErr {
		if e != nil {
			ev.Fatal("%v", e)
		}
	}
	// tail pass (process clock, see tail.go)
	tailPass(r, counters)

	if counters["unsupported_by_chsim"] > 0 {
		ev.Fatal("%d requests sent SQL outside the chsim subset (never a verdict; run with VERIF_C13_VERBOSE=1 or --dump)", counters["unsupported_by_chsim"])
	}
	r.Extra["windows"] = len(p.Wins)
	r.Extra["window_tags"] = tagCounts(p.Wins)
	r.Extra["time_classes_per_window"] = len(classesOf(p.Wins[0]))
	r.Extra["endpoint_shapes"] = len(p.Eps)
	r.Extra["endpoint_shape_names"] = endpointNames(p.Eps)
	r.Extra["reader_zones"] = zoneNames
	r.Extra["writer_zones"] = zoneNames
	r.Extra["layouts"] = []string{"single", "cluster"}
	perShape := map[string]map[string]int64{}
	for k, v := range counters {
		if strings.HasPrefix(k, "shape_") {
			kind, name, _ := strings.Cut(strings.TrimPrefix(k, "shape_"), ":")
			if perShape[name] == nil {
				perShape[name] = map[string]int64{}
			}
			perShape[name][kind] = v
			delete(counters, k)
		}
	}
	r.Extra["requests_per_endpoint_shape"] = perShape
	r.Extra["counters"] = counters
	r.Extra["requests_per_reader_zone"] = perZone
	r.Extra["worker_processes_per_reader_zone"] = workers
	r.Sample(map[string]any{"window": p.Wins[0].String(), "classes": classesOf(p.Wins[0])})
	r.Finish()
}

func tagCounts(ws []Win) map[string]int {
	m := map[string]int{}
	for _, w := range ws {
		for _, t := range w.Tags {
			m[t]++
		}
	}
	return m
}

func lastEndpoint(tail string) string {
	lines := strings.Split(strings.TrimSpace(tail), "\n")
	for i := len(lines) - 1; i >= 0; i-- {
		if strings.HasPrefix(lines[i], "c13: ") {
			f := strings.Fields(lines[i])
			if len(f) > 1 {
				return f[1]
			}
		}
	}
	return "unknown"
}

func lastLines(s string, n int) string {
	l := strings.Split(strings.TrimSpace(s), "\n")
	if len(l) > n {
		l = l[len(l)-n:]
	}
	return strings.Join(l, " | ")
}

func sortedKeys(m map[string]int64) []string {
	var k []string
	for s := range m {
		k = append(k, s)
	}
	sort.Strings(k)
	return k
}
