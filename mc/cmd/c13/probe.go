package main

// Plain reproductions of the suspected defects against the real code — no interpreter, no oracle: each line calls
// the repository's own function (writer parser + date column / reader planner or route) in a process whose TZ is
// set, and prints what it produced.   bin/check C13 --probe

import (
	"context"
	"database/sql/driver"
	"fmt"
	"os"
	"os/exec"
	"regexp"
	"strings"
	"sync"
	"time"

	"github.com/metrico/qryn/reader/logql/logql_transpiler_v2/clickhouse_planner"
	"github.com/metrico/qryn/reader/logql/logql_transpiler_v2/shared"
	prof_parser "github.com/metrico/qryn/reader/prof/parser"
	prof_transpiler "github.com/metrico/qryn/reader/prof/transpiler"
	"github.com/metrico/qryn/reader/tempo"
	"github.com/metrico/qryn/reader/traceql/transpiler/clickhouse_transpiler"
	sql "github.com/metrico/qryn/reader/utils/sql_select"

	"verif/mc/fakesql"
)

const probeEnv = "VERIF_C13_PROBE"

func probeMain() {
	if os.Getenv(probeEnv) != "" {
		probeChild()
		return
	}
	self, _ := os.Executable()
	for _, z := range zoneNames {
		cmd := exec.Command(self, "-probe")
		cmd.Env = append(os.Environ(), "TZ="+z, probeEnv+"=1")
		out, err := cmd.CombinedOutput()
		fmt.Print(string(out))
		if err != nil {
			fmt.Println("probe child failed:", err)
			os.Exit(2)
		}
	}
	os.Exit(0)
}

var probeDateRe = regexp.MustCompile(`\(?\bdate\)?\s*[<>]=?\s*\(?(toDate\()?'\d{4}-\d{2}-\d{2}'\)*`)
var probeTsRe = regexp.MustCompile(`timestamp_ns\)?\s*[<>]=?\s*\(?\d+\)?`)

func bounds(sqlText string) string {
	return strings.Join(append(probeDateRe.FindAllString(sqlText, -1), probeTsRe.FindAllString(sqlText, -1)...), "  ")
}

func render(p shared.SQLRequestPlanner, ctx *shared.PlannerContext) string {
	s, err := p.Process(ctx)
	if err != nil {
		return "planner error: " + err.Error()
	}
	str, err := s.String(&sql.Ctx{Params: map[string]sql.SQLObject{}, Result: map[string]sql.SQLObject{}})
	if err != nil {
		return "render error: " + err.Error()
	}
	return str
}

func probeChild() {
	report := os.Stdout
	devnull, _ := os.OpenFile(os.DevNull, os.O_WRONLY, 0)
	os.Stdout = devnull
	tz := os.Getenv("TZ")
	p := func(f string, a ...any) { fmt.Fprintf(report, "[TZ=%s] "+f+"\n", append([]any{tz}, a...)...) }
	utc := func(y int, m time.Month, d, hh, mm int) time.Time { return time.Date(y, m, d, hh, mm, 0, 0, time.UTC) }

	// ---- writer side (D9 and the tag date) ----
	initWriterGlobals()
	for _, t := range []time.Time{utc(2024, 1, 10, 2, 0), utc(2024, 1, 10, 12, 0), utc(2024, 1, 10, 20, 0)} {
		sd, err1 := seriesDayReal(t.UnixNano())
		td, err2 := tagDayReal(t.UnixNano())
		if err1 != nil || err2 != nil {
			p("writer probe failed: %v %v", err1, err2)
			os.Exit(2)
		}
		p("writer: sample/span at %s -> time_series.date=%s tempo_traces_attrs_gin.date=%s (UTC day %s)%s", t.Format(time.RFC3339), dayStr(sd), dayStr(td),
			dayStr(utcDay(t.UnixNano())), mark(sd != utcDay(t.UnixNano()), " <-- D9: series row dated off the UTC day")+mark(td != utcDay(t.UnixNano()), " <-- D130: tag row dated by the LOCAL day"))
	}

	// ---- reader side: date bounds of the planners ----
	from, to := utc(2024, 1, 10, 1, 0), utc(2024, 1, 10, 2, 0) // 02:00Z = 18:00 on Jan 9 in Los Angeles
	ctx := func(f, t time.Time) *shared.PlannerContext {
		return &shared.PlannerContext{From: time.Unix(f.Unix(), 0), To: time.Unix(t.Unix(), 0), TimeSeriesGinTableName: "time_series_gin",
			TimeSeriesTableName: "time_series", TimeSeriesDistTableName: "time_series_dist", SamplesTableName: "samples_v3",
			TracesAttrsTable: "tempo_traces_attrs_gin", TracesAttrsDistTable: "tempo_traces_attrs_gin_dist", TracesKVDistTable: "tempo_traces_kv",
			ProfilesSeriesGinTable: "profiles_series_gin", ProfilesSeriesGinDistTable: "profiles_series_gin", ProfilesSeriesDistTable: "profiles_series",
			ProfilesSeriesTable: "profiles_series", ProfilesDistTable: "profiles", Limit: 10}
	}
	p("window %s .. %s", from.Format(time.RFC3339), to.Format(time.RFC3339))
	p("D32 ValuesPlanner        : %s", bounds(render(clickhouse_planner.NewValuesPlanner(nil, "cls"), ctx(from, to))))
	fp := clickhouse_planner.NewStreamSelectPlanner([]string{"job"}, []string{"="}, []string{"c13"})
	p("D32 SeriesPlanner        : %s", bounds(render(clickhouse_planner.NewSeriesPlanner(fp), ctx(from, to))))
	p("    StreamSelectPlanner  : %s   (FormatFromDate: UTC, lower bound only)", bounds(render(fp, ctx(from, to))))
	p("D32 TraceQL InitIndex    : %s", bounds(render(clickhouse_transpiler.NewInitIndexPlanner(false), ctx(from, to))))
	idx := &tempo.SQLIndexQuery{Tags: "job=c13", FromNS: from.UnixNano(), ToNS: to.UnixNano(), Database: "qryn"}
	if s, err := idx.String(&sql.Ctx{}); err == nil {
		p("D32 tempo SQLIndexQuery  : %s", bounds(s))
	} else {
		p("tempo SQLIndexQuery error: %v", err)
	}
	from2, to2 := utc(2024, 1, 10, 0, 1), utc(2024, 1, 10, 0, 10) // a window just after UTC midnight
	p("window %s .. %s", from2.Format(time.RFC3339), to2.Format(time.RFC3339))
	script, err := prof_parser.Parse(`{job="c13"}`)
	if err != nil {
		p("prof parser: %v", err)
		os.Exit(2)
	}
	if pl, err := prof_transpiler.PlanLabelNames([]*prof_parser.Script{script}); err == nil {
		p("D33 prof LabelNames(+selector): %s", bounds(render(pl, ctx(from2, to2))))
	}
	if pl, err := prof_transpiler.PlanSeries(nil, nil); err == nil {
		p("D33 prof Series (all)    : %s", bounds(render(pl, ctx(from2, to2))))
	}
	p("D33b traceql AllTags     : %s", bounds(render(&clickhouse_transpiler.AllTagsRequestPlanner{}, ctx(from2, to2))))
	p("D33b traceql AllValues   : %s", bounds(render(&clickhouse_transpiler.AllValuesRequestPlanner{Key: "cls"}, ctx(from2, to2))))

	// ---- query_range: what the route does with sub-second bounds (statements recorded by a scripted driver that
	// answers every query with no rows) ----
	var mu sync.Mutex
	var seen []string
	h := newReaderSide(func(_ context.Context, q string, _ []driver.NamedValue) (*fakesql.Result, error) {
		mu.Lock()
		seen = append(seen, q)
		mu.Unlock()
		if strings.HasPrefix(q, "SHOW") {
			return fakesql.NewResult("name"), nil
		}
		return fakesql.NewResult("a", "b", "c", "d", "e"), nil
	}, "")
	x := &Exec{single: h, cluster: h}
	s, e := int64(1706745598401000000), int64(1706745603250000000)
	x.http(false, "GET", fmt.Sprintf("/loki/api/v1/query_range?query=%s&start=%d&end=%d&limit=10", q(sel), s, e), "", nil)
	mu.Lock()
	for _, st := range seen {
		if strings.Contains(st, "samples") && strings.Contains(st, "timestamp_ns") {
			p("query_range start=%d end=%d -> %s%s", s, e, bounds(st), mark(!strings.Contains(st, fmt.Sprint(s)), " <-- D131: bounds truncated to whole seconds"))
		}
	}
	mu.Unlock()
	os.Exit(0)
}

func mark(b bool, s string) string {
	if b {
		return s
	}
	return ""
}
